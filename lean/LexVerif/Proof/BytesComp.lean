import LexVerif.Proof.BytesCompare
import LexVerif.Proof.BytesMul
import LexVerif.Proof.SlowRegimes
/-!
# Proof.BytesComp — `byte_comp` composed

`byte_comp(number, fp, sci_exp)`: round the estimate down to `b`, take `b + h = m·2^te`, build `num/den = (b + h) / radix^sci`
as two big integers with exponents (`Bigfloat::pow`, `large_mul`), shift the denominator so that its top limb has
`integral_binary_factor(radix)` leading zeros **modulo 32** (`den_top`: its top limb then lies in `[2^25, 2^(64−wlz))`), align
the exponents by shifting the numerator, or the numerator by bits and the denominator by whole limbs (`align_spec`), run
`compare_bytes`, and round the estimate with the outcome.
-/
namespace LexVerif.Proof.Slow
open LexVerif.Spec LexVerif.Model LexVerif.Model.Slow LexVerif.Model.Bellerophon
open LexVerif.Proof.RoundNE LexVerif.Proof.ExtRound LexVerif.Proof.BinaryCorrect

theorem B64_pow (n : Nat) : B64 ^ n = 2 ^ (64 * n) := by unfold B64; rw [← Nat.pow_mul]

/-- a normalised vector whose value has bit length `64·m + a' + 1` (`a' < 64`): `m + 1` limbs, top limb of bit length
`a' + 1` -/
theorem top_of_bitlen {zs : Limbs} {t1 : Nat} (hz : Normalized (zs ++ [t1])) (m a' : Nat) (ha : a' < 64)
    (hlo : 2 ^ (64 * m + a') ≤ valL (zs ++ [t1])) (hhi : valL (zs ++ [t1]) < 2 ^ (64 * m + a' + 1)) :
    zs.length = m ∧ 2 ^ a' ≤ t1 ∧ t1 + 1 ≤ 2 ^ (a' + 1) := by
  have ozs := (limbsOk_append.mp hz.1).1
  have ht1 : t1 < B64 := hz.1 t1 (by simp)
  have ht0 : t1 ≠ 0 := hz.2 t1 (by simp)
  have hzs := valL_lt ozs
  rw [valL_append] at hlo hhi
  rw [B64_pow] at hzs hlo hhi
  have hBpos : 0 < 2 ^ (64 * zs.length) := Nat.two_pow_pos _
  have h1 : 2 ^ (64 * zs.length) ≤ valL zs + 2 ^ (64 * zs.length) * t1 := by
    have : 2 ^ (64 * zs.length) * 1 ≤ 2 ^ (64 * zs.length) * t1 := Nat.mul_le_mul_left _ (by omega)
    omega
  have h2 : valL zs + 2 ^ (64 * zs.length) * t1 < 2 ^ (64 * (zs.length + 1)) := by
    have : 2 ^ (64 * zs.length) * (t1 + 1) ≤ 2 ^ (64 * zs.length) * B64 := Nat.mul_le_mul_left _ ht1
    have e : 2 ^ (64 * zs.length) * B64 = 2 ^ (64 * (zs.length + 1)) := by
      unfold B64; rw [← Nat.pow_add]; congr 1
    rw [Nat.mul_add, Nat.mul_one] at this
    omega
  have hlen : zs.length = m := by
    have a1 : 2 ^ (64 * zs.length) < 2 ^ (64 * m + a' + 1) := by omega
    have a2 : 2 ^ (64 * m + a') < 2 ^ (64 * (zs.length + 1)) := by omega
    have b1 := (Nat.pow_lt_pow_iff_right (by decide : 1 < 2)).mp a1
    have b2 := (Nat.pow_lt_pow_iff_right (by decide : 1 < 2)).mp a2
    omega
  refine ⟨hlen, ?_, ?_⟩
  · rw [hlen] at hlo hzs
    rw [Nat.pow_add] at hlo
    apply Classical.byContradiction; intro hcon
    have : 2 ^ (64 * m) * (t1 + 1) ≤ 2 ^ (64 * m) * 2 ^ a' := Nat.mul_le_mul_left _ (by omega)
    rw [Nat.mul_add, Nat.mul_one] at this
    omega
  · rw [hlen] at hhi
    rw [show 64 * m + a' + 1 = 64 * m + (a' + 1) by omega, Nat.pow_add] at hhi
    apply Classical.byContradiction; intro hcon
    have : 2 ^ (64 * m) * 2 ^ (a' + 1) ≤ 2 ^ (64 * m) * t1 := Nat.mul_le_mul_left _ (by omega)
    omega

/-- **the normalisation shift of the denominator**: after `shl_bits((clz(top) − wlz) & 31)` the top limb has `wlz` or
`wlz + 32` leading zeros -/
theorem den_top {ds : Limbs} {t : Nat} (hD : Normalized (ds ++ [t])) (wlz : Nat) (hw1 : 1 ≤ wlz) (hw6 : wlz ≤ 6)
    (D1 : Limbs) (hD1 : Normalized D1)
    (hv : valL D1 = valL (ds ++ [t]) * 2 ^ ((clz64 t + 2 ^ 32 - wlz) % 2 ^ 32 % 32)) :
    ∃ ds1 t1, D1 = ds1 ++ [t1] ∧ 2 ^ 25 ≤ t1 ∧ t1 + 1 ≤ 2 ^ (64 - wlz) := by
  have ods := (limbsOk_append.mp hD.1).1
  have ht : t < B64 := hD.1 t (by simp)
  have ht0 : t ≠ 0 := hD.2 t (by simp)
  obtain ⟨hlz, c1, c2, _⟩ := clz_norm ht0 ht
  generalize hlzv : clz64 t = lz at *
  generalize hnlz : (lz + 2 ^ 32 - wlz) % 2 ^ 32 % 32 = nlz at *
  have h32 : (2 : Nat) ^ 32 = 4294967296 := by norm_num
  have hds := valL_lt ods
  rw [B64_pow] at hds
  -- bounds on `t`
  have tl : 2 ^ (63 - lz) ≤ t := by
    have : 2 ^ (63 - lz) * 2 ^ lz ≤ t * 2 ^ lz := by
      rw [← Nat.pow_add, show 63 - lz + lz = 63 by omega]; exact c1
    exact Nat.le_of_mul_le_mul_right this (Nat.two_pow_pos _)
  have tu : t + 1 ≤ 2 ^ (64 - lz) := by
    have : t * 2 ^ lz < 2 ^ (64 - lz) * 2 ^ lz := by
      rw [← Nat.pow_add, show 64 - lz + lz = 64 by omega]; exact c2
    exact Nat.lt_of_mul_lt_mul_right this
  -- bounds on the shifted value
  have hY1lo : 2 ^ (64 * ds.length + (63 - lz + nlz)) ≤ valL D1 := by
    rw [hv, valL_append, B64_pow]
    calc 2 ^ (64 * ds.length + (63 - lz + nlz)) = 2 ^ (64 * ds.length) * 2 ^ (63 - lz) * 2 ^ nlz := by
          rw [Nat.pow_add, Nat.pow_add]; ring
      _ ≤ (2 ^ (64 * ds.length) * t) * 2 ^ nlz :=
          Nat.mul_le_mul_right _ (Nat.mul_le_mul_left _ tl)
      _ ≤ (valL ds + 2 ^ (64 * ds.length) * t) * 2 ^ nlz := Nat.mul_le_mul_right _ (Nat.le_add_left _ _)
  have hY1hi : valL D1 < 2 ^ (64 * ds.length + (63 - lz + nlz) + 1) := by
    rw [hv, valL_append, B64_pow]
    have h1 : valL ds + 2 ^ (64 * ds.length) * t < 2 ^ (64 * ds.length) * 2 ^ (64 - lz) := by
      have : 2 ^ (64 * ds.length) * (t + 1) ≤ 2 ^ (64 * ds.length) * 2 ^ (64 - lz) := Nat.mul_le_mul_left _ tu
      rw [Nat.mul_add, Nat.mul_one] at this
      omega
    calc (valL ds + 2 ^ (64 * ds.length) * t) * 2 ^ nlz < (2 ^ (64 * ds.length) * 2 ^ (64 - lz)) * 2 ^ nlz :=
          Nat.mul_lt_mul_of_pos_right h1 (Nat.two_pow_pos _)
      _ = 2 ^ (64 * ds.length + (63 - lz + nlz) + 1) := by
          rw [← Nat.pow_add, ← Nat.pow_add]; congr 1; omega
  -- the exponent splits as `64·m + a'` with `a' = 63 − wlz` or `31 − wlz`
  obtain ⟨m, a', ha', hsum⟩ : ∃ m a', (a' = 63 - wlz ∨ a' = 31 - wlz) ∧
      64 * ds.length + (63 - lz + nlz) = 64 * m + a' := by
    rw [h32] at hnlz
    by_cases hc1 : wlz ≤ lz
    · by_cases hc2 : lz - wlz < 32
      · exact ⟨ds.length, 63 - wlz, Or.inl rfl, by omega⟩
      · exact ⟨ds.length, 31 - wlz, Or.inr rfl, by omega⟩
    · exact ⟨ds.length + 1, 31 - wlz, Or.inr rfl, by omega⟩
  rw [hsum] at hY1lo hY1hi
  have hne : D1 ≠ [] := by
    intro h0; rw [h0] at hY1lo; simp [valL] at hY1lo
  rcases eq_nil_or_snoc D1 with h0 | ⟨ds1, t1, rfl⟩
  · exact absurd h0 hne
  obtain ⟨_, g1, g2⟩ := top_of_bitlen hD1 m a' (by rcases ha' with h | h <;> omega) hY1lo hY1hi
  refine ⟨ds1, t1, rfl, ?_, ?_⟩
  · have : 2 ^ 25 ≤ 2 ^ a' := Nat.pow_le_pow_right (by decide) (by rcases ha' with h | h <;> omega)
    omega
  · have : 2 ^ (a' + 1) ≤ 2 ^ (64 - wlz) := Nat.pow_le_pow_right (by decide) (by rcases ha' with h | h <;> omega)
    omega

/-! ## arithmetic of the comparison -/

theorem cmp_mul_right (a b c : Nat) (hc : 0 < c) : compare (a * c) (b * c) = compare a b := by
  rcases Nat.lt_trichotomy a b with h | h | h
  · rw [cmp_lt h, cmp_lt (Nat.mul_lt_mul_of_pos_right h hc)]
  · rw [cmp_eq h, cmp_eq (by rw [h])]
  · rw [cmp_gt h, cmp_gt (Nat.mul_lt_mul_of_pos_right h hc)]

/-- two comparisons that become the same after scaling by positive factors -/
theorem cmp_scale2 (a b a' b' U W : Nat) (hU : 0 < U) (hW : 0 < W) (ha : a * U = a' * W) (hb : b * U = b' * W) :
    compare a b = compare a' b' := by
  rw [← cmp_mul_right a b U hU, ha, hb, cmp_mul_right a' b' W hW]

theorem scale_eq (S r : Nat) (a1 a2 b1 b2 c1 c2 d1 d2 : Nat) (hr : a1 + a2 = c1 + c2) (h2 : b1 + b2 = d1 + d2) :
    (S * r ^ a1 * 2 ^ b1) * (r ^ a2 * 2 ^ b2) = (S * r ^ c1 * 2 ^ d1) * (r ^ c2 * 2 ^ d2) := by
  have e1 : r ^ a1 * r ^ a2 = r ^ c1 * r ^ c2 := by rw [← Nat.pow_add, ← Nat.pow_add, hr]
  have e2 : (2 : Nat) ^ b1 * 2 ^ b2 = 2 ^ d1 * 2 ^ d2 := by rw [← Nat.pow_add, ← Nat.pow_add, h2]
  calc (S * r ^ a1 * 2 ^ b1) * (r ^ a2 * 2 ^ b2) = S * (r ^ a1 * r ^ a2) * (2 ^ b1 * 2 ^ b2) := by ring
    _ = S * (r ^ c1 * r ^ c2) * (2 ^ d1 * 2 ^ d2) := by rw [e1, e2]
    _ = _ := by ring

/-- **the digit comparison is the comparison of the value with `b + h`**: `X/Y = m·2^te / r^sci` (cross-multiplied,
`hXY`), the value is `S·r^(sci + 1 − N)`, `te = k − (L + 1)` -/
theorem cmp_transfer (S r m N k L X Y : Nat) (sci te : Int) (hr : 0 < r) (hY : 0 < Y) (hte : te = (k : Int) - (L + 1))
    (hXY : X * (r ^ sci.toNat * 2 ^ (-te).toNat) = Y * (m * 2 ^ te.toNat * r ^ (-sci).toNat)) :
    compare (S * Y * r) (X * r ^ N) =
      compare (2 * ((powFrac r (sci + 1 - N) S).1 * 2 ^ L)) (m * 2 ^ k * (powFrac r (sci + 1 - N) S).2) := by
  have hApos : 0 < r ^ sci.toNat * 2 ^ (-te).toNat := Nat.mul_pos (Nat.pow_pos hr) (Nat.two_pow_pos _)
  -- first: eliminate `X`, `Y`
  have step1 : compare (S * Y * r) (X * r ^ N) =
      compare (S * r ^ (1 + sci.toNat) * 2 ^ (-te).toNat) (m * r ^ ((-sci).toNat + N) * 2 ^ te.toNat) := by
    rw [← cmp_mul_right (S * Y * r) (X * r ^ N) _ hApos]
    have e1 : S * Y * r * (r ^ sci.toNat * 2 ^ (-te).toNat) = (S * r ^ (1 + sci.toNat) * 2 ^ (-te).toNat) * Y := by
      rw [Nat.pow_add, Nat.pow_one]; ring
    have e2 : X * r ^ N * (r ^ sci.toNat * 2 ^ (-te).toNat) = (m * r ^ ((-sci).toNat + N) * 2 ^ te.toNat) * Y := by
      calc X * r ^ N * (r ^ sci.toNat * 2 ^ (-te).toNat) = (X * (r ^ sci.toNat * 2 ^ (-te).toNat)) * r ^ N := by ring
        _ = (Y * (m * 2 ^ te.toNat * r ^ (-sci).toNat)) * r ^ N := by rw [hXY]
        _ = _ := by rw [Nat.pow_add]; ring
    rw [e1, e2, cmp_mul_right _ _ Y hY]
  rw [step1]
  have hpf : powFrac r (sci + 1 - N) S = (S * r ^ (sci + 1 - N).toNat, r ^ (-(sci + 1 - N)).toNat) := by
    unfold powFrac; split
    · rename_i h; have : (-(sci + 1 - (N : Int))).toNat = 0 := by omega
      rw [this]; simp
    · rename_i h; have : (sci + 1 - (N : Int)).toNat = 0 := by omega
      rw [this]; simp
  rw [hpf]
  dsimp only
  generalize he1 : (sci + 1 - (N : Int)).toNat = e1
  generalize he2 : (-(sci + 1 - (N : Int))).toNat = e2
  generalize hs1 : sci.toNat = s1
  generalize hs2 : (-sci).toNat = s2
  generalize ht1 : te.toNat = t1
  generalize ht2 : (-te).toNat = t2
  apply cmp_scale2 _ _ _ _ (r ^ (e1 + e2 + s2 + N) * 2 ^ (L + 1 + k)) (r ^ (1 + s1 + e2 + s2 + N) * 2 ^ (t2 + k))
    (Nat.mul_pos (Nat.pow_pos hr) (Nat.two_pow_pos _)) (Nat.mul_pos (Nat.pow_pos hr) (Nat.two_pow_pos _))
  · have := scale_eq S r (1 + s1) (e1 + e2 + s2 + N) t2 (L + 1 + k) e1 (1 + s1 + e2 + s2 + N) (L + 1) (t2 + k)
      (by omega) (by omega)
    calc S * r ^ (1 + s1) * 2 ^ t2 * (r ^ (e1 + e2 + s2 + N) * 2 ^ (L + 1 + k)) =
          S * r ^ e1 * 2 ^ (L + 1) * (r ^ (1 + s1 + e2 + s2 + N) * 2 ^ (t2 + k)) := this
      _ = 2 * (S * r ^ e1 * 2 ^ L) * (r ^ (1 + s1 + e2 + s2 + N) * 2 ^ (t2 + k)) := by rw [Nat.pow_succ]; ring
  · have := scale_eq m r (s2 + N) (e1 + e2 + s2 + N) t1 (L + 1 + k) e2 (1 + s1 + e2 + s2 + N) k (t2 + k)
      (by omega) (by omega)
    calc m * r ^ (s2 + N) * 2 ^ t1 * (r ^ (e1 + e2 + s2 + N) * 2 ^ (L + 1 + k)) =
          m * r ^ e2 * 2 ^ k * (r ^ (1 + s1 + e2 + s2 + N) * 2 ^ (t2 + k)) := this
      _ = m * 2 ^ k * r ^ e2 * (r ^ (1 + s1 + e2 + s2 + N) * 2 ^ (t2 + k)) := by ring

/-! ## `byte_comp` in named pieces -/

/-- numerator and denominator of `(b + h) / radix^sci` -/
def pairL (cap : Nat) (sciExp : Int) (theor factor : BF) : Option (BF × BF) :=
  if sciExp < 0 then
    (largeMulL cap factor.data theor.data).map fun d => (⟨d, factor.exp⟩, ⟨fromU64L 1, -theor.exp⟩)
  else some (theor, factor)

/-- the normalisation shift of the denominator -/
def normDenL (cap wlz : Nat) (den : BF) : Option BF :=
  let nlz := (leadingZerosL den.data + 2 ^ 32 - wlz) % 2 ^ 32 % 32
  if nlz ≠ 0 then (shlBitsL cap den.data nlz).map fun d => ⟨d, den.exp - nlz⟩ else some den

/-- the alignment of the exponents -/
def alignL (cap : Nat) (num den : BF) : Option (BF × BF) :=
  let diff := wrapI32 (den.exp - num.exp)
  let shift := diff.natAbs
  if diff < 0 then (shlL cap num.data shift).map fun d => (⟨d, num.exp - shift⟩, den)
  else if diff > 0 then
    let q := if shift % 64 = 0 then shift / 64 else shift / 64 + 1
    let r := if shift % 64 = 0 then 0 else 64 - shift % 64
    let num1 : Option BF := if r ≠ 0 then (shlBitsL cap num.data r).map fun d => ⟨d, num.exp - r⟩ else some num
    num1.bind fun num =>
      if q ≠ 0 then (shlLimbsL cap den.data q).map fun d => (num, ⟨d, den.exp - 64 * q⟩) else some (num, den)
  else some (num, den)

theorem byteComp_eq (E : Env) (F : FTy) (radix : Nat) (integer : List Nat) (fraction : Option (List Nat))
    (fp : ExtendedFloat80) (sciExp : Int) :
    byteComp E F radix integer fraction fp sciExp =
      if E.debug && fp.mant / 2 ^ 63 % 2 = 0 then none else
      let cap := E.L.bigfloatBits / E.L.limbBits
      let bh := bhOf F (extendedToFloat F (round F fp roundDown))
      (bigfloatPow E cap ⟨fromU64L 1, 0⟩ radix sciExp.natAbs).bind fun factor =>
        (pairL cap sciExp ⟨fromU64L bh.mant, bh.exp⟩ factor).bind fun nd =>
          (normDenL cap (E.L.integralBinaryFactor radix) nd.2).bind fun den =>
            (alignL cap nd.1 den).bind fun nd2 =>
              (compareBytes cap radix integer fraction nd2.1.data nd2.2.data).map fun ord =>
                round F fp fun f s => roundNearestTieEven f s fun isOdd _ _ => ordUp ord isOdd := rfl

/-! ## the pieces -/

theorem shlBitsL_len {cap : Nat} {x : Limbs} (ox : LimbsOk x) (hlen : x.length ≤ cap) {n : Nat} (hn0 : 0 < n) (hn : n < 64)
    {z : Limbs} (h : shlBitsL cap x n = some z) : z.length ≤ cap := by
  obtain ⟨_, h2, _, _⟩ := shlBitsGo_spec n hn0 hn x 0 ox B64_pos
  unfold shlBitsL at h
  dsimp only at h
  split at h
  · unfold tryPush at h
    split at h
    · injection h with h; subst h; simp; omega
    · exact absurd h (by simp)
  · injection h with h; subst h; rw [h2]; exact hlen

theorem leadingZerosL_snoc (ds : Limbs) (t : Nat) : leadingZerosL (ds ++ [t]) = clz64 t := by
  unfold leadingZerosL; simp

/-- the normalised denominator -/
theorem normDenL_spec {cap wlz : Nat} (hw1 : 1 ≤ wlz) (hw6 : wlz ≤ 6) {den d1 : BF} (hn : Normalized den.data)
    (hne : den.data ≠ []) (hl : den.data.length ≤ cap) (h : normDenL cap wlz den = some d1) :
    ∃ nlz : Nat, nlz < 32 ∧ d1.exp = den.exp - nlz ∧ Normalized d1.data ∧ valL d1.data = valL den.data * 2 ^ nlz ∧
      d1.data.length ≤ cap ∧ ∃ ds1 t1, d1.data = ds1 ++ [t1] ∧ 2 ^ 25 ≤ t1 ∧ t1 + 1 ≤ 2 ^ (64 - wlz) := by
  rcases eq_nil_or_snoc den.data with h0 | ⟨ds, t, hdt⟩
  · exact absurd h0 hne
  unfold normDenL at h
  rw [hdt, leadingZerosL_snoc] at h
  dsimp only at h
  generalize hnlz : (clz64 t + 2 ^ 32 - wlz) % 2 ^ 32 % 32 = nlz at h
  have hlt : nlz < 32 := by rw [← hnlz]; exact Nat.mod_lt _ (by decide)
  refine ⟨nlz, hlt, ?_⟩
  by_cases h0 : nlz = 0
  · rw [if_neg (by simpa using h0)] at h
    injection h with h; subst h
    refine ⟨by rw [h0]; simp, hn, by rw [h0]; simp, hl, ?_⟩
    exact den_top (by rw [← hdt]; exact hn) wlz hw1 hw6 den.data hn (by rw [hnlz, h0, hdt]; simp)
  · rw [if_pos h0] at h
    obtain ⟨D1, hD1, hd1⟩ := Option.map_eq_some_iff.mp h
    subst hd1
    rw [← hdt] at hD1
    obtain ⟨b1, _⟩ := shlBitsL_spec (cap := cap) hn hl (Nat.pos_of_ne_zero h0) (by omega : nlz < 64)
    obtain ⟨n1, v1⟩ := b1 D1 hD1
    refine ⟨rfl, n1, v1, shlBitsL_len hn.1 hl (Nat.pos_of_ne_zero h0) (by omega) hD1, ?_⟩
    exact den_top (by rw [← hdt]; exact hn) wlz hw1 hw6 D1 n1 (by rw [hnlz, v1, hdt])

/-- the aligned pair: the numerator shifted by `s1` bits, the denominator by `s2` bits (whole limbs: its top limb is
kept), `s1 − s2` the difference of the exponents -/
theorem alignL_spec {cap : Nat} {num den : BF} {nd2 : BF × BF} (hN : Normalized num.data) (hNne : num.data ≠ [])
    (hNl : num.data.length ≤ cap) (hD : Normalized den.data) (hDne : den.data ≠ [])
    (he1 : -(2 ^ 30 : Int) < num.exp ∧ num.exp < 2 ^ 30) (he2 : -(2 ^ 30 : Int) < den.exp ∧ den.exp < 2 ^ 30)
    (h : alignL cap num den = some nd2) :
    ∃ s1 s2 qq : Nat, Normalized nd2.1.data ∧ valL nd2.1.data = valL num.data * 2 ^ s1 ∧
      nd2.2.data = List.replicate qq 0 ++ den.data ∧ valL nd2.2.data = valL den.data * 2 ^ s2 ∧
      (qq ≠ 0 → qq + den.data.length ≤ cap) ∧ (s1 : Int) - s2 = num.exp - den.exp := by
  have h30 : (2 : Int) ^ 30 = 1073741824 := by norm_num
  have h31 : (2 : Int) ^ 31 = 2147483648 := by norm_num
  have hw : wrapI32 (den.exp - num.exp) = den.exp - num.exp := wrapI32_eq (by omega) (by omega)
  unfold alignL at h
  rw [hw] at h
  dsimp only at h
  by_cases hneg : den.exp - num.exp < 0
  · rw [if_pos hneg] at h
    obtain ⟨d, hd, rfl⟩ := Option.map_eq_some_iff.mp h
    obtain ⟨a1, _⟩ := shlL_spec (cap := cap) hN hNne hNl (den.exp - num.exp).natAbs
    obtain ⟨n1, v1⟩ := a1 d hd
    exact ⟨(den.exp - num.exp).natAbs, 0, 0, n1, v1, by simp, by simp, fun h => absurd rfl h, by omega⟩
  · rw [if_neg hneg] at h
    by_cases hpos : den.exp - num.exp > 0
    · rw [if_pos hpos] at h
      generalize hsh : (den.exp - num.exp).natAbs = shift at h
      have hshift : (shift : Int) = den.exp - num.exp := by omega
      generalize hq : (if shift % 64 = 0 then shift / 64 else shift / 64 + 1) = qq at h
      generalize hr : (if shift % 64 = 0 then 0 else 64 - shift % 64) = rr at h
      have hqr : 64 * qq = shift + rr ∧ rr < 64 := by
        have := Nat.div_add_mod shift 64
        by_cases hm : shift % 64 = 0
        · rw [if_pos hm] at hq hr; omega
        · rw [if_neg hm] at hq hr
          have := Nat.mod_lt shift (show 0 < 64 by decide)
          omega
      obtain ⟨num1, hn1, h⟩ := Option.bind_eq_some_iff.mp h
      -- the numerator
      have hnum1 : Normalized num1.data ∧ valL num1.data = valL num.data * 2 ^ rr := by
        by_cases hr0 : rr = 0
        · rw [if_neg (by simpa using hr0)] at hn1
          injection hn1 with hn1; subst hn1
          exact ⟨hN, by rw [hr0]; simp⟩
        · rw [if_pos hr0] at hn1
          obtain ⟨d, hd, rfl⟩ := Option.map_eq_some_iff.mp hn1
          obtain ⟨b1, _⟩ := shlBitsL_spec (cap := cap) hN hNl (Nat.pos_of_ne_zero hr0) hqr.2
          exact b1 d hd
      by_cases hq0 : qq = 0
      · rw [if_neg (by simpa using hq0)] at h
        injection h with h; subst h
        exact ⟨rr, 0, 0, hnum1.1, hnum1.2, by simp, by simp, fun h => absurd rfl h, by omega⟩
      · rw [if_pos hq0] at h
        obtain ⟨d, hd, rfl⟩ := Option.map_eq_some_iff.mp h
        unfold shlLimbsL at hd
        split at hd
        · exact absurd hd (by simp)
        · rename_i hcap
          have hemp : den.data.isEmpty = false := by
            cases hdd : den.data with
            | nil => exact absurd hdd hDne
            | cons a as => rfl
          rw [hemp] at hd
          simp only [Bool.false_eq_true, if_false] at hd
          injection hd with hd; subst hd
          refine ⟨rr, 64 * qq, qq, hnum1.1, hnum1.2, rfl, ?_, fun _ => by omega, by omega⟩
          rw [valL_zeros_append, B64_pow, Nat.mul_comm]
    · rw [if_neg hpos] at h
      injection h with h; subst h
      exact ⟨0, 0, 0, hN, by simp, by simp, by simp, fun h => absurd rfl h, by omega⟩

/-! ## `byte_comp` -/

/-- the table facts `byte_comp` uses for a radix without a digit limit -/
structure ByteTables (E : Env) (r : Nat) : Prop where
  dbg : E.debug = false
  r2 : 2 ≤ r
  split : E.L.splitRadix r = (r, 0)
  pow : PowOkL E (E.L.bigfloatBits / E.L.limbBits) r
  cap1 : 1 ≤ E.L.bigfloatBits / E.L.limbBits
  w1 : 1 ≤ E.L.integralBinaryFactor r
  w6 : E.L.integralBinaryFactor r ≤ 6
  wr : r + 1 ≤ 2 ^ E.L.integralBinaryFactor r

theorem normalized_single {m : Nat} (h0 : m ≠ 0) (hB : m < B64) : Normalized [m] :=
  ⟨fun l hl => by simp at hl; rw [hl]; exact hB, fun l hl => by simp at hl; rw [← hl]; exact h0⟩

theorem fromU64L_ne {m : Nat} (h0 : m ≠ 0) : fromU64L m = [m] := by unfold fromU64L; rw [if_neg h0]

/-- `Bigfloat::pow` of one -/
theorem bigfloatPow_one {E : Env} {r : Nat} (T : ByteTables E r) (j : Nat) {f : BF}
    (h : bigfloatPow E (E.L.bigfloatBits / E.L.limbBits) ⟨fromU64L 1, 0⟩ r j = some f) :
    f.exp = 0 ∧ Normalized f.data ∧ valL f.data = r ^ j ∧ f.data.length ≤ E.L.bigfloatBits / E.L.limbBits ∧
      f.data ≠ [] := by
  unfold bigfloatPow at h
  rw [T.split] at h
  have hr0 : r ≠ 0 := by have := T.r2; omega
  simp only [hr0, ne_eq, not_false_eq_true, if_true, not_true_eq_false, if_false] at h
  obtain ⟨d, hd, rfl⟩ := Option.map_eq_some_iff.mp h
  rw [fromU64L_ne (by decide : (1 : Nat) ≠ 0)] at hd
  obtain ⟨a1, _⟩ := powOddL_spec T.pow (x := [1]) (normalized_single (by decide) (by unfold B64; norm_num))
    (by simp) (by simpa using T.cap1) j
  obtain ⟨n1, v1, l1, ne1⟩ := a1 d hd
  exact ⟨rfl, n1, by rw [v1]; simp [valL], l1, ne1⟩

/-- **`byte_comp`**: if it returns (no capacity panic), it returns the estimate rounded according to the exact comparison
of the digits with `b + h`, i.e. `roundNE` of the value. `RF`: the facts about the estimate (`roundFacts_of_weak`);
`hX`: `(b + h) / r^sci < r + 1` — the first generated "digit" is at most `r`. -/
theorem byteComp_spec {E : Env} {F : FTy} {p eb : Nat} (lay : Layout F p eb)
    (hden : F.C.denormalExponent = 1 - F.C.exponentBias) {r : Nat} (T : ByteTables E r)
    (integer : List Nat) (fraction : Option (List Nat)) (hbi : ∀ c ∈ integer, c < 256)
    (hbf : ∀ fr, fraction = some fr → ∀ c ∈ fr, c < 256) (hne : sigBytes integer fraction ≠ [])
    (hvd : ValidDigits r (sigBytes integer fraction))
    (fp : ExtendedFloat80) (sci : Int) (hsci : -(2 ^ 20 : Int) < sci ∧ sci < 2 ^ 20) (k q : Nat)
    (RF : RoundFacts F p fp
      (powFrac r (sci + 1 - ((sigBytes integer fraction).length : Int)) (ofDigits r (dv r (sigBytes integer fraction)))).1
      (powFrac r (sci + 1 - ((sigBytes integer fraction).length : Int)) (ofDigits r (dv r (sigBytes integer fraction)))).2
      k q)
    (hX : (2 * q + 1) * 2 ^ ((k : Int) - F.C.exponentBias).toNat * r ^ (-sci).toNat <
      (r + 1) * (r ^ sci.toNat * 2 ^ (-((k : Int) - F.C.exponentBias)).toNat))
    {res : ExtendedFloat80} (h : byteComp E F r integer fraction fp sci = some res) :
    0 ≤ res.exp ∧ extendedToFloat F res = roundNE F.fmt
      (powFrac r (sci + 1 - ((sigBytes integer fraction).length : Int)) (ofDigits r (dv r (sigBytes integer fraction)))).1
      (powFrac r (sci + 1 - ((sigBytes integer fraction).length : Int)) (ofDigits r (dv r (sigBytes integer fraction)))).2 := by
  have hp := lay.hp; have hp64 := lay.hp64; have heb := lay.heb
  have hr2 := T.r2
  have hr0 : 0 < r := by omega
  have h20 : (2 : Int) ^ 20 = 1048576 := by norm_num
  have h30 : (2 : Int) ^ 30 = 1073741824 := by norm_num
  have hw1 := T.w1; have hw6 := T.w6; have hwr := T.wr
  have hbiasL : (F.C.exponentBias : Int) = (L F.fmt : Int) + 1 := by
    rw [lay.bias, L_eq lay]
    have := lay.hL127
    omega
  have hbias0 : 0 ≤ F.C.exponentBias ∧ F.C.exponentBias < 2 ^ 16 := by
    rw [lay.bias]
    have heb15 := lay.heb15
    have : 2 ^ (eb - 1) ≤ 2 ^ 14 := Nat.pow_le_pow_right (by decide) (by omega)
    have h14 : (2 : Nat) ^ 14 = 16384 := by norm_num
    have h16 : (2 : Int) ^ 16 = 65536 := by norm_num
    constructor <;> omega
  have h16 : (2 : Int) ^ 16 = 65536 := by norm_num
  rw [byteComp_eq, T.dbg] at h
  simp only [Bool.false_and, Bool.false_eq_true, if_false] at h
  rw [RF.bits, bhOf_kq lay hden k q RF.h1 RF.qb RF.fin] at h
  dsimp only at h
  have hc1 := T.cap1
  generalize hcap : E.L.bigfloatBits / E.L.limbBits = cap at *
  generalize hte : (k : Int) - F.C.exponentBias = te at *
  have hkb := RF.kb
  have htb : -(2 ^ 16 : Int) < te ∧ te < 2 ^ 21 := by constructor <;> omega
  have hm0 : 2 * q + 1 ≠ 0 := by omega
  have hmB : 2 * q + 1 < B64 := by
    have : 2 * 2 ^ (p - 1) ≤ 2 ^ 62 := by
      rw [← Nat.pow_succ']; exact Nat.pow_le_pow_right (by decide) (by omega)
    have : (2 : Nat) ^ 62 * 2 + 1 < B64 := by unfold B64; norm_num
    have := RF.qb
    omega
  rw [fromU64L_ne hm0] at h
  obtain ⟨factor, hf, h⟩ := Option.bind_eq_some_iff.mp h
  obtain ⟨nd, hnd, h⟩ := Option.bind_eq_some_iff.mp h
  obtain ⟨d1, hd1, h⟩ := Option.bind_eq_some_iff.mp h
  obtain ⟨nd2, hal, h⟩ := Option.bind_eq_some_iff.mp h
  obtain ⟨ord, hcb, hres⟩ := Option.map_eq_some_iff.mp h
  obtain ⟨fe, fn, fv, fl, fne⟩ := bigfloatPow_one T sci.natAbs (by rw [hcap]; exact hf)
  rw [hcap] at fl
  have nm := normalized_single hm0 hmB
  generalize hj : sci.natAbs = j at *
  -- numerator and denominator
  have hpair : Normalized nd.1.data ∧ nd.1.data ≠ [] ∧ nd.1.data.length ≤ cap ∧
      Normalized nd.2.data ∧ nd.2.data ≠ [] ∧ nd.2.data.length ≤ cap ∧
      -(2 ^ 22 : Int) < nd.1.exp ∧ nd.1.exp < 2 ^ 22 ∧ -(2 ^ 22 : Int) < nd.2.exp ∧ nd.2.exp < 2 ^ 22 ∧
      ∀ s1 s2 : Nat, (s1 : Int) - s2 = nd.1.exp - nd.2.exp →
        (valL nd.1.data * 2 ^ s1) * (r ^ sci.toNat * 2 ^ (-te).toNat) =
          (valL nd.2.data * 2 ^ s2) * ((2 * q + 1) * 2 ^ te.toNat * r ^ (-sci).toNat) := by
    have h22 : (2 : Int) ^ 22 = 4194304 := by norm_num
    have h21 : (2 : Int) ^ 21 = 2097152 := by norm_num
    unfold pairL at hnd
    by_cases hneg : sci < 0
    · rw [if_pos hneg] at hnd
      obtain ⟨d, hd, rfl⟩ := Option.map_eq_some_iff.mp hnd
      have hd' : smallMulL cap factor.data (2 * q + 1) = some d := hd
      obtain ⟨a1, _⟩ := smallMulL_full (cap := cap) fn fl hm0 hmB
      obtain ⟨n1, v1, l1⟩ := a1 d hd'
      have dne : d ≠ [] := by
        intro h0
        have h1 := valL_pos fn fne
        have h2 := Nat.mul_pos h1 (Nat.pos_of_ne_zero hm0)
        rw [h0] at v1; simp only [valL] at v1; omega
      dsimp only
      rw [fromU64L_ne (by decide : (1 : Nat) ≠ 0), fe]
      refine ⟨n1, dne, l1, normalized_single (by decide) (by unfold B64; norm_num), by simp, by simp; omega,
        by omega, by omega, by omega, by omega, ?_⟩
      intro s1 s2 hs
      have e1 : sci.toNat = 0 := by omega
      have e2 : (-sci).toNat = j := by omega
      rw [v1, fv, e1, e2]
      simp only [valL, Nat.mul_zero, Nat.add_zero, Nat.pow_zero, Nat.one_mul]
      have hexp : s1 + (-te).toNat = s2 + te.toNat := by omega
      calc r ^ j * (2 * q + 1) * 2 ^ s1 * 2 ^ (-te).toNat = r ^ j * (2 * q + 1) * 2 ^ (s1 + (-te).toNat) := by
            rw [Nat.pow_add]; ring
        _ = r ^ j * (2 * q + 1) * 2 ^ (s2 + te.toNat) := by rw [hexp]
        _ = 2 ^ s2 * ((2 * q + 1) * 2 ^ te.toNat * r ^ j) := by rw [Nat.pow_add]; ring
    · rw [if_neg hneg] at hnd
      injection hnd with hnd; subst hnd
      dsimp only
      rw [fe]
      refine ⟨nm, by simp, by simp; omega, fn, fne, fl, by omega, by omega, by omega, by omega, ?_⟩
      intro s1 s2 hs
      have e1 : sci.toNat = j := by omega
      have e2 : (-sci).toNat = 0 := by omega
      rw [fv, e1, e2]
      simp only [valL, Nat.mul_zero, Nat.add_zero, Nat.pow_zero, Nat.mul_one]
      have hexp : s1 + (-te).toNat = s2 + te.toNat := by omega
      calc (2 * q + 1) * 2 ^ s1 * (r ^ j * 2 ^ (-te).toNat) = r ^ j * (2 * q + 1) * 2 ^ (s1 + (-te).toNat) := by
            rw [Nat.pow_add]; ring
        _ = r ^ j * (2 * q + 1) * 2 ^ (s2 + te.toNat) := by rw [hexp]
        _ = r ^ j * 2 ^ s2 * ((2 * q + 1) * 2 ^ te.toNat) := by rw [Nat.pow_add]; ring
  obtain ⟨pN, pNne, pNl, pD, pDne, pDl, pe1, pe2, pe3, pe4, prel⟩ := hpair
  have h22 : (2 : Int) ^ 22 = 4194304 := by norm_num
  -- the normalised denominator
  obtain ⟨nlz, hnlz, d1e, d1n, d1v, d1l, ds1, t1, hd1s, ht25, ht64⟩ := normDenL_spec hw1 hw6 pD pDne pDl hd1
  have d1ne : d1.data ≠ [] := by rw [hd1s]; simp
  -- the alignment
  obtain ⟨s1, s2, qq, aN, aNv, aD, aDv, aDl, hs⟩ := alignL_spec (num := nd.1) (den := d1) pN pNne pNl d1n d1ne
    ⟨by omega, by omega⟩ ⟨by omega, by omega⟩ hal
  -- the divisor is in the range `compare_bytes` needs
  have hwpow : 2 ^ E.L.integralBinaryFactor r * 2 ^ (64 - E.L.integralBinaryFactor r) = B64 := by
    unfold B64; rw [← Nat.pow_add]; congr 1; omega
  have hr64 : r + 1 ≤ 64 := by
    have : 2 ^ E.L.integralBinaryFactor r ≤ 2 ^ 6 := Nat.pow_le_pow_right (by decide) hw6
    omega
  have D : DenOk cap r nd2.2.data := by
    refine ⟨?_, ⟨List.replicate qq 0 ++ ds1, t1, by rw [aD, hd1s, List.append_assoc], by
        have : (2 : Nat) ^ 25 = 33554432 := by norm_num
        omega, ?_⟩, ?_, hr2⟩
    · rw [aD]
      refine ⟨limbsOk_append.mpr ⟨fun l hl => by rw [List.eq_of_mem_replicate hl]; exact B64_pos, d1n.1⟩, ?_⟩
      intro l hl
      rw [hd1s, ← List.append_assoc, List.getLast?_append] at hl
      simp at hl
      rw [← hl]
      exact d1n.2 t1 (by rw [hd1s]; simp)
    · calc (r + 1) * (t1 + 1) ≤ 2 ^ E.L.integralBinaryFactor r * 2 ^ (64 - E.L.integralBinaryFactor r) :=
            Nat.mul_le_mul hwr ht64
        _ = B64 := hwpow
    · rw [aD]
      simp only [List.length_append, List.length_replicate]
      by_cases hq0 : qq = 0
      · rw [hq0]; omega
      · exact aDl hq0
  -- the ratio
  have hrel := prel s1 (s2 + nlz) (by rw [d1e] at hs; push_cast; omega)
  have hXY : valL nd2.1.data * (r ^ sci.toNat * 2 ^ (-te).toNat) =
      valL nd2.2.data * ((2 * q + 1) * 2 ^ te.toNat * r ^ (-sci).toNat) := by
    rw [aNv, aDv, d1v]
    calc valL nd.1.data * 2 ^ s1 * (r ^ sci.toNat * 2 ^ (-te).toNat) =
          valL nd.2.data * 2 ^ (s2 + nlz) * ((2 * q + 1) * 2 ^ te.toNat * r ^ (-sci).toNat) := hrel
      _ = _ := by rw [Nat.pow_add]; ring
  have hYpos : 0 < valL nd2.2.data := (denOk_facts D).1
  have hApos : 0 < r ^ sci.toNat * 2 ^ (-te).toNat := Nat.mul_pos (Nat.pow_pos hr0) (Nat.two_pow_pos _)
  have N : NumOk r nd2.2.data nd2.1.data := by
    refine ⟨aN, ?_⟩
    apply Nat.lt_of_mul_lt_mul_right (a := r ^ sci.toNat * 2 ^ (-te).toNat)
    rw [hXY]
    calc valL nd2.2.data * ((2 * q + 1) * 2 ^ te.toNat * r ^ (-sci).toNat) <
          valL nd2.2.data * ((r + 1) * (r ^ sci.toNat * 2 ^ (-te).toNat)) := Nat.mul_lt_mul_of_pos_left hX hYpos
      _ = (r + 1) * valL nd2.2.data * (r ^ sci.toNat * 2 ^ (-te).toNat) := by ring
  -- the comparison
  rw [compareBytes_spec D N integer fraction hbi hbf hne] at hcb
  injection hcb with hcb
  rw [cmpDigits_spec hr0 hYpos _ _ (dv_lt hvd), dv_length] at hcb
  rw [cmp_transfer _ r (2 * q + 1) _ k (L F.fmt) _ _ sci te hr0 hYpos (by omega) hXY] at hcb
  obtain ⟨r1, r2⟩ := RF.round ord
  rw [← hres]
  refine ⟨r1, ?_⟩
  rw [r2, RF.final, ← hcb]

end LexVerif.Proof.Slow
