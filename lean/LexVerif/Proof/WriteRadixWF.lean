import LexVerif.Proof.WriteRadixInteger
/-!
# Proof.WriteRadixWF — well-formedness of the generic-radix writer's text (Mathlib-free)

`WellFormed r er dp ec s`: `s` is a non-empty run of digits below `r`, then optionally the decimal point `dp` and digits
below `r`, then optionally the exponent character `ec`, an optional sign and a non-empty run of digits below the
exponent radix `er` — i.e. only digits below the radix, at most one decimal point and at most one exponent.

Proved for the model with default `max_significant_digits` (`none`): the integer digits are ALWAYS valid
(`genInteger_digitBytes`: `%` is exact, so a digit is `< radix`); the layouts only rearrange the digits of the scratch
buffer, add `'0'`s, the point and the exponent. The only way to an ill-formed text is an invalid FRACTION byte in the
scratch buffer (the recorded round-up finding), which is the hypothesis of `layoutText_wellFormed`.
-/
namespace LexVerif.Proof.WriteRadixWF
open LexVerif.Spec LexVerif.Model LexVerif.Proof.RoundNE LexVerif.Proof.WriteRadixF LexVerif.Proof.WriteRadixInteger
open LexVerif.Model.WriteRadix
open LexVerif.Model.WriteInt (Res)

/-- `c` is the character of a digit below `r` -/
def DigitByte (r c : Nat) : Prop := ∃ d, d < r ∧ c = digitChar d

def FracPart (r dp : Nat) (fp : List Nat) : Prop :=
  fp = [] ∨ ∃ fd, fp = dp :: fd ∧ ∀ c ∈ fd, DigitByte r c

def ExpPart (er ec : Nat) (ep : List Nat) : Prop :=
  ep = [] ∨ ∃ sg ed, ep = ec :: (sg ++ ed) ∧ (sg = [] ∨ sg = [45] ∨ sg = [43]) ∧ ed ≠ [] ∧ ∀ c ∈ ed, DigitByte er c

/-- only digits below the radix, at most one decimal point, at most one exponent -/
def WellFormed (r er dp ec : Nat) (s : List Nat) : Prop :=
  ∃ ip fp ep, s = ip ++ fp ++ ep ∧ ip ≠ [] ∧ (∀ c ∈ ip, DigitByte r c) ∧ FracPart r dp fp ∧ ExpPart er ec ep

/-- every byte of a well-formed text is a digit, the point, the exponent character or a sign -/
theorem WellFormed.bytes {r er dp ec : Nat} {s : List Nat} (h : WellFormed r er dp ec s) :
    ∀ c ∈ s, DigitByte r c ∨ DigitByte er c ∨ c = dp ∨ c = ec ∨ c = 45 ∨ c = 43 := by
  obtain ⟨ip, fp, ep, rfl, _, hip, hfp, hep⟩ := h
  intro c hc
  rcases List.mem_append.mp hc with hc | hc
  · rcases List.mem_append.mp hc with hc | hc
    · exact Or.inl (hip c hc)
    · rcases hfp with rfl | ⟨fd, rfl, hfd⟩
      · simp at hc
      · rcases List.mem_cons.mp hc with rfl | hc
        · exact Or.inr (Or.inr (Or.inl rfl))
        · exact Or.inl (hfd c hc)
  · rcases hep with rfl | ⟨sg, ed, rfl, hsg, _, hed⟩
    · simp at hc
    · rcases List.mem_cons.mp hc with rfl | hc
      · exact Or.inr (Or.inr (Or.inr (Or.inl rfl)))
      · rcases List.mem_append.mp hc with hc | hc
        · rcases hsg with rfl | rfl | rfl
          · simp at hc
          · simp at hc; exact Or.inr (Or.inr (Or.inr (Or.inr (Or.inl hc))))
          · simp at hc; exact Or.inr (Or.inr (Or.inr (Or.inr (Or.inr hc))))
        · exact Or.inr (Or.inl (hed c hc))

theorem digitByte_zero {r : Nat} (hr : 0 < r) : DigitByte r 48 := ⟨0, hr, rfl⟩

theorem digitByte_replicate {r : Nat} (hr : 0 < r) (n : Nat) : ∀ c ∈ List.replicate n 48, DigitByte r c := by
  intro c hc; rw [(List.mem_replicate.mp hc).2]; exact digitByte_zero hr

theorem exponentText_expPart (fmt : Format) (feats : Features) (cursor : Nat) (e : Int) (ec : Nat)
    (her : 2 ≤ fmt.exponentRadix) : ExpPart fmt.exponentRadix ec (exponentText fmt feats cursor e ec).text := by
  refine Or.inr ⟨WriteFloat.expSign fmt feats e, numeral fmt.exponentRadix e.natAbs, ?_, ?_, ?_, ?_⟩
  · simp [exponentText]
  · unfold WriteFloat.expSign
    split
    · exact Or.inr (Or.inl rfl)
    · split
      · exact Or.inr (Or.inr rfl)
      · exact Or.inl rfl
  · unfold numeral
    intro h
    exact toDigits_ne_nil _ _ her (List.map_eq_nil_iff.mp h)
  · intro c hc
    unfold numeral at hc
    obtain ⟨d, hd, rfl⟩ := List.mem_map.mp hc
    exact ⟨d, toDigits_digit_lt _ _ her d hd, rfl⟩

theorem sciMant_shape (fmt : Format) (o : WOpts) {r : Nat} (hr : 0 < r) (d0 : Nat) (rest : List Nat)
    (hrest : ∀ c ∈ rest, DigitByte r c) : ∃ fp, (sciMant fmt o d0 rest).1 = d0 :: fp ∧ FracPart r o.dp fp := by
  have hbody : ∀ c ∈ rest.take (rest.length - rtrimCount 48 rest), DigitByte r c :=
    fun c hc => hrest c (List.mem_of_mem_take hc)
  unfold sciMant
  dsimp only
  split
  · exact ⟨[], rfl, Or.inl rfl⟩
  · split
    · refine ⟨[o.dp, 48], rfl, Or.inr ⟨[48], rfl, ?_⟩⟩
      intro c hc; simp at hc; rw [hc]; exact digitByte_zero hr
    · split
      · refine ⟨o.dp :: (rest.take (rest.length - rtrimCount 48 rest) ++ List.replicate
            (minExactDigits (1 + (rest.take (rest.length - rtrimCount 48 rest)).length) o
              - (1 + (rest.take (rest.length - rtrimCount 48 rest)).length)) 48), rfl,
          Or.inr ⟨_, rfl, ?_⟩⟩
        intro c hc
        rcases List.mem_append.mp hc with hc | hc
        · exact hbody c hc
        · exact digitByte_replicate hr _ c hc
      · exact ⟨o.dp :: rest.take (rest.length - rtrimCount 48 rest), rfl, Or.inr ⟨_, rfl, hbody⟩⟩

theorem sciFinish_wf (fmt : Format) (feats : Features) (o : WOpts) {r : Nat} (hr : 0 < r)
    (her : 2 ≤ fmt.exponentRadix) (digits : List Nat) (hd : ∀ c ∈ digits, DigitByte r c) (sciExp : Int) {t : Text}
    (h : sciFinish fmt feats o digits sciExp = .ok t) : WellFormed r fmt.exponentRadix o.dp o.exp t.text := by
  unfold sciFinish at h
  cases digits with
  | nil => simp at h
  | cons d0 rest =>
    simp only [Res.ok.injEq] at h
    subst h
    have hd0 : DigitByte r d0 := hd d0 (by simp)
    obtain ⟨fp, hfp, hfrac⟩ := sciMant_shape fmt o hr d0 rest (fun c hc => hd c (by simp [hc]))
    refine ⟨[d0], fp, (exponentText fmt feats (sciMant fmt o d0 rest).1.length sciExp o.exp).text, ?_, by simp,
      by simpa using hd0, hfrac, exponentText_expPart _ _ _ _ _ her⟩
    dsimp only
    rw [hfp]; simp

theorem nonsciFinish_wf (o : WOpts) {r er : Nat} (hr : 0 < r) (digits : List Nat)
    (hd : ∀ c ∈ digits, DigitByte r c) {il : Nat} (hil : 0 < il) :
    WellFormed r er o.dp o.exp (nonsciFinish o digits il).text := by
  unfold nonsciFinish
  have hint : ∀ c ∈ digits.take (min digits.length il) ++ List.replicate (il - min digits.length il) 48,
      DigitByte r c := by
    intro c hc
    rcases List.mem_append.mp hc with hc | hc
    · exact hd c (List.mem_of_mem_take hc)
    · exact digitByte_replicate hr _ c hc
  have hne : digits.take (min digits.length il) ++ List.replicate (il - min digits.length il) 48 ≠ [] := by
    intro h
    have := congrArg List.length h
    simp only [List.length_append, List.length_take, List.length_replicate, List.length_nil] at this
    omega
  dsimp only
  split
  · refine ⟨_, o.dp :: (((digits.drop (min digits.length il)).take (digits.length - il)).take
        (digits.length - il - rtrimCount 48 ((digits.drop (min digits.length il)).take (digits.length - il)))
        ++ List.replicate (if minExactDigits digits.length o > digits.length
          then minExactDigits digits.length o - digits.length else 0) 48), [], ?_, hne, hint,
      Or.inr ⟨_, rfl, ?_⟩, Or.inl rfl⟩
    · simp
    · intro c hc
      rcases List.mem_append.mp hc with hc | hc
      · exact hd c (List.mem_of_mem_drop (List.mem_of_mem_take (List.mem_of_mem_take hc)))
      · exact digitByte_replicate hr _ c hc
  · split
    · exact ⟨_, [], [], by simp, hne, hint, Or.inl rfl, Or.inl rfl⟩
    · refine ⟨_, o.dp :: (48 :: List.replicate (if minExactDigits (digits.length + 1) o > digits.length + 1
          then minExactDigits (digits.length + 1) o - (digits.length + 1) else 0) 48), [], by simp, hne, hint,
        Or.inr ⟨_, rfl, ?_⟩, Or.inl rfl⟩
      intro c hc
      rcases List.mem_cons.mp hc with rfl | hc
      · exact digitByte_zero hr
      · exact digitByte_replicate hr _ c hc

theorem truncateAndRound_none (r : Nat) (o : WOpts) (ho : o.maxDigits = none) (buf : List Nat) (s e : Nat) :
    WriteRadix.truncateAndRound r o buf s e = .ok (buf, e - s, false) := by
  unfold WriteRadix.truncateAndRound WriteRadix.truncateAndRoundP; rw [ho]

/-- a window of the scratch array that ends at or before `fraction_cursor` only contains generated digits -/
theorem mem_window (g : Gen) {s k : Nat} (hk : k = 0 ∨ s + k ≤ g.ints.length + g.fracs.length) {c : Nat}
    (hc : c ∈ (g.buf.drop s).take k) : c ∈ g.ints ++ g.fracs := by
  rcases hk with rfl | hk
  · simp at hc
  unfold Gen.buf at hc
  rw [List.append_assoc (g.ints ++ g.fracs), List.drop_append_of_le_length (by simp; omega),
    List.take_append_of_le_length (by simp; omega)] at hc
  exact List.mem_of_mem_drop (List.mem_of_mem_take hc)

theorem sciText_wf (fmt : Format) (feats : Features) (o : WOpts) (ho : o.maxDigits = none) {r : Nat} (hr : 0 < r)
    (her : 2 ≤ fmt.exponentRadix) (g : Gen) (hg : ∀ c ∈ g.ints ++ g.fracs, DigitByte r c) (sciExp : Int) {t : Text}
    (h : sciText fmt feats o r g sciExp = .ok t) : WellFormed r fmt.exponentRadix o.dp o.exp t.text := by
  unfold sciText at h
  simp only [truncateAndRound_none r o ho, Res.bind] at h
  refine sciFinish_wf fmt feats o hr her _ ?_ _ h
  intro c hc
  refine hg c (mem_window g ?_ hc)
  generalize (if sciExp ≤ 0 then ((g.ints.length : Int) - sciExp - 1).toNat else 0) = start
  omega

theorem nonsciText_wf (o : WOpts) (ho : o.maxDigits = none) {r er : Nat} (hr : 0 < r)
    (g : Gen) (hg : ∀ c ∈ g.ints ++ g.fracs, DigitByte r c) (hne : g.ints ≠ []) {t : Text}
    (h : nonsciText o r g = .ok t) : WellFormed r er o.dp o.exp t.text := by
  unfold nonsciText at h
  simp only [truncateAndRound_none r o ho, Res.bind, Bool.false_eq_true, false_and, if_false,
    Res.ok.injEq] at h
  subst h
  refine nonsciFinish_wf o hr _ ?_ ?_
  · intro c hc
    have : c ∈ (g.buf.drop 0).take (min (g.ints.length + g.fracs.length) (maxDigitLength + 1) - 0) := by
      simpa using hc
    exact hg c (mem_window g (by omega) this)
  · have := List.length_pos_iff.mpr hne
    simpa using this

/-- **layout level**: with default `max_significant_digits`, valid scratch digits give a well-formed text -/
theorem layoutText_wellFormed (fmt : Format) (feats : Features) (o : WOpts) (ho : o.maxDigits = none) {r : Nat}
    (hr : 0 < r) (her : 2 ≤ fmt.exponentRadix) (g : Gen) (hg : ∀ c ∈ g.ints ++ g.fracs, DigitByte r c)
    (hne : g.ints ≠ []) {t : Text} (h : layoutText fmt feats o r g = .ok t) :
    WellFormed r fmt.exponentRadix o.dp o.exp t.text := by
  unfold layoutText at h
  dsimp only at h
  split at h
  · exact sciText_wf fmt feats o ho hr her g hg _ h
  · exact nonsciText_wf o ho hr g hg hne h

/-! ## the integer digits are always valid -/

theorem asU32_fmod_lt {f : Fmt} (h : FOK f) {r : Nat} (hr0 : 0 < r) (hrp : r < 2 * 2 ^ (f.p - 1)) (a : Nat) :
    asU32 f (fmod f a (ofNat f r)) < r := by
  obtain ⟨hrv, hrf⟩ := ofNat_ival h hrp
  have hpos : 0 < r * unit f := Nat.mul_pos hr0 (unit_pos f)
  have hv := (fmod_exact h.wf a hrf (by rw [hrv]; exact Nat.ne_of_gt hpos)).1
  unfold asU32
  rw [ival_eq, hv, hrv]
  have : RoundNE.ival f a % (r * unit f) / unit f < r :=
    (Nat.div_lt_iff_lt_mul (unit_pos f)).mpr (Nat.mod_lt _ hpos)
  omega

theorem digitLoop_digitBytes {f : Fmt} (h : FOK f) {r : Nat} (hr0 : 0 < r) (hr36 : r ≤ 36)
    (hrp : r < 2 * 2 ^ (f.p - 1)) : ∀ (fuel integer : Nat) (acc out : List Nat),
      (∀ c ∈ acc, DigitByte r c) → digitLoop f r (ofNat f r) fuel integer acc = .ok out →
      (∀ c ∈ out, DigitByte r c) ∧ out ≠ []
  | 0, _, _, _, _, ho => by simp [digitLoop] at ho
  | fuel + 1, integer, acc, out, hacc, ho => by
    unfold digitLoop at ho
    have hd := asU32_fmod_lt h hr0 hrp integer
    have hacc' : ∀ c ∈ digitToCharConst (asU32 f (fmod f integer (ofNat f r))) r :: acc, DigitByte r c := by
      intro c hc
      rcases List.mem_cons.mp hc with rfl | hc
      · exact ⟨_, hd, digitToCharConst_eq hd hr36⟩
      · exact hacc c hc
    dsimp only at ho
    split at ho
    · simp only [Res.ok.injEq] at ho
      subst ho
      exact ⟨hacc', by simp⟩
    · exact digitLoop_digitBytes h hr0 hr36 hrp fuel _ _ out hacc' ho

theorem padLoop_digitBytes {f : Fmt} {r : Nat} (hr0 : 0 < r) (base : Nat) : ∀ (fuel integer : Nat) (acc : List Nat)
      (x : Nat × List Nat × Nat), (∀ c ∈ acc, DigitByte r c) → padLoop f base fuel integer acc = .ok x →
      ∀ c ∈ x.2.1, DigitByte r c
  | 0, integer, acc, x, hacc, hx => by
    unfold padLoop at hx
    split at hx
    · simp at hx
    · simp only [Res.ok.injEq] at hx; subst hx; exact hacc
  | fuel + 1, integer, acc, x, hacc, hx => by
    unfold padLoop at hx
    split at hx
    · refine padLoop_digitBytes hr0 base fuel _ (48 :: acc) x ?_ hx
      intro c hc
      rcases List.mem_cons.mp hc with rfl | hc
      · exact digitByte_zero hr0
      · exact hacc c hc
    · simp only [Res.ok.injEq] at hx; subst hx; exact hacc

/-- the integer digits of `write_float` are digits below the radix, and there is at least one — for EVERY pattern -/
theorem genInteger_digitBytes {f : Fmt} (h : FOK f) {r : Nat} (hr0 : 0 < r) (hr36 : r ≤ 36)
    (hrp : r < 2 * 2 ^ (f.p - 1)) (integer : Nat) {ints : List Nat} (hi : genInteger f r integer = .ok ints) :
    (∀ c ∈ ints, DigitByte r c) ∧ ints ≠ [] := by
  unfold genInteger at hi
  dsimp only at hi
  cases hp : padLoop f (ofNat f r) halfSize integer [] with
  | ok x =>
    rw [hp] at hi
    simp only [Res.bind] at hi
    exact digitLoop_digitBytes h hr0 hr36 hrp _ _ _ _
      (padLoop_digitBytes hr0 _ _ _ _ x (by simp) hp) hi
  | fault => rw [hp] at hi; simp [Res.bind] at hi
  | panic => rw [hp] at hi; simp [Res.bind] at hi

/-- `writeFloat` with the switches of the positional repairs off (the code as it is in /repo) -/
theorem writeFloat_old (cf : Bool) (feats : Features) (f : Fmt) (fmt : Format) (o : WOpts) (bits len : Nat) :
    WriteRadix.writeFloat cf feats f fmt o bits len =
      (generate cf f fmt.mantissaRadix bits).bind fun g =>
        (layoutText (WriteFloat.effFmt feats fmt) feats o fmt.mantissaRadix g).bind fun t =>
          if t.hi > len then .panic else .ok t.text := rfl

end LexVerif.Proof.WriteRadixWF
