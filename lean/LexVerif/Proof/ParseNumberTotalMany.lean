import LexVerif.Proof.ParseNumberTotalPhases
/-!
# Proof.ParseNumberTotalMany — the many-digits re-parse: `fraction_digits.unwrap()` is unreachable

The `unwrap` is reached only when `Bytes` is contiguous (no digit separator byte), there is no fraction and
`parse_u64_digits` over the stored integer digits returned with `step ≠ 0`. A counting argument excludes that:
the stored slice has `L = n_digits` bytes, `n_digits - step - zeros > 0`, the re-parse skips `z' ≤ zeros`
leading zeros and then consumes bytes until `step = 0` or the slice is exhausted.
-/
namespace LexVerif.Proof.PNTotal
open LexVerif LexVerif.Model LexVerif.Props.C12 LexVerif.Spec

variable {c : Cfg}

theorem notFormat_iterContig (k : Comp) (h : c.feats.format = false) : c.iterContiguous k = true := by
  cases k <;> simp [Cfg.iterContiguous, Cfg.sepFlags, Cfg.flag, Cfg.specialSep, h, SepFlags.any]

theorem notFormat_bytesContig (h : c.feats.format = false) : c.bytesContiguous = true := by
  simp [Cfg.bytesContiguous, Cfg.digitSeparator, h]

theorem isSep_contig (hb : c.bytesContiguous = true) (x : Nat) : c.isSep x = false := by
  simp only [Cfg.bytesContiguous, decide_eq_true_eq] at hb
  simp [Cfg.isSep, hb]

/-- without a separator byte `peek` is `slc.get(index)` for every component iterator -/
theorem peek_contig (hc : Rel c) (hb : c.bytesContiguous = true) (k : Comp) (b : Bytes) :
    peek c k b = .ok (b.slc[b.index]?, b) := by
  unfold peek
  cases hs : c.skip k with
  | noskip => rfl
  | unreachable => exact absurd hs (hc.hs k)
  | pred p =>
    simp only
    unfold peekPred
    cases hx : b.slc[b.index]? with
    | none => rfl
    | some v => simp [isSep_contig hb]

/-- number of leading `'0'` bytes -/
def leadZ : List Nat → Nat
  | [] => 0
  | x :: xs => if x = 48 then leadZ xs + 1 else 0

theorem leadZ_take_le (n : Nat) (l : List Nat) : leadZ (l.take n) ≤ leadZ l := by
  induction l generalizing n with
  | nil => simp [leadZ]
  | cons x xs ih =>
    cases n with
    | zero => simp [leadZ]
    | succ n =>
      simp only [List.take_succ_cons, leadZ]
      split
      · have := ih n; omega
      · omega

theorem drop_of_get {l : List Nat} {i x : Nat} (h : l[i]? = some x) : l.drop i = x :: l.drop (i + 1) := by
  rcases List.getElem?_eq_some_iff.mp h with ⟨hl, hx⟩
  rw [List.drop_eq_getElem_cons hl, hx]

theorem drop_of_none {l : List Nat} {i : Nat} (h : l[i]? = none) : l.drop i = [] := by
  rw [List.getElem?_eq_none_iff] at h
  exact List.drop_eq_nil_of_le h

theorem iterCount_step_inc (hb : c.bytesContiguous = true) (b : Bytes) :
    Bytes.iterCount c .integer (Bytes.incCount c .integer { b with index := b.index + 1 }) = Bytes.iterCount c .integer b + 1 := by
  have _ := hb
  unfold Bytes.iterCount Bytes.incCount
  cases hf : c.feats.format with
  | false => simp [notFormat_iterContig .integer hf]
  | true => cases c.iterContiguous .integer <;> simp

theorem skipZerosLoop_contig (hc : Rel c) (hb : c.bytesContiguous = true) :
    ∀ (fuel : Nat) (b : Bytes), b.index ≤ b.slc.length → b.slc.length - b.index < fuel →
      ∃ b', skipZerosLoop c .integer fuel b = .ok b' ∧ b'.slc = b.slc ∧
        b'.index = b.index + leadZ (b.slc.drop b.index) ∧
        Bytes.iterCount c .integer b' = Bytes.iterCount c .integer b + leadZ (b.slc.drop b.index) := by
  intro fuel
  induction fuel with
  | zero => intro b _ h; omega
  | succ n ih =>
    intro b hv hf
    unfold skipZerosLoop readIfValueCased
    simp only [peek_contig hc hb, bind, Except.bind, pure, Except.pure]
    cases hx : b.slc[b.index]? with
    | none =>
      simp [drop_of_none hx, leadZ]
    | some x =>
      have hlt : b.index < b.slc.length := some_lt (x := x) hx.symm
      rw [drop_of_get hx]
      by_cases h48 : x = 48
      · subst h48
        simp only [beq_self_eq_true, if_true, iterStep_rel hc, leadZ]
        have hi := incCount_spec c .integer { b with index := b.index + 1 }
        obtain ⟨b2, hr, hs, hidx, hcnt⟩ := ih (Bytes.incCount c .integer { b with index := b.index + 1 })
          (by rw [hi.1, hi.2]; exact hlt) (by rw [hi.1, hi.2]; simp only; omega)
        rw [hi.1] at hs
        rw [hi.1, hi.2] at hidx hcnt
        rw [iterCount_step_inc hb] at hcnt
        simp only at hs hidx hcnt
        exact ⟨b2, hr, hs, by rw [hidx]; omega, by rw [hcnt]; omega⟩
      · have : (some x == some 48) = false := by simp [h48]
        simp [this, leadZ, h48]

theorem skipZeros_contig (hc : Rel c) (hb : c.bytesContiguous = true) (b : Bytes) (hv : b.index ≤ b.slc.length) :
    ∃ b', skipZeros c .integer b = .ok (leadZ (b.slc.drop b.index), b') ∧ b'.slc = b.slc ∧
      b'.index = b.index + leadZ (b.slc.drop b.index) := by
  obtain ⟨b', h, hs, hi, hcnt⟩ := skipZerosLoop_contig hc hb (b.slc.length + 1) b hv (by omega)
  unfold skipZeros
  simp only [h, bind, Except.bind, pure, Except.pure, hcnt]
  exact ⟨b', by simp, hs, hi⟩

/-! ## exact step accounting of `parse_u64_digits` -/

theorem tryParse8_exact (hc : Rel c) (k : Comp) (b : Bytes) :
    ∃ v b', tryParse8 c k b = .ok (v, b') ∧ b'.slc = b.slc ∧ (v = none → b' = b) ∧
      (v.isSome = true → b'.index = b.index + 8 ∧ b.index + 8 ≤ b.slc.length) := by
  unfold tryParse8
  simp only [hc.hd, Bool.false_and, Bool.false_eq_true, ↓reduceIte, pure, Except.pure]
  cases hpb : peekBytes c k 8 b with
  | none => exact ⟨none, b, rfl, rfl, fun _ => rfl, by simp⟩
  | some bs =>
    simp only
    have h8 := peekBytes_some hpb
    split
    · simp only [stepBy_rel hc, bind, Except.bind]
      obtain ⟨h1, h2⟩ := incCountFold_adv (c := c) k (List.range 8) (step_adv b 8 h8)
        (by simp only [csum, List.length_range]; omega)
      exact ⟨_, _, rfl, h1.slc, by simp, fun _ => ⟨h2, h8⟩⟩
    · exact ⟨none, b, rfl, rfl, fun _ => rfl, by simp⟩

theorem u64Loop8_exact (hc : Rel c) (k : Comp) :
    ∀ (fuel : Nat) (b : Bytes) (m step : Nat), b.index ≤ b.slc.length → b.slc.length - b.index < fuel →
      ∃ b' m' s', u64Loop8 c k fuel b m step = .ok (b', m', s') ∧ b'.slc = b.slc ∧
        s' + b'.index = step + b.index ∧ b'.index ≤ b.slc.length := by
  intro fuel
  induction fuel with
  | zero => intro b _ _ _ h; omega
  | succ n ih =>
    intro b m step hv hf
    unfold u64Loop8
    split
    · next hgt =>
      obtain ⟨v, b1, hp, hs, hnone, hsome⟩ := tryParse8_exact hc k b
      simp only [hp, bind, Except.bind, pure, Except.pure]
      cases v with
      | none => rw [hnone rfl]; exact ⟨b, m, step, rfl, rfl, rfl, hv⟩
      | some x =>
        simp only
        obtain ⟨hi, h8⟩ := hsome rfl
        obtain ⟨b2, m2, s2, hr2, hs2, hst, hv2⟩ := ih b1 ((m * radix8 c.mantissaRadix + x) % pow2_64) (step - 8)
          (by rw [hs, hi]; exact h8) (by rw [hs, hi]; omega)
        refine ⟨b2, m2, s2, hr2, hs2.trans hs, ?_, by rw [← hs]; exact hv2⟩
        rw [hst, hi]; omega
    · exact ⟨b, m, step, rfl, rfl, rfl, hv⟩

theorem u64Loop1_exact (hc : Rel c) (hb : c.bytesContiguous = true) (k : Comp) :
    ∀ (fuel : Nat) (b : Bytes) (m step : Nat), b.index ≤ b.slc.length → b.slc.length - b.index < fuel →
      ∃ b' m' s', u64Loop1 c k fuel b m step = .ok (b', m', s') ∧ b'.slc = b.slc ∧
        s' + b'.index = step + b.index ∧ (s' = 0 ∨ b.slc.length ≤ b'.index) := by
  intro fuel
  induction fuel with
  | zero => intro b _ _ _ h; omega
  | succ n ih =>
    intro b m step hv hf
    unfold u64Loop1
    simp only [peek_contig hc hb, bind, Except.bind, pure, Except.pure]
    cases hx : b.slc[b.index]? with
    | none =>
      rw [List.getElem?_eq_none_iff] at hx
      exact ⟨b, m, step, rfl, rfl, rfl, Or.inr hx⟩
    | some ch =>
      simp only
      have hlt : b.index < b.slc.length := some_lt (x := ch) hx.symm
      split
      · next hgt =>
        simp only [hc.hd, Bool.false_and, Bool.false_eq_true, ↓reduceIte, iterStep_rel hc]
        have hi := incCount_spec c k { b with index := b.index + 1 }
        obtain ⟨b2, m2, s2, hr2, hs2, hst, hstop⟩ := ih (Bytes.incCount c k { b with index := b.index + 1 })
          ((m * c.mantissaRadix + charToValidDigit ch c.mantissaRadix) % pow2_64) (step - 1)
          (by rw [hi.1, hi.2]; exact hlt) (by rw [hi.1, hi.2]; simp only; omega)
        rw [hi.1] at hs2 hstop
        rw [hi.2] at hst
        simp only at hs2 hst hstop
        exact ⟨b2, m2, s2, hr2, hs2, by omega, hstop⟩
      · next hle => exact ⟨b, m, step, rfl, rfl, rfl, Or.inl (by omega)⟩

theorem parseU64Digits_exact (hc : Rel c) (hb : c.bytesContiguous = true) (k : Comp) (b : Bytes) (m step : Nat)
    (hv : b.index ≤ b.slc.length) :
    ∃ b' m' s', parseU64Digits c k b m step = .ok (b', m', s') ∧ b'.slc = b.slc ∧
      s' + b'.index = step + b.index ∧ (s' = 0 ∨ b.slc.length ≤ b'.index) := by
  unfold parseU64Digits
  simp only [bind, Except.bind, pure, Except.pure]
  split
  · simp only [hc.hd, Bool.false_and, Bool.false_eq_true, ↓reduceIte]
    obtain ⟨b1, m1, s1, hr1, hs1, hst1, hv1⟩ := u64Loop8_exact hc k _ b m step hv (Nat.lt_succ_of_le (Nat.sub_le _ _))
    simp only [hr1]
    obtain ⟨b2, m2, s2, hr2, hs2, hst2, hstop⟩ := u64Loop1_exact hc hb k (b1.slc.length + 1) b1 m1 s1
      (by rw [hs1]; exact hv1) (Nat.lt_succ_of_le (Nat.sub_le _ _))
    refine ⟨b2, m2, s2, hr2, hs2.trans hs1, by omega, ?_⟩
    rw [hs1] at hstop; exact hstop
  · exact u64Loop1_exact hc hb k (b.slc.length + 1) b m step hv (Nat.lt_succ_of_le (Nat.sub_le _ _))

/-! ## the re-parse, cut into pieces that are definitionally the model's `manyDigitsPhase` -/

/-- everything after `if n_digits > 0` -/
def manyTail (c : Cfg) (neg : Bool) (ip : IntPart) (fp : FracPart) (ep : ExpPart) (step endIdx : Nat) :
    Except Err (Number × Nat) := do
  let integer := Bytes.new ip.integerDigits
  let (_, integer) ← skipZeros c .integer integer
  let (integer, mantissa, step) ← parseU64Digits c .integer integer 0 step
  let (implicit, mantissa) : Int × Nat ←
    if step = 0 || (c.feats.format && !c.bytesContiguous && fp.fraction.isNone) then
      pure ((ip.nDigits : Int) - (integer.currentCount c : Int), mantissa)
    else
      match fp.fraction with
      | none => .error (.panic "fraction_digits.unwrap()")
      | some fd => do
        let fraction := Bytes.new fd
        let fraction ← if mantissa = 0 then (do let (_, f) ← skipZeros c .fraction fraction; pure f) else pure fraction
        let (fraction, mantissa, _) ← parseU64Digits c .fraction fraction mantissa step
        pure (-(fraction.currentCount c : Int), mantissa)
  let exponent ← scaleExponent c implicit
  pure (⟨mantissa, exponent + ep.explicit, neg, true, ip.integerDigits, fp.fraction, ep.explicit⟩, endIdx)

/-- from the fraction `skip_zeros` on -/
def manyMid (c : Cfg) (neg : Bool) (ip : IntPart) (fp : FracPart) (ep : ExpPart) (nDigits step : Nat) (e0 : Int)
    (endIdx zi : Nat) (zeros : Bytes) : Except Err (Number × Nat) := do
  let (zf, _) ← skipZeros c .fraction zeros
  let nd := nDigits - step - zi - zf
  if nd > 0 then manyTail c neg ip fp ep step endIdx
  else pure (⟨fp.mantissa, e0, neg, false, ip.integerDigits, fp.fraction, ep.explicit⟩, endIdx)

theorem manyDigitsPhase_eq (o : POpts) (neg : Bool) (ip : IntPart) (fp : FracPart) (ep : ExpPart) (nDigits step : Nat)
    (e0 : Int) (endIdx : Nat) : manyDigitsPhase c o neg ip fp ep nDigits step e0 endIdx =
  (do
    let (zi, zeros) ← skipZeros c .integer ip.start
    let zeros ← if zeros.firstIsCased o.dp then zeros.step c else pure zeros
    manyMid c neg ip fp ep nDigits step e0 endIdx zi zeros) := rfl

/-- `current_count` of an iterator over a fresh buffer is at most the buffer length -/
theorem currentCount_le_new {l : List Nat} {b : Bytes} (h : Adv (Bytes.new l) b) : b.currentCount c ≤ l.length := by
  have h1 := h.cnt
  have h2 := h.valid
  simp only [Bytes.new, csum] at h1 h2
  unfold Bytes.currentCount
  split <;> omega

theorem new_valid (l : List Nat) : (Bytes.new l).index ≤ (Bytes.new l).slc.length := Nat.zero_le _

theorem manyTail_tot (hc : Rel c) (neg : Bool) (ip : IntPart) (fp : FracPart) (ep : ExpPart) (step endIdx N : Nat)
    (hkey : c.bytesContiguous = true → fp.fraction = none → step + leadZ ip.integerDigits < ip.integerDigits.length)
    (hN1 : ip.nDigits ≤ N) (hN2 : ip.integerDigits.length ≤ N) (hN3 : ∀ fd, fp.fraction = some fd → fd.length ≤ N) :
    ∃ num, manyTail c neg ip fp ep step endIdx = .ok (num, endIdx) ∧
      (num.exponent - ep.explicit).natAbs ≤ 5 * N ∧ num.explicitExp = ep.explicit := by
  unfold manyTail
  obtain ⟨z, i1, hr1, ha1⟩ := skipZeros_tot hc .integer (Bytes.new ip.integerDigits) (new_valid _)
  simp only [hr1, bind, Except.bind, pure, Except.pure]
  obtain ⟨i2, m2, s2, hr2, ha2⟩ := parseU64Digits_tot hc .integer i1 0 step ha1.valid'
  simp only [hr2]
  have hcc := currentCount_le_new (c := c) (ha1.trans ha2)
  split
  · obtain ⟨e, he, hbound⟩ := scaleExponent_rel hc ((ip.nDigits : Int) - (i2.currentCount c : Int))
    simp only [he]
    refine ⟨_, rfl, ?_, rfl⟩
    simp only [Int.add_sub_cancel]
    omega
  · next hcond =>
    cases hfr : fp.fraction with
    | some fd =>
      simp only
      have hfd := hN3 fd hfr
      split
      · obtain ⟨n, f, hf, haf⟩ := skipZeros_tot hc .fraction (Bytes.new fd) (new_valid fd)
        simp only [hf]
        obtain ⟨b2, m3, s3, hr3, ha3⟩ := parseU64Digits_tot hc .fraction f m2 s2 haf.valid'
        simp only [hr3]
        have hcc2 := currentCount_le_new (c := c) (haf.trans ha3)
        obtain ⟨e, he, hbound⟩ := scaleExponent_rel hc (-(b2.currentCount c : Int))
        simp only [he]
        refine ⟨_, rfl, ?_, rfl⟩
        simp only [Int.add_sub_cancel, Int.natAbs_neg, Int.natAbs_natCast] at hbound ⊢
        omega
      · obtain ⟨b2, m3, s3, hr3, ha3⟩ := parseU64Digits_tot hc .fraction (Bytes.new fd) m2 s2 (new_valid fd)
        simp only [hr3]
        have hcc2 := currentCount_le_new (c := c) ha3
        obtain ⟨e, he, hbound⟩ := scaleExponent_rel hc (-(b2.currentCount c : Int))
        simp only [he]
        refine ⟨_, rfl, ?_, rfl⟩
        simp only [Int.add_sub_cancel, Int.natAbs_neg, Int.natAbs_natCast] at hbound ⊢
        omega
    | none =>
      exfalso
      simp only [hfr, Option.isNone_none, Bool.and_true, Bool.or_eq_true, decide_eq_true_eq, Bool.and_eq_true,
        Bool.not_eq_true', not_or, not_and, Bool.not_eq_false] at hcond
      have hb : c.bytesContiguous = true := by
        cases hf : c.feats.format with
        | false => exact notFormat_bytesContig hf
        | true => exact hcond.2 hf
      have hk := hkey hb hfr
      obtain ⟨j1, hj1, hjs, hji⟩ := skipZeros_contig hc hb (Bytes.new ip.integerDigits) (new_valid _)
      rw [hr1] at hj1
      simp only [Except.ok.injEq, Prod.mk.injEq] at hj1
      obtain ⟨_, rfl⟩ := hj1
      obtain ⟨j2, n2, t2, hj2, hjs2, hst, hstop⟩ := parseU64Digits_exact hc hb .integer i1 0 step ha1.valid'
      rw [hr2] at hj2
      simp only [Except.ok.injEq, Prod.mk.injEq] at hj2
      obtain ⟨rfl, rfl, rfl⟩ := hj2
      simp only [Bytes.new, List.drop_zero] at hji hjs
      rw [hjs] at hstop
      have hs0 := hcond.1
      rcases hstop with h0 | hl
      · exact hs0 h0
      · omega

theorem manyMid_tot (hc : Rel c) (neg : Bool) (ip : IntPart) (fp : FracPart) (ep : ExpPart) (nDigits step : Nat)
    (e0 : Int) (endIdx zi N : Nat) (zeros : Bytes) (hz : zeros.index ≤ zeros.slc.length)
    (hkey : c.bytesContiguous = true → fp.fraction = none → nDigits - step - zi > 0 →
      step + leadZ ip.integerDigits < ip.integerDigits.length)
    (hN1 : ip.nDigits ≤ N) (hN2 : ip.integerDigits.length ≤ N) (hN3 : ∀ fd, fp.fraction = some fd → fd.length ≤ N) :
    ∃ num, manyMid c neg ip fp ep nDigits step e0 endIdx zi zeros = .ok (num, endIdx) ∧
      (num.exponent = e0 ∨ (num.exponent - ep.explicit).natAbs ≤ 5 * N) ∧ num.explicitExp = ep.explicit := by
  unfold manyMid
  obtain ⟨zf, z3, hr, _⟩ := skipZeros_tot hc .fraction zeros hz
  simp only [hr, bind, Except.bind, pure, Except.pure]
  split
  · next hnd =>
    obtain ⟨num, h, hb, he⟩ := manyTail_tot hc neg ip fp ep step endIdx N
      (fun hb hf => hkey hb hf (by omega)) hN1 hN2 hN3
    exact ⟨num, h, Or.inr hb, he⟩
  · exact ⟨_, rfl, Or.inl rfl, rfl⟩

theorem manyDigitsPhase_tot (hc : Rel c) (o : POpts) (neg : Bool) (ip : IntPart) (fp : FracPart) (ep : ExpPart)
    (nDigits step : Nat) (e0 : Int) (endIdx N : Nat)
    (hstart : ip.start.index ≤ ip.start.slc.length) (hnd : nDigits = ip.nDigits + fp.nAfterDot)
    (hL : ip.byte.index ≤ ip.start.slc.length)
    (hip : c.bytesContiguous = true → ip.nDigits = ip.byte.index - ip.start.index ∧
        ip.integerDigits = (ip.start.slc.drop ip.start.index).take (ip.byte.index - ip.start.index))
    (hfp : fp.fraction = none → fp.nAfterDot = 0)
    (hN1 : ip.nDigits ≤ N) (hN2 : ip.integerDigits.length ≤ N) (hN3 : ∀ fd, fp.fraction = some fd → fd.length ≤ N) :
    ∃ num, manyDigitsPhase c o neg ip fp ep nDigits step e0 endIdx = .ok (num, endIdx) ∧
      (num.exponent = e0 ∨ (num.exponent - ep.explicit).natAbs ≤ 5 * N) ∧ num.explicitExp = ep.explicit := by
  rw [manyDigitsPhase_eq]
  obtain ⟨zi, zeros, hr1, ha1⟩ := skipZeros_tot hc .integer ip.start hstart
  simp only [hr1, bind, Except.bind, pure, Except.pure]
  have hkey : c.bytesContiguous = true → fp.fraction = none → nDigits - step - zi > 0 →
      step + leadZ ip.integerDigits < ip.integerDigits.length := by
    intro hb hf hgt
    obtain ⟨hn, hd⟩ := hip hb
    obtain ⟨j1, hj1, _, _⟩ := skipZeros_contig hc hb ip.start hstart
    rw [hr1] at hj1
    simp only [Except.ok.injEq, Prod.mk.injEq] at hj1
    have hzi : zi = leadZ (ip.start.slc.drop ip.start.index) := hj1.1
    have hle := leadZ_take_le (ip.byte.index - ip.start.index) (ip.start.slc.drop ip.start.index)
    rw [← hd] at hle
    have hlen : ip.integerDigits.length = ip.byte.index - ip.start.index := by
      rw [hd, List.length_take, List.length_drop]; omega
    have := hfp hf
    omega
  by_cases hdp : zeros.firstIsCased o.dp = true
  · simp only [hdp, ↓reduceIte, bstep_rel hc]
    exact manyMid_tot hc neg ip fp ep nDigits step e0 endIdx zi N _
      (by have := firstIsCased_lt hdp; simp only; omega) hkey hN1 hN2 hN3
  · simp only [hdp, Bool.false_eq_true, ↓reduceIte]
    exact manyMid_tot hc neg ip fp ep nDigits step e0 endIdx zi N _ ha1.valid' hkey hN1 hN2 hN3

end LexVerif.Proof.PNTotal
