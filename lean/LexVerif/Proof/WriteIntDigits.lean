import LexVerif.Proof.WriteIntBasic
/-!
# Proof.WriteIntDigits — `algorithm.rs::write_digits` (4-2-1 digit-pair loop) writes `toDigits`
-/
namespace LexVerif.Model.WriteInt
open LexVerif.Spec

/-! ## more on `padDigits` -/

theorem padDigits_split (r : Nat) (hr : 2 ≤ r) : ∀ (k j m : Nat),
    padDigits r (j + k) m = padDigits r j (m / r ^ k) ++ padDigits r k (m % r ^ k) := by
  intro k
  induction k with
  | zero => intro j m; simp [padDigits]
  | succ k ih =>
    intro j m
    have e : j + (k + 1) = (j + k) + 1 := by omega
    rw [e]
    simp only [padDigits]
    rw [ih j (m / r), ← List.append_assoc]
    have e1 : m / r / r ^ k = m / r ^ (k + 1) := by
      rw [Nat.div_div_eq_div_mul, Nat.pow_succ, Nat.mul_comm]
    have e2 : m / r % r ^ k = m % r ^ (k + 1) / r := by
      rw [Nat.pow_succ, Nat.mul_comm, Nat.mod_mul_right_div_self]
    have e3 : m % r = m % r ^ (k + 1) % r := by
      rw [Nat.pow_succ, Nat.mul_comm, Nat.mod_mul_right_mod]
    rw [e1, e2, ← e3]

/-- the two characters of a digit pair -/
def pair (r m : Nat) : List Nat := [digitChar (m / r), digitChar (m % r)]

theorem padDigits_two (r m : Nat) (h : m < r * r) : (padDigits r 2 m).map digitChar = pair r m := by
  have hr : 0 < r := by
    rcases Nat.eq_zero_or_pos r with h0 | h0
    · subst h0; simp at h
    · exact h0
  have : m / r < r := Nat.div_lt_of_lt_mul h
  simp [padDigits, pair, Nat.mod_eq_of_lt this]

theorem pow_two_eq (r : Nat) : r ^ 2 = r * r := by rw [Nat.pow_succ, Nat.pow_one]
theorem pow_four_eq (r : Nat) : r ^ 4 = (r * r) * (r * r) := by
  rw [show 4 = 2 + 2 from rfl, Nat.pow_add, pow_two_eq]

theorem padDigits_four (r m : Nat) (hr : 2 ≤ r) (h : m < (r * r) * (r * r)) :
    (padDigits r 4 m).map digitChar = pair r (m / (r * r)) ++ pair r (m % (r * r)) := by
  have hpos : 0 < r * r := Nat.mul_pos (by omega) (by omega)
  rw [show 4 = 2 + 2 from rfl, padDigits_split r hr 2 2 m, List.map_append, pow_two_eq]
  rw [padDigits_two r _ (Nat.div_lt_of_lt_mul h), padDigits_two r _ (Nat.mod_lt _ hpos)]

/-! ## the `write_digits!` / `write_digit!` macros -/

theorem tableLen_even_lt (r m : Nat) (h : m < r * r) : 2 * m < tableLen r := by
  unfold tableLen; rw [Nat.mul_assoc]; omega
theorem tableLen_odd_lt (r m : Nat) (h : m < r * r) : 2 * m + 1 < tableLen r := by
  unfold tableLen; rw [Nat.mul_assoc]; omega
theorem two_mul_div (m : Nat) : 2 * m / 2 = m := by omega
theorem two_mul_mod (m : Nat) : 2 * m % 2 = 0 := by omega
theorem two_mul_succ_div (m : Nat) : (2 * m + 1) / 2 = m := by omega
theorem two_mul_succ_mod (m : Nat) : ¬ (2 * m + 1) % 2 = 0 := by omega

theorem tableGet_even (r m : Nat) (h : m < r * r) : tableGet r (2 * m) = .ok (digitChar (m / r)) := by
  unfold tableGet
  rw [if_pos (tableLen_even_lt r m h), if_pos (two_mul_mod m), two_mul_div]
  simp only [digitPairTable]

theorem tableGet_odd (r m : Nat) (h : m < r * r) : tableGet r (2 * m + 1) = .ok (digitChar (m % r)) := by
  unfold tableGet
  rw [if_pos (tableLen_odd_lt r m h), if_neg (two_mul_succ_mod m), two_mul_succ_div]
  simp only [digitPairTable]

theorem put2_eq (radix : Nat) (buf : Buf) (index r : Nat) : put2 radix buf index r =
    (tableGet radix (r + 1) >>= fun c => setU buf (subIdx index 1) c >>= fun buf =>
      tableGet radix r >>= fun c2 => setU buf (subIdx (subIdx index 1) 1) c2 >>= fun buf =>
        Res.ok (buf, subIdx (subIdx index 1) 1)) := rfl

theorem put2_spec (r m : Nat) (pre suf : List Nat) (hm : m < r * r) (hp : 2 ≤ pre.length)
    (hp64 : pre.length < 2 ^ 64) :
    ∃ pre', pre'.length + 2 = pre.length ∧
      put2 r (pre ++ suf) pre.length (2 * m) = .ok (pre' ++ pair r m ++ suf, pre'.length) := by
  obtain ⟨p1, y, hp1, hl1⟩ := exists_snoc pre (by omega)
  obtain ⟨p0, x, hp0, hl0⟩ := exists_snoc p1 (by omega)
  refine ⟨p0, by omega, ?_⟩
  have hi1 : subIdx pre.length 1 = p1.length := by rw [subIdx_eq _ _ (by omega) hp64]; omega
  have hi0 : subIdx p1.length 1 = p0.length := by rw [subIdx_eq _ _ (by omega) (by omega)]; omega
  rw [put2_eq, hi1, hi0, tableGet_odd r m hm, tableGet_even r m hm, bind_ok]
  subst hp1
  subst hp0
  rw [show p0 ++ [x] ++ [y] ++ suf = (p0 ++ [x]) ++ y :: suf by simp]
  rw [setU_mid, bind_ok, bind_ok]
  rw [show (p0 ++ [x]) ++ digitChar (m % r) :: suf = p0 ++ x :: (digitChar (m % r) :: suf) by simp]
  rw [setU_mid, bind_ok]
  simp [pair]

theorem put1_eq (buf : Buf) (index r : Nat) : put1 buf index r =
    (digitToChar r >>= fun c => setU buf (subIdx index 1) c >>= fun buf => Res.ok (buf, subIdx index 1)) := rfl

theorem put1_spec (d : Nat) (pre suf : List Nat) (hd : d < 36) (hp : 1 ≤ pre.length) (hp64 : pre.length < 2 ^ 64) :
    ∃ pre', pre'.length + 1 = pre.length ∧
      put1 (pre ++ suf) pre.length d = .ok (pre' ++ [digitChar d] ++ suf, pre'.length) := by
  obtain ⟨p1, y, hp1, hl1⟩ := exists_snoc pre (by omega)
  refine ⟨p1, by omega, ?_⟩
  have hi1 : subIdx pre.length 1 = p1.length := by rw [subIdx_eq _ _ (by omega) hp64]; omega
  rw [put1_eq, hi1, digitToChar_ok d hd, bind_ok]
  subst hp1
  rw [show p1 ++ [y] ++ suf = p1 ++ y :: suf by simp, setU_mid, bind_ok]
  simp

/-! ## the loops -/

theorem div_lt_two_pow (n d f : Nat) (hd : 2 ≤ d) (h : n < 2 ^ (f + 1)) : n / d < 2 ^ f := by
  rw [Nat.pow_succ] at h
  exact Nat.div_lt_of_lt_mul (by
    calc n < 2 ^ f * 2 := h
      _ ≤ d * 2 ^ f := by rw [Nat.mul_comm]; exact Nat.mul_le_mul_right _ hd)

theorem fuel_pos_of (n f : Nat) (h2 : 2 ≤ n) (h : n < 2 ^ (f + 1)) : 1 ≤ f := by
  rcases Nat.eq_zero_or_pos f with h0 | h0
  · subst h0; simp at h; omega
  · exact h0

/-- `while value >= radix4` -/
theorem loop4_spec (bits r : Nat) (hr : 2 ≤ r) (hr36 : r ≤ 36)
    (hw : 2 * (r * r) ≤ 2 ^ bits) (hb64 : bits ≤ 64) :
    ∀ (value fuel : Nat) (pre suf : List Nat),
    value < 2 ^ fuel → 1 ≤ fuel → (toDigits r value).length ≤ pre.length → pre.length < 2 ^ 64 →
    ∃ v' ds pre', v' < (r * r) * (r * r) ∧ toDigits r value = toDigits r v' ++ ds ∧
      pre'.length + ds.length = pre.length ∧
      loop4 bits r (r * r) ((r * r) * (r * r)) fuel value (pre ++ suf) pre.length =
        .ok (v', pre' ++ ds.map digitChar ++ suf, pre'.length) := by
  have hR2 : 0 < r * r := Nat.mul_pos (by omega) (by omega)
  have hR4 : 2 ≤ (r * r) * (r * r) := by
    have : 2 ≤ r * r := by calc 2 ≤ r := hr
      _ = r * 1 := by simp
      _ ≤ r * r := Nat.mul_le_mul_left r (by omega)
    calc 2 ≤ r * r := this
      _ = (r * r) * 1 := by simp
      _ ≤ (r * r) * (r * r) := Nat.mul_le_mul_left _ hR2
  intro value
  induction value using radix_induction ((r * r) * (r * r)) hR4 with
  | base n h =>
    intro fuel pre suf _ hf1 _ _
    refine ⟨n, [], pre, h, by simp, by simp, ?_⟩
    cases fuel with
    | zero => omega
    | succ f => simp [loop4, Nat.not_le.mpr h]
  | step n h ih =>
    intro fuel pre suf hf hf1 hlen hpre
    cases fuel with
    | zero => omega
    | succ f =>
      have hsplit := toDigits_split r hr 4 n (by rw [pow_four_eq]; exact h)
      rw [pow_four_eq] at hsplit
      rw [hsplit] at hlen
      simp only [List.length_append, padDigits_length] at hlen
      have hrem : n % (r * r * (r * r)) < r * r * (r * r) := Nat.mod_lt _ (by omega)
      have ha : n % (r * r * (r * r)) / (r * r) < r * r := Nat.div_lt_of_lt_mul hrem
      have hbm : n % (r * r * (r * r)) % (r * r) < r * r := Nat.mod_lt _ hR2
      have h264 : (2:Nat) ^ bits ≤ 2 ^ 64 := Nat.pow_le_pow_right (by omega) hb64
      have e1 : 2 * (n % (r * r * (r * r)) / (r * r)) % 2 ^ bits % usz = 2 * (n % (r * r * (r * r)) / (r * r)) := by
        have hx : 2 * (n % (r * r * (r * r)) / (r * r)) < 2 ^ bits := by omega
        rw [Nat.mod_eq_of_lt hx, Nat.mod_eq_of_lt (by unfold usz; omega)]
      have e2 : 2 * (n % (r * r * (r * r)) % (r * r)) % 2 ^ bits % usz = 2 * (n % (r * r * (r * r)) % (r * r)) := by
        have hx : 2 * (n % (r * r * (r * r)) % (r * r)) < 2 ^ bits := by omega
        rw [Nat.mod_eq_of_lt hx, Nat.mod_eq_of_lt (by unfold usz; omega)]
      obtain ⟨p2, hp2l, hput2⟩ := put2_spec r _ pre suf hbm (by omega) hpre
      obtain ⟨p1, hp1l, hput1⟩ := put2_spec r _ p2 (pair r (n % (r * r * (r * r)) % (r * r)) ++ suf) ha (by omega) (by omega)
      have hf' : n / (r * r * (r * r)) < 2 ^ f := div_lt_two_pow n _ f hR4 hf
      obtain ⟨v', ds, pre', hv', hd, hlen', hrun⟩ :=
        ih f p1 (pair r (n % (r * r * (r * r)) / (r * r)) ++ (pair r (n % (r * r * (r * r)) % (r * r)) ++ suf)) hf'
          (fuel_pos_of n f (by omega) hf) (by omega) (by omega)
      refine ⟨v', ds ++ padDigits r 4 (n % (r * r * (r * r))), pre', hv', by rw [hsplit, hd]; simp, by simp; omega, ?_⟩
      simp only [loop4, ge_iff_le, h, if_true]
      rw [if_neg (by omega)]
      simp only [e1, e2, hput2, bind_ok]
      rw [List.append_assoc, hput1]
      simp only [bind_ok]
      rw [List.append_assoc, hrun, List.map_append, padDigits_four r _ hr hrem]
      simp

/-- `while value >= radix2` -/
theorem loop2_spec (bits r : Nat) (hr : 2 ≤ r) (hr36 : r ≤ 36) (hb64 : bits ≤ 64)
    (hw : ∀ v, r * r ≤ v → v < 2 ^ bits → 2 * (v % (r * r)) < 2 ^ bits) :
    ∀ (value fuel : Nat) (pre suf : List Nat),
    value < 2 ^ bits → value < 2 ^ fuel → 1 ≤ fuel → (toDigits r value).length ≤ pre.length → pre.length < 2 ^ 64 →
    ∃ v' ds pre', v' < r * r ∧ toDigits r value = toDigits r v' ++ ds ∧
      pre'.length + ds.length = pre.length ∧
      loop2 bits r (r * r) fuel value (pre ++ suf) pre.length =
        .ok (v', pre' ++ ds.map digitChar ++ suf, pre'.length) := by
  have hR2 : 2 ≤ r * r := by
    calc 2 ≤ r := hr
      _ = r * 1 := by simp
      _ ≤ r * r := Nat.mul_le_mul_left r (by omega)
  intro value
  induction value using radix_induction (r * r) hR2 with
  | base n h =>
    intro fuel pre suf _ _ hf1 _ _
    refine ⟨n, [], pre, h, by simp, by simp, ?_⟩
    cases fuel with
    | zero => omega
    | succ f => simp [loop2, Nat.not_le.mpr h]
  | step n h ih =>
    intro fuel pre suf hnb hf hf1 hlen hpre
    cases fuel with
    | zero => omega
    | succ f =>
      have hsplit := toDigits_split r hr 2 n (by rw [pow_two_eq]; exact h)
      rw [pow_two_eq] at hsplit
      rw [hsplit] at hlen
      simp only [List.length_append, padDigits_length] at hlen
      have hbm : n % (r * r) < r * r := Nat.mod_lt _ (by omega)
      have h264 : (2:Nat) ^ bits ≤ 2 ^ 64 := Nat.pow_le_pow_right (by omega) hb64
      have e2 : 2 * (n % (r * r)) % 2 ^ bits % usz = 2 * (n % (r * r)) := by
        have hx := hw n h hnb
        rw [Nat.mod_eq_of_lt hx, Nat.mod_eq_of_lt (by unfold usz; omega)]
      obtain ⟨p2, hp2l, hput2⟩ := put2_spec r _ pre suf hbm (by omega) hpre
      have hf' : n / (r * r) < 2 ^ f := div_lt_two_pow n _ f hR2 hf
      have hnb' : n / (r * r) < 2 ^ bits := Nat.lt_of_le_of_lt (Nat.div_le_self _ _) hnb
      obtain ⟨v', ds, pre', hv', hd, hlen', hrun⟩ :=
        ih f p2 (pair r (n % (r * r)) ++ suf) hnb' hf' (fuel_pos_of n f (by omega) hf) (by omega) (by omega)
      refine ⟨v', ds ++ padDigits r 2 (n % (r * r)), pre', hv', by rw [hsplit, hd]; simp, by simp; omega, ?_⟩
      simp only [loop2, ge_iff_le, h, if_true]
      rw [if_neg (by omega)]
      simp only [e2, hput2, bind_ok]
      rw [List.append_assoc, hrun, List.map_append, padDigits_two r _ hbm]
      simp

end LexVerif.Model.WriteInt

namespace LexVerif.Model.WriteInt
open LexVerif.Spec

theorem sq_le_36 (r : Nat) (h : r ≤ 36) : r * r ≤ 1296 := Nat.mul_le_mul h h
theorem r32 (r : Nat) (h : r ≤ 36) : r * r % 2 ^ 32 = r * r := Nat.mod_eq_of_lt (by have := sq_le_36 r h; omega)
theorem r4_le (r : Nat) (h : r ≤ 36) : (r * r) * (r * r) ≤ 1679616 := Nat.mul_le_mul (sq_le_36 r h) (sq_le_36 r h)
theorem r432 (r : Nat) (h : r ≤ 36) : (r * r) * (r * r) % 2 ^ 32 = (r * r) * (r * r) :=
  Nat.mod_eq_of_lt (by have := r4_le r h; omega)

/-- the last one or two digits -/
theorem final_spec (r v : Nat) (hr : 2 ≤ r) (hr36 : r ≤ 36) (hv : v < r * r) (pre suf : List Nat)
    (hlen : (toDigits r v).length ≤ pre.length) (hp64 : pre.length < 2 ^ 64) :
    ∃ pre', pre'.length + (toDigits r v).length = pre.length ∧
      (if v < r then put1 (pre ++ suf) pre.length (v % 2 ^ 32) else put2 r (pre ++ suf) pre.length (2 * v % usz)) =
        .ok (pre' ++ numeral r v ++ suf, pre'.length) := by
  by_cases h : v < r
  · rw [if_pos h, Nat.mod_eq_of_lt (by omega : v < 2 ^ 32)]
    rw [toDigits_lt r v h] at hlen ⊢
    obtain ⟨p, hpl, hput⟩ := put1_spec v pre suf (by omega) (by simpa using hlen) hp64
    exact ⟨p, by simpa using hpl, by rw [hput]; simp [numeral, toDigits_lt r v h]⟩
  · have hd : toDigits r v = [v / r, v % r] := by
      rw [toDigits_step r v hr (by omega), toDigits_lt r (v / r) (Nat.div_lt_of_lt_mul hv)]; rfl
    rw [hd] at hlen ⊢
    have h2v : 2 * v % usz = 2 * v := Nat.mod_eq_of_lt (by unfold usz; have := sq_le_36 r hr36; omega)
    rw [if_neg h, h2v]
    obtain ⟨p, hpl, hput⟩ := put2_spec r v pre suf hv (by simpa using hlen) hp64
    exact ⟨p, by simpa using hpl, by rw [hput]; simp [numeral, hd, pair]⟩

theorem writeDigits_eq (bits value radix : Nat) (buf : Buf) (index : Nat) :
    writeDigits bits value radix buf index =
      if ¬ (2 ≤ radix ∧ radix ≤ 36) then .panic else
      if tableLen radix < radix * radix % 2 ^ 32 * 2 then .panic else
      ((if bits ≥ 32 ∨ (radix * radix % 2 ^ 32) * (radix * radix % 2 ^ 32) % 2 ^ 32 < maxAsU32 bits then
          loop4 bits radix (radix * radix % 2 ^ 32 % 2 ^ bits)
            ((radix * radix % 2 ^ 32) * (radix * radix % 2 ^ 32) % 2 ^ 32 % 2 ^ bits) loopFuel value buf index
        else Res.ok (value, buf, index)) >>= fun x =>
       (if bits ≥ 16 ∨ radix * radix % 2 ^ 32 < maxAsU32 bits then
          loop2 bits radix (radix * radix % 2 ^ 32 % 2 ^ bits) loopFuel x.1 x.2.1 x.2.2
        else Res.ok x) >>= fun y =>
       if y.1 < radix % 2 ^ bits then put1 y.2.1 y.2.2 (y.1 % 2 ^ 32)
       else put2 radix y.2.1 y.2.2 (2 * y.1 % usz)) := rfl

/-- `write_digits` writes the canonical numeral of `value` immediately below `index` -/
theorem writeDigits_spec (bits r value : Nat) (hr : 2 ≤ r) (hr36 : r ≤ 36) (hb8 : 8 ≤ bits) (hb64 : bits ≤ 64)
    (hv : value < 2 ^ bits)
    (H4 : (bits ≥ 32 ∨ (r * r) * (r * r) < maxAsU32 bits) → (r * r) * (r * r) < 2 ^ bits ∧ 2 * (r * r) ≤ 2 ^ bits)
    (H2 : (bits ≥ 16 ∨ r * r < maxAsU32 bits) → r * r < 2 ^ bits ∧ ∀ v, r * r ≤ v → v < 2 ^ bits → 2 * (v % (r * r)) < 2 ^ bits)
    (HN2 : ¬ (bits ≥ 16 ∨ r * r < maxAsU32 bits) → 2 ^ bits ≤ r * r)
    (pre suf : List Nat) (hlen : (toDigits r value).length ≤ pre.length) (hp64 : pre.length < 2 ^ 64) :
    ∃ pre', pre'.length + (toDigits r value).length = pre.length ∧
      writeDigits bits value r (pre ++ suf) pre.length = .ok (pre' ++ numeral r value ++ suf, pre'.length) := by
  have hfuel : value < 2 ^ loopFuel :=
    Nat.lt_of_lt_of_le hv (Nat.pow_le_pow_right (by omega) (by unfold loopFuel; omega))
  have hf1 : 1 ≤ loopFuel := by unfold loopFuel; omega
  have hrT : r % 2 ^ bits = r := Nat.mod_eq_of_lt (by
    have : (2:Nat) ^ 8 ≤ 2 ^ bits := Nat.pow_le_pow_right (by omega) hb8
    omega)
  have htab : ¬ tableLen r < r * r * 2 := by unfold tableLen; rw [Nat.mul_assoc]; omega
  rw [writeDigits_eq, if_neg (by simp [hr, hr36]), r32 r hr36, r432 r hr36, if_neg htab, hrT]
  -- stage 1: the 4-digit loop
  have st1 : ∃ v1 ds1 pre1, toDigits r value = toDigits r v1 ++ ds1 ∧ v1 ≤ value ∧
      pre1.length + ds1.length = pre.length ∧
      (if bits ≥ 32 ∨ r * r * (r * r) < maxAsU32 bits then
          loop4 bits r (r * r % 2 ^ bits) (r * r * (r * r) % 2 ^ bits) loopFuel value (pre ++ suf) pre.length
        else Res.ok (value, pre ++ suf, pre.length)) = .ok (v1, pre1 ++ ds1.map digitChar ++ suf, pre1.length) := by
    by_cases c4 : bits ≥ 32 ∨ r * r * (r * r) < maxAsU32 bits
    · obtain ⟨h4a, h4b⟩ := H4 c4
      have hR2 : r * r % 2 ^ bits = r * r := Nat.mod_eq_of_lt (by omega)
      rw [if_pos c4, hR2, Nat.mod_eq_of_lt h4a]
      obtain ⟨v', ds, pre', _, hd, hl, hrun⟩ :=
        loop4_spec bits r hr hr36 h4b hb64 value loopFuel pre suf hfuel hf1 hlen hp64
      refine ⟨v', ds, pre', hd, ?_, hl, hrun⟩
      -- v' ≤ value because its numeral is a prefix
      have := ofDigits_toDigits r value hr
      rw [hd, ofDigits_append] at this
      have hmono : ∀ (l : List Nat) (a : Nat), a ≤ l.foldl (fun acc d => acc * r + d) a := by
        intro l; induction l with
        | nil => intro a; simp
        | cons x xs ih =>
          intro a; simp only [List.foldl_cons]
          exact Nat.le_trans (by
            calc a = a * 1 := by simp
              _ ≤ a * r := Nat.mul_le_mul_left a (by omega)
              _ ≤ a * r + x := Nat.le_add_right _ _) (ih _)
      have h1 := hmono ds (ofDigits r (toDigits r v'))
      rw [ofDigits_toDigits r v' hr] at h1 this
      omega
    · rw [if_neg c4]
      exact ⟨value, [], pre, by simp, Nat.le_refl _, by simp, by simp⟩
  obtain ⟨v1, ds1, pre1, hd1, hv1, hl1, hrun1⟩ := st1
  rw [hrun1, bind_ok]
  simp only []
  have hv1b : v1 < 2 ^ bits := by omega
  have hlen1 : (toDigits r v1).length ≤ pre1.length := by
    rw [hd1] at hlen; simp at hlen; omega
  -- stage 2: the 2-digit loop
  have st2 : ∃ v2 ds2 pre2, toDigits r v1 = toDigits r v2 ++ ds2 ∧ v2 < r * r ∧
      pre2.length + ds2.length = pre1.length ∧
      (if bits ≥ 16 ∨ r * r < maxAsU32 bits then
          loop2 bits r (r * r % 2 ^ bits) loopFuel v1 (pre1 ++ ds1.map digitChar ++ suf) pre1.length
        else Res.ok (v1, pre1 ++ ds1.map digitChar ++ suf, pre1.length)) =
        .ok (v2, pre2 ++ ds2.map digitChar ++ (ds1.map digitChar ++ suf), pre2.length) := by
    by_cases c2 : bits ≥ 16 ∨ r * r < maxAsU32 bits
    · obtain ⟨h2a, h2b⟩ := H2 c2
      rw [if_pos c2, Nat.mod_eq_of_lt h2a, List.append_assoc]
      obtain ⟨v', ds, pre', hv', hd, hl, hrun⟩ :=
        loop2_spec bits r hr hr36 hb64 h2b v1 loopFuel pre1 (ds1.map digitChar ++ suf) hv1b
          (Nat.lt_of_le_of_lt hv1 hfuel) hf1 hlen1 (by omega)
      exact ⟨v', ds, pre', hd, hv', hl, hrun⟩
    · rw [if_neg c2]
      have := HN2 c2
      exact ⟨v1, [], pre1, by simp, by omega, by simp, by simp⟩
  obtain ⟨v2, ds2, pre2, hd2, hv2, hl2, hrun2⟩ := st2
  rw [hrun2, bind_ok]
  simp only []
  have hlen2 : (toDigits r v2).length ≤ pre2.length := by
    rw [hd2] at hlen1; simp at hlen1; omega
  obtain ⟨pre3, hl3, hfin⟩ := final_spec r v2 hr hr36 hv2 pre2 (ds2.map digitChar ++ (ds1.map digitChar ++ suf))
    hlen2 (by omega)
  refine ⟨pre3, ?_, ?_⟩
  · rw [hd1, hd2]; simp; omega
  · rw [List.append_assoc, hfin]; simp [numeral, hd1, hd2]

end LexVerif.Model.WriteInt

namespace LexVerif.Model.WriteInt
open LexVerif.Spec

theorem u8_pair_no_wrap : ∀ r, r < 16 → ∀ v, v < 256 → 2 ≤ r → r * r ≤ v → 2 * (v % (r * r)) < 256 := by decide +kernel

def SmallBits (b : Nat) : Prop := b = 8 ∨ b = 16 ∨ b = 32 ∨ b = 64

/-- the three width side conditions of `writeDigits_spec` hold for u8/u16/u32/u64 and every radix -/
theorem widths_ok (bits r : Nat) (hb : SmallBits bits) (hr : 2 ≤ r) (hr36 : r ≤ 36) :
    ((bits ≥ 32 ∨ (r * r) * (r * r) < maxAsU32 bits) → (r * r) * (r * r) < 2 ^ bits ∧ 2 * (r * r) ≤ 2 ^ bits) ∧
    ((bits ≥ 16 ∨ r * r < maxAsU32 bits) → r * r < 2 ^ bits ∧ ∀ v, r * r ≤ v → v < 2 ^ bits → 2 * (v % (r * r)) < 2 ^ bits) ∧
    (¬ (bits ≥ 16 ∨ r * r < maxAsU32 bits) → 2 ^ bits ≤ r * r) := by
  have h2 := sq_le_36 r hr36
  have h4 := r4_le r hr36
  have hpos : 0 < r * r := Nat.mul_pos (by omega) (by omega)
  have hmod : ∀ v, v % (r * r) < r * r := fun v => Nat.mod_lt v hpos
  rcases hb with h | h | h | h <;> subst h
  · -- u8
    have m8 : maxAsU32 8 = 255 := by decide
    rw [m8]
    have hcase : r ≤ 15 ∨ 16 ≤ r := by omega
    refine ⟨?_, ?_, ?_⟩
    · intro c
      have c' : r * r * (r * r) < 255 := by omega
      have : r * r < 16 := by
        rcases Nat.lt_or_ge (r * r) 16 with h | h
        · exact h
        · have := Nat.mul_le_mul h h; omega
      omega
    · intro c
      have c' : r * r < 255 := by omega
      have hr15 : r < 16 := by
        rcases hcase with h | h
        · omega
        · have := Nat.mul_le_mul h h; omega
      exact ⟨by omega, fun v hge hv => u8_pair_no_wrap r hr15 v hv hr hge⟩
    · intro c
      rcases hcase with h | h
      · have := Nat.mul_le_mul h h; omega
      · have := Nat.mul_le_mul h h; omega
  · have m : maxAsU32 16 = 65535 := by decide
    rw [m]
    refine ⟨fun _ => by omega, fun _ => ⟨by omega, fun v _ _ => by have := hmod v; omega⟩, fun c => by omega⟩
  · refine ⟨fun _ => by omega, fun _ => ⟨by omega, fun v _ _ => by have := hmod v; omega⟩, fun c => by omega⟩
  · refine ⟨fun _ => by omega, fun _ => ⟨by omega, fun v _ _ => by have := hmod v; omega⟩, fun c => by omega⟩

/-! ## digit counts -/

/-- `while value >= d { digits += k; value /= d }` with `d = r^k` -/
theorem countLoop_spec (r k : Nat) (hr : 2 ≤ r) (hk : 1 ≤ k) :
    ∀ (value fuel digits : Nat), value < 2 ^ fuel → 1 ≤ fuel →
    ∃ v' j, v' < r ^ k ∧ (toDigits r value).length = (toDigits r v').length + k * j ∧ v' ≤ value ∧
      countLoop (r ^ k) k fuel value digits = .ok (v', digits + k * j) := by
  have hd : 2 ≤ r ^ k := by
    calc 2 ≤ r := hr
      _ = r ^ 1 := by simp
      _ ≤ r ^ k := Nat.pow_le_pow_right (by omega) hk
  intro value
  induction value using radix_induction (r ^ k) hd with
  | base n h =>
    intro fuel digits _ hf1
    refine ⟨n, 0, h, by simp, Nat.le_refl _, ?_⟩
    cases fuel with
    | zero => omega
    | succ f => simp [countLoop, Nat.not_le.mpr h]
  | step n h ih =>
    intro fuel digits hf hf1
    cases fuel with
    | zero => omega
    | succ f =>
      obtain ⟨v', j, hv', hl, hle, hrun⟩ := ih f (digits + k) (div_lt_two_pow n _ f hd hf) (fuel_pos_of n f (by omega) hf)
      refine ⟨v', j + 1, hv', ?_, Nat.le_trans hle (Nat.div_le_self _ _), ?_⟩
      · rw [toDigits_split r hr k n h]; simp [hl, Nat.mul_add]; omega
      · simp only [countLoop, ge_iff_le, h, if_true]
        rw [if_neg (by omega), hrun, Nat.mul_add]; simp; omega



end LexVerif.Model.WriteInt

namespace LexVerif.Model.WriteInt
open LexVerif.Spec

theorem naiveCount_eq (bits radix value : Nat) : naiveCount bits radix value =
  ((if bits ≥ 32 ∨ (radix % 2 ^ 32 * (radix % 2 ^ 32) % 2 ^ 32) * (radix % 2 ^ 32 * (radix % 2 ^ 32) % 2 ^ 32) % 2 ^ 32 < maxAsU32 bits then
      countLoop ((radix % 2 ^ 32 * (radix % 2 ^ 32) % 2 ^ 32) * (radix % 2 ^ 32 * (radix % 2 ^ 32) % 2 ^ 32) % 2 ^ 32 % 2 ^ bits) 4 loopFuel value 1
    else Res.ok (value, 1)) >>= fun x =>
   (if bits ≥ 16 ∨ radix % 2 ^ 32 * (radix % 2 ^ 32) % 2 ^ 32 < maxAsU32 bits then
      countLoop (radix % 2 ^ 32 * (radix % 2 ^ 32) % 2 ^ 32 % 2 ^ bits) 2 loopFuel x.1 x.2
    else Res.ok x) >>= fun y =>
   countLoop (radix % 2 ^ 32 % 2 ^ bits) 1 loopFuel y.1 y.2 >>= fun z => Res.ok z.2) := rfl

/-- the naive 4-2-1 digit count is exact -/
theorem naiveCount_spec (bits r value : Nat) (hb : SmallBits bits) (hr : 2 ≤ r) (hr36 : r ≤ 36)
    (hv : value < 2 ^ bits) : naiveCount bits r value = .ok (toDigits r value).length := by
  obtain ⟨H4, H2, _⟩ := widths_ok bits r hb hr hr36
  have hb8 : 8 ≤ bits := by rcases hb with h | h | h | h <;> omega
  have hb64 : bits ≤ 64 := by rcases hb with h | h | h | h <;> omega
  have hfuel : ∀ v, v ≤ value → v < 2 ^ loopFuel := fun v hle =>
    Nat.lt_of_le_of_lt hle (Nat.lt_of_lt_of_le hv (Nat.pow_le_pow_right (by omega) (by unfold loopFuel; omega)))
  have hf1 : 1 ≤ loopFuel := by unfold loopFuel; omega
  have hr32 : r % 2 ^ 32 = r := Nat.mod_eq_of_lt (by omega)
  have hrT : r % 2 ^ bits = r := Nat.mod_eq_of_lt (by
    have : (2:Nat) ^ 8 ≤ 2 ^ bits := Nat.pow_le_pow_right (by omega) hb8
    omega)
  rw [naiveCount_eq, hr32, r32 r hr36, r432 r hr36, hrT]
  have st1 : ∃ v1 j1, (toDigits r value).length = (toDigits r v1).length + 4 * j1 ∧ v1 ≤ value ∧
      (if bits ≥ 32 ∨ r * r * (r * r) < maxAsU32 bits then
        countLoop (r * r * (r * r) % 2 ^ bits) 4 loopFuel value 1 else Res.ok (value, 1)) = .ok (v1, 1 + 4 * j1) := by
    by_cases c : bits ≥ 32 ∨ r * r * (r * r) < maxAsU32 bits
    · rw [if_pos c, Nat.mod_eq_of_lt (H4 c).1, ← pow_four_eq]
      obtain ⟨v', j, _, hl, hle, hrun⟩ := countLoop_spec r 4 hr (by omega) value loopFuel 1 (hfuel _ (Nat.le_refl _)) hf1
      exact ⟨v', j, hl, hle, hrun⟩
    · rw [if_neg c]; exact ⟨value, 0, by simp, Nat.le_refl _, by simp⟩
  obtain ⟨v1, j1, hl1, hle1, hrun1⟩ := st1
  rw [hrun1, bind_ok]
  simp only []
  have st2 : ∃ v2 j2, (toDigits r v1).length = (toDigits r v2).length + 2 * j2 ∧ v2 ≤ v1 ∧
      (if bits ≥ 16 ∨ r * r < maxAsU32 bits then
        countLoop (r * r % 2 ^ bits) 2 loopFuel v1 (1 + 4 * j1) else Res.ok (v1, 1 + 4 * j1)) =
        .ok (v2, 1 + 4 * j1 + 2 * j2) := by
    by_cases c : bits ≥ 16 ∨ r * r < maxAsU32 bits
    · rw [if_pos c, Nat.mod_eq_of_lt (H2 c).1, ← pow_two_eq]
      obtain ⟨v', j, _, hl, hle, hrun⟩ := countLoop_spec r 2 hr (by omega) v1 loopFuel (1 + 4 * j1) (hfuel _ hle1) hf1
      exact ⟨v', j, hl, hle, hrun⟩
    · rw [if_neg c]; exact ⟨v1, 0, by simp, Nat.le_refl _, by simp⟩
  obtain ⟨v2, j2, hl2, hle2, hrun2⟩ := st2
  rw [hrun2, bind_ok]
  simp only []
  obtain ⟨v3, j3, hv3, hl3, _, hrun3⟩ :=
    countLoop_spec r 1 hr (by omega) v2 loopFuel (1 + 4 * j1 + 2 * j2) (hfuel _ (by omega)) hf1
  rw [Nat.pow_one] at hrun3 hv3
  rw [hrun3, bind_ok]
  simp only []
  rw [toDigits_lt r v3 hv3] at hl3
  simp at hl3
  congr 1; omega

end LexVerif.Model.WriteInt
