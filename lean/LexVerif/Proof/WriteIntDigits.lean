import LexVerif.Proof.WriteIntBasic
/-!
# Proof.WriteIntDigits — `algorithm.rs::write_digits` (4-2-1 digit-pair loop) writes `toDigits`
-/
namespace LexVerif.Model.WriteInt
open LexVerif.Spec

/-! ## more on `padDigits` -/

theorem padDigits_split (r : Nat) (hr : 2 ≤ r) : ∀ (k j m : Nat),
    padDigits r (j + k) m = padDigits r j (m / r ^ k) ++ padDigits r k (m % r ^ k) := by
  intro k
  induction k with
  | zero => intro j m; simp [padDigits]
  | succ k ih =>
    intro j m
    have e : j + (k + 1) = (j + k) + 1 := by omega
    rw [e]
    simp only [padDigits]
    rw [ih j (m / r), ← List.append_assoc]
    have e1 : m / r / r ^ k = m / r ^ (k + 1) := by
      rw [Nat.div_div_eq_div_mul, Nat.pow_succ, Nat.mul_comm]
    have e2 : m / r % r ^ k = m % r ^ (k + 1) / r := by
      rw [Nat.pow_succ, Nat.mul_comm, Nat.mod_mul_right_div_self]
    have e3 : m % r = m % r ^ (k + 1) % r := by
      rw [Nat.pow_succ, Nat.mul_comm, Nat.mod_mul_right_mod]
    rw [e1, e2, ← e3]

/-- the two characters of a digit pair -/
def pair (r m : Nat) : List Nat := [digitChar (m / r), digitChar (m % r)]

theorem padDigits_two (r m : Nat) (h : m < r * r) : (padDigits r 2 m).map digitChar = pair r m := by
  have hr : 0 < r := by
    rcases Nat.eq_zero_or_pos r with h0 | h0
    · subst h0; simp at h
    · exact h0
  have : m / r < r := Nat.div_lt_of_lt_mul h
  simp [padDigits, pair, Nat.mod_eq_of_lt this]

theorem pow_two_eq (r : Nat) : r ^ 2 = r * r := by rw [Nat.pow_succ, Nat.pow_one]
theorem pow_four_eq (r : Nat) : r ^ 4 = (r * r) * (r * r) := by
  rw [show 4 = 2 + 2 from rfl, Nat.pow_add, pow_two_eq]

theorem padDigits_four (r m : Nat) (hr : 2 ≤ r) (h : m < (r * r) * (r * r)) :
    (padDigits r 4 m).map digitChar = pair r (m / (r * r)) ++ pair r (m % (r * r)) := by
  have hpos : 0 < r * r := Nat.mul_pos (by omega) (by omega)
  rw [show 4 = 2 + 2 from rfl, padDigits_split r hr 2 2 m, List.map_append, pow_two_eq]
  rw [padDigits_two r _ (Nat.div_lt_of_lt_mul h), padDigits_two r _ (Nat.mod_lt _ hpos)]

/-! ## the `write_digits!` / `write_digit!` macros -/

theorem tableLen_even_lt (r m : Nat) (h : m < r * r) : 2 * m < tableLen r := by
  unfold tableLen; rw [Nat.mul_assoc]; omega
theorem tableLen_odd_lt (r m : Nat) (h : m < r * r) : 2 * m + 1 < tableLen r := by
  unfold tableLen; rw [Nat.mul_assoc]; omega
theorem two_mul_div (m : Nat) : 2 * m / 2 = m := by omega
theorem two_mul_mod (m : Nat) : 2 * m % 2 = 0 := by omega
theorem two_mul_succ_div (m : Nat) : (2 * m + 1) / 2 = m := by omega
theorem two_mul_succ_mod (m : Nat) : ¬ (2 * m + 1) % 2 = 0 := by omega

theorem tableGet_even (r m : Nat) (h : m < r * r) : tableGet r (2 * m) = .ok (digitChar (m / r)) := by
  unfold tableGet
  rw [if_pos (tableLen_even_lt r m h), if_pos (two_mul_mod m), two_mul_div]
  simp only [digitPairTable]

theorem tableGet_odd (r m : Nat) (h : m < r * r) : tableGet r (2 * m + 1) = .ok (digitChar (m % r)) := by
  unfold tableGet
  rw [if_pos (tableLen_odd_lt r m h), if_neg (two_mul_succ_mod m), two_mul_succ_div]
  simp only [digitPairTable]

theorem put2_eq (radix : Nat) (buf : Buf) (index r : Nat) : put2 radix buf index r =
    (tableGet radix (r + 1) >>= fun c => setU buf (subIdx index 1) c >>= fun buf =>
      tableGet radix r >>= fun c2 => setU buf (subIdx (subIdx index 1) 1) c2 >>= fun buf =>
        Res.ok (buf, subIdx (subIdx index 1) 1)) := rfl

theorem put2_spec (r m : Nat) (pre suf : List Nat) (hm : m < r * r) (hp : 2 ≤ pre.length)
    (hp64 : pre.length < 2 ^ 64) :
    ∃ pre', pre'.length + 2 = pre.length ∧
      put2 r (pre ++ suf) pre.length (2 * m) = .ok (pre' ++ pair r m ++ suf, pre'.length) := by
  obtain ⟨p1, y, hp1, hl1⟩ := exists_snoc pre (by omega)
  obtain ⟨p0, x, hp0, hl0⟩ := exists_snoc p1 (by omega)
  refine ⟨p0, by omega, ?_⟩
  have hi1 : subIdx pre.length 1 = p1.length := by rw [subIdx_eq _ _ (by omega) hp64]; omega
  have hi0 : subIdx p1.length 1 = p0.length := by rw [subIdx_eq _ _ (by omega) (by omega)]; omega
  rw [put2_eq, hi1, hi0, tableGet_odd r m hm, tableGet_even r m hm, bind_ok]
  subst hp1
  subst hp0
  rw [show p0 ++ [x] ++ [y] ++ suf = (p0 ++ [x]) ++ y :: suf by simp]
  rw [setU_mid, bind_ok, bind_ok]
  rw [show (p0 ++ [x]) ++ digitChar (m % r) :: suf = p0 ++ x :: (digitChar (m % r) :: suf) by simp]
  rw [setU_mid, bind_ok]
  simp [pair]

theorem put1_eq (buf : Buf) (index r : Nat) : put1 buf index r =
    (digitToChar r >>= fun c => setU buf (subIdx index 1) c >>= fun buf => Res.ok (buf, subIdx index 1)) := rfl

theorem put1_spec (d : Nat) (pre suf : List Nat) (hd : d < 36) (hp : 1 ≤ pre.length) (hp64 : pre.length < 2 ^ 64) :
    ∃ pre', pre'.length + 1 = pre.length ∧
      put1 (pre ++ suf) pre.length d = .ok (pre' ++ [digitChar d] ++ suf, pre'.length) := by
  obtain ⟨p1, y, hp1, hl1⟩ := exists_snoc pre (by omega)
  refine ⟨p1, by omega, ?_⟩
  have hi1 : subIdx pre.length 1 = p1.length := by rw [subIdx_eq _ _ (by omega) hp64]; omega
  rw [put1_eq, hi1, digitToChar_ok d hd, bind_ok]
  subst hp1
  rw [show p1 ++ [y] ++ suf = p1 ++ y :: suf by simp, setU_mid, bind_ok]
  simp

/-! ## the loops -/

theorem div_lt_two_pow (n d f : Nat) (hd : 2 ≤ d) (h : n < 2 ^ (f + 1)) : n / d < 2 ^ f := by
  rw [Nat.pow_succ] at h
  exact Nat.div_lt_of_lt_mul (by
    calc n < 2 ^ f * 2 := h
      _ ≤ d * 2 ^ f := by rw [Nat.mul_comm]; exact Nat.mul_le_mul_right _ hd)

theorem fuel_pos_of (n f : Nat) (h2 : 2 ≤ n) (h : n < 2 ^ (f + 1)) : 1 ≤ f := by
  rcases Nat.eq_zero_or_pos f with h0 | h0
  · subst h0; simp at h; omega
  · exact h0

/-- `while value >= radix4` -/
theorem loop4_spec (bits r : Nat) (hr : 2 ≤ r) (hr36 : r ≤ 36)
    (hw : 2 * (r * r) ≤ 2 ^ bits) (hb64 : bits ≤ 64) :
    ∀ (value fuel : Nat) (pre suf : List Nat),
    value < 2 ^ fuel → 1 ≤ fuel → (toDigits r value).length ≤ pre.length → pre.length < 2 ^ 64 →
    ∃ v' ds pre', v' < (r * r) * (r * r) ∧ toDigits r value = toDigits r v' ++ ds ∧
      pre'.length + ds.length = pre.length ∧
      loop4 bits r (r * r) ((r * r) * (r * r)) fuel value (pre ++ suf) pre.length =
        .ok (v', pre' ++ ds.map digitChar ++ suf, pre'.length) := by
  have hR2 : 0 < r * r := Nat.mul_pos (by omega) (by omega)
  have hR4 : 2 ≤ (r * r) * (r * r) := by
    have : 2 ≤ r * r := by calc 2 ≤ r := hr
      _ = r * 1 := by simp
      _ ≤ r * r := Nat.mul_le_mul_left r (by omega)
    calc 2 ≤ r * r := this
      _ = (r * r) * 1 := by simp
      _ ≤ (r * r) * (r * r) := Nat.mul_le_mul_left _ hR2
  intro value
  induction value using radix_induction ((r * r) * (r * r)) hR4 with
  | base n h =>
    intro fuel pre suf _ hf1 _ _
    refine ⟨n, [], pre, h, by simp, by simp, ?_⟩
    cases fuel with
    | zero => omega
    | succ f => simp [loop4, Nat.not_le.mpr h]
  | step n h ih =>
    intro fuel pre suf hf hf1 hlen hpre
    cases fuel with
    | zero => omega
    | succ f =>
      have hsplit := toDigits_split r hr 4 n (by rw [pow_four_eq]; exact h)
      rw [pow_four_eq] at hsplit
      rw [hsplit] at hlen
      simp only [List.length_append, padDigits_length] at hlen
      have hrem : n % (r * r * (r * r)) < r * r * (r * r) := Nat.mod_lt _ (by omega)
      have ha : n % (r * r * (r * r)) / (r * r) < r * r := Nat.div_lt_of_lt_mul hrem
      have hbm : n % (r * r * (r * r)) % (r * r) < r * r := Nat.mod_lt _ hR2
      have h264 : (2:Nat) ^ bits ≤ 2 ^ 64 := Nat.pow_le_pow_right (by omega) hb64
      have e1 : 2 * (n % (r * r * (r * r)) / (r * r)) % 2 ^ bits % usz = 2 * (n % (r * r * (r * r)) / (r * r)) := by
        have hx : 2 * (n % (r * r * (r * r)) / (r * r)) < 2 ^ bits := by omega
        rw [Nat.mod_eq_of_lt hx, Nat.mod_eq_of_lt (by unfold usz; omega)]
      have e2 : 2 * (n % (r * r * (r * r)) % (r * r)) % 2 ^ bits % usz = 2 * (n % (r * r * (r * r)) % (r * r)) := by
        have hx : 2 * (n % (r * r * (r * r)) % (r * r)) < 2 ^ bits := by omega
        rw [Nat.mod_eq_of_lt hx, Nat.mod_eq_of_lt (by unfold usz; omega)]
      obtain ⟨p2, hp2l, hput2⟩ := put2_spec r _ pre suf hbm (by omega) hpre
      obtain ⟨p1, hp1l, hput1⟩ := put2_spec r _ p2 (pair r (n % (r * r * (r * r)) % (r * r)) ++ suf) ha (by omega) (by omega)
      have hf' : n / (r * r * (r * r)) < 2 ^ f := div_lt_two_pow n _ f hR4 hf
      obtain ⟨v', ds, pre', hv', hd, hlen', hrun⟩ :=
        ih f p1 (pair r (n % (r * r * (r * r)) / (r * r)) ++ (pair r (n % (r * r * (r * r)) % (r * r)) ++ suf)) hf'
          (fuel_pos_of n f (by omega) hf) (by omega) (by omega)
      refine ⟨v', ds ++ padDigits r 4 (n % (r * r * (r * r))), pre', hv', by rw [hsplit, hd]; simp, by simp; omega, ?_⟩
      simp only [loop4, ge_iff_le, h, if_true]
      rw [if_neg (by omega)]
      simp only [e1, e2, hput2, bind_ok]
      rw [List.append_assoc, hput1]
      simp only [bind_ok]
      rw [List.append_assoc, hrun, List.map_append, padDigits_four r _ hr hrem]
      simp

/-- `while value >= radix2` -/
theorem loop2_spec (bits r : Nat) (hr : 2 ≤ r) (hr36 : r ≤ 36) (hb64 : bits ≤ 64)
    (hw : ∀ v, v < 2 ^ bits → 2 * (v % (r * r)) < 2 ^ bits) :
    ∀ (value fuel : Nat) (pre suf : List Nat),
    value < 2 ^ bits → value < 2 ^ fuel → 1 ≤ fuel → (toDigits r value).length ≤ pre.length → pre.length < 2 ^ 64 →
    ∃ v' ds pre', v' < r * r ∧ toDigits r value = toDigits r v' ++ ds ∧
      pre'.length + ds.length = pre.length ∧
      loop2 bits r (r * r) fuel value (pre ++ suf) pre.length =
        .ok (v', pre' ++ ds.map digitChar ++ suf, pre'.length) := by
  have hR2 : 2 ≤ r * r := by
    calc 2 ≤ r := hr
      _ = r * 1 := by simp
      _ ≤ r * r := Nat.mul_le_mul_left r (by omega)
  intro value
  induction value using radix_induction (r * r) hR2 with
  | base n h =>
    intro fuel pre suf _ _ hf1 _ _
    refine ⟨n, [], pre, h, by simp, by simp, ?_⟩
    cases fuel with
    | zero => omega
    | succ f => simp [loop2, Nat.not_le.mpr h]
  | step n h ih =>
    intro fuel pre suf hnb hf hf1 hlen hpre
    cases fuel with
    | zero => omega
    | succ f =>
      have hsplit := toDigits_split r hr 2 n (by rw [pow_two_eq]; exact h)
      rw [pow_two_eq] at hsplit
      rw [hsplit] at hlen
      simp only [List.length_append, padDigits_length] at hlen
      have hbm : n % (r * r) < r * r := Nat.mod_lt _ (by omega)
      have h264 : (2:Nat) ^ bits ≤ 2 ^ 64 := Nat.pow_le_pow_right (by omega) hb64
      have e2 : 2 * (n % (r * r)) % 2 ^ bits % usz = 2 * (n % (r * r)) := by
        have hx := hw n hnb
        rw [Nat.mod_eq_of_lt hx, Nat.mod_eq_of_lt (by unfold usz; omega)]
      obtain ⟨p2, hp2l, hput2⟩ := put2_spec r _ pre suf hbm (by omega) hpre
      have hf' : n / (r * r) < 2 ^ f := div_lt_two_pow n _ f hR2 hf
      have hnb' : n / (r * r) < 2 ^ bits := Nat.lt_of_le_of_lt (Nat.div_le_self _ _) hnb
      obtain ⟨v', ds, pre', hv', hd, hlen', hrun⟩ :=
        ih f p2 (pair r (n % (r * r)) ++ suf) hnb' hf' (fuel_pos_of n f (by omega) hf) (by omega) (by omega)
      refine ⟨v', ds ++ padDigits r 2 (n % (r * r)), pre', hv', by rw [hsplit, hd]; simp, by simp; omega, ?_⟩
      simp only [loop2, ge_iff_le, h, if_true]
      rw [if_neg (by omega)]
      simp only [e2, hput2, bind_ok]
      rw [List.append_assoc, hrun, List.map_append, padDigits_two r _ hbm]
      simp

end LexVerif.Model.WriteInt
