import LexVerif.Proof.BinaryCorrect
import LexVerif.Proof.RoundNEDecode
/-!
# Proof.BinaryWide — `binary` outside `±2^27`: the saturating `calculate_power2` (/repo commit 220c4cc)

`Proof.BinaryCorrect` proves `binary` for exponents in `±2^27`, where `calculate_power2` neither saturates nor clamps. After
/repo commit 220c4cc (`i64` arithmetic, clamp at `±(i32::MAX / 2)`) it is right for every exponent the `i64` arithmetic
does not saturate or wrap on; `ExpWide` (`±2^59`, five times that is below `2^62`) is such a range. Beyond `±2^27`:

* `e > 2^27`: `power2 ≥ INFINITE_POWER`, the answer is `+∞` — and every value `≥ base^e` rounds to `+∞` (`roundNE_hi`);
* `e < −2^27`: `-power2 + 1 > 64`, the answer is `0` — and every value `< 2^64·base^e` rounds to `0` (`roundNE_lo`).
-/
namespace LexVerif.Proof.BinaryWide
open LexVerif.Spec LexVerif.Model LexVerif.Model.Bellerophon LexVerif.Model.Binary
open LexVerif.Proof.RoundNE LexVerif.Proof.ExtRound LexVerif.Proof.BinaryCorrect

/-- exponents on which the `i64` arithmetic of `calculate_power2` neither saturates nor wraps -/
def ExpWide (e : Int) : Prop := -(2 ^ 59 : Int) ≤ e ∧ e ≤ (2 ^ 59 : Int)

/-- `calculate_power2` on `ExpWide`: the exact `lg·e + bias − ctlz`, clamped at `±(2^30 − 1)` -/
theorem calculatePower2_wide {F p eb} (lay : Layout F p eb) {base lg : Nat} (hb : IsPow2Base base lg)
    (e : Int) (he1 : -(2 ^ 59 : Int) ≤ e) (he2 : e ≤ (2 ^ 59 : Int)) (c : Nat) (hc : c ≤ 64) :
    (1073741823 < (lg : Int) * e + F.C.exponentBias - c → calculatePower2 F base e c = 1073741823) ∧
    ((lg : Int) * e + F.C.exponentBias - c < -1073741823 → calculatePower2 F base e c = -1073741823) ∧
    (-1073741823 ≤ (lg : Int) * e + F.C.exponentBias - c → (lg : Int) * e + F.C.exponentBias - c ≤ 1073741823 →
      calculatePower2 F base e c = (lg : Int) * e + F.C.exponentBias - c) := by
  obtain ⟨_, hl1, hl5, hlog⟩ := hb
  have hB : F.C.exponentBias = ((2 ^ (eb - 1) - 1 + (p - 1) : Nat) : Int) := lay.bias
  have hBlt : 2 ^ (eb - 1) - 1 + (p - 1) ≤ 32768 + 64 := by
    have h1 : 2 ^ (eb - 1) ≤ 2 ^ 15 := Nat.pow_le_pow_right (by decide) (by have := lay.heb16; omega)
    have := lay.hp64
    omega
  have hlim : litPower2Limit = 1073741823 := by decide
  unfold calculatePower2 satMulI64 wrapI64 wrapI
  rw [hlim]
  rw [hlog]
  generalize F.C.exponentBias = B at *
  generalize 2 ^ (eb - 1) - 1 + (p - 1) = Bn at *
  subst hB
  have h59 : (2 : Int) ^ 59 = 576460752303423488 := by decide
  have h63 : (2 : Int) ^ 63 = 9223372036854775808 := by decide
  have h64 : (2 : Int) ^ 64 = 18446744073709551616 := by decide
  rw [h59] at he1 he2
  simp only [h63, h64, show (64 - 1 : Nat) = 63 by rfl]
  have hmul1 : (lg : Int) * e ≤ 5 * 576460752303423488 := by
    calc (lg : Int) * e ≤ (lg : Int) * 576460752303423488 := Int.mul_le_mul_of_nonneg_left he2 (by omega)
      _ ≤ 5 * 576460752303423488 := Int.mul_le_mul_of_nonneg_right (by omega) (by decide)
  have hmul2 : -(5 * 576460752303423488) ≤ (lg : Int) * e := by
    have : (lg : Int) * (-576460752303423488) ≤ (lg : Int) * e := Int.mul_le_mul_of_nonneg_left he1 (by omega)
    have h2 : (5 : Int) * (-576460752303423488) ≤ (lg : Int) * (-576460752303423488) :=
      Int.mul_le_mul_of_nonpos_right (by omega) (by decide)
    omega
  rw [Int.mul_comm e]
  generalize (lg : Int) * e = P at *
  refine ⟨?_, ?_, ?_⟩ <;> intros <;> omega

/-- above `2^27` the exact `power2` is at least `2^27 − 64`, the modelled one at least `INFINITE_POWER` -/
theorem power2_hi {F p eb} (lay : Layout F p eb) {base lg : Nat} (hb : IsPow2Base base lg)
    (e : Int) (he1 : (2 ^ 27 : Int) < e) (he2 : e ≤ (2 ^ 59 : Int)) (c : Nat) (hc : c ≤ 64) :
    F.C.infinitePower ≤ calculatePower2 F base e c ∧ -calculatePower2 F base e c + 1 ≤ 64 ∧
    F.C.infinitePower ≤ (lg : Int) * e + F.C.exponentBias - c := by
  have hlo59 : -(2 ^ 59 : Int) ≤ e := by
    have h59 : (2 : Int) ^ 59 = 576460752303423488 := by decide
    have h27 : (2 : Int) ^ 27 = 134217728 := by decide
    omega
  obtain ⟨w1, w2, w3⟩ := calculatePower2_wide lay hb e hlo59 he2 c hc
  obtain ⟨_, hl1, hl5, _⟩ := hb
  have hB : F.C.exponentBias = ((2 ^ (eb - 1) - 1 + (p - 1) : Nat) : Int) := lay.bias
  have hinf : F.C.infinitePower = ((2 ^ eb - 1 : Nat) : Int) := lay.infp
  have h15 : 2 ^ eb ≤ 2 ^ 15 := Nat.pow_le_pow_right (by decide) lay.heb15
  have h27 : (2 : Int) ^ 27 = 134217728 := by decide
  rw [h27] at he1
  have hmul : (1 : Int) * e ≤ (lg : Int) * e := Int.mul_le_mul_of_nonneg_right (by omega) (by omega)
  generalize (lg : Int) * e = P at *
  generalize calculatePower2 F base e c = cp at *
  have hpos := Nat.two_pow_pos eb
  have h15' : (2 : Nat) ^ 15 = 32768 := by decide
  by_cases h1 : 1073741823 < P + F.C.exponentBias - c
  · have := w1 h1; omega
  · have := w3 (by omega) (by omega); omega

/-- below `−2^27` the modelled `power2` is under the zero cut -/
theorem power2_lo {F p eb} (lay : Layout F p eb) {base lg : Nat} (hb : IsPow2Base base lg)
    (e : Int) (he1 : -(2 ^ 59 : Int) ≤ e) (he2 : e < -(2 ^ 27 : Int)) (c : Nat) (hc : c ≤ 64) :
    -calculatePower2 F base e c + 1 > 64 ∧ -((lg : Int) * e + F.C.exponentBias - c) + 1 > 64 := by
  have hhi59 : e ≤ (2 ^ 59 : Int) := by
    have h59 : (2 : Int) ^ 59 = 576460752303423488 := by decide
    have h27 : (2 : Int) ^ 27 = 134217728 := by decide
    omega
  obtain ⟨w1, w2, w3⟩ := calculatePower2_wide lay hb e he1 hhi59 c hc
  obtain ⟨_, hl1, hl5, _⟩ := hb
  have hB : F.C.exponentBias = ((2 ^ (eb - 1) - 1 + (p - 1) : Nat) : Int) := lay.bias
  have hBlt : 2 ^ (eb - 1) - 1 + (p - 1) ≤ 32768 + 64 := by
    have h1 : 2 ^ (eb - 1) ≤ 2 ^ 15 := Nat.pow_le_pow_right (by decide) (by have := lay.heb16; omega)
    have := lay.hp64
    omega
  have h27 : (2 : Int) ^ 27 = 134217728 := by decide
  rw [h27] at he2
  have hmul : (lg : Int) * e ≤ (1 : Int) * e := Int.mul_le_mul_of_nonpos_right (by omega) (by omega)
  generalize (lg : Int) * e = P at *
  generalize calculatePower2 F base e c = cp at *
  by_cases h1 : P + F.C.exponentBias - c < -1073741823
  · have := w2 h1; omega
  · have := w3 (by omega) (by omega); omega

/-- `binary` above `2^27`: `+∞` -/
theorem binary_hi {F p eb} (lay : Layout F p eb) {base : Nat}
    (hb : base = 2 ∨ base = 4 ∨ base = 8 ∨ base = 16 ∨ base = 32) (n : Num) (lossy : Bool)
    (h0 : n.mantissa ≠ 0) (hm : n.mantissa < 2 ^ 64) (he1 : (2 ^ 27 : Int) < n.exponent) (he2 : n.exponent ≤ (2 ^ 59 : Int)) :
    binary F base n lossy = .ok ⟨0, F.C.infinitePower⟩ := by
  obtain ⟨lg, hlg⟩ := isPow2Base_of base hb
  obtain ⟨hc, _, _, _⟩ := clz_norm h0 hm
  obtain ⟨a1, a2, _⟩ := power2_hi lay hlg n.exponent he1 he2 (clz64 n.mantissa) (by omega)
  rw [binary_eq, if_neg h0]
  simp only
  rw [if_neg (by omega), if_pos a1]

/-- `binary` below `−2^27`: zero -/
theorem binary_lo {F p eb} (lay : Layout F p eb) {base : Nat}
    (hb : base = 2 ∨ base = 4 ∨ base = 8 ∨ base = 16 ∨ base = 32) (n : Num) (lossy : Bool)
    (h0 : n.mantissa ≠ 0) (hm : n.mantissa < 2 ^ 64) (he1 : -(2 ^ 59 : Int) ≤ n.exponent) (he2 : n.exponent < -(2 ^ 27 : Int)) :
    binary F base n lossy = .ok ⟨0, 0⟩ := by
  obtain ⟨lg, hlg⟩ := isPow2Base_of base hb
  obtain ⟨hc, _, _, _⟩ := clz_norm h0 hm
  obtain ⟨a1, _⟩ := power2_lo lay hlg n.exponent he1 he2 (clz64 n.mantissa) (by omega)
  rw [binary_eq, if_neg h0]
  simp only
  rw [if_pos a1]

/-! ## the values out there round to `+∞` / `0` -/

/-- every value `≥ (2^lg)^E`, `E > 2^27`, rounds to `+∞` -/
theorem roundNE_hi {F p eb} (lay : Layout F p eb) {base lg : Nat} (hb : IsPow2Base base lg) (E : Nat)
    (hE1 : 2 ^ 27 < E) (hE2 : E ≤ 2 ^ 59) (num den : Nat) (hd : 0 < den) (h : base ^ E * den ≤ num) :
    roundNE F.fmt num den = F.fmt.infBits := by
  have hf := lay.wf
  have he1 : (2 ^ 27 : Int) < (E : Int) := by exact_mod_cast hE1
  have he2 : (E : Int) ≤ (2 ^ 59 : Int) := by exact_mod_cast hE2
  obtain ⟨_, _, hinf⟩ := power2_hi lay hb (E : Int) he1 he2 63 (by omega)
  have hbase : base = 2 ^ lg := hb.1
  have h1 := roundNE_norm_inf lay lg 1 63 (E : Int) (by omega) (by
      have : (2 : Nat) ^ 63 < 2 ^ 64 := by decide
      omega) (by omega)
    ((lg : Int) * E + F.C.exponentBias - (63 : Nat)) rfl hinf
  have hpf : powFrac (2 ^ lg) (E : Int) 1 = (1 * (2 ^ lg) ^ E, 1) := by
    unfold powFrac
    rw [if_pos (by omega), Int.toNat_natCast]
  rw [hpf] at h1
  simp only at h1
  have hmono : roundNE F.fmt (1 * (2 ^ lg) ^ E) 1 ≤ roundNE F.fmt num den :=
    roundNE_mono' hf Nat.one_pos hd (by rw [← hbase, Nat.one_mul, Nat.mul_one]; exact h)
  have hle := LexVerif.Proof.RoundNE.roundNE_le_infBits hf num hd
  omega

/-- every value `< 2^64 / (2^lg)^E`, `E > 2^27`, rounds to zero -/
theorem roundNE_lo {F p eb} (lay : Layout F p eb) {base lg : Nat} (hb : IsPow2Base base lg) (E : Nat)
    (hE1 : 2 ^ 27 < E) (num den : Nat) (hd : 0 < den) (h : num * base ^ E < 2 ^ 64 * den) :
    roundNE F.fmt num den = 0 := by
  have hf := lay.wf
  obtain ⟨hbase, hl1, _, _⟩ := hb
  apply roundNE_tiny hf (Nat.ne_of_gt hd)
  have hL := L_eq lay
  have hLle : L F.fmt + 65 ≤ E := by
    have h1 : 2 ^ (eb - 1) ≤ 2 ^ 15 := Nat.pow_le_pow_right (by decide) (by have := lay.heb16; omega)
    have := lay.hp64
    have h27 : (2 : Nat) ^ 27 = 134217728 := by decide
    have h15 : (2 : Nat) ^ 15 = 32768 := by decide
    omega
  have hpow : 2 ^ (L F.fmt + 65) ≤ base ^ E := by
    rw [hbase, ← Nat.pow_mul]
    apply Nat.pow_le_pow_right (by decide)
    calc L F.fmt + 65 ≤ E := hLle
      _ = 1 * E := (Nat.one_mul _).symm
      _ ≤ lg * E := Nat.mul_le_mul_right _ hl1
  have h2 : num * 2 ^ (L F.fmt + 65) < 2 ^ 64 * den :=
    Nat.lt_of_le_of_lt (Nat.mul_le_mul_left _ hpow) h
  have e1 : num * 2 ^ (L F.fmt + 65) = 2 ^ 64 * (2 * (num * 2 ^ L F.fmt)) := by
    have h65 : (2 : Nat) ^ 65 = 2 ^ 64 * 2 := by decide
    rw [Nat.pow_add, h65]; ac_rfl
  rw [e1] at h2
  exact Nat.lt_of_mul_lt_mul_left h2

end LexVerif.Proof.BinaryWide
