import LexVerif.Proof.WriteBinaryBits
import LexVerif.Proof.WriteBinaryWF
/-!
# Proof.WriteBinaryBytes — byte level: `parseStdComplete (writeFloat f)` is a literal that `litBits` maps back to `f`
-/
namespace LexVerif.Proof.WriteBinaryBytes
open LexVerif LexVerif.Spec LexVerif.Model LexVerif.Model.WriteBinary LexVerif.Model.Dragonbox
open LexVerif.Proof.RoundNE LexVerif.Proof.DragonboxSpec LexVerif.Proof.WriteBinaryExact LexVerif.Proof.WriteBinaryBits
open LexVerif.Proof.WriteBinaryArith LexVerif.Proof.WriteBinaryParse LexVerif.Proof.WriteBinaryWF LexVerif.Proof.Bits

theorem sciLayout_exp (fmt : Format) (o : WOpts) (w r m : Nat) (e scaled : Int) :
    (sciLayout fmt o w r m e scaled).exp = some scaled := by
  unfold sciLayout
  simp only
  split_ifs <;> rfl

theorem negLayout_exp (o : WOpts) (w r m : Nat) (e s : Int) : (negLayout o w r m e s).exp = none := rfl

theorem posLayout_exp (o : WOpts) (w r m : Nat) (e s : Int) : (posLayout o w r m e s).exp = none := by
  unfold posLayout
  simp only
  split_ifs <;> rfl

/-- the explicit exponent is small: `|x| ≤ 1084` whenever the binary scientific exponent is one of a finite f32/f64 -/
theorem layoutME_exp_bound (fmt : Format) (o : WOpts) {w bpd bpb m : Nat} {e : Int}
    (hr : fmt.mantissaRadix = 2 ^ bpd) (hb : fmt.exponentBase = 2 ^ bpb)
    (h1 : 1 ≤ bpd) (h5 : bpd ≤ 5) (hpair : bpb = 1 ∨ (bpb = 2 ∧ bpd = 4) ∨ bpb = bpd)
    (hs1 : -1080 ≤ (if m = 0 then (0 : Int) else i32 (i32 (e + (significantBits m : Int)) - 1)))
    (hs2 : (if m = 0 then (0 : Int) else i32 (i32 (e + (significantBits m : Int)) - 1)) ≤ 1030) :
    -1084 ≤ (layoutME fmt o w m e).exp.getD 0 ∧ (layoutME fmt o w m e).exp.getD 0 ≤ 1030 := by
  have hb1 : (1 : Int) ≤ (bpd : Int) := by exact_mod_cast h1
  have hb5 : ((bpd : Int)) ≤ 5 := by exact_mod_cast h5
  have hlog : fastLog2 (2 ^ bpd) = (bpd : Int) := fastLog2_pow h1 h5
  have hbpb : 1 ≤ bpb ∧ bpb ≤ 5 := by omega
  unfold layoutME
  simp only [hr, hb]
  generalize (if m = 0 then (0 : Int) else i32 (i32 (e + (significantBits m : Int)) - 1)) = S at hs1 hs2 ⊢
  have hq : -1084 ≤ S / (bpd : Int) * (bpd : Int) ∧ S / (bpd : Int) * (bpd : Int) ≤ 1030
      ∧ -1084 ≤ S / (bpd : Int) ∧ S / (bpd : Int) ≤ 1030 := by
    rcases bpd_cases hb1 hb5 with h | h | h | h | h <;> rw [h] <;> omega
  split_ifs with c1 c2 c3
  · rw [sciLayout_exp, Option.getD_some, hlog, fastLog2_pow hbpb.1 hbpb.2]
    have hsc := scaleSciExpHex_eq (s := S) (bpd := (bpd : Int)) (bpb := (bpb : Int)) (by omega) (by omega) hb1 hb5
      (by omega)
    generalize scaleSciExpHex S (bpd : Int) (bpb : Int) = x at hsc ⊢
    rcases hpair with h | ⟨h, h'⟩ | h
    · subst h; simp only [Nat.cast_one, Int.mul_one] at hsc; omega
    · subst h; push_cast at hsc; omega
    · subst h
      have : x = S / (bpb : Int) := Int.eq_of_mul_eq_mul_right (by omega) hsc
      omega
  · rw [sciLayout_exp, Option.getD_some, hlog, scaleSciExp_eq (by omega) (by omega) hb1 hb5]
    omega
  · rw [negLayout_exp]; simp
  · rw [posLayout_exp]; simp

/-- `litBits` of the parsed literal, from the layout's fraction -/
theorem litBits_of_layout (f : Fmt) (r b : Nat) (neg : Bool) (l : Layout)
    (hx1 : -1084 ≤ l.exp.getD 0) (hx2 : l.exp.getD 0 ≤ 1030) (mag : Nat)
    (hrt : roundNE f (layoutFrac r b l).1 (layoutFrac r b l).2 = mag) :
    litBits f r b ⟨neg, l.int, l.frac, l.exp.getD 0⟩ = mag + (if neg then f.signBit else 0) := by
  unfold litBits
  simp only
  by_cases hm : ofDigits r (l.int ++ l.frac) = 0
  · rw [if_pos hm]
    -- the numerator is zero, so `roundNE` returned 0
    have : mag = 0 := by
      rw [← hrt]
      unfold layoutFrac
      simp only [hm]
      cases l.exp with
      | none => simp [roundNE]
      | some x => simp only; split <;> simp [roundNE]
    omega
  · rw [if_neg hm, if_neg (by push_cast; omega), if_neg (by push_cast; omega)]
    have : (if l.exp.getD 0 ≥ 0 then
          (ofDigits r (l.int ++ l.frac) * b ^ (l.exp.getD 0).toNat, r ^ l.frac.length)
        else (ofDigits r (l.int ++ l.frac), r ^ l.frac.length * b ^ (-(l.exp.getD 0)).toNat))
        = layoutFrac r b l := by
      unfold layoutFrac
      cases l.exp with
      | none => simp
      | some x => simp
    rw [this, hrt]

theorem flags_plain {fmt : Format} (h : fmt.flagBits = 12) :
    fmt.requiredMantissaSign = false ∧ fmt.requiredExponentSign = false := by
  unfold Format.flagBits at h
  unfold Format.requiredMantissaSign Format.requiredExponentSign Format.bit
  constructor <;> (simp only [decide_eq_false_iff_not]; omega)

/-- sign / magnitude split of a bit pattern by the masks `write.rs` uses -/
theorem sign_split (t : FTy) {bits : Nat} (hlt : bits < 2 ^ t.bits) :
    bits &&& (t.signMask - 1) = bits % (fmtOf t).signBit
    ∧ bits = bits % (fmtOf t).signBit + (if bits &&& t.signMask ≠ 0 then (fmtOf t).signBit else 0) := by
  cases t with
  | f32 =>
    have hlt' : bits < 2 ^ 32 := hlt
    have e1 : FTy.f32.signMask = 2 ^ 31 := rfl
    have e2 : (fmtOf .f32).signBit = 2 ^ 31 := rfl
    rw [e1, e2, Nat.and_two_pow_sub_one_eq_mod, and_two_pow]
    refine ⟨rfl, ?_⟩
    by_cases h : bits / 2 ^ 31 % 2 = 0
    · simp only [h, Nat.zero_mul, ne_eq, not_true, if_false]; omega
    · have : bits / 2 ^ 31 % 2 = 1 := by omega
      simp only [this, Nat.one_mul]; simp; omega
  | f64 =>
    have hlt' : bits < 2 ^ 64 := hlt
    have e1 : FTy.f64.signMask = 2 ^ 63 := rfl
    have e2 : (fmtOf .f64).signBit = 2 ^ 63 := rfl
    rw [e1, e2, Nat.and_two_pow_sub_one_eq_mod, and_two_pow]
    refine ⟨rfl, ?_⟩
    by_cases h : bits / 2 ^ 63 % 2 = 0
    · simp only [h, Nat.zero_mul, ne_eq, not_true, if_false]; omega
    · have : bits / 2 ^ 63 % 2 = 1 := by omega
      simp only [this, Nat.one_mul]; simp; omega

/-- a magnitude below the infinity pattern is not special -/
theorem not_special (t : FTy) {mag : Nat} (hfin : mag < (fmtOf t).infBits) :
    ¬ (mag &&& t.exponentMask = t.exponentMask) := by
  cases t with
  | f32 =>
    have hfin' : mag < 255 * 2 ^ 23 := hfin
    rw [masks32.1, and_shifted_mask, Nat.shiftLeft_eq]
    have : mag / 2 ^ 23 % 2 ^ 8 < 255 := by omega
    omega
  | f64 =>
    have hfin' : mag < 2047 * 2 ^ 52 := hfin
    rw [masks64.1, and_shifted_mask, Nat.shiftLeft_eq]
    have : mag / 2 ^ 52 % 2 ^ 11 < 2047 := by omega
    omega

/-- the binary scientific exponent `write_float` computes is that of a finite float -/
theorem sci_bounds (t : FTy) {mag : Nat} (hfin : mag < (fmtOf t).infBits) :
    -1080 ≤ (if t.mantissa mag = 0 then (0 : Int)
        else i32 (i32 (t.exponent mag + (significantBits (t.mantissa mag) : Int)) - 1))
    ∧ (if t.mantissa mag = 0 then (0 : Int)
        else i32 (i32 (t.exponent mag + (significantBits (t.mantissa mag) : Int)) - 1)) ≤ 1030 := by
  by_cases h0 : 0 < mag
  · obtain ⟨b1, b2, b3, b4, b5⟩ := mantissa_exponent_bounds t h0 hfin
    obtain ⟨mb1, mb2, mb3⟩ := significantBits_spec b1
    have hw : t.bits ≤ 64 := by cases t <;> decide
    have hm60 : t.mantissa mag < 2 ^ 60 := by
      have : (2 : Nat) ^ t.bits ≤ 2 ^ 64 := Nat.pow_le_pow_right (by decide) hw
      omega
    have hmb : significantBits (t.mantissa mag) ≤ 60 := by
      have h := Nat.lt_of_le_of_lt mb2 hm60
      have := (Nat.pow_lt_pow_iff_right (by decide : 1 < 2)).mp h
      omega
    rw [if_neg (by omega), i32_id (x := t.exponent mag + _) (by omega) (by omega), i32_id (by omega) (by omega)]
    omega
  · have : mag = 0 := by omega
    subst this
    have : t.mantissa 0 = 0 := by cases t <;> decide
    rw [if_pos this]; omega

/-- BYTE LEVEL: for every finite float (either sign, zero included), every power-of-two radix with a documented exponent
base, any valid exponent radix, plain flags, punctuation that is not a digit: the bytes written by the model are accepted
completely by the specification parser of the same format, as a literal that `litBits` maps back to the same bits -/
theorem writeFloat_parses_back (fmt : Format) (feats : Features) (o : WOpts) (t : FTy) {bits bpd bpb : Nat}
    (hr : fmt.mantissaRadix = 2 ^ bpd) (hb : fmt.exponentBase = 2 ^ bpb) (hp : IsPair bpd bpb)
    (her2 : 2 ≤ fmt.exponentRadix) (her : fmt.exponentRadix ≤ 36) (hflags : fmt.flagBits = 12)
    (hexp : (digitVal (2 ^ bpd) o.exp).isNone) (hdp : (digitVal (2 ^ bpd) o.dp).isNone) (hne : o.exp ≠ o.dp)
    (hfin : bits % (fmtOf t).signBit < (fmtOf t).infBits) (hlt : bits < 2 ^ t.bits) :
    ∃ bytes l n, writeFloat fmt feats o t bits = some bytes
      ∧ parseStdComplete (2 ^ bpd) fmt.exponentRadix { exp := o.exp, dp := o.dp, nan := o.nan, inf := o.inf } bytes
          = .num l n
      ∧ n = bytes.length
      ∧ litBits (fmtOf t) (2 ^ bpd) (2 ^ bpb) l = bits := by
  obtain ⟨hmag, hbits⟩ := sign_split t hlt
  obtain ⟨hf1, hf2⟩ := flags_plain hflags
  have hnsp := not_special t hfin
  have hr36 : 2 ^ bpd ≤ 36 := by
    have : bpd = 1 ∨ bpd = 2 ∨ bpd = 3 ∨ bpd = 4 ∨ bpd = 5 := by have := hp.1; have := hp.2.1; omega
    rcases this with h | h | h | h | h <;> subst h <;> decide
  have hr2 : 2 ≤ fmt.mantissaRadix := by
    rw [hr]
    calc 2 = 2 ^ 1 := rfl
      _ ≤ 2 ^ bpd := Nat.pow_le_pow_right (by decide) hp.1
  let neg : Bool := decide (bits &&& t.signMask ≠ 0)
  let l := layoutBits fmt o t (bits % (fmtOf t).signBit)
  have hwrite : writeFloat fmt feats o t bits = some ((if neg then [45] else []) ++ render fmt feats o l) := by
    unfold writeFloat
    simp only [hmag, hnsp, false_and, if_false, hf1, Bool.false_eq_true, and_false, not_false_eq_true, and_true]
    simp only [neg, l, decide_eq_true_eq]
  have hw : WFL (2 ^ bpd) l := by
    have := layoutME_wf fmt o t.bits (t.mantissa (bits % (fmtOf t).signBit)) (t.exponent (bits % (fmtOf t).signBit)) hr2
    rw [hr] at this; exact this
  have hparse := parseComplete_render fmt feats o { exp := o.exp, dp := o.dp, nan := o.nan, inf := o.inf } l neg (2 ^ bpd)
    hr36 hw rfl rfl (Option.isNone_iff_eq_none.mp hdp) (Option.isNone_iff_eq_none.mp hexp) hne her2 her
    (by rw [hf2]; simp)
  obtain ⟨sb1, sb2⟩ := sci_bounds t hfin
  obtain ⟨x1, x2⟩ := layoutME_exp_bound fmt o (w := t.bits) hr hb hp.1 hp.2.1 hp.2.2 sb1 sb2
  have hrt := layoutBits_roundtrip fmt o t hr hb hp hfin
  have hlit := litBits_of_layout (fmtOf t) (2 ^ bpd) (2 ^ bpb) neg l x1 x2 _ hrt
  refine ⟨_, _, _, hwrite, hparse, rfl, ?_⟩
  rw [hlit]
  conv_rhs => rw [hbits]
  simp only [neg, decide_eq_true_eq]

end LexVerif.Proof.WriteBinaryBytes
