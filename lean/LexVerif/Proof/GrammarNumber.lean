import LexVerif.Proof.GrammarPhases
/-!
# Proof.GrammarNumber — `parse_number` (complete) against `Spec.Grammar.splitNumber` / `numberOk`
-/
namespace LexVerif.Proof.Grammar
open LexVerif LexVerif.Spec LexVerif.Model

/-- the grammar's view of the flags of a model configuration -/
def cfgSyn (c : Cfg) : Syn := Syn.of c.feats c.fmt

section fields
variable (c : Cfg)
theorem syn_radix : (cfgSyn c).radix = c.mantissaRadix := by
  cases hf : c.feats.format <;> simp [cfgSyn, Syn.of, hf, Cfg.mantissaRadix]
theorem syn_expRadix : (cfgSyn c).expRadix = c.exponentRadix := by
  cases hf : c.feats.format <;> simp [cfgSyn, Syn.of, hf, Cfg.exponentRadix]
theorem syn_reqInt : (cfgSyn c).reqInt = c.requiredIntegerDigits := by
  cases hf : c.feats.format <;> simp [cfgSyn, Syn.of, hf, Cfg.flag, Cfg.requiredIntegerDigits]
theorem syn_reqFrac : (cfgSyn c).reqFrac = c.requiredFractionDigits := by
  cases hf : c.feats.format <;> simp [cfgSyn, Syn.of, hf, Cfg.flag, Cfg.requiredFractionDigits]
theorem syn_reqExp : (cfgSyn c).reqExp = c.requiredExponentDigits := by
  cases hf : c.feats.format <;> simp [cfgSyn, Syn.of, hf, Cfg.flag, Cfg.requiredExponentDigits]
theorem syn_reqMant : (cfgSyn c).reqMant = c.requiredMantissaDigits := by
  cases hf : c.feats.format <;> simp [cfgSyn, Syn.of, hf, Cfg.flag, Cfg.requiredMantissaDigits]
theorem syn_noPosMant : (cfgSyn c).noPosMant = c.noPositiveMantissaSign := by
  cases hf : c.feats.format <;> simp [cfgSyn, Syn.of, hf, Cfg.flag, Cfg.noPositiveMantissaSign]
theorem syn_reqMantSign : (cfgSyn c).reqMantSign = c.requiredMantissaSign := by
  cases hf : c.feats.format <;> simp [cfgSyn, Syn.of, hf, Cfg.flag, Cfg.requiredMantissaSign]
theorem syn_noExpNot : (cfgSyn c).noExpNot = c.noExponentNotation := by
  cases hf : c.feats.format <;> simp [cfgSyn, Syn.of, hf, Cfg.flag, Cfg.noExponentNotation]
theorem syn_noPosExp : (cfgSyn c).noPosExp = c.noPositiveExponentSign := by
  cases hf : c.feats.format <;> simp [cfgSyn, Syn.of, hf, Cfg.flag, Cfg.noPositiveExponentSign]
theorem syn_reqExpSign : (cfgSyn c).reqExpSign = c.requiredExponentSign := by
  cases hf : c.feats.format <;> simp [cfgSyn, Syn.of, hf, Cfg.flag, Cfg.requiredExponentSign]
theorem syn_noExpWoFrac : (cfgSyn c).noExpWoFrac = c.noExponentWithoutFraction := by
  cases hf : c.feats.format <;> simp [cfgSyn, Syn.of, hf, Cfg.flag, Cfg.noExponentWithoutFraction]
theorem syn_noSpecial : (cfgSyn c).noSpecial = c.noSpecial := by
  cases hf : c.feats.format <;> simp [cfgSyn, Syn.of, hf, Cfg.flag, Cfg.noSpecial]
theorem syn_csSpecial : (cfgSyn c).csSpecial = c.caseSensitiveSpecial := by
  cases hf : c.feats.format <;> simp [cfgSyn, Syn.of, hf, Cfg.flag, Cfg.caseSensitiveSpecial]
theorem syn_noFloatLZ : (cfgSyn c).noFloatLZ = c.noFloatLeadingZeros := by
  cases hf : c.feats.format <;> simp [cfgSyn, Syn.of, hf, Cfg.flag, Cfg.noFloatLeadingZeros]
theorem syn_reqExpNot : (cfgSyn c).reqExpNot = c.requiredExponentNotation := by
  cases hf : c.feats.format <;> simp [cfgSyn, Syn.of, hf, Cfg.flag, Cfg.requiredExponentNotation]
theorem syn_csExp : (cfgSyn c).csExp = c.caseSensitiveExponent := by
  cases hf : c.feats.format <;> simp [cfgSyn, Syn.of, hf, Cfg.flag, Cfg.caseSensitiveExponent]
theorem syn_csSuffix : (cfgSyn c).csSuffix = c.caseSensitiveBaseSuffix := by
  cases hf : c.feats.format <;> simp [cfgSyn, Syn.of, hf, Cfg.flag, Cfg.caseSensitiveBaseSuffix]
theorem syn_pre : (cfgSyn c).pre = c.basePrefix := by
  cases hf : c.feats.format <;> simp [cfgSyn, Syn.of, hf, Cfg.basePrefix]
theorem syn_suf : (cfgSyn c).suf = c.baseSuffix := by
  cases hf : c.feats.format <;> simp [cfgSyn, Syn.of, hf, Cfg.baseSuffix]
end fields

theorem firstIs_eq (b : Bytes) (v : Nat) (cased : Bool) :
    b.firstIs v cased = (match (tl b).head? with | some x => matchByte cased v x | none => false) := by
  unfold Bytes.firstIs Bytes.firstIsCased Bytes.firstIsUncased matchByte
  rw [first_eq_head]
  cases (tl b).head? with
  | none => cases cased <;> simp
  | some x =>
    cases cased
    · simp only [Bool.false_eq_true, if_false]; rfl
    · simp only [if_true]
      show (some x == some v) = decide (x = v)
      by_cases h : x = v <;> simp [h]

/-- the base suffix -/
theorem suffixPhase_spec {c : Cfg} (hd : c.debug = false) (b : Bytes) :
    ∃ b', suffixPhase c b = .ok b' ∧
      Adv b b' ((tl b).length - (splitSuffix (cfgSyn c) (tl b)).2.length) ∧
      tl b' = (splitSuffix (cfgSyn c) (tl b)).2 := by
  have hfmt : (c.feats.format && decide (c.baseSuffix ≠ 0)) = decide (c.baseSuffix ≠ 0) := by
    cases hf : c.feats.format <;> simp [Cfg.baseSuffix, hf]
  unfold suffixPhase splitSuffix
  rw [hfmt, firstIs_eq, syn_suf, syn_csSuffix]
  cases htl : tl b with
  | nil => exact ⟨b, by simp [pure, Except.pure], by simpa using Adv.refl b, htl⟩
  | cons x xs =>
    obtain ⟨_, _, htl1⟩ := tl_cons htl
    simp only [List.head?_cons]
    by_cases hc : (decide (c.baseSuffix ≠ 0) && matchByte c.caseSensitiveBaseSuffix c.baseSuffix x) = true
    · simp only [hc, if_true, step_rel hd]
      refine ⟨_, rfl, ?_, htl1⟩
      have : Adv b { b with index := b.index + 1 } 1 := ⟨rfl, rfl⟩
      simpa using this
    · simp only [hc, Bool.false_eq_true, if_false]
      exact ⟨b, by simp [pure, Except.pure], by simpa using Adv.refl b, htl⟩


/-- `parse_number::<FORMAT, false>` after the integer and fraction components (verbatim copy of the model's code) -/
def numberTail (c : Cfg) (o : POpts) (neg : Bool) (ip : IntPart) (fp : FracPart) : Except Err (Number × Nat) :=
  let byte := fp.byte
  let hasExponent := byte.firstIs o.exp (c.caseSensitiveExponent && c.feats.format)
  let nDigits := ip.nDigits + fp.nAfterDot
  if c.requiredMantissaDigits && (nDigits = 0 || (c.feats.format && byte.currentCount c = 0)) then
    peek c .integer ip.start >>= fun x =>
    if fp.hasDecimal || hasExponent || x.1.isNone || false then .error (.err "EmptyMantissa" byte.index)
    else .error (.err "InvalidDigit" ip.start.index)
  else
    exponentPhase c hasExponent byte fp.fraction fp.exponent >>= fun ep =>
    suffixPhase c ep.byte >>= fun byte =>
    let endIdx := byte.index
    let step := u64Step c.feats c.mantissaRadix
    let exponent : Int := if c.feats.format && !c.requiredMantissaDigits && nDigits = 0 then 0 else ep.exponent
    if nDigits ≤ step then
      pure (⟨fp.mantissa, exponent, neg, false, ip.integerDigits, fp.fraction, ep.explicit⟩, endIdx)
    else manyDigitsPhase c o neg ip fp ep nDigits step exponent endIdx

theorem parseNumber_stages (c : Cfg) (hd : c.debug = false) (o : POpts) (b : Bytes) (neg fv : Bool) :
    parseNumber c false o b neg fv =
      (integerPhase c b >>= fun ip => fractionPhase c o ip.byte ip.mantissa >>= fun fp => numberTail c o neg ip fp) := by
  unfold parseNumber
  simp only [hd, Bool.false_and, Bool.false_eq_true, if_false]
  rfl

theorem tl_length (b : Bytes) : (tl b).length = b.slc.length - b.index := by simp [tl]

theorem Adv.valid {b b' : Bytes} {n : Nat} (h : Adv b b' n) (hn : n ≤ (Grammar.tl b).length)
    (hv : b.index ≤ b.slc.length) : b'.index ≤ b'.slc.length := by
  rw [tl_length] at hn
  rw [h.1, h.2]; omega

/-- constraints on the exponent part and on the mantissa digit count -/
def tailOk (c : Cfg) (nd : Nat) (frNone : Bool) (E : Bool × Option Bool × List Nat × List Nat) : Bool :=
  !(c.requiredMantissaDigits && decide (nd = 0)) && !(c.noExponentNotation && E.1) &&
  !(c.requiredExponentNotation && !E.1) && !(c.noExponentWithoutFraction && E.1 && frNone) &&
  !(E.1 && !signOk c.noPositiveExponentSign c.requiredExponentSign E.2.1) &&
  !(c.requiredExponentDigits && E.1 && E.2.2.1.isEmpty)

theorem tailOk_noexp (c : Cfg) (nd : Nat) (fr : Bool) (r : List Nat) :
    tailOk c nd fr (false, none, [], r) =
      (!(c.requiredMantissaDigits && decide (nd = 0)) && !c.requiredExponentNotation) := by
  have : ∀ a b c d f s e g : Bool, (!a && !(b && false) && !(c && !false) && !(d && false && f) && !(false && !s)
      && !(e && false && g)) = (!a && !c) := by decide
  simp only [tailOk]
  exact this _ _ _ _ _ _ _ _

theorem tailOk_exp (c : Cfg) (nd : Nat) (fr : Bool) (sg : Option Bool) (eds r : List Nat) :
    tailOk c nd fr (true, sg, eds, r) =
      (!(c.requiredMantissaDigits && decide (nd = 0)) &&
        !(c.noExponentNotation || (c.noExponentWithoutFraction && fr) ||
          !signOk c.noPositiveExponentSign c.requiredExponentSign sg ||
          (c.requiredExponentDigits && eds.isEmpty))) := by
  have : ∀ a b c d f s e g : Bool, (!a && !(b && true) && !(c && !true) && !(d && true && f) && !(true && !s)
      && !(e && true && g)) = (!a && !(b || (d && f) || !s || (e && g))) := by decide
  simp only [tailOk]
  exact this _ _ _ _ _ _ _ _

theorem numberTail_spec {c : Cfg} (hs : Std c) (o : POpts) (neg : Bool) (ip : IntPart) (fp : FracPart)
    (hb : ∀ x ∈ fp.byte.slc, x < 256) (hv : fp.byte.index ≤ fp.byte.slc.length)
    (hidx : ip.nDigits + fp.nAfterDot ≤ fp.byte.index) :
    let E := splitExponent (cfgSyn c) o (tl fp.byte)
    let S := splitSuffix (cfgSyn c) E.2.2.2
    (tailOk c (ip.nDigits + fp.nAfterDot) fp.fraction.isNone E = false → ∃ k i, numberTail c o neg ip fp = .error (.err k i)) ∧
    (tailOk c (ip.nDigits + fp.nAfterDot) fp.fraction.isNone E = true → ∃ ep bF e0,
      numberTail c o neg ip fp =
        (if ip.nDigits + fp.nAfterDot ≤ u64Step c.feats c.mantissaRadix then
          .ok (⟨fp.mantissa, e0, neg, false, ip.integerDigits, fp.fraction, ep.explicit⟩, bF.index)
         else manyDigitsPhase c o neg ip fp ep (ip.nDigits + fp.nAfterDot) (u64Step c.feats c.mantissaRadix) e0 bF.index) ∧
      bF.slc = fp.byte.slc ∧ bF.index ≤ bF.slc.length ∧ tl bF = S.2 ∧
      ep.explicit = (if E.1 = true then expValue c.exponentRadix E.2.1 E.2.2.1 else 0)) := by
  intro E S
  have hcs : (c.caseSensitiveExponent && c.feats.format) = c.caseSensitiveExponent := by
    cases hf : c.feats.format <;> simp [Cfg.caseSensitiveExponent, Cfg.flag, hf]
  have hmant : (c.requiredMantissaDigits && (decide (ip.nDigits + fp.nAfterDot = 0) || (c.feats.format && decide (fp.byte.currentCount c = 0))))
      = (c.requiredMantissaDigits && decide (ip.nDigits + fp.nAfterDot = 0)) := by
    rw [hs.nosep.count]
    by_cases h0 : ip.nDigits + fp.nAfterDot = 0
    · rw [decide_eq_true h0]; simp
    · have : fp.byte.index ≠ 0 := by omega
      rw [decide_eq_false h0, decide_eq_false this]; simp
  unfold numberTail
  simp only [hcs, hmant]
  by_cases hm : (c.requiredMantissaDigits && decide (ip.nDigits + fp.nAfterDot = 0)) = true
  · refine ⟨fun _ => ?_, fun h => ?_⟩
    rotate_left
    · have : tailOk c (ip.nDigits + fp.nAfterDot) fp.fraction.isNone E = false := by
        simp only [tailOk, hm, Bool.not_true, Bool.false_and]
      rw [this] at h; cases h
    simp only [hm, if_true, hs.nosep.peek, bind, Except.bind]
    split
    · exact ⟨_, _, rfl⟩
    · exact ⟨_, _, rfl⟩
  · simp only [hm, Bool.false_eq_true, if_false]
    -- exponent
    have hfinish : ∀ (ep : ExpPart), ep.byte.slc = fp.byte.slc → ep.byte.index ≤ ep.byte.slc.length →
        tl ep.byte = E.2.2.2 →
        ∃ bF e0, (suffixPhase c ep.byte >>= fun byte =>
          let endIdx := byte.index
          let step := u64Step c.feats c.mantissaRadix
          let exponent : Int := if c.feats.format && !c.requiredMantissaDigits && ip.nDigits + fp.nAfterDot = 0 then 0 else ep.exponent
          if ip.nDigits + fp.nAfterDot ≤ step then
            pure (⟨fp.mantissa, exponent, neg, false, ip.integerDigits, fp.fraction, ep.explicit⟩, endIdx)
          else manyDigitsPhase c o neg ip fp ep (ip.nDigits + fp.nAfterDot) step exponent endIdx) =
          (if ip.nDigits + fp.nAfterDot ≤ u64Step c.feats c.mantissaRadix then
            .ok (⟨fp.mantissa, e0, neg, false, ip.integerDigits, fp.fraction, ep.explicit⟩, bF.index)
           else manyDigitsPhase c o neg ip fp ep (ip.nDigits + fp.nAfterDot) (u64Step c.feats c.mantissaRadix) e0 bF.index) ∧
          bF.slc = fp.byte.slc ∧ bF.index ≤ bF.slc.length ∧ tl bF = S.2 := by
      intro ep h1 h2 h3
      obtain ⟨bF, hsf, hadv, htl⟩ := suffixPhase_spec hs.release ep.byte
      refine ⟨bF, (if (c.feats.format && !c.requiredMantissaDigits && decide (ip.nDigits + fp.nAfterDot = 0)) = true
        then 0 else ep.exponent), ?_, hadv.1.trans h1, hadv.valid (by omega) h2, by rw [htl, h3]⟩
      simp only [hsf, bind, Except.bind, pure, Except.pure]
    cases htl : tl fp.byte with
    | nil =>
      have hE : E = (false, none, [], []) := by simp [E, htl, splitExponent]
      have hhas : fp.byte.firstIs o.exp c.caseSensitiveExponent = false := by
        rw [firstIs_eq, htl]; rfl
      obtain ⟨ha1, ha2⟩ := exponentPhase_absent (c := c) fp.byte fp.fraction fp.exponent
      rw [hhas]
      by_cases hr : c.requiredExponentNotation = true
      · obtain ⟨k, i, he⟩ := ha1 hr
        exact ⟨fun _ => ⟨k, i, by simp only [he, bind, Except.bind]⟩,
          fun h => by rw [hE, tailOk_noexp, hr] at h; simp at h⟩
      · simp only [Bool.not_eq_true] at hr hm
        refine ⟨fun h => by rw [hE, tailOk_noexp, hr, hm] at h; simp at h, fun _ => ?_⟩
        obtain ⟨bF, e0, h1, h2, h3, h4⟩ := hfinish ⟨fp.byte, 0, fp.exponent⟩ rfl hv (by rw [htl, hE])
        exact ⟨_, bF, e0, by simp only [ha2 hr, bind, Except.bind]; exact h1, h2, h3, h4, by simp [hE]⟩
    | cons x xs =>
      by_cases hx : matchByte c.caseSensitiveExponent o.exp x = true
      · have hhas : fp.byte.firstIs o.exp c.caseSensitiveExponent = true := by
          rw [firstIs_eq, htl]; exact hx
        have hE : E = (true, (splitSign xs).1, (takeDigits c.exponentRadix (splitSign xs).2).1,
            (takeDigits c.exponentRadix (splitSign xs).2).2) := by
          simp [E, htl, splitExponent, syn_csExp, syn_expRadix, hx]
        obtain ⟨hp1, hp2⟩ := exponentPhase_present hs fp.byte fp.fraction fp.exponent x xs hb htl
        rw [hhas]
        cases hbad : (c.noExponentNotation || (c.noExponentWithoutFraction && fp.fraction.isNone) ||
            !signOk c.noPositiveExponentSign c.requiredExponentSign (splitSign xs).1 ||
            (c.requiredExponentDigits && (takeDigits c.exponentRadix (splitSign xs).2).1.isEmpty)) with
        | true =>
          obtain ⟨k, i, he⟩ := hp1 hbad
          refine ⟨fun _ => ⟨k, i, by simp only [he, bind, Except.bind]⟩, fun h => ?_⟩
          rw [hE, tailOk_exp, hbad] at h
          simp at h
        | false =>
          obtain ⟨ep, he, hadv, hexp⟩ := hp2 hbad
          refine ⟨fun h => ?_, fun _ => ?_⟩
          · simp only [Bool.not_eq_true] at hm
            rw [hE, tailOk_exp, hbad, hm] at h
            simp at h
          · have hl1 := (splitSign_rest xs).2
            have hl2 := takeDigits_le c.exponentRadix (splitSign xs).2
            have hval : ep.byte.index ≤ ep.byte.slc.length :=
              hadv.valid (by rw [htl]; simp only [List.length_cons]; omega) hv
            have htl3 : tl ep.byte = E.2.2.2 := by
              rw [hadv.tl, htl, hE]
              show List.drop _ (x :: xs) = (takeDigits c.exponentRadix (splitSign xs).2).2
              have e1 := (splitSign_rest xs).1
              rw [takeDigits_rest]
              generalize hk : xs.length - (splitSign xs).2.length = k at e1 ⊢
              generalize hn : (takeDigits c.exponentRadix (splitSign xs).2).1.length = n
              rw [show 1 + k + n = (k + n) + 1 by omega, List.drop_succ_cons, e1, List.drop_drop]
            obtain ⟨bF, e0, h1, h2, h3, h4⟩ := hfinish ep hadv.1 hval htl3
            exact ⟨ep, bF, e0, by simp only [he, bind, Except.bind]; exact h1, h2, h3, h4, by simp [hE, hexp]⟩
      · simp only [Bool.not_eq_true] at hx
        have hhas : fp.byte.firstIs o.exp c.caseSensitiveExponent = false := by
          rw [firstIs_eq, htl]; exact hx
        have hE : E = (false, none, [], x :: xs) := by
          simp [E, htl, splitExponent, syn_csExp, hx]
        obtain ⟨ha1, ha2⟩ := exponentPhase_absent (c := c) fp.byte fp.fraction fp.exponent
        rw [hhas]
        by_cases hr : c.requiredExponentNotation = true
        · obtain ⟨k, i, he⟩ := ha1 hr
          exact ⟨fun _ => ⟨k, i, by simp only [he, bind, Except.bind]⟩,
            fun h => by rw [hE, tailOk_noexp, hr] at h; simp at h⟩
        · simp only [Bool.not_eq_true] at hr hm
          refine ⟨fun h => by rw [hE, tailOk_noexp, hr, hm] at h; simp at h, fun _ => ?_⟩
          obtain ⟨bF, e0, h1, h2, h3, h4⟩ := hfinish ⟨fp.byte, 0, fp.exponent⟩ rfl hv (by rw [htl, hE])
          exact ⟨_, bF, e0, by simp only [ha2 hr, bind, Except.bind]; exact h1, h2, h3, h4, by simp [hE]⟩

/-- the flag constraints of `numberOk` that concern the number body (everything but the mantissa sign and
"nothing is left over") -/
def bodyOk (y : Syn) (p : Parts) : Bool :=
  !(y.reqInt && p.ints.isEmpty) && !(y.reqFrac && p.point && p.fracs.isEmpty)
  && !(y.reqMant && p.ints.isEmpty && p.fracs.isEmpty) && !(y.noFloatLZ && !p.pre && leadingZeros p.ints)
  && !(y.noExpNot && p.hasExp) && !(y.reqExpNot && !p.hasExp) && !(y.noExpWoFrac && p.hasExp && !p.point)
  && !(p.hasExp && !signOk y.noPosExp y.reqExpSign p.expSign) && !(y.reqExp && p.hasExp && p.exps.isEmpty)

theorem numberOk_eq (y : Syn) (p : Parts) :
    numberOk y p = (p.rest.isEmpty && signOk y.noPosMant y.reqMantSign p.sign && bodyOk y p) := by
  simp only [numberOk, bodyOk, Bool.and_assoc]

/-- the stages of `splitNumber` when the format has no base prefix -/
theorem splitNumber_stages (y : Syn) (hp : y.pre = 0) (o : POpts) (sign : Option Bool) (l : List Nat) :
    splitNumber y o sign l =
      ⟨sign, false, (takeDigits y.radix l).1,
        (splitFraction y o (takeDigits y.radix l).2).1, (splitFraction y o (takeDigits y.radix l).2).2.1,
        (splitExponent y o (splitFraction y o (takeDigits y.radix l).2).2.2).1,
        (splitExponent y o (splitFraction y o (takeDigits y.radix l).2).2.2).2.1,
        (splitExponent y o (splitFraction y o (takeDigits y.radix l).2).2.2).2.2.1,
        (splitSuffix y (splitExponent y o (splitFraction y o (takeDigits y.radix l).2).2.2).2.2.2).1,
        (splitSuffix y (splitExponent y o (splitFraction y o (takeDigits y.radix l).2).2.2).2.2.2).2⟩ := by
  simp only [splitNumber, splitPrefix_none y hp]

theorem bodyOk_stages (c : Cfg) (ids fds : List Nat) (point : Bool) (E : Bool × Option Bool × List Nat × List Nat)
    (sign : Option Bool) (sf : Bool) (rest : List Nat) :
    bodyOk (cfgSyn c) ⟨sign, false, ids, point, fds, E.1, E.2.1, E.2.2.1, sf, rest⟩ =
      (!(c.requiredIntegerDigits && ids.isEmpty) && !(c.noFloatLeadingZeros && leadingZeros ids) &&
       !(c.requiredFractionDigits && point && fds.isEmpty) &&
       tailOk c (ids.length + fds.length) (!point) E) := by
  have hz : decide (ids.length + fds.length = 0) = (ids.isEmpty && fds.isEmpty) := by
    cases ids <;> cases fds <;> simp
  simp only [bodyOk, tailOk, hz, syn_reqInt, syn_reqFrac, syn_reqMant, syn_noFloatLZ, syn_noExpNot, syn_reqExpNot,
    syn_noExpWoFrac, syn_noPosExp, syn_reqExpSign, syn_reqExp, Bool.not_false, Bool.and_true, Bool.and_assoc]
  ac_rfl

/-- `parse_number::<FORMAT, false>` against the staged splitter -/
theorem parseNumber_spec {c : Cfg} (hs : Std c) (o : POpts) (b : Bytes) (neg fv : Bool)
    (hb : ∀ x ∈ b.slc, x < 256) (hv : b.index ≤ b.slc.length)
    (I : List Nat × List Nat) (hI : I = takeDigits c.mantissaRadix (tl b))
    (F : Bool × List Nat × List Nat) (hF : F = splitFraction (cfgSyn c) o I.2)
    (E : Bool × Option Bool × List Nat × List Nat) (hE : E = splitExponent (cfgSyn c) o F.2.2)
    (S : Bool × List Nat) (hS : S = splitSuffix (cfgSyn c) E.2.2.2)
    (ok : Bool) (hok : ok = (!(c.requiredIntegerDigits && I.1.isEmpty) && !(c.noFloatLeadingZeros && leadingZeros I.1) &&
       !(c.requiredFractionDigits && F.1 && F.2.1.isEmpty) && tailOk c (I.1.length + F.2.1.length) (!F.1) E)) :
    (ok = false → ∃ k i, parseNumber c false o b neg fv = .error (.err k i)) ∧
    (ok = true → ∃ ip fp ep bF e0,
      parseNumber c false o b neg fv =
        (if I.1.length + F.2.1.length ≤ u64Step c.feats c.mantissaRadix then
          .ok (⟨fp.mantissa, e0, neg, false, ip.integerDigits, fp.fraction, ep.explicit⟩, bF.index)
         else manyDigitsPhase c o neg ip fp ep (I.1.length + F.2.1.length) (u64Step c.feats c.mantissaRadix) e0 bF.index) ∧
      bF.slc = b.slc ∧ bF.index ≤ bF.slc.length ∧ tl bF = S.2 ∧
      ip.integerDigits = (tl b).take I.1.length ∧
      fp.fraction = (if F.1 = true then some ((I.2.drop 1).take F.2.1.length) else none) ∧
      ep.explicit = (if E.1 = true then expValue c.exponentRadix E.2.1 E.2.2.1 else 0)) := by
  rw [parseNumber_stages c hs.release]
  obtain ⟨hi1, hi2⟩ := integerPhase_spec hs b hb
  rw [← hI] at hi1 hi2
  have hIle : I.1.length ≤ (tl b).length := by rw [hI]; exact takeDigits_le _ _
  have hI2 : I.2 = (tl b).drop I.1.length := by rw [hI]; exact takeDigits_rest _ _
  by_cases a1 : (c.requiredIntegerDigits && I.1.isEmpty) = true
  · obtain ⟨k, i, he⟩ := hi1 a1
    exact ⟨fun _ => ⟨k, i, by simp only [he, bind, Except.bind]⟩, fun h => by rw [hok, a1] at h; simp at h⟩
  · simp only [Bool.not_eq_true] at a1
    obtain ⟨hi3, hi4⟩ := hi2 a1
    by_cases a2 : (c.noFloatLeadingZeros && leadingZeros I.1) = true
    · obtain ⟨k, i, he⟩ := hi3 a2
      exact ⟨fun _ => ⟨k, i, by simp only [he, bind, Except.bind]⟩, fun h => by rw [hok, a1, a2] at h; simp at h⟩
    · simp only [Bool.not_eq_true] at a2
      obtain ⟨ip, hip, _, hstart, hadvI, hnI, hdigI⟩ := hi4 a2
      have htlI : tl ip.byte = I.2 := by rw [hadvI.tl, hI2]
      have hvI : ip.byte.index ≤ ip.byte.slc.length := hadvI.valid hIle hv
      have hbI : ∀ x ∈ ip.byte.slc, x < 256 := by rw [hadvI.1]; exact hb
      simp only [hip, bind, Except.bind]
      -- fraction
      have hfrac : ∀ (fp : FracPart), fp.byte.slc = b.slc → fp.byte.index ≤ fp.byte.slc.length →
          ip.nDigits + fp.nAfterDot ≤ fp.byte.index → tl fp.byte = F.2.2 → fp.nAfterDot = F.2.1.length →
          fp.fraction.isNone = !F.1 →
          (tailOk c (I.1.length + F.2.1.length) (!F.1) E = false → ∃ k i, numberTail c o neg ip fp = .error (.err k i)) ∧
          (tailOk c (I.1.length + F.2.1.length) (!F.1) E = true → ∃ ep bF e0,
            numberTail c o neg ip fp =
              (if I.1.length + F.2.1.length ≤ u64Step c.feats c.mantissaRadix then
                .ok (⟨fp.mantissa, e0, neg, false, ip.integerDigits, fp.fraction, ep.explicit⟩, bF.index)
               else manyDigitsPhase c o neg ip fp ep (I.1.length + F.2.1.length) (u64Step c.feats c.mantissaRadix) e0 bF.index) ∧
            bF.slc = b.slc ∧ bF.index ≤ bF.slc.length ∧ tl bF = S.2 ∧
            ep.explicit = (if E.1 = true then expValue c.exponentRadix E.2.1 E.2.2.1 else 0)) := by
        intro fp h1 h2 h3 h4 h5 h6
        have := numberTail_spec hs o neg ip fp (by rw [h1]; exact hb) h2 h3
        simp only [h4, ← hE, ← hS, hnI, h5, h6] at this
        obtain ⟨t1, t2⟩ := this
        refine ⟨t1, fun h => ?_⟩
        obtain ⟨ep, bF, e0, q1, q2, q3, q4, q5⟩ := t2 h
        exact ⟨ep, bF, e0, q1, q2.trans h1, q3, q4, q5⟩
      cases hr1 : I.2 with
      | nil =>
        have hFv : F = (false, [], []) := by rw [hF, hr1]; rfl
        have hF1 : F.1 = false := by rw [hFv]
        have hF21 : F.2.1 = [] := by rw [hFv]
        have hF22 : F.2.2 = [] := by rw [hFv]
        have hnp := fractionPhase_nopoint (c := c) o ip.byte ip.mantissa (by rw [htlI, hr1]; simp)
        simp only [hnp]
        obtain ⟨t1, t2⟩ := hfrac ⟨ip.byte, ip.mantissa, 0, 0, none, false⟩ hadvI.1 hvI
          (by simp only [hnI, hadvI.2]; omega) (by rw [htlI, hr1, hF22]) (by rw [hF21]; rfl) (by rw [hF1]; rfl)
        have hokv : ok = tailOk c (I.1.length + F.2.1.length) (!F.1) E := by
          rw [hok, a1, a2, hF1]; simp
        rw [hokv]
        refine ⟨t1, fun h => ?_⟩
        obtain ⟨ep, bF, e0, q1, q2, q3, q4, q5⟩ := t2 h
        exact ⟨ip, _, ep, bF, e0, q1, q2, q3, q4, hdigI, by rw [hF1]; rfl, q5⟩
      | cons x xs =>
        by_cases hx : x = o.dp
        · subst hx
          have hFv : F = (true, (takeDigits c.mantissaRadix xs).1, (takeDigits c.mantissaRadix xs).2) := by
            rw [hF, hr1]; simp [splitFraction, syn_radix]
          have hF1 : F.1 = true := by rw [hFv]
          have hF21 : F.2.1 = (takeDigits c.mantissaRadix xs).1 := by rw [hFv]
          have hF22 : F.2.2 = (takeDigits c.mantissaRadix xs).2 := by rw [hFv]
          obtain ⟨hp1, hp2⟩ := fractionPhase_point hs o ip.byte ip.mantissa xs hbI (by rw [htlI, hr1])
          rw [← hF21] at hp1 hp2
          have hxle : F.2.1.length ≤ xs.length := by rw [hF21]; exact takeDigits_le c.mantissaRadix xs
          by_cases a3 : (c.requiredFractionDigits && F.2.1.isEmpty) = true
          · obtain ⟨k, i, he⟩ := hp1 a3
            refine ⟨fun _ => ⟨k, i, by simp only [he]⟩, fun h => ?_⟩
            rw [hok, a1, a2, hF1, Bool.and_true, a3] at h
            simp at h
          · simp only [Bool.not_eq_true] at a3
            obtain ⟨fp, hfp, hadvF, hnF, hfrF, _⟩ := hp2 a3
            simp only [hfp]
            have hvF : fp.byte.index ≤ fp.byte.slc.length :=
              hadvF.valid (by rw [htlI, hr1]; simp only [List.length_cons]; omega) hvI
            obtain ⟨t1, t2⟩ := hfrac fp (hadvF.1.trans hadvI.1) hvF
              (by rw [hnI, hnF, hadvF.2, hadvI.2]; omega)
              (by rw [hadvF.tl, htlI, hr1, hF22, Nat.add_comm 1, List.drop_succ_cons, takeDigits_rest, ← hF21])
              hnF (by rw [hfrF, hF1]; rfl)
            have hokv : ok = tailOk c (I.1.length + F.2.1.length) (!F.1) E := by
              rw [hok, a1, a2, hF1, Bool.and_true, a3]; simp
            rw [hokv]
            refine ⟨t1, fun h => ?_⟩
            obtain ⟨ep, bF, e0, q1, q2, q3, q4, q5⟩ := t2 h
            exact ⟨ip, fp, ep, bF, e0, q1, q2, q3, q4, hdigI, by rw [hfrF, hF1]; simp, q5⟩
        · have hFv : F = (false, [], x :: xs) := by
            rw [hF, hr1]; simp [splitFraction, hx]
          have hF1 : F.1 = false := by rw [hFv]
          have hF21 : F.2.1 = [] := by rw [hFv]
          have hF22 : F.2.2 = x :: xs := by rw [hFv]
          have hnp := fractionPhase_nopoint (c := c) o ip.byte ip.mantissa
            (by rw [htlI, hr1]; simpa using hx)
          simp only [hnp]
          obtain ⟨t1, t2⟩ := hfrac ⟨ip.byte, ip.mantissa, 0, 0, none, false⟩ hadvI.1 hvI
            (by simp only [hnI, hadvI.2]; omega) (by rw [htlI, hr1, hF22]) (by rw [hF21]; rfl) (by rw [hF1]; rfl)
          have hokv : ok = tailOk c (I.1.length + F.2.1.length) (!F.1) E := by
            rw [hok, a1, a2, hF1]; simp
          rw [hokv]
          refine ⟨t1, fun h => ?_⟩
          obtain ⟨ep, bF, e0, q1, q2, q3, q4, q5⟩ := t2 h
          exact ⟨ip, _, ep, bF, e0, q1, q2, q3, q4, hdigI, by rw [hF1]; rfl, q5⟩
end LexVerif.Proof.Grammar
