import LexVerif.Proof.ParseNumberDebugMain
/-!
# Proof.ParseNumberDebugApi — special values and `parse_complete` / `parse_partial` (syntax level) under `Ctx`
-/
namespace LexVerif.Proof.PNDebug
open LexVerif LexVerif.Model LexVerif.Spec
open LexVerif.Props.C12 (Bytes.Valid incCount_spec peek_error_iff)
open LexVerif.Proof.PNTotal (Adv csum step_adv)

variable {c : Cfg}

theorem iterNext_safe (cx : Ctx c) (k : Comp) (b : Bytes) : Safe (iterNext c k b) (fun _ => True) := by
  obtain ⟨⟨v, b1⟩, hp⟩ := peek_ok cx k b
  unfold iterNext
  simp only [hp, bind, Except.bind]
  cases v <;> trivial

theorem startsWith_safe (cx : Ctx c) : ∀ (s : List Nat) (b : Bytes), Safe (startsWith c s b) (fun _ => True)
  | [], b => by unfold startsWith; trivial
  | y :: ys, b => by
    unfold startsWith
    refine Safe.bind (iterNext_safe cx _ b) ?_
    rintro ⟨x, b1⟩ _
    simp only
    split
    · exact startsWith_safe cx ys b1
    · trivial

theorem startsWithUncased_safe (cx : Ctx c) : ∀ (s : List Nat) (b : Bytes), Safe (Model.startsWithUncased c s b) (fun _ => True)
  | [], b => by unfold Model.startsWithUncased; trivial
  | y :: ys, b => by
    unfold Model.startsWithUncased
    refine Safe.bind (iterNext_safe cx _ b) ?_
    rintro ⟨x, b1⟩ _
    simp only
    cases x with
    | none => trivial
    | some xi =>
      simp only
      split
      · trivial
      · exact startsWithUncased_safe cx ys b1

theorem isSpecialEq_safe (cx : Ctx c) (b : Bytes) (s : List Nat) : Safe (isSpecialEq c b s) (fun _ => True) := by
  unfold isSpecialEq
  simp only
  split
  · refine Safe.bind (startsWith_safe cx s b) ?_
    rintro ⟨hit, b1⟩ _
    simp only
    split
    · obtain ⟨⟨v, b2⟩, hp⟩ := peek_ok cx .special b1
      simp only [hp, bind, Except.bind]; trivial
    · trivial
  · refine Safe.bind (startsWithUncased_safe cx s b) ?_
    rintro ⟨hit, b1⟩ _
    simp only
    split
    · obtain ⟨⟨v, b2⟩, hp⟩ := peek_ok cx .special b1
      simp only [hp, bind, Except.bind]; trivial
    · trivial

theorem try1_safe (cx : Ctx c) (b : Bytes) (len : Nat) (str : Option (List Nat)) :
    Safe (match str with
      | some s => if len ≥ s.length then isSpecialEq c b s else pure 0
      | none => pure 0) (fun _ => True) := by
  cases str with
  | none => trivial
  | some s =>
    simp only
    split
    · exact isSpecialEq_safe cx b s
    · trivial

theorem parsePositiveSpecial_safe (cx : Ctx c) (o : POpts) (b : Bytes) :
    Safe (parsePositiveSpecial c o b) (fun _ => True) := by
  unfold parsePositiveSpecial
  split
  · trivial
  · simp only
    refine Safe.bind (try1_safe cx b _ _) ?_
    intro n _
    split
    · trivial
    · refine Safe.bind (try1_safe cx b _ _) ?_
      intro n2 _
      split
      · trivial
      · refine Safe.bind (try1_safe cx b _ _) ?_
        intro n3 _
        split <;> trivial

theorem parseSpecialComplete_safe (cx : Ctx c) (o : POpts) (b : Bytes) :
    Safe (parseSpecialComplete c o b) (fun _ => True) := by
  unfold parseSpecialComplete
  refine Safe.bind (parsePositiveSpecial_safe cx o b) ?_
  intro r _
  split
  · split <;> trivial
  · trivial

theorem isConsumed_safe (cx : Ctx c) (k : Comp) (b : Bytes) (hb : Bytes.Valid b) :
    Safe (isConsumed c k b) (fun r => Adv b r.2 ∧ (r.1 = false → r.2.index < r.2.slc.length)) := by
  unfold isConsumed
  split
  · refine ⟨adv_refl hb, ?_⟩
    intro h
    simp only [Bytes.isBufferEmpty, decide_eq_false_iff_not] at h
    simp only
    omega
  · obtain ⟨v, b1, hp, ha, hx, _⟩ := peek_gen cx k b hb
    simp only [hp, bind, Except.bind]
    refine ⟨ha, ?_⟩
    intro h
    cases v with
    | none => simp at h
    | some x => exact get_lt hx.symm

theorem parseCompleteNumber_safe (cx : Ctx c) (hi : Good c .integer) (hf : Good c .fraction) (o : POpts)
    (ox : OCtx c o) (b : Bytes) (neg : Bool) (hb : b.index < b.slc.length) :
    Safe (parseCompleteNumber c o b neg) (fun _ => True) := by
  unfold parseCompleteNumber
  refine Safe.bind (parseNumber_safe cx hi hf false o ox b neg hb) ?_
  rintro ⟨n, count⟩ _
  simp only
  split
  · trivial
  · exact Safe.err

theorem parseFloatSyntax_safe (cx : Ctx c) (hi : Good c .integer) (hf : Good c .fraction) (o : POpts)
    (ox : OCtx c o) (isPartial : Bool) (input : List Nat) :
    Safe (parseFloatSyntax c o isPartial input) (fun _ => True) := by
  unfold parseFloatSyntax
  unfold parseMantissaSign
  refine Safe.bind (parseSign_safe cx _ _ _ _ _ (new_valid input)) ?_
  rintro ⟨neg, b1⟩ hadv1
  have hadv1 : Adv (Bytes.new input) b1 := hadv1
  simp only
  refine Safe.bind (isConsumed_safe cx .integer b1 hadv1.valid') ?_
  rintro ⟨consumed, b2⟩ ⟨hb2, hne⟩
  have hne : consumed = false → b2.index < b2.slc.length := hne
  simp only
  split
  · split
    · exact Safe.err
    · trivial
  · next hc =>
    have hlt := hne (by simpa using hc)
    split
    · have h := parseNumber_safe cx hi hf true o ox b2 neg hlt
      cases hres : parseNumber c true o b2 neg with
      | ok r => trivial
      | error e =>
        rw [hres] at h
        cases e with
        | err k i =>
          simp only
          refine Safe.bind (parsePositiveSpecial_safe cx o b2) ?_
          intro r _
          split
          · trivial
          · exact Safe.err
        | panic t => exact h.elim
        | fault t => exact h.elim
    · have h := parseCompleteNumber_safe cx hi hf o ox b2 neg hlt
      cases hres : parseCompleteNumber c o b2 neg with
      | ok r => trivial
      | error e =>
        rw [hres] at h
        cases e with
        | err k i =>
          simp only
          refine Safe.bind (parseSpecialComplete_safe cx o b2) ?_
          intro r _
          split
          · trivial
          · exact Safe.err
        | panic t => exact h.elim
        | fault t => exact h.elim

end LexVerif.Proof.PNDebug
