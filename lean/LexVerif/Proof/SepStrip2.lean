import LexVerif.Proof.SepStrip1
/-!
# Proof.SepStrip2 — `skip_zeros` and `parse_u64_digits` over skip-everything iterators
-/
set_option linter.unusedSimpArgs false
namespace LexVerif.Proof.Sep
open LexVerif LexVerif.Model LexVerif.Spec
open LexVerif.Props.C12

/-- leading zeros seen through separators: (zeros, bytes the cursor moves) -/
def zerosSkip (c : Cfg) : List Nat → Nat × Nat
  | [] => (0, 0)
  | x :: xs =>
    if c.isSep x then ((zerosSkip c xs).1, (zerosSkip c xs).2 + 1)
    else if x = 48 then ((zerosSkip c xs).1 + 1, (zerosSkip c xs).2 + 1)
    else (0, 0)

theorem zerosSkip_seps (c : Cfg) (l : List Nat) :
    zerosSkip c l = ((zerosSkip c (l.drop (countSeps c l))).1, (zerosSkip c (l.drop (countSeps c l))).2 + countSeps c l) := by
  induction l with
  | nil => simp [zerosSkip, countSeps]
  | cons x xs ih =>
    simp only [countSeps]
    by_cases hs : c.isSep x = true
    · simp only [hs, if_true, List.drop_succ_cons, zerosSkip]
      rw [ih]
      simp only [Nat.add_assoc]
    · simp [hs]

theorem readIfValueCased_skip (c : Cfg) (k : Comp) (v : Nat) (b : Bytes) (hd : c.debug = false)
    (hk : c.skip k = .pred .iltc) :
    readIfValueCased c k v b =
      .ok (if b.slc[b.index + countSeps c (b.slc.drop b.index)]? = some v
           then (true, { b with index := b.index + countSeps c (b.slc.drop b.index) + 1 })
           else (false, { b with index := b.index + countSeps c (b.slc.drop b.index) })) := by
  unfold readIfValueCased
  rw [peek_iltc c k b hk]
  simp only [bind, Except.bind, iterStep, stepUnchecked_release c _ _ hd]
  by_cases h : b.slc[b.index + countSeps c (b.slc.drop b.index)]? = some v <;> simp [h, pure, Except.pure]

theorem skipZerosLoop_skip (c : Cfg) (k : Comp) (hd : c.debug = false) (hk : c.skip k = .pred .iltc) :
    ∀ (fuel : Nat) (b : Bytes), b.slc.length - b.index < fuel →
      skipZerosLoop c k fuel b =
        .ok (advS c k (zerosSkip c (b.slc.drop b.index)).2 (zerosSkip c (b.slc.drop b.index)).1 b) := by
  intro fuel
  induction fuel with
  | zero => intro b h; omega
  | succ n ih =>
    intro b hf
    unfold skipZerosLoop
    rw [readIfValueCased_skip c k 48 b hd hk]
    simp only [bind, Except.bind]
    rw [zerosSkip_seps c (b.slc.drop b.index)]
    simp only [List.drop_drop]
    generalize hm : countSeps c (b.slc.drop b.index) = m
    cases hv : b.slc[b.index + m]? with
    | none => simp [drop_of_none hv, zerosSkip, advS_zero, pure, Except.pure]
    | some ch =>
      have hlt : b.index + m < b.slc.length := (List.getElem?_eq_some_iff.mp hv).1
      have hns : c.isSep ch = false :=
        countSeps_stop c (b.slc.drop b.index) ch (by rw [hm, List.getElem?_drop]; exact hv)
      simp only [drop_of_get hv, zerosSkip, hns, Bool.false_eq_true, if_false]
      by_cases h48 : ch = 48
      · subst h48
        simp only [if_true]
        have hi := incCount_spec c k { b with index := b.index + m + 1 }
        have hf2 : (Bytes.incCount c k { b with index := b.index + m + 1 }).slc.length
            - (Bytes.incCount c k { b with index := b.index + m + 1 }).index < n := by
          rw [hi.1, hi.2]; simp only; omega
        rw [ih _ hf2, hi.1, hi.2]
        simp only [advS_succ]
        have e : m + 1 + (zerosSkip c (List.drop (b.index + m + 1) b.slc)).snd
            = (zerosSkip c (List.drop (b.index + m + 1) b.slc)).snd + 1 + m := by omega
        rw [e]
      · simp [h48, advS_zero, pure, Except.pure]

theorem zerosSkip_strip (c : Cfg) (l : List Nat) :
    (zerosSkip c l).1 = zerosPrefix (nonSep c l) ∧
    (nonSep c (l.take (zerosSkip c l).2)).length = (zerosSkip c l).1 ∧
    (∀ x, l[(zerosSkip c l).2]? = some x → c.isSep x = false) := by
  induction l with
  | nil => simp [zerosSkip, nonSep, zerosPrefix]
  | cons x xs ih =>
    cases hs : c.isSep x with
    | true =>
      simp only [zerosSkip, hs, if_true, List.take_succ_cons, List.getElem?_cons_succ]
      rw [nonSep_cons_sep c x _ hs, nonSep_cons_sep c x _ hs]
      exact ih
    | false =>
      by_cases hx : x = 48
      · subst hx
        simp only [zerosSkip, hs, Bool.false_eq_true, if_false, if_true, List.take_succ_cons, List.getElem?_cons_succ]
        rw [nonSep_cons_non c 48 _ hs, nonSep_cons_non c 48 _ hs]
        simp only [zerosPrefix, if_true, List.length_cons]
        exact ⟨by rw [ih.1], by rw [ih.2.1], ih.2.2⟩
      · simp only [zerosSkip, hs, Bool.false_eq_true, if_false, hx, List.take_zero, List.getElem?_cons_zero,
          Option.some.injEq]
        rw [nonSep_cons_non c x _ hs]
        refine ⟨by simp [zerosPrefix, hx], by simp [nonSep], ?_⟩
        intro y hy; rw [← hy]; exact hs

/-- `parse_u64_digits` through separators: (bytes moved, digits counted, mantissa, remaining step) -/
def u64Skip (c : Cfg) (radix : Nat) : List Nat → Nat → Nat → Nat × Nat × Nat × Nat
  | [], m, st => (0, 0, m, st)
  | x :: xs, m, st =>
    if c.isSep x then
      let r := u64Skip c radix xs m st
      (r.1 + 1, r.2.1, r.2.2.1, r.2.2.2)
    else if st > 0 then
      let r := u64Skip c radix xs ((m * radix + charToValidDigit x radix) % pow2_64) (st - 1)
      (r.1 + 1, r.2.1 + 1, r.2.2.1, r.2.2.2)
    else (0, 0, m, st)

theorem u64Skip_seps (c : Cfg) (radix : Nat) (l : List Nat) (m st : Nat) :
    u64Skip c radix l m st =
      ((u64Skip c radix (l.drop (countSeps c l)) m st).1 + countSeps c l,
       (u64Skip c radix (l.drop (countSeps c l)) m st).2) := by
  induction l with
  | nil => simp [u64Skip, countSeps]
  | cons x xs ih =>
    simp only [countSeps]
    by_cases hs : c.isSep x = true
    · simp only [hs, if_true, List.drop_succ_cons, u64Skip]
      rw [ih]
      simp only [Nat.add_assoc]
    · simp [hs]

theorem u64Loop1_skip (c : Cfg) (k : Comp) (hd : c.debug = false) (hk : c.skip k = .pred .iltc) :
    ∀ (fuel : Nat) (b : Bytes) (m st : Nat), b.slc.length - b.index < fuel →
      u64Loop1 c k fuel b m st =
        .ok (advS c k (u64Skip c c.mantissaRadix (b.slc.drop b.index) m st).1
               (u64Skip c c.mantissaRadix (b.slc.drop b.index) m st).2.1 b,
             (u64Skip c c.mantissaRadix (b.slc.drop b.index) m st).2.2.1,
             (u64Skip c c.mantissaRadix (b.slc.drop b.index) m st).2.2.2) := by
  intro fuel
  induction fuel with
  | zero => intro b _ _ h; omega
  | succ n ih =>
    intro b m st hf
    unfold u64Loop1
    rw [peek_iltc c k b hk]
    simp only [bind, Except.bind]
    rw [u64Skip_seps c _ (b.slc.drop b.index)]
    simp only [List.drop_drop]
    generalize hm : countSeps c (b.slc.drop b.index) = q
    cases hv : b.slc[b.index + q]? with
    | none => simp [drop_of_none hv, u64Skip, advS_zero, pure, Except.pure]
    | some ch =>
      have hlt : b.index + q < b.slc.length := (List.getElem?_eq_some_iff.mp hv).1
      have hns : c.isSep ch = false :=
        countSeps_stop c (b.slc.drop b.index) ch (by rw [hm, List.getElem?_drop]; exact hv)
      simp only [drop_of_get hv, u64Skip, hns, Bool.false_eq_true, if_false]
      by_cases hst : st > 0
      · simp only [hst, if_true, hd, Bool.false_and, Bool.false_eq_true, if_false, iterStep,
          stepUnchecked_release c _ _ hd]
        have hi := incCount_spec c k { b with index := b.index + q + 1 }
        have hf2 : (Bytes.incCount c k { b with index := b.index + q + 1 }).slc.length
            - (Bytes.incCount c k { b with index := b.index + q + 1 }).index < n := by
          rw [hi.1, hi.2]; simp only; omega
        rw [ih _ _ _ hf2, hi.1, hi.2]
        simp only [advS_succ]
        have e : ∀ z : Nat, q + 1 + z = z + 1 + q := by intro z; omega
        rw [e]
      · simp [hst, advS_zero, pure, Except.pure]

theorem u64Skip_strip (c : Cfg) (radix : Nat) : ∀ (l : List Nat) (m st : Nat),
    (u64Skip c radix l m st).2.1 = (u64Spec radix (nonSep c l) m st).1 ∧
    (u64Skip c radix l m st).2.2.1 = (u64Spec radix (nonSep c l) m st).2.1 ∧
    (u64Skip c radix l m st).2.2.2 = (u64Spec radix (nonSep c l) m st).2.2 := by
  intro l
  induction l with
  | nil => intro m st; simp [u64Skip, nonSep, u64Spec]
  | cons x xs ih =>
    intro m st
    cases hs : c.isSep x with
    | true =>
      simp only [u64Skip, hs, if_true]
      rw [nonSep_cons_sep c x _ hs]
      exact ih m st
    | false =>
      rw [nonSep_cons_non c x _ hs]
      by_cases hst : st > 0
      · simp only [u64Skip, hs, Bool.false_eq_true, if_false, hst, if_true, u64Spec]
        have := ih ((m * radix + charToValidDigit x radix) % pow2_64) (st - 1)
        exact ⟨by rw [this.1], this.2.1, this.2.2⟩
      · simp [u64Skip, hs, hst, u64Spec]

end LexVerif.Proof.Sep
