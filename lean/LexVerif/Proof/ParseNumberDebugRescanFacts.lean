import LexVerif.Proof.ParseNumberDebugRescan
import LexVerif.Proof.GrammarIter
/-!
# Proof.ParseNumberDebugRescanFacts — what the first pass provides for the re-scan: start conditions, counts, stored slice

* `StartC`: the state a component's digit run starts in (byte before it neither digit nor separator / on a non-separator
  / on a separator `peek` refuses to skip — then the run is empty);
* the integer-component operations before the fraction do not touch `fraction_count`, the base-prefix phase does not
  touch any count;
* `firstPass_sliceRun`: the release-build `parse_digits` runs through the slice the first pass stored.
-/
set_option linter.unusedSimpArgs false
set_option linter.unusedVariables false
namespace LexVerif.Proof.PNDebug
open LexVerif LexVerif.Model LexVerif.Spec
open LexVerif.Props.C12 (Bytes.Valid incCount_spec peek_spec peek_some_in_range parseDigitsLoop_spec)
open LexVerif.Proof.PNTotal (Adv csum step_adv)
open LexVerif.Proof.Sep (Run slice slice_self slice_length advS peek_at_nonsep rescan_pred2
  rescan_itc_start rescan_empty isDigit_of_stop PeekStable peekStable_pred peekStable_contig contig_of_noskip sep_lt_256)

variable {c : Cfg}

/-- on a non-separator (or at the end), or on a separator `peek` returns unskipped -/
def Alt23 (c : Cfg) (k : Comp) (st : Bytes) : Prop :=
  (∀ x, st.slc[st.index]? = some x → c.isSep x = false) ∨ (∃ x, peek c k st = .ok (some x, st) ∧ c.isSep x = true)

/-- the state a component's digit run starts in -/
def StartC (c : Cfg) (k : Comp) (st : Bytes) : Prop :=
  (∀ x, getPrev st.slc st.index = some x → c.isDigit x = false ∧ c.isSep x = false) ∨ Alt23 c k st

/-- a byte `parse_digits` stopped at is no digit in the sense of the separator predicates — also for "bytes" ≥ 256 of
the model's `List Nat` inputs (`char_to_digit_const` wraps modulo 256, `is_digit` of the model does not) -/
theorem isDigit_of_stop2 (c : Cfg) (x : Nat) (hr : c.mantissaRadix ≤ 36)
    (h : charToDigit x c.mantissaRadix = none) : c.isDigit x = false := by
  by_cases hx : x < 256
  · exact isDigit_of_stop c x hx hr h
  · unfold Cfg.isDigit digitVal digitVal36
    have h1 : ¬ (48 ≤ x ∧ x ≤ 57) := by omega
    have h2 : ¬ (65 ≤ x ∧ x ≤ 90) := by omega
    have h3 : ¬ (97 ≤ x ∧ x ≤ 122) := by omega
    simp [h1, h2, h3]

theorem sepNotDigit (cx : Ctx c) (x : Nat) (hx : c.isSep x = true) : c.isDigit x = false :=
  isDigit_of_stop c x (sep_lt_256 c x hx) cx.r36 (by
    have := isSep_eq cx hx; rw [this]; exact charToDigit_none_of_not_isDig cx.sepNotDigM)

theorem peekStable_of_ctx (cx : Ctx c) (k : Comp) : PeekStable c k := by
  cases hk : c.skip k with
  | noskip => exact peekStable_contig c k (contig_of_noskip c k hk)
  | unreachable => exact absurd hk (cx.skipOk k)
  | pred p => exact peekStable_pred c k p hk (sepNotDigit cx)

/-- the state after a `peek` -/
theorem alt23_of_peek (cx : Ctx c) (k : Comp) (b b1 : Bytes) (v : Option Nat) (hb : Bytes.Valid b)
    (hp : peek c k b = .ok (v, b1)) : Alt23 c k b1 := by
  have hs := peek_spec c k b b1 v hb hp
  cases v with
  | none => left; intro x hx; rw [← hs.2.2.2.2.2.2] at hx; cases hx
  | some x =>
    cases hsx : c.isSep x with
    | false => left; intro y hy; rw [← hs.2.2.2.2.2.2] at hy; cases hy; exact hsx
    | true => right; exact ⟨x, peekStable_of_ctx cx k b b1 x hb hp hsx, hsx⟩

/-! ## steps do not touch the counts -/

theorem stepBy_eq {contig : Bool} {n : Nat} {b b' : Bytes} (h : b.stepBy c contig n = .ok b') :
    b' = { b with index := b.index + n } := by
  unfold Bytes.stepBy at h
  split at h
  · cases h
  · split at h
    · cases h
    · split at h
      · cases h
      · split at h
        · cases h
        · simp only [Except.ok.injEq] at h; exact h.symm

theorem iterStep_eq {k : Comp} {b b' : Bytes} (h : iterStep c k b = .ok b') : b' = { b with index := b.index + 1 } := by
  unfold iterStep Bytes.stepUnchecked at h
  split at h
  · cases h
  · exact stepBy_eq h

theorem readIfValueCased_facts (cx : Ctx c) (k : Comp) (v : Nat) (b b' : Bytes) (hit : Bool) (hb : Bytes.Valid b)
    (h : readIfValueCased c k v b = .ok (hit, b')) :
    b'.ic = b.ic ∧ b'.fc = b.fc ∧ Bytes.Valid b' ∧
      (hit = true → getPrev b'.slc b'.index = some v) ∧ (hit = false → Alt23 c k b') := by
  unfold readIfValueCased at h
  cases hp : peek c k b with
  | error e => simp [hp, bind, Except.bind] at h
  | ok r =>
    obtain ⟨x, b1⟩ := r
    have hs := peek_spec c k b b1 x hb hp
    simp only [hp, bind, Except.bind] at h
    split at h
    · next hx =>
      cases hst : iterStep c k b1 with
      | error e => simp [hst] at h
      | ok b2 =>
        simp only [hst, pure, Except.pure, Except.ok.injEq, Prod.mk.injEq] at h
        obtain ⟨rfl, rfl⟩ := h
        have he := iterStep_eq hst
        subst he
        have hxv : x = some v := by simpa using hx
        subst hxv
        have hlt := peek_some_in_range c k b b1 v hb hp
        refine ⟨hs.2.1, hs.2.2.1, ?_, ?_, (by intro h; cases h)⟩
        · unfold Bytes.Valid; simp only; omega
        · intro _; simp only [getPrev, Nat.succ_ne_zero, if_false, Nat.add_sub_cancel]; exact hs.2.2.2.2.2.2.symm
    · simp only [pure, Except.pure, Except.ok.injEq, Prod.mk.injEq] at h
      obtain ⟨rfl, rfl⟩ := h
      exact ⟨hs.2.1, hs.2.2.1, hs.2.2.2.2.2.1, (by intro h; cases h), fun _ => alt23_of_peek cx k b _ x hb hp⟩

theorem readIfValue_facts (cx : Ctx c) (k : Comp) (v : Nat) (cased : Bool) (b b' : Bytes) (hit : Bool) (hb : Bytes.Valid b)
    (h : readIfValue c k v cased b = .ok (hit, b')) :
    b'.ic = b.ic ∧ b'.fc = b.fc ∧ Bytes.Valid b' ∧
      (hit = true → ∃ y, getPrev b'.slc b'.index = some y ∧ matchesB y v cased = true) ∧
      (hit = false → Alt23 c k b') := by
  unfold readIfValue at h
  split at h
  · next hc =>
    obtain ⟨h1, h2, h3, h4, h5⟩ := readIfValueCased_facts cx k v b b' hit hb h
    refine ⟨h1, h2, h3, ?_, h5⟩
    intro hh
    exact ⟨v, h4 hh, by simp [matchesB, hc]⟩
  · next hc =>
    have hcf : cased = false := by simpa using hc
    unfold readIfValueUncased at h
    cases hp : peek c k b with
    | error e => simp [hp, bind, Except.bind] at h
    | ok r =>
      obtain ⟨x, b1⟩ := r
      have hs := peek_spec c k b b1 x hb hp
      simp only [hp, bind, Except.bind] at h
      cases x with
      | none =>
        simp only [pure, Except.pure, Except.ok.injEq, Prod.mk.injEq] at h
        obtain ⟨rfl, rfl⟩ := h
        exact ⟨hs.2.1, hs.2.2.1, hs.2.2.2.2.2.1, (by intro h; cases h), fun _ => alt23_of_peek cx k b _ _ hb hp⟩
      | some y =>
        simp only at h
        split at h
        · next hy =>
          cases hst : iterStep c k b1 with
          | error e => simp [hst] at h
          | ok b2 =>
            simp only [hst, pure, Except.pure, Except.ok.injEq, Prod.mk.injEq] at h
            obtain ⟨rfl, rfl⟩ := h
            have he := iterStep_eq hst
            subst he
            have hlt := peek_some_in_range c k b b1 y hb hp
            refine ⟨hs.2.1, hs.2.2.1, ?_, ?_, (by intro h; cases h)⟩
            · unfold Bytes.Valid; simp only; omega
            · intro _
              refine ⟨y, ?_, by simp [matchesB, hcf, hy]⟩
              simp only [getPrev, Nat.succ_ne_zero, if_false, Nat.add_sub_cancel]; exact hs.2.2.2.2.2.2.symm
        · simp only [pure, Except.pure, Except.ok.injEq, Prod.mk.injEq] at h
          obtain ⟨rfl, rfl⟩ := h
          exact ⟨hs.2.1, hs.2.2.1, hs.2.2.2.2.2.1, (by intro h; cases h), fun _ => alt23_of_peek cx k b _ _ hb hp⟩

/-- the base-prefix phase: counts untouched; the integer digits start behind the prefix letter, or in a state `peek`
left -/
theorem prefixPhase_facts (cx : Ctx c) (b st : Bytes) (isP : Bool) (hb : Bytes.Valid b) (hpost : Alt23 c .integer b)
    (hpre : c.basePrefix ≠ 0 → ∀ y, matchesB y c.basePrefix c.caseSensitiveBasePrefix = true →
      c.isDigit y = false ∧ c.isSep y = false)
    (h : prefixPhase c b = .ok (isP, st)) :
    st.ic = b.ic ∧ st.fc = b.fc ∧ StartC c .integer st ∧ (c.basePrefix = 0 → Alt23 c .integer st) := by
  unfold prefixPhase at h
  simp only [prefixRepair, Bool.false_eq_true, if_false] at h
  split at h
  · next hcond =>
    simp only [Bool.and_eq_true, bne_iff_ne, ne_eq, decide_eq_true_eq] at hcond
    have hne : c.basePrefix ≠ 0 := by simpa using hcond.2
    cases h1 : readIfValueCased c .integer 48 b with
    | error e => simp [h1, bind, Except.bind] at h
    | ok r1 =>
      obtain ⟨zero, b1⟩ := r1
      obtain ⟨f1, f2, f3, _, f5⟩ := readIfValueCased_facts cx .integer 48 b b1 zero hb h1
      simp only [h1, bind, Except.bind] at h
      cases zero with
      | false =>
        simp only [Bool.false_eq_true, if_false, pure, Except.pure, Except.ok.injEq, Prod.mk.injEq] at h
        obtain ⟨_, rfl⟩ := h
        exact ⟨f1, f2, Or.inr (f5 rfl), fun h0 => absurd h0 hne⟩
      | true =>
        simp only [if_true] at h
        cases h2 : readIfValue c .integer c.basePrefix c.caseSensitiveBasePrefix b1 with
        | error e => simp [h2] at h
        | ok r2 =>
          obtain ⟨hit, b2⟩ := r2
          obtain ⟨g1, g2, g3, g4, g5⟩ := readIfValue_facts cx .integer _ _ b1 b2 hit f3 h2
          simp only [h2] at h
          split at h
          · cases h
          · simp only [pure, Except.pure, Except.ok.injEq, Prod.mk.injEq] at h
            obtain ⟨_, rfl⟩ := h
            refine ⟨g1.trans f1, g2.trans f2, ?_, fun h0 => absurd h0 hne⟩
            cases hit with
            | true =>
              obtain ⟨y, hy, hm⟩ := g4 rfl
              left
              intro x hx
              rw [hy] at hx; cases hx
              exact hpre hne y hm
            | false => exact Or.inr (g5 rfl)
  · simp only [pure, Except.pure, Except.ok.injEq, Prod.mk.injEq] at h
    obtain ⟨_, rfl⟩ := h
    exact ⟨rfl, rfl, Or.inr hpost, fun _ => hpost⟩

/-! ## `fraction_count` through the integer digits -/

theorem incCount_integer_fc (b : Bytes) : (Bytes.incCount c .integer b).fc = b.fc := by
  unfold Bytes.incCount; split <;> rfl

theorem incCountFold_integer_fc : ∀ (l : List Nat) (b : Bytes),
    (l.foldl (fun b _ => Bytes.incCount c .integer b) b).fc = b.fc := by
  intro l
  induction l with
  | nil => intro b; rfl
  | cons x xs ih => intro b; simp only [List.foldl_cons]; rw [ih, incCount_integer_fc]

theorem tryParse8_fc (b b' : Bytes) (v : Option Nat) (h : tryParse8 c .integer b = .ok (v, b')) : b'.fc = b.fc := by
  unfold tryParse8 at h
  split at h
  · cases h
  · split at h
    · cases h
    · split at h
      · simp only [pure, Except.pure, Except.ok.injEq, Prod.mk.injEq] at h; rw [← h.2]
      · split at h
        · cases hs : b.stepBy c (c.iterContiguous .integer) 8 with
          | error e => simp [hs, bind, Except.bind] at h
          | ok b2 =>
            simp only [hs, bind, Except.bind, pure, Except.pure, Except.ok.injEq, Prod.mk.injEq] at h
            rw [← h.2, incCountFold_integer_fc, stepBy_eq hs]
        · simp only [pure, Except.pure, Except.ok.injEq, Prod.mk.injEq] at h; rw [← h.2]

theorem parse8Loop_fc : ∀ (fuel : Nat) (b b' : Bytes) (m m' : Nat),
    parse8Loop c .integer fuel b m = .ok (m', b') → b'.fc = b.fc := by
  intro fuel
  induction fuel with
  | zero => intro b b' m m' h; simp [parse8Loop] at h
  | succ n ih =>
    intro b b' m m' h
    unfold parse8Loop at h
    cases ht : tryParse8 c .integer b with
    | error e => simp [ht, bind, Except.bind] at h
    | ok r =>
      obtain ⟨v, b1⟩ := r
      have hf := tryParse8_fc b b1 v ht
      simp only [ht, bind, Except.bind] at h
      cases v with
      | none => simp only [pure, Except.pure, Except.ok.injEq, Prod.mk.injEq] at h; rw [← h.2]; exact hf
      | some x => simp only at h; rw [ih _ _ _ _ h]; exact hf

theorem parse8Digits_fc (b b' : Bytes) (m m' : Nat) (h : parse8Digits c .integer b m = .ok (m', b')) : b'.fc = b.fc := by
  unfold parse8Digits at h
  split at h
  · simp only [pure, Except.pure, Except.ok.injEq, Prod.mk.injEq] at h; rw [← h.2]
  · split at h
    · split at h
      · cases h
      · exact parse8Loop_fc _ _ _ _ _ h
    · simp only [pure, Except.pure, Except.ok.injEq, Prod.mk.injEq] at h; rw [← h.2]

theorem parse8Digits_noncontig (k : Comp) (hk : c.iterContiguous k = false) (b : Bytes) (m : Nat) :
    parse8Digits c k b m = .ok (m, b) := LexVerif.Proof.Sep.parse8Digits_sep c k hk b m

/-- `parse_digits` of the integer component does not touch `fraction_count`; its end state in terms of the start -/
theorem parseDigits_eq_advS (cx : Ctx c) (k : Comp) (b e : Bytes) (ds : List Nat) (hb : Bytes.Valid b)
    (h : parseDigits c k c.mantissaRadix b = .ok (ds, e)) :
    Run (rel c) k c.mantissaRadix b e ds := by
  rw [parseDigits_rel cx k _ cx.sepNotDigM b hb] at h
  exact Run.of (rel c) k c.mantissaRadix rfl (sepRel cx) b e ds hb h

theorem parseDigits_integer_fc (cx : Ctx c) (b e : Bytes) (ds : List Nat) (hb : Bytes.Valid b)
    (h : parseDigits c .integer c.mantissaRadix b = .ok (ds, e)) : e.fc = b.fc := by
  have := (parseDigits_eq_advS cx .integer b e ds hb h).eq
  rw [this]; rfl

/-! ## the stored slice -/

/-- **the slice the first pass of a non-contiguous iterator stores is re-scanned completely** (release-build
`parse_digits` on the fresh slice): every predicate but I+T+C; I+T+C when the run does not start behind a non-digit -/
theorem firstPass_sliceRun (cx : Ctx c) (hf : c.feats.format = true) (k : Comp) (hks : k ≠ .special) (p : Pred)
    (hk : c.skip k = .pred p) (st e : Bytes) (ds : List Nat) (hv : Bytes.Valid st)
    (hcnt : Bytes.iterCount c k st = 0) (hstart : StartC c k st) (hp : p ≠ .itc ∨ Alt23 c k st)
    (hrun : parseDigits c k c.mantissaRadix st = .ok (ds, e)) :
    SliceRun c k (Bytes.new (slice st.slc st.index e.index)) := by
  have hR := parseDigits_eq_advS cx k st e ds hv hrun
  have hstop : ∀ x, st.slc[e.index]? = some x → (rel c).isDigit x = false := fun x hx =>
    isDigit_of_stop2 (rel c) x cx.r36 (hR.stop x hx)
  have fin : ∀ R : List Nat, (∃ ds' e', parseDigits (rel c) k (rel c).mantissaRadix (Bytes.new R) = .ok (ds', e') ∧
      e'.index = R.length) → SliceRun c k (Bytes.new R) := by
    rintro R ⟨ds', e', h1, h2⟩
    exact ⟨ds', e', h1, by simp [Bytes.new, h2]⟩
  have hA3 : (∃ x, peek c k st = .ok (some x, st) ∧ c.isSep x = true) →
      SliceRun c k (Bytes.new (slice st.slc st.index e.index)) := by
    rintro ⟨x, hpk, hsx⟩
    have hrun2 := hR.run
    unfold parseDigits at hrun2
    rw [parseDigitsLoop.eq_2, peek_rel, hpk] at hrun2
    have hnd : charToDigit x c.mantissaRadix = none := sepRel cx x hsx
    simp only [bind, Except.bind, hnd, pure, Except.pure, Except.ok.injEq, Prod.mk.injEq] at hrun2
    rw [← hrun2.2, slice_self]
    exact fin _ (rescan_empty (rel c) k _ cx.skipOk)
  have hA2 : (∀ x, st.slc[st.index]? = some x → c.isSep x = false) →
      SliceRun c k (Bytes.new (slice st.slc st.index e.index)) := by
    intro h2
    by_cases hitc : p = .itc
    · subst hitc
      exact fin _ (rescan_itc_start (rel c) k hk rfl cx.skipOk hf hks (sepRel cx) st e ds hR hcnt hv h2 hstop)
    · exact fin _ (rescan_pred2 (rel c) k p hk hitc rfl cx.skipOk hf hks (sepRel cx) st e ds hR hcnt hv (Or.inr h2) hstop)
  rcases hstart with h1 | h2 | h3
  · rcases hp with hne | h2 | h3
    · exact fin _ (rescan_pred2 (rel c) k p hk hne rfl cx.skipOk hf hks (sepRel cx) st e ds hR hcnt hv (Or.inl h1) hstop)
    · exact hA2 h2
    · exact hA3 h3
  · exact hA2 h2
  · exact hA3 h3

end LexVerif.Proof.PNDebug
