import LexVerif.Proof.RoundTripSplit
import LexVerif.Model.WriteFloat
/-!
# Proof.RoundTripShape — the decimal float writer's layouts as shapes (C08)

Each layout function of `Model.FormatDecimal` (`writeScientific`, `writeNegative`, `writePositive`) and the two
notation dispatchers of `Model.WriteFloat` (`writeDigitsN` = `algorithm.rs`, `writeDigitsC` = `compact.rs`) emit the
rendering of a `Shape` computed from the rounded digits; the shape's digits are `zeros ++ rounded digits ++ zeros`
and its exponent accounts for the carry.
-/
namespace LexVerif.Proof.RoundTrip
open LexVerif.Spec LexVerif.Model LexVerif.Model.WriteFloat

/-! ## rounded digits stay canonical -/

/-- significant digits as the digit generators return them: non-empty, decimal, no leading zero except `[0]` -/
structure DigitsOk (ds : List Nat) : Prop where
  ne : ds ≠ []
  lt : ∀ d ∈ ds, d < 10
  head : ds.head? = some 0 → ds = [0]

theorem roundUp_go_spec : ∀ rl : List Nat, (∀ d ∈ rl, d < 10) → (∀ x, rl.getLast? = some x → x ≠ 0) →
    (roundUp.go 10 rl).1 ≠ [] ∧ (∀ d ∈ (roundUp.go 10 rl).1, d < 10) ∧
      (∀ x, (roundUp.go 10 rl).1.getLast? = some x → x ≠ 0)
  | [], _, _ => by simp [roundUp.go]
  | d :: rest, hlt, hlast => by
    unfold roundUp.go
    by_cases h : d + 1 < 10
    · simp only [h, if_true]
      refine ⟨by simp, ?_, ?_⟩
      · intro x hx
        simp only [List.mem_cons] at hx
        rcases hx with hx | hx
        · omega
        · exact hlt x (by simp [hx])
      · intro x hx
        cases rest with
        | nil => simp at hx; omega
        | cons r rs => exact hlast x (by simpa using hx)
    · simp only [h, if_false]
      apply roundUp_go_spec rest (fun x hx => hlt x (by simp [hx]))
      intro x hx
      cases rest with
      | nil => simp at hx
      | cons r rs => exact hlast x (by simpa using hx)

theorem roundUp_ok (l : List Nat) (hlt : ∀ d ∈ l, d < 10) (hhead : ∀ x, l.head? = some x → x ≠ 0) :
    DigitsOk (roundUp 10 l).1 := by
  have h := roundUp_go_spec l.reverse (by simpa using hlt) (by simpa [List.getLast?_reverse] using hhead)
  have hr : (roundUp 10 l).1 = (roundUp.go 10 l.reverse).1.reverse := by
    unfold roundUp; rfl
  rw [hr]
  refine ⟨by simpa using h.1, by simpa using h.2.1, ?_⟩
  intro h0
  rw [List.head?_reverse] at h0
  exact absurd rfl (h.2.2 0 h0)

theorem take_ok (ds : List Nat) (mx : Nat) (h : DigitsOk ds) (hmx : 1 ≤ mx) : DigitsOk (ds.take mx) := by
  obtain ⟨d, t, rfl⟩ : ∃ d t, ds = d :: t := by
    cases ds with
    | nil => exact absurd rfl h.ne
    | cons d t => exact ⟨d, t, rfl⟩
  obtain ⟨m, rfl⟩ : ∃ m, mx = m + 1 := ⟨mx - 1, by omega⟩
  refine ⟨by simp, fun x hx => h.lt x (List.mem_of_mem_take hx), ?_⟩
  intro h0
  have := h.head (by simpa using h0)
  simp at this
  simp [this]

theorem take_head_ne (ds : List Nat) (mx : Nat) (h : DigitsOk ds) (hmx : 1 ≤ mx) (hlen : mx < ds.length) :
    ∀ x, (ds.take mx).head? = some x → x ≠ 0 := by
  intro x hx h0
  subst h0
  have h1 := (take_ok ds mx h hmx).head hx
  have : ds.head? = some 0 := by
    cases ds with
    | nil => simp at hx
    | cons d t =>
      obtain ⟨m, rfl⟩ : ∃ m, mx = m + 1 := ⟨mx - 1, by omega⟩
      simpa using hx
  have := h.head this
  subst this
  simp at hlen
  omega

/-- `truncate_and_round_decimal` keeps the digit string canonical -/
theorem truncateAndRound_ok (ds : List Nat) (o : WOpts) (h : DigitsOk ds) (hmx : o.maxDigits ≠ some 0) :
    DigitsOk (truncateAndRound ds o).1 := by
  unfold truncateAndRound
  cases hm : o.maxDigits with
  | none => exact h
  | some mx =>
    have h1 : 1 ≤ mx := by
      rcases Nat.eq_zero_or_pos mx with h0 | h0
      · subst h0; exact absurd hm hmx
      · exact h0
    simp only []
    by_cases c1 : mx ≥ ds.length
    · simp only [c1, if_true]; exact h
    · have hlen : mx < ds.length := by omega
      have hT := take_ok ds mx h h1
      have hR := roundUp_ok (ds.take mx) hT.lt (take_head_ne ds mx h h1 hlen)
      simp only [c1, if_false]
      split
      · exact hT
      · split
        · exact hT
        · split
          · exact hR
          · split
            · exact hR
            · exact hT

theorem truncateAndRound_zero (o : WOpts) (hmx : o.maxDigits ≠ some 0) : truncateAndRound [0] o = ([0], false) := by
  unfold truncateAndRound
  cases hm : o.maxDigits with
  | none => rfl
  | some mx =>
    have h1 : mx ≥ [0].length := by
      rcases Nat.eq_zero_or_pos mx with h0 | h0
      · subst h0; exact absurd hm hmx
      · simp only [List.length_cons, List.length_nil]; omega
    simp only [h1, if_true]

/-- with no digit limit nothing is rounded -/
theorem truncateAndRound_none (ds : List Nat) (o : WOpts) (h : o.maxDigits = none) :
    truncateAndRound ds o = (ds, false) := by
  unfold truncateAndRound; rw [h]

/-! ## the exponent text -/

/-- `+` on a non-negative exponent is written exactly when the (effective) format requires it -/
def plusReqOf (fmt : Format) (feats : Features) : Bool := feats.format && fmt.requiredExponentSign

theorem writeExponent_eq (fmt : Format) (feats : Features) (e : Int) (expc er : Nat) :
    writeExponent fmt feats e expc er = expText (plusReqOf fmt feats) er expc e := by
  unfold writeExponent expText expSignBytes plusReqOf
  by_cases h1 : e < 0
  · simp [h1]
  · by_cases h2 : feats.format = true <;> by_cases h3 : fmt.requiredExponentSign = true <;> simp [h1, h2, h3]

/-! ## the three layouts as shapes -/

/-- trailing zeros that pad to `min_significant_digits` -/
def padZ (count exact : Nat) : List Nat := List.replicate (exact - count) 0

/-- `write_float_scientific` -/
def sciShape (noEWF : Bool) (ds : List Nat) (sci : Int) (o : WOpts) : Shape :=
  let tr := roundSci ds o
  let count := tr.1.length
  let exact := minExactDigits count o
  let frac : Option (List Nat) :=
    if ¬ noEWF = true ∧ count = 1 ∧ o.trim = true then none
    else if count < exact then some (tr.1.tail ++ padZ count exact)
    else if count = 1 then some [0]
    else some tr.1.tail
  ⟨[tr.1.headD 0], frac, some (sci + (if tr.2 then 1 else 0))⟩

/-- `write_float_negative_exponent` -/
def negShape (ds : List Nat) (sci : Int) (o : WOpts) : Shape :=
  let k := sci.natAbs
  let tr := truncateAndRound ds o
  let count := tr.1.length
  let exact := minExactDigits count o
  if tr.2 = true ∧ k = 1 then
    (if o.trim then ⟨[1], none, none⟩
     else ⟨[1], some (0 :: padZ (count + 1) (minExactDigits (count + 1) o)), none⟩)
  else ⟨[0], some (List.replicate (if tr.2 then k - 2 else k - 1) 0 ++ tr.1 ++ padZ count exact), none⟩

/-- `write_float_positive_exponent` -/
def posShape (ds : List Nat) (sci : Int) (o : WOpts) : Shape :=
  let tr := roundPos ds sci o
  let count := tr.1.length
  let leading := sci.toNat + 1 + (if tr.2 then 1 else 0)
  if leading ≥ count then
    let ints := tr.1 ++ List.replicate (leading - count) 0
    if o.trim then ⟨ints, none, none⟩
    else ⟨ints, some (0 :: padZ (leading + 1) (minExactDigits (leading + 1) o)), none⟩
  else ⟨tr.1.take leading, some (tr.1.drop leading ++ padZ count (minExactDigits count o)), none⟩

theorem chars_padZ (count exact : Nat) :
    chars (padZ count exact) = (if count < exact then zeros (exact - count) else []) := by
  unfold padZ
  by_cases h : count < exact
  · simp [h, zeros_eq_chars]
  · have : exact - count = 0 := by omega
    simp [h, this, chars]

theorem chars_padZ2 (count exact : Nat) :
    chars (padZ count exact) = (if exact > count then zeros (exact - count) else []) := chars_padZ count exact

theorem chars_tail_headD (l : List Nat) (h : l ≠ []) : digitChar (l.headD 0) :: chars l.tail = chars l := by
  cases l with
  | nil => exact absurd rfl h
  | cons d t => rfl

theorem writeScientific_shape (fmt : Format) (feats : Features) (ds : List Nat) (sci : Int) (o : WOpts) (er : Nat) :
    writeScientific fmt feats ds sci o er =
      (sciShape fmt.noExponentWithoutFraction ds sci o).render o.dp o.exp er (plusReqOf fmt feats) := by
  unfold writeScientific sciShape Shape.render
  rcases htr : roundSci ds o with ⟨d', c⟩
  simp only [writeExponent_eq, expPart]
  by_cases c1 : ¬ fmt.noExponentWithoutFraction = true ∧ d'.length = 1 ∧ o.trim = true
  · simp only [c1, if_true]
    simp [fracText, chars]
  · simp only [c1, if_false]
    by_cases c2 : d'.length < minExactDigits d'.length o
    · simp only [c2, if_true, fracText, chars_append, chars_padZ, chars_cons, chars_nil]
      simp
    · simp only [c2, if_false]
      by_cases c3 : d'.length = 1
      · simp only [c3, if_true, fracText, chars_cons, chars_nil, digitChar_zero]
        simp
      · simp only [c3, if_false, fracText, chars_cons, chars_nil]
        simp

theorem writeNegative_shape (ds : List Nat) (sci : Int) (o : WOpts) (expc er : Nat) (plusReq : Bool) :
    writeNegative ds sci o = (negShape ds sci o).render o.dp expc er plusReq := by
  unfold writeNegative negShape Shape.render
  rcases htr : truncateAndRound ds o with ⟨d', c⟩
  simp only []
  by_cases c1 : c = true ∧ sci.natAbs = 1
  · simp only [c1, and_self, if_true]
    by_cases c2 : o.trim = true
    · simp [c2, fracText, expPart, chars, digitChar]
    · simp only [c2, if_false, Bool.false_eq_true, fracText, expPart, chars_cons, chars_nil, chars_padZ,
        digitChar_one, digitChar_zero]
      simp
  · simp only [c1, if_false, fracText, expPart, chars_cons, chars_nil, chars_append, chars_padZ, digitChar_zero,
      zeros_eq_chars]
    simp

theorem writePositive_shape (ds : List Nat) (sci : Int) (o : WOpts) (expc er : Nat) (plusReq : Bool) :
    writePositive ds sci o = (posShape ds sci o).render o.dp expc er plusReq := by
  unfold writePositive posShape Shape.render
  rcases htr : roundPos ds sci o with ⟨d', c⟩
  simp only []
  by_cases c1 : sci.toNat + 1 + (if c = true then 1 else 0) ≥ d'.length
  · simp only [c1, if_true]
    by_cases c2 : o.trim = true
    · simp [c2, fracText, expPart, chars_append, zeros_eq_chars]
    · simp only [c2, if_false, Bool.false_eq_true, fracText, expPart, chars_cons, chars_append, chars_padZ2,
        digitChar_zero, zeros_eq_chars]
      simp
  · simp only [c1, if_false, fracText, expPart, chars_append, chars_padZ2]
    simp

/-! ## the notation dispatch as a shape -/

/-- `algorithm::write_float` (notation chosen on the un-carried exponent, rounding inside the layout) -/
def shapeN (fmt : Format) (ds : List Nat) (sci : Int) (o : WOpts) : Shape :=
  let outside := sci < o.negBreak.getD (-5) ∨ sci > o.posBreak.getD 9
  if ¬ fmt.noExponentNotation = true ∧ (fmt.requiredExponentNotation = true ∨ outside) then
    sciShape fmt.noExponentWithoutFraction ds sci o
  else if sci < 0 then negShape ds sci o
  else posShape ds sci o

/-- `compact::write_float` (round first, notation chosen on the carried exponent) -/
def shapeC (fmt : Format) (ds : List Nat) (sci : Int) (o : WOpts) : Shape :=
  let tr := truncateAndRound ds o
  shapeN fmt tr.1 (sci + (if tr.2 then 1 else 0)) { o with maxDigits := none }

theorem writeDigitsN_shape (fmt : Format) (feats : Features) (ds : List Nat) (sci : Int) (o : WOpts) :
    writeDigitsN fmt feats ds sci o =
      (shapeN fmt ds sci o).render o.dp o.exp fmt.exponentRadix (plusReqOf fmt feats) := by
  unfold writeDigitsN shapeN
  simp only []
  split
  · exact writeScientific_shape fmt feats ds sci o _
  · split
    · exact writeNegative_shape ds sci o _ _ _
    · exact writePositive_shape ds sci o _ _ _

theorem writeDigitsC_shape (fmt : Format) (feats : Features) (ds : List Nat) (sci : Int) (o : WOpts) :
    writeDigitsC fmt feats ds sci o =
      (shapeC fmt ds sci o).render o.dp o.exp fmt.exponentRadix (plusReqOf fmt feats) := by
  have h := writeDigitsN_shape fmt feats (truncateAndRound ds o).1
    (sci + (if (truncateAndRound ds o).2 then 1 else 0)) { o with maxDigits := none }
  unfold shapeC
  simp only [] at h ⊢
  rw [← h]
  rfl

/-! ## the digits a shape contains (after rounding and after the trim-after-rounding step) -/

/-- digits laid out by `algorithm::write_float` -/
def keptN (fmt : Format) (ds : List Nat) (sci : Int) (o : WOpts) : List Nat :=
  let outside := sci < o.negBreak.getD (-5) ∨ sci > o.posBreak.getD 9
  if ¬ fmt.noExponentNotation = true ∧ (fmt.requiredExponentNotation = true ∨ outside) then (roundSci ds o).1
  else if sci < 0 then (truncateAndRound ds o).1
  else (roundPos ds sci o).1

/-- digits laid out by `compact::write_float` -/
def keptC (fmt : Format) (ds : List Nat) (sci : Int) (o : WOpts) : List Nat :=
  let tr := truncateAndRound ds o
  keptN fmt tr.1 (sci + (if tr.2 then 1 else 0)) { o with maxDigits := none }

/-- digits laid out by the back-end selected by the feature set: the rounded digits, minus the zeros that
`trim_floats` drops after rounding (`kept_spec`) -/
def keptOf (fmt : Format) (feats : Features) (ds : List Nat) (sci : Int) (o : WOpts) : List Nat :=
  if feats.compact then keptC (effFmt feats fmt) ds sci o else keptN (effFmt feats fmt) ds sci o

theorem all_zero_replicate (l : List Nat) (h : l.all (· = 0) = true) : l = List.replicate l.length 0 := by
  induction l with
  | nil => rfl
  | cons d t ih =>
    simp only [List.all_cons, Bool.and_eq_true, decide_eq_true_eq] at h
    rw [List.length_cons, List.replicate_succ, ← ih h.2, h.1]

theorem trimSci_zeros (o : WOpts) (ds : List Nat) : ∃ m, ds = trimSci o ds ++ List.replicate m 0 := by
  unfold trimSci
  split
  · rename_i h
    refine ⟨ds.tail.length, ?_⟩
    rw [← all_zero_replicate ds.tail h.2]
    cases ds <;> simp
  · exact ⟨0, by simp⟩

theorem trimPos_zeros (o : WOpts) (l : Nat) (ds : List Nat) : ∃ m, ds = trimPos o l ds ++ List.replicate m 0 := by
  unfold trimPos
  split
  · rename_i h
    refine ⟨(ds.drop l).length, ?_⟩
    rw [← all_zero_replicate (ds.drop l) h.2.2, List.take_append_drop]
  · exact ⟨0, by simp⟩

theorem keptN_spec (fmt : Format) (ds : List Nat) (sci : Int) (o : WOpts) :
    ∃ m, (truncateAndRound ds o).1 = keptN fmt ds sci o ++ List.replicate m 0 := by
  unfold keptN roundSci roundPos
  simp only []
  split
  · exact trimSci_zeros o _
  · split
    · exact ⟨0, by simp⟩
    · exact trimPos_zeros o _ _

/-- **the kept digits are the rounded digits up to trailing zeros** (so they denote the same number at the same
scientific exponent) -/
theorem kept_spec (fmt : Format) (feats : Features) (ds : List Nat) (sci : Int) (o : WOpts) :
    ∃ m, (truncateAndRound ds o).1 = keptOf fmt feats ds sci o ++ List.replicate m 0 := by
  unfold keptOf keptC
  split
  · have := keptN_spec (effFmt feats fmt) (truncateAndRound ds o).1
      (sci + (if (truncateAndRound ds o).2 then 1 else 0)) { o with maxDigits := none }
    rw [truncateAndRound_none _ _ rfl] at this
    exact this
  · exact keptN_spec _ ds sci o

/-- without `trim_floats` nothing is dropped -/
theorem kept_noTrim (fmt : Format) (feats : Features) (ds : List Nat) (sci : Int) (o : WOpts) (h : o.trim = false) :
    keptOf fmt feats ds sci o = (truncateAndRound ds o).1 := by
  have hs : ∀ l, trimSci o l = l := by intro l; unfold trimSci; simp [h]
  have hp : ∀ n l, trimPos o n l = l := by intro n l; unfold trimPos; simp [h]
  have hs' : ∀ l, trimSci { o with maxDigits := none } l = l := hs
  have hp' : ∀ n l, trimPos { o with maxDigits := none } n l = l := hp
  unfold keptOf keptC keptN roundSci roundPos
  simp only [hs, hp, hs', hp', truncateAndRound_none _ { o with maxDigits := none } rfl]
  repeat' split
  all_goals rfl

/-- the shape of the back-end selected by the feature set -/
def shapeOf (fmt : Format) (feats : Features) (ds : List Nat) (sci : Int) (o : WOpts) : Shape :=
  if feats.compact then shapeC (effFmt feats fmt) ds sci o else shapeN (effFmt feats fmt) ds sci o

theorem writeDecimal_shape (fmt : Format) (feats : Features) (ds : List Nat) (sci : Int) (o : WOpts) :
    writeDecimal fmt feats ds sci o =
      (shapeOf fmt feats ds sci o).render o.dp o.exp (effFmt feats fmt).exponentRadix
        (plusReqOf (effFmt feats fmt) feats) := by
  unfold writeDecimal shapeOf
  split
  · exact writeDigitsC_shape _ feats ds sci o
  · exact writeDigitsN_shape _ feats ds sci o

end LexVerif.Proof.RoundTrip
