import LexVerif.Proof.ParseNumberC11SepPhases
/-!
# Proof.ParseNumberC11SepMany — C11 (B) with digit separators: the many-digits re-parse and `parse_number`
under truncation at the returned count

`manyDigitsPhase` reads the original buffer only through two `skip_zeros` runs: over the integer digits from
`ip.start` (same iterator state as the first pass ⇒ same `peek` decisions while the digits are zeros:
`ZerosMirror`), then — only when the integer digits were all zeros and the decimal point follows — over the fraction
digits. When no decimal point follows an all-zero integer part the second run may read bytes beyond the count, but
then `n_digits - step - zeros_integer` is already 0.

`parseNumber_truncS`: cut exactly at the returned count. A component that stops on a separator ends the number
(`SepCfg`: the separator matches no other punctuation), so that cut is admissible for every phase.
-/
set_option linter.unusedSectionVars false
set_option linter.unusedSimpArgs false
set_option linter.unusedVariables false
namespace LexVerif.Proof.C11
open LexVerif LexVerif.Model LexVerif.Spec
open LexVerif.Props.C12 (Bytes.Valid incCount_spec peek_spec)
open LexVerif.Proof.PNTotal (Rel Adv csum manyDigitsPhase_eq manyMid manyTail)

/-- the `skip_zeros` run of the re-parse over a digit run relative to the first pass (`parse_8digits`, `parse_digits`)
over it: it ends where the first pass ended, having counted as many digits (all were zeros), or earlier on a non-zero
digit; and it commutes with every cut that is admissible for the first pass -/
def ZerosMirror (c : Cfg) (k : Comp) : Prop :=
  ∀ (b0 b1 b2 : Bytes) (m0 m : Nat) (ds : List Nat), Bytes.Valid b0 →
    parse8Digits c k b0 m0 = .ok (m, b1) → parseDigits c k c.mantissaRadix b1 = .ok (ds, b2) →
    ∃ z zb, skipZeros c k b0 = .ok (z, zb) ∧
      ((zb = b2 ∧ z = b2.currentCount c - b0.currentCount c) ∨
       (zb.index < b2.index ∧ zb.slc = b0.slc ∧ b0.index ≤ zb.index ∧
         ∃ x, b0.slc[zb.index]? = some x ∧ x ≠ 48 ∧ charToDigit x c.mantissaRadix ≠ none)) ∧
      ∀ n, Adm c k n b2 → skipZeros c k (trunc n b0) = .ok (z, trunc n zb)

section
variable {c : Cfg} {o : POpts} (H : SepCfg c o)
include H

/-- `skip_zeros` on a byte that is neither the separator nor `'0'` does nothing -/
theorem skipZeros_stuck (k : Comp) (b : Bytes) (x : Nat) (hx : b.slc[b.index]? = some x)
    (hs : c.isSep x = false) (h48 : x ≠ 48) : skipZeros c k b = .ok (0, b) := by
  unfold skipZeros
  rw [skipZerosLoop, readIfValueCased_eqS H.rel k 48 b b (some x) (peek_nonsep c H.rel k b x hx hs)]
  have : ¬ (some x = some 48) := by simpa using h48
  simp only [this, if_false, bind, Except.bind, pure, Except.pure, Bool.false_eq_true, Nat.sub_self]

theorem manyTail_congr (neg : Bool) (ip : IntPart) (fp : FracPart) (ep : ExpPart) (step endIdx n : Nat) :
    manyTail c neg { ip with start := trunc n ip.start, byte := trunc n ip.byte }
      { fp with byte := trunc n fp.byte } { ep with byte := trunc n ep.byte } step endIdx =
    manyTail c neg ip fp ep step endIdx := rfl

theorem manyMid_congr (neg : Bool) (ip : IntPart) (fp : FracPart) (ep : ExpPart) (nd step : Nat) (e0 : Int)
    (endIdx zi n : Nat) (zeros : Bytes) :
    manyMid c neg { ip with start := trunc n ip.start, byte := trunc n ip.byte }
      { fp with byte := trunc n fp.byte } { ep with byte := trunc n ep.byte } nd step e0 endIdx zi zeros =
    manyMid c neg ip fp ep nd step e0 endIdx zi zeros := rfl

/-- the re-parse on the cut buffer -/
theorem many_truncS (ZI : ZerosMirror c .integer) (ZF : ZerosMirror c .fraction) (neg : Bool) (b : Bytes)
    (ip : IntPart) (fp : FracPart) (ep : ExpPart) (hv : Bytes.Valid b)
    (hi : integerPhase c b = .ok ip) (hfr : fractionPhase c o ip.byte ip.mantissa = .ok fp)
    (step : Nat) (e0 : Int) (endIdx n : Nat)
    (hn1 : Adm c .integer n ip.byte) (hn2 : fp.byte.index ≤ n)
    (hn3 : ip.byte.firstIsCased o.dp = true → Adm c .fraction n fp.byte)
    (r : Number × Nat)
    (h : manyDigitsPhase c o neg ip fp ep (ip.nDigits + fp.nAfterDot) step e0 endIdx = .ok r) :
    manyDigitsPhase c o neg { ip with start := trunc n ip.start, byte := trunc n ip.byte }
      { fp with byte := trunc n fp.byte } { ep with byte := trunc n ep.byte }
      (ip.nDigits + fp.nAfterDot) step e0 endIdx = .ok r := by
  obtain ⟨⟨s1, s2, s3, s4, s5⟩, ⟨m, b1, ds, h8, hdg⟩, i4, i5, i6, i7, _, i9, _⟩ := integerPhase_truncS H b ip hv hi
  obtain ⟨f1, f2, f3, f4, f5, f6, _⟩ := fractionPhase_truncS H ip.byte ip.mantissa fp i6 hfr
  obtain ⟨z, zb, hz, hor, hzt⟩ := ZI ip.start b1 ip.byte 0 m ds s3 h8 hdg
  rw [manyDigitsPhase_eq] at h ⊢
  simp only [hz, bind, Except.bind] at h
  simp only [manyMid_congr]
  simp only [hzt n hn1, bind, Except.bind]
  have hin := hn1.1
  rcases hor with ⟨hzb, hzd⟩ | ⟨q1, q2, q3, x, q4, q5, q6⟩
  · -- the integer digits were all zeros: the re-parse stands where the first pass stood
    rw [← hzb] at f5 f6 i6 hin hn3
    by_cases hdp : zb.firstIsCased o.dp = true
    · obtain ⟨g1, _, _, ⟨mf, bf1, dsf, hf8, hfdg⟩, _⟩ := f5 hdp
      have hlt : zb.index < n := by omega
      have hdp2 : (trunc n zb).firstIsCased o.dp = true := by
        simp only [Bytes.firstIsCased, first_trunc, hlt, if_true] at hdp ⊢; exact hdp
      have hv0 : Bytes.Valid (Bytes.at zb (zb.index + 1)) := by
        have := first_some_lt zb o.dp (by simpa [Bytes.firstIsCased] using hdp)
        simp only [Bytes.Valid, at_index, at_slc]; omega
      obtain ⟨zf, zfb, hzf, _, hzft⟩ := ZF _ bf1 fp.byte ip.mantissa mf dsf hv0 hf8 hfdg
      simp only [hdp, if_true, step_r H.rel] at h
      simp only [hdp2, if_true, step_r H.rel, trunc_index]
      unfold manyMid at h ⊢
      simp only [hzf, bind, Except.bind] at h
      rw [← trunc_at, hzft n (hn3 hdp)]
      exact h
    · obtain ⟨g1, g2, g3⟩ := f6 hdp
      have hdp2 : ¬ (trunc n zb).firstIsCased o.dp = true := by
        simp only [Bytes.firstIsCased, first_trunc] at hdp ⊢
        split
        · exact hdp
        · simp
      simp only [hdp, if_false, pure, Except.pure, Bool.false_eq_true] at h
      simp only [hdp2, if_false, pure, Except.pure, Bool.false_eq_true]
      unfold manyMid at h ⊢
      have hvt : (trunc n zb).index ≤ (trunc n zb).slc.length := trunc_valid H.rel n zb i6 hin
      obtain ⟨zf2, zb2, hz2, _⟩ := PNTotal.skipZeros_tot H.rel .fraction (trunc n zb) hvt
      cases hz1 : skipZeros c .fraction zb with
      | error e => simp [hz1, bind, Except.bind] at h
      | ok pr =>
        obtain ⟨zf1, zb1⟩ := pr
        simp only [hz1, bind, Except.bind, pure, Except.pure] at h
        simp only [hz2, bind, Except.bind, pure, Except.pure]
        have e1 : ¬ (ip.nDigits + fp.nAfterDot - step - z - zf1 > 0) := by rw [g2, hzd, ← i7]; omega
        have e2 : ¬ (ip.nDigits + fp.nAfterDot - step - z - zf2 > 0) := by rw [g2, hzd, ← i7]; omega
        rw [if_neg e1] at h
        rw [if_neg e2]
        exact h
  · -- the zero run ends on a non-zero digit inside the integer digits
    have hxs : c.isSep x = false := by
      cases hsx : c.isSep x with
      | false => rfl
      | true => exact absurd (H.sepM x hsx) q6
    have hxdp : x ≠ o.dp := by
      intro e; subst e; exact q6 H.dpDig
    have hget : zb.slc[zb.index]? = some x := by rw [q2]; exact q4
    have hlt : zb.index < n := by omega
    have hdp : ¬ zb.firstIsCased o.dp = true := by
      simp only [Bytes.firstIsCased, Bytes.first, hget, beq_iff_eq, Option.some.injEq]; exact hxdp
    have hget2 : (trunc n zb).slc[(trunc n zb).index]? = some x := by rw [get_trunc, if_pos hlt, hget]
    have hdp2 : ¬ (trunc n zb).firstIsCased o.dp = true := by
      simp only [Bytes.firstIsCased, Bytes.first, hget2, beq_iff_eq, Option.some.injEq]; exact hxdp
    simp only [hdp, if_false, pure, Except.pure, Bool.false_eq_true] at h
    simp only [hdp2, if_false, pure, Except.pure, Bool.false_eq_true]
    unfold manyMid at h ⊢
    rw [skipZeros_stuck H .fraction zb x hget hxs q5] at h
    rw [skipZeros_stuck H .fraction (trunc n zb) x hget2 hxs q5]
    exact h

/-! ## `parse_number` -/

omit H in
/-- `parse_number`, phase by phase (release build) -/
theorem parseNumber_gr (hc : Rel c) (isPartial : Bool) (o : POpts) (b : Bytes) (neg fv : Bool) :
    parseNumber c isPartial o b neg fv =
      match integerPhase c b with
      | .error e => .error e
      | .ok ip =>
        match fractionPhase c o ip.byte ip.mantissa with
        | .error e => .error e
        | .ok fp =>
          if (c.requiredMantissaDigits &&
              (decide (ip.nDigits + fp.nAfterDot = 0) || (c.feats.format && decide (fp.byte.currentCount c = 0)))) = true then
            emptyBranch c isPartial o ip fp
          else
            match exponentPhase c (fp.byte.firstIs o.exp (c.caseSensitiveExponent && c.feats.format)) fp.byte
                fp.fraction fp.exponent with
            | .error e => .error e
            | .ok ep =>
              match suffixPhase c ep.byte with
              | .error e => .error e
              | .ok sb =>
                if ip.nDigits + fp.nAfterDot ≤ u64Step c.feats c.mantissaRadix then
                  .ok (⟨fp.mantissa,
                    (if (c.feats.format && !c.requiredMantissaDigits && decide (ip.nDigits + fp.nAfterDot = 0)) = true
                      then 0 else ep.exponent), neg, false, ip.integerDigits, fp.fraction, ep.explicit⟩, sb.index)
                else manyDigitsPhase c o neg ip fp ep (ip.nDigits + fp.nAfterDot) (u64Step c.feats c.mantissaRadix)
                  (if (c.feats.format && !c.requiredMantissaDigits && decide (ip.nDigits + fp.nAfterDot = 0)) = true
                    then 0 else ep.exponent) sb.index := by
  unfold parseNumber
  simp only [hc.hd, Bool.false_and, Bool.false_eq_true, if_false, bind, Except.bind]
  cases integerPhase c b with
  | error e => rfl
  | ok ip =>
    simp only
    cases fractionPhase c o ip.byte ip.mantissa with
    | error e => rfl
    | ok fp =>
      simp only
      split
      · unfold emptyBranch
        simp only [bind, Except.bind]
      · cases exponentPhase c (fp.byte.firstIs o.exp (c.caseSensitiveExponent && c.feats.format)) fp.byte
            fp.fraction fp.exponent with
        | error e => rfl
        | ok ep =>
          simp only
          cases suffixPhase c ep.byte with
          | error e => rfl
          | ok sb => simp only [pure, Except.pure]

omit H in
theorem emptyBranch_errS (hc : Rel c) (isPartial : Bool) (o : POpts) (ip : IntPart) (fp : FracPart)
    (r : Number × Nat) : emptyBranch c isPartial o ip fp ≠ .ok r := by
  unfold emptyBranch
  cases hp : peek c .integer ip.start with
  | error e => simp [bind, Except.bind]
  | ok pr =>
    simp only [bind, Except.bind]
    split <;> simp

omit H in
theorem many_countS (o : POpts) (neg : Bool) (ip : IntPart) (fp : FracPart) (ep : ExpPart) (nd step : Nat) (e0 : Int)
    (endIdx : Nat) (x : Number) (cnt : Nat)
    (h : manyDigitsPhase c o neg ip fp ep nd step e0 endIdx = .ok (x, cnt)) : cnt = endIdx := by
  rw [manyDigitsPhase_eq] at h
  simp only [bind, Except.bind, pure, Except.pure] at h
  cases h1 : skipZeros c .integer ip.start with
  | error e => simp [h1] at h
  | ok pr =>
    obtain ⟨zi, zeros⟩ := pr
    simp only [h1] at h
    have fin : ∀ zz, manyMid c neg ip fp ep nd step e0 endIdx zi zz = .ok (x, cnt) → cnt = endIdx := by
      intro zz hm
      unfold manyMid at hm
      simp only [bind, Except.bind, pure, Except.pure] at hm
      cases h2 : skipZeros c .fraction zz with
      | error e => simp [h2] at hm
      | ok pr2 =>
        obtain ⟨zf, _⟩ := pr2
        simp only [h2] at hm
        split at hm
        · exact manyTail_count neg ip fp ep step endIdx x cnt hm
        · cases hm; rfl
    split at h
    · cases h2 : zeros.step c with
      | error e => simp [h2] at h
      | ok z2 => simp only [h2] at h; exact fin _ h
    · exact fin _ h

/-- a cursor resting on a separator: no base suffix is read there -/
theorem suffix_on_sep (b sb : Bytes) (x : Nat) (hx : b.slc[b.index]? = some x) (hs : c.isSep x = true)
    (h : suffixPhase c b = .ok sb) : sb = b := by
  unfold suffixPhase at h
  have : b.firstIs c.baseSuffix c.caseSensitiveBaseSuffix = false := by
    rw [firstIs_eq]; simp only [Bytes.first, hx]; exact H.sufSep x hs
  simp only [this, Bool.and_false, Bool.false_eq_true, if_false, pure, Except.pure, Except.ok.injEq] at h
  exact h.symm

/-- **`parse_number` on the buffer cut at the count it returns** -/
theorem parseNumber_truncS (hE : ExpRadixOK c) (ZI : ZerosMirror c .integer) (ZF : ZerosMirror c .fraction)
    (p : Bool) (b : Bytes) (neg fv : Bool) (r : Number) (count : Nat)
    (hm : c.requiredMantissaDigits = true) (hv : Bytes.Valid b)
    (h : parseNumber c p o b neg fv = .ok (r, count)) :
    b.index < count ∧ count ≤ b.slc.length ∧ parseNumber c p o (trunc count b) neg fv = .ok (r, count) := by
  rw [parseNumber_gr H.rel] at h
  cases hi : integerPhase c b with
  | error e => simp [hi] at h
  | ok ip =>
    obtain ⟨⟨s1, s2, s3, s4, s5⟩, i3, i4, i5, i6, i7, i8, i9, i10⟩ := integerPhase_truncS H b ip hv hi
    simp only [hi] at h
    cases hfr : fractionPhase c o ip.byte ip.mantissa with
    | error e => simp [hfr] at h
    | ok fp =>
      obtain ⟨f1, f2, f3, f4, f5, f6, f7⟩ := fractionPhase_truncS H ip.byte ip.mantissa fp i6 hfr
      simp only [hfr] at h
      split at h
      · exact absurd h (emptyBranch_errS H.rel p o ip fp _)
      · next hcnd =>
        have hz : ¬ ip.nDigits + fp.nAfterDot = 0 := by
          intro hz0
          apply hcnd
          simp [hm, hz0]
        cases hep : exponentPhase c (fp.byte.firstIs o.exp (c.caseSensitiveExponent && c.feats.format)) fp.byte
            fp.fraction fp.exponent with
        | error e => simp [hep] at h
        | ok ep =>
          obtain ⟨x1, x2, x3, x4, x5, x6⟩ := exponentPhase_truncS H _ fp.byte fp.fraction fp.exponent ep f3
            (fun hh => PNTotal.firstIs_lt hh) hep
          simp only [hep] at h
          cases hsf : suffixPhase c ep.byte with
          | error e => simp [hsf] at h
          | ok sb =>
            obtain ⟨u1, u2, u3, u4⟩ := suffixPhase_trunc_r H.rel ep.byte sb x3 hsf
            simp only [hsf] at h
            have hfpslc : fp.byte.slc = b.slc := by rw [f1, i4]
            have hepslc : ep.byte.slc = b.slc := by rw [x1, hfpslc]
            have hsbslc : sb.slc = b.slc := by rw [u1, hepslc]
            have hcount : count = sb.index := by
              split at h
              · cases h; rfl
              · exact many_countS o neg ip fp ep _ _ _ _ r count h
            have hsbv : sb.index ≤ b.slc.length := by
              have : sb.index ≤ sb.slc.length := u3
              rwa [hsbslc] at this
            subst hcount
            refine ⟨by omega, hsbv, ?_⟩
            -- the exponent character, seen from a cursor on a separator
            have noexp : ∀ x, fp.byte.slc[fp.byte.index]? = some x → c.isSep x = true →
                fp.byte.firstIs o.exp (c.caseSensitiveExponent && c.feats.format) = false := by
              intro x hx hs
              rw [firstIs_eq]; simp only [Bytes.first, hx]; exact H.expSep x hs
            -- admissibility of the cut for the three digit components
            have admE : fp.byte.firstIs o.exp (c.caseSensitiveExponent && c.feats.format) = true →
                Adm c .exponent sb.index ep.byte := by
              intro he
              refine adm_of_stop H.rel .exponent c.exponentRadix ep.byte sb.index
                (by intro ch hch; rw [hepslc, ← hfpslc] at hch; exact (x4 he).2 ch hch) hE u2 ?_
              intro x hx hs
              rw [suffix_on_sep H ep.byte sb x hx hs hsf]
            have tailE : ∀ x, fp.byte.slc[fp.byte.index]? = some x → c.isSep x = true → sb.index = fp.byte.index := by
              intro x hx hs
              have he := noexp x hx hs
              have := x5 he
              rw [this] at hsf
              rw [suffix_on_sep H fp.byte sb x hx hs hsf]
            have admF : ip.byte.firstIsCased o.dp = true → Adm c .fraction sb.index fp.byte := by
              intro hdp
              refine adm_of_stop H.rel .fraction c.mantissaRadix fp.byte sb.index
                (by intro ch hch; rw [f1] at hch; exact (f5 hdp).2.2.2.2 ch hch) (fun _ => H.digM) (by omega) ?_
              intro x hx hs
              exact tailE x hx hs
            have admI : Adm c .integer sb.index ip.byte := by
              refine adm_of_stop H.rel .integer c.mantissaRadix ip.byte sb.index
                (by intro ch hch; rw [i4] at hch; exact i9 ch hch) (fun _ => H.digM) (by omega) ?_
              intro x hx hs
              have hndp : ¬ ip.byte.firstIsCased o.dp = true := by
                simp only [Bytes.firstIsCased, Bytes.first, hx, beq_iff_eq, Option.some.injEq]
                intro e; subst e; rw [H.dpSep] at hs; cases hs
              have e := (f6 hndp).1
              rw [e] at tailE
              exact tailE x hx hs
            rw [parseNumber_gr H.rel, i10 sb.index admI]
            simp only
            rw [f7 sb.index (by omega) admF]
            simp only [trunc_index, trunc_currentCount]
            rw [if_neg hcnd]
            have hfi : (trunc sb.index fp.byte).firstIs o.exp (c.caseSensitiveExponent && c.feats.format) =
                fp.byte.firstIs o.exp (c.caseSensitiveExponent && c.feats.format) := by
              rw [firstIs_trunc]
              split
              · rfl
              · next hlt =>
                cases hfe : fp.byte.firstIs o.exp (c.caseSensitiveExponent && c.feats.format) with
                | false => rfl
                | true => have := (x4 hfe).1; omega
            rw [hfi, x6 sb.index u2 admE]
            simp only
            rw [u4 sb.index (Nat.le_refl _)]
            simp only [trunc_index]
            split at h
            · next hle => rw [if_pos hle]; exact h
            · next hle =>
              rw [if_neg hle]
              exact many_truncS H ZI ZF neg b ip fp ep hv hi hfr _ _ _ sb.index admI (by omega) admF _ h

end
end LexVerif.Proof.C11
