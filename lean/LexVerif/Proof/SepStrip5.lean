import LexVerif.Proof.SepStrip4
/-!
# Proof.SepStrip5 — `parse_number` and the complete parser: run over `s` (skip-everything iterators) vs run over the
stripped input
-/
set_option linter.unusedSimpArgs false
namespace LexVerif.Proof.Sep
open LexVerif LexVerif.Model LexVerif.Spec
open LexVerif.Props.C12

theorem firstIs_some (b : Bytes) (v : Nat) (cased : Bool) (h : b.firstIs v cased = true) :
    ∃ x, b.slc[b.index]? = some x := by
  unfold Bytes.firstIs Bytes.firstIsCased Bytes.firstIsUncased Bytes.first at h
  cases hv : b.slc[b.index]? with
  | none => simp [hv] at h
  | some x => exact ⟨x, rfl⟩

theorem suffixPhase_none (c : Cfg) (h : c.baseSuffix = 0) (b : Bytes) : suffixPhase c b = .ok b := by
  simp [suffixPhase, h, pure, Except.pure]

/-- what the two runs agree on after `parse_number`: same number, corresponding end positions, and the left end
position is inside the buffer and not on a separator -/
def NumStrip (c : Cfg) (s : List Nat) (neg : Bool) (r r' : Number × Nat) : Prop :=
  NumRel c r.1 r'.1 ∧ r'.1.isNegative = neg ∧ r'.2 = (nonSep c (s.take r.2)).length ∧ r.2 ≤ s.length ∧
  (∀ x, s[r.2]? = some x → c.isSep x = false)

/-- no run of separators in `s` is directly followed by a sign character -/
def NoSepBeforeSign (c : Cfg) (s : List Nat) : Prop :=
  ∀ i x, s[i]? = some x → c.isSep x = true → ∀ y, (nonSep c (s.drop i)).head? = some y → y ≠ 43 ∧ y ≠ 45

theorem NoSepBeforeSign.at {c : Cfg} {s : List Nat} (h : NoSepBeforeSign c s) (b : Bytes) (hb : b.slc = s) :
    NoSignAfterSep c b := by
  intro x hx hs y hy
  rw [hb] at hx hy
  exact h b.index x hx hs y hy

theorem number_strip (c : Cfg) (hA : SkipAll c) (s : List Nat) (isPartial : Bool) (o : POpts) (b b' : Bytes)
    (hr : StripRel c s b b') (hv : b.index ≤ s.length) (neg fv : Bool) :
    ImpE (NumStrip c s neg) (parseNumber c isPartial o b neg fv) (parseNumber c isPartial o b' neg fv) := by
  have hS := hA.sepClass
  unfold parseNumber
  simp only [hS.debug, Bool.false_and, Bool.false_eq_true, if_false]
  refine ImpE.bind (int_bi c hA s b b' hr hv).1 ?_
  intro ip ip' hip
  obtain ⟨h1, h2, h3, h4, h5, h6, h7, h8, h9, h10⟩ := hip
  rw [h6]
  refine ImpE.bind (frac_bi c hA s o ip.byte ip'.byte h4 h5 ip.mantissa ip.nDigits h9 h10).1 ?_
  intro fp fp' hfp
  obtain ⟨g1, g2, g3, g4, g5, g6, g7, g8, g9, g10⟩ := hfp
  have hfi : ∀ v cased, fp'.byte.firstIs v cased = fp.byte.firstIs v cased := by
    intro v cased; simp [Bytes.firstIs, Bytes.firstIsCased, Bytes.firstIsUncased, g1.first g2]
  have hcc : Bytes.currentCount c fp'.byte = Bytes.currentCount c fp.byte := by
    simp only [Bytes.currentCount, hS.bytes, Bool.false_eq_true, if_false, g1.2.2.2.1, g1.2.2.2.2.1, g1.2.2.2.2.2]
  rw [h7, g4, g7, g3, g5]
  simp only [hfi, hcc, hA.reqMant, Bool.true_and]
  by_cases hm : (decide (ip.nDigits + fp.nAfterDot = 0) ||
      c.feats.format && decide (Bytes.currentCount c fp.byte = 0)) = true
  · simp only [hm, if_true]
    intro a ha
    rw [peek_iltc c .integer ip.start hA.int] at ha
    simp only [bind, Except.bind] at ha
    split at ha <;> cases ha
  · simp only [hm, Bool.false_eq_true, if_false]
    rw [g6]
    refine ImpE.bind (exp_strip c hA s _ fp.byte fp'.byte g1 g2 (fun h => firstIs_some _ _ _ h) g10 fp.fraction fp.exponent) ?_
    intro ep ep' hep
    obtain ⟨k1, k2, k3, k4, k5⟩ := hep
    simp only [suffixPhase_none c hA.noSuffix, bind, Except.bind]
    rw [k3, k4]
    have hidx : ep'.byte.index = (nonSep c (s.take ep.byte.index)).length := k1.2.2.1
    have hnorm : ∀ x, s[ep.byte.index]? = some x → c.isSep x = false := by
      intro x hx; exact k2 x (by rw [k1.1]; exact hx)
    split
    · intro a ha
      simp only [pure, Except.pure, Except.ok.injEq] at ha
      subst ha
      exact ⟨_, rfl, by simp [NumRel, h8], rfl, hidx, k5, hnorm⟩
    · have hnS : NoSep c (nonSep c s) := nonSep_noSep c s
      have hids : NoSep c ip'.integerDigits := by rw [h8]; exact nonSep_noSep c _
      have hfd : ∀ fd, fp'.fraction = some fd → NoSep c fd := by
        intro fd hfd
        rw [g6] at hfd
        cases hf : fp.fraction with
        | none => simp [hf] at hfd
        | some x => simp only [hf, Option.map_some, Option.some.injEq] at hfd; rw [← hfd]; exact nonSep_noSep c _
      rw [manyDigits_skipS c hA s o neg ip fp ep _ _ _ _ h3.1,
        manyDigits_sep c hS (nonSep c s) hnS o neg ip' fp' ep' _ _ _ _ h3.2.1 hids hfd,
        h3.2.2.1, h8, h7, g6, g3, k3]
      intro a ha
      obtain ⟨r', hr', hn, hneg, he1, he2⟩ := (manyClosedS_bi c (scaleVal c) o.dp s ip.start.index ip.integerDigits ip.nDigits
        fp.fraction fp.mantissa ep.explicit neg (ip.nDigits + fp.nAfterDot) (u64Step c.feats c.mantissaRadix) _
        ep.byte.index ep'.byte.index).1 a ha
      refine ⟨r', hr', hn, ?_, ?_, ?_, ?_⟩
      · rw [hn.2.2.1, hneg]
      · rw [he2, he1]; exact hidx
      · rw [he1]; exact k5
      · rw [he1]; exact hnorm

/-- `parse_number`, from the stripped run back to the run with separators -/
theorem number_rev (c : Cfg) (hA : SkipAll c) (s : List Nat) (hP : NoSepBeforeSign c s) (isPartial : Bool) (o : POpts)
    (b b' : Bytes) (hr : StripRel c s b b') (hv : b.index ≤ s.length) (neg fv : Bool) :
    ImpE (fun r' r => NumStrip c s neg r r') (parseNumber c isPartial o b' neg fv) (parseNumber c isPartial o b neg fv) := by
  have hS := hA.sepClass
  unfold parseNumber
  simp only [hS.debug, Bool.false_and, Bool.false_eq_true, if_false]
  refine ImpE.bind (int_bi c hA s b b' hr hv).2 ?_
  intro ip' ip hip
  obtain ⟨h1, h2, h3, h4, h5, h6, h7, h8, h9, h10⟩ := hip
  rw [h6]
  refine ImpE.bind (frac_bi c hA s o ip.byte ip'.byte h4 h5 ip.mantissa ip.nDigits h9 h10).2 ?_
  intro fp' fp hfp
  obtain ⟨g1, g2, g3, g4, g5, g6, g7, g8, g9, g10⟩ := hfp
  have hfi : ∀ v cased, fp'.byte.firstIs v cased = fp.byte.firstIs v cased := by
    intro v cased; simp [Bytes.firstIs, Bytes.firstIsCased, Bytes.firstIsUncased, g1.first g2]
  have hcc : Bytes.currentCount c fp'.byte = Bytes.currentCount c fp.byte := by
    simp only [Bytes.currentCount, hS.bytes, Bool.false_eq_true, if_false, g1.2.2.2.1, g1.2.2.2.2.1, g1.2.2.2.2.2]
  rw [h7, g4, g7, g3, g5]
  simp only [hfi, hcc, hA.reqMant, Bool.true_and]
  by_cases hm : (decide (ip.nDigits + fp.nAfterDot = 0) ||
      c.feats.format && decide (Bytes.currentCount c fp.byte = 0)) = true
  · simp only [hm, if_true]
    intro a ha
    rw [peek_iltc c .integer ip'.start hA.int] at ha
    simp only [bind, Except.bind] at ha
    split at ha <;> cases ha
  · simp only [hm, Bool.false_eq_true, if_false]
    rw [g6]
    have hPe : NoSignAfterSep c { fp.byte with index := fp.byte.index + 1 } := hP.at _ g1.1
    refine ImpE.bind (exp_rev c hA s _ fp.byte fp'.byte g1 g2 (fun h => firstIs_some _ _ _ h) g10 hPe fp.fraction fp.exponent) ?_
    intro ep' ep hep
    obtain ⟨k1, k2, k3, k4, k5⟩ := hep
    simp only [suffixPhase_none c hA.noSuffix, bind, Except.bind]
    rw [k3, k4]
    have hidx : ep'.byte.index = (nonSep c (s.take ep.byte.index)).length := k1.2.2.1
    have hnorm : ∀ x, s[ep.byte.index]? = some x → c.isSep x = false := by
      intro x hx; exact k2 x (by rw [k1.1]; exact hx)
    split
    · intro a ha
      simp only [pure, Except.pure, Except.ok.injEq] at ha
      subst ha
      exact ⟨_, rfl, by simp [NumRel, h8], rfl, hidx, k5, hnorm⟩
    · have hnS : NoSep c (nonSep c s) := nonSep_noSep c s
      have hids : NoSep c ip'.integerDigits := by rw [h8]; exact nonSep_noSep c _
      have hfd : ∀ fd, fp'.fraction = some fd → NoSep c fd := by
        intro fd hfd
        rw [g6] at hfd
        cases hf : fp.fraction with
        | none => simp [hf] at hfd
        | some x => simp only [hf, Option.map_some, Option.some.injEq] at hfd; rw [← hfd]; exact nonSep_noSep c _
      rw [manyDigits_skipS c hA s o neg ip fp ep _ _ _ _ h3.1,
        manyDigits_sep c hS (nonSep c s) hnS o neg ip' fp' ep' _ _ _ _ h3.2.1 hids hfd,
        h3.2.2.1, h8, h7, g6, g3, k3]
      intro a ha
      obtain ⟨r, hr', hn, hneg, he1, he2⟩ := (manyClosedS_bi c (scaleVal c) o.dp s ip.start.index ip.integerDigits ip.nDigits
        fp.fraction fp.mantissa ep.explicit neg (ip.nDigits + fp.nAfterDot) (u64Step c.feats c.mantissaRadix) _
        ep.byte.index ep'.byte.index).2 a ha
      refine ⟨r, hr', hn, ?_, ?_, ?_, ?_⟩
      · rw [hn.2.2.1, hneg]
      · rw [he2, he1]; exact hidx
      · rw [he1]; exact k5
      · rw [he1]; exact hnorm

theorem countSeps_noSep (c : Cfg) (l : List Nat) (h : NoSep c l) : countSeps c l = 0 := by
  cases l with
  | nil => rfl
  | cons x xs => simp [countSeps, h x (by simp)]

theorem nonSep_take_seps (c : Cfg) (l : List Nat) : nonSep c (l.take (countSeps c l)) = [] :=
  nonSep_of_all_sep c _ (countSeps_all c l)

/-- moving the left cursor over the run of separators under it keeps the correspondence and makes it normal -/
theorem StripRel.skipSeps {c : Cfg} {s : List Nat} {b b' : Bytes} (h : StripRel c s b b') :
    StripRel c s { b with index := b.index + countSeps c (b.slc.drop b.index) } b' ∧
    Normal c { b with index := b.index + countSeps c (b.slc.drop b.index) } := by
  obtain ⟨h1, h2, h3, h4, h5, h6⟩ := h
  refine ⟨⟨h1, h2, ?_, h4, h5, h6⟩, ?_⟩
  · simp only
    rw [nonSep_take_add, ← h1, nonSep_take_seps, h3, h1]; simp
  · intro x hx
    simp only at hx
    exact countSeps_stop c (b.slc.drop b.index) x (by rw [List.getElem?_drop]; exact hx)

/-- a cursor standing on a sign: `parse_number` finds no mantissa digits -/
theorem parseNumber_at_sign (c : Cfg) (hA : SkipAll c) (isPartial : Bool) (o : POpts) (b : Bytes) (neg fv : Bool)
    (y : Nat) (hy : b.slc[b.index]? = some y) (hsg : y = 43 ∨ y = 45) (hdp : o.dp ≠ 43 ∧ o.dp ≠ 45) :
    ∃ e, parseNumber c isPartial o b neg fv = .error e := by
  have hS := hA.sepClass
  have hys : c.isSep y = false := by rcases hsg with rfl | rfl; exact hA.sepPlus; exact hA.sepMinus
  have hyd : charToDigit y c.mantissaRadix = none := by
    have := charToDigit_sign c.mantissaRadix hA.radixM
    rcases hsg with rfl | rfl; exact this.1; exact this.2
  have hds : digitsSkip c c.mantissaRadix (b.slc.drop b.index) = ([], 0) := by
    rw [drop_of_get hy]; simp [digitsSkip, hys, hyd]
  have hfirst : b.firstIsCased o.dp = false := by
    simp only [Bytes.firstIsCased, Bytes.first, hy]
    rcases hsg with rfl | rfl
    · simpa using fun h => hdp.1 h.symm
    · simpa using fun h => hdp.2 h.symm
  have hint : (∃ e, integerPhase c b = .error e) ∨
      integerPhase c b = .ok ⟨false, b, b, foldMantissa c.mantissaRadix 0 [], 0, []⟩ := by
    unfold integerPhase
    simp only [prefixPhase_none c hA.noPrefix, bind, Except.bind,
      parse8Digits_sep c .integer hS.int, parseDigits_skip c .integer _ hA.debug hA.int, hds, pure, Except.pure,
      List.length_nil, advS_zero, Nat.add_zero, Nat.sub_self, hS.format, hS.int, Bool.true_and, Bool.not_false, if_true]
    by_cases hreq : (c.requiredIntegerDigits && decide True) = true
    · left; simp only [hreq, if_true]; exact ⟨_, rfl⟩
    · right
      simp only [hreq, Bool.false_eq_true, if_false]
      rw [sliceTo_ok c b 0 _ (by omega)]
      simp only [List.take_zero, List.length_nil, hA.noLz, Bool.and_false, Bool.false_and, Bool.false_eq_true, if_false]
  unfold parseNumber
  simp only [hS.debug, Bool.false_and, Bool.false_eq_true, if_false]
  rcases hint with ⟨e, he⟩ | hok
  · exact ⟨e, by simp [he, bind, Except.bind]⟩
  · rw [hok]
    simp only [bind, Except.bind]
    unfold fractionPhase
    simp only [hfirst, Bool.false_eq_true, if_false, pure, Except.pure, Nat.add_zero, hA.reqMant, decide_true,
      Bool.true_or, Bool.and_self, if_true, peek_iltc c .integer b hA.int]
    split <;> exact ⟨_, rfl⟩

theorem isConsumed_iltc (c : Cfg) (hA : SkipAll c) (b : Bytes) :
    isConsumed c .integer b = .ok ((b.slc[b.index + countSeps c (b.slc.drop b.index)]?).isNone,
      { b with index := b.index + countSeps c (b.slc.drop b.index) }) := by
  unfold isConsumed
  simp only [hA.sepClass.format, Bool.not_true, Bool.false_eq_true, if_false, peek_iltc c .integer b hA.int, bind,
    Except.bind, pure, Except.pure]

theorem stripRel_new (c : Cfg) (s : List Nat) : StripRel c s (Bytes.new s) (Bytes.new (nonSep c s)) := by
  refine ⟨rfl, rfl, ?_, rfl, rfl, rfl⟩
  simp [Bytes.new, nonSep]

/-- **strip_preserves** on the syntax layer: complete parser, class `SkipAll`, accepted *numbers* -/
theorem parseFloatSyntax_strip (c : Cfg) (hA : SkipAll c) (o : POpts) (hdp : o.dp ≠ 43 ∧ o.dp ≠ 45) (s : List Nat)
    (fv : Bool) (n : Number) (cnt : Nat) (h : parseFloatSyntax c o false s fv = .ok (.number n cnt)) :
    ∃ n', parseFloatSyntax c o false (nonSep c s) fv = .ok (.number n' (nonSep c s).length) ∧ NumRel c n n' := by
  have hS := hA.sepClass
  unfold parseFloatSyntax at h ⊢
  simp only [] at h ⊢
  unfold parseMantissaSign at h ⊢
  cases hps : parseSign c c.noPositiveMantissaSign c.requiredMantissaSign "InvalidPositiveSign" "MissingSign"
      (Bytes.new s) with
  | error e => simp [hps, bind, Except.bind] at h
  | ok r =>
    obtain ⟨neg, b1⟩ := r
    simp only [hps, bind, Except.bind, isConsumed_iltc c hA] at h
    -- the left run is not at the end of the input, and its complete number parse succeeds
    have hleft : ∃ n0, (b1.slc[b1.index + countSeps c (b1.slc.drop b1.index)]?).isNone = false ∧
        parseCompleteNumber c o { b1 with index := b1.index + countSeps c (b1.slc.drop b1.index) } neg fv = .ok n0 ∧
        n0 = n := by
      cases hnone : (b1.slc[b1.index + countSeps c (b1.slc.drop b1.index)]?).isNone with
      | true =>
        simp only [hnone, if_true] at h
        split at h <;> simp [pure, Except.pure] at h
      | false =>
        simp only [hnone, Bool.false_eq_true, if_false] at h
        cases hcn : parseCompleteNumber c o { b1 with index := b1.index + countSeps c (b1.slc.drop b1.index) } neg fv with
        | ok n0 =>
          simp only [hcn, pure, Except.pure, Except.ok.injEq, Parsed.number.injEq] at h
          exact ⟨n0, rfl, rfl, h.1⟩
        | error e =>
          exfalso
          simp only [hcn] at h
          cases e with
          | err k i =>
            simp only at h
            cases hsp : parseSpecialComplete c o { b1 with index := b1.index + countSeps c (b1.slc.drop b1.index) } with
            | error e2 => simp [hsp, bind, Except.bind] at h
            | ok sp =>
              cases sp with
              | none => simp [hsp, bind, Except.bind] at h
              | some x => simp [hsp, bind, Except.bind, pure, Except.pure] at h
          | panic t => simp at h
          | fault t => simp at h
    obtain ⟨n0, hnone, hcn, rfl⟩ := hleft
    have hr0 := stripRel_new c s
    rcases parseSign_strip c hA s _ _ _ _ _ _ hr0 (neg, b1) hps with ⟨r', h1, h2, h3, h4⟩ | ⟨h1, y, hy, hsg⟩
    · -- both runs handle the sign alike
      obtain ⟨neg', b1'⟩ := r'
      simp only at h2 h3 h4
      subst h2
      have hsk := h3.skipSeps
      have hvalid : ({ b1 with index := b1.index + countSeps c (b1.slc.drop b1.index) } : Bytes).index ≤ s.length := by
        have h5 := h4 (by simp [Bytes.new])
        have h6 := countSeps_le c (b1.slc.drop b1.index)
        simp only [new_slc, List.length_drop, h3.1] at h5 h6 ⊢
        omega
      have hn1' : NoSep c b1'.slc := by rw [h3.2.1]; exact nonSep_noSep c s
      have hcs' : countSeps c (b1'.slc.drop b1'.index) = 0 := countSeps_noSep c _ (hn1'.drop _)
      have hget := hsk.1.get hsk.2
      simp only at hget
      simp only [h1, bind, Except.bind, isConsumed_iltc c hA, hcs', Nat.add_zero, hget, hnone,
        Bool.false_eq_true, if_false]
      -- the complete number parse
      unfold parseCompleteNumber at hcn ⊢
      cases hpn : parseNumber c false o { b1 with index := b1.index + countSeps c (b1.slc.drop b1.index) } neg' fv with
      | error e => simp [hpn, bind, Except.bind] at hcn
      | ok rn =>
        obtain ⟨nn, count⟩ := rn
        simp only [hpn, bind, Except.bind] at hcn
        obtain ⟨rn', hrn', hnum, _, hcount, _, _⟩ := number_strip c hA s false o _ _ hsk.1 hvalid neg' fv (nn, count) hpn
        have hb' : ({ b1' with index := b1'.index } : Bytes) = b1' := rfl
        simp only at hrn' hnum hcount
        split at hcn
        · next hfull =>
          simp only [pure, Except.pure, Except.ok.injEq] at hcn
          subst hcn
          have hlen : count = s.length := by
            have := h3.1
            simp only [Bytes.bufferLength] at hfull
            rw [← this]; exact hfull
          have hcount' : rn'.2 = b1'.slc.length := by
            rw [hcount, hlen, List.take_length, h3.2.1]
          refine ⟨rn'.1, ?_, hnum⟩
          simp only [hb', hrn', bind, Except.bind, hcount', Bytes.bufferLength, if_true, pure, Except.pure]
        · cases hcn
    · -- the left run stands on a separator and a sign follows: its number parse cannot succeed
      exfalso
      simp only at h1
      subst h1
      have hyget : (Bytes.new s).slc[(Bytes.new s).index + countSeps c ((Bytes.new s).slc.drop (Bytes.new s).index)]?
          = some y := by
        have hd := nonSep_take_drop c s (countSeps c s)
        rw [nonSep_take_seps] at hd
        simp only [List.length_nil, List.drop_zero] at hd
        simp only [new_slc, new_index, List.drop_zero, Nat.zero_add] at hy ⊢
        cases hv : s[countSeps c s]? with
        | none => rw [drop_of_none hv] at hd; rw [hd] at hy; simp [nonSep] at hy
        | some z =>
          have hz := countSeps_stop c s z hv
          rw [drop_of_get hv, nonSep_cons_non c z _ hz] at hd
          rw [hd] at hy
          simpa using hy
      unfold parseCompleteNumber at hcn
      obtain ⟨e, he⟩ := parseNumber_at_sign c hA false o
        { (Bytes.new s) with index := (Bytes.new s).index + countSeps c ((Bytes.new s).slc.drop (Bytes.new s).index) }
        neg fv y hyget hsg hdp
      simp [he, bind, Except.bind] at hcn

theorem nonSep_take_length_le (c : Cfg) (s : List Nat) (k : Nat) : (nonSep c (s.take k)).length ≤ (nonSep c s).length := by
  have h : nonSep c s = nonSep c (s.take k) ++ nonSep c (s.drop k) := by rw [← nonSep_append, List.take_append_drop]
  rw [h, List.length_append]; omega

/-- a normal position whose stripped prefix is the whole stripped input is the end of the input -/
theorem end_of_strip (c : Cfg) (s : List Nat) (k : Nat) (hk : k ≤ s.length)
    (hN : ∀ x, s[k]? = some x → c.isSep x = false) (h : (nonSep c (s.take k)).length = (nonSep c s).length) :
    k = s.length := by
  by_cases hlt : k < s.length
  · exfalso
    have hx : s[k]? = some s[k] := List.getElem?_eq_getElem hlt
    have h1 := nonSep_take_add c s k 1
    rw [drop_of_get hx, List.take_succ_cons, List.take_zero, nonSep_cons_non c _ _ (hN _ hx)] at h1
    have h2 := nonSep_take_length_le c s (k + 1)
    simp only [nonSep, List.filter_nil, List.length_cons, List.length_nil] at h1
    simp only [nonSep] at h h2
    omega
  · omega

/-- **insert_preserves** on the syntax layer: complete parser, class `SkipAll`; `s` is any input whose separator-free
form is accepted as a number and in which no run of separators directly precedes a sign -/
theorem parseFloatSyntax_insert (c : Cfg) (hA : SkipAll c) (o : POpts) (s : List Nat) (hP : NoSepBeforeSign c s)
    (fv : Bool) (n' : Number) (cnt : Nat) (h : parseFloatSyntax c o false (nonSep c s) fv = .ok (.number n' cnt)) :
    ∃ n, parseFloatSyntax c o false s fv = .ok (.number n s.length) ∧ NumRel c n n' := by
  have hS := hA.sepClass
  unfold parseFloatSyntax at h ⊢
  simp only [] at h ⊢
  unfold parseMantissaSign at h ⊢
  cases hps : parseSign c c.noPositiveMantissaSign c.requiredMantissaSign "InvalidPositiveSign" "MissingSign"
      (Bytes.new (nonSep c s)) with
  | error e => simp [hps, bind, Except.bind] at h
  | ok r' =>
    obtain ⟨neg, b1'⟩ := r'
    have hr0 := stripRel_new c s
    obtain ⟨r, h1, h2, h3, h4⟩ := parseSign_strip_rev c hA s _ _ _ _ _ _ hr0 (hP.at _ rfl) (neg, b1') hps
    obtain ⟨neg0, b1⟩ := r
    simp only at h2 h3 h4
    subst h2
    have hsk := h3.skipSeps
    have hn1' : NoSep c b1'.slc := by rw [h3.2.1]; exact nonSep_noSep c s
    have hcs' : countSeps c (b1'.slc.drop b1'.index) = 0 := countSeps_noSep c _ (hn1'.drop _)
    have hget := hsk.1.get hsk.2
    simp only at hget
    have hvalid : ({ b1 with index := b1.index + countSeps c (b1.slc.drop b1.index) } : Bytes).index ≤ s.length := by
      have h5 := h4 (by simp [Bytes.new])
      have h6 := countSeps_le c (b1.slc.drop b1.index)
      simp only [new_slc, List.length_drop, h3.1] at h5 h6 ⊢
      omega
    have hb' : ({ b1' with index := b1'.index } : Bytes) = b1' := rfl
    simp only [hps, bind, Except.bind, isConsumed_iltc c hA, hcs', Nat.add_zero, hget, hb'] at h
    simp only [h1, bind, Except.bind, isConsumed_iltc c hA]
    cases hnone : (b1.slc[b1.index + countSeps c (b1.slc.drop b1.index)]?).isNone with
    | true =>
      simp only [hnone, if_true] at h
      split at h <;> simp [pure, Except.pure] at h
    | false =>
      simp only [hnone, Bool.false_eq_true, if_false] at h ⊢
      cases hcn : parseCompleteNumber c o b1' neg fv with
      | error e =>
        exfalso
        simp only [hcn] at h
        cases e with
        | err k i =>
          simp only at h
          cases hsp : parseSpecialComplete c o b1' with
          | error e2 => simp [hsp, bind, Except.bind] at h
          | ok sp =>
            cases sp with
            | none => simp [hsp, bind, Except.bind] at h
            | some x => simp [hsp, bind, Except.bind, pure, Except.pure] at h
        | panic t => simp at h
        | fault t => simp at h
      | ok n0 =>
        simp only [hcn, pure, Except.pure, Except.ok.injEq, Parsed.number.injEq] at h
        obtain ⟨rfl, _⟩ := h
        unfold parseCompleteNumber at hcn ⊢
        cases hpn : parseNumber c false o b1' neg fv with
        | error e => simp [hpn, bind, Except.bind] at hcn
        | ok rn' =>
          obtain ⟨nn', count'⟩ := rn'
          simp only [hpn, bind, Except.bind] at hcn
          obtain ⟨rn, hrn, hnum, _, hcount, hle, hnorm⟩ :=
            number_rev c hA s hP false o _ _ hsk.1 hvalid neg fv (nn', count') hpn
          simp only at hnum hcount hle hnorm
          split at hcn
          · next hfull =>
            simp only [pure, Except.pure, Except.ok.injEq] at hcn
            subst hcn
            have hlen' : count' = (nonSep c s).length := by
              simp only [Bytes.bufferLength, h3.2.1] at hfull; exact hfull
            have hend : rn.2 = s.length := end_of_strip c s rn.2 hle hnorm (by rw [← hcount, hlen'])
            refine ⟨rn.1, ?_, hnum⟩
            rw [hrn]
            simp only [bind, Except.bind, hend, Bytes.bufferLength, h3.1, if_true, pure, Except.pure]
          · cases hcn

/-- executable form of `NoSepBeforeSign` -/
def noSepBeforeSignB (c : Cfg) (s : List Nat) : Bool :=
  (List.range s.length).all fun i =>
    match s[i]? with
    | some x =>
      !c.isSep x ||
        (match (nonSep c (s.drop i)).head? with
         | some y => y != 43 && y != 45
         | none => true)
    | none => true

theorem noSepBeforeSign_of_B (c : Cfg) (s : List Nat) (h : noSepBeforeSignB c s = true) : NoSepBeforeSign c s := by
  intro i x hx hs y hy
  have hi : i < s.length := (List.getElem?_eq_some_iff.mp hx).1
  have := List.all_eq_true.mp h i (List.mem_range.mpr hi)
  simp only [hx, hs, Bool.not_true, Bool.false_or, hy, Bool.and_eq_true, bne_iff_ne, ne_eq] at this
  exact this

end LexVerif.Proof.Sep
