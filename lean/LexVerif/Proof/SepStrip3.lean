import LexVerif.Proof.SepStrip2
/-!
# Proof.SepStrip3 — `parse_number` phase by phase: a run over `s` with skip-everything iterators against the
run of the same format over the stripped input
-/
set_option linter.unusedSimpArgs false
namespace LexVerif.Proof.Sep
open LexVerif LexVerif.Model LexVerif.Spec
open LexVerif.Props.C12

/-- the class for `strip_preserves`: every digit component skips every separator (I+L+T+C), no base prefix / suffix,
leading zeros allowed -/
structure SkipAll (c : Cfg) : Prop where
  debug : c.debug = false
  sep : c.digitSeparator ≠ 0
  int : c.skip .integer = .pred .iltc
  frac : c.skip .fraction = .pred .iltc
  exp : c.skip .exponent = .pred .iltc
  noPrefix : c.basePrefix = 0
  noSuffix : c.baseSuffix = 0
  noLz : c.noFloatLeadingZeros = false
  reqExp : c.requiredExponentDigits = true
  reqMant : c.requiredMantissaDigits = true
  sepPlus : c.isSep 43 = false
  sepMinus : c.isSep 45 = false
  radixM : c.mantissaRadix ≤ 36
  radixE : c.exponentRadix ≤ 36

theorem skip_iltc_any (f : SepFlags) (h : f.skip = .pred .iltc) : f.any = true := by
  obtain ⟨i, l, t, cc⟩ := f
  cases i <;> cases l <;> cases t <;> cases cc <;> simp [SepFlags.skip] at h <;> rfl

theorem SkipAll.sepClass {c : Cfg} (h : SkipAll c) : SepClass c := by
  refine ⟨h.debug, h.sep, ?_, ?_, ?_⟩
  · have := skip_iltc_any (c.sepFlags .integer) h.int
    simp [Cfg.iterContiguous, this]
  · have := skip_iltc_any (c.sepFlags .fraction) h.frac
    simp [Cfg.iterContiguous, this]
  · intro k
    cases k with
    | integer => rw [h.int]; simp
    | fraction => rw [h.frac]; simp
    | exponent => rw [h.exp]; simp
    | special => simp only [Cfg.skip]; split <;> simp

/-- success on the left implies success on the right with related results -/
def ImpE {α β : Type} (R : α → β → Prop) (x : Except Err α) (y : Except Err β) : Prop :=
  ∀ a, x = .ok a → ∃ b, y = .ok b ∧ R a b

theorem ImpE.bind {α β γ δ : Type} {R : α → β → Prop} {Q : γ → δ → Prop} {x : Except Err α} {y : Except Err β}
    {f : α → Except Err γ} {g : β → Except Err δ} (h : ImpE R x y) (hf : ∀ a b, R a b → ImpE Q (f a) (g b)) :
    ImpE Q (x >>= f) (y >>= g) := by
  intro r hr
  cases x with
  | error e => simp [Bind.bind, Except.bind] at hr
  | ok a =>
    obtain ⟨b, hb, hab⟩ := h a rfl
    subst hb
    exact hf a b hab r hr

/-- both directions: success on either side implies success on the other, with related results -/
def BiE {α β : Type} (R : α → β → Prop) (x : Except Err α) (y : Except Err β) : Prop :=
  ImpE R x y ∧ ImpE (fun b a => R a b) y x

theorem BiE.bind {α β γ δ : Type} {R : α → β → Prop} {Q : γ → δ → Prop} {x : Except Err α} {y : Except Err β}
    {f : α → Except Err γ} {g : β → Except Err δ} (h : BiE R x y) (hf : ∀ a b, R a b → BiE Q (f a) (g b)) :
    BiE Q (x >>= f) (y >>= g) :=
  ⟨ImpE.bind h.1 (fun a b hab => (hf a b hab).1), ImpE.bind h.2 (fun b a hab => (hf a b hab).2)⟩

theorem biE_ite {α β : Type} {R : α → β → Prop} {p : Prop} [Decidable p] {e1 e2 : Err} {a : α} {b : β} (h : R a b) :
    BiE R (if p then .error e1 else .ok a) (if p then .error e2 else .ok b) := by
  by_cases hp : p
  · simp only [hp, if_true]
    exact ⟨fun _ h => (by cases h), fun _ h => (by cases h)⟩
  · simp only [hp, if_false]
    exact ⟨fun x hx => (by cases hx; exact ⟨b, rfl, h⟩), fun x hx => (by cases hx; exact ⟨a, rfl, h⟩)⟩

theorem biE_ok {α β : Type} {R : α → β → Prop} {a : α} {b : β} (h : R a b) :
    BiE R (Except.ok a) (Except.ok b) :=
  ⟨fun x hx => (by cases hx; exact ⟨b, rfl, h⟩), fun x hx => (by cases hx; exact ⟨a, rfl, h⟩)⟩

theorem biE_err {α β : Type} {R : α → β → Prop} {e1 e2 : Err} :
    BiE R (Except.error e1 : Except Err α) (Except.error e2 : Except Err β) :=
  ⟨fun _ h => (by cases h), fun _ h => (by cases h)⟩

/-- the byte under the cursor is not a separator (or the cursor is at the end) -/
def Normal (c : Cfg) (b : Bytes) : Prop := ∀ x, b.slc[b.index]? = some x → c.isSep x = false

theorem prefixPhase_none (c : Cfg) (h : c.basePrefix = 0) (b : Bytes) : prefixPhase c b = .ok (false, b) := by
  simp [prefixPhase, prefixPhaseCurrent, prefixPhaseRepaired, h, pure, Except.pure]

theorem advS_count (c : Cfg) (k : Comp) (di dc : Nat) (b : Bytes) (hf : c.feats.format = true) (hk : k ≠ .special) :
    (advS c k di dc b).ic + (advS c k di dc b).fc + (advS c k di dc b).ec = b.ic + b.fc + b.ec + dc := by
  cases k <;> simp [advS, hf] at hk ⊢ <;> omega

/-- both cursors advance: the left one over `di` bytes whose non-separator bytes number `dc` -/
theorem StripRel.adv {c : Cfg} {s : List Nat} {b b' : Bytes} (h : StripRel c s b b') (k : Comp) (di dc : Nat)
    (hlen : (nonSep c ((b.slc.drop b.index).take di)).length = dc) :
    StripRel c s (advS c k di dc b) (adv c k dc b') := by
  obtain ⟨h1, h2, h3, h4, h5, h6⟩ := h
  refine ⟨by simp [h1], by simp [h2], ?_, ?_, ?_, ?_⟩
  · simp only [adv_index, advS_index, h3]
    rw [nonSep_take_add, ← h1, hlen]
  all_goals (cases k <;> simp [advS, Sep.adv, h4, h5, h6])

/-- what the two runs agree on after the integer digits -/
def IntStrip (c : Cfg) (s : List Nat) (ip ip' : IntPart) : Prop :=
  ip.isPrefix = false ∧ ip'.isPrefix = false ∧ StripRel c s ip.start ip'.start ∧ StripRel c s ip.byte ip'.byte ∧
  Normal c ip.byte ∧ ip'.mantissa = ip.mantissa ∧ ip'.nDigits = ip.nDigits ∧
  ip'.integerDigits = nonSep c ip.integerDigits ∧ CountLB ip.byte ip.nDigits ∧ ip.byte.index ≤ s.length

theorem int_bi (c : Cfg) (hA : SkipAll c) (s : List Nat) (b b' : Bytes) (hr : StripRel c s b b')
    (hv : b.index ≤ s.length) :
    BiE (IntStrip c s) (integerPhase c b) (integerPhase c b') := by
  have hS := hA.sepClass
  have hn' : NoSep c b'.slc := by rw [hr.2.1]; exact nonSep_noSep c s
  rw [integerPhase_sep c hS b' b' false hn' (prefixPhase_none c hA.noPrefix b')]
  unfold integerPhase
  simp only [prefixPhase_none c hA.noPrefix b, bind, Except.bind, parse8Digits_sep c .integer hS.int,
    parseDigits_skip c .integer _ hA.debug hA.int, pure, Except.pure]
  have hds := digitsSkip_strip c c.mantissaRadix (b.slc.drop b.index)
  have hle := digitsSkip_le c c.mantissaRadix (b.slc.drop b.index)
  have hcc : Bytes.currentCount c (advS c Comp.integer (digitsSkip c c.mantissaRadix (List.drop b.index b.slc)).2
        (digitsSkip c c.mantissaRadix (List.drop b.index b.slc)).1.length b)
      - Bytes.currentCount c b = (digitsSkip c c.mantissaRadix (List.drop b.index b.slc)).1.length := by
    simp only [Bytes.currentCount, hS.bytes, Bool.false_eq_true, if_false,
      advS_count c .integer _ _ _ hS.format (by decide)]
    omega
  simp only [hcc, hS.int, hS.format, Bool.true_and, Bool.not_false, if_true, advS_index, Nat.add_sub_cancel_left,
    sliceTo_ok c b _ _ hle.1, hA.noLz, Bool.and_false, Bool.false_and, Bool.false_eq_true, if_false]
  unfold intClosed
  rw [hr.drop, ← hds.1]
  simp only [hS.format, Bool.true_and, hA.noLz, Bool.and_false, Bool.false_and, Bool.false_eq_true, if_false]
  refine biE_ite ⟨rfl, rfl, hr, ?_, ?_, rfl, rfl, ?_, ?_, ?_⟩
  · exact hr.adv .integer _ _ (by rw [hds.2.1, List.length_take]; have := digitsPrefix_length_le c.mantissaRadix (nonSep c (List.drop b.index b.slc)); rw [hds.1]; omega)
  · intro x hx
    simp only [advS_slc, advS_index] at hx
    exact hds.2.2 x (by rw [List.getElem?_drop]; exact hx)
  · simp only [hds.2.1]
  · simp only [CountLB, advS_count c .integer _ _ _ hS.format (by decide)]; omega
  · have := hle.1
    simp only [advS_index, List.length_drop, hr.1] at this ⊢; omega

/-- stepping both cursors over a byte that is not a separator -/
theorem StripRel.step1 {c : Cfg} {s : List Nat} {b b' : Bytes} (h : StripRel c s b b') (x : Nat)
    (hx : b.slc[b.index]? = some x) (hs : c.isSep x = false) :
    StripRel c s { b with index := b.index + 1 } { b' with index := b'.index + 1 } := by
  obtain ⟨h1, h2, h3, h4, h5, h6⟩ := h
  refine ⟨h1, h2, ?_, h4, h5, h6⟩
  simp only
  rw [nonSep_take_add, ← h1, drop_of_get hx, List.take_succ_cons, List.take_zero, nonSep_cons_non c x _ hs, h3, h1]
  simp [nonSep]

theorem StripRel.first {c : Cfg} {s : List Nat} {b b' : Bytes} (h : StripRel c s b b') (hN : Normal c b) :
    b'.first = b.first := by
  simp only [Bytes.first]; exact h.get hN

/-- what the two runs agree on after the fraction digits (`L` = digits counted before the fraction) -/
def FracStrip (c : Cfg) (s : List Nat) (L : Nat) (fp fp' : FracPart) : Prop :=
  StripRel c s fp.byte fp'.byte ∧ Normal c fp.byte ∧ fp'.mantissa = fp.mantissa ∧ fp'.nAfterDot = fp.nAfterDot ∧
  fp'.exponent = fp.exponent ∧ fp'.fraction = fp.fraction.map (nonSep c) ∧ fp'.hasDecimal = fp.hasDecimal ∧
  CountLB fp.byte (L + fp.nAfterDot) ∧ (fp.fraction = none → fp.nAfterDot = 0) ∧ fp.byte.index ≤ s.length

theorem frac_bi (c : Cfg) (hA : SkipAll c) (s : List Nat) (o : POpts) (bC bP : Bytes) (hr : StripRel c s bC bP)
    (hN : Normal c bC) (m L : Nat) (hL : CountLB bC L) (hv : bC.index ≤ s.length) :
    BiE (FracStrip c s L) (fractionPhase c o bC m) (fractionPhase c o bP m) := by
  have hS := hA.sepClass
  unfold fractionPhase
  have hf : bP.firstIsCased o.dp = bC.firstIsCased o.dp := by simp [Bytes.firstIsCased, hr.first hN]
  rw [hf]
  by_cases hdp : bC.firstIsCased o.dp = true
  · have hget : bC.slc[bC.index]? = some o.dp := by
      simp only [Bytes.firstIsCased, Bytes.first, beq_iff_eq] at hdp; exact hdp
    have hr1 := hr.step1 o.dp hget (hN _ hget)
    have hnP : NoSep c ({ bP with index := bP.index + 1 } : Bytes).slc := by
      simp only [hr.2.1]; exact nonSep_noSep c s
    simp only [hdp, if_true, step_release c hS.debug, bind, Except.bind, parse8Digits_sep c .fraction hS.frac,
      parseDigits_skip c .fraction _ hA.debug hA.frac { bC with index := bC.index + 1 },
      parseDigits_nosep c .fraction _ hS.debug (hS.reach _) { bP with index := bP.index + 1 } hnP, pure, Except.pure]
    have hds := digitsSkip_strip c c.mantissaRadix (bC.slc.drop (bC.index + 1))
    have hle := digitsSkip_le c c.mantissaRadix (bC.slc.drop (bC.index + 1))
    have hdrop := hr1.drop
    simp only at hdrop
    rw [hdrop, ← hds.1]
    have hlenP := digitsPrefix_length_le c.mantissaRadix (nonSep c (bC.slc.drop (bC.index + 1)))
    rw [← hds.1, ← hdrop] at hlenP
    simp only [Bytes.currentCount, hS.bytes, Bool.false_eq_true, if_false, adv_index, advS_index, hS.frac,
      Bool.not_false, Bool.and_true, hS.format, if_true,
      adv_count c .fraction _ _ hS.format (by decide), advS_count c .fraction _ _ _ hS.format (by decide),
      Nat.add_sub_cancel_left, scaleExponent_release c hS.debug,
      sliceTo_ok c { bC with index := bC.index + 1 } _ _ hle.1,
      sliceTo_ok c { bP with index := bP.index + 1 } _ _ hlenP, Bool.true_and]
    refine biE_ite ⟨?_, ?_, rfl, rfl, rfl, ?_, rfl, ?_, ?_, ?_⟩
    · exact hr1.adv .fraction _ _ (by
        simp only
        rw [hds.2.1, List.length_take]
        have := digitsPrefix_length_le c.mantissaRadix (nonSep c (List.drop (bC.index + 1) bC.slc))
        rw [hds.1]; omega)
    · intro x hx
      simp only [advS_slc, advS_index] at hx
      exact hds.2.2 x (by rw [List.getElem?_drop]; exact hx)
    · simp only [Option.map_some, hdrop, hds.2.1]
    · simp only [CountLB, advS_count c .fraction _ _ _ hS.format (by decide)] at hL ⊢; omega
    · intro h; cases h
    · have := hle.1
      have hlt : bC.index < bC.slc.length := (List.getElem?_eq_some_iff.mp hget).1
      simp only [advS_index, List.length_drop, hr.1] at this hlt ⊢; omega
  · simp only [hdp, Bool.false_eq_true, if_false, pure, Except.pure]
    exact biE_ok ⟨hr, hN, rfl, rfl, rfl, rfl, rfl, hL, fun _ => rfl, hv⟩

theorem charToDigit_sign (r : Nat) (hr : r ≤ 36) : charToDigit 43 r = none ∧ charToDigit 45 r = none := by
  constructor <;>
  · simp only [charToDigit, charToValidDigit]
    split
    · split
      · omega
      · rfl
    · simp; omega

theorem StripRel.head {c : Cfg} {s : List Nat} {b b' : Bytes} (h : StripRel c s b b') :
    b'.first = (nonSep c (b.slc.drop b.index)).head? := by
  simp only [Bytes.first, ← h.drop, List.head?_drop]

/-- `parse_sign!` on corresponding cursors: either both do the same, or the left cursor stands on a separator and the
first non-separator byte after it is a sign (then the left run saw no sign and stays where it is) -/
theorem parseSign_strip (c : Cfg) (hA : SkipAll c) (s : List Nat) (np rq : Bool) (ip ms : String) (b b' : Bytes)
    (hr : StripRel c s b b') (r : Bool × Bytes) (h : parseSign c np rq ip ms b = .ok r) :
    (∃ r', parseSign c np rq ip ms b' = .ok r' ∧ r'.1 = r.1 ∧ StripRel c s r.2 r'.2 ∧
      (b.index ≤ b.slc.length → r.2.index ≤ b.slc.length)) ∨
    (r.2 = b ∧ ∃ y, (nonSep c (b.slc.drop b.index)).head? = some y ∧ (y = 43 ∨ y = 45)) := by
  have hhead := hr.head
  cases hv : b.slc[b.index]? with
  | none =>
    left
    have hN : Normal c b := by intro x hx; rw [hv] at hx; cases hx
    have hf := hr.first hN
    unfold parseSign at h ⊢
    rw [hf]
    simp only [Bytes.first, hv] at h ⊢
    cases rq
    · simp only [Bool.false_eq_true, if_false, pure, Except.pure, Except.ok.injEq] at h ⊢
      subst h; exact ⟨_, rfl, rfl, hr, fun h => h⟩
    · simp at h
  | some x =>
    cases hs : c.isSep x with
    | false =>
      left
      have hN : Normal c b := by intro y hy; rw [hv] at hy; cases hy; exact hs
      have hf := hr.first hN
      have hr1 := hr.step1 x hv hs
      have hlt : b.index < b.slc.length := (List.getElem?_eq_some_iff.mp hv).1
      unfold parseSign at h ⊢
      rw [hf]
      simp only [step_release c hA.debug, bind, Except.bind, pure, Except.pure] at h ⊢
      split at h
      · split at h
        · simp only [Except.ok.injEq] at h; subst h
          simp only [*, if_true]
          exact ⟨_, rfl, rfl, hr1, fun _ => hlt⟩
        · cases h
      · simp only [Except.ok.injEq] at h; subst h
        exact ⟨_, rfl, rfl, hr1, fun _ => hlt⟩
      · split at h
        · cases h
        · simp only [Except.ok.injEq] at h; subst h
          simp only [*, if_false]
          exact ⟨_, rfl, rfl, hr, fun h => h⟩
    | true =>
      have hx43 : x ≠ 43 := by intro e; subst e; rw [hA.sepPlus] at hs; cases hs
      have hx45 : x ≠ 45 := by intro e; subst e; rw [hA.sepMinus] at hs; cases hs
      have hb : b.first = some x := by simp [Bytes.first, hv]
      unfold parseSign at h
      rw [hb] at h
      have hleft : (if rq = true then (Except.error (Err.err ms b.index) : Except Err (Bool × Bytes))
          else pure (false, b)) = .ok r := by
        split at h
        · next heq => simp only [Option.some.injEq] at heq; exact absurd heq hx43
        · next heq => simp only [Option.some.injEq] at heq; exact absurd heq hx45
        · exact h
      cases rq
      · simp only [Bool.false_eq_true, if_false, pure, Except.pure, Except.ok.injEq] at hleft
        subst hleft
        cases hy : (nonSep c (b.slc.drop b.index)).head? with
        | none =>
          left
          unfold parseSign
          rw [hhead, hy]
          exact ⟨_, rfl, rfl, hr, fun h => h⟩
        | some y =>
          by_cases hsg : y = 43 ∨ y = 45
          · right; exact ⟨rfl, y, rfl, hsg⟩
          · left
            unfold parseSign
            rw [hhead, hy]
            have h43 : y ≠ 43 := fun e => hsg (Or.inl e)
            have h45 : y ≠ 45 := fun e => hsg (Or.inr e)
            refine ⟨(false, b'), ?_, rfl, hr, fun h => h⟩
            split
            · next heq => simp only [Option.some.injEq] at heq; exact absurd heq h43
            · next heq => simp only [Option.some.injEq] at heq; exact absurd heq h45
            · rfl
      · simp at hleft

/-- a separator under the cursor is not directly (through separators) followed by a sign -/
def NoSignAfterSep (c : Cfg) (b : Bytes) : Prop :=
  ∀ x, b.slc[b.index]? = some x → c.isSep x = true →
    ∀ y, (nonSep c (b.slc.drop b.index)).head? = some y → y ≠ 43 ∧ y ≠ 45

/-- `parse_sign!`, from the stripped run back to the run with separators -/
theorem parseSign_strip_rev (c : Cfg) (hA : SkipAll c) (s : List Nat) (np rq : Bool) (ip ms : String) (b b' : Bytes)
    (hr : StripRel c s b b') (hP : NoSignAfterSep c b) (r' : Bool × Bytes) (h : parseSign c np rq ip ms b' = .ok r') :
    ∃ r, parseSign c np rq ip ms b = .ok r ∧ r'.1 = r.1 ∧ StripRel c s r.2 r'.2 ∧ (b.index ≤ b.slc.length → r.2.index ≤ b.slc.length) := by
  have hhead := hr.head
  cases hv : b.slc[b.index]? with
  | none =>
    have hN : Normal c b := by intro x hx; rw [hv] at hx; cases hx
    have hf := hr.first hN
    unfold parseSign at h ⊢
    rw [hf] at h
    simp only [Bytes.first, hv] at h ⊢
    cases rq
    · simp only [Bool.false_eq_true, if_false, pure, Except.pure, Except.ok.injEq] at h ⊢
      subst h; exact ⟨_, rfl, rfl, hr, fun h => h⟩
    · simp at h
  | some x =>
    have hlt : b.index < b.slc.length := (List.getElem?_eq_some_iff.mp hv).1
    cases hs : c.isSep x with
    | false =>
      have hN : Normal c b := by intro y hy; rw [hv] at hy; cases hy; exact hs
      have hf := hr.first hN
      have hr1 := hr.step1 x hv hs
      unfold parseSign at h ⊢
      rw [hf] at h
      simp only [step_release c hA.debug, bind, Except.bind, pure, Except.pure] at h ⊢
      split at h
      · split at h
        · simp only [Except.ok.injEq] at h; subst h
          simp only [*, if_true]
          exact ⟨_, rfl, rfl, hr1, fun _ => hlt⟩
        · cases h
      · simp only [Except.ok.injEq] at h; subst h
        exact ⟨_, rfl, rfl, hr1, fun _ => hlt⟩
      · split at h
        · cases h
        · simp only [Except.ok.injEq] at h; subst h
          simp only [*, if_false]
          exact ⟨_, rfl, rfl, hr, fun h => h⟩
    | true =>
      have hx43 : x ≠ 43 := by intro e; subst e; rw [hA.sepPlus] at hs; cases hs
      have hx45 : x ≠ 45 := by intro e; subst e; rw [hA.sepMinus] at hs; cases hs
      have hb : b.first = some x := by simp [Bytes.first, hv]
      have hright : (if rq = true then (Except.error (Err.err ms b'.index) : Except Err (Bool × Bytes))
          else pure (false, b')) = .ok r' := by
        unfold parseSign at h
        rw [hhead] at h
        cases hy : (nonSep c (b.slc.drop b.index)).head? with
        | none => rw [hy] at h; exact h
        | some y =>
          rw [hy] at h
          have := hP x hv hs y hy
          split at h
          · next heq => simp only [Option.some.injEq] at heq; exact absurd heq this.1
          · next heq => simp only [Option.some.injEq] at heq; exact absurd heq this.2
          · exact h
      cases rq
      · simp only [Bool.false_eq_true, if_false, pure, Except.pure, Except.ok.injEq] at hright
        subst hright
        refine ⟨(false, b), ?_, rfl, hr, fun h => h⟩
        unfold parseSign
        rw [hb]
        split
        · next heq => simp only [Option.some.injEq] at heq; exact absurd heq hx43
        · next heq => simp only [Option.some.injEq] at heq; exact absurd heq hx45
        · rfl
      · simp at hright

theorem digitsSkip_noSep (c : Cfg) (radix : Nat) (l : List Nat) (h : NoSep c l) :
    (digitsSkip c radix l).2 = (digitsSkip c radix l).1.length := by
  induction l with
  | nil => simp [digitsSkip]
  | cons x xs ih =>
    have hx : c.isSep x = false := h x (by simp)
    have hxs : NoSep c xs := fun y hy => h y (by simp [hy])
    simp only [digitsSkip, hx, Bool.false_eq_true, if_false]
    split
    · simp [ih hxs]
    · simp

theorem advS_same (c : Cfg) (k : Comp) (n : Nat) (b : Bytes) : advS c k n n b = adv c k n b := by
  cases k <;> rfl

/-- what the two runs agree on after the exponent -/
def ExpStrip (c : Cfg) (s : List Nat) (ep ep' : ExpPart) : Prop :=
  StripRel c s ep.byte ep'.byte ∧ Normal c ep.byte ∧ ep'.explicit = ep.explicit ∧ ep'.exponent = ep.exponent ∧
  ep.byte.index ≤ s.length

/-- the exponent digits after the sign -/
def expTail (c : Cfg) (negExp : Bool) (byte : Bytes) (exponent : Int) : Except Err ExpPart := do
  let before := byte.currentCount c
  let (ds, byte) ← parseDigits c .exponent c.exponentRadix byte
  let mag := foldExponent c.exponentRadix 0 ds
  if c.requiredExponentDigits && byte.currentCount c - before = 0 then .error (.err "EmptyExponent" byte.index)
  else
    let explicit : Int := if negExp then -(mag : Int) else (mag : Int)
    pure ⟨byte, explicit, exponent + explicit⟩

theorem expTail_left (c : Cfg) (hA : SkipAll c) (neg : Bool) (b : Bytes) (ex : Int) :
    expTail c neg b ex =
      (let ds := (digitsSkip c c.exponentRadix (b.slc.drop b.index)).1
       let n := (digitsSkip c c.exponentRadix (b.slc.drop b.index)).2
       if ds.length = 0 then .error (.err "EmptyExponent" (b.index + n))
       else .ok ⟨advS c .exponent n ds.length b,
                 if neg then -(foldExponent c.exponentRadix 0 ds : Int) else (foldExponent c.exponentRadix 0 ds : Int),
                 ex + if neg then -(foldExponent c.exponentRadix 0 ds : Int) else (foldExponent c.exponentRadix 0 ds : Int)⟩) := by
  have hS := hA.sepClass
  unfold expTail
  simp only [parseDigits_skip c .exponent _ hA.debug hA.exp, bind, Except.bind, Bytes.currentCount, hS.bytes,
    Bool.false_eq_true, if_false, advS_count c .exponent _ _ _ hS.format (by decide), Nat.add_sub_cancel_left,
    hA.reqExp, Bool.true_and, advS_index, pure, Except.pure, decide_eq_true_eq]

theorem expTail_bi (c : Cfg) (hA : SkipAll c) (s : List Nat) (neg : Bool) (b b' : Bytes) (hr : StripRel c s b b')
    (hv : b.index ≤ s.length) (ex : Int) : BiE (ExpStrip c s) (expTail c neg b ex) (expTail c neg b' ex) := by
  have hS := hA.sepClass
  have hds := digitsSkip_strip c c.exponentRadix (b.slc.drop b.index)
  have hn' : NoSep c (b'.slc.drop b'.index) := by rw [hr.drop]; exact nonSep_noSep c _
  have hds' := digitsSkip_strip c c.exponentRadix (b'.slc.drop b'.index)
  rw [expTail_left c hA neg b ex, expTail_left c hA neg b' ex]
  have e1 : (digitsSkip c c.exponentRadix (b'.slc.drop b'.index)).1 = (digitsSkip c c.exponentRadix (b.slc.drop b.index)).1 := by
    rw [hds'.1, hds.1, hr.drop]
    congr 1
    simp only [nonSep, List.filter_filter, Bool.and_self]
  simp only [e1]
  have hle := digitsSkip_le c c.exponentRadix (b.slc.drop b.index)
  refine biE_ite ⟨?_, ?_, rfl, rfl, ?_⟩
  · simp only
    rw [digitsSkip_noSep c _ _ hn', e1, advS_same]
    exact hr.adv .exponent _ _ (by
      rw [hds.2.1, List.length_take]
      have := digitsPrefix_length_le c.exponentRadix (nonSep c (List.drop b.index b.slc))
      rw [hds.1]; omega)
  · intro x hx
    simp only [advS_slc, advS_index] at hx
    exact hds.2.2 x (by rw [List.getElem?_drop]; exact hx)
  · have := hle.1
    simp only [advS_index, List.length_drop, hr.1] at this ⊢; omega

theorem exponentPhase_eq (c : Cfg) (hasExp : Bool) (byte : Bytes) (fraction : Option (List Nat)) (exponent : Int) :
    exponentPhase c hasExp byte fraction exponent =
      if hasExp then
        byte.step c >>= fun byte =>
          if c.feats.format && c.noExponentNotation then .error (.err "InvalidExponent" (byte.index - 1))
          else if c.feats.format && c.noExponentWithoutFraction && fraction.isNone then
            .error (.err "ExponentWithoutFraction" (byte.index - 1))
          else parseExponentSign c byte >>= fun r => expTail c r.1 r.2 exponent
      else if c.feats.format && c.requiredExponentNotation then .error (.err "MissingExponent" byte.index)
      else pure ⟨byte, 0, exponent⟩ := by
  unfold exponentPhase expTail
  rfl

theorem exp_strip (c : Cfg) (hA : SkipAll c) (s : List Nat) (hasExp : Bool) (bC bP : Bytes) (hr : StripRel c s bC bP)
    (hN : Normal c bC) (hx : hasExp = true → ∃ x, bC.slc[bC.index]? = some x) (hv : bC.index ≤ s.length)
    (fr : Option (List Nat)) (ex : Int) :
    ImpE (ExpStrip c s) (exponentPhase c hasExp bC fr ex) (exponentPhase c hasExp bP (fr.map (nonSep c)) ex) := by
  have hS := hA.sepClass
  rw [exponentPhase_eq, exponentPhase_eq]
  cases hasExp
  · simp only [Bool.false_eq_true, if_false]
    intro a ha
    split at ha
    · cases ha
    · next hc =>
      simp only [pure, Except.pure, Except.ok.injEq] at ha
      subst ha
      simp only [hc, Bool.false_eq_true, if_false, pure, Except.pure]
      exact ⟨_, rfl, hr, hN, rfl, rfl, hv⟩
  · obtain ⟨x, hget⟩ := hx rfl
    have hr1 := hr.step1 x hget (hN x hget)
    simp only [if_true, step_release c hS.debug, bind, Except.bind, Option.isNone_map]
    intro a ha
    split at ha
    · cases ha
    · next hc1 =>
      split at ha
      · cases ha
      · next hc2 =>
        simp only [hc1, hc2, Bool.false_eq_true, if_false]
        unfold parseExponentSign at ha ⊢
        cases hps : parseSign c c.noPositiveExponentSign c.requiredExponentSign "InvalidPositiveExponentSign"
            "MissingExponentSign" { bC with index := bC.index + 1 } with
        | error e => simp [hps] at ha
        | ok r =>
          simp only [hps] at ha
          have hlt : bC.index < bC.slc.length := (List.getElem?_eq_some_iff.mp hget).1
          rcases parseSign_strip c hA s _ _ _ _ _ _ hr1 r hps with ⟨r', h1, h2, h3, h4⟩ | ⟨h1, y, hy, hsg⟩
          · simp only [h1, h2]
            have hv2 : r.2.index ≤ s.length := by
              have := h4 (by simp only; omega)
              simp only [hr.1] at this; exact this
            exact (expTail_bi c hA s r.1 r.2 r'.2 h3 hv2 ex).1 a ha
          · -- the left run saw no sign although one follows the separators: it finds no exponent digit
            exfalso
            rw [expTail_left c hA, h1] at ha
            have hds := digitsSkip_strip c c.exponentRadix
              (({ bC with index := bC.index + 1 } : Bytes).slc.drop ({ bC with index := bC.index + 1 } : Bytes).index)
            have hempty : (digitsSkip c c.exponentRadix
                (({ bC with index := bC.index + 1 } : Bytes).slc.drop ({ bC with index := bC.index + 1 } : Bytes).index)).1 = [] := by
              rw [hds.1]
              cases hl : nonSep c (({ bC with index := bC.index + 1 } : Bytes).slc.drop
                  ({ bC with index := bC.index + 1 } : Bytes).index) with
              | nil => rfl
              | cons z zs =>
                rw [hl] at hy
                simp only [List.head?_cons, Option.some.injEq] at hy
                subst hy
                have := charToDigit_sign c.exponentRadix hA.radixE
                rcases hsg with rfl | rfl <;> simp [digitsPrefix, this.1, this.2]
            simp only [hempty, List.length_nil, if_true] at ha
            cases ha

/-- the exponent phase, from the stripped run back to the run with separators -/
theorem exp_rev (c : Cfg) (hA : SkipAll c) (s : List Nat) (hasExp : Bool) (bC bP : Bytes) (hr : StripRel c s bC bP)
    (hN : Normal c bC) (hx : hasExp = true → ∃ x, bC.slc[bC.index]? = some x) (hv : bC.index ≤ s.length)
    (hP : NoSignAfterSep c { bC with index := bC.index + 1 }) (fr : Option (List Nat)) (ex : Int) :
    ImpE (fun ep' ep => ExpStrip c s ep ep') (exponentPhase c hasExp bP (fr.map (nonSep c)) ex)
      (exponentPhase c hasExp bC fr ex) := by
  have hS := hA.sepClass
  rw [exponentPhase_eq, exponentPhase_eq]
  cases hasExp
  · simp only [Bool.false_eq_true, if_false]
    intro a ha
    split at ha
    · cases ha
    · next hc =>
      simp only [pure, Except.pure, Except.ok.injEq] at ha
      subst ha
      simp only [hc, Bool.false_eq_true, if_false, pure, Except.pure]
      exact ⟨_, rfl, hr, hN, rfl, rfl, hv⟩
  · obtain ⟨x, hget⟩ := hx rfl
    have hr1 := hr.step1 x hget (hN x hget)
    have hlt : bC.index < bC.slc.length := (List.getElem?_eq_some_iff.mp hget).1
    simp only [if_true, step_release c hS.debug, bind, Except.bind, Option.isNone_map]
    intro a ha
    split at ha
    · cases ha
    · next hc1 =>
      split at ha
      · cases ha
      · next hc2 =>
        simp only [hc1, hc2, Bool.false_eq_true, if_false]
        unfold parseExponentSign at ha ⊢
        cases hps : parseSign c c.noPositiveExponentSign c.requiredExponentSign "InvalidPositiveExponentSign"
            "MissingExponentSign" { bP with index := bP.index + 1 } with
        | error e => simp [hps] at ha
        | ok r' =>
          simp only [hps] at ha
          obtain ⟨r, h1, h2, h3, h4⟩ := parseSign_strip_rev c hA s _ _ _ _ _ _ hr1 hP r' hps
          simp only [h1, ← h2]
          have hv2 : r.2.index ≤ s.length := by
            have := h4 (by simp only; omega)
            simp only [hr.1] at this; exact this
          exact (expTail_bi c hA s r'.1 r.2 r'.2 h3 hv2 ex).2 a ha

end LexVerif.Proof.Sep
