import LexVerif.Proof.WriteFloatBoundTop
/-!
# Proof.WriteFloatArith — the slice need of each decimal layout against `2 + E + D` (pure arithmetic)

`D` = significant-digit allowance, `E` = exponent/zero allowance of `buffer_size_const`, `B ≥ max (2 + E + D) 64`,
`S ≤ 1` sign byte, `nd` = slice demanded by the digit writer, `n0` = digits generated, `c` = digits kept,
`ex = max mn c` = digits after padding.
-/
namespace LexVerif.Proof.WriteFloatBound
open LexVerif.Spec LexVerif.Model LexVerif.Model.WriteFloat

theorem negC_arith (S k c ex E D B : Nat) (hS : S ≤ 1) (hk : k ≤ E) (hc : c ≤ D) (hex : ex ≤ D)
    (hB : 2 + E + D ≤ B) : S + needNegC k c ex ≤ B := by
  unfold needNegC needPad; split <;> omega

theorem posC_arith (S leading c ex1 ex E D B P : Nat) (trim : Bool) (hS : S ≤ 1) (hl : leading ≤ P + 1) (hP : P ≤ E)
    (hc : c ≤ D) (hex : ex ≤ D) (hex1 : ex1 ≤ max D (leading + 1)) (hB : 2 + E + D ≤ B) (hB64 : 64 ≤ B)
    (hsafe : 2 ≤ D ∨ P + 4 ≤ 64) : S + needPosC leading c trim ex1 ex ≤ B := by
  unfold needPosC needPad; repeat' split
  all_goals omega

theorem sciC_arith (fmt : Format) (feats : Features) (S c s nl E D B : Nat) (o : WOpts) (hcomp : feats.compact = true)
    (hS : S ≤ 1) (hs : s ≤ 1) (hnl : nl ≤ 3) (hc1 : 1 ≤ c) (hc : c ≤ D) (hex : minExactDigits c o ≤ D) (hE : 5 ≤ E)
    (hB : 2 + E + D ≤ B) (hB64 : 64 ≤ B) : S + needSciC fmt feats c o s nl ≤ B := by
  unfold needSciC needBody bodyCur needExp expNeed
  rw [if_pos hcomp]
  generalize minExactDigits c o = ex at hex ⊢
  repeat' split
  all_goals omega

theorem negN_arith (S nd n0 c k ex E D B : Nat) (carried trim : Bool) (hS : S ≤ 1) (hk1 : 1 ≤ k) (hk : k ≤ E) (hn0 : n0 ≤ nd)
    (hc1 : 1 ≤ c) (hc : c ≤ D) (hcn : c ≤ n0) (hex : ex ≤ D) (hcar : carried = true → c = 1)
    (hB : 2 + E + D ≤ B) (hB64 : 64 ≤ B) (hsafe : nd ≤ D ∨ k + 2 + nd ≤ 64) :
    S + needNegN nd n0 c carried trim k ex ≤ B := by
  unfold needNegN needPad
  by_cases h : carried = true
  · have := hcar h
    repeat' split
    all_goals omega
  · repeat' split
    all_goals omega

theorem posN_arith (S nd n0 c leading ex1 ex E D B P : Nat) (trim : Bool) (hS : S ≤ 1) (hl : leading ≤ P + 2) (hP : P ≤ E)
    (hn0 : n0 ≤ nd) (hnd : nd ≤ 20) (hc : c ≤ D) (hcn : c ≤ n0) (hex : ex ≤ D) (hex1 : ex1 ≤ max D (leading + 1))
    (hB : 2 + E + D ≤ B) (hB64 : 64 ≤ B) (hsafe : 3 ≤ D ∨ P + 5 ≤ 64) :
    S + needPosN nd n0 c leading trim ex1 ex ≤ B := by
  unfold needPosN needPad; repeat' split
  all_goals omega

theorem sciN_arith (fmt : Format) (feats : Features) (S nd n0 c s nl E D B : Nat) (o : WOpts)
    (hS : S ≤ 1) (hs : s ≤ 1) (hnl : nl ≤ 3) (hn0 : n0 ≤ nd) (hnd : nd ≤ 20) (hc1 : 1 ≤ c) (hc : c ≤ D) (hc17 : c ≤ 20)
    (hex : minExactDigits c o ≤ D) (hexm : minExactDigits c o ≤ max c (o.minDigits.getD 0)) (hE : 5 ≤ E)
    (hB : 2 + E + D ≤ B) (hB64 : 64 ≤ B) (hsafe : o.minDigits.getD 0 ≤ 50 ∨ 12 ≤ E) :
    S + needSciN fmt feats nd n0 c o s nl ≤ B := by
  unfold needSciN needBody bodyCur needExp expNeed
  generalize minExactDigits c o = ex at hex hexm ⊢
  generalize o.minDigits.getD 0 = mn at hexm hsafe
  repeat' split
  all_goals omega

end LexVerif.Proof.WriteFloatBound
