import LexVerif.Proof.SepEnable2
/-!
# Proof.SepEnable3 — the documented position rules for one component's part of the input (`PartEnabled`): every separator
is at a position its flags enable ⟹ the component's digit iterator, started at the beginning of the part, runs to the
terminator of the part
-/
set_option linter.unusedSimpArgs false
namespace LexVerif.Proof.Sep
open LexVerif LexVerif.Model LexVerif.Spec
open LexVerif.Props.C12

/-- the documented rule at a separator position `i`: a digit of the component before (through separators) and after it
— internal, needs I; only after — leading, needs L; only before — trailing, needs T; a separator next to it — needs C -/
def DocEnabledAt (c : Cfg) (fl : SepFlags) (s : List Nat) (i : Nat) : Prop :=
  FlagsEnable fl ((prevcByte c s i).any c.isDigit) ((nextcByte c s i).any c.isDigit)
    (!((s[i + 1]?).any c.isSep || (getPrev s i).any c.isSep))

/-- the part `[a, z)` of the input belongs to component `k` (digits in radix `r` and separators, terminated at `z` by a
byte that is neither — or the end —, preceded by a byte that is neither — or nothing), and every separator in it is at a
position the flags of `k` enable -/
structure PartEnabled (c : Cfg) (k : Comp) (r : Nat) (s : List Nat) (a z : Nat) : Prop where
  le : a ≤ z ∧ z ≤ s.length
  body : ∀ i, a ≤ i → i < z → ∀ x, s[i]? = some x →
    c.isSep x = true ∨ ((charToDigit x r).isSome = true ∧ c.isDigit x = true)
  term : ∀ x, s[z]? = some x → c.isSep x = false ∧ charToDigit x r = none ∧ c.isDigit x = false
  before : ∀ x, getPrev s a = some x → c.isDigit x = false ∧ c.isSep x = false
  enabled : ∀ i, a ≤ i → i < z → ∀ x, s[i]? = some x → c.isSep x = true → DocEnabledAt c (c.sepFlags k) s i

theorem firstNonSep_nonsep (c : Cfg) : ∀ (l : List Nat) (x : Nat), firstNonSep c l = some x → c.isSep x = false := by
  intro l
  induction l with
  | nil => intro x h; simp [firstNonSep] at h
  | cons y ys ih =>
    intro x h
    simp only [firstNonSep] at h
    split at h
    · exact ih x h
    · next hs => simp only [Option.some.injEq] at h; rw [← h]; simpa using hs

/-- facts about a neighbour that is not a separator, with `d` = "it is a digit" -/
theorem optFacts_self (c : Cfg) (o : Option Nat) (h : ∀ y, o = some y → c.isSep y = false) :
    OptFacts c o (o.any c.isDigit) := by
  cases o with
  | none => constructor <;> simp
  | some y =>
    have hs := h y rfl
    cases hd : c.isDigit y <;> constructor <;> simp [hd, hs]

theorem skip_pred_c (fl : SepFlags) (p : Pred) (h : fl.skip = .pred p) : p.consecutive = fl.c := by
  obtain ⟨i, l, t, cc⟩ := fl
  cases i <;> cases l <;> cases t <;> cases cc <;> simp [SepFlags.skip] at h <;> subst h <;> rfl

theorem skip_sepFlags (c : Cfg) (k : Comp) (p : Pred) (hks : k ≠ .special) (h : c.skip k = .pred p) :
    (c.sepFlags k).skip = .pred p := by
  cases k <;> first | exact absurd rfl hks | exact h

/-- **`PartEnabled` gives the hypotheses of `run_to_term`** -/
theorem partEnabled_run (c : Cfg) (k : Comp) (p : Pred) (hks : k ≠ .special) (hk : c.skip k = .pred p) (r : Nat)
    (hsepd : ∀ x, c.isSep x = true → c.isDigit x = false) (s : List Nat) (a z : Nat)
    (hP : PartEnabled c k r s a z) :
    (∀ i, a ≤ i → i < z → ∀ x, s[i]? = some x → c.isSep x = true →
      (i = a ∨ ∃ y, s[i - 1]? = some y ∧ c.isSep y = false) →
      p.holds c (nbr c s i) ((slice s a i).all c.isSep) = true) ∧
    (p.consecutive = false → ∀ i, a ≤ i → i + 1 < z → ∀ x y, s[i]? = some x → s[i + 1]? = some y →
      c.isSep x = true → c.isSep y = false) := by
  have hfl := skip_sepFlags c k p hks hk
  have hpc := skip_pred_c _ p hfl
  refine ⟨?_, ?_⟩
  · intro i hai hiz x hx hs hstart
    have hen := hP.enabled i hai hiz x hx hs
    unfold DocEnabledAt at hen
    -- the byte before the run: not a separator
    have hprevns : ∀ y, getPrev s i = some y → c.isSep y = false := by
      intro y hy
      rcases hstart with h | ⟨y2, hy2, hs2⟩
      · rw [h] at hy; exact (hP.before y hy).2
      · have hi0 : i ≠ 0 := by
          intro h0
          rw [h0] at hy2 hx
          simp only [Nat.zero_sub] at hy2
          rw [hx] at hy2; cases hy2
          rw [hs] at hs2; cases hs2
        simp only [getPrev, hi0, if_false] at hy
        rw [hy2] at hy; cases hy; exact hs2
    have hprevc : prevcByte c s i = getPrev s i := by
      cases i with
      | zero => simp [prevcByte, getPrev]
      | succ j =>
        simp only [prevcByte, getPrev, Nat.succ_ne_zero, if_false, Nat.add_sub_cancel]
        cases hv : s[j]? with
        | none => rfl
        | some y =>
          have := hprevns y (by simp [getPrev, hv])
          simp [this]
    have hnextns : ∀ y, nextcByte c s i = some y → c.isSep y = false := fun y hy => firstNonSep_nonsep c _ y hy
    have hadj : (getPrev s i).any c.isSep = false := by
      cases hg : getPrev s i with
      | none => rfl
      | some y => simp [hprevns y hg]
    rw [hadj, Bool.or_false] at hen
    -- the flag of `run_to_term`: no non-separator in `[a, i)` ⟺ the byte before is no digit
    have hflag : (slice s a i).all c.isSep = !((prevcByte c s i).any c.isDigit) := by
      rw [hprevc]
      by_cases hia : i = a
      · rw [hia, slice_self]
        cases hg : getPrev s a with
        | none => rfl
        | some y => simp [(hP.before y hg).1]
      · have hi0 : a < i := by omega
        obtain ⟨y, hy, hsy⟩ : ∃ y, s[i - 1]? = some y ∧ c.isSep y = false := by
          rcases hstart with h | h
          · exact absurd h hia
          · exact h
        have hg : getPrev s i = some y := by
          have hi0' : i ≠ 0 := by omega
          simp [getPrev, hi0', hy]
        rw [hg]
        have hyd : c.isDigit y = true := by
          rcases hP.body (i - 1) (by omega) (by omega) y hy with h | h
          · rw [hsy] at h; cases h
          · exact h.2
        have hmem : y ∈ slice s a i := by
          unfold slice
          apply List.mem_of_getElem? (i := i - 1 - a)
          rw [List.getElem?_take, if_pos (by omega), List.getElem?_drop]
          have : a + (i - 1 - a) = i - 1 := by omega
          rw [this]; exact hy
        have : (slice s a i).all c.isSep = false := by
          rw [List.all_eq_false]
          exact ⟨y, hmem, by simp [hsy]⟩
        simp [this, hyd]
    rw [hflag]
    apply enabled_holds c (c.sepFlags k) p hfl (nbr c s i) _ _ _ hen
    · have h1 := optFacts_self c (getPrev s i) hprevns
      simpa only [nbr, hprevc] using h1
    · simp only [nbr]; exact hprevc
    · simp only [nbr]; exact optFacts_self c _ hnextns
    · simp only [nbr]
      cases hn : s[i + 1]? with
      | none =>
        simp only [Option.any_none, Bool.not_false, if_true]
        simp [nextcByte, drop_of_none hn, firstNonSep]
      | some y =>
        cases hsy : c.isSep y with
        | false =>
          simp only [Option.any_some, hsy, Bool.not_false, if_true]
          simp [nextcByte, drop_of_get hn, firstNonSep, hsy]
        | true =>
          simp only [Option.any_some, hsy, Bool.not_true, Bool.false_eq_true, if_false]
          exact sepFacts_S c _ ⟨y, rfl, hsepd y hsy, hsy⟩
  · intro hnc i hai hiz x y hx hy hs
    have hen := hP.enabled i hai (by omega) x hx hs
    unfold DocEnabledAt at hen
    cases hsy : c.isSep y with
    | false => rfl
    | true =>
      exfalso
      have h5 := hen.2.2.2.2
      simp only [hy, Option.any_some, hsy, Bool.true_or, Bool.not_true] at h5
      have := h5 trivial
      rw [← hpc, hnc] at this; cases this

end LexVerif.Proof.Sep
