import LexVerif.Proof.ParseNumberC11SepLoops
/-!
# Proof.ParseNumberC11SepPhases — C11 (B) with digit separators: integer, fraction and exponent phase under truncation

`SepCfg c o` collects what the argument needs: release build with the `format` feature, the separator
byte is not a digit and matches neither the decimal point, the exponent character nor the base prefix / suffix (all implied by
a valid format with valid options, up to ASCII case folding of the exponent / prefix / suffix character).
`ExpRadixOK c` is the EXACT condition for the open defect "the exponent iterator tests look-ahead bytes with the
mantissa radix": if the exponent predicate can ask for a digit after the separator (i, il, ic, ilc), every
mantissa-radix digit is an exponent-radix digit. It is needed for number results only.
-/
set_option linter.unusedSectionVars false
set_option linter.unusedSimpArgs false
set_option linter.unusedVariables false
namespace LexVerif.Proof.C11
open LexVerif LexVerif.Model LexVerif.Spec
open LexVerif.Props.C12 (Bytes.Valid incCount_spec peek_spec)
open LexVerif.Proof.PNTotal (Rel Adv csum)

/-- hypotheses of the truncation argument for formats with digit separators -/
structure SepCfg (c : Cfg) (o : POpts) : Prop where
  rel : Rel c
  fmt : c.feats.format = true
  /-- there is a digit-separator byte (otherwise `partial_prefix_number` applies) -/
  bytes : c.bytesContiguous = false
  /-- builds without `power-of-two` only have radix 10 (what `is_valid_radix` enforces) -/
  rad : c.feats.powerOfTwo = false → c.mantissaRadix ≤ 10
  radix : 1 ≤ c.mantissaRadix
  /-- the separator is not a digit -/
  sepM : ∀ x, c.isSep x = true → charToDigit x c.mantissaRadix = none
  sepE : ∀ x, c.isSep x = true → charToDigit x c.exponentRadix = none
  /-- `is_digit` of the skip iterators (always the mantissa radix) agrees with the digit test of the mantissa loops -/
  digM : ∀ x, c.isDigit x = true → charToDigit x c.mantissaRadix ≠ none
  /-- the separator is no other punctuation -/
  dpSep : c.isSep o.dp = false
  expSep : ∀ x, c.isSep x = true → matchByte o.exp (c.caseSensitiveExponent && c.feats.format) (some x) = false
  sufSep : ∀ x, c.isSep x = true → matchByte c.baseSuffix c.caseSensitiveBaseSuffix (some x) = false
  preSep : ∀ x, c.isSep x = true → matchByte c.basePrefix c.caseSensitiveBasePrefix (some x) = false
  /-- the decimal point is not a mantissa digit -/
  dpDig : charToDigit o.dp c.mantissaRadix = none

/-- exact exclusion of the open defect: an exponent predicate that looks for a digit after the separator needs
mantissa digits ⊆ exponent digits -/
def ExpRadixOK (c : Cfg) : Prop :=
  DigitLook c .exponent → ∀ x, c.isDigit x = true → charToDigit x c.exponentRadix ≠ none

theorem cc_le_of_adv {c : Cfg} {b b' : Bytes} (h : Adv b b') :
    b'.currentCount c - b.currentCount c ≤ b'.index - b.index := by
  have h1 := h.cnt
  have h2 := h.mono
  unfold Bytes.currentCount
  simp only [csum] at h1
  split <;> omega

section
variable {c : Cfg} {o : POpts} (H : SepCfg c o)
include H

theorem sep48 : c.isSep 48 = false := by
  cases h : c.isSep 48 with
  | false => rfl
  | true =>
    have := H.sepM 48 h
    rw [charToDigit_48 _ H.radix] at this
    cases this

/-- the digit part shared by the integer and the fraction phase: `parse_8digits` then `parse_digits` -/
theorem digitsPass_truncS (k : Comp) (hk : k ≠ .special) (b0 b1 b2 : Bytes) (m0 m : Nat) (ds : List Nat)
    (hv : Bytes.Valid b0) (h8 : parse8Digits c k b0 m0 = .ok (m, b1))
    (hdg : parseDigits c k c.mantissaRadix b1 = .ok (ds, b2)) :
    b2.slc = b0.slc ∧ b0.index ≤ b2.index ∧ Bytes.Valid b2 ∧
    b2.currentCount c - b0.currentCount c ≤ b2.index - b0.index ∧
    (∀ ch, b0.slc[b2.index]? = some ch → charToDigit ch c.mantissaRadix = none) ∧
    ∀ n, Adm c k n b2 → parse8Digits c k (trunc n b0) m0 = .ok (m, trunc n b1) ∧
      parseDigits c k c.mantissaRadix (trunc n b1) = .ok (ds, trunc n b2) := by
  obtain ⟨a1, a2, a3, a4⟩ := parse8Digits_trunc_r H.rel k m0 b0 b1 m hv h8
  obtain ⟨d1, d2, d3, d4, d5⟩ := parseDigits_truncS H.rel k c.mantissaRadix H.sepM b1 b2 ds a3 hdg
  obtain ⟨m', b1', h8', adv1⟩ := PNTotal.parse8Digits_tot H.rel k b0 m0 hv
  rw [h8] at h8'
  simp only [Except.ok.injEq, Prod.mk.injEq] at h8'
  obtain ⟨_, rfl⟩ := h8'
  obtain ⟨ds', b2', hdg', adv2⟩ := PNTotal.parseDigits_tot H.rel k c.mantissaRadix b1 a3
  rw [hdg] at hdg'
  simp only [Except.ok.injEq, Prod.mk.injEq] at hdg'
  obtain ⟨_, rfl⟩ := hdg'
  refine ⟨by rw [d1, a1], by omega, d3, cc_le_of_adv (adv1.trans adv2), by rw [← a1]; exact d4, ?_⟩
  intro n ha
  have hn := ha.1
  exact ⟨a4 n (by omega), d5 n ha⟩

theorem isDigit_sepH (y : Nat) (hs : c.isSep y = true) : c.isDigit y = false := by
  cases hd : c.isDigit y with
  | false => rfl
  | true => exact absurd (H.sepM y hs) (H.digM y hd)

/-- the base-prefix phase (`0`, then the prefix character, both read through the integer iterator) under truncation.
A cut is admissible when it is admissible for the state the phase returns *if that state is a rest state of the
iterator* (it is one unless the prefix character was consumed), and lies behind the cursor when integer digits are
required (the `EmptyInteger` test looks at "end of buffer") -/
theorem prefixPhase_truncS (b b' : Bytes) (isP : Bool) (hv : Bytes.Valid b) (h : prefixPhase c b = .ok (isP, b')) :
    b'.slc = b.slc ∧ b.index ≤ b'.index ∧ Bytes.Valid b' ∧ b' = Bytes.at b b'.index ∧
    ∀ n, b'.index ≤ n → (peek c .integer b' = .ok (b'.slc[b'.index]?, b') → Adm c .integer n b') →
      (c.requiredIntegerDigits = true → b'.index < n) → prefixPhase c (trunc n b) = .ok (isP, trunc n b') := by
  unfold prefixPhase at h
  simp only [prefixRepair, Bool.false_eq_true, if_false] at h
  by_cases hfmt : (c.feats.format && c.basePrefix ≠ 0) = true
  · rw [if_pos hfmt] at h
    cases hr0 : readIfValueCased c .integer 48 b with
    | error e => simp [hr0, bind, Except.bind] at h
    | ok pr =>
      obtain ⟨z, b1⟩ := pr
      obtain ⟨r1, r2, r3, r4, r5, r6⟩ := readIfValueCased_truncS H.rel .integer 48 (sep48 H) b b1 z hv hr0
      simp only [hr0, bind, Except.bind] at h
      cases z with
      | false =>
        simp only [Bool.false_eq_true, if_false, pure, Except.pure, Except.ok.injEq, Prod.mk.injEq] at h
        obtain ⟨rfl, rfl⟩ := h
        obtain ⟨_, hpk⟩ := r5 rfl
        have hb1 : b1 = Bytes.at b b1.index := (peek_at c .integer b b1 _ hv hpk).1
        refine ⟨r1, r2, r3, hb1, ?_⟩
        intro n hn hadm _
        have hrest := peek_rest c H.rel .integer b b1 _ hv hpk (fun y hy => isDigit_sepH H y hy)
        rw [← r1] at hrest
        unfold prefixPhase
        simp only [prefixRepair, Bool.false_eq_true, if_false]
        rw [if_pos hfmt, r6 n (fun hh => Bool.noConfusion hh) (fun _ => hadm hrest)]
        simp only [bind, Except.bind, Bool.false_eq_true, if_false, pure, Except.pure]
      | true =>
        simp only [if_true] at h
        cases hr2 : readIfValue c .integer c.basePrefix c.caseSensitiveBasePrefix b1 with
        | error e => simp [hr2] at h
        | ok pr2 =>
          obtain ⟨hit, b2⟩ := pr2
          have hvs : ∀ y, matchByte c.basePrefix c.caseSensitiveBasePrefix (some y) = true → c.isSep y = false := by
            intro y hy
            cases hsy : c.isSep y with
            | false => rfl
            | true => rw [H.preSep y hsy] at hy; cases hy
          obtain ⟨q1, q2, q3, q4, q5, q6, q7⟩ :=
            readIfValue_truncS H.rel .integer c.basePrefix c.caseSensitiveBasePrefix hvs b1 b2 hit r3 hr2
          simp only [hr2] at h
          split at h
          · cases h
          · next hemp =>
            simp only [pure, Except.pure, Except.ok.injEq, Prod.mk.injEq] at h
            obtain ⟨rfl, rfl⟩ := h
            have hb2 : b2 = Bytes.at b b2.index := by
              have e1 : b1 = Bytes.at b b1.index := by
                have := bytes_eq_at b b1 r1
                -- counts: `read_if_value_cased` only moves the cursor
                cases hp : peek c .integer b with
                | error e => simp [readIfValueCased, hp, bind, Except.bind] at hr0
                | ok pr3 =>
                  obtain ⟨x, b0⟩ := pr3
                  have e0 := (peek_at c .integer b b0 x hv hp).1
                  rw [readIfValueCased_eqS H.rel .integer 48 b b0 x hp] at hr0
                  split at hr0
                  · simp only [Except.ok.injEq, Prod.mk.injEq] at hr0
                    rw [← hr0.2, e0]; rfl
                  · simp only [Except.ok.injEq, Prod.mk.injEq] at hr0
                    exact absurd hr0.1 (by simp)
              rw [q4, e1]; rfl
            refine ⟨by rw [q1, r1], by omega, q3, hb2, ?_⟩
            intro n hn hadm hreq
            have hlt0 := (r4 rfl).1
            unfold prefixPhase
            simp only [prefixRepair, Bool.false_eq_true, if_false]
            rw [if_pos hfmt, r6 n (fun _ => by omega) (fun hh => Bool.noConfusion hh)]
            simp only [bind, Except.bind, if_true]
            have hq7 : readIfValue c .integer c.basePrefix c.caseSensitiveBasePrefix (trunc n b1)
                = .ok (hit, trunc n b2) := by
              apply q7 n (fun _ => hn)
              intro hmiss
              have hpk := q6 hmiss
              have hrest := peek_rest c H.rel .integer b1 b2 _ r3 hpk (fun y hy => isDigit_sepH H y hy)
              rw [← q1] at hrest
              exact hadm hrest
            rw [hq7]
            simp only
            have hX : ¬ (hit && (trunc n b2).isBufferEmpty && c.requiredIntegerDigits) = true := by
              intro hall
              simp only [Bool.and_eq_true] at hall
              obtain ⟨⟨hh, he⟩, hq⟩ := hall
              have hlt := hreq hq
              apply hemp
              simp only [Bool.and_eq_true, hh, hq, and_true, true_and]
              simp only [Bytes.isBufferEmpty, trunc_slc, trunc_index, List.length_take, decide_eq_true_eq] at he ⊢
              omega
            rw [if_neg hX]
            rfl
  · rw [if_neg hfmt] at h
    simp only [pure, Except.pure, Except.ok.injEq, Prod.mk.injEq] at h
    obtain ⟨rfl, rfl⟩ := h
    refine ⟨rfl, Nat.le_refl _, hv, rfl, ?_⟩
    intro n _ _ _
    unfold prefixPhase
    simp only [prefixRepair, Bool.false_eq_true, if_false]
    rw [if_neg hfmt]
    rfl

/-- when the integer iterator does not return `'0'`, the base-prefix phase reads nothing: it returns the state after
that `peek` (a base prefix is configured) or the state it was given -/
theorem prefixPhase_miss (b b1 : Bytes) (v : Option Nat) (hp : peek c .integer b = .ok (v, b1)) (hv48 : v ≠ some 48) :
    prefixPhase c b = .ok (false, if (c.feats.format && c.basePrefix ≠ 0) = true then b1 else b) := by
  unfold prefixPhase
  simp only [prefixRepair, Bool.false_eq_true, if_false]
  by_cases hfmt : (c.feats.format && c.basePrefix ≠ 0) = true
  · rw [if_pos hfmt, if_pos hfmt, readIfValueCased_eqS H.rel .integer 48 b b1 v hp, if_neg hv48]
    simp only [bind, Except.bind, Bool.false_eq_true, if_false, pure, Except.pure]
  · rw [if_neg hfmt, if_neg hfmt]
    rfl

/-- a rest state of the integer iterator from which the digit pass was started accepts every cut the end state of the
pass accepts -/
theorem adm_start (b0 b1 b2 : Bytes) (m : Nat) (ds : List Nat) (hv : Bytes.Valid b0)
    (h8 : parse8Digits c .integer b0 0 = .ok (m, b1))
    (hdg : parseDigits c .integer c.mantissaRadix b1 = .ok (ds, b2))
    (hrest : peek c .integer b0 = .ok (b0.slc[b0.index]?, b0)) (n : Nat) (ha : Adm c .integer n b2) :
    Adm c .integer n b0 := by
  obtain ⟨q1, q2, q3, q4, q5, q6⟩ := digitsPass_truncS H .integer (by decide) b0 b1 b2 0 m ds hv h8 hdg
  have hn := ha.1
  refine ⟨by omega, fun x hx => ⟨fun hsx => ?_, fun hdl hdx => ?_⟩⟩
  · -- resting on a separator: the pass does not move
    have e1 : b1 = b0 := parse8Digits_stuck .integer b0 b1 0 m x hx (H.sepM x hsx) H.rad h8
    subst e1
    unfold parseDigits at hdg
    rw [parseDigitsLoop] at hdg
    simp only [hrest, hx, bind, Except.bind, pure, Except.pure, H.sepM x hsx, Except.ok.injEq, Prod.mk.injEq] at hdg
    have := (ha.2 x (by rw [← hdg.2]; exact hx)).1 hsx
    rw [← hdg.2] at this
    exact this
  · -- resting on a digit the predicate may look for: the pass consumes it
    obtain ⟨p, hp, _⟩ := hdl
    have hnc := iterContiguous_of_pred c .integer p hp
    have e8 : parse8Digits c .integer b0 0 = .ok (0, b0) := by
      unfold parse8Digits canMultidigit
      simp only [hnc, Bool.false_and, Bool.false_eq_true, if_false, pure, Except.pure, ite_self]
    rw [e8] at h8
    simp only [Except.ok.injEq, Prod.mk.injEq] at h8
    obtain ⟨_, rfl⟩ := h8
    unfold parseDigits at hdg
    rw [parseDigitsLoop] at hdg
    simp only [hrest, hx, bind, Except.bind, pure, Except.pure] at hdg
    cases hd : charToDigit x c.mantissaRadix with
    | none => exact absurd hd (H.digM x hdx)
    | some d =>
      simp only [hd, iterStep_r H.rel] at hdg
      cases hrec : parseDigitsLoop c .integer c.mantissaRadix b0.slc.length
          ((Bytes.at b0 (b0.index + 1)).incCount c .integer) with
      | error e => simp [hrec] at hdg
      | ok pr =>
        obtain ⟨ds2, b3⟩ := pr
        simp only [hrec, Except.ok.injEq, Prod.mk.injEq] at hdg
        have hlt : b0.index < b0.slc.length := (List.getElem?_eq_some_iff.mp hx).1
        have hvn : Bytes.Valid ((Bytes.at b0 (b0.index + 1)).incCount c .integer) := by
          simp only [Bytes.Valid, incCount_slc, incCount_index, at_index, at_slc]; omega
        have hmono := (parseDigitsLoop_truncS H.rel .integer c.mantissaRadix H.sepM _ _ _ _ hvn hrec).2.1
        simp only [incCount_index, at_index] at hmono
        rw [hdg.2] at hmono
        omega

theorem integerPhase_truncS (b : Bytes) (ip : IntPart) (hv : Bytes.Valid b) (h : integerPhase c b = .ok ip) :
    (ip.start.slc = b.slc ∧ b.index ≤ ip.start.index ∧ Bytes.Valid ip.start ∧ ip.start = Bytes.at b ip.start.index ∧
      prefixPhase c b = .ok (ip.isPrefix, ip.start)) ∧
    (∃ m b1 ds, parse8Digits c .integer ip.start 0 = .ok (m, b1) ∧
      parseDigits c .integer c.mantissaRadix b1 = .ok (ds, ip.byte)) ∧
    ip.byte.slc = b.slc ∧ ip.start.index ≤ ip.byte.index ∧ Bytes.Valid ip.byte ∧
    ip.nDigits = ip.byte.currentCount c - ip.start.currentCount c ∧ ip.nDigits ≤ ip.byte.index - ip.start.index ∧
    (∀ ch, b.slc[ip.byte.index]? = some ch → charToDigit ch c.mantissaRadix = none) ∧
    ∀ n, Adm c .integer n ip.byte →
      integerPhase c (trunc n b) = .ok { ip with start := trunc n ip.start, byte := trunc n ip.byte } := by
  unfold integerPhase at h
  simp only [bind, Except.bind, pure, Except.pure] at h
  cases hpp : prefixPhase c b with
  | error e => simp [hpp] at h
  | ok pp =>
    obtain ⟨isP, b0⟩ := pp
    obtain ⟨p1, p2, p3, p4, p5⟩ := prefixPhase_truncS H b b0 isP hv hpp
    simp only [hpp] at h
    cases h8 : parse8Digits c .integer b0 0 with
    | error e => simp [h8] at h
    | ok p8 =>
      obtain ⟨m, b1⟩ := p8
      simp only [h8] at h
      cases hdg : parseDigits c .integer c.mantissaRadix b1 with
      | error e => simp [hdg] at h
      | ok pd =>
        obtain ⟨ds, b2⟩ := pd
        obtain ⟨q1, q2, q3, q4, q5, q6⟩ := digitsPass_truncS H .integer (by decide) b0 b1 b2 0 m ds p3 h8 hdg
        simp only [hdg] at h
        split at h
        · cases h
        · next hreq =>
          obtain ⟨j, hjle, hjdef⟩ : ∃ j, j ≤ b2.index - b0.index ∧
              (if (c.feats.format && !c.iterContiguous Comp.integer) = true then b2.index - b0.index
                else Bytes.currentCount c b2 - Bytes.currentCount c b0) = j := ⟨_, by split <;> omega, rfl⟩
          rw [hjdef] at h
          cases hsl : sliceTo c b0 j "integer get_unchecked(..b_digits)" with
          | error e => simp [hsl] at h
          | ok sl =>
            simp only [hsl] at h
            split at h
            · cases h
            · next hlz =>
              simp only [Except.ok.injEq] at h
              subst h
              refine ⟨⟨p1, p2, p3, p4, rfl⟩, ⟨m, b1, ds, h8, hdg⟩, by rw [q1, p1], q2, q3, rfl, q4,
                by rw [← p1]; exact q5, ?_⟩
              intro n ha
              have hn := ha.1
              simp only at hn ha
              obtain ⟨t1, t2⟩ := q6 n ha
              have hpre : c.requiredIntegerDigits = true → b0.index < n := by
                intro hri
                have hfm := requiredIntegerDigits_format hri
                simp only [hfm, hri, Bool.and_self, Bool.true_and, decide_eq_true_eq] at hreq
                omega
              have hpt := p5 n (by omega)
                (fun hrest => adm_start H b0 b1 b2 m ds p3 h8 hdg hrest n ha) hpre
              unfold integerPhase
              simp only [hpt, bind, Except.bind, pure, Except.pure, t1, t2, trunc_index, trunc_currentCount]
              rw [if_neg hreq, hjdef]
              rw [sliceTo_trunc_r H.rel b0 _ n _ sl hsl (by omega)]
              simp only
              rw [if_neg hlz]

theorem fractionPhase_truncS (b : Bytes) (m0 : Nat) (fp : FracPart) (hv : Bytes.Valid b)
    (h : fractionPhase c o b m0 = .ok fp) :
    fp.byte.slc = b.slc ∧ b.index ≤ fp.byte.index ∧ Bytes.Valid fp.byte ∧
    fp.nAfterDot ≤ fp.byte.index - b.index ∧
    (b.firstIsCased o.dp = true →
      b.index + 1 ≤ fp.byte.index ∧ fp.hasDecimal = true ∧
      fp.nAfterDot = fp.byte.currentCount c - (Bytes.at b (b.index + 1)).currentCount c ∧
      (∃ m b1 ds, parse8Digits c .fraction (Bytes.at b (b.index + 1)) m0 = .ok (m, b1) ∧
        parseDigits c .fraction c.mantissaRadix b1 = .ok (ds, fp.byte)) ∧
      ∀ ch, b.slc[fp.byte.index]? = some ch → charToDigit ch c.mantissaRadix = none) ∧
    (¬ b.firstIsCased o.dp = true → fp.byte = b ∧ fp.nAfterDot = 0 ∧ fp.fraction = none) ∧
    ∀ n, fp.byte.index ≤ n → (b.firstIsCased o.dp = true → Adm c .fraction n fp.byte) →
      fractionPhase c o (trunc n b) m0 = .ok { fp with byte := trunc n fp.byte } := by
  unfold fractionPhase at h
  by_cases hdp : b.firstIsCased o.dp = true
  · rw [if_pos hdp] at h
    have hfirst : b.first = some o.dp := by simpa [Bytes.firstIsCased] using hdp
    have hlt := first_some_lt b _ hfirst
    simp only [step_r H.rel, bind, Except.bind, pure, Except.pure] at h
    have hv0 : Bytes.Valid (Bytes.at b (b.index + 1)) := by simp only [Bytes.Valid, at_index, at_slc]; omega
    cases h8 : parse8Digits c .fraction (Bytes.at b (b.index + 1)) m0 with
    | error e => simp [h8] at h
    | ok p8 =>
      obtain ⟨m, b1⟩ := p8
      simp only [h8] at h
      cases hdg : parseDigits c .fraction c.mantissaRadix b1 with
      | error e => simp [hdg] at h
      | ok pd =>
        obtain ⟨ds, b2⟩ := pd
        obtain ⟨q1, q2, q3, q4, q5, q6⟩ := digitsPass_truncS H .fraction (by decide) _ b1 b2 m0 m ds hv0 h8 hdg
        simp only [at_index, at_slc] at q1 q2 q4 q5
        simp only [hdg] at h
        obtain ⟨j, hjle, hjdef⟩ : ∃ j, j ≤ b2.index - (b.index + 1) ∧
            (if (c.feats.format && !c.iterContiguous Comp.fraction) = true then b2.index - (Bytes.at b (b.index + 1)).index
              else Bytes.currentCount c b2 - Bytes.currentCount c (Bytes.at b (b.index + 1))) = j :=
          ⟨_, by simp only [at_index]; split <;> omega, rfl⟩
        rw [hjdef] at h
        cases hsl : sliceTo c (Bytes.at b (b.index + 1)) j "fraction get_unchecked(..b_after_dot)" with
        | error e => simp [hsl] at h
        | ok sl =>
          simp only [hsl] at h
          cases hsc : scaleExponent c (-((b2.currentCount c - (Bytes.at b (b.index + 1)).currentCount c : Nat) : Int)) with
          | error e => simp [hsc] at h
          | ok ex =>
            simp only [hsc] at h
            split at h
            · cases h
            · next hreq =>
              simp only [Except.ok.injEq] at h
              subst h
              refine ⟨q1, by simp only; omega, q3, by simp only; omega,
                fun _ => ⟨by simp only; omega, rfl, rfl, ⟨m, b1, ds, rfl, hdg⟩, q5⟩, fun hne => absurd hdp hne, ?_⟩
              intro n hn ha
              have ha := ha hdp
              simp only at hn ha
              obtain ⟨t1, t2⟩ := q6 n ha
              unfold fractionPhase
              have hf2 : (trunc n b).firstIsCased o.dp = true := by
                simp only [Bytes.firstIsCased, first_trunc, show b.index < n by omega, if_true, hfirst,
                  beq_self_eq_true]
              rw [if_pos hf2]
              simp only [step_r H.rel, bind, Except.bind, pure, Except.pure, trunc_index]
              rw [← trunc_at, t1]
              simp only
              rw [t2]
              simp only [trunc_index, trunc_currentCount]
              rw [hjdef]
              rw [sliceTo_trunc_r H.rel (Bytes.at b (b.index + 1)) _ n _ sl hsl
                (by simp only [at_index]; omega)]
              simp only [hsc]
              rw [if_neg hreq]
  · rw [if_neg hdp] at h
    simp only [pure, Except.pure, Except.ok.injEq] at h
    subst h
    refine ⟨rfl, Nat.le_refl _, hv, by simp, fun hh => absurd hh hdp, fun _ => ⟨rfl, rfl, rfl⟩, ?_⟩
    intro n hn _
    unfold fractionPhase
    have hf2 : ¬ (trunc n b).firstIsCased o.dp = true := by
      simp only [Bytes.firstIsCased, first_trunc] at hdp ⊢
      split
      · exact hdp
      · simp
    rw [if_neg hf2]
    rfl

theorem exponentPhase_truncS (he : Bool) (b : Bytes) (fr : Option (List Nat)) (ex : Int) (ep : ExpPart)
    (hv : Bytes.Valid b) (hlt : he = true → b.index < b.slc.length)
    (h : exponentPhase c he b fr ex = .ok ep) :
    ep.byte.slc = b.slc ∧ b.index ≤ ep.byte.index ∧ Bytes.Valid ep.byte ∧
    (he = true → b.index + 1 ≤ ep.byte.index ∧
      ∀ ch, b.slc[ep.byte.index]? = some ch → charToDigit ch c.exponentRadix = none) ∧
    (he = false → ep.byte = b) ∧
    ∀ n, ep.byte.index ≤ n → (he = true → Adm c .exponent n ep.byte) →
      exponentPhase c he (trunc n b) fr ex = .ok { ep with byte := trunc n ep.byte } := by
  unfold exponentPhase at h
  cases he with
  | false =>
    simp only [Bool.false_eq_true, if_false] at h
    split at h
    · cases h
    · next hren =>
      simp only [pure, Except.pure, Except.ok.injEq] at h
      subst h
      refine ⟨rfl, Nat.le_refl _, hv, by simp, fun _ => rfl, ?_⟩
      intro n _ _
      unfold exponentPhase
      simp only [Bool.false_eq_true, if_false]
      rw [if_neg hren]
      rfl
  | true =>
    have hlt := hlt rfl
    simp only [if_true, step_r H.rel, bind, Except.bind, pure, Except.pure] at h
    have hv0 : Bytes.Valid (Bytes.at b (b.index + 1)) := by simp only [Bytes.Valid, at_index, at_slc]; omega
    split at h
    · cases h
    · next hnen =>
      split at h
      · cases h
      · next hnewf =>
        cases hs : parseExponentSign c (Bytes.at b (b.index + 1)) with
        | error e => simp [hs] at h
        | ok ps =>
          obtain ⟨ng, b1⟩ := ps
          obtain ⟨a1, a2, a3, a4⟩ := parseSign_trunc_r H.rel _ _ _ _ _ b1 ng hv0 hs
          simp only [hs] at h
          cases hdg : parseDigits c .exponent c.exponentRadix b1 with
          | error e => simp [hdg] at h
          | ok pd =>
            obtain ⟨ds, b2⟩ := pd
            obtain ⟨d1, d2, d3, d4, d5⟩ := parseDigits_truncS H.rel .exponent c.exponentRadix H.sepE b1 b2 ds a3 hdg
            simp only [hdg] at h
            split at h
            · cases h
            · next hreq =>
              simp only [Except.ok.injEq] at h
              subst h
              simp only [at_index, at_slc] at a1 a2
              refine ⟨by rw [d1, a1], by simp only; omega, d3,
                fun _ => ⟨by simp only; omega, by rw [← a1]; exact d4⟩, fun hh => Bool.noConfusion hh, ?_⟩
              intro n hn ha
              have ha := ha rfl
              simp only at hn ha
              unfold exponentPhase
              simp only [if_true, step_r H.rel, bind, Except.bind, pure, Except.pure, trunc_index, at_index]
              rw [if_neg hnen, if_neg hnewf]
              have t1 := a4 n (by omega)
              rw [← trunc_at]
              unfold parseExponentSign at hs ⊢
              rw [t1]
              simp only
              rw [d5 n ha]
              simp only [trunc_index, trunc_currentCount]
              rw [if_neg hreq]

end
end LexVerif.Proof.C11
