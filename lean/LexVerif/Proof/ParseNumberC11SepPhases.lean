import LexVerif.Proof.ParseNumberC11SepLoops
/-!
# Proof.ParseNumberC11SepPhases — C11 (B) with digit separators: integer, fraction and exponent phase under truncation

`SepCfg c o` collects what the argument needs: release build with the `format` feature, no base prefix, the separator
byte is not a digit and matches neither the decimal point, the exponent character nor the base suffix (all implied by
a valid format with valid options, up to ASCII case folding of the exponent / suffix character), and the EXACT
condition for the open defect "the exponent iterator tests look-ahead bytes with the mantissa radix":
`digE` — if the exponent predicate can ask for a digit after the separator (i, il, ic, ilc), every mantissa-radix digit
is an exponent-radix digit.
-/
set_option linter.unusedSectionVars false
set_option linter.unusedSimpArgs false
set_option linter.unusedVariables false
namespace LexVerif.Proof.C11
open LexVerif LexVerif.Model LexVerif.Spec
open LexVerif.Props.C12 (Bytes.Valid incCount_spec peek_spec)
open LexVerif.Proof.PNTotal (Rel Adv csum)

/-- hypotheses of the truncation argument for formats with digit separators -/
structure SepCfg (c : Cfg) (o : POpts) : Prop where
  rel : Rel c
  fmt : c.feats.format = true
  /-- there is a digit-separator byte (otherwise `partial_prefix_number` applies) -/
  bytes : c.bytesContiguous = false
  /-- builds without `power-of-two` only have radix 10 (what `is_valid_radix` enforces) -/
  rad : c.feats.powerOfTwo = false → c.mantissaRadix ≤ 10
  noPrefix : c.basePrefix = 0
  radix : 1 ≤ c.mantissaRadix
  /-- the separator is not a digit -/
  sepM : ∀ x, c.isSep x = true → charToDigit x c.mantissaRadix = none
  sepE : ∀ x, c.isSep x = true → charToDigit x c.exponentRadix = none
  /-- `is_digit` of the skip iterators (always the mantissa radix) agrees with the digit test of the mantissa loops -/
  digM : ∀ x, c.isDigit x = true → charToDigit x c.mantissaRadix ≠ none
  /-- exact exclusion of the open defect: an exponent predicate that looks for a digit needs mantissa digits ⊆ exponent digits -/
  digE : DigitLook c .exponent → ∀ x, c.isDigit x = true → charToDigit x c.exponentRadix ≠ none
  /-- the separator is no other punctuation -/
  dpSep : c.isSep o.dp = false
  expSep : ∀ x, c.isSep x = true → matchByte o.exp (c.caseSensitiveExponent && c.feats.format) (some x) = false
  sufSep : ∀ x, c.isSep x = true → matchByte c.baseSuffix c.caseSensitiveBaseSuffix (some x) = false
  /-- the decimal point is not a mantissa digit -/
  dpDig : charToDigit o.dp c.mantissaRadix = none

theorem prefixPhase_noneS (c : Cfg) (h : c.basePrefix = 0) (b : Bytes) : prefixPhase c b = .ok (false, b) := by
  simp [prefixPhase, h, pure, Except.pure]

theorem cc_le_of_adv {c : Cfg} {b b' : Bytes} (h : Adv b b') :
    b'.currentCount c - b.currentCount c ≤ b'.index - b.index := by
  have h1 := h.cnt
  have h2 := h.mono
  unfold Bytes.currentCount
  simp only [csum] at h1
  split <;> omega

section
variable {c : Cfg} {o : POpts} (H : SepCfg c o)
include H

theorem sep48 : c.isSep 48 = false := by
  cases h : c.isSep 48 with
  | false => rfl
  | true =>
    have := H.sepM 48 h
    rw [charToDigit_48 _ H.radix] at this
    cases this

/-- the digit part shared by the integer and the fraction phase: `parse_8digits` then `parse_digits` -/
theorem digitsPass_truncS (k : Comp) (hk : k ≠ .special) (b0 b1 b2 : Bytes) (m0 m : Nat) (ds : List Nat)
    (hv : Bytes.Valid b0) (h8 : parse8Digits c k b0 m0 = .ok (m, b1))
    (hdg : parseDigits c k c.mantissaRadix b1 = .ok (ds, b2)) :
    b2.slc = b0.slc ∧ b0.index ≤ b2.index ∧ Bytes.Valid b2 ∧
    b2.currentCount c - b0.currentCount c ≤ b2.index - b0.index ∧
    (∀ ch, b0.slc[b2.index]? = some ch → charToDigit ch c.mantissaRadix = none) ∧
    ∀ n, Adm c k n b2 → parse8Digits c k (trunc n b0) m0 = .ok (m, trunc n b1) ∧
      parseDigits c k c.mantissaRadix (trunc n b1) = .ok (ds, trunc n b2) := by
  obtain ⟨a1, a2, a3, a4⟩ := parse8Digits_trunc_r H.rel k m0 b0 b1 m hv h8
  obtain ⟨d1, d2, d3, d4, d5⟩ := parseDigits_truncS H.rel k c.mantissaRadix H.sepM b1 b2 ds a3 hdg
  obtain ⟨m', b1', h8', adv1⟩ := PNTotal.parse8Digits_tot H.rel k b0 m0 hv
  rw [h8] at h8'
  simp only [Except.ok.injEq, Prod.mk.injEq] at h8'
  obtain ⟨_, rfl⟩ := h8'
  obtain ⟨ds', b2', hdg', adv2⟩ := PNTotal.parseDigits_tot H.rel k c.mantissaRadix b1 a3
  rw [hdg] at hdg'
  simp only [Except.ok.injEq, Prod.mk.injEq] at hdg'
  obtain ⟨_, rfl⟩ := hdg'
  refine ⟨by rw [d1, a1], by omega, d3, cc_le_of_adv (adv1.trans adv2), by rw [← a1]; exact d4, ?_⟩
  intro n ha
  have hn := ha.1
  exact ⟨a4 n (by omega), d5 n ha⟩

theorem integerPhase_truncS (b : Bytes) (ip : IntPart) (hv : Bytes.Valid b) (h : integerPhase c b = .ok ip) :
    ip.start = b ∧ ip.isPrefix = false ∧
    (∃ m b1 ds, parse8Digits c .integer b 0 = .ok (m, b1) ∧
      parseDigits c .integer c.mantissaRadix b1 = .ok (ds, ip.byte)) ∧
    ip.byte.slc = b.slc ∧ b.index ≤ ip.byte.index ∧ Bytes.Valid ip.byte ∧
    ip.nDigits = ip.byte.currentCount c - b.currentCount c ∧ ip.nDigits ≤ ip.byte.index - b.index ∧
    (∀ ch, b.slc[ip.byte.index]? = some ch → charToDigit ch c.mantissaRadix = none) ∧
    ∀ n, Adm c .integer n ip.byte →
      integerPhase c (trunc n b) = .ok { ip with start := trunc n ip.start, byte := trunc n ip.byte } := by
  unfold integerPhase at h
  simp only [prefixPhase_noneS c H.noPrefix, bind, Except.bind, pure, Except.pure] at h
  cases h8 : parse8Digits c .integer b 0 with
  | error e => simp [h8] at h
  | ok p8 =>
    obtain ⟨m, b1⟩ := p8
    simp only [h8] at h
    cases hdg : parseDigits c .integer c.mantissaRadix b1 with
    | error e => simp [hdg] at h
    | ok pd =>
      obtain ⟨ds, b2⟩ := pd
      obtain ⟨q1, q2, q3, q4, q5, q6⟩ := digitsPass_truncS H .integer (by decide) b b1 b2 0 m ds hv h8 hdg
      simp only [hdg] at h
      split at h
      · cases h
      · next hreq =>
        obtain ⟨j, hjle, hjdef⟩ : ∃ j, j ≤ b2.index - b.index ∧
            (if (c.feats.format && !c.iterContiguous Comp.integer) = true then b2.index - b.index
              else Bytes.currentCount c b2 - Bytes.currentCount c b) = j := ⟨_, by split <;> omega, rfl⟩
        rw [hjdef] at h
        cases hsl : sliceTo c b j "integer get_unchecked(..b_digits)" with
        | error e => simp [hsl] at h
        | ok sl =>
          simp only [hsl] at h
          split at h
          · cases h
          · next hlz =>
            simp only [Except.ok.injEq] at h
            subst h
            refine ⟨rfl, rfl, ⟨m, b1, ds, rfl, hdg⟩, q1, q2, q3, rfl, q4, q5, ?_⟩
            intro n ha
            have hn := ha.1
            simp only at hn
            obtain ⟨t1, t2⟩ := q6 n ha
            unfold integerPhase
            simp only [prefixPhase_noneS c H.noPrefix, bind, Except.bind, pure, Except.pure, t1, t2, trunc_index,
              trunc_currentCount]
            rw [if_neg hreq, hjdef]
            rw [sliceTo_trunc_r H.rel b _ n _ sl hsl (by omega)]
            simp only
            rw [if_neg hlz]

theorem fractionPhase_truncS (b : Bytes) (m0 : Nat) (fp : FracPart) (hv : Bytes.Valid b)
    (h : fractionPhase c o b m0 = .ok fp) :
    fp.byte.slc = b.slc ∧ b.index ≤ fp.byte.index ∧ Bytes.Valid fp.byte ∧
    fp.nAfterDot ≤ fp.byte.index - b.index ∧
    (b.firstIsCased o.dp = true →
      b.index + 1 ≤ fp.byte.index ∧ fp.hasDecimal = true ∧
      fp.nAfterDot = fp.byte.currentCount c - (Bytes.at b (b.index + 1)).currentCount c ∧
      (∃ m b1 ds, parse8Digits c .fraction (Bytes.at b (b.index + 1)) m0 = .ok (m, b1) ∧
        parseDigits c .fraction c.mantissaRadix b1 = .ok (ds, fp.byte)) ∧
      ∀ ch, b.slc[fp.byte.index]? = some ch → charToDigit ch c.mantissaRadix = none) ∧
    (¬ b.firstIsCased o.dp = true → fp.byte = b ∧ fp.nAfterDot = 0 ∧ fp.fraction = none) ∧
    ∀ n, fp.byte.index ≤ n → (b.firstIsCased o.dp = true → Adm c .fraction n fp.byte) →
      fractionPhase c o (trunc n b) m0 = .ok { fp with byte := trunc n fp.byte } := by
  unfold fractionPhase at h
  by_cases hdp : b.firstIsCased o.dp = true
  · rw [if_pos hdp] at h
    have hfirst : b.first = some o.dp := by simpa [Bytes.firstIsCased] using hdp
    have hlt := first_some_lt b _ hfirst
    simp only [step_r H.rel, bind, Except.bind, pure, Except.pure] at h
    have hv0 : Bytes.Valid (Bytes.at b (b.index + 1)) := by simp only [Bytes.Valid, at_index, at_slc]; omega
    cases h8 : parse8Digits c .fraction (Bytes.at b (b.index + 1)) m0 with
    | error e => simp [h8] at h
    | ok p8 =>
      obtain ⟨m, b1⟩ := p8
      simp only [h8] at h
      cases hdg : parseDigits c .fraction c.mantissaRadix b1 with
      | error e => simp [hdg] at h
      | ok pd =>
        obtain ⟨ds, b2⟩ := pd
        obtain ⟨q1, q2, q3, q4, q5, q6⟩ := digitsPass_truncS H .fraction (by decide) _ b1 b2 m0 m ds hv0 h8 hdg
        simp only [at_index, at_slc] at q1 q2 q4 q5
        simp only [hdg] at h
        obtain ⟨j, hjle, hjdef⟩ : ∃ j, j ≤ b2.index - (b.index + 1) ∧
            (if (c.feats.format && !c.iterContiguous Comp.fraction) = true then b2.index - (Bytes.at b (b.index + 1)).index
              else Bytes.currentCount c b2 - Bytes.currentCount c (Bytes.at b (b.index + 1))) = j :=
          ⟨_, by simp only [at_index]; split <;> omega, rfl⟩
        rw [hjdef] at h
        cases hsl : sliceTo c (Bytes.at b (b.index + 1)) j "fraction get_unchecked(..b_after_dot)" with
        | error e => simp [hsl] at h
        | ok sl =>
          simp only [hsl] at h
          cases hsc : scaleExponent c (-((b2.currentCount c - (Bytes.at b (b.index + 1)).currentCount c : Nat) : Int)) with
          | error e => simp [hsc] at h
          | ok ex =>
            simp only [hsc] at h
            split at h
            · cases h
            · next hreq =>
              simp only [Except.ok.injEq] at h
              subst h
              refine ⟨q1, by simp only; omega, q3, by simp only; omega,
                fun _ => ⟨by simp only; omega, rfl, rfl, ⟨m, b1, ds, rfl, hdg⟩, q5⟩, fun hne => absurd hdp hne, ?_⟩
              intro n hn ha
              have ha := ha hdp
              simp only at hn ha
              obtain ⟨t1, t2⟩ := q6 n ha
              unfold fractionPhase
              have hf2 : (trunc n b).firstIsCased o.dp = true := by
                simp only [Bytes.firstIsCased, first_trunc, show b.index < n by omega, if_true, hfirst,
                  beq_self_eq_true]
              rw [if_pos hf2]
              simp only [step_r H.rel, bind, Except.bind, pure, Except.pure, trunc_index]
              rw [← trunc_at, t1]
              simp only
              rw [t2]
              simp only [trunc_index, trunc_currentCount]
              rw [hjdef]
              rw [sliceTo_trunc_r H.rel (Bytes.at b (b.index + 1)) _ n _ sl hsl
                (by simp only [at_index]; omega)]
              simp only [hsc]
              rw [if_neg hreq]
  · rw [if_neg hdp] at h
    simp only [pure, Except.pure, Except.ok.injEq] at h
    subst h
    refine ⟨rfl, Nat.le_refl _, hv, by simp, fun hh => absurd hh hdp, fun _ => ⟨rfl, rfl, rfl⟩, ?_⟩
    intro n hn _
    unfold fractionPhase
    have hf2 : ¬ (trunc n b).firstIsCased o.dp = true := by
      simp only [Bytes.firstIsCased, first_trunc] at hdp ⊢
      split
      · exact hdp
      · simp
    rw [if_neg hf2]
    rfl

theorem exponentPhase_truncS (he : Bool) (b : Bytes) (fr : Option (List Nat)) (ex : Int) (ep : ExpPart)
    (hv : Bytes.Valid b) (hlt : he = true → b.index < b.slc.length)
    (h : exponentPhase c he b fr ex = .ok ep) :
    ep.byte.slc = b.slc ∧ b.index ≤ ep.byte.index ∧ Bytes.Valid ep.byte ∧
    (he = true → b.index + 1 ≤ ep.byte.index ∧
      ∀ ch, b.slc[ep.byte.index]? = some ch → charToDigit ch c.exponentRadix = none) ∧
    (he = false → ep.byte = b) ∧
    ∀ n, ep.byte.index ≤ n → (he = true → Adm c .exponent n ep.byte) →
      exponentPhase c he (trunc n b) fr ex = .ok { ep with byte := trunc n ep.byte } := by
  unfold exponentPhase at h
  cases he with
  | false =>
    simp only [Bool.false_eq_true, if_false] at h
    split at h
    · cases h
    · next hren =>
      simp only [pure, Except.pure, Except.ok.injEq] at h
      subst h
      refine ⟨rfl, Nat.le_refl _, hv, by simp, fun _ => rfl, ?_⟩
      intro n _ _
      unfold exponentPhase
      simp only [Bool.false_eq_true, if_false]
      rw [if_neg hren]
      rfl
  | true =>
    have hlt := hlt rfl
    simp only [if_true, step_r H.rel, bind, Except.bind, pure, Except.pure] at h
    have hv0 : Bytes.Valid (Bytes.at b (b.index + 1)) := by simp only [Bytes.Valid, at_index, at_slc]; omega
    split at h
    · cases h
    · next hnen =>
      split at h
      · cases h
      · next hnewf =>
        cases hs : parseExponentSign c (Bytes.at b (b.index + 1)) with
        | error e => simp [hs] at h
        | ok ps =>
          obtain ⟨ng, b1⟩ := ps
          obtain ⟨a1, a2, a3, a4⟩ := parseSign_trunc_r H.rel _ _ _ _ _ b1 ng hv0 hs
          simp only [hs] at h
          cases hdg : parseDigits c .exponent c.exponentRadix b1 with
          | error e => simp [hdg] at h
          | ok pd =>
            obtain ⟨ds, b2⟩ := pd
            obtain ⟨d1, d2, d3, d4, d5⟩ := parseDigits_truncS H.rel .exponent c.exponentRadix H.sepE b1 b2 ds a3 hdg
            simp only [hdg] at h
            split at h
            · cases h
            · next hreq =>
              simp only [Except.ok.injEq] at h
              subst h
              simp only [at_index, at_slc] at a1 a2
              refine ⟨by rw [d1, a1], by simp only; omega, d3,
                fun _ => ⟨by simp only; omega, by rw [← a1]; exact d4⟩, fun hh => Bool.noConfusion hh, ?_⟩
              intro n hn ha
              have ha := ha rfl
              simp only at hn ha
              unfold exponentPhase
              simp only [if_true, step_r H.rel, bind, Except.bind, pure, Except.pure, trunc_index, at_index]
              rw [if_neg hnen, if_neg hnewf]
              have t1 := a4 n (by omega)
              rw [← trunc_at]
              unfold parseExponentSign at hs ⊢
              rw [t1]
              simp only
              rw [d5 n ha]
              simp only [trunc_index, trunc_currentCount]
              rw [if_neg hreq]

end
end LexVerif.Proof.C11
