import LexVerif.Proof.GrisuDigits1
/-!
# Proof.GrisuDigits2 — the first loop of `generate_digits` (`kappa = 10 … 1`)
-/
namespace LexVerif.Proof.GrisuDigits
open LexVerif.Model.Grisu LexVerif.Model.Dragonbox LexVerif.Spec
open LexVerif.Proof.DragonboxBits

theorem genLoop1_zero (delta wmant part2 sh fuel part1 div : Nat) (ds : List Nat) (k : Int) :
    genLoop1 delta wmant part2 sh (fuel + 1) part1 div 0 ds k = .inr (ds, 0) := by
  rw [genLoop1]; simp

theorem genLoop1_succ (delta wmant part2 sh fuel part1 div c : Nat) (ds : List Nat) (k : Int) :
    genLoop1 delta wmant part2 sh (fuel + 1) part1 div (c + 1) ds k =
      if u64 (shl64 (sub64 part1 (u64 (part1 / div * div))) sh + part2) ≤ delta then
        .inl (decLast (pushDigit ds (part1 / div))
          (roundDigit delta (shl64 div sh) wmant 20
            (u64 (shl64 (sub64 part1 (u64 (part1 / div * div))) sh + part2)) 0).2, i32 (k + c))
      else genLoop1 delta wmant part2 sh fuel (sub64 part1 (u64 (part1 / div * div))) (div / 10) c
        (pushDigit ds (part1 / div)) k := by
  rw [genLoop1]
  simp only [pushDigit, Nat.add_sub_cancel]
  simp

/-- result of the first loop -/
theorem genLoop1_spec (Um Lm delta wmant part2 sh one : Nat) (k : Int)
    (hsh : sh ≤ 60) (hone : one = 2 ^ sh) (hUm : Um < 2 ^ 64) (hLm : 1 ≤ Lm) (hdelta : delta + Lm = Um) (hp2 : part2 < one)
    (hk : -100000 ≤ k ∧ k ≤ 100000) :
    ∀ (fuel c part1 div N : Nat) (ds : List Nat), c < fuel → c ≤ 10 → (1 ≤ c → div = 10 ^ (c - 1)) →
      DigitsOK ds N → part1 < 10 ^ c → N * 10 ^ c * one + part1 * one + part2 = Um →
      delta < part1 * one + part2 →
      (∃ (ds' : List Nat) (c' V N' : Nat), c' < c ∧
          genLoop1 delta wmant part2 sh fuel part1 div c ds k = .inl (ds', k + (c' : Int)) ∧
          Final ds' V N' ∧ Lm ≤ V * 10 ^ c' * one ∧ V * 10 ^ c' * one ≤ Um ∧
          ∀ n, 10 * Um ≤ 10 ^ n * delta → N' < 10 ^ n)
      ∨ (∃ (ds' : List Nat) (N' : Nat),
          genLoop1 delta wmant part2 sh fuel part1 div c ds k = .inr (ds', 0) ∧
          DigitsOK ds' N' ∧ N' * one + part2 = Um ∧ delta < part2) := by
  have hone1 : 1 ≤ one := by rw [hone]; exact Nat.pow_pos (by omega)
  intro fuel
  induction fuel with
  | zero => intro c _ _ _ _ hc; omega
  | succ fuel ih =>
    intro c part1 div N ds hcf hc10 hdiv hok hp1 hsum hprev
    cases c with
    | zero =>
      right
      refine ⟨ds, N, genLoop1_zero .., hok, ?_, ?_⟩
      · have : part1 = 0 := by simpa using hp1
        subst this; simpa using hsum
      · have : part1 = 0 := by simpa using hp1
        subst this; simpa using hprev
    | succ c =>
      have hD : div = 10 ^ c := by simpa using hdiv (by omega)
      subst hD
      rw [genLoop1_succ]
      generalize hDg : 10 ^ c = D at *
      have hDpos : 1 ≤ D := by rw [← hDg]; exact Nat.pow_pos (by omega)
      have hpow : 10 ^ (c + 1) = D * 10 := by rw [Nat.pow_succ, hDg]
      rw [hpow] at hp1 hsum
      have hd : part1 / D < 10 := Nat.div_lt_of_lt_mul hp1
      have hdm := Nat.div_add_mod part1 D
      have hr : part1 % D < D := Nat.mod_lt _ hDpos
      generalize part1 / D = d at *
      generalize part1 % D = r at *
      -- products
      have e1 : part1 * one = d * (D * one) + r * one := by rw [← hdm]; ring
      have e2 : N * (D * 10) * one = 10 * N * (D * one) := by ring
      have e3 : (10 * N + d) * (D * one) = 10 * N * (D * one) + d * (D * one) := by ring
      have e4 : d * D = D * d := Nat.mul_comm _ _
      have hp1le : part1 ≤ part1 * one := Nat.le_mul_of_pos_right _ hone1
      have hrle : r ≤ r * one := Nat.le_mul_of_pos_right _ hone1
      have hsub : sub64 part1 (u64 (d * D)) = r := by
        have : u64 (d * D) = d * D := by unfold u64; omega
        rw [this, sub64_eq (by omega) (by omega)]; omega
      have hshl : shl64 r (sh : Int) = r * one := by
        rw [shl64_nat (by omega), ← hone]; omega
      have htmp : u64 (r * one + part2) = r * one + part2 := by unfold u64; omega
      rw [hsub, hshl, htmp]
      generalize hX : D * one = X at *
      have hp1X : part1 * one + one ≤ 10 * X := by
        have : (part1 + 1) * one ≤ D * 10 * one := Nat.mul_le_mul_right _ (by omega)
        have e5 : (part1 + 1) * one = part1 * one + one := by ring
        have e6 : D * 10 * one = 10 * X := by rw [← hX]; ring
        omega
      split
      · -- stop
        rename_i hstop
        left
        have hdX : 1 ≤ d * X := by omega
        have hd1 : 1 ≤ d := by
          rcases Nat.eq_zero_or_pos d with h | h
          · subst h; omega
          · exact h
        have hXle : X ≤ d * X := Nat.le_mul_of_pos_left _ hd1
        have hshlD : shl64 D (sh : Int) = X := by
          rw [shl64_nat (by omega), ← hone, hX]; omega
        rw [hshlD]
        obtain ⟨e, he1, he2⟩ := roundDigit_spec delta X wmant (by omega) 20 (r * one + part2) 0 hstop
        rw [he1, Nat.zero_add]
        have hed : e < d := by
          have : e * X < d * X := by omega
          exact Nat.lt_of_mul_lt_mul_right this
        have e7 : (10 * N + d - e) * X = (10 * N + d) * X - e * X := Nat.sub_mul _ _ _
        have hi : i32 (k + (c : Int)) = k + (c : Int) := by unfold i32; omega
        refine ⟨_, c, 10 * N + d - e, 10 * N + d, by omega, by rw [hi], ?_, ?_, ?_, ?_⟩
        · exact final_of_step hok hd (by omega) (by omega)
        · rw [Nat.mul_assoc, hDg, hX]; omega
        · rw [Nat.mul_assoc, hDg, hX]; omega
        · intro n hn
          generalize 10 ^ n = P at *
          by_cases hlt : 10 * N + d < P
          · exact hlt
          · exfalso
            have h1 : P * (10 * X) ≤ (10 * N + d) * (10 * X) := Nat.mul_le_mul_right _ (by omega)
            have hPpos : 0 < P := by
              rcases Nat.eq_zero_or_pos P with h | h
              · subst h; omega
              · exact h
            have h2 : P * delta < P * (10 * X) := Nat.mul_lt_mul_of_pos_left (by omega) hPpos
            have e8 : (10 * N + d) * (10 * X) = 10 * ((10 * N + d) * X) := by ring
            omega
      · -- continue
        rename_i hcont
        have hnext := ih c r (D / 10) (10 * N + d) (pushDigit ds d) (by omega) (by omega)
          (by
            intro h1c
            rw [← hDg]
            obtain ⟨c2, rfl⟩ : ∃ c2, c = c2 + 1 := ⟨c - 1, by omega⟩
            rw [Nat.pow_succ]; simp)
          (pushDigit_ok hok hd) (by rw [hDg]; exact hr)
          (by rw [Nat.mul_assoc, hDg, hX]; omega) (by omega)
        rcases hnext with ⟨ds', c', V, N', hc', hres, hrest⟩ | hnext
        · left
          exact ⟨ds', c', V, N', by omega, hres, hrest⟩
        · right
          exact hnext

end LexVerif.Proof.GrisuDigits
