import LexVerif.Proof.SepGen9
/-!
# Proof.SepGen10 — discharging `NonStuck`: I+L+T+C components never stop on a separator; a component without separator
flags does not if its part of the input contains no separator byte (`SepsOnlyIn`)
-/
set_option linter.unusedSimpArgs false
namespace LexVerif.Proof.Sep
open LexVerif LexVerif.Model LexVerif.Spec
open LexVerif.Props.C12

/-- an I+L+T+C iterator never stops on a separator -/
theorem run_normal_iltc (c : Cfg) (k : Comp) (r : Nat) (hd : c.debug = false) (hk : c.skip k = .pred .iltc)
    (b e : Bytes) (ds : List Nat) (hR : Run c k r b e ds) : ∀ x, b.slc[e.index]? = some x → c.isSep x = false := by
  have h := hR.run
  rw [parseDigits_skip c k r hd hk b] at h
  simp only [Except.ok.injEq, Prod.mk.injEq] at h
  have hds := digitsSkip_strip c r (b.slc.drop b.index)
  intro x hx
  rw [← h.2] at hx
  simp only [advS_index] at hx
  exact hds.2.2 x (by rw [List.getElem?_drop]; exact hx)

theorem peek_normal_iltc (c : Cfg) (k : Comp) (hk : c.skip k = .pred .iltc) (b b0 : Bytes) (v : Option Nat)
    (hp : peek c k b = .ok (v, b0)) : ∀ x, b.slc[b0.index]? = some x → c.isSep x = false := by
  rw [peek_iltc c k b hk] at hp
  simp only [Except.ok.injEq, Prod.mk.injEq] at hp
  intro x hx
  rw [← hp.2] at hx
  exact countSeps_stop c (b.slc.drop b.index) x (by rw [List.getElem?_drop]; exact hx)

/-! ### positions of the decimal point / exponent character -/

theorem mem_takeWhile (P : Nat → Bool) : ∀ (l : List Nat) (m : Nat) (x : Nat),
    (∀ y ∈ l.take m, P y = true) → l[m]? = some x → P x = true → x ∈ l.takeWhile P := by
  intro l
  induction l with
  | nil => intro m x _ h; simp at h
  | cons y ys ih =>
    intro m x hall hx hp
    cases m with
    | zero =>
      simp only [List.getElem?_cons_zero, Option.some.injEq] at hx
      subst hx
      simp [List.takeWhile, hp]
    | succ k =>
      have hy : P y = true := hall y (by simp)
      simp only [List.takeWhile, hy, List.mem_cons]
      right
      exact ih k x (fun z hz => hall z (by simp [hz])) (by simpa using hx) hp

theorem dropWhile_eq_drop (P : Nat → Bool) : ∀ (l : List Nat) (m : Nat) (x : Nat),
    (∀ y ∈ l.take m, P y = true) → l[m]? = some x → P x = false → l.dropWhile P = l.drop m := by
  intro l
  induction l with
  | nil => intro m x _ h; simp at h
  | cons y ys ih =>
    intro m x hall hx hp
    cases m with
    | zero =>
      simp only [List.getElem?_cons_zero, Option.some.injEq] at hx
      subst hx
      simp [List.dropWhile, hp]
    | succ k =>
      have hy : P y = true := hall y (by simp)
      simp only [List.dropWhile, hy, List.drop_succ_cons]
      exact ih k x (fun z hz => hall z (by simp [hz])) (by simpa using hx) hp

/-- `x` is neither the decimal point nor (as the parser compares) the exponent character -/
def notDpExp (c : Cfg) (o : POpts) (x : Nat) : Bool := !(x == o.dp) && !matchesExp c o x

/-- what `is_valid_options_punctuation` (with case folding) gives about the exponent character: no digit, no sign, not
the decimal point -/
structure OptsOK (c : Cfg) (o : POpts) : Prop where
  expDigit : ∀ x, matchesExp c o x = true → charToDigit x c.mantissaRadix = none
  expSign : matchesExp c o 43 = false ∧ matchesExp c o 45 = false
  expDp : matchesExp c o o.dp = false

/-- **separators only in I+L+T+C components**: for every digit component that is not I+L+T+C, its part of the input —
up to the first decimal point / exponent character; between the first decimal point and the exponent character;
behind the exponent character — contains no separator byte -/
structure SepsOnlyIn (c : Cfg) (o : POpts) (s : List Nat) : Prop where
  int : c.skip .integer ≠ .pred .iltc → NoSep c (s.takeWhile (notDpExp c o))
  frac : c.skip .fraction ≠ .pred .iltc →
    NoSep c (((s.dropWhile (fun x => !(x == o.dp))).drop 1).takeWhile (fun x => !matchesExp c o x))
  exp : c.skip .exponent ≠ .pred .iltc → NoSep c ((s.dropWhile (fun x => !matchesExp c o x)).drop 1)

/-- every byte a digit run moved over is a separator or a digit -/
theorem Run.bytes {c : Cfg} {k : Comp} {r : Nat} {b e : Bytes} {ds : List Nat} (h : Run c k r b e ds) :
    ∀ x ∈ slice b.slc b.index e.index, c.isSep x = true ∨ (charToDigit x r).isSome = true := by
  intro x hx
  cases hs : c.isSep x with
  | true => exact Or.inl rfl
  | false =>
    right
    have hm : x ∈ nonSep c (slice b.slc b.index e.index) := by
      simp only [nonSep, List.mem_filter, hx, hs, Bool.not_false, and_self]
    have := List.mem_map_of_mem (f := fun y => charToDigit y r) hm
    rw [h.yields] at this
    simp only [List.mem_map] at this
    obtain ⟨d, _, hd⟩ := this
    rw [← hd]; rfl

theorem take_slice (s : List Nat) (i j : Nat) (h : i ≤ j) : s.take j = s.take i ++ slice s i j := by
  unfold slice
  have : j = i + (j - i) := by omega
  have e : s.take (i + (j - i)) = s.take i ++ (s.drop i).take (j - i) := List.take_add
  rwa [← this] at e

/-- `parse_sign!` consumes nothing or one sign byte at the cursor -/
theorem parseSign_index (c : Cfg) (hd : c.debug = false) (np rq : Bool) (ip ms : String) (b b1 : Bytes) (neg : Bool)
    (h : parseSign c np rq ip ms b = .ok (neg, b1)) :
    b1.slc = b.slc ∧ (b1.index = b.index ∨ (b1.index = b.index + 1 ∧ (b.slc[b.index]? = some 43 ∨ b.slc[b.index]? = some 45))) := by
  unfold parseSign at h
  simp only [step_release c hd, bind, Except.bind, pure, Except.pure] at h
  split at h
  · next heq =>
    split at h
    · simp only [Except.ok.injEq, Prod.mk.injEq] at h; rw [← h.2]; exact ⟨rfl, Or.inr ⟨rfl, Or.inl heq⟩⟩
    · cases h
  · next heq =>
    simp only [Except.ok.injEq, Prod.mk.injEq] at h; rw [← h.2]; exact ⟨rfl, Or.inr ⟨rfl, Or.inr heq⟩⟩
  · split at h
    · cases h
    · simp only [Except.ok.injEq, Prod.mk.injEq] at h; rw [← h.2]; exact ⟨rfl, Or.inl rfl⟩

/-- **`SepsOnlyIn` ⟹ `NonStuck`**, for any separator predicates on the components that are not I+L+T+C -/
theorem nonStuck_of_sepsOnlyIn (c : Cfg) (o : POpts) (hG : GenStrip c o) (hO : OptsOK c o) (s : List Nat)
    (hS : SepsOnlyIn c o s) : NonStuck c o s := by
  intro neg b1 v b0 hps hp
  unfold parseMantissaSign at hps
  obtain ⟨hb1s, hb1i⟩ := parseSign_index c hG.rel.debug _ _ _ _ _ _ _ hps
  simp only [new_slc, new_index] at hb1s hb1i
  have hv1 : Bytes.Valid b1 := by
    unfold Bytes.Valid; rw [hb1s]
    rcases hb1i with h | ⟨h, h2⟩
    · omega
    · rcases h2 with h2 | h2 <;> have := (List.getElem?_eq_some_iff.mp h2).1 <;> omega
  -- facts about bytes: separators and digits are neither decimal point nor exponent character
  have hPsep : ∀ x, c.isSep x = true → notDpExp c o x = true := by
    intro x hx
    have h1 : (x == o.dp) = false := by
      cases hq : (x == o.dp) with
      | false => rfl
      | true => rw [beq_iff_eq] at hq; rw [hq, hG.sepDp] at hx; cases hx
    simp [notDpExp, h1, hG.sepExp x hx]
  have hPdig : ∀ x, (charToDigit x c.mantissaRadix).isSome = true → notDpExp c o x = true := by
    intro x hx
    have h1 : (x == o.dp) = false := by
      cases hq : (x == o.dp) with
      | false => rfl
      | true => rw [beq_iff_eq] at hq; rw [hq, hG.dpDigit] at hx; cases hx
    have h2 : matchesExp c o x = false := by
      cases hq : matchesExp c o x with
      | false => rfl
      | true => rw [hO.expDigit x hq] at hx; cases hx
    simp [notDpExp, h1, h2]
  -- everything before the cursor after the sign satisfies `notDpExp`
  have hpre1 : ∀ y ∈ s.take b1.index, notDpExp c o y = true := by
    rcases hb1i with h | ⟨h, h2⟩
    · rw [h]; intro y hy; simp at hy
    · rw [h]
      intro y hy
      have hy2 : y = 43 ∨ y = 45 := by
        rcases h2 with h2 | h2 <;>
        · have hd0 := drop_of_get h2
          rw [List.drop_zero] at hd0
          rw [hd0] at hy
          simp only [Nat.zero_add, List.take_succ_cons, List.take_zero, List.mem_cons, List.not_mem_nil, or_false] at hy
          first | exact Or.inl hy | exact Or.inr hy
      have hd1 := hG.dpSign
      rcases hy2 with rfl | rfl
      · have : (43 == o.dp) = false := by simpa using fun e => hd1.1 e.symm
        simp [notDpExp, this, hO.expSign.1]
      · have : (45 == o.dp) = false := by simpa using fun e => hd1.2 e.symm
        simp [notDpExp, this, hO.expSign.2]
  have hsp := peek_spec c .integer b1 b0 v hv1 hp
  have hb0s : b0.slc = s := by rw [hsp.1]; exact hb1s
  have hpre0 : ∀ y ∈ s.take b0.index, notDpExp c o y = true := by
    rw [take_slice s b1.index b0.index hsp.2.2.2.2.1]
    intro y hy
    simp only [List.mem_append] at hy
    rcases hy with hy | hy
    · exact hpre1 y hy
    · have hk := peek_skips c .integer b1 b0 v hp
      rw [hb1s] at hk
      exact hPsep y (List.all_eq_true.mp hk y hy)
  -- a separator under a cursor whose prefix satisfies `notDpExp` contradicts `SepsOnlyIn.int`
  have hintSep : c.skip .integer ≠ .pred .iltc → ∀ j, (∀ y ∈ s.take j, notDpExp c o y = true) →
      ∀ x, s[j]? = some x → c.isSep x = false := by
    intro hni j hpre x hx
    cases hcs : c.isSep x with
    | false => rfl
    | true =>
      have := hS.int hni x (mem_takeWhile _ s j x hpre hx (hPsep x hcs))
      rw [hcs] at this; cases this
  refine ⟨?_, ?_⟩
  · by_cases hk : c.skip .integer = .pred .iltc
    · have := peek_normal_iltc c .integer hk b1 b0 v hp
      rw [hb1s] at this; exact this
    · exact hintSep hk b0.index hpre0
  · intro eI dsI hRI
    have heI : eI.slc = s := by rw [hRI.slc]; exact hb0s
    have hpreI : ∀ y ∈ s.take eI.index, notDpExp c o y = true := by
      rw [take_slice s b0.index eI.index hRI.le]
      intro y hy
      simp only [List.mem_append] at hy
      rcases hy with hy | hy
      · exact hpre0 y hy
      · rw [← hb0s] at hy
        rcases hRI.bytes y hy with h | h
        · exact hPsep y h
        · exact hPdig y h
    have hexpSep : c.skip .exponent ≠ .pred .iltc → ∀ j, (∀ y ∈ s.take j, matchesExp c o y = false) →
        (∃ z, s[j]? = some z ∧ matchesExp c o z = true) → ∀ i x, j < i → s[i]? = some x → c.isSep x = false := by
      intro hne j hpre ⟨z, hz, hzm⟩ i x hji hx
      have hd := dropWhile_eq_drop (fun x => !matchesExp c o x) s j z (by intro y hy; simp [hpre y hy]) hz (by simp [hzm])
      have hmem : x ∈ (s.dropWhile (fun x => !matchesExp c o x)).drop 1 := by
        rw [hd, List.drop_drop]
        have : s[i]? = (s.drop (j + 1))[i - (j + 1)]? := by rw [List.getElem?_drop]; congr 1; omega
        rw [this] at hx
        exact List.mem_of_getElem? hx
      exact hS.exp hne x hmem
    -- the exponent iterator from a cursor `f` whose prefix does not match the exponent character
    have hexpN : ∀ f : Bytes, f.slc = s → (∀ y ∈ s.take f.index, matchesExp c o y = false) → ExpNormal c o s f := by
      intro f hfs hpre hfe r hr e ds hR x hx
      by_cases hk : c.skip .exponent = .pred .iltc
      · have h1 := parseSign_index c hG.rel.debug _ _ _ _ _ _ _ (by unfold parseExponentSign at hr; exact hr)
        have := run_normal_iltc c .exponent _ hG.rel.debug hk r.2 e ds hR x
        simp only [h1.1, hfs] at this
        exact this hx
      · rw [firstIs_exp, hfs] at hfe
        cases hz : s[f.index]? with
        | none => rw [hz] at hfe; cases hfe
        | some z =>
          rw [hz] at hfe
          have h1 := parseSign_index c hG.rel.debug _ _ _ _ _ _ _ (by unfold parseExponentSign at hr; exact hr)
          have hle := hR.le
          have hi : f.index < e.index := by
            simp only at h1
            rcases h1.2 with h | ⟨h, _⟩ <;> omega
          exact hexpSep hk f.index hpre ⟨z, hz, hfe⟩ e.index x hi hx
    have hnoexpI : ∀ y ∈ s.take eI.index, matchesExp c o y = false := by
      intro y hy
      have := hpreI y hy
      simp only [notDpExp, Bool.and_eq_true, Bool.not_eq_true'] at this
      exact this.2
    refine ⟨?_, ?_, ?_⟩
    · by_cases hk : c.skip .integer = .pred .iltc
      · have := run_normal_iltc c .integer _ hG.rel.debug hk b0 eI dsI hRI
        rw [hb0s] at this; exact this
      · exact hintSep hk eI.index hpreI
    · -- a decimal point follows
      intro hdp eF dsF hRF
      have heF : eF.slc = s := by rw [hRF.slc]; exact heI
      have hdropdp : s.dropWhile (fun x => !(x == o.dp)) = s.drop eI.index := by
        apply dropWhile_eq_drop _ s eI.index o.dp _ hdp (by simp)
        intro y hy
        have := hpreI y hy
        simp only [notDpExp, Bool.and_eq_true] at this
        exact this.1
      have hle := hRF.le
      simp only at hle
      -- bytes between the decimal point and the fraction cursor do not match the exponent character
      have hpreF : ∀ y ∈ (s.drop (eI.index + 1)).take (eF.index - (eI.index + 1)), matchesExp c o y = false := by
        intro y hy
        have hy2 : y ∈ slice ({ eI with index := eI.index + 1 } : Bytes).slc ({ eI with index := eI.index + 1 } : Bytes).index eF.index := by
          simp only [heI]; exact hy
        rcases hRF.bytes y hy2 with h | h
        · exact hG.sepExp y h
        · cases hq : matchesExp c o y with
          | false => rfl
          | true => rw [hO.expDigit y hq] at h; cases h
      have hnoexpF : ∀ y ∈ s.take eF.index, matchesExp c o y = false := by
        rw [take_slice s eI.index eF.index (by omega)]
        intro y hy
        simp only [List.mem_append] at hy
        rcases hy with hy | hy
        · exact hnoexpI y hy
        · rw [slice, drop_of_get hdp] at hy
          have : eF.index - eI.index = (eF.index - (eI.index + 1)) + 1 := by omega
          rw [this, List.take_succ_cons, List.mem_cons] at hy
          rcases hy with rfl | hy
          · exact hO.expDp
          · exact hpreF y hy
      refine ⟨?_, hexpN eF heF hnoexpF⟩
      by_cases hk : c.skip .fraction = .pred .iltc
      · have := run_normal_iltc c .fraction _ hG.rel.debug hk _ eF dsF hRF
        simp only [heI] at this; exact this
      · intro x hx
        cases hcs : c.isSep x with
        | false => rfl
        | true =>
          have hmem : x ∈ ((s.dropWhile (fun x => !(x == o.dp))).drop 1).takeWhile (fun x => !matchesExp c o x) := by
            rw [hdropdp, List.drop_drop]
            apply mem_takeWhile _ _ (eF.index - (eI.index + 1)) x
            · intro y hy; simp [hpreF y hy]
            · rw [List.getElem?_drop]
              have : eI.index + 1 + (eF.index - (eI.index + 1)) = eF.index := by omega
              rw [this]; exact hx
            · simp [hG.sepExp x hcs]
          have := hS.frac hk x hmem
          rw [hcs] at this; cases this
    · intro _
      exact hexpN eI heI hnoexpI

/-! ### same value -/

theorem cfg_debug_eq (c : Cfg) (hd : c.debug = false) : ({ c with debug := false } : Cfg) = c := by
  obtain ⟨f, m, d⟩ := c
  simp only at hd
  subst hd; rfl

/-- the digits `numberBits` reads from a stored slice are those of the stripped slice -/
theorem sliceDigits_of_sliceOK (c : Cfg) (o : POpts) (hG : GenStrip c o) (k : Comp) (R : List Nat)
    (hok : SliceOK c k R) : sliceDigits c k (nonSep c R) = sliceDigits c k R := by
  rcases hok with ⟨_, hn⟩ | ⟨_, ds, e', hrun, hend⟩
  · rw [nonSep_of_noSep c R hn]
  · unfold sliceDigits
    rw [cfg_debug_eq c hG.rel.debug, hrun,
      parseDigits_nosep c k _ hG.rel.debug (hG.rel.reach k) (Bytes.new (nonSep c R)) (nonSep_noSep c R)]
    have htr := parseDigits_trace c k _ hG.rel.debug hG.sepDigM _ e' ds (by simp [Bytes.Valid, Bytes.new]) hrun
    have hyl := htr.2.2.2.1
    simp only [new_slc, new_index, hend, slice_zero_length] at hyl
    simp only [new_slc, new_index, List.drop_zero]
    have := digitsPrefix_append c.mantissaRadix (nonSep c R) ds [] hyl (by intro x hx; cases hx)
    rw [List.append_nil] at this
    exact this

/-- related numbers whose stored slices re-scan consistently have the same value -/
theorem numberBits_of_numRel (c : Cfg) (o : POpts) (hG : GenStrip c o) (f : Fmt) (n n' : Number) (h : NumRel c n n')
    (hok : SlicesOK c n) : numberBits c f n' = numberBits c f n := by
  obtain ⟨h1, h2, h3, h4, h5, h6, h7⟩ := h
  unfold numberBits
  rw [h1, h2, h3, h4, h5, h6, h7]
  cases hmd : n.manyDigits with
  | false => rfl
  | true =>
    obtain ⟨hI, hF⟩ := hok hmd
    simp only [if_true, sliceDigits_of_sliceOK c o hG .integer n.integer hI]
    cases hfr : n.fraction with
    | none => rfl
    | some fd => simp only [Option.map_some, sliceDigits_of_sliceOK c o hG .fraction fd (hF fd hfr)]

end LexVerif.Proof.Sep
