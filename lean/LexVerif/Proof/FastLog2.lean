/-!
# Proof.FastLog2 — a kernel-friendly `⌊log2 n⌋`

`Nat.log2` is defined by recursion on fuel `n` and is *not* one of the GMP-accelerated kernel
operations: `decide +kernel` spends ~70 µs per result bit on it. `log2F` finds the same value with a
16-step binary search over `2^k ≤ n` (accelerated `Nat.pow`, `Nat.ble`), and `log2_eq_log2F` lets a
proof rewrite every `Nat.log2` into it before handing the goal to the kernel.
-/
namespace LexVerif.Proof

/-- binary search: under `2^lo ≤ n < 2^(lo + 2^j)` returns `⌊log2 n⌋` -/
def log2Search (n : Nat) : Nat → Nat → Nat
  | 0, lo => lo
  | j + 1, lo => if 2 ^ (lo + 2 ^ j) ≤ n then log2Search n j (lo + 2 ^ j) else log2Search n j lo

def log2F (n : Nat) : Nat :=
  if n = 0 then 0 else if n < 2 ^ (2 ^ 16) then log2Search n 16 0 else Nat.log2 n

theorem log2Search_spec (n : Nat) : ∀ j lo, 2 ^ lo ≤ n → n < 2 ^ (lo + 2 ^ j) →
    2 ^ (log2Search n j lo) ≤ n ∧ n < 2 ^ (log2Search n j lo + 1) := by
  intro j
  induction j with
  | zero =>
    intro lo h1 h2
    simp only [log2Search]
    exact ⟨h1, by simpa using h2⟩
  | succ j ih =>
    intro lo h1 h2
    simp only [log2Search]
    have e : lo + 2 ^ (j + 1) = lo + 2 ^ j + 2 ^ j := by rw [Nat.pow_succ]; omega
    split
    · next h => exact ih (lo + 2 ^ j) h (by rw [← e]; exact h2)
    · next h => exact ih lo h1 (Nat.lt_of_not_le h)

theorem log2_unique {n a b : Nat} (ha : 2 ^ a ≤ n) (ha' : n < 2 ^ (a + 1))
    (hb : 2 ^ b ≤ n) (hb' : n < 2 ^ (b + 1)) : a = b := by
  apply Nat.le_antisymm
  · apply Nat.le_of_lt_succ
    exact (Nat.pow_lt_pow_iff_right (by decide : 1 < 2)).mp (Nat.lt_of_le_of_lt ha hb')
  · apply Nat.le_of_lt_succ
    exact (Nat.pow_lt_pow_iff_right (by decide : 1 < 2)).mp (Nat.lt_of_le_of_lt hb ha')

theorem log2Search_eq (n B : Nat) (h : n ≠ 0) (h2 : n < 2 ^ (2 ^ B)) :
    Nat.log2 n = log2Search n B 0 := by
  have h0 : 2 ^ 0 ≤ n := Nat.pos_of_ne_zero h
  have h3 : n < 2 ^ (0 + 2 ^ B) := by rw [Nat.zero_add]; exact h2
  have s := log2Search_spec n B 0 h0 h3
  exact log2_unique (Nat.log2_self_le h) Nat.lt_log2_self s.1 s.2

theorem log2_eq_log2F : Nat.log2 = log2F := by
  funext n
  unfold log2F
  split
  · next h => subst h; rfl
  · next h =>
    split
    · next h2 => exact log2Search_eq n 16 h h2
    · rfl

end LexVerif.Proof
