import LexVerif.Proof.LemireBasics
import LexVerif.Proof.ParseInt
import LexVerif.Proof.Numeral
import LexVerif.Model.ParseFloatAlgo
/-!
# Proof.Pipeline — glue lemmas for the API-level pipeline theorem (`Props.C01Main`)

* `litFrac`, `litBits_exact`: `Spec.litBits` (which short-circuits astronomically large exponents) **is**
  `roundSigned` of the exact fraction of the literal, for binary32/binary64, radix ≤ 64, exponent base ≥ 2 and
  digits below the radix — the two short-circuits are exact;
* `litBits_of_mantissa`: the same for the literal `numberBits` builds from an untruncated `Number`;
* `sliceDigits_lt`: the digit values `numberBits` reads off a stored slice are below the radix;
* `toNative_eq`: `to_native!` is `roundSigned`.
-/
namespace LexVerif.Proof.Pipeline
open LexVerif.Spec LexVerif.Model LexVerif.Model.ParseFloatAlgo
open LexVerif.Proof.RoundNE LexVerif.Proof.ExtRound LexVerif.Proof.BinaryCorrect

/-- the exact value of a literal as a fraction (what `litBits` rounds when it does not short-circuit) -/
def litFrac (r b : Nat) (l : FloatLit) : Nat × Nat :=
  if l.exp ≥ 0 then (ofDigits r (l.intDigits ++ l.fracDigits) * b ^ l.exp.toNat, r ^ l.fracDigits.length)
  else (ofDigits r (l.intDigits ++ l.fracDigits), r ^ l.fracDigits.length * b ^ (-l.exp).toNat)

theorem litFrac_den_pos {r b : Nat} (hr : 0 < r) (hb : 0 < b) (l : FloatLit) : 0 < (litFrac r b l).2 := by
  unfold litFrac
  split
  · exact Nat.pow_pos hr
  · exact Nat.mul_pos (Nat.pow_pos hr) (Nat.pow_pos hb)

theorem pow_le_64 {r : Nat} (hr : r ≤ 64) (n : Nat) : r ^ n ≤ 2 ^ (6 * n) := by
  rw [Nat.pow_mul]
  exact Nat.pow_le_pow_left hr n

theorem two_pow_le {b : Nat} (hb : 2 ≤ b) (n : Nat) : 2 ^ n ≤ b ^ n := Nat.pow_le_pow_left hb n

/-- **`litBits` is `roundSigned` of the exact value**: the overflow short-circuit (`exp ≥ 1100 + 6·fracLen`)
and the underflow short-circuit (`exp ≤ −(1200 + 6·digits)`) return what `roundNE` would. -/
theorem litBits_exact {F p eb} (lay : Layout F p eb) {r b : Nat} (hr : 2 ≤ r) (hr64 : r ≤ 64) (hb : 2 ≤ b)
    (l : FloatLit) (hdig : ∀ d ∈ l.intDigits ++ l.fracDigits, d < r) :
    litBits F.fmt r b l = roundSigned F.fmt l.neg (litFrac r b l).1 (litFrac r b l).2 := by
  have hf := lay.wf
  have hbias : F.fmt.bias = 2 ^ (eb - 1) - 1 := by unfold Fmt.bias; rw [lay.fmt]
  have hL := L_eq lay
  have hL1074 := lay.hL1074
  have hb1024 := lay.hb1024
  have hmlt := LexVerif.Proof.ParseInt.ofDigits_lt r _ hdig
  have hpos : l.exp ≥ 0 → litFrac r b l =
      (ofDigits r (l.intDigits ++ l.fracDigits) * b ^ l.exp.toNat, r ^ l.fracDigits.length) := by
    intro h; unfold litFrac; rw [if_pos h]
  have hneg : ¬ l.exp ≥ 0 → litFrac r b l =
      (ofDigits r (l.intDigits ++ l.fracDigits), r ^ l.fracDigits.length * b ^ (-l.exp).toNat) := by
    intro h; unfold litFrac; rw [if_neg h]
  unfold litBits roundSigned
  simp only []
  generalize hm : ofDigits r (l.intDigits ++ l.fracDigits) = m at hmlt hpos hneg ⊢
  generalize hfl : l.fracDigits.length = fl at hpos hneg ⊢
  generalize hn : (l.intDigits ++ l.fracDigits).length = n at hmlt ⊢
  by_cases hm0 : m = 0
  · rw [if_pos hm0]
    subst hm0
    have : roundNE F.fmt (litFrac r b l).1 (litFrac r b l).2 = 0 := by
      by_cases h3 : l.exp ≥ 0
      · rw [hpos h3]; simp only [Nat.zero_mul]; exact LexVerif.Proof.RoundNE.roundNE_zero _ _
      · rw [hneg h3]; exact LexVerif.Proof.RoundNE.roundNE_zero _ _
    rw [this, Nat.zero_add]
  · rw [if_neg hm0]
    by_cases h1 : l.exp ≥ ((1100 + 6 * fl : Nat) : Int)
    · rw [if_pos h1]
      have h3 : l.exp ≥ 0 := by omega
      rw [hpos h3]
      simp only []
      congr 1
      symm
      apply LexVerif.Proof.Lemire.roundNE_huge hf (Nat.pow_pos (by omega))
      rw [hbias]
      obtain ⟨en, hen⟩ : ∃ en : Nat, l.exp = (en : Int) := ⟨l.exp.toNat, by omega⟩
      rw [hen, Int.toNat_natCast]
      have hen2 : 1100 + 6 * fl ≤ en := by omega
      have a1 : r ^ fl ≤ 2 ^ (6 * fl) := pow_le_64 hr64 fl
      have a2 : 2 ^ (2 ^ (eb - 1) - 1 + 1) ≤ 2 ^ 1100 := Nat.pow_le_pow_right (by decide) (by omega)
      have a3 : 2 ^ (6 * fl) * 2 ^ 1100 ≤ 2 ^ en := by
        rw [← Nat.pow_add]; exact Nat.pow_le_pow_right (by decide) (by omega)
      have a4 : 2 ^ en ≤ b ^ en := two_pow_le hb en
      have a5 : 1 * b ^ en ≤ m * b ^ en := Nat.mul_le_mul_right _ (by omega)
      calc r ^ fl * 2 ^ (2 ^ (eb - 1) - 1 + 1) ≤ 2 ^ (6 * fl) * 2 ^ 1100 := Nat.mul_le_mul a1 a2
        _ ≤ m * b ^ en := by omega
    · rw [if_neg h1]
      by_cases h2 : l.exp ≤ -(((1200 + 6 * n : Nat)) : Int)
      · rw [if_pos h2]
        have h3 : ¬ l.exp ≥ 0 := by omega
        rw [hneg h3]
        simp only []
        have : roundNE F.fmt m (r ^ fl * b ^ (-l.exp).toNat) = 0 := by
          apply roundNE_tiny hf (Nat.ne_of_gt (Nat.mul_pos (Nat.pow_pos (by omega)) (Nat.pow_pos (by omega))))
          obtain ⟨en, hen⟩ : ∃ en : Nat, -l.exp = (en : Int) := ⟨(-l.exp).toNat, by omega⟩
          rw [hen, Int.toNat_natCast]
          have hen2 : 1200 + 6 * n ≤ en := by omega
          have a1 : r ^ n ≤ 2 ^ (6 * n) := pow_le_64 hr64 n
          have a2 : 2 ^ L F.fmt ≤ 2 ^ 1074 := Nat.pow_le_pow_right (by decide) (by omega)
          have a3 : 2 ^ (6 * n) * (2 * 2 ^ 1074) ≤ 2 ^ en := by
            rw [← Nat.pow_succ', ← Nat.pow_add]; exact Nat.pow_le_pow_right (by decide) (by omega)
          have a4 : 2 ^ en ≤ b ^ en := two_pow_le hb en
          have a5 : 1 * b ^ en ≤ r ^ fl * b ^ en := Nat.mul_le_mul_right _ (Nat.pow_pos (by omega))
          have a6 : m * (2 * 2 ^ L F.fmt) < 2 ^ (6 * n) * (2 * 2 ^ 1074) :=
            Nat.mul_lt_mul_of_lt_of_le (by omega) (by omega) (by have := Nat.two_pow_pos (L F.fmt); omega)
          calc 2 * (m * 2 ^ L F.fmt) = m * (2 * 2 ^ L F.fmt) := by ac_rfl
            _ < r ^ fl * b ^ en := by omega
        rw [this, Nat.zero_add]
      · rw [if_neg h2]
        by_cases h3 : l.exp ≥ 0
        · rw [hpos h3]; simp only [if_pos h3]
        · rw [hneg h3]; simp only [if_neg h3]

/-- the literal `numberBits` builds from an untruncated `Number`: `mantissa · base^exponent` -/
theorem litBits_of_mantissa {F p eb} (lay : Layout F p eb) {r b : Nat} (hr : 2 ≤ r) (hr64 : r ≤ 64) (hb : 2 ≤ b)
    (neg : Bool) (m : Nat) (e : Int) :
    litBits F.fmt r b ⟨neg, toDigits r m, [], e⟩ =
      roundSigned F.fmt neg (powFrac b e m).1 (powFrac b e m).2 := by
  rw [litBits_exact lay hr hr64 hb _ (by
    simp only [List.append_nil]; exact LexVerif.Spec.toDigits_digit_lt r m (by omega))]
  unfold litFrac powFrac
  simp only [List.append_nil, List.length_nil, Nat.pow_zero, Nat.one_mul,
    LexVerif.Spec.ofDigits_toDigits r m (by omega)]

/-! ## digit values of a stored slice -/

theorem charToDigit_lt {ch r d : Nat} (h : charToDigit ch r = some d) : d < r := by
  unfold charToDigit at h
  simp only [] at h
  split at h
  · injection h with h; omega
  · exact absurd h (by simp)

/-- every digit value `parse_digits` hands to its callback is below the radix -/
theorem parseDigitsLoop_lt (c : Cfg) (k : Comp) (radix : Nat) :
    ∀ (fuel : Nat) (b b' : Bytes) (ds : List Nat),
      parseDigitsLoop c k radix fuel b = .ok (ds, b') → ∀ d ∈ ds, d < radix := by
  intro fuel
  induction fuel with
  | zero => intro b b' ds h; simp [parseDigitsLoop] at h
  | succ n ih =>
    intro b b' ds h
    unfold parseDigitsLoop at h
    cases hp : peek c k b with
    | error e => simp [hp, bind, Except.bind] at h
    | ok r =>
      obtain ⟨v, b1⟩ := r
      simp only [hp, bind, Except.bind] at h
      cases v with
      | none =>
        simp only [pure, Except.pure, Except.ok.injEq, Prod.mk.injEq] at h
        obtain ⟨rfl, _⟩ := h
        intro d hd; simp at hd
      | some ch =>
        simp only at h
        cases hdg : charToDigit ch radix with
        | none =>
          simp only [hdg, pure, Except.pure, Except.ok.injEq, Prod.mk.injEq] at h
          obtain ⟨rfl, _⟩ := h
          intro d hd; simp at hd
        | some d0 =>
          simp only [hdg] at h
          cases hst : iterStep c k b1 with
          | error e => simp [hst] at h
          | ok b2 =>
            simp only [hst] at h
            cases hrec : parseDigitsLoop c k radix n (b2.incCount c k) with
            | error e => simp [hrec] at h
            | ok r2 =>
              obtain ⟨ds2, b3⟩ := r2
              simp only [hrec, pure, Except.pure, Except.ok.injEq, Prod.mk.injEq] at h
              obtain ⟨rfl, _⟩ := h
              intro d hd
              rcases List.mem_cons.mp hd with rfl | hd
              · exact charToDigit_lt hdg
              · exact ih _ _ _ hrec d hd

theorem sliceDigits_lt (c : Cfg) (k : Comp) (s : List Nat) : ∀ d ∈ sliceDigits c k s, d < c.mantissaRadix := by
  unfold sliceDigits
  split
  · rename_i ds b' h
    have : ({ c with debug := false } : Cfg).mantissaRadix = c.mantissaRadix := rfl
    exact parseDigitsLoop_lt _ k _ _ _ _ _ h
  · intro d hd; simp at hd

/-- `to_native!` attaches the sign exactly as `roundSigned` does -/
theorem toNative_eq (F : FTy) (fp : ExtendedFloat80) (neg : Bool) {num den : Nat}
    (h : extendedToFloat F fp = roundNE F.fmt num den) :
    toNative F fp neg = roundSigned F.fmt neg num den := by
  unfold toNative FastPath.withSign roundSigned
  rw [h]
  cases neg <;> simp

end LexVerif.Proof.Pipeline
