import LexVerif.Proof.SepEnable1
/-!
# Proof.SepEnable2 — if the predicate of a component holds at the start of every separator run inside the component's
part `[a, z)` of the input (digits and separators, terminated at `z` by a byte that is neither), the digit run of the
component started at `a` ends at `z`: it does not stop on a separator
-/
set_option linter.unusedSimpArgs false
namespace LexVerif.Proof.Sep
open LexVerif LexVerif.Model LexVerif.Spec
open LexVerif.Props.C12

theorem slice_succ (s : List Nat) (a i x : Nat) (h : a ≤ i) (hx : s[i]? = some x) :
    slice s a (i + 1) = slice s a i ++ [x] := by
  rw [slice_append s a i (i + 1) h (by omega), slice_one s i x hx]

/-- **a digit run runs to the terminator** -/
theorem run_to_term (c : Cfg) (k : Comp) (p : Pred) (hk : c.skip k = .pred p) (hd : c.debug = false)
    (hc : c.iterContiguous k = false) (hf : c.feats.format = true) (hks : k ≠ .special) (r : Nat)
    (hsepr : ∀ x, c.isSep x = true → charToDigit x r = none)
    (s : List Nat) (a z : Nat) (hz : z ≤ s.length)
    (hbody : ∀ i, a ≤ i → i < z → ∀ x, s[i]? = some x → c.isSep x = true ∨ (charToDigit x r).isSome = true)
    (hterm : ∀ x, s[z]? = some x → c.isSep x = false ∧ charToDigit x r = none)
    (hE : ∀ i, a ≤ i → i < z → ∀ x, s[i]? = some x → c.isSep x = true →
      (i = a ∨ ∃ y, s[i - 1]? = some y ∧ c.isSep y = false) →
      p.holds c (nbr c s i) ((slice s a i).all c.isSep) = true)
    (hsingle : p.consecutive = false → ∀ i, a ≤ i → i + 1 < z → ∀ x y, s[i]? = some x → s[i + 1]? = some y →
      c.isSep x = true → c.isSep y = false) :
    ∀ (fuel : Nat) (bb ee : Bytes) (dd : List Nat),
      parseDigitsLoop c k r fuel bb = .ok (dd, ee) → bb.slc = s → a ≤ bb.index → bb.index ≤ z →
      (Bytes.iterCount c k bb == 0) = (slice s a bb.index).all c.isSep →
      (∀ x, s[bb.index]? = some x → c.isSep x = true → bb.index = a ∨ ∃ y, s[bb.index - 1]? = some y ∧ c.isSep y = false) →
      ee.index = z := by
  intro fuel
  induction fuel with
  | zero => intro bb ee dd h; simp [parseDigitsLoop] at h
  | succ n ih =>
    intro bb ee dd h hbs hab hbz hcnt hstart
    -- the common continuation after `peek` landed on `i1` (a non-separator, or the terminator position)
    have cont : ∀ (i1 : Nat) (bb1 : Bytes), bb1 = { bb with index := i1 } → bb.index ≤ i1 → i1 ≤ z →
        (∀ x, s[i1]? = some x → c.isSep x = false) →
        (slice s a i1).all c.isSep = (slice s a bb.index).all c.isSep →
        (match bb.slc[i1]? with
          | none => (pure ([], bb1) : Except Err (List Nat × Bytes))
          | some ch =>
            match charToDigit ch r with
            | none => pure ([], bb1)
            | some d => do
              let b ← iterStep c k bb1
              let (ds, b) ← parseDigitsLoop c k r n (b.incCount c k)
              pure (d :: ds, b)) = .ok (dd, ee) → ee.index = z := by
      intro i1 bb1 hbb1 h1 h2 hns hall hm
      subst hbb1
      by_cases hlt : i1 < z
      · have hin : i1 < s.length := by omega
        have hx := List.getElem?_eq_getElem hin
        have hx' : bb.slc[i1]? = some s[i1] := by rw [hbs]; exact hx
        rw [hx'] at hm
        simp only at hm
        cases hdg : charToDigit s[i1] r with
        | none =>
          exfalso
          rcases hbody i1 (by omega) hlt _ hx with h0 | h0
          · rw [hns _ hx] at h0; cases h0
          · rw [hdg] at h0; cases h0
        | some d =>
          simp only [hdg, iterStep, stepUnchecked_release c _ _ hd, bind, Except.bind] at hm
          cases hrec : parseDigitsLoop c k r n
              (Bytes.incCount c k { ({ bb with index := i1 } : Bytes) with index := i1 + 1 }) with
          | error er => simp only [hrec] at hm; cases hm
          | ok r2 =>
            obtain ⟨ds2, b2⟩ := r2
            simp only [hrec, pure, Except.pure, Except.ok.injEq, Prod.mk.injEq] at hm
            obtain ⟨_, rfl⟩ := hm
            have hi1 := incCount_spec c k { ({ bb with index := i1 } : Bytes) with index := i1 + 1 }
            refine ih _ _ _ hrec (by rw [hi1.1]; exact hbs) (by rw [hi1.2]; simp only; omega)
              (by rw [hi1.2]; simp only; omega) ?_ ?_
            · -- one digit counted, and the slice now contains a non-separator
              rw [hi1.2]
              simp only
              rw [slice_succ s a i1 _ (by omega) hx, List.all_append]
              have : c.isSep s[i1] = false := hns _ hx
              simp only [List.all_cons, this, Bool.false_and, Bool.and_false]
              cases k <;> simp_all [Bytes.iterCount, Bytes.incCount]
            · intro x hx2 hs2
              rw [hi1.2] at hx2 ⊢
              simp only at hx2 ⊢
              right
              exact ⟨s[i1], by simpa using hx, hns _ hx⟩
      · have hie : i1 = z := by omega
        subst hie
        cases hsv : s[i1]? with
        | none =>
          have hsv' : bb.slc[i1]? = none := by rw [hbs]; exact hsv
          rw [hsv'] at hm
          simp only [pure, Except.pure, Except.ok.injEq, Prod.mk.injEq] at hm
          rw [← hm.2]
        | some ch =>
          have hsv' : bb.slc[i1]? = some ch := by rw [hbs]; exact hsv
          rw [hsv'] at hm
          simp only [(hterm ch hsv).2, pure, Except.pure, Except.ok.injEq, Prod.mk.injEq] at hm
          rw [← hm.2]
    rw [parseDigitsLoop.eq_2, peek_pred c k p hk] at h
    simp only [bind, Except.bind] at h
    by_cases hlt : bb.index < z
    · have hin : bb.index < s.length := by omega
      have hgs : bb.slc[bb.index]? = some s[bb.index] := by rw [hbs]; exact List.getElem?_eq_getElem hin
      have hx := List.getElem?_eq_getElem hin
      cases hs : c.isSep s[bb.index] with
      | false =>
        simp only [peekPred, hgs, hs, Bool.false_eq_true, if_false] at h
        refine cont bb.index bb rfl (Nat.le_refl _) hbz (by intro x hx2; rw [hx] at hx2; cases hx2; exact hs) rfl ?_
        rw [hgs]; exact h
      | true =>
        have hh : p.holds c (nbr c bb.slc bb.index) (bb.iterCount c k == 0) = true := by
          rw [hcnt, hbs]; exact hE bb.index hab hlt _ hx hs (hstart _ hx hs)
        simp only [peekPred, hgs, hs, if_true, hh] at h
        by_cases hcons : p.consecutive = true
        · simp only [hcons, if_true] at h
          -- the cursor lands behind the run of separators, which ends at or before `z`
          have hcs := countSeps_all c (bb.slc.drop (bb.index + 1))
          have hstop := countSeps_stop c (bb.slc.drop (bb.index + 1))
          have hle1 : bb.index + 1 + countSeps c (bb.slc.drop (bb.index + 1)) ≤ z := by
            by_cases hq : bb.index + 1 + countSeps c (bb.slc.drop (bb.index + 1)) ≤ z
            · exact hq
            · exfalso
              -- then `z` lies inside the run of separators, but `s[z]` is no separator
              have hzin : z - (bb.index + 1) < countSeps c (bb.slc.drop (bb.index + 1)) := by omega
              have hzl : z < s.length := by
                have := countSeps_le c (bb.slc.drop (bb.index + 1))
                have hl : bb.slc.length = s.length := by rw [hbs]
                simp only [List.length_drop] at this; omega
              have hmem : s[z] ∈ (bb.slc.drop (bb.index + 1)).take (countSeps c (bb.slc.drop (bb.index + 1))) := by
                apply List.mem_of_getElem? (i := z - (bb.index + 1))
                rw [List.getElem?_take, if_pos hzin, List.getElem?_drop, hbs]
                have : bb.index + 1 + (z - (bb.index + 1)) = z := by omega
                rw [this]; exact List.getElem?_eq_getElem hzl
              have := List.all_eq_true.mp hcs _ hmem
              rw [(hterm _ (List.getElem?_eq_getElem hzl)).1] at this; cases this
          refine cont (bb.index + 1 + countSeps c (bb.slc.drop (bb.index + 1))) _ rfl (by omega) hle1 ?_ ?_ ?_
          · intro x hx2
            exact hstop x (by rw [List.getElem?_drop]; rw [hbs] at hx2 ⊢; exact hx2)
          · rw [slice_append s a bb.index _ hab (by omega), List.all_append]
            have : (slice s bb.index (bb.index + 1 + countSeps c (bb.slc.drop (bb.index + 1)))).all c.isSep = true := by
              rw [slice_append s bb.index (bb.index + 1) _ (by omega) (by omega), slice_one s _ _ hx, List.all_append]
              simp only [List.all_cons, hs, List.all_nil, Bool.and_true, Bool.true_and]
              rw [slice_drop, ← hbs]; exact hcs
            rw [this, Bool.and_true]
          · exact h
        · have hcons' : p.consecutive = false := by simpa using hcons
          simp only [hcons', Bool.false_eq_true, if_false] at h
          refine cont (bb.index + 1) _ rfl (by omega) (by omega) ?_ ?_ h
          · intro y hy
            by_cases hl2 : bb.index + 1 < z
            · exact hsingle hcons' bb.index hab hl2 _ y hx hy hs
            · have : bb.index + 1 = z := by omega
              rw [this] at hy; exact (hterm y hy).1
          · rw [slice_succ s a bb.index _ hab hx, List.all_append]
            simp only [List.all_cons, hs, List.all_nil, Bool.and_true]
    · have hie : bb.index = z := by omega
      cases hsv : s[bb.index]? with
      | none =>
        have hgs : bb.slc[bb.index]? = none := by rw [hbs]; exact hsv
        simp only [peekPred, hgs, pure, Except.pure, Except.ok.injEq, Prod.mk.injEq] at h
        rw [← h.2]; exact hie
      | some ch =>
        have hgs : bb.slc[bb.index]? = some ch := by rw [hbs]; exact hsv
        have ht := hterm ch (by rw [← hie]; exact hsv)
        simp only [peekPred, hgs, ht.1, Bool.false_eq_true, if_false, ht.2, pure, Except.pure, Except.ok.injEq,
          Prod.mk.injEq] at h
        rw [← h.2]; exact hie

end LexVerif.Proof.Sep
