import LexVerif.Model.ParseIntFormat
import LexVerif.Proof.ParseIntMain
/-!
# Proof.ParseIntFormatSimple — the format-feature integer model on formats without integer separators / suffix

For a release build and a format without integer separator flags and without base suffix (`Simple`; the digit-separator
byte and the fraction / exponent separator flags are arbitrary), every digit loop of `Model.ParseIntFormat` is the
corresponding loop of `Model.ParseInt` (the model of the build WITHOUT the `format` feature) run on `as_slice()`,
whatever the iterator's `integer_count` is (the multi-digit blocks change it, nothing reads it).
-/
namespace LexVerif.Proof.PIF
open LexVerif LexVerif.Spec LexVerif.Model LexVerif.Model.ParseIntFormat

/-- embedding of the results of the format-free model -/
def ofM : ParseInt.MRes → Res
  | .done (.ok v n) => .ok (v, n)
  | .done (.empty i) => err "Empty" i
  | .done (.invalidDigit i) => err "InvalidDigit" i
  | .done (.overflow i) => err "Overflow" i
  | .done (.underflow i) => err "Underflow" i
  | .done (.invalidNegativeSign i) => err "InvalidNegativeSign" i
  | .fault => .error (.fault "unchecked")

/-- release build; no integer separator flags (= contiguous integer iterator), no base suffix. The digit-separator
byte and the separator flags of the fraction / exponent are ARBITRARY: since repo fix 12a2453 a contiguous component
iterator counts by its cursor also when the buffer is non-contiguous, so nothing in the integer parser looks at the
separator byte (a separator byte in the input is an ordinary non-digit). -/
structure Simple (c : Cfg) : Prop where
  hf : c.feats.format = true
  hd : c.debug = false
  flags : c.sepFlags .integer = SepFlags.none
  suf : c.fmt.baseSuffix = 0

variable {c : Cfg}

theorem Simple.contig (h : Simple c) : c.iterContiguous .integer = true := by
  simp [Cfg.iterContiguous, h.flags, SepFlags.none, SepFlags.any]

theorem Simple.skip (h : Simple c) : c.skip .integer = .noskip := by
  simp [Cfg.skip, h.flags, SepFlags.none, SepFlags.skip]

theorem Simple.baseSuffix (h : Simple c) : c.baseSuffix = 0 := by
  simp [Cfg.baseSuffix, h.hf, h.suf]

theorem Simple.peek (h : Simple c) (b : Bytes) : peek c .integer b = .ok (b.slc[b.index]?, b) := by
  simp [Model.peek, h.skip]

theorem Simple.count (h : Simple c) (b : Bytes) : b.iterCount c .integer = b.index := by
  simp [Bytes.iterCount, h.contig]

/-- `integer_count` is invisible to a contiguous integer iterator (repo fix 12a2453): see `Model.ParseIntFormat.multiLoop` -/
theorem iterCount_ic_irrelevant (c : Cfg) (h : c.iterContiguous .integer = true) (b : Bytes) (x : Nat) :
    ({ b with ic := x } : Bytes).iterCount c .integer = b.iterCount c .integer := by
  simp [Bytes.iterCount, h]

theorem Simple.iterNext (h : Simple c) (b : Bytes) :
    iterNext c .integer b =
      .ok (match b.slc[b.index]? with
           | none => (none, b)
           | some x => (some x, { b with index := b.index + 1 })) := by
  simp only [Model.iterNext, h.peek, bind, Except.bind, h.contig]
  cases b.slc[b.index]? <;> simp [pure, Except.pure]

theorem Simple.iterStep (h : Simple c) (b : Bytes) : iterStep c .integer b = .ok { b with index := b.index + 1 } := by
  simp [Model.iterStep, Bytes.stepUnchecked, Bytes.stepBy, h.hd]

theorem Simple.bstep (h : Simple c) (b : Bytes) : b.step c = .ok { b with index := b.index + 1 } := by
  simp [Bytes.step, Bytes.stepUnchecked, Bytes.stepBy, h.hd]

/-- a list position: the byte under the cursor and the rest -/
theorem drop_of_get {s : List Nat} {i x : Nat} (h : s[i]? = some x) : s.drop i = x :: s.drop (i + 1) := by
  rcases List.getElem?_eq_some_iff.mp h with ⟨hl, hx⟩
  rw [← hx]; exact List.drop_eq_getElem_cons hl

theorem drop_of_none {s : List Nat} {i : Nat} (h : s[i]? = none) : s.drop i = [] := by
  rw [List.getElem?_eq_none_iff] at h; exact List.drop_eq_nil_of_le h

/-! ## the digit loops -/

/-- translation of a loop result of `Model.ParseInt` (value, cursor) into the iterator state -/
def conv (b : Bytes) : ParseInt.Flow (Nat × Nat) → Flow (Bytes × Nat)
  | .ok (v, cur) => .ok ({ b with index := cur }, v)
  | .error m => .error (ofM m)

theorem invalidDigit_simple (e : Env) (value idx cnt : Nat) (hi : 1 ≤ idx) (hc : cnt ≠ 0) :
    invalidDigit e value idx cnt = ofM (ParseInt.invalidDigit e.t e.partial_ value idx) := by
  have h1 : usizeSub e.c.debug idx 1 = .ok (idx - 1) := by simp [usizeSub, hi]
  simp only [invalidDigit, h1, ParseInt.invalidDigit]
  cases e.partial_ <;> simp [intoOk, ParseInt.intoOk, ofM, hc]

theorem fmtInvalidDigit_simple (e : Env) (hs : Simple e.c) (b : Bytes) (ch start value : Nat) (isEnd : Bool)
    (hi : 1 ≤ b.index) :
    fmtInvalidDigit e b ch start value isEnd =
      .ret (ofM (ParseInt.invalidDigit e.t e.partial_ value b.index)) := by
  simp only [fmtInvalidDigit, hs.hd, hs.baseSuffix, Bool.false_and, ne_eq, not_true_eq_false, if_false,
    Bytes.cursor, hs.count]
  rw [invalidDigit_simple e value b.index b.index hi (by omega)]
  simp

theorem parse1Unchecked_simple (e : Env) (hs : Simple e.c) (sub isEnd : Bool) (start : Nat) :
    ∀ (fuel : Nat) (b : Bytes) (value : Nat), b.slc.length - b.index < fuel →
      parse1Unchecked e sub isEnd start fuel b value =
        conv b (ParseInt.parse1Unchecked e.t e.radix e.partial_ sub (b.slc.drop b.index) value b.index) := by
  intro fuel
  induction fuel with
  | zero => intro b v h; omega
  | succ n ih =>
    intro b value hf
    rw [parse1Unchecked, hs.iterNext]
    cases hg : b.slc[b.index]? with
    | none => simp [drop_of_none hg, ParseInt.parse1Unchecked, conv]
    | some x =>
      have hlt : b.index < b.slc.length := (List.getElem?_eq_some_iff.mp hg).1
      simp only [drop_of_get hg, ParseInt.parse1Unchecked]
      cases hd : ParseInt.charToDigit x e.radix with
      | none =>
        simp only
        rw [fmtInvalidDigit_simple e hs _ x start value isEnd (by simp)]
        simp [conv]
      | some d =>
        simp only
        rw [ih _ _ (by simp only; omega)]
        simp [conv, Env.radixT]

theorem parse1Checked_simple (e : Env) (hs : Simple e.c) (sub : Bool) (start : Nat) :
    ∀ (fuel : Nat) (b : Bytes) (value : Nat), b.slc.length - b.index < fuel →
      parse1Checked e sub start fuel b value =
        conv b (ParseInt.parse1Checked e.t e.radix e.partial_ sub (b.slc.drop b.index) value b.index) := by
  intro fuel
  induction fuel with
  | zero => intro b v h; omega
  | succ n ih =>
    intro b value hf
    rw [parse1Checked, hs.iterNext]
    cases hg : b.slc[b.index]? with
    | none => simp [drop_of_none hg, ParseInt.parse1Checked, conv]
    | some x =>
      have hlt : b.index < b.slc.length := (List.getElem?_eq_some_iff.mp hg).1
      simp only [drop_of_get hg, ParseInt.parse1Checked]
      cases hd : ParseInt.charToDigit x e.radix with
      | none =>
        simp only
        rw [fmtInvalidDigit_simple e hs _ x start value true (by simp)]
        simp [conv]
      | some d =>
        simp only [Env.radixT]
        cases hm : ParseInt.mulAddChecked e.t sub value (e.radix % 2 ^ e.t.bits) d with
        | some v =>
          simp only
          rw [ih _ _ (by simp only; omega)]
          simp [conv]
        | none =>
          simp only [Bytes.cursor, usizeSub]
          cases sub <;> simp [conv, ofM, err]

theorem loop8_error (t : IntTy) (r : Nat) (sub : Bool) (rest : List Nat) (v cur : Nat) (m : ParseInt.MRes)
    (h : ParseInt.loop8 t r sub rest v cur = .error m) : m = .fault := by
  fun_induction ParseInt.loop8 t r sub rest v cur <;> simp_all

theorem loop4_error (t : IntTy) (r : Nat) (sub : Bool) (rest : List Nat) (v cur : Nat) (m : ParseInt.MRes)
    (h : ParseInt.loop4 t r sub rest v cur = .error m) : m = .fault := by
  fun_induction ParseInt.loop4 t r sub rest v cur <;> simp_all

theorem multiLoop_simple (e : Env) (hs : Simple e.c) (sub : Bool) (b : Bytes) (value : Nat) :
    multiLoop e sub b value =
      (let useMulti := ParseInt.canMulti e.c.feats e.radix && !e.noMulti
       let multi : ParseInt.Flow (List Nat × Nat × Nat) :=
         if useMulti && decide (e.t.bits ≥ 64) && decide (b.bufferLength ≥ 8) then
           ParseInt.loop8 e.t e.radix sub b.asSlice value b.index
         else if useMulti && decide (e.t.bits = 32) && decide (b.bufferLength ≥ 4) then
           ParseInt.loop4 e.t e.radix sub b.asSlice value b.index
         else .ok (b.asSlice, value, b.index)
       match multi with
       | .error m => .error (ofM m)
       | .ok (_, value, cursor) => .ok ({ b with index := cursor, ic := b.ic + (cursor - b.index) }, value)) := by
  simp only [multiLoop, Env.contig, hs.contig, hs.hd, hs.hf, Bool.true_and, Bool.false_and, if_false, if_true]
  by_cases h8 : (ParseInt.canMulti e.c.feats e.radix && !e.noMulti && decide (e.t.bits ≥ 64) && decide (b.bufferLength ≥ 8)) = true
  · simp only [h8, Bool.true_or, if_true]
    cases hl : ParseInt.loop8 e.t e.radix sub b.asSlice value b.index with
    | error m => rw [loop8_error _ _ _ _ _ _ m hl]; rfl
    | ok r => rfl
  · simp only [h8, Bool.false_or, if_false]
    by_cases h4 : (ParseInt.canMulti e.c.feats e.radix && !e.noMulti && decide (e.t.bits = 32) && decide (b.bufferLength ≥ 4)) = true
    · simp only [h4, if_true]
      cases hl : ParseInt.loop4 e.t e.radix sub b.asSlice value b.index with
      | error m => rw [loop4_error _ _ _ _ _ _ m hl]; rfl
      | ok r => rfl
    · simp [h4]

theorem loop8_ok (t : IntTy) (r : Nat) (sub : Bool) (rest : List Nat) (v cur : Nat) (rest' : List Nat) (v' cur' : Nat)
    (h : ParseInt.loop8 t r sub rest v cur = .ok (rest', v', cur')) :
    ∃ k, k ≤ rest.length ∧ rest' = rest.drop k ∧ cur' = cur + k := by
  fun_induction ParseInt.loop8 t r sub rest v cur with
  | case1 b0 b1 b2 b3 b4 b5 b6 b7 tl value cursor bytes h8 hlen => cases h
  | case2 b0 b1 b2 b3 b4 b5 b6 b7 tl value cursor bytes h8 hlen ih =>
    obtain ⟨k, hk0, hk1, hk2⟩ := ih h
    exact ⟨k + 8, by simp only [List.length_cons]; omega, by simp [hk1], by omega⟩
  | case3 => simp only [Except.ok.injEq, Prod.mk.injEq] at h; exact ⟨0, by omega, by simp [h.1], by omega⟩
  | case4 => simp only [Except.ok.injEq, Prod.mk.injEq] at h; exact ⟨0, by omega, by simp [h.1], by omega⟩

theorem loop4_ok (t : IntTy) (r : Nat) (sub : Bool) (rest : List Nat) (v cur : Nat) (rest' : List Nat) (v' cur' : Nat)
    (h : ParseInt.loop4 t r sub rest v cur = .ok (rest', v', cur')) :
    ∃ k, k ≤ rest.length ∧ rest' = rest.drop k ∧ cur' = cur + k := by
  fun_induction ParseInt.loop4 t r sub rest v cur with
  | case1 b0 b1 b2 b3 tl value cursor bytes h8 hlen => cases h
  | case2 b0 b1 b2 b3 tl value cursor bytes h8 hlen ih =>
    obtain ⟨k, hk0, hk1, hk2⟩ := ih h
    exact ⟨k + 4, by simp only [List.length_cons]; omega, by simp [hk1], by omega⟩
  | case3 => simp only [Except.ok.injEq, Prod.mk.injEq] at h; exact ⟨0, by omega, by simp [h.1], by omega⟩
  | case4 => simp only [Except.ok.injEq, Prod.mk.injEq] at h; exact ⟨0, by omega, by simp [h.1], by omega⟩

/-- `x` = the `integer_count` the multi-digit blocks leave behind (`b.ic + 8·blocks`, `Model.ParseIntFormat.multiLoop`) -/
theorem parseDigitsUnchecked_simple (e : Env) (hs : Simple e.c) (sub isEnd : Bool) (start : Nat) (b : Bytes)
    (value : Nat) :
    ∃ x, parseDigitsUnchecked e sub isEnd start b value =
      conv { b with ic := x } (ParseInt.parseDigitsUnchecked e.t e.radix e.c.feats e.partial_ e.noMulti sub b.asSlice
        b.index b.bufferLength value) := by
  have tail : ∀ (x : Nat) (rest' : List Nat) (v' cur' : Nat),
      (∃ k, k ≤ b.asSlice.length ∧ rest' = b.asSlice.drop k ∧ cur' = b.index + k) →
      parse1Unchecked e sub isEnd start (b.slc.length + 1) { b with index := cur', ic := x } v' =
        conv { b with ic := x } (ParseInt.parse1Unchecked e.t e.radix e.partial_ sub rest' v' cur') := by
    intro x rest' v' cur' ⟨k, _, h1, h2⟩
    rw [parse1Unchecked_simple e hs sub isEnd start _ _ _ (by simp only; omega)]
    simp only [h1, h2, Bytes.asSlice, List.drop_drop]
    cases ParseInt.parse1Unchecked e.t e.radix e.partial_ sub (List.drop (b.index + k) b.slc) v' (b.index + k) with
    | ok r => rfl
    | error m => rfl
  simp only [parseDigitsUnchecked, multiLoop_simple e hs, ParseInt.parseDigitsUnchecked]
  by_cases h8 : (ParseInt.canMulti e.c.feats e.radix && !e.noMulti && decide (e.t.bits ≥ 64) && decide (b.bufferLength ≥ 8)) = true
  · simp only [h8, if_true]
    cases hl : ParseInt.loop8 e.t e.radix sub b.asSlice value b.index with
    | error m => exact ⟨b.ic, by simp [conv]⟩
    | ok r =>
      obtain ⟨rest', v', cur'⟩ := r
      simp only
      exact ⟨_, tail _ rest' v' cur' (loop8_ok _ _ _ _ _ _ _ _ _ hl)⟩
  · simp only [h8, if_false]
    by_cases h4 : (ParseInt.canMulti e.c.feats e.radix && !e.noMulti && decide (e.t.bits = 32) && decide (b.bufferLength ≥ 4)) = true
    · simp only [h4, if_true]
      cases hl : ParseInt.loop4 e.t e.radix sub b.asSlice value b.index with
      | error m => exact ⟨b.ic, by simp [conv]⟩
      | ok r =>
        obtain ⟨rest', v', cur'⟩ := r
        exact ⟨_, tail _ rest' v' cur' (loop4_ok _ _ _ _ _ _ _ _ _ hl)⟩
    · simp only [h4, if_false]
      exact ⟨_, tail _ b.asSlice value b.index ⟨0, by omega, by simp, by omega⟩⟩

theorem parseDigitsChecked_simple (e : Env) (hs : Simple e.c) (sub : Bool) (start : Nat) (b : Bytes) (value od : Nat) :
    parseDigitsChecked e sub start b value od =
      conv b (ParseInt.parseDigitsChecked e.t e.radix e.c.feats e.partial_ e.noMulti sub b.asSlice b.index
        b.bufferLength value od) := by
  simp only [parseDigitsChecked, Env.contig, hs.contig, if_true, ParseInt.parseDigitsChecked, Bytes.bufferLength]
  by_cases hlt : min b.slc.length (od + b.index) < b.index
  · simp [hlt, conv, ofM]
  · have hle : b.index ≤ min b.slc.length (od + b.index) := Nat.le_of_not_lt hlt
    have h2 : ¬ b.slc.length < min b.slc.length (od + b.index) := by omega
    simp only [hlt, if_false, h2]
    obtain ⟨x, hx⟩ := parseDigitsUnchecked_simple e hs sub false start
      ⟨b.slc.take (min b.slc.length (od + b.index)), b.index, 0, 0, 0⟩ value
    rw [hx]
    have hs1 : (⟨b.slc.take (min b.slc.length (od + b.index)), b.index, 0, 0, 0⟩ : Bytes).asSlice =
        b.asSlice.take (min b.slc.length (od + b.index) - b.index) := by
      simp only [Bytes.asSlice, List.drop_take]
    have hs2 : (⟨b.slc.take (min b.slc.length (od + b.index)), b.index, 0, 0, 0⟩ : Bytes).bufferLength =
        min b.slc.length (od + b.index) := by
      simp only [Bytes.bufferLength, List.length_take]; omega
    rw [hs1, hs2]
    cases ParseInt.parseDigitsUnchecked e.t e.radix e.c.feats e.partial_ e.noMulti sub
        (b.asSlice.take (min b.slc.length (od + b.index) - b.index)) b.index (min b.slc.length (od + b.index)) value with
    | error m => simp [conv]
    | ok r =>
      obtain ⟨v', cur'⟩ := r
      simp only [conv]
      rw [parse1Checked_simple e hs sub start _ _ _ (by simp only; omega)]
      have hd : List.drop (min b.slc.length (od + b.index) - b.index) b.asSlice =
          List.drop (min b.slc.length (od + b.index)) b.slc := by
        simp only [Bytes.asSlice, List.drop_drop]; congr 1; omega
      simp only [hd]
      cases ParseInt.parse1Checked e.t e.radix e.partial_ sub (List.drop (min b.slc.length (od + b.index)) b.slc) v'
          (min b.slc.length (od + b.index)) with
      | ok r => rfl
      | error m => rfl

/-! ## a loop of `Model.ParseInt` that falls through has consumed everything -/

theorem p1u_ok (t : IntTy) (r : Nat) (p sub : Bool) (cs : List Nat) (v cur v' cur' : Nat)
    (h : ParseInt.parse1Unchecked t r p sub cs v cur = .ok (v', cur')) : cur' = cur + cs.length := by
  induction cs generalizing v cur with
  | nil => simp only [ParseInt.parse1Unchecked, Except.ok.injEq, Prod.mk.injEq] at h; simp [h.2]
  | cons c cs ih =>
    simp only [ParseInt.parse1Unchecked] at h
    cases hd : ParseInt.charToDigit c r with
    | none => simp [hd] at h
    | some d => simp only [hd] at h; have := ih _ _ h; simp only [List.length_cons]; omega

theorem p1c_ok (t : IntTy) (r : Nat) (p sub : Bool) (cs : List Nat) (v cur v' cur' : Nat)
    (h : ParseInt.parse1Checked t r p sub cs v cur = .ok (v', cur')) : cur' = cur + cs.length := by
  induction cs generalizing v cur with
  | nil => simp only [ParseInt.parse1Checked, Except.ok.injEq, Prod.mk.injEq] at h; simp [h.2]
  | cons c cs ih =>
    simp only [ParseInt.parse1Checked] at h
    cases hd : ParseInt.charToDigit c r with
    | none => simp [hd] at h
    | some d =>
      simp only [hd] at h
      cases hm : ParseInt.mulAddChecked t sub v (r % 2 ^ t.bits) d with
      | none => simp [hm] at h
      | some w => simp only [hm] at h; have := ih _ _ h; simp only [List.length_cons]; omega

theorem pdu_ok (t : IntTy) (r : Nat) (feats : Features) (p nm sub : Bool) (rest : List Nat) (cur bufLen v v' cur' : Nat)
    (h : ParseInt.parseDigitsUnchecked t r feats p nm sub rest cur bufLen v = .ok (v', cur')) :
    cur' = cur + rest.length := by
  simp only [ParseInt.parseDigitsUnchecked] at h
  split at h
  · cases h
  · next rest1 v1 cur1 hm =>
    have key : ∃ k, k ≤ rest.length ∧ rest1 = rest.drop k ∧ cur1 = cur + k := by
      split at hm
      · exact loop8_ok _ _ _ _ _ _ _ _ _ hm
      · split at hm
        · exact loop4_ok _ _ _ _ _ _ _ _ _ hm
        · simp only [Except.ok.injEq, Prod.mk.injEq] at hm
          exact ⟨0, by omega, by simp [hm.1], by omega⟩
    obtain ⟨k, hk0, hk1, hk2⟩ := key
    have := p1u_ok _ _ _ _ _ _ _ _ _ h
    rw [this, hk1, hk2, List.length_drop]; omega

theorem pdc_ok (t : IntTy) (r : Nat) (feats : Features) (p nm sub : Bool) (rest : List Nat) (cur v od v' cur' : Nat)
    (h : ParseInt.parseDigitsChecked t r feats p nm sub rest cur (cur + rest.length) v od = .ok (v', cur')) :
    cur' = cur + rest.length := by
  simp only [ParseInt.parseDigitsChecked] at h
  split at h
  · cases h
  · split at h
    · cases h
    · split at h
      · cases h
      · have := p1c_ok _ _ _ _ _ _ _ _ _ h
        rw [this, List.length_drop]; omega

/-! ## the digit phase -/

theorem digitsPhase_simple (e : Env) (hs : Simple e.c) (isNeg : Bool) (b : Bytes) (start : Nat)
    (hle : b.index ≤ b.slc.length) (hpos : 0 < b.slc.length) :
    (match digitsPhase e isNeg b start with | .ok r => r | .error r => r) =
      ofM (LexVerif.Proof.ParseInt.body e.c.feats e.t e.radix e.partial_ e.noMulti isNeg b.asSlice b.index b.slc.length) := by
  have hlen : b.index + b.asSlice.length = b.slc.length := by simp only [Bytes.asSlice, List.length_drop]; omega
  simp only [digitsPhase, digitsBody, negBlock, mainBlock, hs.hd, Bool.false_and, Bool.false_eq_true, if_false,
    LexVerif.Proof.ParseInt.body]
  have fin : ∀ (x : Nat) (st : ParseInt.Flow (Nat × Nat)), (∀ v c, st = .ok (v, c) → c = b.slc.length) →
      (match (match conv { b with ic := x } st with
              | .error r => .error r
              | .ok (b, value) => .ok (intoOk e value b.bufferLength (b.iterCount e.c .integer)) : Flow Res) with
       | .ok r => r | .error r => r) =
      ofM (match st with | .error m => m | .ok (value, _) => ParseInt.intoOk e.t value b.slc.length) := by
    intro x st hst
    cases st with
    | error m => simp [conv]
    | ok r =>
      obtain ⟨v2, cur2⟩ := r
      have hc := hst v2 cur2 rfl
      have : (cur2 == 0) = false := by simp; omega
      simp [conv, hs.count, intoOk, ParseInt.intoOk, ofM, Bytes.bufferLength, this]
  cases hco : decide (b.asSlice.length ≤ ParseInt.overflowDigits e.t e.radix) with
  | true =>
    cases isNeg with
    | true =>
      simp only [Bool.and_self, if_true]
      obtain ⟨x1, hx1⟩ := parseDigitsUnchecked_simple e hs true true start b 0
      rw [hx1]
      simp only [Bytes.bufferLength]
      cases hu : ParseInt.parseDigitsUnchecked e.t e.radix e.c.feats e.partial_ e.noMulti true b.asSlice b.index
          b.slc.length 0 with
      | error m => simp [conv]
      | ok r =>
        obtain ⟨v1, cur1⟩ := r
        have hc1 := pdu_ok _ _ _ _ _ _ _ _ _ _ _ _ hu
        simp only [conv]
        obtain ⟨x2, hx2⟩ := parseDigitsUnchecked_simple e hs false true start ⟨b.slc, cur1, x1, b.fc, b.ec⟩ v1
        rw [hx2]
        have hnil : (⟨b.slc, cur1, x1, b.fc, b.ec⟩ : Bytes).asSlice = [] := by
          simp only [Bytes.asSlice]; apply List.drop_eq_nil_of_le; omega
        simp only [hnil, Bytes.bufferLength]
        have := fin x2 (ParseInt.parseDigitsUnchecked e.t e.radix e.c.feats e.partial_ e.noMulti false [] cur1
          b.slc.length v1) (by
            intro v c hvc
            have := pdu_ok _ _ _ _ _ _ _ _ _ _ _ _ hvc
            simp only [List.length_nil] at this; omega)
        simp only [conv] at this ⊢
        exact this
    | false =>
      simp only [Bool.and_false, Bool.false_eq_true, if_false, if_true]
      obtain ⟨x1, hx1⟩ := parseDigitsUnchecked_simple e hs false true start b 0
      rw [hx1]
      exact fin x1 _ (by intro v c hvc; have := pdu_ok _ _ _ _ _ _ _ _ _ _ _ _ hvc; omega)
  | false =>
    simp only [Bool.false_and, Bool.false_eq_true, if_false]
    cases isNeg with
    | true =>
      simp only [if_true]
      rw [parseDigitsChecked_simple e hs]
      exact fin b.ic _ (by
        intro v c hvc
        simp only [Bytes.bufferLength] at hvc
        have := pdc_ok _ _ _ _ _ _ _ _ _ _ _ _ (by rw [hlen]; exact hvc); omega)
    | false =>
      simp only [Bool.false_eq_true, if_false]
      rw [parseDigitsChecked_simple e hs]
      exact fin b.ic _ (by
        intro v c hvc
        simp only [Bytes.bufferLength] at hvc
        have := pdc_ok _ _ _ _ _ _ _ _ _ _ _ _ (by rw [hlen]; exact hvc); omega)

/-! ## sign, emptiness, assembly -/

/-- the sign byte the parser consumes: `+`, or `-` for a signed type -/
def hasSign (t : IntTy) (s : List Nat) : Bool := s.head? == some 43 || (s.head? == some 45 && t.signed)

/-- number of sign bytes consumed -/
def signLen (t : IntTy) (s : List Nat) : Nat := if hasSign t s then 1 else 0

/-- the two sign flags of the format (`no_positive_mantissa_sign`, `required_mantissa_sign`) in front of a result -/
def signGate (e : Env) (s : List Nat) (r : Res) : Res :=
  if s.head? = some 43 ∧ e.c.fmt.noPositiveMantissaSign = true then err "InvalidPositiveSign" 0
  else if e.c.fmt.requiredMantissaSign = true ∧ hasSign e.t s = false then err "MissingSign" 0
  else r

theorem parseSign_simple (e : Env) (hs : Simple e.c) (s : List Nat) :
    parseSign e (Bytes.new s) =
      if s.head? = some 43 ∧ e.c.fmt.noPositiveMantissaSign = true then .error (.err "InvalidPositiveSign" 0)
      else if e.c.fmt.requiredMantissaSign = true ∧ hasSign e.t s = false then .error (.err "MissingSign" 0)
      else .ok (decide (s.head? = some 45 ∧ e.t.signed = true), { slc := s, index := signLen e.t s }) := by
  have hnp : e.c.noPositiveMantissaSign = e.c.fmt.noPositiveMantissaSign := by
    simp [Cfg.noPositiveMantissaSign, Cfg.flag, hs.hf]
  have hrs : e.c.requiredMantissaSign = e.c.fmt.requiredMantissaSign := by
    simp [Cfg.requiredMantissaSign, Cfg.flag, hs.hf]
  cases s with
  | nil =>
    simp [parseSign, Bytes.new, Bytes.first, hrs, hasSign, signLen, Bytes.cursor]
  | cons x xs =>
    by_cases h43 : x = 43
    · subst h43
      simp only [parseSign, Bytes.new, Bytes.first, hnp, hrs, hs.bstep, Bytes.cursor, hasSign, signLen,
        List.getElem?_cons_zero, List.head?_cons, List.length_cons]
      cases e.c.fmt.noPositiveMantissaSign <;> cases e.c.fmt.requiredMantissaSign <;> simp
    · by_cases h45 : x = 45
      · subst h45
        simp only [parseSign, Bytes.new, Bytes.first, hnp, hrs, hs.bstep, Bytes.cursor, hasSign, signLen,
          List.getElem?_cons_zero, List.head?_cons, List.length_cons]
        by_cases hsg : e.t.signed = true <;> cases e.c.fmt.requiredMantissaSign <;> simp [hsg]
      · have hx : ∀ (α : Type) (a b c : α), (match (some x : Option Nat) with | some 43 => a | some 45 => b | _ => c) = c := by
          intro α a b c; split <;> simp_all
        simp only [parseSign, Bytes.new, Bytes.first, List.getElem?_cons_zero, hx, hrs, Bytes.cursor, hasSign, signLen,
          List.head?_cons]
        cases e.c.fmt.requiredMantissaSign <;> simp [h43, h45]

theorem plainSign_eq (t : IntTy) (s : List Nat) :
    ParseInt.parseSign t.signed s 0 =
      .ok (decide (s.head? = some 45 ∧ t.signed = true), s.drop (signLen t s), signLen t s) := by
  cases s with
  | nil => simp [ParseInt.parseSign, hasSign, signLen]
  | cons x xs =>
    by_cases h43 : x = 43
    · subst h43; simp [ParseInt.parseSign, hasSign, signLen]
    · by_cases h45 : x = 45
      · subst h45
        by_cases hsg : t.signed = true <;> simp [ParseInt.parseSign, hasSign, signLen, hsg]
      · have : ParseInt.parseSign t.signed (x :: xs) 0 = .ok (false, x :: xs, 0) := by
          unfold ParseInt.parseSign; split <;> simp_all
        simp [this, hasSign, signLen, h43, h45]

theorem prefixZeros_none (e : Env) (hs : Simple e.c) (hp : e.c.fmt.basePrefix = 0)
    (hz : e.c.fmt.noIntegerLeadingZeros = false) (b : Bytes) (start : Nat) : prefixZeros e b start = .ok (b, start) := by
  simp [prefixZeros, Cfg.basePrefix, hs.hf, hp, Cfg.flag, hz]

theorem toInt_zero (t : IntTy) : ParseInt.toInt t 0 = 0 := by
  have : 0 < 2 ^ (t.bits - 1) := Nat.pow_pos (by omega)
  simp only [ParseInt.toInt]
  split
  · omega
  · rfl

/-- **characterisation on simple formats** (release build; no separator, prefix, suffix, leading-zero flag): the
format-feature model is the format-free model behind the two sign flags, except that an input without any digit
byte is accepted as zero when the format requires no digits. -/
theorem parseIntFormat_simple_eq (e : Env) (hs : Simple e.c) (hp : e.c.fmt.basePrefix = 0)
    (hz : e.c.fmt.noIntegerLeadingZeros = false) (s : List Nat) :
    parseIntFormat e s =
      signGate e s
        (if e.requiredDigits = false ∧ signLen e.t s = s.length then .ok (0, s.length)
         else ofM (ParseInt.parseInt e.c.feats e.t e.radix e.partial_ e.noMulti s)) := by
  have hsl : signLen e.t s ≤ s.length := by
    unfold signLen hasSign; cases s <;> simp; split <;> omega
  simp only [parseIntFormat, algorithm, parseSign_simple e hs, signGate, LexVerif.Proof.ParseInt.parseInt_unfold,
    plainSign_eq]
  by_cases h1 : s.head? = some 43 ∧ e.c.fmt.noPositiveMantissaSign = true
  · simp [h1, err]
  · simp only [h1, if_false]
    by_cases h2 : e.c.fmt.requiredMantissaSign = true ∧ hasSign e.t s = false
    · simp [h2, err]
    · simp only [h2, if_false, Bytes.isBufferEmpty, Bytes.cursor, ge_iff_le]
      by_cases hemp : s.length ≤ signLen e.t s
      · have heq : signLen e.t s = s.length := by omega
        simp only [hemp, decide_true, if_true, heq]
        cases hr : e.requiredDigits with
        | true => simp [ofM]
        | false => simp [intoOk, hr, toInt_zero]
      · have hne : signLen e.t s ≠ s.length := by omega
        simp only [hemp, decide_false, Bool.false_eq_true, if_false, hne, and_false]
        rw [prefixZeros_none e hs hp hz]
        have := digitsPhase_simple e hs (decide (s.head? = some 45 ∧ e.t.signed = true))
          ⟨s, signLen e.t s, 0, 0, 0⟩ (signLen e.t s) (by simp only; omega) (by simp only; omega)
        simp only [Bytes.asSlice] at this
        exact this
