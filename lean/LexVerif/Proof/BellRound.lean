import LexVerif.Proof.BellMul
/-!
# Proof.BellRound — the decision of Bellerophon is sound

`errorIsAccurate_iff`: what `error_is_accurate` tests, in arithmetic: the truncated bits are at least
`errors` away from the half-way point.
`accurate_round`: let the true value, measured in units of the last place of the normalised 64-bit
significand `mant`, be `y` with `mant − errLo < y < mant + errors` (`errLo` small: the computed significand
over-estimates by at most a few units — round-half-up — while truncated tables and truncated digits make it
under-estimate by up to `errors`). If `error_is_accurate(errors, fp)` holds, then rounding `mant`
(`shared::round`, nearest/tie-even) gives `roundNE` of the **true** value.  Note that `errors`, booked in
eighths of a unit by `bellerophon`, is compared by `error_is_accurate` with the truncated bits in whole units
— this factor 8 is what makes the (otherwise under-booked) accounting safe.
-/
namespace LexVerif.Proof.Bell
open LexVerif.Spec LexVerif.Model LexVerif.Model.Bellerophon
open LexVerif.Proof.RoundNE LexVerif.Proof.ExtRound LexVerif.Proof.BinaryCorrect

/-- `error_is_accurate`, arithmetically (no denormal underflow: `−power2 + 1 ≤ 64`; `errors < 2^32`) -/
theorem errorIsAccurate_iff {F p eb} (lay : Layout F p eb) (mant errors : Nat) (power2 : Int)
    (hm : mant < 2 ^ 64) (he : errors < 2 ^ 32) (hp2 : -power2 + 1 ≤ 64) (hpp : 2 - (2 ^ 40 : Int) ≤ power2) :
    errorIsAccurate F errors ⟨mant, power2⟩ = true ↔
      (mant % 2 ^ shiftOf p power2 + errors ≤ 2 ^ (shiftOf p power2 - 1) ∨
       2 ^ (shiftOf p power2 - 1) + errors ≤ mant % 2 ^ shiftOf p power2) := by
  have hp := lay.hp; have hp64 := lay.hp64; have heb := lay.heb
  unfold errorIsAccurate
  rw [lay.ms]
  have e : (64 : Int) - ((p - 1 : Nat) : Int) - 1 = 64 - (p : Int) := by omega
  simp only [e]
  -- extrabits = shiftOf
  have hex : (if power2 ≤ -(64 - (p : Int)) then 1 - power2 else 64 - (p : Int)) = (shiftOf p power2 : Int) := by
    unfold shiftOf
    by_cases h : -power2 ≥ 64 - (p : Int)
    · rw [if_pos (show power2 ≤ -(64 - (p : Int)) by omega), if_pos h]; omega
    · rw [if_neg (show ¬ power2 ≤ -(64 - (p : Int)) by omega), if_neg h]; omega
  rw [hex]
  have hs64 : shiftOf p power2 ≤ 64 := by unfold shiftOf; split <;> omega
  have hs0 : 0 < shiftOf p power2 := by unfold shiftOf; split <;> omega
  generalize shiftOf p power2 = s at *
  rw [if_neg (show ¬ ((s : Int) > 64) by omega), asU64_ofNat (show s < 2 ^ 64 by omega), lowerNMask_succ hs64,
    lowerNHalfway_eq hs0 hs64]
  have hext := Nat.mod_lt mant (Nat.two_pow_pos s)
  have hhalf : 2 ^ (s - 1) ≤ 2 ^ 63 := Nat.pow_le_pow_right (by decide) (by omega)
  have hpow : 2 ^ s ≤ 2 ^ 64 := Nat.pow_le_pow_right (by decide) hs64
  generalize mant % 2 ^ s = extra at *
  generalize 2 ^ (s - 1) = half at *
  simp only [Bool.not_eq_true', Bool.and_eq_false_iff, decide_eq_false_iff_not]
  have h32 : (2 : Nat) ^ 32 = 4294967296 := by decide
  have h63 : (2 : Nat) ^ 63 = 9223372036854775808 := by decide
  have h64 : (2 : Nat) ^ 64 = 18446744073709551616 := by decide
  rw [h32] at he; rw [h63] at hhalf; rw [h64] at hpow ⊢
  constructor
  · intro h; rcases h with h | h <;> omega
  · intro h; rcases h with h | h
    · left; omega
    · right; omega

/-- the nearest/tie-even callback of `bellerophon` (and of `slow::…`) -/
def tieEven : Bool → Bool → Bool → Bool := fun isOdd isHalfway isAbove => isAbove || (isOdd && isHalfway)

theorem two_pow_pred {n : Nat} (h : 0 < n) : 2 ^ n = 2 * 2 ^ (n - 1) := by
  obtain ⟨m, rfl⟩ : ∃ m, n = m + 1 := ⟨n - 1, by omega⟩
  rw [Nat.pow_succ', Nat.add_sub_cancel]

/-- `roundNE_of_q0` with the three quantities scaled by a common power of two (`W = den·2^k·2^α`,
`Y = num·2^L·2^α`) and strict inequalities (no tie) -/
theorem q0_of_units {f : Fmt} (hf : WF f) {num den : Nat} (hd : den ≠ 0) (k q0 α W Y : Nat)
    (hW : den * 2 ^ k * 2 ^ α = W) (hY : num * 2 ^ L f * 2 ^ α = Y)
    (h1 : 0 < k → 2 ^ (f.p - 1) ≤ q0) (h2 : q0 ≤ 2 * 2 ^ (f.p - 1))
    (c1 : 2 * (q0 * W) < 2 * Y + W) (c2 : 2 * Y < 2 * (q0 * W) + W)
    (cA : 0 < k → 2 ^ (f.p - 1) * W ≤ Y) :
    roundNE f num den = encode f k q0 := by
  have hpos := Nat.two_pow_pos α
  have e1 : 2 * (den * 2 ^ k * q0) * 2 ^ α = 2 * (q0 * W) := by rw [← hW]; ring
  have e2 : (2 * (num * 2 ^ L f) + den * 2 ^ k) * 2 ^ α = 2 * Y + W := by rw [← hW, ← hY]; ring
  have e3 : 2 * (num * 2 ^ L f) * 2 ^ α = 2 * Y := by rw [← hY]; ring
  have e4 : (2 * (den * 2 ^ k * q0) + den * 2 ^ k) * 2 ^ α = 2 * (q0 * W) + W := by rw [← hW]; ring
  apply roundNE_of_q0 hf hd k q0 h1 h2
  · apply Nat.le_of_mul_le_mul_right _ hpos; rw [e1, e2]; omega
  · apply Nat.le_of_mul_le_mul_right _ hpos; rw [e3, e4]; omega
  · intro heq; exfalso
    have : 2 * (den * 2 ^ k * q0) * 2 ^ α = (2 * (num * 2 ^ L f) + den * 2 ^ k) * 2 ^ α := by rw [heq]
    rw [e1, e2] at this; omega
  · intro heq; exfalso
    have : 2 * (num * 2 ^ L f) * 2 ^ α = (2 * (den * 2 ^ k * q0) + den * 2 ^ k) * 2 ^ α := by rw [heq]
    rw [e3, e4] at this; omega
  · intro hk
    apply Nat.le_of_mul_le_mul_right _ hpos
    have e5 : den * 2 ^ k * 2 ^ (f.p - 1) * 2 ^ α = 2 ^ (f.p - 1) * W := by rw [← hW]; ring
    rw [e5, hY]; exact cA hk

/-- the same with an even significand and non-strict inequalities -/
theorem q0_of_units_even {f : Fmt} (hf : WF f) {num den : Nat} (hd : den ≠ 0) (k q0 α W Y : Nat)
    (hW : den * 2 ^ k * 2 ^ α = W) (hY : num * 2 ^ L f * 2 ^ α = Y)
    (h1 : 0 < k → 2 ^ (f.p - 1) ≤ q0) (h2 : q0 ≤ 2 * 2 ^ (f.p - 1)) (hev : q0 % 2 = 0)
    (c1 : 2 * (q0 * W) ≤ 2 * Y + W) (c2 : 2 * Y ≤ 2 * (q0 * W) + W)
    (cA : 0 < k → 2 ^ (f.p - 1) * W ≤ Y) :
    roundNE f num den = encode f k q0 := by
  have hpos := Nat.two_pow_pos α
  have e1 : 2 * (den * 2 ^ k * q0) * 2 ^ α = 2 * (q0 * W) := by rw [← hW]; ring
  have e2 : (2 * (num * 2 ^ L f) + den * 2 ^ k) * 2 ^ α = 2 * Y + W := by rw [← hW, ← hY]; ring
  have e3 : 2 * (num * 2 ^ L f) * 2 ^ α = 2 * Y := by rw [← hY]; ring
  have e4 : (2 * (den * 2 ^ k * q0) + den * 2 ^ k) * 2 ^ α = 2 * (q0 * W) + W := by rw [← hW]; ring
  apply roundNE_of_q0 hf hd k q0 h1 h2
  · apply Nat.le_of_mul_le_mul_right _ hpos; rw [e1, e2]; exact c1
  · apply Nat.le_of_mul_le_mul_right _ hpos; rw [e3, e4]; exact c2
  · intro _; exact hev
  · intro _; exact hev
  · intro hk
    apply Nat.le_of_mul_le_mul_right _ hpos
    have e5 : den * 2 ^ k * 2 ^ (f.p - 1) * 2 ^ α = 2 ^ (f.p - 1) * W := by rw [← hW]; ring
    rw [e5, hY]; exact cA hk

/-- **soundness of the decision**: see the module header. `Y/U` is the true value in units of the last
place of `mant`: `U = den·2^β`, `Y = num·2^L·2^α`, `β − α = power2 − 1`. -/
theorem accurate_round {F p eb} (lay : Layout F p eb) (mant errors errLo : Nat) (power2 : Int)
    (num den α β : Nat) (hm1 : 2 ^ 63 ≤ mant) (hm2 : mant < 2 ^ 64) (he : errors < 2 ^ 32)
    (hp2 : -power2 + 1 ≤ 64) (hpp : 2 - (2 ^ 40 : Int) ≤ power2) (hd : 0 < den)
    (hαβ : (β : Int) - α = power2 - 1)
    (hlo : mant * (den * 2 ^ β) < num * 2 ^ L F.fmt * 2 ^ α + errLo * (den * 2 ^ β))
    (hhi : num * 2 ^ L F.fmt * 2 ^ α < (mant + errors) * (den * 2 ^ β))
    (hel : errLo ≤ errors) (hel4 : 4 * errLo ≤ 2 ^ (64 - p)) (he1 : 1 ≤ errors)
    (hacc : errorIsAccurate F errors ⟨mant, power2⟩ = true) :
    extendedToFloat F (round F ⟨mant, power2⟩ (fun f s => roundNearestTieEven f s tieEven)) =
      roundNE F.fmt num den := by
  have hf := lay.wf
  have hp := lay.hp; have hp64 := lay.hp64; have heb := lay.heb
  have hfp : F.fmt.p = p := by rw [lay.fmt]
  obtain ⟨_, hbits⟩ := round_bits lay mant power2 tieEven hm1 hm2 hp2
  rw [hbits]
  have hacc' := (errorIsAccurate_iff lay mant errors power2 hm2 he hp2 hpp).mp hacc
  obtain ⟨qa, qb, qc, qd, qe⟩ := quot_bounds hp (by omega) hm1 hm2 power2 hp2
  have hsge : 64 - p ≤ shiftOf p power2 := by unfold shiftOf; split <;> omega
  generalize hk : (power2 + 64 - (p : Int) - 1).toNat = k at *
  generalize hs : shiftOf p power2 = s at *
  have h2s : 2 ^ s = 2 * 2 ^ (s - 1) := two_pow_pred qc
  have hel4' : 4 * errLo ≤ 2 ^ s :=
    Nat.le_trans hel4 (Nat.pow_le_pow_right (by decide) hsge)
  -- the increment
  have hdm := Nat.div_add_mod mant (2 ^ s)
  have hext := Nat.mod_lt mant (Nat.two_pow_pos s)
  have hup : upOf mant s tieEven =
      if 2 ^ (s - 1) + errors ≤ mant % 2 ^ s then 1 else 0 := by
    unfold upOf tieEven
    rcases hacc' with h | h
    · have h1 : ¬ (mant % 2 ^ s > 2 ^ (s - 1)) := by omega
      have h2 : ¬ (mant % 2 ^ s = 2 ^ (s - 1)) := by omega
      have h3 : ¬ (2 ^ (s - 1) + errors ≤ mant % 2 ^ s) := by omega
      simp [h1, h2, h3]
    · have h1 : (mant % 2 ^ s > 2 ^ (s - 1)) := by omega
      simp [h1, h]
  rw [hup]
  -- units
  have hU : 0 < den * 2 ^ β := Nat.mul_pos hd (Nat.two_pow_pos _)
  have hαk : α + k = β + s := by omega
  have hW : den * 2 ^ k * 2 ^ α = den * 2 ^ β * 2 ^ s := by
    rw [Nat.mul_assoc, Nat.mul_assoc, ← Nat.pow_add, ← Nat.pow_add, Nat.add_comm k α, hαk]
  generalize hUd : den * 2 ^ β = U at *
  generalize hYd : num * 2 ^ L F.fmt * 2 ^ α = Y at *
  generalize hT : 2 ^ (p - 1) = T at *
  generalize ha : mant / 2 ^ s = a at *
  generalize hx : mant % 2 ^ s = extra at *
  generalize hh : 2 ^ (s - 1) = half at *
  -- everything in units of U: mant·U = a·(U·2^s) + extra·U
  have hmU : mant * U = a * (U * 2 ^ s) + extra * U := by rw [← hdm]; ring
  have hWh : U * 2 ^ s = 2 * (U * half) := by rw [h2s]; ring
  have hxU : extra * U < U * 2 ^ s := by
    rw [Nat.mul_comm extra U]; exact Nat.mul_lt_mul_of_pos_left hext hU
  have hhi' : Y < mant * U + errors * U := by rw [← Nat.add_mul]; exact hhi
  have helU : errLo * U ≤ errors * U := Nat.mul_le_mul_right U hel
  have hel4U : 4 * (errLo * U) ≤ U * 2 ^ s := by
    have := Nat.mul_le_mul_right U hel4'
    rw [Nat.mul_assoc] at this; rw [Nat.mul_comm U]; exact this
  have hupU : half + errors ≤ extra → U * half + errors * U ≤ extra * U := by
    intro h; have := Nat.mul_le_mul_right U h; rw [Nat.add_mul, Nat.mul_comm half U] at this; exact this
  have hdnU : extra + errors ≤ half → extra * U + errors * U ≤ U * half := by
    intro h; have := Nat.mul_le_mul_right U h; rw [Nat.add_mul, Nat.mul_comm half U] at this; exact this
  have hW' : den * 2 ^ k * 2 ^ α = U * 2 ^ s := hW
  have hTa : 0 < k → T ≤ a := fun h => (qa h).2.1
  have hfpT : 2 ^ (F.fmt.p - 1) = T := by rw [hfp, hT]
  -- atoms (and hide the power-of-two definitions from `omega`)
  clear hT hh h2s hdm hext qa hbits hW hαk hαβ qe hel4 hel4' hm1 hm2 hhi hUd
  generalize hWv : U * 2 ^ s = Wv at *
  generalize hHv : U * half = Hv at *
  generalize hXv : extra * U = X at *
  generalize hEv : errors * U = E at *
  generalize hElv : errLo * U = El at *
  generalize hMv : mant * U = MU at *
  generalize hAWv : a * Wv = AW at *
  generalize hTWv : T * Wv = TW at *
  have hTle : a = T → AW = TW := by intro h; rw [← hAWv, ← hTWv, h]
  have hmono : T + 1 ≤ a → TW + Wv ≤ AW := by
    intro h
    have := Nat.mul_le_mul_right Wv h
    rw [Nat.add_mul, Nat.one_mul, hTWv, hAWv] at this; exact this
  have hmono2 : T ≤ a → TW ≤ AW := by
    intro h
    have := Nat.mul_le_mul_right Wv h
    rw [hTWv, hAWv] at this; exact this
  have hsucc : (a + 1) * Wv = AW + Wv := by rw [Nat.add_mul, Nat.one_mul, hAWv]
  by_cases hlow : 0 < k ∧ Y < TW
  · -- the true value is just below the binade of `mant`: encode at k-1 with significand 2T
    obtain ⟨hk0, hYT⟩ := hlow
    have qaT := hTa hk0
    have haT : a = T := by
      apply Nat.le_antisymm _ qaT
      apply Classical.byContradiction; intro hc
      have := hmono (by omega)
      omega
    have hAT := hTle haT
    have hdown : ¬ (half + errors ≤ extra) := by
      intro hc
      have := hupU hc
      omega
    rw [if_neg hdown, Nat.add_zero]
    have henc : encode F.fmt k a = encode F.fmt (k - 1) (2 * a) := by
      unfold encode
      rw [hfpT]
      have : k * T + a = (k - 1) * T + 2 * a := by
        obtain ⟨j, rfl⟩ : ∃ j, k = j + 1 := ⟨k - 1, by omega⟩
        rw [Nat.add_sub_cancel, haT]; ring
      rw [this]
    rw [henc]
    symm
    obtain ⟨j, hj⟩ : ∃ j, k = j + 1 := ⟨k - 1, by omega⟩
    have hW2 : den * 2 ^ (k - 1) * 2 ^ α * 2 = Wv := by
      rw [hj, Nat.add_sub_cancel, ← hW', hj, Nat.pow_succ]; ring
    generalize hW2v : den * 2 ^ (k - 1) * 2 ^ α = W2 at *
    have hAW2 : 2 * a * W2 = AW := by rw [← hAWv, ← hW2]; ring
    apply q0_of_units_even hf (Nat.ne_of_gt hd) (k - 1) (2 * a) α W2 Y hW2v hYd
    · intro _; rw [hfpT]; omega
    · rw [hfpT]; omega
    · exact Nat.mul_mod_right _ _
    · rw [hAW2]; omega
    · rw [hAW2]; omega
    · intro _
      rw [hfpT]
      have : T * W2 * 2 = TW := by rw [← hTWv, ← hW2]; ring
      have hTpos : 0 < T := by rw [← hfpT]; exact Nat.two_pow_pos _
      have : W2 ≤ T * W2 := Nat.le_mul_of_pos_left W2 hTpos
      omega
  · -- regular case
    have hAge : 0 < k → TW ≤ Y := by
      intro hk0
      apply Classical.byContradiction; intro hc
      exact hlow ⟨hk0, by omega⟩
    symm
    by_cases hupc : half + errors ≤ extra
    · rw [if_pos hupc]
      have hc2 := hupU hupc
      apply q0_of_units hf (Nat.ne_of_gt hd) k (a + 1) α Wv Y hW' hYd
      · intro hk0; rw [hfpT]; have := hTa hk0; omega
      · rw [hfpT]; omega
      · rw [hsucc]; omega
      · rw [hsucc]; omega
      · intro hk0; rw [hfpT, hTWv]; exact hAge hk0
    · rw [if_neg hupc, Nat.add_zero]
      have hdn : extra + errors ≤ half := by
        rcases hacc' with h | h
        · exact h
        · exact absurd h hupc
      have hc1 := hdnU hdn
      apply q0_of_units hf (Nat.ne_of_gt hd) k a α Wv Y hW' hYd
      · intro hk0; rw [hfpT]; exact hTa hk0
      · rw [hfpT]; omega
      · rw [hAWv]; omega
      · rw [hAWv]; omega
      · intro hk0; rw [hfpT, hTWv]; exact hAge hk0

/-- `error_is_accurate` in the deep-underflow case `1 − exp > 64` -/
theorem errorIsAccurate_deep {F p eb} (lay : Layout F p eb) (mant errors : Nat) (power2 : Int)
    (hp2 : -power2 + 1 > 64) :
    errorIsAccurate F errors ⟨mant, power2⟩ = decide (mant + errors < 2 ^ 64) := by
  have hp := lay.hp; have hp64 := lay.hp64; have heb := lay.heb
  unfold errorIsAccurate
  rw [lay.ms]
  have e : (64 : Int) - ((p - 1 : Nat) : Int) - 1 = 64 - (p : Int) := by omega
  simp only [e]
  rw [if_pos (show power2 ≤ -(64 - (p : Int)) by omega), if_pos (show (1 - power2 : Int) > 64 by omega)]

/-- a value below `2^65` units at `α − β ≥ 66` (or below `2^64` at `= 65`) is less than half the least subnormal -/
theorem tiny_of_units {f : Fmt} (hf : WF f) {num den : Nat} (hd : 0 < den) (α β B g : Nat)
    (hY : num * 2 ^ L f * 2 ^ α < B * (den * 2 ^ β)) (hB : B ≤ 2 ^ g) (hg : β + g + 1 ≤ α) :
    roundNE f num den = 0 := by
  apply roundNE_tiny hf (Nat.ne_of_gt hd)
  have h1 : B * (den * 2 ^ β) ≤ 2 ^ g * (den * 2 ^ β) := Nat.mul_le_mul_right _ hB
  have h2 : 2 ^ g * (den * 2 ^ β) = den * 2 ^ (β + g) := by rw [Nat.pow_add]; ring
  have h3 : 2 ^ α = 2 ^ (β + g + 1) * 2 ^ (α - (β + g + 1)) := by
    rw [← Nat.pow_add]; congr 1; omega
  have h4 : 1 ≤ 2 ^ (α - (β + g + 1)) := Nat.two_pow_pos _
  have h5 : num * 2 ^ L f * 2 ^ (β + g + 1) ≤ num * 2 ^ L f * 2 ^ α := by
    rw [h3, ← Nat.mul_assoc]; exact Nat.le_mul_of_pos_right _ h4
  have h6 : num * 2 ^ L f * 2 ^ (β + g + 1) = 2 * (num * 2 ^ L f) * 2 ^ (β + g) := by
    rw [Nat.pow_succ]; ring
  have h7 : 2 * (num * 2 ^ L f) * 2 ^ (β + g) < den * 2 ^ (β + g) := by omega
  exact Nat.lt_of_mul_lt_mul_right h7

/-- **second half of `bellerophon` is sound**: if the true value is within `(mant − errLo, mant + errors)`
units of the scaled, normalised extended float, a valid non-lossy answer is `roundNE` of the true value. -/
theorem bellFinish_sound {F p eb} (lay : Layout F p eb) (mant errors errLo : Nat) (power2 : Int)
    (num den α β : Nat) (hm1 : 2 ^ 63 ≤ mant) (hm2 : mant < 2 ^ 64) (he : errors < 2 ^ 32)
    (hpp : 2 - (2 ^ 40 : Int) ≤ power2) (hpu : power2 < 32768) (hd : 0 < den)
    (hαβ : (β : Int) - α = power2 - 1)
    (hlo : mant * (den * 2 ^ β) < num * 2 ^ L F.fmt * 2 ^ α + errLo * (den * 2 ^ β))
    (hhi : num * 2 ^ L F.fmt * 2 ^ α < (mant + errors) * (den * 2 ^ β))
    (hel : errLo ≤ errors) (hel4 : 4 * errLo ≤ 2 ^ (64 - p)) (he1 : 1 ≤ errors)
    {r : ExtendedFloat80} (h : bellFinish F ⟨mant, power2⟩ errors false = .ok r) (hv : 0 ≤ r.exp) :
    extendedToFloat F r = roundNE F.fmt num den := by
  have hf := lay.wf
  unfold bellFinish litZeroShift at h
  simp only [] at h
  have hB65 : mant + errors ≤ 2 ^ 65 := by
    have : (2 : Nat) ^ 65 = 2 ^ 64 + 2 ^ 64 := by decide
    have : (2 : Nat) ^ 32 ≤ 2 ^ 64 := by decide
    omega
  by_cases h1 : -power2 + 1 > 65
  · rw [if_pos h1] at h
    injection h with h; subst h
    rw [ext_zero lay]
    exact (tiny_of_units hf hd α β (mant + errors) 65 hhi hB65 (by omega)).symm
  · rw [if_neg h1] at h
    by_cases hacc : errorIsAccurate F errors ⟨mant, power2⟩ = true
    · have hc : ¬ ((!false && !errorIsAccurate F errors ⟨mant, power2⟩) = true) := by simp [hacc]
      rw [if_neg hc] at h
      by_cases h2 : -power2 + 1 = 65
      · rw [if_pos h2] at h
        injection h with h; subst h
        rw [ext_zero lay]
        rw [errorIsAccurate_deep lay mant errors power2 (by omega)] at hacc
        have hB64 : mant + errors ≤ 2 ^ 64 := by
          have := of_decide_eq_true hacc; omega
        exact (tiny_of_units hf hd α β (mant + errors) 64 hhi hB64 (by omega)).symm
      · rw [if_neg h2] at h
        injection h with h; subst h
        exact accurate_round lay mant errors errLo power2 num den α β hm1 hm2 he (by omega) hpp hd hαβ hlo hhi
          hel hel4 he1 hacc
    · have hc : ((!false && !errorIsAccurate F errors ⟨mant, power2⟩) = true) := by simp [hacc]
      rw [if_pos hc] at h
      injection h with h; subst h
      exfalso
      have : invalidFp = -32768 := rfl
      simp only [] at hv
      omega

end LexVerif.Proof.Bell
