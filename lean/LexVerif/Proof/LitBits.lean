import LexVerif.Spec.Decimal
import LexVerif.Proof.RoundNEDecode
/-!
# Proof.LitBits — sign / zero / NaN facts about `Spec.litBits` (Mathlib-free)
-/
namespace LexVerif.Proof.RoundNE
open LexVerif.Spec

theorem foldl_zeros (r : Nat) (ds : List Nat) (h : ∀ d ∈ ds, d = 0) :
    ds.foldl (fun acc d => acc * r + d) 0 = 0 := by
  induction ds with
  | nil => rfl
  | cons d ds ih =>
    have hd : d = 0 := h d (by simp)
    subst hd
    simp only [List.foldl_cons, Nat.zero_mul, Nat.add_zero]
    exact ih (fun x hx => h x (by simp [hx]))

theorem ofDigits_zeros (r : Nat) (ds : List Nat) (h : ∀ d ∈ ds, d = 0) : ofDigits r ds = 0 :=
  foldl_zeros r ds h

theorem signBit_eq {f : Fmt} (hf : WF f) : f.signBit = 2 ^ f.ebits * 2 ^ (f.p - 1) := by
  have := hf.hp
  unfold Fmt.signBit Fmt.totalBits
  rw [← Nat.pow_add]; congr 1; omega

/-- adding the sign bit changes neither the exponent field nor the mantissa field -/
theorem fields_add_signBit {f : Fmt} (hf : WF f) (x : Nat) :
    f.expField (x + f.signBit) = f.expField x ∧ f.manField (x + f.signBit) = f.manField x := by
  rw [signBit_eq hf]
  unfold Fmt.expField Fmt.manField
  constructor
  · rw [Nat.add_mul_div_right _ _ (Nat.two_pow_pos _), Nat.add_mod_right]
  · rw [Nat.add_mul_mod_self_right]

theorem isNaN_add_signBit {f : Fmt} (hf : WF f) (x : Nat) : f.isNaN (x + f.signBit) = f.isNaN x := by
  obtain ⟨h1, h2⟩ := fields_add_signBit hf x
  unfold Fmt.isNaN Fmt.isSpecial
  rw [h1, h2]

theorem isNeg_of_le_inf {f : Fmt} (hf : WF f) {x : Nat} (hx : x ≤ f.infBits) :
    f.isNeg x = false ∧ f.isNeg (x + f.signBit) = true := by
  have hs := infBits_lt_signBit hf
  have h1 : x / f.signBit = 0 := Nat.div_eq_of_lt (by omega)
  have h2 : (x + f.signBit) / f.signBit = 1 := by
    rw [Nat.add_div_right _ (by omega), h1]
  simp [Fmt.isNeg, h1, h2]

theorem isNaN_of_le_inf {f : Fmt} {x : Nat} (hx : x ≤ f.infBits) : f.isNaN x = false := by
  rcases Nat.lt_or_eq_of_le hx with h | h
  · have h1 := expField_lt h
    have : f.expField x ≠ f.maxExpField := by
      unfold Fmt.expField
      have := Nat.mod_le (x / 2 ^ (f.p - 1)) (2 ^ f.ebits)
      omega
    simp [Fmt.isNaN, Fmt.isSpecial, this]
  · subst h
    have : f.manField f.infBits = 0 := by
      unfold Fmt.manField; rw [infBits_eq]; exact Nat.mul_mod_left _ _
    simp [Fmt.isNaN, this]

/-- `litBits` is always `magnitude + sign` with a magnitude that is finite or `+∞` -/
theorem litBits_form {f : Fmt} (hf : WF f) {r b : Nat} (hr : 0 < r) (hb : 0 < b) (l : FloatLit) :
    ∃ x, x ≤ f.infBits ∧ litBits f r b l = x + (if l.neg then f.signBit else 0) := by
  unfold litBits
  simp only []
  split
  · exact ⟨0, Nat.zero_le _, (Nat.zero_add _).symm⟩
  · split
    · exact ⟨f.infBits, Nat.le_refl _, rfl⟩
    · split
      · exact ⟨0, Nat.zero_le _, (Nat.zero_add _).symm⟩
      · split
        · exact ⟨_, roundNE_le_infBits hf _ (Nat.pow_pos hr), rfl⟩
        · exact ⟨_, roundNE_le_infBits hf _ (Nat.mul_pos (Nat.pow_pos hr) (Nat.pow_pos hb)), rfl⟩

end LexVerif.Proof.RoundNE
