import LexVerif.Proof.BellEstimate
/-!
# Proof.BellBracket — a two-sided estimate still brackets the value

`Est2 … cl ch`: the value lies within `(mant − cl, mant + ch)` units of the estimate. Rounding the estimate **down** to
the float format gives `b` with `b ≤ roundNE x ≤ b + 1` as long as `4·cl, 2·ch ≤ 2^(64−p)`: above the estimate this is
`Proof.LemireWide.bracket_of_estimate_c`; a value up to `cl` units **below** `val b` is still above the midpoint to the
previous float (`gap_kq`: that midpoint is at least `2^(k−2)` units of `2^-L` away), so it rounds to `b` or higher
(`le_roundNE_of_mid`).
-/
namespace LexVerif.Proof.Bell
open LexVerif.Spec LexVerif.Model LexVerif.Model.Bellerophon
open LexVerif.Proof.RoundNE LexVerif.Proof.ExtRound LexVerif.Proof.BinaryCorrect LexVerif.Proof.Lemire
open LexVerif.Proof.Slow

/-- `b ≤ roundNE x` from `x` above the midpoint between `b − 1` and `b` -/
theorem le_roundNE_of_mid {f : Fmt} (hf : WF f) (num den b : Nat) (hd : 0 < den) (hb : b ≤ f.infBits) (hb0 : 0 < b)
    (h : den * (ival f (b - 1) + ival f b) < 2 * (num * 2 ^ L f)) : b ≤ roundNE f num den := by
  have c := inCell_roundNE hf num (Nat.ne_of_gt hd)
  generalize roundNE f num den = r at *
  generalize num * 2 ^ L f = N at *
  apply Classical.byContradiction; intro hcon
  have hrb : r + 1 ≤ b := by omega
  have up := c.upper (by omega)
  have m1 : ival f r ≤ ival f (b - 1) := ival_mono f (by omega)
  have m2 : ival f (r + 1) ≤ ival f b := ival_mono f hrb
  have k1 : den * (ival f r + ival f (r + 1)) ≤ den * (ival f (b - 1) + ival f b) :=
    Nat.mul_le_mul_left _ (by omega)
  omega

/-- the float below `k·2^(p−1) + q` is at least `2^(k−1)` units of `2^-L` away (`1` unit when `k = 0`) -/
theorem gap_kq (f : Fmt) (k q : Nat) (h1 : 0 < k → 2 ^ (f.p - 1) ≤ q) (h2 : q ≤ 2 * 2 ^ (f.p - 1))
    (hb0 : 0 < k * 2 ^ (f.p - 1) + q) :
    ival f (k * 2 ^ (f.p - 1) + q - 1) + 2 ^ (k - 1) ≤ ival f (k * 2 ^ (f.p - 1) + q) := by
  have hT := Nat.two_pow_pos (f.p - 1)
  have hq0 : 0 < q := by
    apply Nat.pos_of_ne_zero; intro h0
    by_cases hk : 0 < k
    · have := h1 hk; omega
    · have : k = 0 := by omega
      subst this; omega
  rw [ival_kq f k q h1 h2]
  by_cases hc : k = 0 ∨ 2 ^ (f.p - 1) < q
  · have e : k * 2 ^ (f.p - 1) + q - 1 = k * 2 ^ (f.p - 1) + (q - 1) := by omega
    rw [e, ival_kq f k (q - 1) (fun hk => by have := h1 hk; rcases hc with h | h <;> omega) (by omega)]
    have : 2 ^ (k - 1) ≤ 2 ^ k := Nat.pow_le_pow_right (by decide) (by omega)
    have : q * 2 ^ k = (q - 1) * 2 ^ k + 2 ^ k := by
      rw [← Nat.succ_mul]; congr 1; omega
    omega
  · have hk1 : 1 ≤ k := by omega
    have hqT : q = 2 ^ (f.p - 1) := by have := h1 (by omega); omega
    have e : k * 2 ^ (f.p - 1) + q - 1 = (k - 1) * 2 ^ (f.p - 1) + (2 * 2 ^ (f.p - 1) - 1) := by
      have : k * 2 ^ (f.p - 1) = (k - 1) * 2 ^ (f.p - 1) + 2 ^ (f.p - 1) := by
        rw [← Nat.succ_mul]; congr 1; omega
      omega
    rw [e, ival_kq f (k - 1) (2 * 2 ^ (f.p - 1) - 1) (fun _ => by omega) (by omega), hqT]
    have e2 : 2 ^ k = 2 * 2 ^ (k - 1) := by rw [← Nat.pow_succ']; congr 1; omega
    rw [e2]
    have : (2 * 2 ^ (f.p - 1) - 1) * 2 ^ (k - 1) + 2 ^ (k - 1) = 2 * 2 ^ (f.p - 1) * 2 ^ (k - 1) := by
      rw [← Nat.succ_mul]; congr 1; omega
    have : 2 ^ (f.p - 1) * (2 * 2 ^ (k - 1)) = 2 * 2 ^ (f.p - 1) * 2 ^ (k - 1) := by ring
    omega

/-- **a two-sided estimate brackets the value** -/
theorem bracket_of_est2 {F p eb} (lay : Layout F p eb) (cl ch : Nat) (hcl : 4 * cl ≤ 2 ^ (64 - p))
    (hch : 2 * ch ≤ 2 ^ (64 - p)) (hch0 : 0 < ch) (est : ExtendedFloat80) (num den : Nat) (hd : 0 < den)
    (h : Est2 F p est cl ch num den) :
    extendedToFloat F (round F est roundDown) ≤ roundNE F.fmt num den ∧
      roundNE F.fmt num den ≤ extendedToFloat F (round F est roundDown) + 1 := by
  obtain ⟨hm1, hm2, hlo, hhi⟩ := h
  have hf := lay.wf
  have hp := lay.hp; have hp64 := lay.hp64; have heb := lay.heb
  have hfp : F.fmt.p = p := by rw [lay.fmt]
  by_cases hp2 : -est.exp + 1 ≤ 64
  · by_cases hA : est.mant * 2 ^ (est.exp + 64 - p - 1).toNat * den ≤ num * 2 ^ L F.fmt * 2 ^ shiftOf p est.exp
    · exact bracket_of_estimate_c lay ch hch est hm1 hm2 hp2 num den hd hA hhi
    · have hB : num * 2 ^ L F.fmt * 2 ^ shiftOf p est.exp < est.mant * 2 ^ (est.exp + 64 - p - 1).toNat * den :=
        Nat.lt_of_not_le hA
      have hd' : 0 < 2 ^ L F.fmt * 2 ^ shiftOf p est.exp := Nat.mul_pos (Nat.two_pow_pos _) (Nat.two_pow_pos _)
      -- above: compare with the estimate itself
      obtain ⟨_, up'⟩ := bracket_of_estimate_c lay ch hch est hm1 hm2 hp2
        (est.mant * 2 ^ (est.exp + 64 - p - 1).toNat) (2 ^ L F.fmt * 2 ^ shiftOf p est.exp) hd'
        (Nat.le_of_eq (by ring))
        (by
          calc est.mant * 2 ^ (est.exp + 64 - p - 1).toNat * 2 ^ L F.fmt * 2 ^ shiftOf p est.exp
              = est.mant * (2 ^ (est.exp + 64 - p - 1).toNat * (2 ^ L F.fmt * 2 ^ shiftOf p est.exp)) := by ring
            _ < (est.mant + ch) * (2 ^ (est.exp + 64 - p - 1).toNat * (2 ^ L F.fmt * 2 ^ shiftOf p est.exp)) :=
                Nat.mul_lt_mul_of_pos_right (by omega) (Nat.mul_pos (Nat.two_pow_pos _) hd')
            _ = _ := by ring)
      have hmono : roundNE F.fmt num den ≤ roundNE F.fmt (est.mant * 2 ^ (est.exp + 64 - p - 1).toNat)
          (2 ^ L F.fmt * 2 ^ shiftOf p est.exp) :=
        roundNE_mono' hf hd hd' (by
          calc num * (2 ^ L F.fmt * 2 ^ shiftOf p est.exp) = num * 2 ^ L F.fmt * 2 ^ shiftOf p est.exp := by ring
            _ ≤ est.mant * 2 ^ (est.exp + 64 - p - 1).toNat * den := Nat.le_of_lt hB)
      refine ⟨?_, Nat.le_trans hmono up'⟩
      -- below: within `cl` units under `val b`
      rw [round_down_bits lay est hm1 hm2 hp2]
      obtain ⟨qa, qb, _, _, _⟩ := quot_bounds hp (by omega) hm1 hm2 est.exp hp2
      have hS3 : 64 - p ≤ shiftOf p est.exp := by unfold shiftOf; split <;> omega
      have hS4 : 4 * cl ≤ 2 ^ shiftOf p est.exp :=
        Nat.le_trans hcl (Nat.pow_le_pow_right (by decide) hS3)
      have hQm : est.mant / 2 ^ shiftOf p est.exp * 2 ^ shiftOf p est.exp ≤ est.mant := Nat.div_mul_le_self _ _
      generalize hK : (est.exp + 64 - p - 1).toNat = K at *
      generalize hS : shiftOf p est.exp = S at *
      generalize hQ : est.mant / 2 ^ S = Q at *
      generalize hX : num * 2 ^ L F.fmt = X at *
      have hT := Nat.two_pow_pos (p - 1)
      have h1 : 0 < K → 2 ^ (F.fmt.p - 1) ≤ Q := by rw [hfp]; intro hk; exact (qa hk).2.1
      -- `2·(X·2^S) + 2·cl·2^K·den > 2·Q·2^S·2^K·den`
      have hkey : 2 * (Q * 2 ^ S * 2 ^ K * den) < 2 * (X * 2 ^ S) + 2 * (cl * 2 ^ K * den) := by
        have : Q * 2 ^ S * 2 ^ K * den ≤ est.mant * 2 ^ K * den :=
          Nat.mul_le_mul_right _ (Nat.mul_le_mul_right _ hQm)
        omega
      unfold encode
      rw [hfp]
      by_cases hov : F.fmt.infBits ≤ K * 2 ^ (p - 1) + Q
      · rw [if_pos hov]
        -- `+∞`
        have hM := M_ge hf
        obtain ⟨iv1, iv2⟩ := ival_infBits hf
        rw [hfp] at iv1 iv2
        have e1 : F.fmt.infBits = (F.fmt.maxExpField - 2) * 2 ^ (p - 1) + 2 * 2 ^ (p - 1) := by
          rw [infBits_eq, hfp, ← Nat.add_mul]; congr 1; omega
        generalize hK0 : F.fmt.maxExpField - 2 = K0 at *
        have hKK : K0 + 1 ≤ K := by
          apply Classical.byContradiction; intro hcon
          have : K * 2 ^ (p - 1) ≤ K0 * 2 ^ (p - 1) := Nat.mul_le_mul_right _ (by omega)
          omega
        have hQT : 2 ^ (p - 1) ≤ Q := by have := h1 (by omega); rwa [hfp] at this
        apply le_roundNE_of_mid hf num den _ hd (Nat.le_refl _) (infBits_pos hf)
        rw [hX, iv1]
        apply Nat.lt_of_mul_lt_mul_right (a := 2 ^ S)
        have hpw : 2 ^ (K0 + 1) ≤ 2 ^ K := Nat.pow_le_pow_right (by decide) hKK
        -- `den·(ival(inf−1) + I)·2^S + den·2^K0·2^S = den·2·I·2^S ≤ 2·Q·2^S·2^K·den`
        have a1 : den * (ival F.fmt (F.fmt.infBits - 1) + 2 * 2 ^ (p - 1) * 2 ^ K0) * 2 ^ S + den * 2 ^ K0 * 2 ^ S =
            den * (2 * (2 * 2 ^ (p - 1) * 2 ^ K0)) * 2 ^ S := by
          rw [← iv2]; ring
        have a2 : den * (2 * (2 * 2 ^ (p - 1) * 2 ^ K0)) * 2 ^ S ≤ 2 * (Q * 2 ^ S * 2 ^ K * den) := by
          calc den * (2 * (2 * 2 ^ (p - 1) * 2 ^ K0)) * 2 ^ S = 2 * (2 ^ (p - 1) * 2 ^ S * 2 ^ (K0 + 1) * den) := by
                rw [Nat.pow_succ]; ring
            _ ≤ 2 * (Q * 2 ^ S * 2 ^ K * den) :=
                Nat.mul_le_mul_left _ (Nat.mul_le_mul_right _ (Nat.mul_le_mul (Nat.mul_le_mul_right _ hQT) hpw))
        -- `2·cl·2^K·den ≤ den·2^K0·2^S` fails when `K > K0 + 1`; use the slack of `a2` instead
        have a4 : 2 * (cl * 2 ^ K * den) + den * (2 * (2 * 2 ^ (p - 1) * 2 ^ K0)) * 2 ^ S ≤
            2 * (Q * 2 ^ S * 2 ^ K * den) + den * 2 ^ K0 * 2 ^ S := by
          -- `2·(Q·2^S − cl)·2^K ≥ 2·(T·2^S − cl)·2^(K0+1) ≥ (4T − 1)·2^K0·2^S`
          have b1 : cl ≤ Q * 2 ^ S := by
            have : 1 * 2 ^ S ≤ Q * 2 ^ S := Nat.mul_le_mul_right _ (by omega)
            omega
          obtain ⟨D, hD⟩ : ∃ D, Q * 2 ^ S = cl + D := ⟨Q * 2 ^ S - cl, by omega⟩
          have b2 : 2 ^ (p - 1) * 2 ^ S ≤ cl + D := by rw [← hD]; exact Nat.mul_le_mul_right _ hQT
          have b3 : 2 * (Q * 2 ^ S * 2 ^ K * den) = 2 * (cl * 2 ^ K * den) + 2 * (D * 2 ^ K * den) := by
            rw [hD]; ring
          have b4 : 2 * (D * 2 ^ (K0 + 1) * den) ≤ 2 * (D * 2 ^ K * den) :=
            Nat.mul_le_mul_left _ (Nat.mul_le_mul_right _ (Nat.mul_le_mul_left _ hpw))
          have b5 : den * (2 * (2 * 2 ^ (p - 1) * 2 ^ K0)) * 2 ^ S ≤ 2 * (D * 2 ^ (K0 + 1) * den) + den * 2 ^ K0 * 2 ^ S := by
            have : 4 * (2 ^ (p - 1) * 2 ^ S) ≤ 4 * D + 2 ^ S := by omega
            calc den * (2 * (2 * 2 ^ (p - 1) * 2 ^ K0)) * 2 ^ S = (4 * (2 ^ (p - 1) * 2 ^ S)) * (2 ^ K0 * den) := by ring
              _ ≤ (4 * D + 2 ^ S) * (2 ^ K0 * den) := Nat.mul_le_mul_right _ this
              _ = 2 * (D * 2 ^ (K0 + 1) * den) + den * 2 ^ K0 * 2 ^ S := by rw [Nat.pow_succ]; ring
          omega
        have a5 : 2 * X * 2 ^ S = 2 * (X * 2 ^ S) := by ring
        omega
      · rw [if_neg hov]
        by_cases hb0 : K * 2 ^ (p - 1) + Q = 0
        · rw [hb0]; exact Nat.zero_le _
        · have hgap := gap_kq F.fmt K Q h1 (by rw [hfp]; omega) (by rw [hfp]; omega)
          have hiv := ival_kq F.fmt K Q h1 (by rw [hfp]; omega)
          rw [hfp] at hgap hiv
          apply le_roundNE_of_mid hf num den _ hd (by omega) (by omega)
          rw [hX, hiv]
          rw [hiv] at hgap
          apply Nat.lt_of_mul_lt_mul_right (a := 2 ^ S)
          -- `G·2^S ≥ 2·cl·2^K`
          have hG : 2 * (cl * 2 ^ K) ≤ 2 ^ (K - 1) * 2 ^ S := by
            by_cases hk0 : K = 0
            · subst hk0; simp only [Nat.pow_zero, Nat.mul_one, Nat.zero_sub, Nat.one_mul]; omega
            · have e2 : 2 ^ K = 2 * 2 ^ (K - 1) := by rw [← Nat.pow_succ']; congr 1; omega
              rw [e2]
              calc 2 * (cl * (2 * 2 ^ (K - 1))) = 2 ^ (K - 1) * (4 * cl) := by ring
                _ ≤ 2 ^ (K - 1) * 2 ^ S := Nat.mul_le_mul_left _ hS4
          have a1 : den * (ival F.fmt (K * 2 ^ (p - 1) + Q - 1) + Q * 2 ^ K) * 2 ^ S + den * 2 ^ (K - 1) * 2 ^ S ≤
              2 * (Q * 2 ^ S * 2 ^ K * den) := by
            calc den * (ival F.fmt (K * 2 ^ (p - 1) + Q - 1) + Q * 2 ^ K) * 2 ^ S + den * 2 ^ (K - 1) * 2 ^ S
                = den * 2 ^ S * (ival F.fmt (K * 2 ^ (p - 1) + Q - 1) + 2 ^ (K - 1) + Q * 2 ^ K) := by ring
              _ ≤ den * 2 ^ S * (Q * 2 ^ K + Q * 2 ^ K) := Nat.mul_le_mul_left _ (by omega)
              _ = 2 * (Q * 2 ^ S * 2 ^ K * den) := by ring
          have a2 : 2 * (cl * 2 ^ K * den) ≤ den * 2 ^ (K - 1) * 2 ^ S := by
            calc 2 * (cl * 2 ^ K * den) = (2 * (cl * 2 ^ K)) * den := by ring
              _ ≤ (2 ^ (K - 1) * 2 ^ S) * den := Nat.mul_le_mul_right _ hG
              _ = den * 2 ^ (K - 1) * 2 ^ S := by ring
          have : 2 * X * 2 ^ S = 2 * (X * 2 ^ S) := by ring
          omega
  · obtain ⟨e1, e2⟩ := bracket_deep_c lay ch hch est hm2 hp2 num den hd hhi
    rw [e1]
    exact ⟨Nat.zero_le _, e2⟩

end LexVerif.Proof.Bell
