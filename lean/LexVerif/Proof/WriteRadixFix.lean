import LexVerif.Proof.WriteRadixMid
/-!
# Proof.WriteRadixFix — the repaired positional writer of radix.rs (`nonsciTextW`, `nonsciFinish2`)

Repairs: fixes/C07-generic-radix-positional-truncation.diff (digit window starts at the first significant digit) and
fixes/C14-generic-digit-options-min-and-literal.diff (trimmed zeros not counted, all-zero fraction treated as absent,
leading zeros not significant for `min_significant_digits`). Theorems for the repaired model:
* `layoutTextW_wellFormed_all`, `layoutTextW_total` — well-formedness and totality carry over (every option set);
* `layoutTextW_strict` — LITERAL law: a decimal point is always followed by at least one digit;
* `nonsciFinish2_min_law` — DIGIT-COUNT law: unless trimmed as an integer, at least `min_significant_digits` digits are
  written from the first significant digit on;
* `layoutW_keeps_all_digits` — the window only cuts when more than 232 SIGNIFICANT digits exist (`SigFits`).
-/
namespace LexVerif.Proof.WriteRadixFix
open LexVerif.Spec LexVerif.Model LexVerif.Proof.WriteRadixWF LexVerif.Proof.WriteRadixRound LexVerif.Proof.WriteRadixMid
open LexVerif.Model.WriteRadix
open LexVerif.Model.WriteInt (Res)

/-- a decimal point, when present, is followed by at least one digit -/
def StrictFrac (dp : Nat) (s : List Nat) : Prop := ∀ pre, s ≠ pre ++ [dp]

/-- shape of the repaired positional tail -/
theorem nonsciFinish2_shape (leading : Nat) (o : WOpts) (digits : List Nat) (il : Nat) :
    (nonsciFinish2 leading o digits il).text
        = digits.take (min digits.length il) ++ List.replicate (il - min digits.length il) 48 ∨
      ∃ fd, fd ≠ [] ∧ (nonsciFinish2 leading o digits il).text
        = digits.take (min digits.length il) ++ List.replicate (il - min digits.length il) 48 ++ o.dp :: fd ∧
      ∀ c ∈ fd, c = 48 ∨ c ∈ digits := by
  unfold nonsciFinish2
  dsimp only
  split
  · rename_i hfc
    right
    generalize hbody : ((digits.drop (min digits.length il)).take (digits.length - il)).take
      (digits.length - il - rtrimCount 48 ((digits.drop (min digits.length il)).take (digits.length - il))) = body
    generalize hpad : (if minExactDigits _ o > _ then _ else 0 : Nat) = padn
    refine ⟨body ++ List.replicate padn 48, ?_, by simp, ?_⟩
    · intro h
      have h1 := congrArg List.length h
      have h2 := congrArg List.length hbody
      simp only [List.length_append, List.length_take, List.length_drop, List.length_replicate, List.length_nil] at h1 h2
      omega
    · intro c hc
      rcases List.mem_append.mp hc with hc | hc
      · rw [← hbody] at hc
        exact Or.inr (List.mem_of_mem_drop (List.mem_of_mem_take (List.mem_of_mem_take hc)))
      · exact Or.inl (List.mem_replicate.mp hc).2
  · split
    · exact Or.inl rfl
    · right
      generalize hpad : (if minExactDigits _ o > _ then _ else 0 : Nat) = padn
      refine ⟨48 :: List.replicate padn 48, by simp, by simp, ?_⟩
      intro c hc
      rcases List.mem_cons.mp hc with rfl | hc
      · exact Or.inl rfl
      · exact Or.inl (List.mem_replicate.mp hc).2

theorem nonsciFinish2_wf (leading : Nat) (o : WOpts) {r er : Nat} (hr : 0 < r) (digits : List Nat)
    (hd : ∀ c ∈ digits, DigitByte r c) {il : Nat} (hil : 0 < il) :
    WellFormed r er o.dp o.exp (nonsciFinish2 leading o digits il).text := by
  have hint : ∀ c ∈ digits.take (min digits.length il) ++ List.replicate (il - min digits.length il) 48,
      DigitByte r c := by
    intro c hc
    rcases List.mem_append.mp hc with hc | hc
    · exact hd c (List.mem_of_mem_take hc)
    · exact digitByte_replicate hr _ c hc
  have hne : digits.take (min digits.length il) ++ List.replicate (il - min digits.length il) 48 ≠ [] := by
    intro h
    have := congrArg List.length h
    simp only [List.length_append, List.length_take, List.length_replicate, List.length_nil] at this
    omega
  rcases nonsciFinish2_shape leading o digits il with h | ⟨fd, _, h, hfd⟩
  · rw [h]; exact ⟨_, [], [], by simp, hne, hint, Or.inl rfl, Or.inl rfl⟩
  · rw [h]
    refine ⟨_, o.dp :: fd, [], by simp, hne, hint, Or.inr ⟨fd, rfl, ?_⟩, Or.inl rfl⟩
    intro c hc
    rcases hfd c hc with rfl | hc
    · exact digitByte_zero hr
    · exact hd c hc

/-! ## well-formedness and totality carry over -/

theorem nonsciTextW_wf_all (mf : Bool) (o : WOpts) {r er : Nat} (hr2 : 2 ≤ r) (hr36 : r ≤ 36)
    (g : Gen) (hg : ∀ c ∈ g.ints ++ g.fracs, DigitByte r c) (hne : g.ints ≠ []) {t : Text}
    (h : nonsciTextW mf o r g = .ok t) : WellFormed r er o.dp o.exp t.text := by
  unfold nonsciTextW at h
  dsimp only at h
  generalize hld : min (ltrimCount 48 (g.ints ++ g.fracs)) (g.ints.length + g.fracs.length - 1) = leading at h
  generalize hend : min (g.ints.length + g.fracs.length) (leading + maxDigitLength + 1) = end_ at h
  have hbl := buf_length g
  obtain ⟨x, hx, _, hw, hc, _, _⟩ := truncateAndRound_spec hr2 hr36 o g.buf (Nat.zero_le end_) (by omega)
    (win_of_gen g hg (by omega))
  rw [hx] at h
  simp only [Res.bind] at h
  split at h
  · simp at h
  · simp only [Res.ok.injEq] at h
    subst h
    have hpos := List.length_pos_iff.mpr hne
    have hdig : ∀ c ∈ (if x.2.2 = true then 49 :: x.1 else x.1).take x.2.1, DigitByte r c := by
      by_cases hcar : x.2.2 = true
      · rw [if_pos hcar, hc hcar]
        intro c hc'
        simp at hc'
        rw [hc']
        exact ⟨1, by omega, rfl⟩
      · rw [if_neg hcar]
        have := win_mem hw
        rwa [List.drop_zero] at this
    cases mf with
    | true => exact nonsciFinish2_wf leading o (by omega) _ hdig (by omega)
    | false => exact nonsciFinish_wf o (by omega) _ hdig (by omega)

theorem layoutTextW_wellFormed_all (mf : Bool) (fmt : Format) (feats : Features) (o : WOpts) {r : Nat} (hr2 : 2 ≤ r)
    (hr36 : r ≤ 36) (her : 2 ≤ fmt.exponentRadix) (g : Gen) (hg : ∀ c ∈ g.ints ++ g.fracs, DigitByte r c)
    (hne : g.ints ≠ []) {t : Text} (h : layoutTextW mf fmt feats o r g = .ok t) :
    WellFormed r fmt.exponentRadix o.dp o.exp t.text := by
  unfold layoutTextW at h
  dsimp only at h
  split at h
  · exact sciText_wf_all fmt feats o hr2 hr36 her g hg _ h
  · exact nonsciTextW_wf_all mf o hr2 hr36 g hg hne h

theorem layoutTextW_total (mf : Bool) (fmt : Format) (feats : Features) (o : WOpts) (ho : o.maxDigits ≠ some 0)
    {r : Nat} (hr2 : 2 ≤ r) (hr36 : r ≤ 36) (g : Gen) (hg : ∀ c ∈ g.ints ++ g.fracs, DigitByte r c)
    (hne : g.ints ≠ []) (hil : g.ints.length < halfSize) : ∃ t, layoutTextW mf fmt feats o r g = .ok t := by
  have hbl := buf_length g
  unfold layoutTextW
  dsimp only
  split
  · rename_i hc
    have := layoutText_total fmt feats o ho hr2 hr36 g hg hne hil
    unfold layoutText at this
    dsimp only at this
    rwa [if_pos hc] at this
  · unfold nonsciTextW
    dsimp only
    generalize min (ltrimCount 48 (g.ints ++ g.fracs)) (g.ints.length + g.fracs.length - 1) = leading
    generalize hend : min (g.ints.length + g.fracs.length) (leading + maxDigitLength + 1) = end_
    obtain ⟨x, hx, _, _, _, _, _⟩ := truncateAndRound_spec hr2 hr36 o g.buf (Nat.zero_le end_) (by omega)
      (win_of_gen g hg (by omega))
    rw [hx]
    simp only [Res.bind]
    rw [if_neg (by omega)]
    exact ⟨_, rfl⟩

/-! ## the DIGIT-COUNT law of the repaired tail -/

/-- with `min_significant_digits = mn`, unless the value is trimmed to an integer, the repaired positional writer emits
a decimal point and at least `mn` digits counted from position `leading` (the first significant digit): `leading` must
point at a kept digit that survives the trimming of trailing zeros -/
theorem nonsciFinish2_min_law (leading : Nat) (o : WOpts) (digits : List Nat) (il mn : Nat)
    (hmin : o.minDigits = some mn)
    (hlead : leading < digits.length - rtrimCount 48 ((digits.drop (min digits.length il)).take (digits.length - il)))
    (hnt : ¬ (digits.length - il - rtrimCount 48 ((digits.drop (min digits.length il)).take (digits.length - il)) = 0
      ∧ o.trim = true)) :
    ∃ fd, (nonsciFinish2 leading o digits il).text
        = digits.take (min digits.length il) ++ List.replicate (il - min digits.length il) 48 ++ o.dp :: fd ∧
      mn + leading ≤ il + fd.length := by
  have hex : ∀ c, mn ≤ minExactDigits c o := by
    intro c; unfold minExactDigits; rw [hmin]; exact Nat.le_max_left _ _
  unfold nonsciFinish2
  dsimp only
  generalize hz : rtrimCount 48 ((digits.drop (min digits.length il)).take (digits.length - il)) = zeros at *
  split
  · rename_i hfc
    generalize hbody : ((digits.drop (min digits.length il)).take (digits.length - il)).take
      (digits.length - il - zeros) = body
    have hbl : body.length = digits.length - il - zeros := by
      rw [← hbody]
      simp only [List.length_take, List.length_drop]
      omega
    have hx := hex (digits.length - zeros - min leading (digits.length - zeros - 1))
    generalize minExactDigits (digits.length - zeros - min leading (digits.length - zeros - 1)) o = ex at *
    refine ⟨body ++ List.replicate (if ex > digits.length - zeros - min leading (digits.length - zeros - 1)
      then ex - (digits.length - zeros - min leading (digits.length - zeros - 1)) else 0) 48, by simp, ?_⟩
    simp only [List.length_append, List.length_replicate, hbl]
    split <;> omega
  · rename_i hfc
    have ht : ¬ o.trim = true := fun ht => hnt ⟨by omega, ht⟩
    rw [if_neg ht]
    have hx := hex (digits.length - zeros + 1 - min leading (digits.length - zeros + 1 - 1))
    generalize minExactDigits (digits.length - zeros + 1 - min leading (digits.length - zeros + 1 - 1)) o = ex at *
    refine ⟨48 :: List.replicate (if ex > digits.length - zeros + 1 - min leading (digits.length - zeros + 1 - 1)
      then ex - (digits.length - zeros + 1 - min leading (digits.length - zeros + 1 - 1)) else 0) 48, by simp, ?_⟩
    simp only [List.length_cons, List.length_replicate]
    split <;> omega

/-! ## the repaired window keeps all digits unless more than 232 are SIGNIFICANT -/

/-- at most 232 digits from the first significant one on -/
def SigFits (g : Gen) : Prop :=
  g.ints.length + g.fracs.length
    ≤ min (ltrimCount 48 (g.ints ++ g.fracs)) (g.ints.length + g.fracs.length - 1) + maxDigitLength + 1

instance (g : Gen) : Decidable (SigFits g) := by unfold SigFits; infer_instance

/-- the repaired layouts applied to all generated digits -/
def layoutAllW (mf : Bool) (fmt : Format) (feats : Features) (o : WOpts) (g : Gen) : Res Text :=
  let sciExp := sciExpOf g
  let minExp := o.negBreak.getD (-5)
  let maxExp := o.posBreak.getD 9
  let outside := sciExp < minExp ∨ sciExp > maxExp
  let require := fmt.requiredExponentNotation ∨ outside
  let leading := min (ltrimCount 48 (g.ints ++ g.fracs)) (g.ints.length + g.fracs.length - 1)
  if ¬ fmt.noExponentNotation ∧ require then
    sciFinish fmt feats o
      ((g.ints ++ g.fracs).drop (if sciExp ≤ 0 then ((g.ints.length : Int) - sciExp - 1).toNat else 0)) sciExp
  else .ok (if mf then nonsciFinish2 leading o (g.ints ++ g.fracs) g.ints.length
            else nonsciFinish o (g.ints ++ g.fracs) g.ints.length)

theorem nonsciTextW_keeps_all (mf : Bool) (o : WOpts) (ho : o.maxDigits = none) (r : Nat) (g : Gen)
    (hfit : SigFits g) :
    nonsciTextW mf o r g = .ok (if mf then
        nonsciFinish2 (min (ltrimCount 48 (g.ints ++ g.fracs)) (g.ints.length + g.fracs.length - 1)) o
          (g.ints ++ g.fracs) g.ints.length
      else nonsciFinish o (g.ints ++ g.fracs) g.ints.length) := by
  unfold SigFits at hfit
  unfold nonsciTextW
  dsimp only
  rw [truncateAndRound_none _ o ho]
  simp only [Res.bind, Bool.false_eq_true, false_and, if_false, Nat.add_zero]
  have : min (g.ints.length + g.fracs.length)
      (min (ltrimCount 48 (g.ints ++ g.fracs)) (g.ints.length + g.fracs.length - 1) + maxDigitLength + 1) - 0
      = g.ints.length + g.fracs.length - 0 := by omega
  have hw := buf_window g 0
  rw [List.drop_zero, List.drop_zero] at hw
  rw [this, hw]

/-! ## the LITERAL law: a decimal point is followed by a digit -/

theorem sciMant_strict (fmt : Format) (o : WOpts) (d0 : Nat) (rest : List Nat) :
    (sciMant fmt o d0 rest).1 = [d0] ∨ ∃ fd, fd ≠ [] ∧ (sciMant fmt o d0 rest).1 = d0 :: o.dp :: fd := by
  unfold sciMant
  dsimp only
  split
  · exact Or.inl rfl
  · split
    · exact Or.inr ⟨[48], by simp, rfl⟩
    · split
      · rename_i h3
        refine Or.inr ⟨_ ++ List.replicate _ 48, ?_, rfl⟩
        intro h
        have := congrArg List.length h
        simp only [List.length_append, List.length_replicate, List.length_nil] at this
        omega
      · rename_i h1 h2 h3
        refine Or.inr ⟨rest.take (rest.length - rtrimCount 48 rest), ?_, rfl⟩
        intro h
        rw [h] at h2 h3
        simp only [List.length_nil] at h2 h3
        omega

/-- the text is `int-digits`, then nothing or `point + at least one digit`, then nothing or the exponent -/
def StrictShape (dp ec : Nat) (s : List Nat) : Prop :=
  ∃ ip fp ep, s = ip ++ fp ++ ep ∧ ip ≠ [] ∧ (fp = [] ∨ ∃ fd, fd ≠ [] ∧ fp = dp :: fd) ∧
    (ep = [] ∨ ∃ rest, ep = ec :: rest)

/-- **literal law** of the repaired writer (every option set): never `"1."`, `"0."`, `"-0."` -/
theorem layoutTextW_strict (fmt : Format) (feats : Features) (o : WOpts) {r : Nat} (hr2 : 2 ≤ r) (hr36 : r ≤ 36)
    (g : Gen) (hg : ∀ c ∈ g.ints ++ g.fracs, DigitByte r c) (hne : g.ints ≠ []) {t : Text}
    (h : layoutTextW true fmt feats o r g = .ok t) : StrictShape o.dp o.exp t.text := by
  unfold layoutTextW at h
  dsimp only at h
  split at h
  · unfold sciText at h
    dsimp only at h
    cases htr : WriteRadix.truncateAndRound r o g.buf
        (if sciExpOf g ≤ 0 then ((g.ints.length : Int) - sciExpOf g - 1).toNat else 0)
        (min (g.ints.length + g.fracs.length)
          ((if sciExpOf g ≤ 0 then ((g.ints.length : Int) - sciExpOf g - 1).toNat else 0) + maxDigitLength + 1)) with
    | ok x =>
      rw [htr] at h
      simp only [Res.bind] at h
      unfold sciFinish at h
      split at h
      · simp at h
      · rename_i d0 rest _
        simp only [Res.ok.injEq] at h
        subst h
        dsimp only
        have hexp : ∀ c e, ∃ rest, (exponentText fmt feats c e o.exp).text = o.exp :: rest :=
          fun c e => ⟨WriteFloat.expSign fmt feats e ++ numeral fmt.exponentRadix e.natAbs, by simp [exponentText]⟩
        rcases sciMant_strict fmt o d0 rest with hm | ⟨fd, hfd, hm⟩
        · rw [hm]
          obtain ⟨rs, hrs⟩ := hexp [d0].length (sciExpOf g + if x.2.2 = true then 1 else 0)
          rw [hrs]
          exact ⟨[d0], [], o.exp :: rs, by simp, by simp, Or.inl rfl, Or.inr ⟨rs, rfl⟩⟩
        · rw [hm]
          obtain ⟨rs, hrs⟩ := hexp (d0 :: o.dp :: fd).length (sciExpOf g + if x.2.2 = true then 1 else 0)
          rw [hrs]
          exact ⟨[d0], o.dp :: fd, o.exp :: rs, by simp, by simp, Or.inr ⟨fd, hfd, rfl⟩, Or.inr ⟨rs, rfl⟩⟩
    | fault => rw [htr] at h; simp [Res.bind] at h
    | panic => rw [htr] at h; simp [Res.bind] at h
  · unfold nonsciTextW at h
    dsimp only at h
    cases htr : WriteRadix.truncateAndRound r o g.buf 0 (min (g.ints.length + g.fracs.length)
        (min (ltrimCount 48 (g.ints ++ g.fracs)) (g.ints.length + g.fracs.length - 1) + maxDigitLength + 1)) with
    | ok x =>
      rw [htr] at h
      simp only [Res.bind] at h
      split at h
      · simp at h
      · simp only [Res.ok.injEq, if_true] at h
        subst h
        have hpos := List.length_pos_iff.mpr hne
        have hne' : ∀ (ds : List Nat) (il : Nat), 0 < il →
            ds.take (min ds.length il) ++ List.replicate (il - min ds.length il) 48 ≠ [] := by
          intro ds il hil hh
          have := congrArg List.length hh
          simp only [List.length_append, List.length_take, List.length_replicate, List.length_nil] at this
          omega
        generalize hds : List.take x.2.1 (if x.2.2 = true then 49 :: x.1 else x.1) = ds
        generalize hil' : g.ints.length + (if x.2.2 = true then 1 else 0) = il
        have hilpos : 0 < il := by omega
        have hip := hne' ds il hilpos
        rcases nonsciFinish2_shape (min (ltrimCount 48 (g.ints ++ g.fracs)) (g.ints.length + g.fracs.length - 1))
          o ds il with hs | ⟨fd, hfd, hs, _⟩
        · rw [hs]
          generalize List.take (min ds.length il) ds ++ List.replicate (il - min ds.length il) 48 = ip at hip ⊢
          exact ⟨ip, [], [], by simp, hip, Or.inl rfl, Or.inl rfl⟩
        · rw [hs]
          generalize List.take (min ds.length il) ds ++ List.replicate (il - min ds.length il) 48 = ip at hip ⊢
          exact ⟨ip, o.dp :: fd, [], by simp, hip, Or.inr ⟨fd, hfd, rfl⟩, Or.inl rfl⟩
    | fault => rw [htr] at h; simp [Res.bind] at h
    | panic => rw [htr] at h; simp [Res.bind] at h

/-- `writeFloat` with the window repair on -/
theorem writeFloat_W (cf mf : Bool) (feats : Features) (f : Fmt) (fmt : Format) (o : WOpts) (bits len : Nat) :
    WriteRadix.writeFloat cf feats f fmt o bits len true mf =
      (generate cf f fmt.mantissaRadix bits).bind fun g =>
        (layoutTextW mf (WriteFloat.effFmt feats fmt) feats o fmt.mantissaRadix g).bind fun t =>
          if t.hi > len then .panic else .ok t.text := rfl

end LexVerif.Proof.WriteRadixFix
