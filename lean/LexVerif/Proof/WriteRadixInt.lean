import LexVerif.Model.WriteRadixInt
import LexVerif.Proof.Numeral
import LexVerif.Proof.WriteBinaryDigits
import LexVerif.Proof.WriteBinaryShape
/-!
# Proof.WriteRadixInt — under the IEEE exactness assumption the integer loop of radix.rs is the radix conversion
-/
namespace LexVerif.Proof.WriteRadixInt
open LexVerif.Spec LexVerif.Model LexVerif.Model.WriteBinary LexVerif.Model.WriteRadixInt
open LexVerif.Proof.WriteBinaryDigits LexVerif.Proof.WriteBinaryShape

theorem intLoop_spec (ops : FOps) (r lim : Nat) (hx : IeeeExact lim ops) (hr : 2 ≤ r) (hrl : r < lim) :
    ∀ (fuel n : Nat) (acc : List Nat), 0 < n → n < lim → n < 2 ^ fuel →
      intLoop ops r fuel n acc = toDigits r n ++ acc
  | 0, n, _, h0, _, hf => by simp at hf; omega
  | fuel + 1, n, acc, h0, hl, hf => by
    obtain ⟨hrem, _, hsub0, hdiv⟩ := hx n r hl (by omega) hrl
    have hmodlt : n % r < r := Nat.mod_lt _ (by omega)
    have hsub : ops.fsub n (n % r) = n - n % r := by
      by_cases hz : n % r = 0
      · rw [hz]; simpa using hsub0
      · exact (hx n (n % r) hl (by omega) (by omega)).2.1 (Nat.mod_le _ _)
    have hdvd : r ∣ n - n % r := by
      have := Nat.div_add_mod n r
      exact ⟨n / r, by omega⟩
    have hquo : ops.fdiv (n - n % r) r = n / r := by
      have hlt : n - n % r < lim := by omega
      rw [(hx (n - n % r) r hlt (by omega) hrl).2.2.2 hdvd]
      have := Nat.div_add_mod n r
      have : n - n % r = r * (n / r) := by omega
      rw [this, Nat.mul_div_cancel_left _ (by omega)]
    unfold intLoop
    simp only [hrem, hsub, hquo]
    by_cases hq : n / r = 0
    · rw [if_pos hq]
      have hlt : n < r := by
        rcases Nat.lt_or_ge n r with h | h
        · exact h
        · have := Nat.div_pos h (by omega : 0 < r); omega
      rw [toDigits_lt r n hlt, Nat.mod_eq_of_lt hlt]; rfl
    · rw [if_neg hq]
      have hge : r ≤ n := by
        rcases Nat.lt_or_ge n r with h | h
        · exact absurd (Nat.div_eq_of_lt h) hq
        · exact h
      have hqlt : n / r < 2 ^ fuel := by
        have : n / r ≤ n / 2 := Nat.div_le_div_left hr (by decide)
        have : n / 2 < 2 ^ fuel := by rw [Nat.pow_succ] at hf; omega
        omega
      rw [intLoop_spec ops r lim hx hr hrl fuel (n / r) _ (by omega) (by have := Nat.div_le_self n r; omega) hqlt,
        toDigits_step r n hr hge, List.append_assoc]
      rfl

/-- the digit string radix.rs generates for an integral float is the canonical numeral -/
theorem integerDigits_eq (ops : FOps) (r lim n : Nat) (hx : IeeeExact lim ops) (hr : 2 ≤ r) (hrl : r < lim)
    (h0 : 0 < n) (hl : n < lim) (h64 : lim ≤ 2 ^ 64) : integerDigits ops r n = toDigits r n := by
  unfold integerDigits
  rw [intLoop_spec ops r lim hx hr hrl 64 n [] h0 hl (by omega), List.append_nil]

/-- no leading zero, so `zero_count = 0` and `sci_exp = count - 1` -/
theorem ltrimZeroCount_toDigits (r n : Nat) (hr : 2 ≤ r) (h0 : 0 < n) : ltrimZeroCount (toDigits r n) = 0 := by
  obtain ⟨d, t, hdt, hd⟩ := toDigits_head_pos r n hr h0
  rw [hdt]; simp [ltrimZeroCount, List.takeWhile, hd]

theorem exactOps_ieee (lim : Nat) : IeeeExact lim exactOps := by
  intro a b _ hb _
  refine ⟨rfl, fun _ => rfl, rfl, fun _ => rfl⟩

theorem sciLayout_cases (fmt : Format) (o : WOpts) (d0 : Nat) (tail : List Nat) (e : Int) :
    (sciLayout fmt o (d0 :: tail) e = ⟨[d0], [], false, some e⟩ ∧ rtrimZeros tail = [])
    ∨ (sciLayout fmt o (d0 :: tail) e = ⟨[d0], [0], true, some e⟩ ∧ rtrimZeros tail = [])
    ∨ sciLayout fmt o (d0 :: tail) e = ⟨[d0], rtrimZeros tail
        ++ List.replicate (minExactDigits (1 + (rtrimZeros tail).length) o - (1 + (rtrimZeros tail).length)) 0, true, some e⟩ := by
  generalize hL : WriteRadixInt.sciLayout fmt o (d0 :: tail) e = L
  unfold WriteRadixInt.sciLayout at hL
  dsimp only [List.headD_cons, List.tail_cons] at hL
  split at hL
  · rename_i c
    have hl : (rtrimZeros tail).length = 0 := by omega
    exact Or.inl ⟨hL.symm, List.eq_nil_of_length_eq_zero hl⟩
  · split at hL
    · rename_i c
      have hge := minExactDigits_ge (1 + (rtrimZeros tail).length) o
      have hl : (rtrimZeros tail).length = 0 := by omega
      exact Or.inr (Or.inl ⟨hL.symm, List.eq_nil_of_length_eq_zero hl⟩)
    · rw [pad_eq] at hL; exact Or.inr (Or.inr hL.symm)

end LexVerif.Proof.WriteRadixInt
