import LexVerif.Proof.ParseNumberC11SepZeros
/-!
# Proof.ParseNumberC11SepPrefix — C11 (B) `partial_prefix`, number results, formats WITH digit-separator flags

Front end (`parse_sign!`, `is_consumed` of the integer iterator — which may already skip leading separators) under the
cut at the returned count, then the composition with `parseNumber_truncS`.
-/
set_option linter.unusedSectionVars false
set_option linter.unusedSimpArgs false
set_option linter.unusedVariables false
namespace LexVerif.Proof.C11
open LexVerif LexVerif.Model LexVerif.Spec
open LexVerif.Props.C12 (Bytes.Valid)
open LexVerif.Proof.PNTotal (Rel)

section
variable {c : Cfg} {o : POpts} (H : SepCfg c o)
include H

theorem isDigit_sep (y : Nat) (hs : c.isSep y = true) : c.isDigit y = false := by
  cases hd : c.isDigit y with
  | false => rfl
  | true => exact absurd (H.sepM y hs) (H.digM y hd)

/-- `parse_number` fails when the integer iterator rests on a separator it does not skip -/
theorem parseNumber_not_ok_on_sep (p : Bool) (b : Bytes) (neg fv : Bool) (x : Nat) (hv : Bytes.Valid b)
    (hp : peek c .integer b = .ok (some x, b)) (hs : c.isSep x = true) (hm : c.requiredMantissaDigits = true)
    (r : Number × Nat) : parseNumber c p o b neg fv ≠ .ok r := by
  intro h
  have hx : b.slc[b.index]? = some x := ((peek_at c .integer b b (some x) hv hp).2.1).symm
  have hx48 : (some x : Option Nat) ≠ some 48 := by
    intro e
    simp only [Option.some.injEq] at e
    subst e
    rw [sep48 H] at hs; cases hs
  rw [parseNumber_gr H.rel] at h
  cases hi : integerPhase c b with
  | error e => simp [hi] at h
  | ok ip =>
    obtain ⟨⟨s1, s2, s3, s4, s5⟩, ⟨m, b1, ds, h8, hdg⟩, i4, i5, i6, i7, i8, i9, i10⟩ := integerPhase_truncS H b ip hv hi
    have hst : ip.start = b := by
      have := prefixPhase_miss H b b (some x) hp hx48
      rw [s5, ite_self] at this
      simp only [Except.ok.injEq, Prod.mk.injEq] at this
      exact this.2
    rw [hst] at h8 i5 i7 i8
    have e1 : b1 = b := parse8Digits_stuck .integer b b1 0 m x hx (H.sepM x hs) H.rad h8
    subst e1
    have e2 : ip.byte = b1 := by
      unfold parseDigits at hdg
      rw [parseDigitsLoop] at hdg
      simp only [hp, bind, Except.bind, pure, Except.pure, H.sepM x hs, Except.ok.injEq, Prod.mk.injEq] at hdg
      exact hdg.2.symm
    simp only [hi] at h
    cases hfr : fractionPhase c o ip.byte ip.mantissa with
    | error e => simp [hfr] at h
    | ok fp =>
      obtain ⟨f1, f2, f3, f4, f5, f6, f7⟩ := fractionPhase_truncS H ip.byte ip.mantissa fp i6 hfr
      have hndp : ¬ ip.byte.firstIsCased o.dp = true := by
        rw [e2]
        simp only [Bytes.firstIsCased, Bytes.first, hx, beq_iff_eq, Option.some.injEq]
        intro e; subst e; rw [H.dpSep] at hs; cases hs
      obtain ⟨g1, g2, g3⟩ := f6 hndp
      simp only [hfr] at h
      have hz : ip.nDigits + fp.nAfterDot = 0 := by
        have : ip.byte.index - b1.index = 0 := by rw [e2]; omega
        omega
      rw [if_pos (by simp [hm, hz])] at h
      exact emptyBranch_errS H.rel p o ip fp _ h

/-- front end on the cut buffer: same sign, the integer iterator makes the same first move, still not consumed -/
theorem afterSign_truncS (s : List Nat) (neg : Bool) (b : Bytes) (h : afterSign c s = .ok (neg, false, b))
    (n : Nat) (hlt : b.index < n) (hns : ∀ x, b.slc[b.index]? = some x → c.isSep x = false) :
    afterSign c (s.take n) = .ok (neg, false, trunc n b) := by
  unfold afterSign at h ⊢
  simp only [bind, Except.bind, pure, Except.pure] at h ⊢
  cases hs : parseMantissaSign c (Bytes.new s) with
  | error e => rw [hs] at h; cases h
  | ok pr =>
    obtain ⟨n0, b0⟩ := pr
    rw [hs] at h
    simp only at h
    cases hc : isConsumed c .integer b0 with
    | error e => rw [hc] at h; cases h
    | ok pr2 =>
      obtain ⟨cs, b1⟩ := pr2
      rw [hc] at h
      simp only [Except.ok.injEq, Prod.mk.injEq] at h
      obtain ⟨rfl, rfl, rfl⟩ := h
      have hv0 : Bytes.Valid (Bytes.new s) := by simp [Bytes.Valid, Bytes.new]
      obtain ⟨_, a2, a3, a4⟩ := parseSign_trunc_r H.rel _ _ _ _ (Bytes.new s) b0 n0 hv0 hs
      have hmono := (isConsumed_ok c .integer b0 b1 false a3 hc).2.2.1
      have := a4 n (by omega)
      have e : trunc n (Bytes.new s) = Bytes.new (s.take n) := rfl
      rw [e] at this
      unfold parseMantissaSign at hs ⊢
      rw [this]
      simp only
      rw [isConsumed_truncS H.rel .integer H.fmt b0 b1 a3 hc n hlt hns]

/-- the state the front end hands to `parse_number` does not rest on a separator when `parse_number` succeeds -/
theorem afterSign_nonsep (s : List Nat) (neg : Bool) (b : Bytes) (h : afterSign c s = .ok (neg, false, b))
    (p : Bool) (ng fv : Bool) (r : Number × Nat) (hm : c.requiredMantissaDigits = true)
    (hpn : parseNumber c p o b ng fv = .ok r) : ∀ x, b.slc[b.index]? = some x → c.isSep x = false := by
  intro x hx
  cases hsx : c.isSep x with
  | false => rfl
  | true =>
    exfalso
    unfold afterSign at h
    simp only [bind, Except.bind, pure, Except.pure] at h
    cases hs : parseMantissaSign c (Bytes.new s) with
    | error e => rw [hs] at h; cases h
    | ok pr =>
      obtain ⟨n0, b0⟩ := pr
      rw [hs] at h
      simp only at h
      cases hc : isConsumed c .integer b0 with
      | error e => rw [hc] at h; cases h
      | ok pr2 =>
        obtain ⟨cs, b1⟩ := pr2
        rw [hc] at h
        simp only [Except.ok.injEq, Prod.mk.injEq] at h
        obtain ⟨rfl, rfl, rfl⟩ := h
        have hv0 : Bytes.Valid (Bytes.new s) := by simp [Bytes.Valid, Bytes.new]
        obtain ⟨_, a2, a3, a4⟩ := parseSign_trunc_r H.rel _ _ _ _ (Bytes.new s) b0 n0 hv0 hs
        obtain ⟨c1, c2, _, _⟩ := isConsumed_ok c .integer b0 b1 false a3 hc
        unfold isConsumed at hc
        simp only [H.fmt, Bool.not_true, Bool.false_eq_true, if_false, bind, Except.bind, pure, Except.pure] at hc
        cases hp : peek c .integer b0 with
        | error e => simp [hp] at hc
        | ok pr3 =>
          obtain ⟨v, b2⟩ := pr3
          simp only [hp, Except.ok.injEq, Prod.mk.injEq] at hc
          obtain ⟨_, rfl⟩ := hc
          have hv2 := (peek_at c .integer b0 b2 v a3 hp).2.1
          have hs2 : b2.slc = b0.slc := c1
          rw [hs2, ← hv2] at hx
          subst hx
          have hid := peek_idem c .integer b0 b2 x a3 hp hsx (fun y hy => isDigit_sep H y hy)
          exact parseNumber_not_ok_on_sep H p b2 ng fv x c2 hid hsx hm r hpn

/-- **`partial_prefix`, number results, formats with digit-separator flags** (release build): every
input, under `SepCfg` and the radix condition `ExpRadixOK` -/
theorem partial_prefix_sep_number_g (hE : ExpRadixOK c) (s : List Nat) (fv : Bool) (x : Number) (cnt : Nat)
    (hm : c.requiredMantissaDigits = true)
    (h : parseFloatSyntax c o true s fv = .ok (.number x cnt)) :
    parseFloatSyntax c o false (s.take cnt) fv = .ok (.number x cnt) := by
  rw [parseFloatSyntax_eq] at h ⊢
  cases ha : afterSign c s with
  | error e => rw [ha] at h; cases h
  | ok pr =>
    obtain ⟨neg, consumed, b⟩ := pr
    rw [ha] at h
    simp only at h
    cases consumed with
    | true => simp only [if_true] at h; split at h <;> cases h
    | false =>
      simp only [Bool.false_eq_true, if_false] at h
      obtain ⟨hslc, hv, _⟩ := afterSign_ok c s neg false b ha
      have hpn := tail_partial_number o s fv neg b x cnt h
      obtain ⟨p1, p2, p3⟩ := parseNumber_truncS H hE (zerosMirror_all H .integer (by decide))
        (zerosMirror_all H .fraction (by decide)) true b neg fv x cnt hm hv hpn
      have hns := afterSign_nonsep H s neg b ha true neg fv _ hm hpn
      rw [afterSign_truncS H s neg b ha cnt p1 hns]
      simp only [Bool.false_eq_true, if_false]
      unfold tail
      simp only [Bool.false_eq_true, if_false]
      rw [parseCompleteNumber_eq, (parseNumber_ok_iff c o _ neg fv _).mp p3]
      have hlen : (trunc cnt b).slc.length = cnt := by
        simp only [trunc_slc, List.length_take]; omega
      have hlen2 : (s.take cnt).length = cnt := by
        rw [← hslc]; simp only [List.length_take]; omega
      simp only [hlen, if_true, hlen2, pure, Except.pure]

end
end LexVerif.Proof.C11
