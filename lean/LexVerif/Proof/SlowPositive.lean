import LexVerif.Proof.SlowBigint
import LexVerif.Proof.SlowBinary
/-!
# Proof.SlowPositive — `positive_digit_comp` returns `roundNE (M · radix^e)`

`bigmant.pow(radix, e)` is the exact integer `X = M·radix^e` (`bigintPow_eq`, under the capacity guard);
`hi64` gives its 64 leading bits and the sticky flag; `shared::round` + `round_nearest_tie_even` with the
callback `is_above || (is_halfway && is_truncated) || (is_odd && is_halfway)` is round-half-even of the
**whole** integer, hence `roundNE X` (overflow to infinity included: `round_bits` clamps, `roundNE_norm_*` agree).
-/
namespace LexVerif.Proof.Slow
open LexVerif.Spec LexVerif.Proof.Tables LexVerif.Model LexVerif.Model.Slow LexVerif.Model.Bellerophon
open LexVerif.Proof.RoundNE LexVerif.Proof.ExtRound LexVerif.Proof.BinaryCorrect LexVerif.Proof.SlowBinary

theorem wrapI32_eq {x : Int} (h1 : -(2 ^ 31 : Int) ≤ x) (h2 : x < (2 ^ 31 : Int)) : wrapI32 x = x := by
  unfold wrapI32 wrapI
  have h32 : (2 : Int) ^ 32 = 4294967296 := by norm_num
  have h31 : (2 : Int) ^ (32 - 1) = 2147483648 := by norm_num
  have h31' : (2 : Int) ^ 31 = 2147483648 := by norm_num
  simp only [h32, h31]
  rw [h31'] at h1 h2
  omega

theorem asU32_ofNat {e : Int} (h0 : 0 ≤ e) (h : e < (2 ^ 32 : Int)) : asU32 e = e.toNat := by
  unfold asU32
  rw [Int.emod_eq_of_lt h0 h]

/-- the callback of `positive_digit_comp` in arithmetic form -/
theorem upOf_positive (mant s : Nat) (t : Bool) :
    upOf mant s (fun isOdd isHalfway isAbove => isAbove || (isHalfway && t) || (isOdd && isHalfway)) =
      if mant % 2 ^ s > 2 ^ (s - 1) ∨ (mant % 2 ^ s = 2 ^ (s - 1) ∧ (t = true ∨ mant / 2 ^ s % 2 = 1))
      then 1 else 0 := by
  unfold upOf
  by_cases ha : mant % 2 ^ s > 2 ^ (s - 1)
  · have hne : ¬ mant % 2 ^ s = 2 ^ (s - 1) := by omega
    simp [ha, hne]
  · by_cases hh : mant % 2 ^ s = 2 ^ (s - 1)
    · cases t <;> by_cases ho : mant / 2 ^ s % 2 = 1 <;> simp [hh, ho]
    · simp [ha, hh]

/-- **`positive_digit_comp` is correctly rounded** (the rounding part): for a non-zero integer `X`, the float
built from `hi64 X`, `bit_length X` and the three-way callback is `roundNE X`. -/
theorem round_hi64 {F p eb} (lay : Layout F p eb) {X : Nat} (hX : X ≠ 0) :
    0 ≤ (round F ⟨(hi64 X).1, (bitlen X : Int) - 64 + F.C.exponentBias⟩ fun f s =>
        roundNearestTieEven f s fun isOdd isHalfway isAbove =>
          isAbove || (isHalfway && (hi64 X).2) || (isOdd && isHalfway)).exp ∧
    extendedToFloat F (round F ⟨(hi64 X).1, (bitlen X : Int) - 64 + F.C.exponentBias⟩ fun f s =>
        roundNearestTieEven f s fun isOdd isHalfway isAbove =>
          isAbove || (isHalfway && (hi64 X).2) || (isOdd && isHalfway)) = roundNE F.fmt X 1 := by
  obtain ⟨hm1, hm2, hsmall, hbig⟩ := hi64_spec hX
  have hbp := bitlen_pos hX
  have hB := lay.bias
  have hL := lay.hL
  have hp := lay.hp; have hp64 := lay.hp64; have heb := lay.heb
  generalize hpw : (bitlen X : Int) - 64 + F.C.exponentBias = power2 at *
  have hp2 : -power2 + 1 ≤ 64 := by rw [← hpw, hB]; omega
  obtain ⟨r1, r2⟩ := round_bits lay (hi64 X).1 power2
    (fun isOdd isHalfway isAbove => isAbove || (isHalfway && (hi64 X).2) || (isOdd && isHalfway)) hm1 hm2 hp2
  refine ⟨r1, ?_⟩
  rw [r2, upOf_positive]
  have hs0 : 0 < shiftOf p power2 := by unfold shiftOf; split <;> omega
  generalize hs : shiftOf p power2 = s at *
  generalize hmant : (hi64 X).1 = mant at *
  generalize htr : (hi64 X).2 = t at *
  by_cases hb : bitlen X ≤ 64
  · -- nothing truncated
    obtain ⟨e1, e2⟩ := hsmall hb
    subst e2
    have hn := roundNE_norm lay 1 X (64 - bitlen X) 0 (by rw [← e1]; exact hm1) (by rw [← e1]; exact hm2)
      (by omega) power2 (by rw [← hpw]; omega) hp2
    have e0 : (powFrac (2 ^ 1) 0 X) = (X, 1) := by simp [powFrac]
    rw [e0] at hn
    simp only at hn
    rw [hn, hs, ← e1, rhe_pow2 _ _ hs0]
    congr 2
    simp
  · have hb' : 64 < bitlen X := by omega
    obtain ⟨e1, e2⟩ := hbig hb'
    generalize hk : bitlen X - 64 = k at *
    generalize hr : X % 2 ^ k = r at *
    have hrlt : r < 2 ^ k := by rw [← hr]; exact Nat.mod_lt _ (Nat.two_pow_pos _)
    have hpk : power2 = ((1 : Nat) : Int) * (k : Int) + F.C.exponentBias - ((0 : Nat) : Int) := by
      rw [← hpw]; omega
    have hm1' : 2 ^ 63 ≤ mant * 2 ^ 0 := by simpa using hm1
    have hm2' : mant * 2 ^ 0 < 2 ^ 64 := by simpa using hm2
    have hval : roundNE F.fmt X 1 =
        roundNE F.fmt (powFrac (2 ^ 1) (k : Int) (mant * 2 ^ k + r)).1
          ((powFrac (2 ^ 1) (k : Int) (mant * 2 ^ k + r)).2 * 2 ^ k) := by
      unfold powFrac
      rw [if_pos (by omega)]
      simp only [Int.toNat_natCast, Nat.pow_one, Nat.one_mul]
      rw [← e1, Nat.mul_comm X (2 ^ k)]
      exact (roundNE_scale' lay.wf (Nat.two_pow_pos k) X Nat.one_pos).symm ▸ by
        rw [Nat.mul_one]
    rw [hval]
    by_cases hhe : HalfwayEven (mant * 2 ^ 0) s
    · have := roundNE_norm_sticky lay 1 mant 0 (2 ^ k) r (k : Int) hm1' hm2' (by omega) hrlt power2 hpk hp2
        (fun _ => by rw [hs]; exact hs0) (by rw [hs]; exact hhe)
      rw [this, hs]
      obtain ⟨h1, h2⟩ := hhe
      simp only [Nat.pow_zero, Nat.mul_one] at h1 h2 ⊢
      congr 2
      have hne : ¬ mant % 2 ^ s > 2 ^ (s - 1) := by omega
      have hodd : ¬ mant / 2 ^ s % 2 = 1 := by omega
      by_cases hr0 : r = 0
      · have : t = false := by
          cases t
          · rfl
          · exact absurd hr0 (e2.mp rfl)
        simp [hr0, this, hne, hodd]
      · have : t = true := e2.mpr hr0
        simp [hr0, this, h1]
    · have := roundNE_norm_trunc lay 1 mant 0 (2 ^ k) r
        (if mant % 2 ^ s > 2 ^ (s - 1) ∨ (mant % 2 ^ s = 2 ^ (s - 1) ∧ (t = true ∨ mant / 2 ^ s % 2 = 1))
          then 1 else 0) (k : Int) hm1' hm2' (by omega) hrlt power2 hpk hp2 (by rw [hs]; exact hs0)
        (by
          rw [hs]; simp only [Nat.pow_zero, Nat.mul_one]
          intro h; rw [if_pos (Or.inl h)])
        (by
          rw [hs]; simp only [Nat.pow_zero, Nat.mul_one]
          intro h; rw [if_neg (by omega)])
        (by
          rw [hs]; simp only [Nat.pow_zero, Nat.mul_one]
          intro h
          have hodd : mant / 2 ^ s % 2 = 1 := by
            apply Classical.byContradiction; intro hc
            exact hhe ⟨by simpa using h, by simp only [Nat.pow_zero, Nat.mul_one]; omega⟩
          left
          exact ⟨hodd, by rw [if_pos (Or.inr ⟨h, Or.inr hodd⟩)]⟩)
      rw [this, hs]
      simp only [Nat.pow_zero, Nat.mul_one]

/-- **`positive_digit_comp_correct`** on the model: for a non-zero big mantissa `M` and an exponent `0 ≤ e`
(`e < 2^29`: the `u32` product `exp * shift` does not wrap), *if the capacity checks do not fail* — which is
exactly `M·radix^e < 2^(64·BIGINT_LIMBS)` — the call does not panic and returns a valid float whose bits are
`roundNE (M·radix^e)` (nearest, ties to even, overflow to infinity). -/
theorem positiveDigitComp_correct {F p eb} (lay : Layout F p eb) {E : Env} {radix : Nat} (T : BigPowOk E radix)
    (hcap : E.L.bigintLimbs < 2 ^ 20) {M : Nat} (hM : M ≠ 0) {e : Int} (he0 : 0 ≤ e) (he : e < 2 ^ 29)
    (hfit : M * radix ^ e.toNat < 2 ^ (64 * E.L.bigintLimbs)) :
    ∃ r, positiveDigitComp E F radix M e = some r ∧ 0 ≤ r.exp ∧
      extendedToFloat F r = roundNE F.fmt (M * radix ^ e.toNat) 1 := by
  have hrad : 0 < radix := by
    have := T.split
    apply Nat.pos_of_ne_zero; intro h0
    rw [h0] at this
    have h2 := Nat.two_pow_pos (E.L.splitRadix 0).2
    split at this <;> simp_all
  unfold positiveDigitComp
  rw [asU32_ofNat he0 (by omega), bigintPow_eq T hM e.toNat (by omega) hfit]
  simp only [Option.map_some]
  have hX : M * radix ^ e.toNat ≠ 0 := Nat.mul_ne_zero hM (Nat.ne_of_gt (Nat.pow_pos hrad))
  generalize M * radix ^ e.toNat = X at *
  have hbl : bitlen X ≤ 64 * E.L.bigintLimbs := (bitlen_le_iff _ _).mpr hfit
  have hB := lay.bias
  have heb := lay.heb15
  have hpp := lay.hp64
  have hbias : F.C.exponentBias < 2 ^ 16 := by
    rw [hB]
    have : 2 ^ (eb - 1) ≤ 2 ^ 14 := Nat.pow_le_pow_right (by decide) (by omega)
    have h14 : (2 : Nat) ^ 14 = 16384 := by norm_num
    have h16 : (2 : Int) ^ 16 = 65536 := by norm_num
    omega
  have hbias0 : 0 ≤ F.C.exponentBias := by rw [hB]; omega
  have h20 : (2 : Nat) ^ 20 = 1048576 := by norm_num
  have h16 : (2 : Int) ^ 16 = 65536 := by norm_num
  have h31 : (2 : Int) ^ 31 = 2147483648 := by norm_num
  have e1 : wrapI32 ((bitLength X : Int) - 64) = (bitlen X : Int) - 64 := by
    unfold bitLength; apply wrapI32_eq <;> omega
  have e2 : wrapI32 ((bitlen X : Int) - 64 + F.C.exponentBias) = (bitlen X : Int) - 64 + F.C.exponentBias := by
    apply wrapI32_eq <;> omega
  rw [e1, e2]
  obtain ⟨a, b⟩ := round_hi64 lay hX
  exact ⟨_, rfl, a, b⟩

end LexVerif.Proof.Slow
