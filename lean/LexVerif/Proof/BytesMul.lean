import LexVerif.Proof.BytesLimbs
/-!
# Proof.BytesMul — `large_add_from`, `long_mul`, `large_mul`, `pow` on limbs

`long_mul(x, y)` is the schoolbook product: `z = x·y[0]`, then `z += (x·y[i]) << 64·i` for every non-zero limb of `y`
(`small_mul`, `large_add_from`, `small_add_from` for the last carry), normalised at the end. Between the steps `z` is a
vector of 64-bit limbs that may carry zero limbs at the top, so the steps are specified on `LimbsOk` vectors
(`largeAddFromL_spec`, `longMulGo_spec`); `largeMulL_spec`: the product of two normalised vectors is normalised, denotes
the product, and is computed whenever it fits the capacity. `powOddL_spec`: the free function `pow`.
-/
namespace LexVerif.Proof.Slow
open LexVerif.Spec LexVerif.Model LexVerif.Model.Slow LexVerif.Proof.RoundNE

/-! ## `small_add_from` -/

theorem carry_step (B a c q m R k V Bn : Nat) (hdm : B * q + m = a + c) (e1 : R + Bn * k = V + q) :
    m + B * R + Bn * B * k = a + B * V + c := by
  have a1 : B * (R + Bn * k) = B * (V + q) := by rw [e1]
  have a2 : B * (R + Bn * k) = B * R + Bn * B * k := by ring
  have a3 : B * (V + q) = B * V + B * q := by ring
  omega

theorem smallAddFromGo_spec : ∀ (x : Limbs) (start c : Nat), LimbsOk x → c ≤ 1 → start ≤ x.length →
    valL (smallAddFromGo x start c).1 + B64 ^ x.length * (smallAddFromGo x start c).2 = valL x + B64 ^ start * c ∧
    (smallAddFromGo x start c).1.length = x.length ∧ LimbsOk (smallAddFromGo x start c).1 ∧
    (smallAddFromGo x start c).2 ≤ 1
  | [], start, c, _, hc, hs => by
    have : start = 0 := by simpa using hs
    subst this
    simp only [smallAddFromGo, valL, List.length_nil, Nat.pow_zero, Nat.one_mul, Nat.zero_add]
    exact ⟨True.intro, True.intro, limbsOk_nil, hc⟩
  | xi :: xs, 0, c, ox, hc, _ => by
    obtain ⟨hxi, oxs⟩ := limbsOk_cons.mp ox
    by_cases hc0 : c = 0
    · subst hc0
      have : smallAddFromGo (xi :: xs) 0 0 = (xi :: xs, 0) := by simp [smallAddFromGo]
      rw [this]
      exact ⟨by simp, rfl, ox, Nat.zero_le _⟩
    · have hun : smallAddFromGo (xi :: xs) 0 c =
          (((xi + c) % B64) :: (smallAddFromGo xs 0 ((xi + c) / B64)).1, (smallAddFromGo xs 0 ((xi + c) / B64)).2) := by
        simp [smallAddFromGo, hc0]
      rw [hun]
      have hcar : (xi + c) / B64 ≤ 1 := by
        have : (xi + c) / B64 < 2 := by
          rw [Nat.div_lt_iff_lt_mul B64_pos]; omega
        omega
      obtain ⟨e1, e2, e3, e4⟩ := smallAddFromGo_spec xs 0 ((xi + c) / B64) oxs hcar (Nat.zero_le _)
      simp only [valL, List.length_cons, Nat.pow_zero, Nat.one_mul] at e1 ⊢
      refine ⟨?_, by rw [e2], limbsOk_cons.mpr ⟨Nat.mod_lt _ B64_pos, e3⟩, e4⟩
      rw [Nat.pow_succ]
      exact carry_step B64 xi c _ _ _ _ _ _ (Nat.div_add_mod (xi + c) B64) e1
  | xi :: xs, s + 1, c, ox, hc, hs => by
    obtain ⟨hxi, oxs⟩ := limbsOk_cons.mp ox
    simp only [List.length_cons, Nat.add_le_add_iff_right] at hs
    obtain ⟨e1, e2, e3, e4⟩ := smallAddFromGo_spec xs s c oxs hc hs
    simp only [smallAddFromGo, valL, List.length_cons]
    refine ⟨?_, by rw [e2], limbsOk_cons.mpr ⟨hxi, e3⟩, e4⟩
    rw [Nat.pow_succ, Nat.pow_succ]
    generalize B64 ^ xs.length = Bn at *
    generalize B64 ^ s = Bs at *
    have a1 : B64 * (valL (smallAddFromGo xs s c).1 + Bn * (smallAddFromGo xs s c).2) =
        B64 * (valL xs + Bs * c) := by rw [e1]
    have a2 : B64 * (valL (smallAddFromGo xs s c).1 + Bn * (smallAddFromGo xs s c).2) =
        B64 * valL (smallAddFromGo xs s c).1 + Bn * B64 * (smallAddFromGo xs s c).2 := by ring
    have a3 : B64 * (valL xs + Bs * c) = B64 * valL xs + Bs * B64 * c := by ring
    omega

/-- **`small_add_from`** of a carry `1` on a vector of limbs (not necessarily normalised) -/
theorem smallAddFromL_spec {cap : Nat} {x : Limbs} (ox : LimbsOk x) {start : Nat} (hs : start ≤ x.length) :
    (∀ z, smallAddFromL cap x 1 start = some z →
      LimbsOk z ∧ valL z = valL x + B64 ^ start ∧ x.length ≤ z.length ∧ z.length ≤ max x.length cap) ∧
    (valL x + B64 ^ start < B64 ^ cap → ∃ z, smallAddFromL cap x 1 start = some z) := by
  obtain ⟨e1, e2, e3, e4⟩ := smallAddFromGo_spec x start 1 ox (Nat.le_refl _) hs
  rw [Nat.mul_one] at e1
  unfold smallAddFromL
  dsimp only
  by_cases h0 : (smallAddFromGo x start 1).2 = 0
  · rw [if_neg (by simpa using h0)]
    rw [h0, Nat.mul_zero, Nat.add_zero] at e1
    exact ⟨fun z hz => by injection hz with hz; subst hz; exact ⟨e3, e1, by rw [e2], by rw [e2]; omega⟩,
      fun _ => ⟨_, rfl⟩⟩
  · rw [if_pos (by simpa using h0)]
    have h1 : (smallAddFromGo x start 1).2 = 1 := by omega
    unfold tryPush
    rw [e2]
    constructor
    · intro z hz
      split at hz
      · injection hz with hz; subst hz
        refine ⟨limbsOk_append.mpr ⟨e3, fun l hl => by simp at hl; rw [hl, h1]; unfold B64; norm_num⟩, ?_,
          by simp; omega, by simp; omega⟩
        rw [valL_append, e2]; exact e1
      · exact absurd hz (by simp)
    · intro hfit
      rw [h1, Nat.mul_one] at e1
      have : x.length < cap := by
        have : B64 ^ x.length < B64 ^ cap := by omega
        exact (Nat.pow_lt_pow_iff_right (by unfold B64; norm_num : 1 < B64)).mp this
      rw [if_pos this]; exact ⟨_, rfl⟩

/-! ## `large_add_from` -/

theorem addGo_spec : ∀ (xs ys : Limbs) (c : Nat), LimbsOk xs → LimbsOk ys → c ≤ 1 → ys.length ≤ xs.length →
    valL (addGo xs ys c).1 + B64 ^ ys.length * (addGo xs ys c).2 = valL (xs.take ys.length) + valL ys + c ∧
    (addGo xs ys c).1.length = ys.length ∧ LimbsOk (addGo xs ys c).1 ∧ (addGo xs ys c).2 ≤ 1
  | xs, [], c, _, _, hc, _ => by
    cases xs <;> simp [addGo, valL, limbsOk_nil, hc]
  | [], _ :: _, _, _, _, _, h => by simp at h
  | xi :: xs, yi :: ys, c, ox, oy, hc, hl => by
    obtain ⟨hxi, oxs⟩ := limbsOk_cons.mp ox
    obtain ⟨hyi, oys⟩ := limbsOk_cons.mp oy
    simp only [List.length_cons, Nat.add_le_add_iff_right] at hl
    have hcar : (xi + yi + c) / B64 ≤ 1 := by
      have : (xi + yi + c) / B64 < 2 := by
        rw [Nat.div_lt_iff_lt_mul B64_pos]; omega
      omega
    obtain ⟨e1, e2, e3, e4⟩ := addGo_spec xs ys ((xi + yi + c) / B64) oxs oys hcar hl
    simp only [addGo, valL, List.length_cons, List.take_succ_cons]
    refine ⟨?_, by rw [e2], limbsOk_cons.mpr ⟨Nat.mod_lt _ B64_pos, e3⟩, e4⟩
    rw [Nat.pow_succ]
    have := carry_step B64 (xi + yi) c _ _ _ _ _ _ (Nat.div_add_mod (xi + yi + c) B64)
      (show valL (addGo xs ys ((xi + yi + c) / B64)).1 + B64 ^ ys.length * (addGo xs ys ((xi + yi + c) / B64)).2 =
        (valL (List.take ys.length xs) + valL ys) + (xi + yi + c) / B64 from e1)
    have a : B64 * (valL (List.take ys.length xs) + valL ys) =
        B64 * valL (List.take ys.length xs) + B64 * valL ys := by ring
    omega

/-- the core of `large_add_from` on a vector split as `A ++ Mi ++ Rr` with `|A| = start`, `|Mi| = |y|` -/
theorem addMid_spec {cap : Nat} (A Mi Rr y : Limbs) (oA : LimbsOk A) (oM : LimbsOk Mi) (oR : LimbsOk Rr) (oy : LimbsOk y)
    (hm : Mi.length = y.length) (hcap : (A ++ (Mi ++ Rr)).length ≤ cap) :
    (∀ z, (if (addGo (Mi ++ Rr) y 0).2 ≠ 0
          then smallAddFromL cap (A ++ (addGo (Mi ++ Rr) y 0).1 ++ Rr) 1 (y.length + A.length)
          else some (A ++ (addGo (Mi ++ Rr) y 0).1 ++ Rr)) = some z →
      LimbsOk z ∧ valL z = valL (A ++ (Mi ++ Rr)) + B64 ^ A.length * valL y ∧
        (A ++ (Mi ++ Rr)).length ≤ z.length ∧ z.length ≤ cap) ∧
    (valL (A ++ (Mi ++ Rr)) + B64 ^ A.length * valL y < B64 ^ cap →
      ∃ z, (if (addGo (Mi ++ Rr) y 0).2 ≠ 0
          then smallAddFromL cap (A ++ (addGo (Mi ++ Rr) y 0).1 ++ Rr) 1 (y.length + A.length)
          else some (A ++ (addGo (Mi ++ Rr) y 0).1 ++ Rr)) = some z) := by
  obtain ⟨e1, e2, e3, e4⟩ := addGo_spec (Mi ++ Rr) y 0 (limbsOk_append.mpr ⟨oM, oR⟩) oy (by omega)
    (by rw [List.length_append]; omega)
  have htk : List.take y.length (Mi ++ Rr) = Mi := by rw [← hm]; simp
  rw [Nat.add_zero, htk] at e1
  generalize addGo (Mi ++ Rr) y 0 = r at *
  have ox' : LimbsOk (A ++ r.1 ++ Rr) := limbsOk_append.mpr ⟨limbsOk_append.mpr ⟨oA, e3⟩, oR⟩
  have hl' : (A ++ r.1 ++ Rr).length = (A ++ (Mi ++ Rr)).length := by simp [e2, hm]
  have hv' : valL (A ++ r.1 ++ Rr) + B64 ^ (y.length + A.length) * r.2 =
      valL (A ++ (Mi ++ Rr)) + B64 ^ A.length * valL y := by
    rw [List.append_assoc, valL_append_pow A, valL_append_pow r.1, valL_append_pow A, valL_append_pow Mi, e2, hm, Nat.pow_add]
    generalize B64 ^ A.length = Ba at *
    generalize B64 ^ y.length = By at *
    have a1 : Ba * (valL r.1 + By * r.2) = Ba * (valL Mi + valL y) := by rw [e1]
    have a2 : Ba * (valL r.1 + By * r.2) = Ba * valL r.1 + By * Ba * r.2 := by ring
    have a3 : Ba * (valL Mi + valL y) = Ba * valL Mi + Ba * valL y := by ring
    have a4 : Ba * (valL Mi + By * valL Rr) = Ba * valL Mi + Ba * By * valL Rr := by ring
    have a5 : Ba * (valL r.1 + By * valL Rr) = Ba * valL r.1 + Ba * By * valL Rr := by ring
    omega
  by_cases h0 : r.2 = 0
  · rw [if_neg (by simpa using h0)]
    rw [h0, Nat.mul_zero, Nat.add_zero] at hv'
    exact ⟨fun z hz => by injection hz with hz; subst hz; exact ⟨ox', hv', by rw [hl'], by rw [hl']; exact hcap⟩,
      fun _ => ⟨_, rfl⟩⟩
  · rw [if_pos h0]
    have h1 : r.2 = 1 := by omega
    rw [h1, Nat.mul_one] at hv'
    obtain ⟨s1, s2⟩ := smallAddFromL_spec (cap := cap) ox' (start := y.length + A.length)
      (by rw [hl']; simp [hm]; omega)
    constructor
    · intro z hz
      obtain ⟨a, b, c, d⟩ := s1 z hz
      refine ⟨a, by rw [b, hv'], by rw [← hl']; exact c, ?_⟩
      rw [hl'] at d
      omega
    · intro hfit
      exact s2 (by rw [hv']; exact hfit)

/-- **`large_add_from(x, y, start)`**: `x += y·B^start`, for `x` a vector of limbs -/
theorem largeAddFromL_spec {cap : Nat} {x y : Limbs} (ox : LimbsOk x) (oy : LimbsOk y) (hy : 0 < y.length)
    (start : Nat) (hlen : x.length ≤ cap) :
    (∀ z, largeAddFromL cap x y start = some z →
      LimbsOk z ∧ valL z = valL x + B64 ^ start * valL y ∧ x.length ≤ z.length ∧ z.length ≤ cap) ∧
    (y.length + start ≤ cap → valL x + B64 ^ start * valL y < B64 ^ cap → ∃ z, largeAddFromL cap x y start = some z) := by
  -- the resize
  have hres : ∀ x1, (if y.length > x.length - start then
        (if y.length + start > cap then none else some (x ++ List.replicate (y.length + start - x.length) 0))
      else some x) = some x1 →
      LimbsOk x1 ∧ valL x1 = valL x ∧ y.length + start ≤ x1.length ∧ x.length ≤ x1.length ∧ x1.length ≤ cap := by
    intro x1 h
    split at h
    · rename_i g1
      split at h
      · exact absurd h (by simp)
      · rename_i g2
        injection h with h; subst h
        refine ⟨limbsOk_append.mpr ⟨ox, fun l hl => by rw [List.eq_of_mem_replicate hl]; exact B64_pos⟩, ?_, ?_, ?_, ?_⟩
        · rw [valL_append_pow]
          have : valL (List.replicate (y.length + start - x.length) 0) = 0 := by
            have := valL_zeros_append (y.length + start - x.length) []
            simpa [valL] using this
          rw [this]; simp
        · simp; omega
        · simp
        · simp; omega
    · injection h with h; subst h
      exact ⟨ox, rfl, by omega, Nat.le_refl _, hlen⟩
  -- the body, on the split vector
  have hbody : ∀ x1, LimbsOk x1 → y.length + start ≤ x1.length → x1.length ≤ cap →
      ∃ A Mi Rr, x1 = A ++ (Mi ++ Rr) ∧ A.length = start ∧ Mi.length = y.length ∧ LimbsOk A ∧ LimbsOk Mi ∧ LimbsOk Rr ∧
        (let r := addGo (x1.drop start) y 0
         let x' := x1.take start ++ r.1 ++ x1.drop (start + y.length)
         if r.2 ≠ 0 then smallAddFromL cap x' 1 (y.length + start) else some x') =
        (if (addGo (Mi ++ Rr) y 0).2 ≠ 0
          then smallAddFromL cap (A ++ (addGo (Mi ++ Rr) y 0).1 ++ Rr) 1 (y.length + A.length)
          else some (A ++ (addGo (Mi ++ Rr) y 0).1 ++ Rr)) := by
    intro x1 o1 hl1 _
    refine ⟨x1.take start, (x1.drop start).take y.length, (x1.drop start).drop y.length, ?_, by simp; omega,
      by simp; omega, fun l hl => o1 l (List.mem_of_mem_take hl),
      fun l hl => o1 l (List.mem_of_mem_drop (List.mem_of_mem_take hl)),
      fun l hl => o1 l (List.mem_of_mem_drop (List.mem_of_mem_drop hl)), ?_⟩
    · rw [List.take_append_drop, List.take_append_drop]
    · have hA : (x1.take start).length = start := by simp; omega
      rw [List.take_append_drop, List.drop_drop, hA]
  unfold largeAddFromL
  constructor
  · intro z hz
    cases hx1 : (if y.length > x.length - start then
        (if y.length + start > cap then none else some (x ++ List.replicate (y.length + start - x.length) 0))
      else some x) with
    | none => rw [hx1] at hz; exact absurd hz (by simp)
    | some x1 =>
      rw [hx1, Option.bind_some] at hz
      obtain ⟨o1, v1, l1, l2, l3⟩ := hres x1 hx1
      obtain ⟨A, Mi, Rr, hx, hA, hM, oA, oM, oR, hb⟩ := hbody x1 o1 l1 l3
      rw [hb] at hz
      obtain ⟨a, b, c, d⟩ := (addMid_spec (cap := cap) A Mi Rr y oA oM oR oy hM (by rw [← hx]; exact l3)).1 z hz
      rw [← hx] at b c
      rw [hA] at b
      exact ⟨a, by rw [b, v1], by omega, d⟩
  · intro hyc hfit
    have : ∃ x1, (if y.length > x.length - start then
        (if y.length + start > cap then none else some (x ++ List.replicate (y.length + start - x.length) 0))
      else some x) = some x1 := by
      split
      · rw [if_neg (by omega)]; exact ⟨_, rfl⟩
      · exact ⟨_, rfl⟩
    obtain ⟨x1, hx1⟩ := this
    obtain ⟨o1, v1, l1, l2, l3⟩ := hres x1 hx1
    obtain ⟨A, Mi, Rr, hx, hA, hM, oA, oM, oR, hb⟩ := hbody x1 o1 l1 l3
    rw [hx1, Option.bind_some, hb]
    apply (addMid_spec (cap := cap) A Mi Rr y oA oM oR oy hM (by rw [← hx]; exact l3)).2
    rw [← hx, hA, v1]; exact hfit

/-! ## `long_mul`, `large_mul` -/

/-- `small_mul` on a vector of limbs (not necessarily normalised), any multiplier limb (zero included) -/
theorem smallMulL_ok_spec {cap : Nat} {x : Limbs} (ox : LimbsOk x) (hlen : x.length ≤ cap) {y : Nat} (hy : y < B64) :
    (∀ z, smallMulL cap x y = some z → LimbsOk z ∧ valL z = valL x * y ∧ x.length ≤ z.length ∧ z.length ≤ cap) ∧
    (valL x * y < B64 ^ cap → ∃ z, smallMulL cap x y = some z) := by
  obtain ⟨h1, h2, h3⟩ := smallMulGo_spec y x 0
  rw [Nat.add_zero] at h1
  have hxl := valL_lt ox
  unfold smallMulL
  dsimp only
  by_cases hc : (smallMulGo y x 0).2 = 0
  · rw [if_neg (by simpa using hc)]
    rw [hc, Nat.mul_zero, Nat.add_zero] at h1
    exact ⟨fun z hz => by injection hz with hz; subst hz; exact ⟨h3, h1, by rw [h2], by rw [h2]; exact hlen⟩,
      fun _ => ⟨_, rfl⟩⟩
  · rw [if_pos (by simpa using hc)]
    unfold tryPush
    rw [h2]
    have hcl : (smallMulGo y x 0).2 < B64 := by
      apply Classical.byContradiction; intro hcon
      have : valL x * y < B64 ^ x.length * B64 := by
        by_cases hy0 : y = 0
        · rw [hy0, Nat.mul_zero]; exact Nat.mul_pos (Nat.pow_pos B64_pos) B64_pos
        · exact Nat.mul_lt_mul_of_lt_of_le hxl (Nat.le_of_lt hy) (by omega)
      have : B64 ^ x.length * B64 ≤ B64 ^ x.length * (smallMulGo y x 0).2 := Nat.mul_le_mul_left _ (by omega)
      omega
    constructor
    · intro z hz
      split at hz
      · rename_i hlt
        injection hz with hz; subst hz
        refine ⟨limbsOk_append.mpr ⟨h3, fun l hl => by simp at hl; rw [hl]; exact hcl⟩, ?_, by simp [h2], by simp [h2]; omega⟩
        rw [valL_append, h2]; exact h1
      · exact absurd hz (by simp)
    · intro hfit
      have hge : B64 ^ x.length ≤ valL x * y := by
        rw [← h1]
        have : B64 ^ x.length * 1 ≤ B64 ^ x.length * (smallMulGo y x 0).2 :=
          Nat.mul_le_mul_left _ (Nat.pos_of_ne_zero hc)
        omega
      have : x.length < cap := by
        have : B64 ^ x.length < B64 ^ cap := by omega
        exact (Nat.pow_lt_pow_iff_right (by unfold B64; norm_num : 1 < B64)).mp this
      rw [if_pos this]; exact ⟨_, rfl⟩

/-- the accumulation loop of `long_mul`: `z += x·ys·B^index` -/
theorem longMulGo_spec {cap : Nat} {x : Limbs} (hx : Normalized x) (hxne : x ≠ []) (hxl : x.length ≤ cap) :
    ∀ (ys : Limbs) (index : Nat) (z : Limbs), LimbsOk ys → LimbsOk z → z.length ≤ cap →
      (∀ z', longMulGo cap x ys index z = some z' →
        LimbsOk z' ∧ valL z' = valL z + B64 ^ index * (valL x * valL ys) ∧ z'.length ≤ cap) ∧
      (valL z + B64 ^ index * (valL x * valL ys) < B64 ^ cap → ∃ z', longMulGo cap x ys index z = some z')
  | [], index, z, _, oz, hz => by
    simp only [longMulGo, valL, Nat.mul_zero, Nat.add_zero]
    exact ⟨fun z' h => by injection h with h; subst h; exact ⟨oz, rfl, hz⟩, fun _ => ⟨_, rfl⟩⟩
  | yi :: ys, index, z, oys, oz, hz => by
    obtain ⟨hyi, oys'⟩ := limbsOk_cons.mp oys
    have hsplit : valL z + B64 ^ index * (valL x * valL (yi :: ys)) =
        (valL z + B64 ^ index * (valL x * yi)) + B64 ^ (index + 1) * (valL x * valL ys) := by
      simp only [valL]; rw [Nat.pow_succ]; ring
    rw [hsplit]
    by_cases h0 : yi = 0
    · have hun : longMulGo cap x (yi :: ys) index z = longMulGo cap x ys (index + 1) z := by
        simp [longMulGo, h0]
      rw [hun, h0, Nat.mul_zero, Nat.mul_zero, Nat.add_zero]
      exact longMulGo_spec hx hxne hxl ys (index + 1) z oys' oz hz
    · have hun : longMulGo cap x (yi :: ys) index z =
          (smallMulL cap x yi).bind fun zi =>
            (largeAddFromL cap z zi index).bind fun z => longMulGo cap x ys (index + 1) z := by
        simp [longMulGo, h0]
      rw [hun]
      obtain ⟨m1, m2⟩ := smallMulL_spec (cap := cap) hx hxl (y := yi) h0 hyi
      constructor
      · intro z' hz'
        cases hzi : smallMulL cap x yi with
        | none => rw [hzi] at hz'; exact absurd hz' (by simp)
        | some zi =>
          rw [hzi, Option.bind_some] at hz'
          obtain ⟨nzi, vzi⟩ := m1 zi hzi
          have hzine : 0 < zi.length := by
            apply List.length_pos_iff.mpr
            intro h0'
            have := valL_pos hx hxne
            have : 0 < valL x * yi := Nat.mul_pos this (Nat.pos_of_ne_zero h0)
            rw [h0'] at vzi; simp [valL] at vzi; omega
          obtain ⟨a1, _⟩ := largeAddFromL_spec (cap := cap) oz nzi.1 hzine index hz
          cases hz2 : largeAddFromL cap z zi index with
          | none => rw [hz2] at hz'; exact absurd hz' (by simp)
          | some z2 =>
            rw [hz2, Option.bind_some] at hz'
            obtain ⟨oz2, vz2, _, lz2⟩ := a1 z2 hz2
            obtain ⟨g1, _⟩ := longMulGo_spec hx hxne hxl ys (index + 1) z2 oys' oz2 lz2
            obtain ⟨r1, r2, r3⟩ := g1 z' hz'
            exact ⟨r1, by rw [r2, vz2, vzi], r3⟩
      · intro hfit
        have hpos : 0 < B64 ^ index := Nat.pow_pos B64_pos
        have hpart : valL z + B64 ^ index * (valL x * yi) < B64 ^ cap := by omega
        have hxy : valL x * yi < B64 ^ cap := by
          have : valL x * yi * 1 ≤ B64 ^ index * (valL x * yi) := by
            rw [Nat.mul_comm (B64 ^ index)]; exact Nat.mul_le_mul_left _ hpos
          omega
        obtain ⟨zi, hzi⟩ := m2 hxy
        obtain ⟨nzi, vzi⟩ := m1 zi hzi
        have hzine : zi ≠ [] := by
          intro h0'
          have := valL_pos hx hxne
          have : 0 < valL x * yi := Nat.mul_pos this (Nat.pos_of_ne_zero h0)
          rw [h0'] at vzi; simp [valL] at vzi; omega
        have hzipos : 0 < zi.length := List.length_pos_iff.mpr hzine
        obtain ⟨a1, a2⟩ := largeAddFromL_spec (cap := cap) oz nzi.1 hzipos index hz
        have hzl : zi.length + index ≤ cap := by
          have hge := valL_ge nzi hzine
          rw [vzi] at hge
          have : B64 ^ index * B64 ^ (zi.length - 1) ≤ B64 ^ index * (valL x * yi) := Nat.mul_le_mul_left _ hge
          rw [← Nat.pow_add] at this
          have : B64 ^ (index + (zi.length - 1)) < B64 ^ cap := by omega
          have := (Nat.pow_lt_pow_iff_right (by unfold B64; norm_num : 1 < B64)).mp this
          omega
        obtain ⟨z2, hz2⟩ := a2 hzl (by rw [vzi]; exact hpart)
        obtain ⟨oz2, vz2, _, lz2⟩ := a1 z2 hz2
        obtain ⟨_, g2⟩ := longMulGo_spec hx hxne hxl ys (index + 1) z2 oys' oz2 lz2
        obtain ⟨z', hz'⟩ := g2 (by rw [vz2, vzi]; exact hfit)
        exact ⟨z', by rw [hzi, Option.bind_some, hz2, Option.bind_some]; exact hz'⟩

/-- **`long_mul(x, y)`** for a normalised non-empty `x` and limbs `y` -/
theorem longMulL_spec {cap : Nat} {x y : Limbs} (hx : Normalized x) (hxne : x ≠ []) (hxl : x.length ≤ cap)
    (oy : LimbsOk y) (hyne : y ≠ []) :
    (∀ z, longMulL cap x y = some z → Normalized z ∧ valL z = valL x * valL y ∧ z.length ≤ cap) ∧
    (valL x * valL y < B64 ^ cap → ∃ z, longMulL cap x y = some z) := by
  cases y with
  | nil => exact absurd rfl hyne
  | cons y0 ys =>
    obtain ⟨hy0, oys⟩ := limbsOk_cons.mp oy
    have hun : longMulL cap x (y0 :: ys) =
        (smallMulL cap x y0).bind fun z => (longMulGo cap x ys 1 z).map normalizeL := by
      unfold longMulL
      rw [if_neg (by omega)]
    rw [hun]
    obtain ⟨m1, m2⟩ := smallMulL_ok_spec (cap := cap) hx.1 hxl (y := y0) hy0
    have hval : valL x * valL (y0 :: ys) = valL x * y0 + B64 ^ 1 * (valL x * valL ys) := by
      simp only [valL, Nat.pow_one]; ring
    constructor
    · intro z hz
      cases hz0 : smallMulL cap x y0 with
      | none => rw [hz0] at hz; exact absurd hz (by simp)
      | some z0 =>
        rw [hz0, Option.bind_some] at hz
        obtain ⟨oz0, vz0, _, lz0⟩ := m1 z0 hz0
        obtain ⟨g1, _⟩ := longMulGo_spec hx hxne hxl ys 1 z0 oys oz0 lz0
        cases hz1 : longMulGo cap x ys 1 z0 with
        | none => rw [hz1] at hz; exact absurd hz (by simp)
        | some z1 =>
          rw [hz1, Option.map_some] at hz
          injection hz with hz; subst hz
          obtain ⟨oz1, vz1, lz1⟩ := g1 z1 hz1
          obtain ⟨n1, n2, n3⟩ := normalizeL_spec _ z1 rfl oz1
          exact ⟨n1, by rw [n2, vz1, vz0, hval], by omega⟩
    · intro hfit
      rw [hval] at hfit
      have : valL x * y0 < B64 ^ cap := by omega
      obtain ⟨z0, hz0⟩ := m2 this
      obtain ⟨oz0, vz0, _, lz0⟩ := m1 z0 hz0
      obtain ⟨_, g2⟩ := longMulGo_spec hx hxne hxl ys 1 z0 oys oz0 lz0
      obtain ⟨z1, hz1⟩ := g2 (by rw [vz0]; exact hfit)
      exact ⟨_, by rw [hz0, Option.bind_some, hz1, Option.map_some]⟩

/-- **`large_mul(x, y)`** of two normalised non-empty vectors -/
theorem largeMulL_spec {cap : Nat} {x y : Limbs} (hx : Normalized x) (hxne : x ≠ []) (hxl : x.length ≤ cap)
    (hy : Normalized y) (hyne : y ≠ []) (hyl : y.length ≤ cap) :
    (∀ z, largeMulL cap x y = some z → Normalized z ∧ valL z = valL x * valL y ∧ z.length ≤ cap) ∧
    (valL x * valL y < B64 ^ cap → ∃ z, largeMulL cap x y = some z) := by
  cases y with
  | nil => exact absurd rfl hyne
  | cons y0 ys =>
    cases ys with
    | nil =>
      have hy0 : y0 ≠ 0 := hy.2 y0 (by simp)
      have hyB : y0 < B64 := hy.1 y0 (by simp)
      have hun : largeMulL cap x [y0] = smallMulL cap x y0 := rfl
      rw [hun]
      simp only [valL, Nat.mul_zero, Nat.add_zero]
      obtain ⟨m1, m2⟩ := smallMulL_spec (cap := cap) hx hxl hy0 hyB
      obtain ⟨k1, _⟩ := smallMulL_ok_spec (cap := cap) hx.1 hxl hyB
      exact ⟨fun z hz => ⟨(m1 z hz).1, (m1 z hz).2, (k1 z hz).2.2.2⟩, m2⟩
    | cons y1 ys' =>
      have hun : largeMulL cap x (y0 :: y1 :: ys') = longMulL cap (y0 :: y1 :: ys') x := rfl
      rw [hun, Nat.mul_comm (valL x)]
      exact longMulL_spec hy hyne hyl hx.1 hxne

/-! ## `pow` -/

theorem iterOptL_mul {f : Limbs → Option Limbs} {c cap : Nat} (hc : 0 < c)
    (hf : ∀ x, Normalized x → x ≠ [] → x.length ≤ cap →
      (∀ z, f x = some z → Normalized z ∧ valL z = valL x * c ∧ z.length ≤ cap) ∧
      (valL x * c < B64 ^ cap → ∃ z, f x = some z)) :
    ∀ (n : Nat) (x : Limbs), Normalized x → x ≠ [] → x.length ≤ cap →
      (∀ z, iterOptL f n x = some z → Normalized z ∧ valL z = valL x * c ^ n ∧ z.length ≤ cap ∧ z ≠ []) ∧
      (valL x * c ^ n < B64 ^ cap → ∃ z, iterOptL f n x = some z)
  | 0, x, hx, hne, hl => by
    simp only [iterOptL, Nat.pow_zero, Nat.mul_one]
    exact ⟨fun z hz => by injection hz with hz; subst hz; exact ⟨hx, rfl, hl, hne⟩, fun _ => ⟨_, rfl⟩⟩
  | n + 1, x, hx, hne, hl => by
    obtain ⟨f1, f2⟩ := hf x hx hne hl
    have e : valL x * c ^ (n + 1) = valL x * c * c ^ n := by rw [Nat.pow_succ]; ring
    have hxpos := valL_pos hx hne
    unfold iterOptL
    constructor
    · intro z hz
      cases hy : f x with
      | none => rw [hy] at hz; exact absurd hz (by simp)
      | some y =>
        rw [hy, Option.bind_some] at hz
        obtain ⟨ny, vy, ly⟩ := f1 y hy
        have hyne : y ≠ [] := by
          intro h0; rw [h0] at vy; simp [valL] at vy
          have := Nat.mul_pos hxpos hc; omega
        obtain ⟨g1, _⟩ := iterOptL_mul hc hf n y ny hyne ly
        obtain ⟨a, b, c', d⟩ := g1 z hz
        exact ⟨a, by rw [b, vy, e], c', d⟩
    · intro hfit
      rw [e] at hfit
      have hle : valL x * c ≤ valL x * c * c ^ n := Nat.le_mul_of_pos_right _ (Nat.pow_pos hc)
      obtain ⟨y, hy⟩ := f2 (by omega)
      obtain ⟨ny, vy, ly⟩ := f1 y hy
      have hyne : y ≠ [] := by
        intro h0; rw [h0] at vy; simp [valL] at vy
        have := Nat.mul_pos hxpos hc; omega
      obtain ⟨_, g2⟩ := iterOptL_mul hc hf n y ny hyne ly
      obtain ⟨z, hz⟩ := g2 (by rw [vy]; exact hfit)
      exact ⟨z, by rw [hy, Option.bind_some]; exact hz⟩

/-- `small_mul` by a non-zero limb, all in one -/
theorem smallMulL_full {cap : Nat} {x : Limbs} (h : Normalized x) (hlen : x.length ≤ cap) {y : Nat} (hy0 : y ≠ 0)
    (hy : y < B64) :
    (∀ z, smallMulL cap x y = some z → Normalized z ∧ valL z = valL x * y ∧ z.length ≤ cap) ∧
    (valL x * y < B64 ^ cap → ∃ z, smallMulL cap x y = some z) := by
  obtain ⟨m1, m2⟩ := smallMulL_spec (cap := cap) h hlen hy0 hy
  obtain ⟨k1, _⟩ := smallMulL_ok_spec (cap := cap) h.1 hlen hy
  exact ⟨fun z hz => ⟨(m1 z hz).1, (m1 z hz).2, (k1 z hz).2.2.2⟩, m2⟩

theorem limbsVal_eq_valL : ∀ (l : Limbs), PowerTables.limbsVal 64 l = valL l
  | [] => rfl
  | a :: as => by
    have := limbsVal_eq_valL as
    simp only [PowerTables.limbsVal, List.foldr_cons, valL] at this ⊢
    rw [this]; rfl

/-- the table facts `pow` needs on limbs: `PowOk`, and the large power is a normalised non-empty vector -/
structure PowOkL (E : Env) (cap base : Nat) : Prop where
  ok : PowOk E cap base
  norm : E.L.hasLarge = true → Normalized (E.L.largeLimbs base).toList ∧ (E.L.largeLimbs base).toList ≠ []

/-- **`pow(x, base, exp)`** on limbs: `x·base^exp`, normalised, computed whenever it fits -/
theorem powOddL_spec {E : Env} {cap base : Nat} (T : PowOkL E cap base) {x : Limbs} (hx : Normalized x) (hne : x ≠ [])
    (hl : x.length ≤ cap) (exp : Nat) :
    (∀ z, powOddL E cap x base exp = some z → Normalized z ∧ valL z = valL x * base ^ exp ∧ z.length ≤ cap ∧ z ≠ []) ∧
    (valL x * base ^ exp < B64 ^ cap → ∃ z, powOddL E cap x base exp = some z) := by
  have hb := T.ok.base_pos
  have hs := T.ok.small_pos
  have hslt := T.ok.small_lt
  -- the part after the large powers
  have small : ∀ (x : Limbs) (e : Nat), Normalized x → x ≠ [] → x.length ≤ cap →
      (∀ z, (if E.S.u64PowerLimit base = 0 then none
         else (iterOptL (fun x => smallMulL cap x (wrap64 (base ^ E.S.u64PowerLimit base)))
                (e / E.S.u64PowerLimit base) x).bind fun x =>
              if e % E.S.u64PowerLimit base ≠ 0 then
                (intPowFastPath E (e % E.S.u64PowerLimit base) base).bind fun sp => smallMulL cap x (wrap64 sp)
              else some x) = some z →
        Normalized z ∧ valL z = valL x * base ^ e ∧ z.length ≤ cap ∧ z ≠ []) ∧
      (valL x * base ^ e < B64 ^ cap → ∃ z, (if E.S.u64PowerLimit base = 0 then none
         else (iterOptL (fun x => smallMulL cap x (wrap64 (base ^ E.S.u64PowerLimit base)))
                (e / E.S.u64PowerLimit base) x).bind fun x =>
              if e % E.S.u64PowerLimit base ≠ 0 then
                (intPowFastPath E (e % E.S.u64PowerLimit base) base).bind fun sp => smallMulL cap x (wrap64 sp)
              else some x) = some z) := by
    intro x e hx hne hl
    generalize hS : E.S.u64PowerLimit base = s at *
    rw [if_neg (by omega)]
    have hw : wrap64 (base ^ s) = base ^ s := Nat.mod_eq_of_lt hslt
    rw [hw]
    have hdm := Nat.div_add_mod e s
    have esplit : base ^ e = (base ^ s) ^ (e / s) * base ^ (e % s) := by
      rw [← Nat.pow_mul, ← Nat.pow_add, hdm]
    have hbs : 0 < base ^ s := Nat.pow_pos hb
    have hbsB : base ^ s < B64 := hslt
    obtain ⟨i1, i2⟩ := iterOptL_mul (f := fun x => smallMulL cap x (base ^ s)) (c := base ^ s) (cap := cap) hbs
      (fun x hx _ hl => smallMulL_full hx hl (by omega) hbsB) (e / s) x hx hne hl
    have hml := Nat.mod_lt e hs
    have hrb : base ^ (e % s) < B64 := by
      have : base ^ (e % s) ≤ base ^ s := Nat.pow_le_pow_right hb (by omega)
      omega
    have hwr : wrap64 (base ^ (e % s)) = base ^ (e % s) := Nat.mod_eq_of_lt hrb
    constructor
    · intro z hz
      cases hy : iterOptL (fun x => smallMulL cap x (base ^ s)) (e / s) x with
      | none => rw [hy] at hz; exact absurd hz (by simp)
      | some y =>
        rw [hy, Option.bind_some] at hz
        obtain ⟨ny, vy, ly, yne⟩ := i1 y hy
        by_cases hr0 : e % s = 0
        · rw [if_neg (by simpa using hr0)] at hz
          injection hz with hz; subst hz
          refine ⟨ny, ?_, ly, yne⟩
          rw [vy, esplit, hr0, Nat.pow_zero, Nat.mul_one]
        · rw [if_pos hr0, T.ok.intpow _ (by rw [hS]; exact hml), Option.bind_some, hwr] at hz
          obtain ⟨m1, _⟩ := smallMulL_full (cap := cap) ny ly (y := base ^ (e % s))
            (Nat.ne_of_gt (Nat.pow_pos hb)) hrb
          obtain ⟨a, b, c⟩ := m1 z hz
          refine ⟨a, by rw [b, vy, esplit]; ring, c, ?_⟩
          intro h0
          rw [h0] at b; simp [valL] at b
          have := valL_pos ny yne
          have := Nat.mul_pos this (Nat.pow_pos hb (n := e % s))
          omega
    · intro hfit
      rw [esplit] at hfit
      have hle : valL x * (base ^ s) ^ (e / s) ≤ valL x * ((base ^ s) ^ (e / s) * base ^ (e % s)) :=
        Nat.mul_le_mul_left _ (Nat.le_mul_of_pos_right _ (Nat.pow_pos hb))
      obtain ⟨y, hy⟩ := i2 (by omega)
      obtain ⟨ny, vy, ly, yne⟩ := i1 y hy
      rw [hy, Option.bind_some]
      by_cases hr0 : e % s = 0
      · rw [if_neg (by simpa using hr0)]; exact ⟨_, rfl⟩
      · rw [if_pos hr0, T.ok.intpow _ (by rw [hS]; exact hml), Option.bind_some, hwr]
        obtain ⟨_, m2⟩ := smallMulL_full (cap := cap) ny ly (y := base ^ (e % s))
          (Nat.ne_of_gt (Nat.pow_pos hb)) hrb
        apply m2
        rw [vy]
        have : valL x * (base ^ s) ^ (e / s) * base ^ (e % s) =
            valL x * ((base ^ s) ^ (e / s) * base ^ (e % s)) := by ring
        omega
  unfold powOddL
  by_cases hL : E.L.hasLarge = true
  · obtain ⟨hst, hY⟩ := T.ok.large hL
    obtain ⟨nY, Yne⟩ := T.norm hL
    have hYv : valL (E.L.largeLimbs base).toList = base ^ E.L.largeStep base := by
      rw [← limbsVal_eq_valL]; exact hY.val
    have hYl : (E.L.largeLimbs base).toList.length ≤ cap := by simpa using hY.size
    simp only [hL, if_true]
    generalize hT : E.L.largeStep base = t at *
    rw [if_neg (by omega)]
    have hdm := Nat.div_add_mod exp t
    have esplit : base ^ exp = (base ^ t) ^ (exp / t) * base ^ (exp % t) := by
      rw [← Nat.pow_mul, ← Nat.pow_add, hdm]
    obtain ⟨i1, i2⟩ := iterOptL_mul (f := fun x => largeMulL cap x (E.L.largeLimbs base).toList) (c := base ^ t)
      (cap := cap) (Nat.pow_pos hb)
      (fun x hx hne hl => by
        have := largeMulL_spec (cap := cap) hx hne hl nY Yne hYl
        rw [hYv] at this
        exact this) (exp / t) x hx hne hl
    constructor
    · intro z hz
      cases hy : iterOptL (fun x => largeMulL cap x (E.L.largeLimbs base).toList) (exp / t) x with
      | none => rw [hy] at hz; exact absurd hz (by simp)
      | some y =>
        rw [hy] at hz
        simp only [Option.map_some, Option.bind_some] at hz
        obtain ⟨ny, vy, ly, yne⟩ := i1 y hy
        obtain ⟨a, b, c, d⟩ := (small y (exp % t) ny yne ly).1 z hz
        exact ⟨a, by rw [b, vy, esplit]; ring, c, d⟩
    · intro hfit
      rw [esplit] at hfit
      have hle : valL x * (base ^ t) ^ (exp / t) ≤ valL x * ((base ^ t) ^ (exp / t) * base ^ (exp % t)) :=
        Nat.mul_le_mul_left _ (Nat.le_mul_of_pos_right _ (Nat.pow_pos hb))
      obtain ⟨y, hy⟩ := i2 (by omega)
      obtain ⟨ny, vy, ly, yne⟩ := i1 y hy
      rw [hy]
      simp only [Option.map_some, Option.bind_some]
      apply (small y (exp % t) ny yne ly).2
      rw [vy]
      have : valL x * (base ^ t) ^ (exp / t) * base ^ (exp % t) =
          valL x * ((base ^ t) ^ (exp / t) * base ^ (exp % t)) := by ring
      omega
  · have hL' : E.L.hasLarge = false := by simpa using hL
    simp only [hL', Bool.false_eq_true, if_false, Option.bind_some]
    exact small x exp hx hne hl

end LexVerif.Proof.Slow
