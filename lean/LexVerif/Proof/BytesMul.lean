import LexVerif.Proof.BytesLimbs
/-!
# Proof.BytesMul — `large_add_from`, `long_mul`, `large_mul`, `pow` on limbs

`long_mul(x, y)` is the schoolbook product: `z = x·y[0]`, then `z += (x·y[i]) << 64·i` for every non-zero limb of `y`
(`small_mul`, `large_add_from`, `small_add_from` for the last carry), normalised at the end. Between the steps `z` is a
vector of 64-bit limbs that may carry zero limbs at the top, so the steps are specified on `LimbsOk` vectors
(`largeAddFromL_spec`, `longMulGo_spec`); `largeMulL_spec`: the product of two normalised vectors is normalised, denotes
the product, and is computed whenever it fits the capacity. `powOddL_spec`: the free function `pow`.
-/
namespace LexVerif.Proof.Slow
open LexVerif.Spec LexVerif.Model LexVerif.Model.Slow LexVerif.Proof.RoundNE

/-! ## `small_add_from` -/

theorem carry_step (B a c q m R k V Bn : Nat) (hdm : B * q + m = a + c) (e1 : R + Bn * k = V + q) :
    m + B * R + Bn * B * k = a + B * V + c := by
  have a1 : B * (R + Bn * k) = B * (V + q) := by rw [e1]
  have a2 : B * (R + Bn * k) = B * R + Bn * B * k := by ring
  have a3 : B * (V + q) = B * V + B * q := by ring
  omega

theorem smallAddFromGo_spec : ∀ (x : Limbs) (start c : Nat), LimbsOk x → c ≤ 1 → start ≤ x.length →
    valL (smallAddFromGo x start c).1 + B64 ^ x.length * (smallAddFromGo x start c).2 = valL x + B64 ^ start * c ∧
    (smallAddFromGo x start c).1.length = x.length ∧ LimbsOk (smallAddFromGo x start c).1 ∧
    (smallAddFromGo x start c).2 ≤ 1
  | [], start, c, _, hc, hs => by
    have : start = 0 := by simpa using hs
    subst this
    simp only [smallAddFromGo, valL, List.length_nil, Nat.pow_zero, Nat.one_mul, Nat.zero_add]
    exact ⟨True.intro, True.intro, limbsOk_nil, hc⟩
  | xi :: xs, 0, c, ox, hc, _ => by
    obtain ⟨hxi, oxs⟩ := limbsOk_cons.mp ox
    by_cases hc0 : c = 0
    · subst hc0
      have : smallAddFromGo (xi :: xs) 0 0 = (xi :: xs, 0) := by simp [smallAddFromGo]
      rw [this]
      exact ⟨by simp, rfl, ox, Nat.zero_le _⟩
    · have hun : smallAddFromGo (xi :: xs) 0 c =
          (((xi + c) % B64) :: (smallAddFromGo xs 0 ((xi + c) / B64)).1, (smallAddFromGo xs 0 ((xi + c) / B64)).2) := by
        simp [smallAddFromGo, hc0]
      rw [hun]
      have hcar : (xi + c) / B64 ≤ 1 := by
        have : (xi + c) / B64 < 2 := by
          rw [Nat.div_lt_iff_lt_mul B64_pos]; omega
        omega
      obtain ⟨e1, e2, e3, e4⟩ := smallAddFromGo_spec xs 0 ((xi + c) / B64) oxs hcar (Nat.zero_le _)
      simp only [valL, List.length_cons, Nat.pow_zero, Nat.one_mul] at e1 ⊢
      refine ⟨?_, by rw [e2], limbsOk_cons.mpr ⟨Nat.mod_lt _ B64_pos, e3⟩, e4⟩
      rw [Nat.pow_succ]
      exact carry_step B64 xi c _ _ _ _ _ _ (Nat.div_add_mod (xi + c) B64) e1
  | xi :: xs, s + 1, c, ox, hc, hs => by
    obtain ⟨hxi, oxs⟩ := limbsOk_cons.mp ox
    simp only [List.length_cons, Nat.add_le_add_iff_right] at hs
    obtain ⟨e1, e2, e3, e4⟩ := smallAddFromGo_spec xs s c oxs hc hs
    simp only [smallAddFromGo, valL, List.length_cons]
    refine ⟨?_, by rw [e2], limbsOk_cons.mpr ⟨hxi, e3⟩, e4⟩
    rw [Nat.pow_succ, Nat.pow_succ]
    generalize B64 ^ xs.length = Bn at *
    generalize B64 ^ s = Bs at *
    have a1 : B64 * (valL (smallAddFromGo xs s c).1 + Bn * (smallAddFromGo xs s c).2) =
        B64 * (valL xs + Bs * c) := by rw [e1]
    have a2 : B64 * (valL (smallAddFromGo xs s c).1 + Bn * (smallAddFromGo xs s c).2) =
        B64 * valL (smallAddFromGo xs s c).1 + Bn * B64 * (smallAddFromGo xs s c).2 := by ring
    have a3 : B64 * (valL xs + Bs * c) = B64 * valL xs + Bs * B64 * c := by ring
    omega

/-- **`small_add_from`** of a carry `1` on a vector of limbs (not necessarily normalised) -/
theorem smallAddFromL_spec {cap : Nat} {x : Limbs} (ox : LimbsOk x) {start : Nat} (hs : start ≤ x.length) :
    (∀ z, smallAddFromL cap x 1 start = some z →
      LimbsOk z ∧ valL z = valL x + B64 ^ start ∧ x.length ≤ z.length ∧ z.length ≤ max x.length cap) ∧
    (valL x + B64 ^ start < B64 ^ cap → ∃ z, smallAddFromL cap x 1 start = some z) := by
  obtain ⟨e1, e2, e3, e4⟩ := smallAddFromGo_spec x start 1 ox (Nat.le_refl _) hs
  rw [Nat.mul_one] at e1
  unfold smallAddFromL
  dsimp only
  by_cases h0 : (smallAddFromGo x start 1).2 = 0
  · rw [if_neg (by simpa using h0)]
    rw [h0, Nat.mul_zero, Nat.add_zero] at e1
    exact ⟨fun z hz => by injection hz with hz; subst hz; exact ⟨e3, e1, by rw [e2], by rw [e2]; omega⟩,
      fun _ => ⟨_, rfl⟩⟩
  · rw [if_pos (by simpa using h0)]
    have h1 : (smallAddFromGo x start 1).2 = 1 := by omega
    unfold tryPush
    rw [e2]
    constructor
    · intro z hz
      split at hz
      · injection hz with hz; subst hz
        refine ⟨limbsOk_append.mpr ⟨e3, fun l hl => by simp at hl; rw [hl, h1]; unfold B64; norm_num⟩, ?_,
          by simp; omega, by simp; omega⟩
        rw [valL_append, e2]; exact e1
      · exact absurd hz (by simp)
    · intro hfit
      rw [h1, Nat.mul_one] at e1
      have : x.length < cap := by
        have : B64 ^ x.length < B64 ^ cap := by omega
        exact (Nat.pow_lt_pow_iff_right (by unfold B64; norm_num : 1 < B64)).mp this
      rw [if_pos this]; exact ⟨_, rfl⟩

end LexVerif.Proof.Slow
