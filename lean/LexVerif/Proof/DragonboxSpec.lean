import LexVerif.Spec.Shortest
import LexVerif.Model.Dragonbox
/-!
# Proof.DragonboxSpec — what "Dragonbox is correct" means, as an executable check per input

`dragonboxOk t bits`: the model's `to_decimal` does not FAULT and its result, after removing trailing decimal zeros
of the significand, is one of the pairs of the oracle `Spec.shortest` (round-trips, fewest digits, closest —
proved about the oracle in `Props/RoundNE.lean`).
-/
namespace LexVerif.Proof.DragonboxSpec
open LexVerif.Spec LexVerif.Model LexVerif.Model.Dragonbox

def fmtOf : FTy → Fmt | .f32 => f32 | .f64 => f64

/-- strip trailing decimal zeros: `(D·10^j, E) ↦ (D, E + j)` -/
def normDec : Nat → Nat → Int → Nat × Int
  | 0, d, e => (d, e)
  | fuel + 1, d, e => if d ≠ 0 ∧ d % 10 = 0 then normDec fuel (d / 10) (e + 1) else (d, e)

def dragonboxOk (t : FTy) (bits : Nat) : Bool :=
  match toDecimal t bits with
  | some (m, e) => (shortest (fmtOf t) bits).contains (normDec 20 m e)
  | none => false

/-- zero mantissa field, exponent fields `lo ≤ e < hi` (excluding 0 = the zero pattern) -/
def expChunk (t : FTy) (lo hi : Nat) : List Nat :=
  ((List.range hi).filter (fun e => lo ≤ e ∧ 0 < e)).map (· * 2 ^ t.ms)

/-- the shorter-interval inputs: zero mantissa field, every finite non-zero exponent field -/
def shorterInputs (t : FTy) : List Nat :=
  ((List.range (2 ^ t.exponentSize.toNat - 1)).filter (0 < ·)).map (· * 2 ^ t.ms)

end LexVerif.Proof.DragonboxSpec
