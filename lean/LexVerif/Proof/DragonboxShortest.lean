import LexVerif.Proof.ShortestUp
import LexVerif.Proof.DragonboxSpec
import LexVerif.Proof.Bits
import Mathlib.Tactic.Ring
import Mathlib.Tactic.Linarith
/-!
# Proof.DragonboxShortest — introduction rules for `Spec.shortest` used by the Dragonbox correctness proof

* `Cand iv E D` : `D ≥ 1` and `D·10^E` lies in the rounding interval; change of scale (`cand_add_iff`);
* `shortestGo_intro` : converse of `shortestGo_first` / `shortestGo_mem2`;
* `shortestGo_unique_cand` (Theorem A), `shortestGo_closest_cand` (Theorem B);
* the bridge from the model's `Float::mantissa`/`Float::exponent` to `Spec.interval`;
* the bounds on the start exponent of the search.
-/
namespace LexVerif.Proof.DragonboxShortest
open LexVerif.Spec LexVerif.Proof.RoundNE LexVerif.Model.Dragonbox LexVerif.Proof.DragonboxSpec

/-- `D` is a candidate at scale `E`: `D ≥ 1` and `D·10^E` lies in the rounding interval -/
def Cand (iv : Interval) (E : Int) (D : Nat) : Prop :=
  (candRange iv E).1 ≤ D ∧ D ≤ (candRange iv E).2

theorem scalePQ_pos (e2 E : Int) : 0 < (scalePQ e2 E).1 ∧ 0 < (scalePQ e2 E).2 := by
  rw [scalePQ_eq]
  obtain ⟨a, b⟩ := binFrac_pos e2
  obtain ⟨c, d⟩ := tenFrac_pos E
  exact ⟨Nat.mul_pos c b, Nat.mul_pos a d⟩

theorem cand_iff (iv : Interval) (E : Int) (D : Nat) :
    Cand iv E D ↔ 1 ≤ D ∧ iv.lo * (scalePQ iv.e2 E).2 ≤ D * (scalePQ iv.e2 E).1
      ∧ D * (scalePQ iv.e2 E).1 ≤ iv.hi * (scalePQ iv.e2 E).2
      ∧ (iv.incl = false → iv.lo * (scalePQ iv.e2 E).2 < D * (scalePQ iv.e2 E).1
            ∧ D * (scalePQ iv.e2 E).1 < iv.hi * (scalePQ iv.e2 E).2) := by
  constructor
  · rintro ⟨h1, h2⟩
    exact candRange_spec iv E _ _ rfl (scalePQ_pos _ _).1 D h1 h2
  · rintro ⟨h1, h2, h3, h4⟩
    exact candRange_complete iv E _ _ rfl (scalePQ_pos _ _).1 D h1 h2 h3 h4

theorem tenFrac_succ (E : Int) :
    (tenFrac (E + 1)).1 * (tenFrac E).2 = 10 * (tenFrac E).1 * (tenFrac (E + 1)).2 := by
  unfold tenFrac
  by_cases h0 : E ≥ 0
  · have h1 : E + 1 ≥ 0 := by omega
    rw [if_pos h0, if_pos h1]
    have : (E + 1).toNat = E.toNat + 1 := by omega
    rw [this]; simp only []; ring
  · by_cases h1 : E + 1 ≥ 0
    · rw [if_neg h0, if_pos h1]
      have e1 : (E + 1).toNat = 0 := by omega
      have e2 : (-E).toNat = 1 := by omega
      rw [e1, e2]; simp only []; norm_num
    · rw [if_neg h0, if_neg h1]
      have : (-E).toNat = (-(E + 1)).toNat + 1 := by omega
      rw [this]; simp only []; ring

/-- scale change: `(P', Q')` at `E + 1` and `(P, Q)` at `E` satisfy `P'·Q = 10·P·Q'` -/
theorem scalePQ_succ (e2 E : Int) :
    (scalePQ e2 (E + 1)).1 * (scalePQ e2 E).2 = 10 * (scalePQ e2 E).1 * (scalePQ e2 (E + 1)).2 := by
  rw [scalePQ_eq, scalePQ_eq]
  have h := tenFrac_succ E
  simp only []
  generalize (tenFrac (E + 1)).1 = a' at *
  generalize (tenFrac (E + 1)).2 = b' at *
  generalize (tenFrac E).1 = a at *
  generalize (tenFrac E).2 = b at *
  generalize (binFrac e2).1 = x at *
  generalize (binFrac e2).2 = y at *
  calc a' * y * (x * b) = (a' * b) * (x * y) := by ring
    _ = (10 * a * b') * (x * y) := by rw [h]
    _ = 10 * (a * y) * (x * b') := by ring

theorem cmp_scale {P Q P' Q' : Nat} (hQ : 0 < Q) (hQ' : 0 < Q') (h : P' * Q = 10 * P * Q')
    (a D : Nat) :
    (a * Q' ≤ D * P' ↔ a * Q ≤ 10 * D * P) ∧ (D * P' ≤ a * Q' ↔ 10 * D * P ≤ a * Q) ∧
    (a * Q' < D * P' ↔ a * Q < 10 * D * P) ∧ (D * P' < a * Q' ↔ 10 * D * P < a * Q) := by
  have e1 : (a * Q') * Q = (a * Q) * Q' := by ring
  have e2 : (D * P') * Q = (10 * D * P) * Q' := by
    calc (D * P') * Q = D * (P' * Q) := by ring
      _ = D * (10 * P * Q') := by rw [h]
      _ = (10 * D * P) * Q' := by ring
  refine ⟨?_, ?_, ?_, ?_⟩
  · rw [← Nat.mul_le_mul_right_iff hQ, e1, e2, Nat.mul_le_mul_right_iff hQ']
  · rw [← Nat.mul_le_mul_right_iff hQ, e1, e2, Nat.mul_le_mul_right_iff hQ']
  · rw [← Nat.mul_lt_mul_right hQ, e1, e2, Nat.mul_lt_mul_right hQ']
  · rw [← Nat.mul_lt_mul_right hQ, e1, e2, Nat.mul_lt_mul_right hQ']

theorem cand_succ_iff (iv : Interval) (E : Int) (D : Nat) :
    Cand iv (E + 1) D ↔ Cand iv E (10 * D) := by
  rw [cand_iff, cand_iff]
  obtain ⟨_, hQ⟩ := scalePQ_pos iv.e2 E
  obtain ⟨_, hQ'⟩ := scalePQ_pos iv.e2 (E + 1)
  have h := scalePQ_succ iv.e2 E
  obtain ⟨l1, _, l3, _⟩ := cmp_scale hQ hQ' h iv.lo D
  obtain ⟨_, u2, _, u4⟩ := cmp_scale hQ hQ' h iv.hi D
  rw [l1, u2, l3, u4]
  have : 1 ≤ D ↔ 1 ≤ 10 * D := by omega
  rw [this]

theorem cand_add_iff (iv : Interval) (E : Int) (j : Nat) (D : Nat) :
    Cand iv (E + j) D ↔ Cand iv E (D * 10 ^ j) := by
  induction j generalizing D with
  | zero => simp
  | succ n ih =>
    have e : E + ((n + 1 : Nat) : Int) = (E + n) + 1 := by push_cast; ring
    rw [e, cand_succ_iff, ih]
    have : 10 * D * 10 ^ n = D * 10 ^ (n + 1) := by ring
    rw [this]

/-- converse of `shortestGo_first` / `shortestGo_mem2` -/
theorem shortestGo_intro (iv : Interval) (fuel : Nat) (E0 E : Int) (D : Nat)
    (hle : E ≤ E0) (hfuel : E0 - E < fuel)
    (hnone : ∀ E', E < E' → E' ≤ E0 → ¬ ((candRange iv E').1 ≤ (candRange iv E').2))
    (hne : (candRange iv E).1 ≤ (candRange iv E).2)
    (hD : D ∈ closestIn iv E (candRange iv E).1 (candRange iv E).2) :
    (D, E) ∈ shortestGo iv fuel E0 := by
  induction fuel generalizing E0 with
  | zero => simp at hfuel; omega
  | succ n ih =>
    unfold shortestGo
    simp only []
    split
    · rename_i hc
      have hE : E = E0 := by
        by_contra hne'
        exact hnone E0 (by omega) (le_refl _) hc
      subst hE
      exact List.mem_map.mpr ⟨D, hD, rfl⟩
    · rename_i hc
      have hE : E ≠ E0 := fun he => hc (he ▸ hne)
      exact ih (E0 - 1) (by omega) (by push_cast at hfuel; omega)
        (fun E' h1 h2 => hnone E' h1 (by omega))

/-- a non-empty candidate range contains a candidate -/
theorem cand_of_range {iv : Interval} {E : Int} (h : (candRange iv E).1 ≤ (candRange iv E).2) :
    Cand iv E (candRange iv E).1 := ⟨le_refl _, h⟩

/-- no candidate at scale `E + 1` implies no candidate at any larger scale -/
theorem no_cand_above {iv : Interval} {E : Int} (h : ∀ D, ¬ Cand iv (E + 1) D) (E' : Int)
    (hE : E < E') : ¬ ((candRange iv E').1 ≤ (candRange iv E').2) := by
  intro hr
  have hc := cand_of_range hr
  obtain ⟨n, hn⟩ : ∃ n : Nat, E' = (E + 1) + n := ⟨(E' - (E + 1)).toNat, by omega⟩
  rw [hn, cand_add_iff] at hc
  exact h _ hc

/-- Theorem A (unique candidate at scale `E1`; strip `j` trailing zeros) -/
theorem shortestGo_unique_cand (iv : Interval) (fuel : Nat) (up E1 : Int) (s m j : Nat)
    (hc : Cand iv E1 s) (huniq : ∀ D, Cand iv E1 D → D = s)
    (hs : s = m * 10 ^ j) (hm : m % 10 ≠ 0)
    (hup : E1 + j ≤ up) (hfuel : up - (E1 + j) < fuel) :
    (m, E1 + j) ∈ shortestGo iv fuel up := by
  have hpos : 0 < 10 ^ j := Nat.pow_pos (by decide)
  have hcm : Cand iv (E1 + j) m := by rw [cand_add_iff, ← hs]; exact hc
  have hum : ∀ D, Cand iv (E1 + j) D → D = m := by
    intro D hD
    rw [cand_add_iff] at hD
    have := huniq _ hD
    rw [hs] at this
    exact Nat.eq_of_mul_eq_mul_right hpos this
  have hnone1 : ∀ D, ¬ Cand iv (E1 + j + 1) D := by
    intro D hD
    rw [cand_succ_iff] at hD
    have := hum _ hD
    omega
  apply shortestGo_intro iv fuel up (E1 + j) m hup hfuel
  · intro E' h1 _
    exact no_cand_above hnone1 E' h1
  · exact le_trans hcm.1 hcm.2
  · have hr : (candRange iv (E1 + j)).1 ≤ (candRange iv (E1 + j)).2 := le_trans hcm.1 hcm.2
    obtain ⟨x, hx⟩ := List.exists_mem_of_ne_nil _ (closestIn_ne_nil iv (E1 + j)
      (candRange iv (E1 + j)).1 (candRange iv (E1 + j)).2)
    have hxc : Cand iv (E1 + j) x := closestIn_mem iv (E1 + j) _ _ hr x hx
    rw [← hum x hxc]
    exact hx

theorem pick_intro (P vN dlo dhi D : Nat) (hP : 0 < P) (h1 : dlo ≤ D) (h2 : D ≤ dhi)
    (hc : 2 * (D * P - vN) ≤ P ∧ 2 * (vN - D * P) ≤ P) :
    D ∈ (if ((if 2 * (vN % P) < P then [vN / P] else if 2 * (vN % P) > P then [vN / P + 1]
          else [vN / P, vN / P + 1]).filter (fun d => dlo ≤ d ∧ d ≤ dhi)).isEmpty
        then (if vN / P < dlo then [dlo] else [dhi])
        else (if 2 * (vN % P) < P then [vN / P] else if 2 * (vN % P) > P then [vN / P + 1]
          else [vN / P, vN / P + 1]).filter (fun d => dlo ≤ d ∧ d ≤ dhi)) := by
  have e1 := Nat.div_add_mod vN P
  have e2 := Nat.mod_lt vN hP
  generalize vN / P = d1 at *
  generalize vN % P = r at *
  have mono : ∀ a b : Nat, a ≤ b → a * P ≤ b * P := fun a b hab => Nat.mul_le_mul_right P hab
  have hd1 : P * d1 = d1 * P := Nat.mul_comm _ _
  have hs1 : (d1 + 1) * P = d1 * P + P := Nat.succ_mul _ _
  have hs2 : (d1 + 2) * P = d1 * P + 2 * P := by ring
  have hsD : (D + 1) * P = D * P + P := Nat.succ_mul _ _
  obtain ⟨c1, c2⟩ := hc
  have hmem : D ∈ (if 2 * r < P then [d1] else if 2 * r > P then [d1 + 1] else [d1, d1 + 1]) := by
    have hcase : D = d1 ∨ D = d1 + 1 := by
      by_contra hcon
      have : D + 1 ≤ d1 ∨ d1 + 2 ≤ D := by omega
      rcases this with h | h
      · have := mono _ _ h; omega
      · have := mono _ _ h; omega
    rcases hcase with rfl | rfl
    · split
      · simp
      · split
        · omega
        · simp
    · split
      · omega
      · split <;> simp
  have hf : D ∈ (if 2 * r < P then [d1] else if 2 * r > P then [d1 + 1]
      else [d1, d1 + 1]).filter (fun d => dlo ≤ d ∧ d ≤ dhi) :=
    List.mem_filter.mpr ⟨hmem, by simpa using ⟨h1, h2⟩⟩
  have hne : ¬ ((if 2 * r < P then [d1] else if 2 * r > P then [d1 + 1]
      else [d1, d1 + 1]).filter (fun d => dlo ≤ d ∧ d ≤ dhi)).isEmpty = true := by
    intro he
    rw [List.isEmpty_iff] at he
    rw [he] at hf
    exact absurd hf List.not_mem_nil
  rw [if_neg hne]
  exact hf

/-- Theorem B (no candidate one scale up; `D` is in range and nearest to `v`) -/
theorem shortestGo_closest_cand (iv : Interval) (fuel : Nat) (up E0 : Int) (D : Nat)
    (hnone : ∀ D', ¬ Cand iv (E0 + 1) D') (hc : Cand iv E0 D)
    (hclose : 2 * (D * (scalePQ iv.e2 E0).1 - iv.v * (scalePQ iv.e2 E0).2) ≤ (scalePQ iv.e2 E0).1
            ∧ 2 * (iv.v * (scalePQ iv.e2 E0).2 - D * (scalePQ iv.e2 E0).1) ≤ (scalePQ iv.e2 E0).1)
    (hup : E0 ≤ up) (hfuel : up - E0 < fuel) :
    (D, E0) ∈ shortestGo iv fuel up := by
  apply shortestGo_intro iv fuel up E0 D hup hfuel
  · intro E' h1 _
    exact no_cand_above hnone E' h1
  · exact le_trans hc.1 hc.2
  · unfold closestIn
    have hPQ : scalePQ iv.e2 E0 = ((scalePQ iv.e2 E0).1, (scalePQ iv.e2 E0).2) := rfl
    rw [hPQ]
    exact pick_intro _ _ _ _ D (scalePQ_pos _ _).1 hc.1 hc.2 hclose


/-! ## the bridge from the model's float accessors to `Spec.interval` -/

open LexVerif.Proof.Bits

theorem consts32 : FTy.f32.exponentMask = (2 ^ 8 - 1) <<< 23 ∧ FTy.f32.mantissaMask = 2 ^ 23 - 1
    ∧ FTy.f32.ms = 23 ∧ FTy.f32.hiddenBit = 2 ^ 23 ∧ FTy.f32.denormalExponent = -149
    ∧ FTy.f32.exponentBias = 150 ∧ FTy.f32.exponentSize.toNat = 8 ∧ FTy.f32.signMask - 1 = 2 ^ 31 - 1
    ∧ (fmtOf FTy.f32).p = 24 := by
  decide
theorem consts64 : FTy.f64.exponentMask = (2 ^ 11 - 1) <<< 52 ∧ FTy.f64.mantissaMask = 2 ^ 52 - 1
    ∧ FTy.f64.ms = 52 ∧ FTy.f64.hiddenBit = 2 ^ 52 ∧ FTy.f64.denormalExponent = -1074
    ∧ FTy.f64.exponentBias = 1075 ∧ FTy.f64.exponentSize.toNat = 11 ∧ FTy.f64.signMask - 1 = 2 ^ 63 - 1
    ∧ (fmtOf FTy.f64).p = 53 := by
  decide

theorem decode_f32 (bits : Nat) : f32.decode bits =
    if bits / 2 ^ 23 % 2 ^ 8 = 0 then ⟨f32.isNeg bits, bits % 2 ^ 23, -149⟩
    else ⟨f32.isNeg bits, bits % 2 ^ 23 + 2 ^ 23, ((bits / 2 ^ 23 % 2 ^ 8 : Nat) : Int) - 127 - 23⟩ := rfl

theorem decode_f64 (bits : Nat) : f64.decode bits =
    if bits / 2 ^ 52 % 2 ^ 11 = 0 then ⟨f64.isNeg bits, bits % 2 ^ 52, -1074⟩
    else ⟨f64.isNeg bits, bits % 2 ^ 52 + 2 ^ 52, ((bits / 2 ^ 52 % 2 ^ 11 : Nat) : Int) - 1023 - 52⟩ := rfl

theorem interval_f32 (bits : Nat) : interval f32 bits =
    { v := 4 * (f32.decode bits).m,
      lo := if (f32.decode bits).m = 2 ^ 23 ∧ bits / 2 ^ 23 % 2 ^ 8 > 1
        then 4 * (f32.decode bits).m - 1 else 4 * (f32.decode bits).m - 2,
      hi := 4 * (f32.decode bits).m + 2, e2 := (f32.decode bits).e - 2,
      incl := decide ((f32.decode bits).m % 2 = 0) } := rfl

theorem interval_f64 (bits : Nat) : interval f64 bits =
    { v := 4 * (f64.decode bits).m,
      lo := if (f64.decode bits).m = 2 ^ 52 ∧ bits / 2 ^ 52 % 2 ^ 11 > 1
        then 4 * (f64.decode bits).m - 1 else 4 * (f64.decode bits).m - 2,
      hi := 4 * (f64.decode bits).m + 2, e2 := (f64.decode bits).e - 2,
      incl := decide ((f64.decode bits).m % 2 = 0) } := rfl

/-- the model's accessors in terms of the two bit fields, f32 -/
theorem fields32 (bits : Nat) :
    FTy.f32.mantissa bits = (if bits / 2 ^ 23 % 2 ^ 8 = 0 then bits % 2 ^ 23 else bits % 2 ^ 23 + 2 ^ 23)
    ∧ FTy.f32.exponent bits =
        (if bits / 2 ^ 23 % 2 ^ 8 = 0 then -149 else ((bits / 2 ^ 23 % 2 ^ 8 : Nat) : Int) - 150)
    ∧ bits &&& FTy.f32.mantissaMask = bits % 2 ^ 23 := by
  obtain ⟨e1, e2, e3, e4, e5, e6, _⟩ := consts32
  have hden : FTy.f32.isDenormal bits = decide (bits / 2 ^ 23 % 2 ^ 8 = 0) := by
    unfold FTy.isDenormal
    rw [e1, and_shifted_mask]
    simp
  unfold FTy.mantissa FTy.exponent
  rw [hden, e2, e3, e4, e5, e6, e1, and_shifted_mask_shr, Nat.and_two_pow_sub_one_eq_mod]
  simp

theorem fields64 (bits : Nat) :
    FTy.f64.mantissa bits = (if bits / 2 ^ 52 % 2 ^ 11 = 0 then bits % 2 ^ 52 else bits % 2 ^ 52 + 2 ^ 52)
    ∧ FTy.f64.exponent bits =
        (if bits / 2 ^ 52 % 2 ^ 11 = 0 then -1074 else ((bits / 2 ^ 52 % 2 ^ 11 : Nat) : Int) - 1075)
    ∧ bits &&& FTy.f64.mantissaMask = bits % 2 ^ 52 := by
  obtain ⟨e1, e2, e3, e4, e5, e6, _⟩ := consts64
  have hden : FTy.f64.isDenormal bits = decide (bits / 2 ^ 52 % 2 ^ 11 = 0) := by
    unfold FTy.isDenormal
    rw [e1, and_shifted_mask]
    simp
  unfold FTy.mantissa FTy.exponent
  rw [hden, e2, e3, e4, e5, e6, e1, and_shifted_mask_shr, Nat.and_two_pow_sub_one_eq_mod]
  simp


theorem interval_normal (t : FTy) (bits : Nat) (h0 : 0 < bits) (hfin : bits < (fmtOf t).infBits)
    (hm : bits &&& t.mantissaMask ≠ 0) :
    interval (fmtOf t) bits =
      { v := 4 * t.mantissa bits, lo := 4 * t.mantissa bits - 2, hi := 4 * t.mantissa bits + 2,
        e2 := t.exponent bits - 2, incl := decide (t.mantissa bits % 2 = 0) }
    ∧ 1 ≤ t.mantissa bits ∧ t.mantissa bits < 2 ^ (fmtOf t).p
    ∧ t.denormalExponent ≤ t.exponent bits
    ∧ t.exponent bits ≤ ((2 ^ t.exponentSize.toNat - 2 : Nat) : Int) - t.exponentBias
    ∧ (t.exponent bits ≠ t.denormalExponent → 2 ^ ((fmtOf t).p - 1) ≤ t.mantissa bits) := by
  cases t with
  | f32 =>
    have hfin' : bits < 255 * 2 ^ 23 := hfin
    obtain ⟨hM, hE, hmask⟩ := fields32 bits
    obtain ⟨_, _, _, _, c5, c6, c7, _, c9⟩ := consts32
    rw [hmask] at hm
    have hiv : interval (fmtOf FTy.f32) bits = _ := interval_f32 bits
    rw [decode_f32] at hiv
    have he : bits / 2 ^ 23 % 2 ^ 8 = bits / 2 ^ 23 := Nat.mod_eq_of_lt (by omega)
    have hlt : bits / 2 ^ 23 < 255 := by omega
    have hmf := Nat.mod_lt bits (Nat.two_pow_pos 23)
    rw [c5, c6, c7, c9]
    generalize bits / 2 ^ 23 % 2 ^ 8 = e at *
    generalize bits % 2 ^ 23 = mf at *
    by_cases h : e = 0
    · rw [if_pos h] at hiv hM hE
      dsimp only at hiv
      rw [if_neg (by omega : ¬ (mf = 2 ^ 23 ∧ e > 1))] at hiv
      rw [hiv, hM, hE]
      refine ⟨rfl, by omega, by omega, by omega, by omega, by omega⟩
    · rw [if_neg h] at hiv hM hE
      dsimp only at hiv
      rw [if_neg (by omega : ¬ (mf + 2 ^ 23 = 2 ^ 23 ∧ e > 1))] at hiv
      rw [hiv, hM, hE]
      refine ⟨?_, by omega, by omega, by omega, by omega, by omega⟩
      congr 1
      omega
  | f64 =>
    have hfin' : bits < 2047 * 2 ^ 52 := hfin
    obtain ⟨hM, hE, hmask⟩ := fields64 bits
    obtain ⟨_, _, _, _, c5, c6, c7, _, c9⟩ := consts64
    rw [hmask] at hm
    have hiv : interval (fmtOf FTy.f64) bits = _ := interval_f64 bits
    rw [decode_f64] at hiv
    have he : bits / 2 ^ 52 % 2 ^ 11 = bits / 2 ^ 52 := Nat.mod_eq_of_lt (by omega)
    have hlt : bits / 2 ^ 52 < 2047 := by omega
    have hmf := Nat.mod_lt bits (Nat.two_pow_pos 52)
    rw [c5, c6, c7, c9]
    generalize bits / 2 ^ 52 % 2 ^ 11 = e at *
    generalize bits % 2 ^ 52 = mf at *
    by_cases h : e = 0
    · rw [if_pos h] at hiv hM hE
      dsimp only at hiv
      rw [if_neg (by omega : ¬ (mf = 2 ^ 52 ∧ e > 1))] at hiv
      rw [hiv, hM, hE]
      refine ⟨rfl, by omega, by omega, by omega, by omega, by omega⟩
    · rw [if_neg h] at hiv hM hE
      dsimp only at hiv
      rw [if_neg (by omega : ¬ (mf + 2 ^ 52 = 2 ^ 52 ∧ e > 1))] at hiv
      rw [hiv, hM, hE]
      refine ⟨?_, by omega, by omega, by omega, by omega, by omega⟩
      congr 1
      omega


theorem signless_ne_zero (t : FTy) (bits : Nat) (h0 : 0 < bits) (hfin : bits < (fmtOf t).infBits) :
    bits &&& (t.signMask - 1) ≠ 0 := by
  cases t with
  | f32 =>
    have hfin' : bits < 255 * 2 ^ 23 := hfin
    obtain ⟨_, _, _, _, _, _, _, c8, _⟩ := consts32
    rw [c8, Nat.and_two_pow_sub_one_eq_mod, Nat.mod_eq_of_lt (by omega)]
    omega
  | f64 =>
    have hfin' : bits < 2047 * 2 ^ 52 := hfin
    obtain ⟨_, _, _, _, _, _, _, c8, _⟩ := consts64
    rw [c8, Nat.and_two_pow_sub_one_eq_mod, Nat.mod_eq_of_lt (by omega)]
    omega

theorem toDecimal_normal (t : FTy) (bits : Nat) (h0 : 0 < bits) (hfin : bits < (fmtOf t).infBits)
    (hm : bits &&& t.mantissaMask ≠ 0) : toDecimal t bits = computeNearestNormal t bits := by
  unfold toDecimal
  simp only []
  rw [if_neg (signless_ne_zero t bits h0 hfin), if_neg hm]

theorem zero_mantissa_form (t : FTy) (bits : Nat) (h0 : 0 < bits) (hfin : bits < (fmtOf t).infBits)
    (hm : bits &&& t.mantissaMask = 0) :
    ∃ e, 0 < e ∧ e < 2 ^ t.exponentSize.toNat - 1 ∧ bits = e * 2 ^ t.ms
     ∧ toDecimal t bits = computeNearestShorter t bits := by
  have htd : toDecimal t bits = computeNearestShorter t bits := by
    unfold toDecimal
    simp only []
    rw [if_neg (signless_ne_zero t bits h0 hfin), if_pos hm]
  refine ⟨bits / 2 ^ t.ms, ?_⟩
  suffices h : 0 < bits / 2 ^ t.ms ∧ bits / 2 ^ t.ms < 2 ^ t.exponentSize.toNat - 1
      ∧ bits = bits / 2 ^ t.ms * 2 ^ t.ms from ⟨h.1, h.2.1, h.2.2, htd⟩
  clear htd
  cases t with
  | f32 =>
    have hfin' : bits < 255 * 2 ^ 23 := hfin
    obtain ⟨_, _, hmask⟩ := fields32 bits
    obtain ⟨_, _, c3, _, _, _, c7, _, _⟩ := consts32
    rw [hmask] at hm
    rw [c3, c7]
    have hd := Nat.div_add_mod bits (2 ^ 23)
    exact ⟨by omega, by omega, by omega⟩
  | f64 =>
    have hfin' : bits < 2047 * 2 ^ 52 := hfin
    obtain ⟨_, _, hmask⟩ := fields64 bits
    obtain ⟨_, _, c3, _, _, _, c7, _, _⟩ := consts64
    rw [hmask] at hm
    rw [c3, c7]
    have hd := Nat.div_add_mod bits (2 ^ 52)
    exact ⟨by omega, by omega, by omega⟩


/-! ## the start exponent of the search -/

/-- every candidate's scale is at most the search start of `shortest` (the proof of `up_bound`, which only uses
the two inequalities that make up `Cand`) -/
theorem cand_le_up {f : Fmt} (hf : WF f) (hsz : L f + 2 ≤ 200000) {b : Nat} (_hb0 : 0 < b)
    (hb : b < f.infBits) {D : Nat} {E : Int} (h : Cand (interval f b) E D) : E ≤ upOf f b := by
  obtain ⟨c1, c2⟩ := h
  have hPQ := scalePQ_eq (interval f b).e2 E
  obtain ⟨an_pos, ad_pos⟩ := binFrac_pos (interval f b).e2
  obtain ⟨tn_pos, td_pos⟩ := tenFrac_pos E
  obtain ⟨hD1, _, chi, _⟩ := candRange_spec _ E _ _ hPQ (Nat.mul_pos tn_pos ad_pos) D c1 c2
  have hbin := binFrac_Q (interval f b).e2
  have hten := tenFrac_Q E
  obtain ⟨k, q, hbk, h1, h2, hiv⟩ := interval_eq hf hb
  have he2 : (interval f b).e2 = (k : ℤ) - (L f : ℤ) - 2 := by rw [hiv]
  unfold upOf
  apply log_bound _ _ (by rw [he2]; omega)
  have hhi : ((interval f b).hi : ℚ) < (2 : ℚ) ^ (bitlen (interval f b).hi : ℤ) := by
    rw [zpow_natCast]; exact_mod_cast bitlen_upper (interval f b).hi
  generalize (interval f b).hi = hi at *
  generalize (interval f b).e2 = e2 at *
  generalize (binFrac e2).1 = an at *
  generalize (binFrac e2).2 = ad at *
  generalize (tenFrac E).1 = tn at *
  generalize (tenFrac E).2 = td at *
  rw [zpow_add₀ (by norm_num : (2 : ℚ) ≠ 0), ← hten, ← hbin]
  have adQ : (0 : ℚ) < ad := by exact_mod_cast ad_pos
  have tdQ : (0 : ℚ) < td := by exact_mod_cast td_pos
  have anQ : (0 : ℚ) < an := by exact_mod_cast an_pos
  have k1 : tn * ad ≤ hi * (an * td) :=
    le_trans (Nat.le_mul_of_pos_left _ hD1) chi
  have k1Q : (tn : ℚ) * ad ≤ hi * (an * td) := by exact_mod_cast k1
  calc (tn : ℚ) / td = (tn * ad) / (td * ad) := by field_simp
    _ ≤ (hi * (an * td)) / (td * ad) := by gcongr
    _ = hi * (an / ad) := by field_simp
    _ < 2 ^ (bitlen hi : ℤ) * (an / ad) := by gcongr

theorem upOf_le {f : Fmt} (hf : WF f) {b : Nat} (hb : b < f.infBits) :
    upOf f b ≤ (((f.p + 2 : Nat) : Int) + (interval f b).e2) * 30103 / 100000 + 2 := by
  obtain ⟨k, q, _, _, h2, hiv⟩ := interval_eq hf hb
  have hhi : (interval f b).hi = 4 * q + 2 := by rw [hiv]
  have hbl : bitlen (interval f b).hi ≤ f.p + 2 := by
    apply bitlen_le
    rw [hhi, show f.p + 2 = (f.p - 1) + 3 by have := hf.hp; omega, Nat.pow_add]
    omega
  unfold upOf
  generalize bitlen (interval f b).hi = bl at *
  generalize (interval f b).e2 = e2 at *
  omega

/-! ## non-vacuity of the hypotheses of Theorems A and B

A: the interval `[9.5, 10.5]` around `10` (unit `2^-2`): at scale `0` the only candidate is `10 = 1·10^1`, result `(1, 1)`.
B: the open interval `(11.75, 12.75)` around `12.25`: no candidate at scale `1`, `12` is the nearest at scale `0`. -/

example : (1, 1) ∈ shortestGo ⟨40, 38, 42, -2, true⟩ 420 5 := by
  have hr : candRange ⟨40, 38, 42, -2, true⟩ 0 = (10, 10) := by decide +kernel
  have h := shortestGo_unique_cand ⟨40, 38, 42, -2, true⟩ 420 5 0 10 1 1
    (by unfold Cand; rw [hr]; exact ⟨le_refl _, le_refl _⟩)
    (by intro D hD; unfold Cand at hD; rw [hr] at hD; dsimp only at hD; omega)
    (by norm_num) (by decide) (by norm_num) (by norm_num)
  simpa using h

example : (12, 0) ∈ shortestGo ⟨49, 47, 51, -2, false⟩ 420 5 := by
  have hr0 : candRange ⟨49, 47, 51, -2, false⟩ 0 = (12, 12) := by decide +kernel
  have hr1 : candRange ⟨49, 47, 51, -2, false⟩ (0 + 1) = (2, 1) := by decide +kernel
  exact shortestGo_closest_cand ⟨49, 47, 51, -2, false⟩ 420 5 0 12
    (by intro D hD; unfold Cand at hD; rw [hr1] at hD; dsimp only at hD; omega)
    (by unfold Cand; rw [hr0]; exact ⟨le_refl _, le_refl _⟩)
    (by decide +kernel) (by norm_num) (by norm_num)


end LexVerif.Proof.DragonboxShortest
