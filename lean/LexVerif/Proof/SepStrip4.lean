import LexVerif.Proof.SepStrip3
/-!
# Proof.SepStrip4 — the many-digits re-parse over skip-everything iterators, and its stripped counterpart
-/
set_option linter.unusedSimpArgs false
namespace LexVerif.Proof.Sep
open LexVerif LexVerif.Model LexVerif.Spec
open LexVerif.Props.C12

theorem skipZeros_skip (c : Cfg) (hA : SkipAll c) (k : Comp) (hk : c.skip k = .pred .iltc)
    (hk2 : k = .integer ∨ k = .fraction) (b : Bytes) :
    skipZeros c k b = .ok ((zerosSkip c (b.slc.drop b.index)).1,
      advS c k (zerosSkip c (b.slc.drop b.index)).2 (zerosSkip c (b.slc.drop b.index)).1 b) := by
  have hS := hA.sepClass
  unfold skipZeros
  rw [skipZerosLoop_skip c k hA.debug hk (b.slc.length + 1) b (by omega)]
  simp only [bind, Except.bind, pure, Except.pure]
  rcases hk2 with rfl | rfl
  · simp [Bytes.iterCount, hS.int, advS, hS.format]
  · simp [Bytes.iterCount, hS.frac, advS, hS.format]

theorem parseU64_skip (c : Cfg) (hA : SkipAll c) (k : Comp) (hk : c.skip k = .pred .iltc)
    (hc : c.iterContiguous k = false) (b : Bytes) (m st : Nat) :
    parseU64Digits c k b m st =
      .ok (advS c k (u64Skip c c.mantissaRadix (b.slc.drop b.index) m st).1
             (u64Skip c c.mantissaRadix (b.slc.drop b.index) m st).2.1 b,
           (u64Skip c c.mantissaRadix (b.slc.drop b.index) m st).2.2.1,
           (u64Skip c c.mantissaRadix (b.slc.drop b.index) m st).2.2.2) := by
  unfold parseU64Digits
  simp only [canMultidigit, hc, Bool.false_and, Bool.and_false, Bool.false_eq_true, if_false, pure, Except.pure,
    bind, Except.bind]
  exact u64Loop1_skip c k hA.debug hk _ b m st (by omega)

/-- the re-parse proper over skip-everything iterators -/
def manyCoreS (c : Cfg) (scale : Int → Int) (ids : List Nat) (ipN : Nat)
    (fraction : Option (List Nat)) (fpMant : Nat) (explicit : Int) (neg : Bool) (step : Nat) (ex0 : Int)
    (endIdx : Nat) (nd : Nat) : Except Err (Number × Nat) :=
  if nd > 0 then
    let z := zerosSkip c ids
    let u := u64Skip c c.mantissaRadix (ids.drop z.2) 0 step
    if (decide (u.2.2.2 = 0) || fraction.isNone) = true then
      .ok (⟨u.2.2.1, scale ((ipN : Int) - ((z.1 + u.2.1 : Nat) : Int)) + explicit, neg, true, ids, fraction, explicit⟩, endIdx)
    else
      match fraction with
      | none => .error (.panic "fraction_digits.unwrap()")
      | some fd =>
        let zf' := if u.2.2.1 = 0 then zerosSkip c fd else (0, 0)
        let u2 := u64Skip c c.mantissaRadix (fd.drop zf'.2) u.2.2.1 u.2.2.2
        .ok (⟨u2.2.2.1, scale (-((zf'.1 + u2.2.1 : Nat) : Int)) + explicit, neg, true, ids, fraction, explicit⟩, endIdx)
  else .ok (⟨fpMant, ex0, neg, false, ids, fraction, explicit⟩, endIdx)

def manyClosedS (c : Cfg) (scale : Int → Int) (dp : Nat) (s : List Nat) (startIdx : Nat) (ids : List Nat) (ipN : Nat)
    (fraction : Option (List Nat)) (fpMant : Nat) (explicit : Int) (neg : Bool) (nDigits step : Nat) (ex0 : Int)
    (endIdx : Nat) : Except Err (Number × Nat) :=
  let z := zerosSkip c (s.drop startIdx)
  let i1 := startIdx + z.2
  let i2 := if (s[i1]? == some dp) = true then i1 + 1 else i1
  let zf := zerosSkip c (s.drop i2)
  manyCoreS c scale ids ipN fraction fpMant explicit neg step ex0 endIdx (nDigits - step - z.1 - zf.1)

@[simp] theorem advS_first (g : Cfg) (k : Comp) (n m : Nat) (b : Bytes) :
    (advS g k n m b).first = b.slc[b.index + n]? := by
  simp [Bytes.first]

theorem manyDigits_skipS (c : Cfg) (hA : SkipAll c) (s : List Nat) (o : POpts) (neg : Bool)
    (ip : IntPart) (fp : FracPart) (ep : ExpPart) (nDigits step : Nat) (ex0 : Int) (endIdx : Nat)
    (hs : ip.start.slc = s) :
    manyDigitsPhase c o neg ip fp ep nDigits step ex0 endIdx =
      manyClosedS c (scaleVal c) o.dp s ip.start.index ip.integerDigits ip.nDigits fp.fraction fp.mantissa
        ep.explicit neg nDigits step ex0 endIdx := by
  have hS := hA.sepClass
  unfold manyDigitsPhase manyClosedS manyCoreS
  rw [skipZeros_skip c hA .integer hA.int (Or.inl rfl) ip.start]
  simp only [bind, Except.bind, Bytes.firstIsCased, advS_first, hs]
  by_cases hdp : (s[ip.start.index + (zerosSkip c (List.drop ip.start.index s)).2]? == some o.dp) = true <;>
  simp only [hdp, if_true, Bool.false_eq_true, if_false, step_release c hS.debug, pure, Except.pure] <;>
  ( rw [skipZeros_skip c hA .fraction hA.frac (Or.inr rfl)]
    simp only [advS_slc, advS_index, hs]
    split
    · rw [skipZeros_skip c hA .integer hA.int (Or.inl rfl)]
      simp only [new_slc, new_index, List.drop_zero]
      rw [parseU64_skip c hA .integer hA.int hS.int]
      simp only [advS_slc, advS_index, new_slc, new_index, Nat.zero_add, hS.format, hS.bytes, Bool.true_and, Bool.not_false]
      split
      · simp only [pure, Except.pure, Bytes.currentCount, hS.bytes, Bool.false_eq_true, if_false,
          advS_count c .integer _ _ _ hS.format (by decide), scaleExponent_release c hS.debug]
        simp [Bytes.new]
      · cases hfr : fp.fraction with
        | none => simp [hfr] at *
        | some fd =>
          simp only
          split
          · rw [skipZeros_skip c hA .fraction hA.frac (Or.inr rfl)]
            simp only [new_slc, new_index, List.drop_zero, pure, Except.pure]
            rw [parseU64_skip c hA .fraction hA.frac hS.frac]
            simp only [advS_slc, advS_index, new_slc, new_index, Nat.zero_add, Bytes.currentCount, hS.bytes,
              Bool.false_eq_true, if_false, advS_count c .fraction _ _ _ hS.format (by decide),
              scaleExponent_release c hS.debug, *]
            simp [Bytes.new]
          · rw [parseU64_skip c hA .fraction hA.frac hS.frac]
            simp only [advS_slc, advS_index, new_slc, new_index, Nat.zero_add, Bytes.currentCount, hS.bytes,
              Bool.false_eq_true, if_false, advS_count c .fraction _ _ _ hS.format (by decide),
              scaleExponent_release c hS.debug, *]
            simp [Bytes.new]
    · simp [pure, Except.pure] )

/-- two parsed numbers with the same value: same mantissa / exponent / flags, stored slices equal up to separators -/
def NumRel (c : Cfg) (n n' : Number) : Prop :=
  n'.mantissa = n.mantissa ∧ n'.exponent = n.exponent ∧ n'.isNegative = n.isNegative ∧ n'.manyDigits = n.manyDigits ∧
  n'.integer = nonSep c n.integer ∧ n'.fraction = n.fraction.map (nonSep c) ∧ n'.explicitExp = n.explicitExp

theorem strip_idx (c : Cfg) (s : List Nat) (j : Nat) (hN : ∀ x, s[j]? = some x → c.isSep x = false) :
    (nonSep c s)[(nonSep c (s.take j)).length]? = s[j]? := by
  have hd := nonSep_take_drop c s j
  cases hv : s[j]? with
  | none =>
    rw [drop_of_none hv] at hd
    simp only [nonSep, List.filter_nil] at hd
    have := congrArg List.length hd
    simp only [List.length_drop, List.length_nil] at this
    exact List.getElem?_eq_none (by simp only [nonSep] at this ⊢; omega)
  | some x =>
    rw [drop_of_get hv, nonSep_cons_non c x _ (hN x hv)] at hd
    have := congrArg List.head? hd
    simp only [List.head?_drop, List.head?_cons] at this
    exact this

theorem zerosSkip_drop (c : Cfg) (l : List Nat) :
    nonSep c (l.drop (zerosSkip c l).2) = (nonSep c l).drop (zerosSkip c l).1 := by
  rw [← (zerosSkip_strip c l).2.1, nonSep_take_drop]

theorem manyCoreS_bi (c : Cfg) (scale : Int → Int) (ids : List Nat) (ipN : Nat)
    (fraction : Option (List Nat)) (fpMant : Nat) (explicit : Int) (neg : Bool) (step : Nat) (ex0 : Int)
    (endIdx endIdx' nd : Nat) :
    BiE (fun r r' => NumRel c r.1 r'.1 ∧ r.1.isNegative = neg ∧ r.2 = endIdx ∧ r'.2 = endIdx')
      (manyCoreS c scale ids ipN fraction fpMant explicit neg step ex0 endIdx nd)
      (manyCore c.mantissaRadix scale (nonSep c ids) ipN (fraction.map (nonSep c)) fpMant explicit neg step ex0 endIdx'
        true nd) := by
  unfold manyCoreS manyCore
  have hz := zerosSkip_strip c ids
  have hu := u64Skip_strip c c.mantissaRadix (ids.drop (zerosSkip c ids).2) 0 step
  rw [zerosSkip_drop, hz.1] at hu
  simp only [Option.isNone_map, Bool.true_and, ← hu.2.2, ← hu.2.1, ← hu.1]
  simp only [← hz.1]
  by_cases hpos : nd > 0
  · simp only [hpos, if_true]
    by_cases hc : (decide ((u64Skip c c.mantissaRadix (List.drop (zerosSkip c ids).2 ids) 0 step).2.2.2 = 0) ||
        fraction.isNone) = true
    · simp only [hc, if_true]
      exact biE_ok (by simp [NumRel])
    · simp only [hc, Bool.false_eq_true, if_false]
      cases hfr : fraction with
      | none => simp only [Option.map_none]; exact biE_err
      | some fd =>
        simp only [Option.map_some]
        have hzf := zerosSkip_strip c fd
        by_cases hm0 : (u64Skip c c.mantissaRadix (List.drop (zerosSkip c ids).2 ids) 0 step).2.2.1 = 0
        · have hu2 := u64Skip_strip c c.mantissaRadix (fd.drop (zerosSkip c fd).2)
            (u64Skip c c.mantissaRadix (List.drop (zerosSkip c ids).2 ids) 0 step).2.2.1
            (u64Skip c c.mantissaRadix (List.drop (zerosSkip c ids).2 ids) 0 step).2.2.2
          rw [zerosSkip_drop, hzf.1] at hu2
          simp only [hm0, if_true] at hu2 ⊢
          simp only [← hu2.2.1, ← hu2.1]
          simp only [← hzf.1]
          exact biE_ok (by simp [NumRel])
        · have hu2 := u64Skip_strip c c.mantissaRadix fd
            (u64Skip c c.mantissaRadix (List.drop (zerosSkip c ids).2 ids) 0 step).2.2.1
            (u64Skip c c.mantissaRadix (List.drop (zerosSkip c ids).2 ids) 0 step).2.2.2
          simp only [hm0, if_false, List.drop_zero, Nat.zero_add] at hu2 ⊢
          simp only [← hu2.2.1, ← hu2.1]
          exact biE_ok (by simp [NumRel])
  · simp only [hpos, if_false]
    exact biE_ok (by simp [NumRel])

theorem zerosSkip_at (c : Cfg) (s : List Nat) (i : Nat) :
    zerosPrefix ((nonSep c s).drop (nonSep c (s.take i)).length) = (zerosSkip c (s.drop i)).1 ∧
    (nonSep c (s.take (i + (zerosSkip c (s.drop i)).2))).length
      = (nonSep c (s.take i)).length + (zerosSkip c (s.drop i)).1 ∧
    (∀ x, s[i + (zerosSkip c (s.drop i)).2]? = some x → c.isSep x = false) := by
  have h := zerosSkip_strip c (s.drop i)
  refine ⟨by rw [nonSep_take_drop, h.1], by rw [nonSep_take_add, h.2.1], ?_⟩
  intro x hx
  exact h.2.2 x (by rw [List.getElem?_drop]; exact hx)

theorem manyClosedS_bi (c : Cfg) (scale : Int → Int) (dp : Nat) (s : List Nat) (i : Nat) (ids : List Nat) (ipN : Nat)
    (fraction : Option (List Nat)) (fpMant : Nat) (explicit : Int) (neg : Bool) (nDigits step : Nat) (ex0 : Int)
    (endIdx endIdx' : Nat) :
    BiE (fun r r' => NumRel c r.1 r'.1 ∧ r.1.isNegative = neg ∧ r.2 = endIdx ∧ r'.2 = endIdx')
      (manyClosedS c scale dp s i ids ipN fraction fpMant explicit neg nDigits step ex0 endIdx)
      (manyClosed c.mantissaRadix scale dp (nonSep c s) (nonSep c (s.take i)).length (nonSep c ids) ipN
        (fraction.map (nonSep c)) fpMant explicit neg nDigits step ex0 endIdx' true) := by
  unfold manyClosedS manyClosed
  simp only
  have h1 := zerosSkip_at c s i
  have hget : (nonSep c s)[(nonSep c (s.take i)).length + (zerosSkip c (s.drop i)).1]?
      = s[i + (zerosSkip c (s.drop i)).2]? := by
    rw [← h1.2.1]; exact strip_idx c s _ h1.2.2
  rw [h1.1, hget]
  by_cases hdp : (s[i + (zerosSkip c (s.drop i)).2]? == some dp) = true
  · simp only [hdp, if_true]
    have hx : s[i + (zerosSkip c (s.drop i)).2]? = some dp := by simpa using hdp
    have hidx : (nonSep c (s.take (i + (zerosSkip c (s.drop i)).2 + 1))).length
        = (nonSep c (s.take i)).length + (zerosSkip c (s.drop i)).1 + 1 := by
      rw [nonSep_take_add, h1.2.1, drop_of_get hx, List.take_succ_cons, List.take_zero,
        nonSep_cons_non c dp _ (h1.2.2 dp hx)]
      simp [nonSep]
    have h2 := zerosSkip_at c s (i + (zerosSkip c (s.drop i)).2 + 1)
    rw [hidx] at h2
    rw [h2.1]
    exact manyCoreS_bi c scale ids ipN fraction fpMant explicit neg step ex0 endIdx endIdx' _
  · simp only [hdp, Bool.false_eq_true, if_false]
    have h2 := zerosSkip_at c s (i + (zerosSkip c (s.drop i)).2)
    rw [h1.2.1] at h2
    rw [h2.1]
    exact manyCoreS_bi c scale ids ipN fraction fpMant explicit neg step ex0 endIdx endIdx' _

end LexVerif.Proof.Sep
