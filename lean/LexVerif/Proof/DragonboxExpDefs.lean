import LexVerif.Model.Dragonbox
import LexVerif.Spec.Shortest
import LexVerif.Proof.DragonboxBits
/-!
# Proof.DragonboxExpDefs — the per-binary-exponent certificate of `compute_nearest_normal` (executable part)

For a binary exponent `e` (`value = mantissa · 2^e`) the algorithm uses `k = κ − ⌊e·log10 2⌋`, `β = e + ⌊k·log2 10⌋`
and the cache entry `φ̃_k`; everything it computes from the mantissa is a floor / parity / integrality test of
`n · x`, `x = 2^(e−1)·10^k`, evaluated with `ξ = φ̃_k·2^β / 2^Q` in place of `x`.

`expData t e` recomputes — with the MODEL's own `floor_log*` functions and the cache dumped from the crate — `k`, `β`,
`φ̃`, the reduced fraction `a/b = x` and a pair of Farey neighbours `p1/q1 ≤ x < p2/q2` for the bound
`N = 2^(p+1)`; `expOk t e` checks the finitely many numeric conditions from which `Proof/DragonboxFarey.lean`
derives exactness for EVERY mantissa.  `Proof/Tables/DragonboxExp*.lean` evaluate `expOk` for every exponent of
binary32 / binary64 in the kernel.
-/
namespace LexVerif.Proof.DragonboxExp
open LexVerif.Model.Dragonbox LexVerif.Spec LexVerif.Proof.DragonboxBits

/-- precision (with hidden bit) -/
def prec : FTy → Nat | .f32 => 24 | .f64 => 53

/-- Stern–Brocot walk with acceleration towards `a/b`, denominators bounded by `N`; only its OUTPUT is checked -/
def fareyGo (a b N : Nat) : Nat → Nat → Nat → Nat → Nat → Nat × Nat × Nat × Nat
  | 0, p1, q1, p2, q2 => (p1, q1, p2, q2)
  | fuel + 1, p1, q1, p2, q2 =>
    let d1 := a * q1 - p1 * b
    let d2 := p2 * b - a * q2
    let t := min (d1 / d2) ((N - q1) / q2)
    let p1 := p1 + t * p2
    let q1 := q1 + t * q2
    let d1 := a * q1 - p1 * b
    if d1 = 0 then
      let s := (N - q2) / q1
      (p1, q1, p2 + s * p1, q2 + s * q1)
    else
      let s := min ((d2 - 1) / d1) ((N - q2) / q1)
      if t = 0 ∧ s = 0 then (p1, q1, p2, q2) else fareyGo a b N fuel p1 q1 (p2 + s * p1) (q2 + s * q1)

def farey (a b N : Nat) : Nat × Nat × Nat × Nat := fareyGo a b N 400 (a / b) 1 (a / b + 1) 1

structure ExpData where
  minusK : Int
  beta : Nat
  pow5 : Nat × Nat
  a : Nat
  b : Nat
  p1 : Nat
  q1 : Nat
  p2 : Nat
  q2 : Nat

/-- `x = 2^(e-1)·10^k` as an (unreduced) fraction -/
def xFrac (e k : Int) : Nat × Nat :=
  (2 ^ (e - 1).toNat * 10 ^ k.toNat, 2 ^ (1 - e).toNat * 10 ^ (-k).toNat)

def expData (t : FTy) (e : Int) : Option ExpData :=
  let minusK := i32 (floorLog10Pow2 e - t.kappa)
  let betaI := i32 (e + floorLog2Pow10 (i32 (-minusK)))
  match dragonboxPower t (i32 (-minusK)) with
  | none => none
  | some pow5 =>
    if betaI < 0 then none else
    let x := xFrac e (-minusK)
    let g := Nat.gcd x.1 x.2
    let a := x.1 / g
    let b := x.2 / g
    let f := farey a b (2 ^ (prec t + 1))
    some ⟨minusK, betaI.toNat, pow5, a, b, f.1, f.2.1, f.2.2.1, f.2.2.2⟩

/-- the floats whose centre-integrality flag is wrong (`(exponent, mantissa)`); evaluated separately -/
def excFloats : FTy → List (Int × Nat)
  | .f32 => [(-81, 14855922), (-80, 14855922)]
  | .f64 => []

/-- smallest multiplier `2f_c - 1` that occurs with exponent `e` -/
def nLo (t : FTy) (e : Int) : Nat := if e = t.denormalExponent then 1 else 2 ^ prec t - 1

/-- multiples `α·q1` whose fractional part `α·d1/b` is positive but below the flag threshold `1/H` -/
def excNs (t : FTy) (e : Int) (d : ExpData) : List Nat :=
  let H := 2 ^ (t.qb / 2)
  let d1 := d.a * d.q1 - d.p1 * d.b
  ((List.range (d.b / (d1 * H) + 2)).filter
    (fun α => 1 ≤ α ∧ 0 < d1 ∧ α * d1 * H < d.b ∧ nLo t e ≤ α * d.q1 ∧ α * d.q1 ≤ 2 ^ (prec t + 1))).map (· * d.q1)

def dataOk (t : FTy) (e : Int) (d : ExpData) : Bool :=
  let N := 2 ^ (prec t + 1)
  let H := 2 ^ (t.qb / 2)
  let T := 10 ^ t.kappa.toNat
  let c := phiOf t d.pow5 * 2 ^ d.beta
  let dd := 2 ^ t.qb
  let d1 := d.a * d.q1 - d.p1 * d.b
  let d2 := d.p2 * d.b - d.a * d.q2
  let pq1 := scalePQ (e - 2) (d.minusK + t.kappa + 1)
  let pq0 := scalePQ (e - 2) (d.minusK + t.kappa)
  -- the model's prefix
  decide (d.minusK = floorLog10Pow2 e - t.kappa ∧ -1000 ≤ d.minusK ∧ d.minusK ≤ 1000)
  && decide ((d.beta : Int) = e + floorLog2Pow10 (-d.minusK))
  && decide (d.pow5.1 < 2 ^ 64 ∧ d.pow5.2 < 2 ^ 64)
  && decide (1 ≤ d.beta ∧ d.beta ≤ 31 ∧ N * 2 ^ d.beta ≤ H)
  -- Farey certificate
  && decide (0 < d.b ∧ 0 < d.a ∧ d.p1 * d.b ≤ d.a * d.q1 ∧ d.a * d.q2 < d.p2 * d.b
      ∧ d.p2 * d.q1 = d.p1 * d.q2 + 1 ∧ N < d.q1 + d.q2)
  -- the approximation: x ≤ ξ < p2/q2, error small
  && decide (d.a * dd ≤ c * d.b ∧ c * d.q2 < d.p2 * dd ∧ N * (c * d.b - d.a * dd) * H < dd * d.b)
  -- neighbour distances
  && decide (d.b ≤ (d1 + d2) * H)
  && (excNs t e d).all (fun n => n % 2 = 0 && (excFloats t).contains (e, n / 2))
  -- 10^κ ≤ δ < 10^(κ+1)
  && decide (T * d.b ≤ 2 * d.a ∧ 2 * d.a < 10 * T * d.b)
  -- endpoints are never integers outside the exponent window
  && decide (Nat.gcd d.a d.b = 1)
  && decide ((e < t.fcPmHalfLower ∨ e > t.divBy5Threshold) → (d.b % 2 = 0 ∨ N < d.b))
  -- scaling of the oracle's comparison fractions
  && decide (pq1.1 * d.a = 2 * (10 * T) * pq1.2 * d.b ∧ pq0.1 * d.a = 2 * T * pq0.2 * d.b)
  -- search start of the oracle
  && decide ((((prec t + 2 : Nat) : Int) + (e - 2)) * 30103 / 100000 + 2 - (d.minusK + t.kappa) < 420)

def expOk (t : FTy) (e : Int) : Bool :=
  match expData t e with
  | none => false
  | some d => dataOk t e d

/-- exponents `lo, lo+1, …, lo+cnt-1` -/
def expList (lo : Int) (cnt : Nat) : List Int := (List.range cnt).map (fun (i : Nat) => lo + (i : Int))

theorem mem_expList {lo : Int} {cnt : Nat} {e : Int} (h1 : lo ≤ e) (h2 : e < lo + cnt) : e ∈ expList lo cnt := by
  unfold expList
  apply List.mem_map.mpr
  refine ⟨(e - lo).toNat, List.mem_range.mpr (by omega), ?_⟩
  show lo + ((e - lo).toNat : Int) = e
  omega

end LexVerif.Proof.DragonboxExp
