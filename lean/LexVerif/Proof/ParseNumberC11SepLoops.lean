import LexVerif.Proof.ParseNumberC11SepPeek
/-!
# Proof.ParseNumberC11SepLoops — C11 (B) with digit separators: the loops over `peek` under truncation

`parse_digits`, `read_if_value_cased`, `skip_zeros`, `is_consumed` for an arbitrary component iterator (no-skip or any
of the 14 separator predicates), cut at an admissible point (`Adm`) of the state they return; and the relation between
the first pass over a digit run (`parse_digits`) and the `skip_zeros` pass of the many-digits re-parse over the same
run (`zeros_mirror`: same `peek` decisions as long as the digits are zeros).

The first part repeats, with the release-build hypothesis `Rel` only, the lemmas of `ParseNumberC11Trunc.lean` that do
not go through `peek` (8-digit blocks of contiguous iterators, slices, `parse_sign!`, base suffix).
-/
set_option linter.unusedSectionVars false
set_option linter.unusedSimpArgs false
set_option linter.unusedVariables false
namespace LexVerif.Proof.C11
open LexVerif LexVerif.Model LexVerif.Spec
open LexVerif.Props.C12 (Bytes.Valid incCount_spec peek_spec)
open LexVerif.Proof.PNTotal (Rel iterStep_rel bstep_rel stepBy_rel)

section
variable {c : Cfg} (hc : Rel c)
include hc

theorem iterStep_r (k : Comp) (b : Bytes) : iterStep c k b = .ok (Bytes.at b (b.index + 1)) := iterStep_rel hc k b
theorem step_r (b : Bytes) : b.step c = .ok (Bytes.at b (b.index + 1)) := bstep_rel hc b
theorem stepBy_r (ct : Bool) (n : Nat) (b : Bytes) : b.stepBy c ct n = .ok (Bytes.at b (b.index + n)) :=
  stepBy_rel hc ct n b

/-- `f` keeps the buffer, only moves the cursor forward, keeps it inside the buffer, and returns the same on every
truncation of the buffer at or beyond the final cursor -/
def TruncOKr {α : Type} (f : Bytes → Except Err (α × Bytes)) : Prop :=
  ∀ (b b' : Bytes) (r : α), Bytes.Valid b → f b = .ok (r, b') →
    b'.slc = b.slc ∧ b.index ≤ b'.index ∧ Bytes.Valid b' ∧
    ∀ n, b'.index ≤ n → f (trunc n b) = .ok (r, trunc n b')

/-! ## no `peek` involved -/

theorem tryParse8_g_r (k : Comp) (b : Bytes) :
    tryParse8 c k b =
      if c.iterContiguous k = true ∧ b.slc.length - b.index ≥ 8 ∧ b.index ≤ b.slc.length then
        (if is8Digits c.mantissaRadix ((b.slc.drop b.index).take 8) then
          .ok (some (val8Digits c.mantissaRadix ((b.slc.drop b.index).take 8)),
            incFold c k (List.range 8) (Bytes.at b (b.index + 8)))
         else .ok (none, b))
      else .ok (none, b) := by
  by_cases hcnd : c.iterContiguous k = true ∧ b.slc.length - b.index ≥ 8 ∧ b.index ≤ b.slc.length
  · rw [if_pos hcnd]
    simp only [tryParse8, peekBytes, hc.hd, stepBy_r hc, hcnd, Bool.false_and, Bool.false_eq_true,
      if_false, Bool.true_and, Bool.and_eq_true, decide_eq_true_eq, and_self, if_true, bind, Except.bind, pure,
      Except.pure, incFold]
  · rw [if_neg hcnd]
    have : (c.iterContiguous k && decide (b.slc.length - b.index ≥ 8) && decide (b.index ≤ b.slc.length)) = false := by
      cases hk : c.iterContiguous k
      · rfl
      · simp only [hk, true_and] at hcnd
        simp only [Bool.true_and, Bool.and_eq_false_iff, decide_eq_false_iff_not]
        by_cases h1 : b.slc.length - b.index ≥ 8
        · right; intro h2; exact hcnd ⟨h1, h2⟩
        · left; exact h1
    simp only [tryParse8, peekBytes, hc.hd, this, Bool.false_and, Bool.false_eq_true, if_false, pure, Except.pure]


theorem tryParse8_trunc_r (k : Comp) : TruncOKr (tryParse8 c k) := by
  intro b b' r hv h
  rw [tryParse8_g_r hc] at h
  have key : ∀ n, b.index ≤ n → r = none → b' = b →
      (¬ (c.iterContiguous k = true ∧ b.slc.length - b.index ≥ 8 ∧ b.index ≤ b.slc.length) ∨
        is8Digits c.mantissaRadix ((b.slc.drop b.index).take 8) = false) →
      tryParse8 c k (trunc n b) = .ok (r, trunc n b') := by
    intro n _ hr hbb hcase
    subst hr hbb
    rw [tryParse8_g_r hc]
    by_cases hc2 : c.iterContiguous k = true ∧ (trunc n b').slc.length - (trunc n b').index ≥ 8 ∧
        (trunc n b').index ≤ (trunc n b').slc.length
    · rw [if_pos hc2]
      have hn8 : b'.index + 8 ≤ n ∧ b'.slc.length - b'.index ≥ 8 ∧ b'.index ≤ b'.slc.length := by
        have := hc2.2
        simp only [trunc_slc, trunc_index, List.length_take] at this; omega
      rw [show List.take 8 (List.drop (trunc n b').index (trunc n b').slc) = List.take 8 (List.drop b'.index b'.slc)
        from take8_trunc _ _ _ hn8.1]
      rcases hcase with hcase | hcase
      · exact absurd ⟨hc2.1, hn8.2⟩ hcase
      · rw [hcase]; rfl
    · rw [if_neg hc2]
  split at h
  · next hcnd =>
    split at h
    · next h8 =>
      simp only [Except.ok.injEq, Prod.mk.injEq] at h
      obtain ⟨rfl, rfl⟩ := h
      refine ⟨by simp, by simp, by simp only [Bytes.Valid, incFold_index, incFold_slc, at_index, at_slc]; omega, ?_⟩
      intro n hn
      simp only [incFold_index, at_index] at hn
      rw [tryParse8_g_r hc]
      have hc2 : c.iterContiguous k = true ∧ (trunc n b).slc.length - (trunc n b).index ≥ 8 ∧
          (trunc n b).index ≤ (trunc n b).slc.length := by
        refine ⟨hcnd.1, ?_⟩
        simp only [trunc_slc, trunc_index, List.length_take]; omega
      rw [if_pos hc2]
      rw [show List.take 8 (List.drop (trunc n b).index (trunc n b).slc) = List.take 8 (List.drop b.index b.slc)
        from take8_trunc _ _ _ hn]
      rw [if_pos h8, trunc_incFold]
      rfl
    · next h8 =>
      simp only [Except.ok.injEq, Prod.mk.injEq] at h
      obtain ⟨rfl, rfl⟩ := h
      exact ⟨rfl, Nat.le_refl _, hv, fun n hn => key n hn rfl rfl (Or.inr (by simpa using h8))⟩
  · next hcnd =>
    simp only [Except.ok.injEq, Prod.mk.injEq] at h
    obtain ⟨rfl, rfl⟩ := h
    exact ⟨rfl, Nat.le_refl _, hv, fun n hn => key n hn rfl rfl (Or.inl hcnd)⟩


theorem parse8Loop_trunc_r (k : Comp) :
    ∀ (fuel : Nat) (b b' : Bytes) (m r : Nat), Bytes.Valid b → parse8Loop c k fuel b m = .ok (r, b') →
      b'.slc = b.slc ∧ b.index ≤ b'.index ∧ Bytes.Valid b' ∧
      ∀ n fuel2, b'.index ≤ n → b'.index - b.index < fuel2 →
        parse8Loop c k fuel2 (trunc n b) m = .ok (r, trunc n b') := by
  intro fuel
  induction fuel with
  | zero => intro b b' m r _ h; simp [parse8Loop] at h
  | succ f ih =>
    intro b b' m r hv h
    rw [parse8Loop] at h
    simp only [bind, Except.bind, pure, Except.pure] at h
    cases ht : tryParse8 c k b with
    | error e => simp [ht] at h
    | ok p =>
      obtain ⟨v, b1⟩ := p
      obtain ⟨t1, t2, t3, t4⟩ := tryParse8_trunc_r hc k b b1 v hv ht
      simp only [ht] at h
      cases v with
      | none =>
        simp only [Except.ok.injEq, Prod.mk.injEq] at h
        obtain ⟨rfl, rfl⟩ := h
        refine ⟨t1, t2, t3, ?_⟩
        intro n fuel2 hn hfu
        obtain ⟨f2, rfl⟩ : ∃ f2, fuel2 = f2 + 1 := ⟨fuel2 - 1, by omega⟩
        rw [parse8Loop]
        simp only [bind, Except.bind, pure, Except.pure, t4 n hn]
      | some x =>
        simp only at h
        obtain ⟨e1, e2, e3, e5⟩ := ih _ _ _ _ t3 h
        have hstep : b.index + 8 ≤ b1.index := by
          rw [tryParse8_g_r hc] at ht
          split at ht
          · split at ht
            · simp only [Except.ok.injEq, Prod.mk.injEq] at ht
              rw [← ht.2]; simp
            · simp at ht
          · simp at ht
        refine ⟨by rw [e1, t1], by omega, e3, ?_⟩
        intro n fuel2 hn hfu
        obtain ⟨f2, rfl⟩ : ∃ f2, fuel2 = f2 + 1 := ⟨fuel2 - 1, by omega⟩
        rw [parse8Loop]
        simp only [bind, Except.bind, pure, Except.pure, t4 n (by omega)]
        exact e5 n f2 hn (by omega)


theorem parse8Digits_trunc_r (k : Comp) (m : Nat) : TruncOKr (fun b => parse8Digits c k b m) := by
  intro b b' r hv h
  by_cases hcomp : c.feats.compact = true
  · simp only [parse8Digits, hcomp, if_true, pure, Except.pure, Except.ok.injEq, Prod.mk.injEq] at h
    obtain ⟨rfl, rfl⟩ := h
    refine ⟨rfl, Nat.le_refl _, hv, fun n _ => ?_⟩
    simp only [parse8Digits, hcomp, if_true, pure, Except.pure]
  · by_cases hcm : canMultidigit c k = true
    · simp only [parse8Digits, hcomp, hcm, hc.hd, if_true, if_false, Bool.false_and, Bool.false_eq_true] at h
      obtain ⟨e1, e2, e3, e5⟩ := parse8Loop_trunc_r hc k _ b b' m r hv h
      refine ⟨e1, e2, e3, ?_⟩
      intro n hn
      simp only [parse8Digits, hcomp, hcm, hc.hd, if_true, if_false, Bool.false_and, Bool.false_eq_true]
      apply e5 n _ hn
      have : b'.index ≤ b'.slc.length := e3
      rw [e1] at this
      simp only [trunc_slc, List.length_take]
      omega
    · simp only [parse8Digits, hcomp, hcm, if_false, pure, Except.pure, Except.ok.injEq, Prod.mk.injEq,
        Bool.false_eq_true] at h
      obtain ⟨rfl, rfl⟩ := h
      refine ⟨rfl, Nat.le_refl _, hv, fun n _ => ?_⟩
      simp only [parse8Digits, hcomp, hcm, if_false, pure, Except.pure, Bool.false_eq_true]


/-- `integer_digits` slice: inside the truncated buffer it is the same slice -/
theorem sliceTo_trunc_r (b : Bytes) (j n : Nat) (tag : String) (r : List Nat) (h : sliceTo c b j tag = .ok r)
    (hn : b.index + j ≤ n) : sliceTo c (trunc n b) j tag = .ok r := by
  unfold sliceTo at h ⊢
  by_cases hle : j ≤ b.asSlice.length
  · rw [if_pos hle] at h
    have hle2 : j ≤ b.slc.length - b.index := by simpa [Bytes.asSlice] using hle
    have h2 : j ≤ (trunc n b).asSlice.length := by
      simp only [Bytes.asSlice, trunc_slc, trunc_index, List.length_drop, List.length_take]; omega
    rw [if_pos h2]
    have : (trunc n b).asSlice.take j = b.asSlice.take j := takeDrop_trunc _ _ _ _ hn
    rw [this]; exact h
  · rw [if_neg hle] at h
    simp only [hc.hd, Bool.false_eq_true, if_false] at h
    cases h


theorem parseSign_trunc_r (np rq : Bool) (ip ms : String) : TruncOKr (parseSign c np rq ip ms) := by
  intro b b' neg hv h
  unfold parseSign at h
  split at h
  · next hfst =>
    have hlt := first_some_lt b _ hfst
    split at h
    · next hnp =>
      simp only [step_r hc, bind, Except.bind, pure, Except.pure, Except.ok.injEq, Prod.mk.injEq] at h
      obtain ⟨rfl, rfl⟩ := h
      refine ⟨rfl, by simp, by simp only [Bytes.Valid, at_index, at_slc]; omega, ?_⟩
      intro n hn
      simp only [at_index] at hn
      unfold parseSign
      rw [first_trunc, if_pos (by omega), hfst]
      simp only [hnp, if_true, step_r hc, bind, Except.bind, pure, Except.pure, trunc_index]
      rfl
    · cases h
  · next hfst =>
    have hlt := first_some_lt b _ hfst
    simp only [step_r hc, bind, Except.bind, pure, Except.pure, Except.ok.injEq, Prod.mk.injEq] at h
    obtain ⟨rfl, rfl⟩ := h
    refine ⟨rfl, by simp, by simp only [Bytes.Valid, at_index, at_slc]; omega, ?_⟩
    intro n hn
    simp only [at_index] at hn
    unfold parseSign
    rw [first_trunc, if_pos (by omega), hfst]
    simp only [step_r hc, bind, Except.bind, pure, Except.pure, trunc_index]
    rfl
  · next h43 h45 =>
    split at h
    · cases h
    · next hrq =>
      simp only [pure, Except.pure, Except.ok.injEq, Prod.mk.injEq] at h
      obtain ⟨rfl, rfl⟩ := h
      refine ⟨rfl, Nat.le_refl _, hv, ?_⟩
      intro n hn
      unfold parseSign
      rw [first_trunc]
      split
      · next hcnd => split at hcnd <;> simp_all
      · next hcnd => split at hcnd <;> simp_all
      · simp only [hrq]; rfl


theorem suffixPhase_trunc_r (b b' : Bytes) (hv : Bytes.Valid b) (h : suffixPhase c b = .ok b') :
    b'.slc = b.slc ∧ b.index ≤ b'.index ∧ Bytes.Valid b' ∧
    ∀ n, b'.index ≤ n → suffixPhase c (trunc n b) = .ok (trunc n b') := by
  unfold suffixPhase at h
  split at h
  · next hcnd =>
    simp only [Bool.and_eq_true] at hcnd
    have hlt : b.index < b.slc.length := PNTotal.firstIs_lt hcnd.2
    rw [step_r hc] at h
    cases h
    refine ⟨by simp, by simp, by simp only [Bytes.Valid, at_index, at_slc]; omega, ?_⟩
    intro n hn
    simp only [at_index] at hn
    unfold suffixPhase
    have hfi : (trunc n b).firstIs c.baseSuffix c.caseSensitiveBaseSuffix = true := by
      rw [firstIs_eq, first_trunc, if_pos (by omega), ← firstIs_eq]; exact hcnd.2
    rw [hfi]
    simp only [hcnd.1, Bool.and_self, if_true, step_r hc]
    rfl
  · next hcnd =>
    simp only [pure, Except.pure, Except.ok.injEq] at h
    subst h
    refine ⟨rfl, Nat.le_refl _, hv, ?_⟩
    intro n _
    unfold suffixPhase
    have hfi : (c.feats.format && decide (c.baseSuffix ≠ 0) &&
        (trunc n b).firstIs c.baseSuffix c.caseSensitiveBaseSuffix) = false := by
      rw [firstIs_eq, first_trunc]
      split
      · rw [← firstIs_eq]; simpa using hcnd
      · rw [matchByte_none]; simp
    rw [hfi]
    rfl


/-! ## `parse_digits` over an arbitrary iterator -/

theorem trunc_valid (n : Nat) (b : Bytes) (hv : Bytes.Valid b) (hn : b.index ≤ n) : Bytes.Valid (trunc n b) := by
  unfold Bytes.Valid at *
  simp only [trunc_slc, trunc_index, List.length_take]; omega

/-- `parse_digits`: cut at an admissible point of the state it returns, it returns the same digits and the same state;
the byte it stops at is not a digit of `r` (`hsd`: the separator is not a digit of `r`) -/
theorem parseDigitsLoop_truncS (k : Comp) (r : Nat) (hsd : ∀ x, c.isSep x = true → charToDigit x r = none) :
    ∀ (fuel : Nat) (b b' : Bytes) (ds : List Nat), Bytes.Valid b → parseDigitsLoop c k r fuel b = .ok (ds, b') →
      b'.slc = b.slc ∧ b.index ≤ b'.index ∧ Bytes.Valid b' ∧
      (∀ ch, b.slc[b'.index]? = some ch → charToDigit ch r = none) ∧
      ∀ n fuel2, Adm c k n b' → b'.index - b.index < fuel2 →
        parseDigitsLoop c k r fuel2 (trunc n b) = .ok (ds, trunc n b') := by
  intro fuel
  induction fuel with
  | zero => intro b b' ds _ h; simp [parseDigitsLoop] at h
  | succ f ih =>
    intro b b' ds hv h
    rw [parseDigitsLoop] at h
    cases hp : peek c k b with
    | error e => simp [hp, bind, Except.bind] at h
    | ok pr =>
      obtain ⟨v, b1⟩ := pr
      obtain ⟨p1, p2, p3, p4⟩ := peek_at c k b b1 v hv hp
      have hv1 : Bytes.Valid b1 := by rw [p1]; simp only [Bytes.Valid, at_index, at_slc]; exact p4
      have hs1 : b1.slc = b.slc := by rw [p1]; rfl
      simp only [hp, bind, Except.bind, pure, Except.pure] at h
      -- the truncated run starts with the truncated peek
      have start : ∀ n f2, Adm c k n b1 → parseDigitsLoop c k r (f2 + 1) (trunc n b) =
          (match (if b1.index < n then v else none) with
           | none => .ok ([], trunc n b1)
           | some ch =>
             match charToDigit ch r with
             | none => .ok ([], trunc n b1)
             | some d =>
               match iterStep c k (trunc n b1) with
               | .error e => .error e
               | .ok b2 =>
                 match parseDigitsLoop c k r f2 (b2.incCount c k) with
                 | .error e => .error e
                 | .ok (ds, b3) => .ok (d :: ds, b3)) := by
        intro n f2 ha
        rw [parseDigitsLoop, peek_trunc c k b b1 v hv hp n ha]
        simp only [bind, Except.bind, pure, Except.pure]
        cases (if b1.index < n then v else none) with
        | none => rfl
        | some ch =>
          simp only
          cases charToDigit ch r with
          | none => rfl
          | some d =>
            simp only
            cases iterStep c k (trunc n b1) with
            | error e => rfl
            | ok b2 =>
              simp only
              cases parseDigitsLoop c k r f2 (b2.incCount c k) with
              | error e => rfl
              | ok pr => rfl
      cases v with
      | none =>
        simp only [Except.ok.injEq, Prod.mk.injEq] at h
        obtain ⟨rfl, rfl⟩ := h
        refine ⟨hs1, p3, hv1, (by intro ch hch; rw [← p2] at hch; cases hch), ?_⟩
        intro n fuel2 ha hfu
        obtain ⟨f2, rfl⟩ : ∃ f2, fuel2 = f2 + 1 := ⟨fuel2 - 1, by omega⟩
        rw [start n f2 ha]
        simp only [ite_self]
      | some ch =>
        simp only at h
        cases hdg : charToDigit ch r with
        | none =>
          simp only [hdg, Except.ok.injEq, Prod.mk.injEq] at h
          obtain ⟨rfl, rfl⟩ := h
          refine ⟨hs1, p3, hv1, (by intro ch2 hch; rw [← p2] at hch; cases hch; exact hdg), ?_⟩
          intro n fuel2 ha hfu
          obtain ⟨f2, rfl⟩ : ∃ f2, fuel2 = f2 + 1 := ⟨fuel2 - 1, by omega⟩
          rw [start n f2 ha]
          by_cases hlt : b1.index < n
          · simp only [hlt, if_true, hdg]
          · simp only [hlt, if_false]
        | some d =>
          simp only [hdg, iterStep_r hc] at h
          have hlt : b1.index < b.slc.length := (List.getElem?_eq_some_iff.mp p2.symm).1
          cases hrec : parseDigitsLoop c k r f ((Bytes.at b1 (b1.index + 1)).incCount c k) with
          | error e => simp [hrec] at h
          | ok pr =>
            obtain ⟨ds2, b2⟩ := pr
            simp only [hrec, Except.ok.injEq, Prod.mk.injEq] at h
            obtain ⟨rfl, rfl⟩ := h
            have hvn : Bytes.Valid ((Bytes.at b1 (b1.index + 1)).incCount c k) := by
              simp only [Bytes.Valid, incCount_slc, incCount_index, at_index, at_slc, hs1]; omega
            obtain ⟨e1, e2, e3, e4, e5⟩ := ih _ _ _ hvn hrec
            simp only [incCount_slc, incCount_index, at_index, at_slc, hs1] at e1 e2 e4
            refine ⟨e1, by omega, e3, e4, ?_⟩
            intro n fuel2 ha hfu
            obtain ⟨f2, rfl⟩ : ∃ f2, fuel2 = f2 + 1 := ⟨fuel2 - 1, by omega⟩
            have hn := ha.1
            have ha1 : Adm c k n b1 := by
              refine Adm.of_lt (by omega) ?_
              intro x hx
              rw [hs1, ← p2] at hx
              cases hx
              cases hsx : c.isSep ch with
              | false => rfl
              | true => rw [hsd ch hsx] at hdg; cases hdg
            rw [start n f2 ha1, if_pos (by omega)]
            simp only [hdg, iterStep_r hc, trunc_index]
            have := e5 n f2 ha (by simp only [incCount_index, at_index]; omega)
            rw [trunc_incCount, trunc_at] at this
            rw [this]

theorem parseDigits_truncS (k : Comp) (r : Nat) (hsd : ∀ x, c.isSep x = true → charToDigit x r = none)
    (b b' : Bytes) (ds : List Nat) (hv : Bytes.Valid b) (h : parseDigits c k r b = .ok (ds, b')) :
    b'.slc = b.slc ∧ b.index ≤ b'.index ∧ Bytes.Valid b' ∧
    (∀ ch, b.slc[b'.index]? = some ch → charToDigit ch r = none) ∧
    ∀ n, Adm c k n b' → parseDigits c k r (trunc n b) = .ok (ds, trunc n b') := by
  obtain ⟨e1, e2, e3, e4, e5⟩ := parseDigitsLoop_truncS hc k r hsd _ b b' ds hv h
  refine ⟨e1, e2, e3, e4, ?_⟩
  intro n ha
  unfold parseDigits
  apply e5 n _ ha
  have : b'.index ≤ b'.slc.length := e3
  have hn := ha.1
  rw [e1] at this
  simp only [trunc_slc, List.length_take]
  omega

/-- the stop byte of a digit loop in the mantissa radix makes every cut at or behind the cursor admissible, except
that a cursor resting on a separator wants the cut exactly there -/
theorem adm_of_stop (k : Comp) (r : Nat) (b' : Bytes) (n : Nat)
    (hstop : ∀ ch, b'.slc[b'.index]? = some ch → charToDigit ch r = none)
    (hdl : DigitLook c k → ∀ x, c.isDigit x = true → charToDigit x r ≠ none)
    (hn : b'.index ≤ n) (hsep : ∀ x, b'.slc[b'.index]? = some x → c.isSep x = true → n = b'.index) : Adm c k n b' := by
  refine ⟨hn, fun x hx => ⟨hsep x hx, fun hd hdx => ?_⟩⟩
  exact absurd (hstop x hx) (hdl hd x hdx)

/-! ## `read_if_value_cased`, `skip_zeros`, `is_consumed` -/

theorem readIfValueCased_eqS (k : Comp) (v : Nat) (b b1 : Bytes) (x : Option Nat) (hp : peek c k b = .ok (x, b1)) :
    readIfValueCased c k v b = .ok (if x = some v then (true, Bytes.at b1 (b1.index + 1)) else (false, b1)) := by
  unfold readIfValueCased
  simp only [hp, bind, Except.bind, pure, Except.pure, iterStep_r hc, beq_iff_eq]
  split <;> rfl

theorem readIfValueCased_truncS (k : Comp) (v : Nat) (hvs : c.isSep v = false) (b b' : Bytes) (hit : Bool)
    (hv : Bytes.Valid b) (h : readIfValueCased c k v b = .ok (hit, b')) :
    b'.slc = b.slc ∧ b.index ≤ b'.index ∧ Bytes.Valid b' ∧
    (hit = true → b.index < b'.index ∧ b.slc[b'.index - 1]? = some v) ∧
    (hit = false → b.slc[b'.index]? ≠ some v ∧ peek c k b = .ok (b.slc[b'.index]?, b')) ∧
    ∀ n, (hit = true → b'.index ≤ n) → (hit = false → Adm c k n b') →
      readIfValueCased c k v (trunc n b) = .ok (hit, trunc n b') := by
  cases hp : peek c k b with
  | error e => simp [readIfValueCased, hp, bind, Except.bind] at h
  | ok pr =>
    obtain ⟨x, b1⟩ := pr
    obtain ⟨p1, p2, p3, p4⟩ := peek_at c k b b1 x hv hp
    have hs1 : b1.slc = b.slc := by rw [p1]; rfl
    rw [readIfValueCased_eqS hc k v b b1 x hp] at h
    by_cases hx : x = some v
    · simp only [hx, if_true, Except.ok.injEq, Prod.mk.injEq] at h
      obtain ⟨rfl, rfl⟩ := h
      have hget : b.slc[b1.index]? = some v := by rw [← p2, hx]
      have hlt : b1.index < b.slc.length := (List.getElem?_eq_some_iff.mp hget).1
      refine ⟨by simp [hs1], by simp only [at_index]; omega,
        by simp only [Bytes.Valid, at_index, at_slc, hs1]; omega,
        fun _ => ⟨by simp only [at_index]; omega, by simpa using hget⟩, (fun hh => Bool.noConfusion hh), ?_⟩
      intro n hn _
      have hn := hn rfl
      simp only [at_index] at hn
      have ha1 : Adm c k n b1 := by
        refine Adm.of_lt (by omega) ?_
        intro y hy
        rw [hs1, hget] at hy; cases hy; exact hvs
      have e : (if b1.index < n then x else none) = x := if_pos (by omega)
      rw [readIfValueCased_eqS hc k v _ _ _ (peek_trunc c k b b1 x hv hp n ha1), e, if_pos hx]
      rfl
    · simp only [hx, if_false, Except.ok.injEq, Prod.mk.injEq] at h
      obtain ⟨rfl, rfl⟩ := h
      refine ⟨hs1, p3, by simp only [Bytes.Valid, hs1]; exact p4, (fun hh => Bool.noConfusion hh),
        fun _ => ⟨by rw [← p2]; exact hx, by rw [← p2]⟩, ?_⟩
      intro n _ ha
      have ha := ha rfl
      rw [readIfValueCased_eqS hc k v _ _ _ (peek_trunc c k b b1 x hv hp n ha)]
      have : ¬ (if b1.index < n then x else none) = some v := by
        split
        · exact hx
        · simp
      rw [if_neg this]

theorem readIfValue_eqS (k : Comp) (v : Nat) (cased : Bool) (b b1 : Bytes) (x : Option Nat)
    (hp : peek c k b = .ok (x, b1)) :
    readIfValue c k v cased b =
      .ok (if matchByte v cased x = true then (true, Bytes.at b1 (b1.index + 1)) else (false, b1)) := by
  unfold readIfValue
  cases cased with
  | true =>
    simp only [if_true, readIfValueCased_eqS hc k v b b1 x hp, matchByte, beq_iff_eq]
  | false =>
    simp only [Bool.false_eq_true, if_false, matchByte]
    unfold readIfValueUncased
    simp only [hp, bind, Except.bind, pure, Except.pure, iterStep_r hc]
    cases x with
    | none => rfl
    | some y =>
      simp only
      split <;> rfl

/-- `read_if_value` (cased or not) of a byte that the separator does not match -/
theorem readIfValue_truncS (k : Comp) (v : Nat) (cased : Bool)
    (hvs : ∀ y, matchByte v cased (some y) = true → c.isSep y = false) (b b' : Bytes) (hit : Bool)
    (hv : Bytes.Valid b) (h : readIfValue c k v cased b = .ok (hit, b')) :
    b'.slc = b.slc ∧ b.index ≤ b'.index ∧ Bytes.Valid b' ∧ b' = Bytes.at b b'.index ∧
    (hit = true → b.index < b'.index) ∧
    (hit = false → peek c k b = .ok (b.slc[b'.index]?, b')) ∧
    ∀ n, (hit = true → b'.index ≤ n) → (hit = false → Adm c k n b') →
      readIfValue c k v cased (trunc n b) = .ok (hit, trunc n b') := by
  cases hp : peek c k b with
  | error e =>
    exfalso
    unfold readIfValue readIfValueCased readIfValueUncased at h
    simp only [hp, bind, Except.bind] at h
    split at h <;> cases h
  | ok pr =>
    obtain ⟨x, b1⟩ := pr
    obtain ⟨p1, p2, p3, p4⟩ := peek_at c k b b1 x hv hp
    have hs1 : b1.slc = b.slc := by rw [p1]; rfl
    rw [readIfValue_eqS hc k v cased b b1 x hp] at h
    by_cases hx : matchByte v cased x = true
    · simp only [hx, if_true, Except.ok.injEq, Prod.mk.injEq] at h
      obtain ⟨rfl, rfl⟩ := h
      obtain ⟨y, hy⟩ := matchByte_some v cased x hx
      have hget : b.slc[b1.index]? = some y := by rw [← p2, hy]
      have hlt : b1.index < b.slc.length := (List.getElem?_eq_some_iff.mp hget).1
      refine ⟨by simp [hs1], by simp only [at_index]; omega,
        by simp only [Bytes.Valid, at_index, at_slc, hs1]; omega, by rw [p1]; rfl,
        fun _ => by simp only [at_index]; omega, (fun hh => Bool.noConfusion hh), ?_⟩
      intro n hn _
      have hn := hn rfl
      simp only [at_index] at hn
      have ha1 : Adm c k n b1 := by
        refine Adm.of_lt (by omega) ?_
        intro z hz
        rw [hs1, hget] at hz; cases hz
        exact hvs y (by rw [← hy]; exact hx)
      have e : (if b1.index < n then x else none) = x := if_pos (by omega)
      rw [readIfValue_eqS hc k v cased _ _ _ (peek_trunc c k b b1 x hv hp n ha1), e, if_pos hx]
      rfl
    · simp only [hx, if_false, Except.ok.injEq, Prod.mk.injEq] at h
      obtain ⟨rfl, rfl⟩ := h
      refine ⟨hs1, p3, by simp only [Bytes.Valid, hs1]; exact p4, p1, (fun hh => Bool.noConfusion hh),
        fun _ => by rw [← p2], ?_⟩
      intro n _ ha
      have ha := ha rfl
      rw [readIfValue_eqS hc k v cased _ _ _ (peek_trunc c k b b' x hv hp n ha)]
      have : ¬ matchByte v cased (if b'.index < n then x else none) = true := by
        split
        · exact hx
        · rw [matchByte_none]; simp
      rw [if_neg this]

/-- `skip_zeros` loop: cut at an admissible point of the state it returns -/
theorem skipZerosLoop_truncS (k : Comp) (h48 : c.isSep 48 = false) :
    ∀ (fuel : Nat) (b zb : Bytes), Bytes.Valid b → skipZerosLoop c k fuel b = .ok zb →
      zb.slc = b.slc ∧ b.index ≤ zb.index ∧ Bytes.Valid zb ∧ b.slc[zb.index]? ≠ some 48 ∧
      ∀ n fuel2, Adm c k n zb → zb.index - b.index < fuel2 →
        skipZerosLoop c k fuel2 (trunc n b) = .ok (trunc n zb) := by
  intro fuel
  induction fuel with
  | zero => intro b zb _ h; simp [skipZerosLoop] at h
  | succ f ih =>
    intro b zb hv h
    rw [skipZerosLoop] at h
    cases hr : readIfValueCased c k 48 b with
    | error e => simp [hr, bind, Except.bind] at h
    | ok pr =>
      obtain ⟨hit, b1⟩ := pr
      obtain ⟨r1, r2, r3, r4, r5, r6⟩ := readIfValueCased_truncS hc k 48 h48 b b1 hit hv hr
      simp only [hr, bind, Except.bind, pure, Except.pure] at h
      cases hit with
      | false =>
        simp only [Bool.false_eq_true, if_false, Except.ok.injEq] at h
        subst h
        refine ⟨r1, r2, r3, (r5 rfl).1, ?_⟩
        intro n fuel2 ha hfu
        obtain ⟨f2, rfl⟩ : ∃ f2, fuel2 = f2 + 1 := ⟨fuel2 - 1, by omega⟩
        rw [skipZerosLoop, r6 n (fun hh => Bool.noConfusion hh) (fun _ => ha)]
        simp only [bind, Except.bind, pure, Except.pure, Bool.false_eq_true, if_false]
      | true =>
        simp only [if_true] at h
        have hvn : Bytes.Valid (b1.incCount c k) := by
          simp only [Bytes.Valid, incCount_slc, incCount_index]; exact r3
        obtain ⟨e1, e2, e3, e4, e5⟩ := ih _ _ hvn h
        simp only [incCount_slc, incCount_index, r1] at e1 e2 e4
        have hlt := (r4 rfl).1
        refine ⟨e1, by omega, e3, e4, ?_⟩
        intro n fuel2 ha hfu
        obtain ⟨f2, rfl⟩ : ∃ f2, fuel2 = f2 + 1 := ⟨fuel2 - 1, by omega⟩
        have hn := ha.1
        rw [skipZerosLoop, r6 n (fun _ => by omega) (fun hh => Bool.noConfusion hh)]
        simp only [bind, Except.bind, pure, Except.pure, if_true]
        have := e5 n f2 ha (by simp only [incCount_index]; omega)
        rw [trunc_incCount] at this
        exact this

theorem skipZeros_truncS (k : Comp) (h48 : c.isSep 48 = false) (b zb : Bytes) (z : Nat) (hv : Bytes.Valid b)
    (h : skipZeros c k b = .ok (z, zb)) :
    zb.slc = b.slc ∧ b.index ≤ zb.index ∧ Bytes.Valid zb ∧ b.slc[zb.index]? ≠ some 48 ∧
    z = zb.iterCount c k - b.iterCount c k ∧
    skipZerosLoop c k (b.slc.length + 1) b = .ok zb ∧
    ∀ n, Adm c k n zb → skipZeros c k (trunc n b) = .ok (z, trunc n zb) := by
  unfold skipZeros at h
  cases hl : skipZerosLoop c k (b.slc.length + 1) b with
  | error e => simp [hl, bind, Except.bind] at h
  | ok zb1 =>
    simp only [hl, bind, Except.bind, pure, Except.pure, Except.ok.injEq, Prod.mk.injEq] at h
    obtain ⟨rfl, rfl⟩ := h
    obtain ⟨e1, e2, e3, e4, e5⟩ := skipZerosLoop_truncS hc k h48 _ b zb1 hv hl
    refine ⟨e1, e2, e3, e4, rfl, rfl, ?_⟩
    intro n ha
    have hn := ha.1
    have hzl : zb1.index ≤ b.slc.length := by have : zb1.index ≤ zb1.slc.length := e3; rwa [e1] at this
    unfold skipZeros
    rw [e5 n _ ha (by simp only [trunc_slc, List.length_take]; omega)]
    simp only [bind, Except.bind, pure, Except.pure, trunc_iterCount]

/-- `is_consumed` of a skip iterator (build with `format`): not consumed, cut behind the cursor -/
theorem isConsumed_truncS (k : Comp) (hf : c.feats.format = true) (b b' : Bytes) (hv : Bytes.Valid b)
    (h : isConsumed c k b = .ok (false, b')) (n : Nat) (hlt : b'.index < n)
    (hns : ∀ x, b'.slc[b'.index]? = some x → c.isSep x = false) :
    isConsumed c k (trunc n b) = .ok (false, trunc n b') := by
  unfold isConsumed at h ⊢
  simp only [hf, Bool.not_true, Bool.false_eq_true, if_false, bind, Except.bind, pure, Except.pure] at h ⊢
  cases hp : peek c k b with
  | error e => simp [hp] at h
  | ok pr =>
    obtain ⟨v, b1⟩ := pr
    simp only [hp, Except.ok.injEq, Prod.mk.injEq] at h
    obtain ⟨hvn, rfl⟩ := h
    rw [peek_trunc c k b b1 v hv hp n (Adm.of_lt hlt hns), if_pos hlt]
    simp only [hvn]

/-! ## the zero run of the re-parse against the first pass -/

/-- `skip_zeros` started in the state in which `parse_digits` was started makes the same `peek` decisions as long as
the digits are zeros: it ends in the very state `parse_digits` ended in (all digits were zeros), or earlier on a
non-zero digit -/
theorem zeros_mirror (k : Comp) (r : Nat) (h0 : charToDigit 48 r = some 0)
    (hsd : ∀ x, c.isSep x = true → charToDigit x r = none) :
    ∀ (fuel : Nat) (b b' : Bytes) (ds : List Nat), Bytes.Valid b → parseDigitsLoop c k r fuel b = .ok (ds, b') →
      ∀ fuel2, b'.index - b.index < fuel2 →
        ∃ zb, skipZerosLoop c k fuel2 b = .ok zb ∧
          (zb = b' ∨ (zb.index < b'.index ∧ zb.slc = b.slc ∧ b.index ≤ zb.index ∧
            ∃ x, b.slc[zb.index]? = some x ∧ x ≠ 48 ∧ charToDigit x r ≠ none)) := by
  intro fuel
  induction fuel with
  | zero => intro b b' ds _ h; simp [parseDigitsLoop] at h
  | succ f ih =>
    intro b b' ds hv h fuel2 hfu
    obtain ⟨f2, rfl⟩ : ∃ f2, fuel2 = f2 + 1 := ⟨fuel2 - 1, by omega⟩
    rw [parseDigitsLoop] at h
    cases hp : peek c k b with
    | error e => simp [hp, bind, Except.bind] at h
    | ok pr =>
      obtain ⟨v, b1⟩ := pr
      obtain ⟨p1, p2, p3, p4⟩ := peek_at c k b b1 v hv hp
      have hs1 : b1.slc = b.slc := by rw [p1]; rfl
      simp only [hp, bind, Except.bind, pure, Except.pure] at h
      rw [skipZerosLoop, readIfValueCased_eqS hc k 48 b b1 v hp]
      simp only [bind, Except.bind, pure, Except.pure]
      cases v with
      | none =>
        simp only [Except.ok.injEq, Prod.mk.injEq] at h
        obtain ⟨_, rfl⟩ := h
        exact ⟨b1, by simp, Or.inl rfl⟩
      | some ch =>
        simp only at h
        cases hdg : charToDigit ch r with
        | none =>
          simp only [hdg, Except.ok.injEq, Prod.mk.injEq] at h
          obtain ⟨_, rfl⟩ := h
          have hne : ch ≠ 48 := by intro e; subst e; rw [h0] at hdg; cases hdg
          have : ¬ (some ch = some 48) := by simpa using hne
          exact ⟨b1, by simp [this], Or.inl rfl⟩
        | some d =>
          simp only [hdg, iterStep_r hc] at h
          have hlt : b1.index < b.slc.length := (List.getElem?_eq_some_iff.mp p2.symm).1
          cases hrec : parseDigitsLoop c k r f ((Bytes.at b1 (b1.index + 1)).incCount c k) with
          | error e => simp [hrec] at h
          | ok pr =>
            obtain ⟨ds2, b2⟩ := pr
            simp only [hrec, Except.ok.injEq, Prod.mk.injEq] at h
            obtain ⟨_, rfl⟩ := h
            have hvn : Bytes.Valid ((Bytes.at b1 (b1.index + 1)).incCount c k) := by
              simp only [Bytes.Valid, incCount_slc, incCount_index, at_index, at_slc, hs1]; omega
            have hmono := (parseDigitsLoop_truncS hc k r hsd f _ _ _ hvn hrec).2.1
            simp only [incCount_index, at_index] at hmono
            by_cases h48 : ch = 48
            · subst h48
              simp only [if_true]
              obtain ⟨zb, hz, hor⟩ := ih _ _ _ hvn hrec f2 (by simp only [incCount_index, at_index]; omega)
              refine ⟨zb, hz, ?_⟩
              rcases hor with rfl | ⟨q1, q2, q3, x, q4, q5, q6⟩
              · exact Or.inl rfl
              · simp only [incCount_slc, incCount_index, at_index, at_slc, hs1] at q2 q3 q4
                exact Or.inr ⟨q1, q2, by omega, x, q4, q5, q6⟩
            · have : ¬ (some ch = some 48) := by simpa using h48
              simp only [this, if_false, Bool.false_eq_true]
              refine ⟨b1, rfl, Or.inr ⟨by omega, hs1, p3, ch, p2.symm, h48, ?_⟩⟩
              rw [hdg]; simp

end
end LexVerif.Proof.C11
