import LexVerif.Model.ParseNumber
/-!
# Proof.PrefixRepair — helpers for the switch `Model.prefixRepair`

`prefixPhase` is `prefixPhaseRepaired` (parse.rs with `fixes/C12-base-prefix-swallows-leading-zero.diff`) or
`prefixPhaseCurrent`; every lemma about it is proved for both by `prefixPhase_cases` / `prefixPhase_ok_cases`.
`read_if_value*` change nothing but the cursor, so the repaired code's `set_cursor(prefix_start)` restores the iterator.
-/
namespace LexVerif.Proof.PrefixRepair
open LexVerif LexVerif.Model

theorem prefixPhase_cases (P : Except Err (Bool × Bytes) → Prop) (c : Cfg) (b : Bytes)
    (hR : prefixRepair = true → P (prefixPhaseRepaired c b)) (hC : prefixRepair = false → P (prefixPhaseCurrent c b)) :
    P (prefixPhase c b) := by
  unfold prefixPhase
  by_cases h : prefixRepair = true
  · rw [if_pos h]; exact hR h
  · rw [if_neg h]; exact hC (by simpa using h)

theorem prefixPhase_eq_current (c : Cfg) (b : Bytes) (h : ¬ prefixRepair = true) :
    prefixPhase c b = prefixPhaseCurrent c b := by unfold prefixPhase; rw [if_neg h]

theorem prefixPhase_eq_repaired (c : Cfg) (b : Bytes) (h : prefixRepair = true) :
    prefixPhase c b = prefixPhaseRepaired c b := by unfold prefixPhase; rw [if_pos h]

/-- no base prefix configured (or no `format` feature): nothing is read, whatever the switch -/
theorem prefixPhase_off (c : Cfg) (b : Bytes) (h : ¬ (c.feats.format && c.basePrefix ≠ 0) = true) :
    prefixPhase c b = .ok (false, b) := by
  unfold prefixPhase prefixPhaseRepaired prefixPhaseCurrent
  rw [if_neg h, if_neg h]
  split <;> rfl

/-- only the cursor differs -/
def OnlyIndex (b b' : Bytes) : Prop := b' = { b with index := b'.index }

theorem OnlyIndex.refl (b : Bytes) : OnlyIndex b b := rfl
theorem OnlyIndex.trans {a b c : Bytes} (h1 : OnlyIndex a b) (h2 : OnlyIndex b c) : OnlyIndex a c := by
  unfold OnlyIndex at *; rw [h2, h1]
theorem OnlyIndex.restore {a b : Bytes} (h : OnlyIndex a b) : ({ b with index := a.index } : Bytes) = a := by
  unfold OnlyIndex at h; rw [h]

variable (c : Cfg)

theorem peek_onlyIndex (k : Comp) (b b' : Bytes) (v : Option Nat) (h : peek c k b = .ok (v, b')) : OnlyIndex b b' := by
  unfold peek at h
  split at h
  · cases h; rfl
  · simp only [Except.ok.injEq] at h
    unfold peekPred at h
    split at h
    · cases h; rfl
    · split at h
      · split at h
        · cases h; rfl
        · cases h; rfl
      · cases h; rfl
  · cases h

theorem iterStep_onlyIndex (k : Comp) (b b' : Bytes) (h : iterStep c k b = .ok b') : OnlyIndex b b' := by
  unfold iterStep Bytes.stepUnchecked at h
  split at h
  · cases h
  · unfold Bytes.stepBy at h
    split at h
    · cases h
    · split at h
      · cases h
      · split at h
        · cases h
        · split at h
          · cases h
          · cases h; rfl

theorem readIfValueCased_onlyIndex (k : Comp) (v : Nat) (b b' : Bytes) (hit : Bool)
    (h : readIfValueCased c k v b = .ok (hit, b')) : OnlyIndex b b' := by
  unfold readIfValueCased at h
  cases hp : peek c k b with
  | error e => simp [hp, bind, Except.bind] at h
  | ok r =>
    obtain ⟨x, b1⟩ := r
    have h1 := peek_onlyIndex c k b b1 x hp
    simp only [hp, bind, Except.bind] at h
    split at h
    · cases hs : iterStep c k b1 with
      | error e => simp [hs] at h
      | ok b2 =>
        simp only [hs, pure, Except.pure, Except.ok.injEq, Prod.mk.injEq] at h
        obtain ⟨_, rfl⟩ := h
        exact h1.trans (iterStep_onlyIndex c k b1 b2 hs)
    · simp only [pure, Except.pure, Except.ok.injEq, Prod.mk.injEq] at h
      obtain ⟨_, rfl⟩ := h
      exact h1

theorem readIfValue_onlyIndex (k : Comp) (v : Nat) (cased : Bool) (b b' : Bytes) (hit : Bool)
    (h : readIfValue c k v cased b = .ok (hit, b')) : OnlyIndex b b' := by
  unfold readIfValue at h
  split at h
  · exact readIfValueCased_onlyIndex c k v b b' hit h
  · unfold readIfValueUncased at h
    cases hp : peek c k b with
    | error e => simp [hp, bind, Except.bind] at h
    | ok r =>
      obtain ⟨x, b1⟩ := r
      have h1 := peek_onlyIndex c k b b1 x hp
      simp only [hp, bind, Except.bind] at h
      split at h
      · split at h
        · cases hs : iterStep c k b1 with
          | error e => simp [hs] at h
          | ok b2 =>
            simp only [hs, pure, Except.pure, Except.ok.injEq, Prod.mk.injEq] at h
            obtain ⟨_, rfl⟩ := h
            exact h1.trans (iterStep_onlyIndex c k b1 b2 hs)
        · simp only [pure, Except.pure, Except.ok.injEq, Prod.mk.injEq] at h
          obtain ⟨_, rfl⟩ := h
          exact h1
      · simp only [pure, Except.pure, Except.ok.injEq, Prod.mk.injEq] at h
        obtain ⟨_, rfl⟩ := h
        exact h1

/-- the repaired prefix phase, with the restored iterator written as the original one -/
theorem prefixPhaseRepaired_eq (b : Bytes) :
    prefixPhaseRepaired c b =
      if (c.feats.format && c.basePrefix ≠ 0) = true then
        match readIfValueCased c .integer 48 b with
        | .error e => .error e
        | .ok (false, b1) => .ok (false, b1)
        | .ok (true, b1) =>
          match readIfValue c .integer c.basePrefix c.caseSensitiveBasePrefix b1 with
          | .error e => .error e
          | .ok (true, b2) =>
            if (b2.isBufferEmpty && c.requiredIntegerDigits) = true then .error (.err "EmptyInteger" b2.index)
            else .ok (true, b2)
          | .ok (false, _) =>
            if b.index ≤ b.slc.length then .ok (false, b)
            else if c.debug = true then .error (.panic "set_cursor: index > buffer_length") else .error (.fault "set_cursor")
      else .ok (false, b) := by
  unfold prefixPhaseRepaired
  split
  · cases h1 : readIfValueCased c .integer 48 b with
    | error e => simp [bind, Except.bind]
    | ok r =>
      obtain ⟨zero, b1⟩ := r
      have o1 := readIfValueCased_onlyIndex c .integer 48 b b1 zero h1
      cases zero with
      | false => simp [bind, Except.bind, pure, Except.pure]
      | true =>
        simp only [bind, Except.bind, if_true]
        cases h2 : readIfValue c .integer c.basePrefix c.caseSensitiveBasePrefix b1 with
        | error e => simp
        | ok r2 =>
          obtain ⟨hit, b2⟩ := r2
          have o2 := (o1.trans (readIfValue_onlyIndex c .integer _ _ b1 b2 hit h2))
          cases hit with
          | true => simp [pure, Except.pure]
          | false =>
            have hsl : b2.slc = b.slc := by rw [o2]
            have hr := o2.restore
            rw [hsl] at hr
            simp only [Bool.false_eq_true, if_false, pure, Except.pure, hsl, hr]
  · rfl

end LexVerif.Proof.PrefixRepair
