import LexVerif.Proof.GrammarSpecial
import LexVerif.Proof.ParseNumberDebugCtx
/-!
# Proof.GrammarOptions — what the entry-point validation of `parseFloatModel` gives the grammar proofs

`OptionsBuilder::build` (`optionsError o = none`) implies the two hypotheses on the special strings that
`Proof.Grammar*` works under: `SpecialsWF o` (non-empty, NaN starts with `N`/`n` and the infinities with `I`/`i`,
`inf` not longer than `infinity`) and `LettersOnly o`.
-/
namespace LexVerif.Proof.Grammar
open LexVerif LexVerif.Spec LexVerif.Model

/-- the per-string check of `OptionsBuilder::build` -/
def strOk (s : List Nat) (a b : Nat) : Prop :=
  s ≠ [] ∧ (s.head? = some a ∨ s.head? = some b) ∧ (∀ y ∈ s, isValidLetter y = true) ∧ s.length ≤ 50

theorem strErr_none (s : List Nat) (a b : Nat) (i t : String)
    (h : (if (s.isEmpty || !(decide (s.head? = some a) || decide (s.head? = some b))) = true then some i
      else if (!s.all isValidLetter) = true then some i
      else if s.length > 50 then some t else none) = none) : strOk s a b := by
  split at h
  · cases h
  · next h1 =>
    split at h
    · cases h
    · next h2 =>
      split at h
      · cases h
      · next h3 =>
        simp only [Bool.or_eq_true, Bool.not_eq_true', Bool.or_eq_false_iff, decide_eq_false_iff_not, not_or,
          not_and, List.isEmpty_iff] at h1
        refine ⟨h1.1, ?_, ?_, by omega⟩
        · by_cases ha : s.head? = some a
          · exact Or.inl ha
          · by_cases hb : s.head? = some b
            · exact Or.inr hb
            · exact absurd hb (h1.2 ha)
        · intro y hy
          simp only [Bool.not_eq_true', Bool.not_eq_false] at h2
          exact List.all_eq_true.mp (by simpa using h2) y hy

/-- what `optionsError o = none` says, string by string -/
theorem optionsError_none (o : POpts) (h : optionsError o = none) :
    (∀ t, o.nan = some t → strOk t 78 110) ∧ (∀ t, o.inf = some t → strOk t 73 105) ∧
    (∀ t, o.infinity = some t → strOk t 73 105) ∧
    (∀ a b, o.inf = some a → o.infinity = some b → a.length ≤ b.length) := by
  unfold optionsError at h
  simp only [] at h
  split at h
  · cases h
  · split at h
    · cases h
    · split at h
      · cases h
      · next hnan =>
        split at h
        · cases h
        · next hshort =>
          split at h
          · cases h
          · next hinf =>
            have hN : ∀ t, o.nan = some t → strOk t 78 110 := by
              intro t ht
              rw [ht] at hnan
              exact strErr_none t 78 110 _ _ hnan
            have hI : ∀ t, o.inf = some t → strOk t 73 105 := by
              intro t ht
              rw [ht] at hinf
              exact strErr_none t 73 105 _ _ hinf
            cases hy : o.infinity with
            | none =>
              refine ⟨hN, hI, ?_, ?_⟩
              · intro t ht; cases ht
              · intro a b ha hb; cases hb
            | some y =>
              rw [hy] at h
              simp only [] at h
              split at h
              · cases h
              · next hyy =>
                split at h
                · cases h
                · next hlen =>
                  refine ⟨hN, hI, ?_, ?_⟩
                  · intro t ht; cases ht
                    exact strErr_none y 73 105 _ _ hyy
                  · intro a b ha hb
                    cases hb
                    rw [ha] at hlen
                    simp only [Option.getD_some] at hlen
                    omega

theorem eqUncased_NI (a b : Nat) (ha : a = 78 ∨ a = 110) (hb : b = 73 ∨ b = 105) : eqUncased a b = false := by
  rcases ha with rfl | rfl <;> rcases hb with rfl | rfl <;> decide

/-- **`OptionsBuilder::build` succeeded ⇒ the special strings are well formed** -/
theorem specialsWF_of_optionsError (o : POpts) (h : optionsError o = none) : SpecialsWF o := by
  obtain ⟨hN, hI, hY, hL⟩ := optionsError_none o h
  refine ⟨fun e => (hN _ e).1 rfl, fun e => (hI _ e).1 rfl, fun e => (hY _ e).1 rfl, ?_, hL⟩
  intro a as b bs h1 h2
  have ha : a = 78 ∨ a = 110 := by
    have := (hN _ h1).2.1
    simpa using this
  have hb : b = 73 ∨ b = 105 := by
    rcases h2 with h2 | h2
    · have := (hI _ h2).2.1; simpa using this
    · have := (hY _ h2).2.1; simpa using this
  exact eqUncased_NI a b ha hb

/-- **`OptionsBuilder::build` succeeded ⇒ the special strings consist of ASCII letters** -/
theorem lettersOnly_of_optionsError (o : POpts) (h : optionsError o = none) : LettersOnly o := by
  obtain ⟨hN, hI, hY, _⟩ := optionsError_none o h
  intro t ht
  rcases ht with ht | ht | ht
  · exact (hN t ht).2.2.1
  · exact (hI t ht).2.2.1
  · exact (hY t ht).2.2.1

/-- non-vacuity: the default options pass the builder -/
example : optionsError {} = none := by decide

end LexVerif.Proof.Grammar
