import LexVerif.Proof.WriteRadixFrac
import Mathlib.Tactic.Ring
/-!
# Proof.WriteRadixError — accumulated rounding error of the fraction digits (a step toward the ulp clause)

* `fmul_err`: the one rounding of an iteration, `P = round(fraction · base)` with `fraction ≤ 1`, is off by at most
  half a unit in the last place of a float below 64: `|P − fraction·base| ≤ B = 2^(bias+3)` units of `2^-L`
  (`2^-48` for binary64, `2^-19` for binary32).
* `fracIter`: the digit / remainder trace of `n` iterations without the exits; `fracLoop_trace`: what the model's
  fraction loop returns is the trace's digits (or their round-up back-trace).
* `fracIter_err` (telescoping): `|fraction·rⁿ − (d₁…dₙ as an integer)·1 − fractionₙ| ≤ B·(1 + r + … + rⁿ⁻¹)`, i.e.
  `|fraction − 0.d₁…dₙ − fractionₙ·r⁻ⁿ| < 2^(5-p) / (r − 1)`: the digits written before the final round-up are the
  exact expansion of the fraction up to an ABSOLUTE error below `2^-48/(r-1)` (f64) plus the not yet expanded remainder.
-/
namespace LexVerif.Proof.WriteRadixError
open LexVerif.Spec LexVerif.Model LexVerif.Proof.RoundNE LexVerif.Proof.WriteRadixF LexVerif.Proof.WriteRadixTerm
open LexVerif.Proof.WriteRadixWF LexVerif.Proof.WriteRadixInteger
open LexVerif.Model.WriteRadix
open LexVerif.Model.WriteInt (Res)

/-- bound of one rounding error, in units of `2^-L` -/
def errB (f : Fmt) : Nat := 2 ^ (f.bias + 3)

/-- `1 + r + … + r^(n-1)` -/
def geom (r : Nat) : Nat → Nat
  | 0 => 0
  | n + 1 => r ^ n + geom r n

/-- successive patterns below 64.0 are at most `2^(bias+4)` units apart -/
theorem ival_succ_le (f : Fmt) {c : Nat} (hc : c + 1 ≤ (f.bias + 6) * 2 ^ (f.p - 1)) :
    RoundNE.ival f (c + 1) ≤ RoundNE.ival f c + 2 ^ (f.bias + 4) := by
  obtain ⟨k, q, rfl, h1, h2⟩ := decomp f c
  have hT := Nat.two_pow_pos (f.p - 1)
  have hk : k ≤ f.bias + 4 := by
    apply Nat.le_of_not_lt; intro hk
    have hq := h1 (by omega)
    have : (f.bias + 5) * 2 ^ (f.p - 1) ≤ k * 2 ^ (f.p - 1) := Nat.mul_le_mul_right _ (by omega)
    have e : (f.bias + 6) * 2 ^ (f.p - 1) = (f.bias + 5) * 2 ^ (f.p - 1) + 2 ^ (f.p - 1) := by ring
    omega
  rw [Nat.add_assoc, ival_kq f k q h1 (by omega), ival_kq f k (q + 1) (fun h => by have := h1 h; omega) (by omega)]
  have : 2 ^ k ≤ 2 ^ (f.bias + 4) := Nat.pow_le_pow_right (by decide) hk
  calc (q + 1) * 2 ^ k = q * 2 ^ k + 2 ^ k := by ring
    _ ≤ q * 2 ^ k + 2 ^ (f.bias + 4) := by omega

/-- the pattern of 64.0 -/
theorem ival_64 {f : Fmt} (h : FOK f) : RoundNE.ival f ((f.bias + 6) * 2 ^ (f.p - 1)) = 64 * unit f := by
  have hp := h.wf.hp
  have hb := bias_pos h.wf
  have e : (f.bias + 6) * 2 ^ (f.p - 1) = (f.bias + 5) * 2 ^ (f.p - 1) + 2 ^ (f.p - 1) := by ring
  rw [e, ival_kq f (f.bias + 5) _ (fun _ => Nat.le_refl _) (by omega), unit_eq, ← Nat.pow_add]
  have : f.p - 1 + (f.bias + 5) = 6 + L f := by unfold L; omega
  rw [this, Nat.pow_add]

/-- **the rounding error of one iteration** -/
theorem fmul_err {f : Fmt} (h : FOK f) {r : Nat} (hr36 : r ≤ 36) (hrp : r < 2 * 2 ^ (f.p - 1)) {x : Nat}
    (hx : x ≤ one f) :
    RoundNE.ival f x * r ≤ RoundNE.ival f (fmul f x (ofNat f r)) + errB f ∧
    RoundNE.ival f (fmul f x (ofNat f r)) ≤ RoundNE.ival f x * r + errB f := by
  obtain ⟨hrv, hrf⟩ := ofNat_ival h hrp
  have hu := unit_pos f
  have hc : fmul f x (ofNat f r) ≤ ofNat f r := fmul_le_base h hrp hx
  have hlt64 : ofNat f r < (f.bias + 6) * 2 ^ (f.p - 1) := by
    apply lt_of_ival_lt f
    rw [hrv, ival_64 h]
    exact Nat.mul_lt_mul_of_pos_right (by omega) hu
  have cell := inCell_roundNE h.wf (RoundNE.ival f x * RoundNE.ival f (ofNat f r)) (den := unit f * unit f)
    (Nat.ne_of_gt (Nat.mul_pos hu hu))
  have hfm : roundNE f (RoundNE.ival f x * RoundNE.ival f (ofNat f r)) (unit f * unit f) = fmul f x (ofNat f r) := rfl
  rw [hfm] at cell
  generalize fmul f x (ofNat f r) = c at *
  have hcfin : c < f.infBits := Nat.lt_of_le_of_lt hc hrf
  have e : errB f + errB f = 2 ^ (f.bias + 4) := by
    show 2 ^ (f.bias + 3) + 2 ^ (f.bias + 3) = 2 ^ (f.bias + 3 + 1)
    have : 2 ^ (f.bias + 3 + 1) = 2 ^ (f.bias + 3) * 2 := by ring
    omega
  have key : 2 * (RoundNE.ival f x * RoundNE.ival f (ofNat f r) * 2 ^ L f)
      = unit f * unit f * (2 * (RoundNE.ival f x * r)) := by rw [hrv, unit_eq]; ring
  constructor
  · have up := cell.upper hcfin
    rw [key] at up
    have up' := Nat.le_of_mul_le_mul_left up (Nat.mul_pos hu hu)
    have := ival_succ_le f (c := c) (by omega)
    omega
  · by_cases h0 : c = 0
    · subst h0; rw [ival_zero]; omega
    · have lo := cell.lower h0
      rw [key] at lo
      have lo' := Nat.le_of_mul_le_mul_left lo (Nat.mul_pos hu hu)
      have := ival_succ_le f (c := c - 1) (by omega)
      rw [Nat.sub_add_cancel (by omega)] at this
      omega

/-- digits (values) and remainder after `n` iterations of the fraction loop, exits ignored -/
def fracIter (f : Fmt) (r : Nat) : Nat → Nat → List Nat × Nat
  | 0, x => ([], x)
  | n + 1, x =>
    let P := fmul f x (ofNat f r)
    let d := asU32 f P
    let t := fracIter f r n (fsub f P (ofNat f d))
    (d :: t.1, t.2)

theorem foldl_horner (r : Nat) : ∀ (ds : List Nat) (acc : Nat),
    ds.foldl (fun a d => a * r + d) acc = acc * r ^ ds.length + ds.foldl (fun a d => a * r + d) 0
  | [], acc => by simp
  | d :: t, acc => by
    simp only [List.foldl_cons, List.length_cons]
    rw [foldl_horner r t (acc * r + d), foldl_horner r t (0 * r + d)]
    ring

theorem ofDigits_cons (r d : Nat) (ds : List Nat) : ofDigits r (d :: ds) = d * r ^ ds.length + ofDigits r ds := by
  unfold ofDigits
  simp only [List.foldl_cons]
  rw [foldl_horner]; ring

/-- **telescoped error of `n` iterations** -/
theorem fracIter_err {f : Fmt} (h : FOK f) {r : Nat} (hr36 : r ≤ 36) (hrp : r < 2 * 2 ^ (f.p - 1)) :
    ∀ (n x : Nat), x ≤ one f →
      (fracIter f r n x).1.length = n ∧ (fracIter f r n x).2 ≤ one f ∧ (∀ d ∈ (fracIter f r n x).1, d ≤ r) ∧
      ofDigits r (fracIter f r n x).1 * unit f + RoundNE.ival f (fracIter f r n x).2
        ≤ RoundNE.ival f x * r ^ n + errB f * geom r n ∧
      RoundNE.ival f x * r ^ n
        ≤ ofDigits r (fracIter f r n x).1 * unit f + RoundNE.ival f (fracIter f r n x).2 + errB f * geom r n
  | 0, x, hx => by simp [fracIter, ofDigits, geom, hx]
  | n + 1, x, hx => by
    obtain ⟨hd, hdr, hmod, hlt⟩ := frac_step h hr36 hrp hx
    obtain ⟨e1, e2⟩ := fmul_err h hr36 hrp hx
    obtain ⟨il, io, id, i1, i2⟩ := fracIter_err h hr36 hrp n _ (Nat.le_of_lt hlt)
    have hsplit : asU32 f (fmul f x (ofNat f r)) * unit f
        + RoundNE.ival f (fsub f (fmul f x (ofNat f r)) (ofNat f (asU32 f (fmul f x (ofNat f r)))))
        = RoundNE.ival f (fmul f x (ofNat f r)) := by
      rw [hmod, hd]
      have := Nat.div_add_mod (RoundNE.ival f (fmul f x (ofNat f r))) (unit f)
      rw [Nat.mul_comm] at this
      exact this
    unfold fracIter
    dsimp only
    refine ⟨by simp [il], io, ?_, ?_, ?_⟩
    · intro d hd'
      rcases List.mem_cons.mp hd' with rfl | hd'
      · exact hdr
      · exact id d hd'
    all_goals
      rw [ofDigits_cons, il]
      generalize RoundNE.ival f (fracIter f r n _).2 = xn at *
      generalize ofDigits r (fracIter f r n _).1 = D at *
      generalize RoundNE.ival f (fsub f (fmul f x (ofNat f r)) (ofNat f (asU32 f (fmul f x (ofNat f r))))) = x1 at *
      generalize asU32 f (fmul f x (ofNat f r)) = d at *
      generalize RoundNE.ival f (fmul f x (ofNat f r)) = P at *
      generalize RoundNE.ival f x = x0 at *
      generalize unit f = U at *
      generalize errB f = B at *
      subst hsplit
      unfold geom
    · -- upper
      have := Nat.mul_le_mul_right (r ^ n) e2
      calc (d * r ^ n + D) * U + xn = d * U * r ^ n + (D * U + xn) := by ring
        _ ≤ d * U * r ^ n + (x1 * r ^ n + B * geom r n) := by omega
        _ = (d * U + x1) * r ^ n + B * geom r n := by ring
        _ ≤ (x0 * r + B) * r ^ n + B * geom r n := by omega
        _ = x0 * r ^ (n + 1) + B * (r ^ n + geom r n) := by ring
    · -- lower
      have := Nat.mul_le_mul_right (r ^ n) e1
      calc x0 * r ^ (n + 1) = x0 * r * r ^ n := by ring
        _ ≤ (d * U + x1 + B) * r ^ n := this
        _ = d * U * r ^ n + x1 * r ^ n + B * r ^ n := by ring
        _ ≤ d * U * r ^ n + (D * U + xn + B * geom r n) + B * r ^ n := by omega
        _ = (d * r ^ n + D) * U + xn + B * (r ^ n + geom r n) := by ring

/-- **what the model's fraction loop returns is the trace**: after some `n ≥ 1` iterations the bytes are the trace's
digits (exit `delta ≥ fraction`) or their round-up back-trace -/
theorem fracLoop_trace (cf : Bool) (f : Fmt) (r : Nat) : ∀ (fuel x delta : Nat) (acc : List Nat)
    (out : List Nat × List Nat × Bool), fracLoop cf f r (ofNat f r) fuel x delta acc = .ok out →
    ∃ n, 1 ≤ n ∧ n ≤ fuel ∧
      (out = (((fracIter f r n x).1.map (digitToCharConst · r)).reverse ++ acc, [], false) ∨
       out = backtrace cf r (((fracIter f r n x).1.map (digitToCharConst · r)).reverse ++ acc) [])
  | 0, _, _, _, _, h => by simp [fracLoop] at h
  | fuel + 1, x, delta, acc, out, h => by
    unfold fracLoop at h
    dsimp only at h
    split at h
    · simp only [Res.ok.injEq] at h
      exact ⟨1, Nat.le_refl _, by omega, Or.inr (by rw [← h]; simp [fracIter])⟩
    · split at h
      · simp only [Res.ok.injEq] at h
        exact ⟨1, Nat.le_refl _, by omega, Or.inl (by rw [← h]; simp [fracIter])⟩
      · obtain ⟨n, h1, h2, h3⟩ := fracLoop_trace cf f r fuel _ _ _ out h
        refine ⟨n + 1, by omega, by omega, ?_⟩
        rcases h3 with h3 | h3
        · exact Or.inl (by rw [h3]; simp [fracIter])
        · exact Or.inr (by rw [h3]; simp [fracIter])

end LexVerif.Proof.WriteRadixError
