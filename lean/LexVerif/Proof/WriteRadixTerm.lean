import LexVerif.Proof.WriteRadixWF
/-!
# Proof.WriteRadixTerm — the fraction loop of radix.rs: one step is exact up to ONE rounding; it terminates (Mathlib-free)

* `frac_step`: with `fraction ≤ 1`, one iteration computes `P = round(fraction · base)` (the only rounding), then
  `digit = ⌊P⌋ ≤ radix` and the new `fraction = P - digit` EXACTLY (`ival fraction' = ival P % unit`), so
  `digit + fraction' = P` and `fraction' < 1`.
* `fmul_double`: `delta · base ≥ 2 · delta` after rounding (rounding is monotone and doubling is exact).
* `fracLoop_total`: the loop leaves by one of its two exits before the fuel (= the 1100 free bytes of the scratch
  buffer) is used up, because `delta` at least doubles per iteration, starts at `≥ 2^-L` and the loop exits as soon as
  `delta ≥ 1 ≥ fraction`: at most `L + 1` (1075 / 150) fraction digits are ever written.
-/
namespace LexVerif.Proof.WriteRadixTerm
open LexVerif.Spec LexVerif.Model LexVerif.Proof.RoundNE LexVerif.Proof.WriteRadixF
open LexVerif.Model.WriteRadix
open LexVerif.Model.WriteInt (Res)

theorem dvd_floor_part (f : Fmt) {a k q : Nat} (hq : RoundNE.ival f a = q * 2 ^ k) :
    2 ^ k ∣ RoundNE.ival f a / unit f * unit f := by
  by_cases hk : k ≤ L f
  · exact Nat.dvd_trans (Nat.pow_dvd_pow 2 hk) ⟨RoundNE.ival f a / unit f, by rw [unit_eq, Nat.mul_comm]⟩
  · have : unit f ∣ RoundNE.ival f a := by
      rw [unit_eq, hq]
      exact Nat.dvd_trans (Nat.pow_dvd_pow 2 (by omega : L f ≤ k)) ⟨q, Nat.mul_comm _ _⟩
    rw [Nat.div_mul_cancel this, hq]; exact ⟨q, Nat.mul_comm _ _⟩

theorem le_one_iff {f : Fmt} (h : FOK f) {a : Nat} : a ≤ one f ↔ RoundNE.ival f a ≤ unit f := by
  rw [← (one_ival h).1]
  exact ⟨ival_mono f, le_of_ival_le f⟩

theorem lt_one_iff {f : Fmt} (h : FOK f) {a : Nat} : a < one f ↔ RoundNE.ival f a < unit f := by
  rw [← (one_ival h).1]
  exact lt_iff_ival_lt f

/-- `fraction ≤ 1 ⇒ fraction · base ≤ base` after rounding -/
theorem fmul_le_base {f : Fmt} (h : FOK f) {r : Nat} (hrp : r < 2 * 2 ^ (f.p - 1)) {x : Nat} (hx : x ≤ one f) :
    fmul f x (ofNat f r) ≤ ofNat f r := by
  obtain ⟨hrv, hrf⟩ := ofNat_ival h hrp
  have e : fmul f (one f) (ofNat f r) = ofNat f r := by
    unfold fmul
    rw [ival_eq, ival_eq, (one_ival h).1, hrv]
    exact roundNE_of_ival h.wf hrf (Nat.mul_pos (unit_pos f) (unit_pos f)) (by rw [hrv, unit_eq]; ac_rfl)
  exact Nat.le_trans (fmul_mono h.wf hx (Nat.le_refl _)) (Nat.le_of_eq e)

/-- **one iteration is exact up to the rounding of the product** -/
theorem frac_step {f : Fmt} (h : FOK f) {r : Nat} (hr36 : r ≤ 36) (hrp : r < 2 * 2 ^ (f.p - 1)) {x : Nat}
    (hx : x ≤ one f) :
    let P := fmul f x (ofNat f r)
    let digit := asU32 f P
    digit = RoundNE.ival f P / unit f ∧ digit ≤ r ∧
      RoundNE.ival f (fsub f P (ofNat f digit)) = RoundNE.ival f P % unit f ∧
      fsub f P (ofNat f digit) < one f := by
  intro P digit
  obtain ⟨hrv, hrf⟩ := ofNat_ival h hrp
  have hP : P ≤ ofNat f r := fmul_le_base h hrp hx
  have hPf : P < f.infBits := Nat.lt_of_le_of_lt hP hrf
  have hPv : RoundNE.ival f P ≤ r * unit f := by rw [← hrv]; exact ival_mono f hP
  have hq : RoundNE.ival f P / unit f ≤ r := by
    apply Nat.le_of_lt_succ
    rw [Nat.div_lt_iff_lt_mul (unit_pos f)]
    calc RoundNE.ival f P ≤ r * unit f := hPv
      _ < (r + 1) * unit f := Nat.mul_lt_mul_of_pos_right (Nat.lt_succ_self r) (unit_pos f)
  have hd : digit = RoundNE.ival f P / unit f := by
    show asU32 f P = _
    unfold asU32; rw [ival_eq]; omega
  have hdl : digit < 2 * 2 ^ (f.p - 1) := by omega
  obtain ⟨hdv, _⟩ := ofNat_ival h hdl
  obtain ⟨k, q, hqk, hq2⟩ := ival_decomp f P
  have hdvd : 2 ^ k ∣ RoundNE.ival f (ofNat f digit) := by
    rw [hdv, hd]; exact dvd_floor_part f hqk
  have hs := (fsub_exact h.wf hPf hqk hq2 hdvd).1
  have hmod : RoundNE.ival f (fsub f P (ofNat f digit)) = RoundNE.ival f P % unit f := by
    rw [hs, hdv, hd]
    have := Nat.div_add_mod (RoundNE.ival f P) (unit f)
    rw [Nat.mul_comm] at this
    omega
  refine ⟨hd, by omega, hmod, ?_⟩
  rw [lt_one_iff h, hmod]
  exact Nat.mod_lt _ (unit_pos f)

/-- `delta · base ≥ 2 · delta` after rounding, for `delta < 1`, `base ≥ 2` -/
theorem fmul_double {f : Fmt} (h : FOK f) {r : Nat} (hr : 2 ≤ r) (hrp : r < 2 * 2 ^ (f.p - 1)) {d : Nat}
    (hd : d < one f) : 2 * RoundNE.ival f d ≤ RoundNE.ival f (fmul f d (ofNat f r)) := by
  obtain ⟨k, q, hqk, hq2⟩ := ival_decomp f d
  obtain ⟨c, hc⟩ := exists_pattern f (k + 1) q hq2
  have hcv : RoundNE.ival f c = 2 * RoundNE.ival f d := by rw [hc, hqk, Nat.pow_succ]; ac_rfl
  have hT2 : 2 < 2 * 2 ^ (f.p - 1) := by
    have := h.wf.hp
    have : 2 ≤ 2 ^ (f.p - 1) := by
      calc 2 = 2 ^ 1 := rfl
        _ ≤ 2 ^ (f.p - 1) := Nat.pow_le_pow_right (by decide) (by omega)
    omega
  have h2 := ofNat_ival h (n := 2) hT2
  have hcf : c < f.infBits := by
    apply Nat.lt_trans _ h2.2
    apply lt_of_ival_lt f
    rw [hcv, h2.1]
    have := (lt_one_iff h).mp hd
    omega
  have hb : 2 * unit f ≤ RoundNE.ival f (ofNat f r) := by
    rw [(ofNat_ival h hrp).1]; exact Nat.mul_le_mul_right _ hr
  have := ival_mono f (fmul_ge_double h.wf hcf hcv hb)
  omega

/-- **the fraction loop terminates within its fuel** -/
theorem fracLoop_total (cf : Bool) {f : Fmt} (h : FOK f) {r : Nat} (hr : 2 ≤ r) (hr36 : r ≤ 36) (hrp : r < 2 * 2 ^ (f.p - 1)) :
    ∀ (fuel fraction delta : Nat) (acc : List Nat), fraction ≤ one f → delta < one f →
      unit f ≤ RoundNE.ival f delta * 2 ^ fuel → ∃ x, fracLoop cf f r (ofNat f r) fuel fraction delta acc = .ok x
  | 0, _, delta, _, _, hd, hu => by
    have := (lt_one_iff h).mp hd
    simp at hu; omega
  | fuel + 1, fraction, delta, acc, hfr, hd, hu => by
    obtain ⟨_, _, _, hlt⟩ := frac_step h hr36 hrp hfr
    have hdbl := fmul_double h hr hrp hd
    unfold fracLoop
    dsimp only
    split
    · exact ⟨_, rfl⟩
    · split
      · exact ⟨_, rfl⟩
      · rename_i hnge
        refine fracLoop_total cf h hr hr36 hrp fuel _ _ _ (Nat.le_of_lt hlt) (Nat.lt_trans (Nat.lt_of_not_le hnge) hlt) ?_
        calc unit f ≤ RoundNE.ival f delta * 2 ^ (fuel + 1) := hu
          _ = 2 * RoundNE.ival f delta * 2 ^ fuel := by rw [Nat.pow_succ]; ac_rfl
          _ ≤ _ := Nat.mul_le_mul_right _ hdbl

theorem ival_one_pattern {f : Fmt} (hf : WF f) : RoundNE.ival f 1 = 1 := by
  have hp := hf.hp
  have : 2 ≤ 2 ^ (f.p - 1) := by
    calc 2 = 2 ^ 1 := rfl
      _ ≤ 2 ^ (f.p - 1) := Nat.pow_le_pow_right (by decide) (by omega)
  unfold RoundNE.ival
  rw [if_pos (Nat.div_eq_of_lt (by omega)), Nat.mod_eq_of_lt (by omega)]

theorem deltaOf_pos (f : Fmt) (bits : Nat) : 1 ≤ deltaOf f bits := by
  unfold deltaOf
  dsimp only
  generalize (if bits = maxFinite f then fmul f (half f) (fsub f bits (bits - 1))
    else fmul f (half f) (fsub f (bits + 1) bits)) = d
  split <;> omega

/-- **fuel adequacy of the fraction loop**: for every finite pattern the fraction part of `write_float` does not PANIC -/
theorem genFraction_total (cf : Bool) {f : Fmt} (h : FOK f) (hL : L f ≤ halfSize) {r : Nat} (hr : 2 ≤ r) (hr36 : r ≤ 36)
    (hrp : r < 2 * 2 ^ (f.p - 1)) {bits : Nat} (hb : bits < f.infBits) : ∃ x, genFraction cf f r bits = .ok x := by
  unfold genFraction
  dsimp only
  split
  · rename_i hgt
    have hfr : fsub f bits (ffloor f bits) < one f := by
      rw [lt_one_iff h, fsub_ffloor_exact h.wf hb]; exact Nat.mod_lt _ (unit_pos f)
    have hd1 : 1 ≤ RoundNE.ival f (deltaOf f bits) := by
      rw [← ival_one_pattern h.wf]; exact ival_mono f (deltaOf_pos f bits)
    obtain ⟨x, hx⟩ := fracLoop_total cf h hr hr36 hrp halfSize _ _ [] (Nat.le_of_lt hfr) (Nat.lt_trans hgt hfr) (by
      calc unit f = 2 ^ L f := unit_eq f
        _ ≤ 2 ^ halfSize := Nat.pow_le_pow_right (by decide) hL
        _ ≤ RoundNE.ival f (deltaOf f bits) * 2 ^ halfSize := Nat.le_mul_of_pos_left _ hd1)
    rw [hx]
    exact ⟨_, rfl⟩
  · exact ⟨_, rfl⟩

end LexVerif.Proof.WriteRadixTerm
