import LexVerif.Proof.ParseNumberDebugApi
import LexVerif.Proof.SepLocal4
/-!
# Proof.ParseNumberDebugBridge — the debug-assertion build against the release build of the same configuration

`rel c` is `c` with `debug := false`. `peek`, `increment_count`, `current_count` and every format getter do not look at
`Cfg.debug`; only `step_unchecked` / `step_by` do. The first pass (`parse_digits`) steps over digit bytes only and
`skip_zeros` over `'0'` only — never the digit separator — so in both loops the debug build returns what the release
build returns. This transfers the trace / re-scan facts of `Proof/Sep*.lean` (release build) to the debug build.
-/
namespace LexVerif.Proof.PNDebug
open LexVerif LexVerif.Model LexVerif.Spec
open LexVerif.Props.C12 (Bytes.Valid incCount_spec peek_spec)
open LexVerif.Proof.PNTotal (Adv csum step_adv)

/-- the release build of the same configuration -/
def rel (c : Cfg) : Cfg := { c with debug := false }

variable {c : Cfg}

@[simp] theorem rel_debug (c : Cfg) : (rel c).debug = false := rfl
theorem incCount_rel (c : Cfg) (k : Comp) (b : Bytes) : Bytes.incCount (rel c) k b = Bytes.incCount c k b := rfl
theorem iterCount_rel (c : Cfg) (k : Comp) (b : Bytes) : Bytes.iterCount (rel c) k b = Bytes.iterCount c k b := rfl
theorem isSep_rel (c : Cfg) (x : Nat) : (rel c).isSep x = c.isSep x := rfl
theorem isDigit_rel (c : Cfg) (x : Nat) : (rel c).isDigit x = c.isDigit x := rfl
theorem skip_rel (c : Cfg) (k : Comp) : (rel c).skip k = c.skip k := rfl
theorem prevcByte_rel (c : Cfg) (s : List Nat) (i : Nat) : prevcByte (rel c) s i = prevcByte c s i := by
  induction i with
  | zero => rfl
  | succ n ih => simp only [prevcByte]; rw [ih]; rfl
theorem firstNonSep_rel (c : Cfg) (s : List Nat) : firstNonSep (rel c) s = firstNonSep c s := by
  induction s with
  | nil => rfl
  | cons x xs ih => simp only [firstNonSep]; rw [ih]; rfl
theorem countSeps_rel (c : Cfg) (s : List Nat) : countSeps (rel c) s = countSeps c s := by
  induction s with
  | nil => rfl
  | cons x xs ih => simp only [countSeps]; rw [ih]; rfl
theorem holds_rel (c : Cfg) (p : Pred) (n : Nbr) (f : Bool) : p.holds (rel c) n f = p.holds c n f := by cases p <;> rfl
theorem nbr_rel (c : Cfg) (s : List Nat) (i : Nat) : nbr (rel c) s i = nbr c s i := by
  simp only [nbr, nextcByte, prevcByte_rel, firstNonSep_rel]
theorem peekPred_rel (c : Cfg) (p : Pred) (cnt : Nat) (b : Bytes) : peekPred (rel c) p cnt b = peekPred c p cnt b := by
  simp only [peekPred, nbr_rel, holds_rel, countSeps_rel, isSep_rel]
/-- `peek` does not look at `Cfg.debug` -/
theorem peek_rel (c : Cfg) (k : Comp) (b : Bytes) : peek (rel c) k b = peek c k b := by
  simp only [peek, peekPred_rel, skip_rel, iterCount_rel]
theorem iterContiguous_rel (c : Cfg) (k : Comp) : (rel c).iterContiguous k = c.iterContiguous k := rfl
theorem mantissaRadix_rel (c : Cfg) : (rel c).mantissaRadix = c.mantissaRadix := rfl

theorem iterStep_rel (c : Cfg) (k : Comp) (b : Bytes) : iterStep (rel c) k b = .ok { b with index := b.index + 1 } := by
  simp [iterStep, LexVerif.Props.C12.stepUnchecked_release (rel c) _ b rfl]

/-- `parse_digits`: the debug build returns what the release build returns (it steps over digits only) -/
theorem parseDigitsLoop_rel (cx : Ctx c) (k : Comp) (radix : Nat) (hsd : ¬ IsDig radix c.fmt.digitSeparator) :
    ∀ (fuel : Nat) (b : Bytes), Bytes.Valid b →
      parseDigitsLoop c k radix fuel b = parseDigitsLoop (rel c) k radix fuel b := by
  intro fuel
  induction fuel with
  | zero => intro b _; rfl
  | succ n ih =>
    intro b hb
    obtain ⟨x, b1, hp, ha, hx, _⟩ := peek_gen cx k b hb
    rw [parseDigitsLoop.eq_2, parseDigitsLoop.eq_2, peek_rel, hp]
    simp only [bind, Except.bind]
    cases x with
    | none => rfl
    | some ch =>
      simp only
      cases hd : charToDigit ch radix with
      | none => rfl
      | some d =>
        simp only
        have hxs : b1.slc[b1.index]? = some ch := hx.symm
        have hlt := get_lt hxs
        rw [iterStep_ok k b1 hlt (Or.inr (ne_sep_of_dig hsd hxs (charToDigit_some hd))), iterStep_rel]
        simp only
        rw [ih _ (adv_step_inc k ha hlt).valid']
        rfl

theorem parseDigits_rel (cx : Ctx c) (k : Comp) (radix : Nat) (hsd : ¬ IsDig radix c.fmt.digitSeparator) (b : Bytes)
    (hb : Bytes.Valid b) : parseDigits c k radix b = parseDigits (rel c) k radix b :=
  parseDigitsLoop_rel cx k radix hsd _ b hb

/-- `skip_zeros`: the debug build returns what the release build returns (it steps over `'0'` only) -/
theorem skipZerosLoop_rel (cx : Ctx c) (k : Comp) :
    ∀ (fuel : Nat) (b : Bytes), Bytes.Valid b → skipZerosLoop c k fuel b = skipZerosLoop (rel c) k fuel b := by
  intro fuel
  induction fuel with
  | zero => intro b _; rfl
  | succ n ih =>
    intro b hb
    obtain ⟨x, b1, hp, ha, hx, _⟩ := peek_gen cx k b hb
    rw [skipZerosLoop.eq_2, skipZerosLoop.eq_2]
    unfold readIfValueCased
    rw [peek_rel, hp]
    simp only [bind, Except.bind]
    by_cases h48 : x = some 48
    · subst h48
      have hxs : b1.slc[b1.index]? = some 48 := hx.symm
      have hlt := get_lt hxs
      simp only [beq_self_eq_true, if_true]
      rw [iterStep_ok k b1 hlt (Or.inr (by rw [hxs]; intro he; exact zero_ne_sep cx (Option.some.inj he))),
        iterStep_rel]
      simp only [pure, Except.pure, if_true]
      exact ih _ (adv_step_inc k ha hlt).valid'
    · have : (x == some 48) = false := by simpa using h48
      simp only [this, Bool.false_eq_true, if_false, pure, Except.pure]

end LexVerif.Proof.PNDebug
