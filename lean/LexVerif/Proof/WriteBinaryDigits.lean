import LexVerif.Proof.Numeral
import LexVerif.Model.WriteBinary
/-!
# Proof.WriteBinaryDigits — list facts used by `writeBinary_exact`: zeros in front of / behind a digit string,
trailing-zero trimming, the digit count of a number with a known bit length in radix `2^bpd`.
-/
namespace LexVerif.Proof.WriteBinaryDigits
open LexVerif.Spec LexVerif.Model.WriteBinary

theorem ofDigits_replicate_zero (r k : Nat) : ofDigits r (List.replicate k 0) = 0 := by
  induction k with
  | zero => rfl
  | succ k ih => rw [List.replicate_succ', ofDigits_snoc, ih]; simp

theorem ofDigits_zeros_append (r k : Nat) (ds : List Nat) : ofDigits r (List.replicate k 0 ++ ds) = ofDigits r ds := by
  rw [ofDigits_append, ofDigits_replicate_zero]; rfl

theorem ofDigits_append_zeros (r : Nat) (ds : List Nat) (k : Nat) :
    ofDigits r (ds ++ List.replicate k 0) = ofDigits r ds * r ^ k := by
  induction k with
  | zero => simp
  | succ k ih =>
    rw [List.replicate_succ', ← List.append_assoc, ofDigits_snoc, ih, Nat.pow_succ, Nat.mul_assoc]; simp

/-- zeros in front and behind: the value is the core's value shifted -/
theorem ofDigits_shape (r a j : Nat) (tr : List Nat) :
    ofDigits r (List.replicate a 0 ++ tr ++ List.replicate j 0) = ofDigits r tr * r ^ j := by
  rw [ofDigits_append_zeros, ofDigits_zeros_append]

theorem takeWhile_all {p : Nat → Bool} : ∀ (l : List Nat) (x : Nat), x ∈ l.takeWhile p → p x = true
  | [], _, h => by simp at h
  | a :: l, x, h => by
    simp only [List.takeWhile] at h
    split at h
    · rcases List.mem_cons.mp h with h | h
      · subst h; assumption
      · exact takeWhile_all l x h
    · simp at h

/-- trimming: the string is the trimmed string followed by zeros -/
theorem rtrimZeros_spec (ds : List Nat) :
    ∃ k, ds = rtrimZeros ds ++ List.replicate k 0 ∧ k + (rtrimZeros ds).length = ds.length := by
  unfold rtrimZeros
  have h := List.takeWhile_append_dropWhile (p := (· = 0)) (l := ds.reverse)
  have hz : ∀ x ∈ ds.reverse.takeWhile (· = 0), x = 0 := by
    intro x hx
    have := takeWhile_all _ _ hx
    simpa using this
  have hrep : ds.reverse.takeWhile (· = 0) = List.replicate (ds.reverse.takeWhile (· = 0)).length 0 :=
    List.eq_replicate_iff.mpr ⟨rfl, hz⟩
  refine ⟨(ds.reverse.takeWhile (· = 0)).length, ?_, ?_⟩
  · have : ds = (ds.reverse.dropWhile (· = 0)).reverse ++ (ds.reverse.takeWhile (· = 0)).reverse := by
      rw [← List.reverse_append, h, List.reverse_reverse]
    rw [hrep, List.reverse_replicate] at this
    exact this
  · have := congrArg List.length h
    simp only [List.length_append, List.length_reverse] at this ⊢
    omega

theorem rtrimZeros_cons_ne_zero (d : Nat) (t : List Nat) (hd : d ≠ 0) : rtrimZeros (d :: t) = d :: rtrimZeros t := by
  unfold rtrimZeros
  rw [List.reverse_cons, List.dropWhile_append]
  by_cases h : (t.reverse.dropWhile (· = 0)).isEmpty = true
  · rw [if_pos h]
    have : t.reverse.dropWhile (· = 0) = [] := List.isEmpty_iff.mp h
    rw [this]
    simp [List.dropWhile, hd]
  · rw [if_neg h, List.reverse_append]; simp

/-- the number of radix-`2^bpd` digits of a number with bit length `L` -/
theorem toDigits_length_pow2 (bpd v L : Nat) (hb : 1 ≤ bpd) (hL : 1 ≤ L) (h1 : 2 ^ (L - 1) ≤ v) (h2 : v < 2 ^ L) :
    (toDigits (2 ^ bpd) v).length = (L - 1) / bpd + 1 := by
  have hr : 2 ≤ 2 ^ bpd := by
    calc 2 = 2 ^ 1 := rfl
      _ ≤ 2 ^ bpd := Nat.pow_le_pow_right (by decide) hb
  apply toDigits_length_eq _ _ _ hr (Nat.le_add_left 1 _)
  · rw [← Nat.pow_mul]
    apply Nat.lt_of_lt_of_le h2
    apply Nat.pow_le_pow_right (by decide)
    have := Nat.div_add_mod (L - 1) bpd
    have := Nat.mod_lt (L - 1) (by omega : 0 < bpd)
    rw [Nat.mul_add, Nat.mul_one]; omega
  · right
    rw [Nat.add_sub_cancel, ← Nat.pow_mul]
    apply Nat.le_trans _ h1
    apply Nat.pow_le_pow_right (by decide)
    exact Nat.mul_div_le (L - 1) bpd

theorem toDigits_head_pos (r v : Nat) (hr : 2 ≤ r) (hv : 0 < v) :
    ∃ d t, toDigits r v = d :: t ∧ d ≠ 0 := by
  have hne := toDigits_ne_nil r v hr
  have hh := toDigits_head_ne_zero r v hr (by omega)
  cases hds : toDigits r v with
  | nil => exact absurd hds hne
  | cons d t =>
    refine ⟨d, t, rfl, ?_⟩
    rw [hds] at hh
    simpa using hh

end LexVerif.Proof.WriteBinaryDigits
