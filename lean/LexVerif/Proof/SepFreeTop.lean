import LexVerif.Proof.SepFreeNumber
/-!
# Proof.SepFreeTop — `parse_complete` / `parse_partial` up to the `Number` on separator-free input
-/
set_option linter.unusedSimpArgs false
namespace LexVerif.Proof.Sep
open LexVerif LexVerif.Model LexVerif.Spec
open LexVerif.Props.C12

theorem parseSign_same (c c' : Cfg) (hd : c.debug = false) (hd' : c'.debug = false) (np rq : Bool) (ip ms : String)
    (b : Bytes) : parseSign c' np rq ip ms b = parseSign c np rq ip ms b := by
  unfold parseSign
  simp only [step_release c hd, step_release c' hd']

theorem parseSign_slc (c : Cfg) (hd : c.debug = false) (np rq : Bool) (ip ms : String) (b b' : Bytes) (neg : Bool)
    (h : parseSign c np rq ip ms b = .ok (neg, b')) : b'.slc = b.slc := by
  unfold parseSign at h
  simp only [step_release c hd, bind, Except.bind, pure, Except.pure] at h
  split at h
  · split at h
    · simp only [Except.ok.injEq, Prod.mk.injEq] at h; rw [← h.2]
    · cases h
  · simp only [Except.ok.injEq, Prod.mk.injEq] at h; rw [← h.2]
  · split at h
    · cases h
    · simp only [Except.ok.injEq, Prod.mk.injEq] at h; rw [← h.2]

theorem iterNext_special (c : Cfg) (b : Bytes) (hn : NoSep c b.slc) (hk : c.skip .special ≠ .unreachable) :
    iterNext c .special b = .ok (match b.slc[b.index]? with
      | none => (none, b)
      | some x => (some x, { b with index := b.index + 1 })) := by
  unfold iterNext
  rw [peek_nosep c .special b hn hk]
  simp only [bind, Except.bind]
  cases b.slc[b.index]? with
  | none => rfl
  | some x =>
    simp only [Bytes.incCount, pure, Except.pure]
    split <;> (try split) <;> rfl

theorem startsWith_same (c c' : Cfg) (hk : c.skip .special ≠ .unreachable) (hk' : c'.skip .special ≠ .unreachable) :
    ∀ (l : List Nat) (b : Bytes), NoSep c b.slc → NoSep c' b.slc →
      startsWith c' l b = startsWith c l b ∧ ∀ hit b', startsWith c l b = .ok (hit, b') → b'.slc = b.slc := by
  intro l
  induction l with
  | nil =>
    intro b _ _
    refine ⟨rfl, ?_⟩
    intro hit b' h
    simp only [startsWith, pure, Except.pure, Except.ok.injEq, Prod.mk.injEq] at h
    rw [← h.2]
  | cons y ys ih =>
    intro b hn hn'
    simp only [startsWith, iterNext_special c b hn hk, iterNext_special c' b hn' hk', bind, Except.bind]
    cases hv : b.slc[b.index]? with
    | none =>
      simp only [reduceCtorEq, if_false, pure, Except.pure, true_and, Except.ok.injEq, Prod.mk.injEq]
      intro hit b' h; rw [← h.2]
    | some x =>
      simp only
      split
      · exact ih { b with index := b.index + 1 } hn hn'
      · simp only [pure, Except.pure, true_and, Except.ok.injEq, Prod.mk.injEq]
        intro hit b' h; rw [← h.2]

theorem startsWithUncased_same (c c' : Cfg) (hk : c.skip .special ≠ .unreachable) (hk' : c'.skip .special ≠ .unreachable) :
    ∀ (l : List Nat) (b : Bytes), NoSep c b.slc → NoSep c' b.slc →
      Model.startsWithUncased c' l b = Model.startsWithUncased c l b ∧
        ∀ hit b', Model.startsWithUncased c l b = .ok (hit, b') → b'.slc = b.slc := by
  intro l
  induction l with
  | nil =>
    intro b _ _
    refine ⟨rfl, ?_⟩
    intro hit b' h
    simp only [Model.startsWithUncased, pure, Except.pure, Except.ok.injEq, Prod.mk.injEq] at h
    rw [← h.2]
  | cons y ys ih =>
    intro b hn hn'
    simp only [Model.startsWithUncased, iterNext_special c b hn hk, iterNext_special c' b hn' hk', bind, Except.bind]
    cases hv : b.slc[b.index]? with
    | none =>
      simp only [pure, Except.pure, true_and, Except.ok.injEq, Prod.mk.injEq]
      intro hit b' h; rw [← h.2]
    | some x =>
      simp only
      split
      · simp only [pure, Except.pure, true_and, Except.ok.injEq, Prod.mk.injEq]
        intro hit b' h; rw [← h.2]
      · exact ih { b with index := b.index + 1 } hn hn'

theorem isSpecialEq_same (c c' : Cfg) (hS : RelClass c) (hP : PlainClass c') (hC : Counterpart c c') (b : Bytes)
    (hn : NoSep c b.slc) (l : List Nat) : isSpecialEq c' b l = isSpecialEq c b l := by
  unfold isSpecialEq
  rw [hC.feats, hC.caseSensitiveSpecial]
  have h1 := startsWith_same c c' (hS.reach _) (hP.reach _) l b hn (hP.noSep _)
  have h2 := startsWithUncased_same c c' (hS.reach _) (hP.reach _) l b hn (hP.noSep _)
  rw [h1.1, h2.1]
  have fin : ∀ (x : Except Err (Bool × Bytes)), (∀ hit b', x = .ok (hit, b') → b'.slc = b.slc) →
      (x >>= fun r => if r.1 = true then (peek c' .special r.2 >>= fun v => pure v.2.index) else pure 0) =
      (x >>= fun r => if r.1 = true then (peek c .special r.2 >>= fun v => pure v.2.index) else pure 0) := by
    intro x hx
    cases x with
    | error e => rfl
    | ok r =>
      obtain ⟨hit, b1⟩ := r
      have hs : b1.slc = b.slc := hx hit b1 rfl
      simp only [bind, Except.bind]
      cases hit
      · rfl
      · simp only [if_true]
        rw [peek_nosep c .special b1 (by rw [hs]; exact hn) (hS.reach _),
          peek_nosep c' .special b1 (hP.noSep _) (hP.reach _)]
  by_cases hcs : (c.feats.format && c.caseSensitiveSpecial) = true
  · simp only [hcs, if_true]
    exact fin _ h1.2
  · simp only [hcs, Bool.false_eq_true, if_false]
    exact fin _ h2.2

theorem parsePositiveSpecial_same (c c' : Cfg) (hS : RelClass c) (hP : PlainClass c') (hC : Counterpart c c')
    (o : POpts) (b : Bytes) (hn : NoSep c b.slc) : parsePositiveSpecial c' o b = parsePositiveSpecial c o b := by
  unfold parsePositiveSpecial
  simp only [hC.feats, hC.noSpecial, isSpecialEq_same c c' hS hP hC b hn]

theorem parseSpecialComplete_same (c c' : Cfg) (hS : RelClass c) (hP : PlainClass c') (hC : Counterpart c c')
    (o : POpts) (b : Bytes) (hn : NoSep c b.slc) : parseSpecialComplete c' o b = parseSpecialComplete c o b := by
  unfold parseSpecialComplete
  rw [parsePositiveSpecial_same c c' hS hP hC o b hn]

theorem isConsumed_same (c c' : Cfg) (hS : RelClass c) (hP : PlainClass c') (hC : Counterpart c c') (k : Comp)
    (b : Bytes) (hn : NoSep c b.slc) : isConsumed c' k b = isConsumed c k b := by
  unfold isConsumed
  rw [hC.feats, peek_nosep c k b hn (hS.reach _), peek_nosep c' k b (hP.noSep _) (hP.reach _)]

theorem isConsumed_slc (c : Cfg) (k : Comp) (b b' : Bytes) (r : Bool) (hn : NoSep c b.slc) (hk : c.skip k ≠ .unreachable)
    (h : isConsumed c k b = .ok (r, b')) : b' = b := by
  unfold isConsumed at h
  rw [peek_nosep c k b hn hk] at h
  split at h
  · simp only [Except.ok.injEq, Prod.mk.injEq] at h; exact h.2.symm
  · simp only [bind, Except.bind, pure, Except.pure, Except.ok.injEq, Prod.mk.injEq] at h; exact h.2.symm

/-- `parse_complete` / `parse_partial` up to the `Number` -/
theorem parseFloatSyntax_same (c c' : Cfg) (hS : RelClass c) (hP : PlainClass c') (hC : Counterpart c c')
    (o : POpts) (isPartial : Bool) (input : List Nat) (fv : Bool) (hn : NoSep c input) :
    parseFloatSyntax c' o isPartial input fv = parseFloatSyntax c o isPartial input fv := by
  unfold parseFloatSyntax parseMantissaSign
  simp only [hC.noPositiveMantissaSign, hC.requiredMantissaSign, parseSign_same c c' hS.debug hP.debug]
  cases hsg : parseSign c c.noPositiveMantissaSign c.requiredMantissaSign "InvalidPositiveSign" "MissingSign"
      (Bytes.new input) with
  | error e => rfl
  | ok r =>
    obtain ⟨neg, b1⟩ := r
    have hs1 : b1.slc = input := parseSign_slc c hS.debug _ _ _ _ _ _ _ hsg
    have hn1 : NoSep c b1.slc := by rw [hs1]; exact hn
    simp only [bind, Except.bind]
    rw [isConsumed_same c c' hS hP hC .integer b1 hn1]
    cases hco : isConsumed c .integer b1 with
    | error e => rfl
    | ok r2 =>
      obtain ⟨consumed, b2⟩ := r2
      have hb2 : b2 = b1 := isConsumed_slc c .integer b1 b2 consumed hn1 (hS.reach _) hco
      subst hb2
      simp only [hC.requiredIntegerDigits, hC.requiredMantissaDigits, parseCompleteNumber,
        ← parseNumber_same c c' hS hP hC _ o b2 neg fv hn1,
        parsePositiveSpecial_same c c' hS hP hC o b2 hn1, parseSpecialComplete_same c c' hS hP hC o b2 hn1]

end LexVerif.Proof.Sep
