import LexVerif.Proof.WriteRadixMid
import Mathlib.Tactic.Ring
import Mathlib.Tactic.Linarith
/-!
# Proof.WriteRadixBig — the ulp clause for floats `x ≥ 2^p` (zero padding)

Such a float is an integer multiple of 2; `write_float` has no fraction digits and the integer loops are the only source
of error: every zero-padding step `integer /= base` rounds (relative error `≤ 2^-p`), the first digit step rounds
twice, everything after that is exact.
-/
namespace LexVerif.Proof.WriteRadixBig
open LexVerif.Spec LexVerif.Model LexVerif.Proof.RoundNE LexVerif.Proof.WriteRadixF LexVerif.Proof.WriteRadixTerm
open LexVerif.Proof.WriteRadixWF LexVerif.Proof.WriteRadixInteger LexVerif.Proof.WriteRadixError
open LexVerif.Proof.WriteRadixFrac LexVerif.Proof.WriteRadixTermInt LexVerif.Proof.WriteRadixRound
open LexVerif.Proof.WriteRadixMid
open LexVerif.Model.WriteRadix
open LexVerif.Model.WriteInt (Res)

/-! ## the error of one rounding, relative to the spacing at the result -/

theorem step_pred_le (f : Fmt) {c : Nat} (hc : c ≠ 0) :
    RoundNE.ival f c ≤ RoundNE.ival f (c - 1) + 2 ^ (c / 2 ^ (f.p - 1) - 1) := by
  have e := ival_step f (c - 1)
  rw [Nat.sub_add_cancel (by omega)] at e
  rw [e]
  apply Nat.add_le_add_left
  apply Nat.pow_le_pow_right (by decide)
  exact Nat.sub_le_sub_right (Nat.div_le_div_right (Nat.sub_le c 1)) 1

/-- `|c − N/D| ≤ half the spacing above c` (cross-multiplied, in units of `2^-L`) -/
theorem round_err {f : Fmt} (hf : WF f) (N : Nat) {D : Nat} (hD : 0 < D) (hfin : roundNE f N D < f.infBits) :
    2 * (N * 2 ^ L f) ≤ D * (2 * RoundNE.ival f (roundNE f N D) + 2 ^ (roundNE f N D / 2 ^ (f.p - 1) - 1)) ∧
    D * (2 * RoundNE.ival f (roundNE f N D)) ≤ 2 * (N * 2 ^ L f) + D * 2 ^ (roundNE f N D / 2 ^ (f.p - 1) - 1) := by
  have cell := inCell_roundNE hf N (Nat.ne_of_gt hD)
  generalize roundNE f N D = c at *
  constructor
  · have up := cell.upper hfin
    rw [ival_step] at up
    calc 2 * (N * 2 ^ L f) ≤ D * (RoundNE.ival f c + (RoundNE.ival f c + 2 ^ (c / 2 ^ (f.p - 1) - 1))) := up
      _ = _ := by ring
  · by_cases h0 : c = 0
    · subst h0; rw [ival_zero]; simp
    · have lo := cell.lower h0
      have hs := step_pred_le f h0
      have : D * (2 * RoundNE.ival f c) ≤ D * (RoundNE.ival f (c - 1) + RoundNE.ival f c) + D * 2 ^ (c / 2 ^ (f.p - 1) - 1) := by
        rw [← Nat.mul_add]; exact Nat.mul_le_mul_left _ (by omega)
      omega

/-- a normal pattern's value is at least `2^(p-1)` spacings -/
theorem T_step_le (f : Fmt) {c : Nat} (hc : 2 ^ (f.p - 1) ≤ c) :
    2 ^ (f.p - 1) * 2 ^ (c / 2 ^ (f.p - 1) - 1) ≤ RoundNE.ival f c := by
  have hT := Nat.two_pow_pos (f.p - 1)
  have h1 : 1 ≤ c / 2 ^ (f.p - 1) := (Nat.le_div_iff_mul_le hT).mpr (by omega)
  have := ival_sub_le f c 0 (Nat.zero_le _) (Nat.zero_le _)
  -- use the decomposition
  obtain ⟨k, q, rfl, hk1, hk2⟩ := decomp f c
  have hk : (k * 2 ^ (f.p - 1) + q) / 2 ^ (f.p - 1) - 1 = k := by
    by_cases hk0 : k = 0
    · subst hk0
      have : (0 * 2 ^ (f.p - 1) + q) / 2 ^ (f.p - 1) ≤ 1 := by
        apply Nat.le_of_lt_succ; rw [Nat.div_lt_iff_lt_mul hT]; omega
      omega
    · have hq := hk1 (by omega)
      have : (k * 2 ^ (f.p - 1) + q) / 2 ^ (f.p - 1) = k + 1 :=
        Nat.div_eq_of_lt_le (by rw [Nat.succ_mul]; omega) (by rw [Nat.succ_mul, Nat.succ_mul]; omega)
      omega
  rw [hk, ival_kq f k q hk1 (by omega)]
  apply Nat.mul_le_mul_right
  by_cases hk0 : k = 0
  · subst hk0; omega
  · exact hk1 (by omega)

/-- **one zero-padding step**: `integer / base` rounded is within a factor `1 ± 1/2^p` of the exact quotient -/
theorem fdiv_ratio {f : Fmt} (h : FOK f) {r : Nat} (hr0 : 0 < r) (hrp : r < 2 * 2 ^ (f.p - 1)) {y : Nat}
    (hc : 2 ^ (f.p - 1) ≤ fdiv f y (ofNat f r)) (hfin : fdiv f y (ofNat f r) < f.infBits) :
    (2 * 2 ^ (f.p - 1) - 1) * (r * RoundNE.ival f (fdiv f y (ofNat f r))) ≤ 2 * 2 ^ (f.p - 1) * RoundNE.ival f y ∧
    2 * 2 ^ (f.p - 1) * RoundNE.ival f y ≤ (2 * 2 ^ (f.p - 1) + 1) * (r * RoundNE.ival f (fdiv f y (ofNat f r))) := by
  have hu := unit_pos f
  have hT := Nat.two_pow_pos (f.p - 1)
  obtain ⟨hrv, _⟩ := ofNat_ival h hrp
  have hfd : fdiv f y (ofNat f r) = roundNE f (RoundNE.ival f y) (r * unit f) := by
    unfold fdiv; simp only [ival_eq]; rw [hrv]
  rw [hfd] at hc hfin ⊢
  obtain ⟨e1, e2⟩ := round_err h.wf (RoundNE.ival f y) (Nat.mul_pos hr0 hu) hfin
  have hs := T_step_le f hc
  generalize roundNE f (RoundNE.ival f y) (r * unit f) = c at *
  generalize RoundNE.ival f c = C at *
  generalize 2 ^ (c / 2 ^ (f.p - 1) - 1) = s at *
  generalize RoundNE.ival f y = Y at *
  rw [← unit_eq] at e1 e2
  generalize 2 ^ (f.p - 1) = T at *
  have e1' : 2 * Y ≤ r * (2 * C + s) := by
    have : unit f * (2 * Y) ≤ unit f * (r * (2 * C + s)) := by
      calc unit f * (2 * Y) = 2 * (Y * unit f) := by ring
        _ ≤ r * unit f * (2 * C + s) := e1
        _ = unit f * (r * (2 * C + s)) := by ring
    exact Nat.le_of_mul_le_mul_left this hu
  have e2' : r * (2 * C) ≤ 2 * Y + r * s := by
    have : unit f * (r * (2 * C)) ≤ unit f * (2 * Y + r * s) := by
      calc unit f * (r * (2 * C)) = r * unit f * (2 * C) := by ring
        _ ≤ 2 * (Y * unit f) + r * unit f * s := e2
        _ = unit f * (2 * Y + r * s) := by ring
    exact Nat.le_of_mul_le_mul_left this hu
  have hrs : r * (T * s) ≤ r * C := Nat.mul_le_mul_left _ hs
  constructor
  · have : (2 * T - 1) * (r * C) + r * C = 2 * T * (r * C) := by
      have : 1 ≤ 2 * T := by omega
      calc (2 * T - 1) * (r * C) + r * C = (2 * T - 1 + 1) * (r * C) := by ring
        _ = 2 * T * (r * C) := by rw [Nat.sub_add_cancel this]
    nlinarith
  · nlinarith

/-! ## the invariant of the zero-padding loop (pure arithmetic) -/

theorem up_step {a a' iv m j : Nat} (h1 : (m + 1) * a ≤ (m + j + 1) * iv) (h2 : (m + j) * a' ≤ (m + j + 1) * a) :
    m * a' ≤ (m + j + 1) * iv := by
  have hpos : 0 < m + j + 1 := by omega
  apply Nat.le_of_mul_le_mul_left _ hpos
  have k1 : (m + j + 1) * (m * a') ≤ (m + 1) * ((m + j) * a') := by nlinarith
  have k2 : (m + 1) * ((m + j) * a') ≤ (m + 1) * ((m + j + 1) * a) := Nat.mul_le_mul_left _ h2
  have k3 : (m + 1) * ((m + j + 1) * a) = (m + j + 1) * ((m + 1) * a) := by ring
  have k4 : (m + j + 1) * ((m + 1) * a) ≤ (m + j + 1) * ((m + j + 1) * iv) := Nat.mul_le_mul_left _ h1
  omega

theorem lo_step {a a' iv m j : Nat} (h1 : (m + 2) * iv ≤ (m + j + 2) * a) (h2 : (m + j + 1) * a ≤ (m + j + 2) * a') :
    (m + 1) * iv ≤ (m + j + 2) * a' := by
  have hpos : 0 < m + j + 2 := by omega
  apply Nat.le_of_mul_le_mul_left _ hpos
  have k1 : (m + j + 2) * ((m + 1) * iv) ≤ (m + j + 1) * ((m + 2) * iv) := by nlinarith
  have k2 : (m + j + 1) * ((m + 2) * iv) ≤ (m + j + 1) * ((m + j + 2) * a) := Nat.mul_le_mul_left _ h1
  have k3 : (m + j + 1) * ((m + j + 2) * a) = (m + j + 2) * ((m + j + 1) * a) := by ring
  have k4 : (m + j + 2) * ((m + j + 1) * a) ≤ (m + j + 2) * ((m + j + 2) * a') := Nat.mul_le_mul_left _ h2
  omega

/-- from the multiplicative invariant to an additive bound in ulps (`K` = ulp of the input, `iv < 2^p · K`) -/
theorem add_bounds {a iv K m z : Nat} (h1 : m * a ≤ (m + z) * iv) (h2 : (m + 1) * iv ≤ (m + z + 1) * a)
    (hK : iv < (m + z) * K) (hz : z * z + z ≤ m + z) (hm : 0 < m) :
    a ≤ iv + (z + 1) * K ∧ iv ≤ a + z * K := by
  constructor
  · apply Nat.le_of_mul_le_mul_left _ hm
    have : z * iv ≤ z * ((m + z) * K) := Nat.mul_le_mul_left _ (Nat.le_of_lt hK)
    nlinarith
  · apply Nat.le_of_mul_le_mul_left _ (show 0 < m + z + 1 by omega)
    have : z * iv ≤ z * ((m + z) * K) := Nat.mul_le_mul_left _ (Nat.le_of_lt hK)
    nlinarith

/-! ## the zero-padding loop -/

/-- invariant after `j` padding steps: `integer · r^j` is within a factor `(1 ± 1/2^p)^j` of the input `iv` -/
def PadInv (f : Fmt) (r iv j y : Nat) : Prop :=
  (2 * 2 ^ (f.p - 1) - j) * (RoundNE.ival f y * r ^ j) ≤ 2 * 2 ^ (f.p - 1) * iv ∧
  (2 * 2 ^ (f.p - 1) + 1 - j) * iv ≤ (2 * 2 ^ (f.p - 1) + 1) * (RoundNE.ival f y * r ^ j)

theorem replicate_cons_append (n a : Nat) (l : List Nat) :
    List.replicate n a ++ (a :: l) = List.replicate (n + 1) a ++ l := by
  rw [List.replicate_succ', List.append_assoc]; rfl

theorem padLoop_inv {f : Fmt} (h : FOK f) {r : Nat} (hr : 2 ≤ r) (hrp : r < 2 * 2 ^ (f.p - 1)) (iv : Nat) :
    ∀ (fuel y : Nat) (acc : List Nat) (j : Nat) (out : Nat × List Nat × Nat), PadInv f r iv j y →
      j + fuel < 2 * 2 ^ (f.p - 1) → y < f.infBits → padLoop f (ofNat f r) fuel y acc = .ok out →
      ∃ z, j ≤ z ∧ z ≤ j + fuel ∧ out.2.1 = List.replicate (z - j) 48 ++ acc ∧ PadInv f r iv z out.1 ∧
        exponent f (fdiv f out.1 (ofNat f r)) ≤ 0 ∧ out.1 < f.infBits ∧
        (j < z → (f.bias + f.p) * 2 ^ (f.p - 1) ≤ out.1) ∧ (j = z → out.1 = y) ∧ out.2.2 + (z - j) = fuel := by
  intro fuel
  induction fuel with
  | zero =>
    intro y acc j out hinv _ hy ho
    unfold padLoop at ho
    split at ho
    · simp at ho
    · rename_i hnp
      simp only [Res.ok.injEq] at ho; subst ho
      exact ⟨j, Nat.le_refl _, by omega, by simp, hinv, by dsimp only; omega, hy, fun h => absurd h (Nat.lt_irrefl _),
        fun _ => rfl, by simp⟩
  | succ fuel ih =>
    intro y acc j out hinv hj hy ho
    unfold padLoop at ho
    split at ho
    · rename_i hpos
      have hT := Nat.two_pow_pos (f.p - 1)
      have hge := le_of_exponent_pos h hpos
      obtain ⟨_, hb2⟩ := base_ge h hr hrp
      have hself := fdiv_le_self h.wf (b := ofNat f r) (Nat.le_of_lt hy) (by have := unit_pos f; omega)
      have hyT : 2 ^ (f.p - 1) ≤ fdiv f y (ofNat f r) := by
        have hp := h.wf.hp
        have : 1 * 2 ^ (f.p - 1) ≤ (f.bias + f.p) * 2 ^ (f.p - 1) := Nat.mul_le_mul_right _ (by omega)
        omega
      obtain ⟨r1, r2⟩ := fdiv_ratio h (by omega) hrp hyT (by omega)
      have hinv' : PadInv f r iv (j + 1) (fdiv f y (ofNat f r)) := by
        obtain ⟨i1, i2⟩ := hinv
        unfold PadInv
        generalize RoundNE.ival f (fdiv f y (ofNat f r)) = C at *
        generalize RoundNE.ival f y = Y at *
        obtain ⟨m, hm⟩ : ∃ m, 2 * 2 ^ (f.p - 1) = m + j + 1 := ⟨2 * 2 ^ (f.p - 1) - j - 1, by omega⟩
        rw [hm] at i1 i2 r1 r2 ⊢
        have e1 : m + j + 1 - j = m + 1 := by omega
        have e2 : m + j + 1 + 1 - j = m + 2 := by omega
        have e3 : m + j + 1 - 1 = m + j := by omega
        have e4 : m + j + 1 - (j + 1) = m := by omega
        have e5 : m + j + 1 + 1 - (j + 1) = m + 1 := by omega
        rw [e1] at i1; rw [e2] at i2; rw [e3] at r1; rw [e4, e5]
        have ea : C * r ^ (j + 1) = r * C * r ^ j := by rw [Nat.pow_succ]; ring
        rw [ea]
        have r1' : (m + j) * (r * C * r ^ j) ≤ (m + j + 1) * (Y * r ^ j) := by
          calc (m + j) * (r * C * r ^ j) = (m + j) * (r * C) * r ^ j := by ring
            _ ≤ (m + j + 1) * Y * r ^ j := Nat.mul_le_mul_right _ r1
            _ = _ := by ring
        have r2' : (m + j + 1) * (Y * r ^ j) ≤ (m + j + 2) * (r * C * r ^ j) := by
          calc (m + j + 1) * (Y * r ^ j) = (m + j + 1) * Y * r ^ j := by ring
            _ ≤ (m + j + 1 + 1) * (r * C) * r ^ j := Nat.mul_le_mul_right _ r2
            _ = _ := by ring
        exact ⟨up_step i1 r1', lo_step (by rw [show m + j + 2 = m + j + 1 + 1 by ring]; exact i2) r2'⟩
      obtain ⟨z, z1, z2, z3, z4, z5, z6, z7, z8, z9⟩ := ih (fdiv f y (ofNat f r)) (48 :: acc) (j + 1) out hinv' (by omega)
        (by omega) ho
      refine ⟨z, by omega, by omega, ?_, z4, z5, z6, fun _ => ?_, fun h => by omega, by omega⟩
      · rw [z3, replicate_cons_append]; congr 2; omega
      · by_cases hz : j + 1 < z
        · exact z7 hz
        · have : j + 1 = z := by omega
          rw [z8 this]; exact hge
    · rename_i hnp
      simp only [Res.ok.injEq] at ho; subst ho
      exact ⟨j, Nat.le_refl _, by omega, by simp, hinv, by dsimp only; omega, hy, fun h => absurd h (Nat.lt_irrefl _),
        fun _ => rfl, by simp⟩

/-! ## the digit loop below `2^p` (possibly non-integral quotient) -/

/-- patterns at or above that of `2^p` are even integers -/
theorem big_dvd {f : Fmt} (h : FOK f) {w : Nat} (hw : (f.bias + f.p) * 2 ^ (f.p - 1) ≤ w) :
    2 * unit f ∣ RoundNE.ival f w := by
  obtain ⟨k, q, rfl, h1, h2⟩ := decomp f w
  have hT := Nat.two_pow_pos (f.p - 1)
  have hp := h.wf.hp
  have hb := bias_pos h.wf
  have hk : L f + 1 ≤ k := by
    apply Nat.le_of_not_lt; intro hk
    have : k * 2 ^ (f.p - 1) ≤ L f * 2 ^ (f.p - 1) := Nat.mul_le_mul_right _ (by omega)
    have e : (f.bias + f.p) * 2 ^ (f.p - 1) = L f * 2 ^ (f.p - 1) + 2 * 2 ^ (f.p - 1) := by
      have : f.bias + f.p = L f + 2 := by unfold L; omega
      rw [this]; ring
    omega
  rw [ival_kq f k q h1 (by omega), unit_eq, show 2 * 2 ^ L f = 2 ^ (L f + 1) by rw [Nat.pow_succ]; ring]
  exact Nat.dvd_trans (Nat.pow_dvd_pow 2 hk) ⟨q, Nat.mul_comm _ _⟩

/-- the digit loop from any finite `y` below `2^p`: the digits of `⌊y⌋` -/
theorem digitLoop_small {f : Fmt} (h : FOK f) {r : Nat} (hr : 2 ≤ r) (hr36 : r ≤ 36) (hrp : r < 2 * 2 ^ (f.p - 1))
    {fuel y : Nat} (acc : List Nat) (hy : y < (f.bias + f.p) * 2 ^ (f.p - 1)) (hfuel : f.p ≤ fuel) :
    digitLoop f r (ofNat f r) (fuel + 1) y acc
      = .ok ((toDigits r (RoundNE.ival f y / unit f)).map digitChar ++ acc) := by
  have hu := unit_pos f
  have hr0 : 0 < r := by omega
  obtain ⟨hrv, hrf⟩ := ofNat_ival h hrp
  have hb0 : RoundNE.ival f (ofNat f r) ≠ 0 := by rw [hrv]; exact Nat.ne_of_gt (Nat.mul_pos hr0 hu)
  have hY : RoundNE.ival f y < 2 * 2 ^ (f.p - 1) * unit f := by
    rw [← ival_two_pow_p h]; exact ival_strictMono f hy
  have hI : RoundNE.ival f y / unit f < 2 * 2 ^ (f.p - 1) := (Nat.div_lt_iff_lt_mul hu).mpr hY
  obtain ⟨hremv, _⟩ := fmod_exact h.wf y hrf hb0
  rw [hrv] at hremv
  generalize hYd : RoundNE.ival f y = Y at *
  have hdig : asU32 f (fmod f y (ofNat f r)) = Y / unit f % r := by
    unfold asU32
    rw [ival_eq, hremv, Nat.mul_comm r, Nat.mod_mul_right_div_self]
    have := Nat.mod_lt (Y / unit f) hr0
    omega
  have hm : Y / (r * unit f) = Y / unit f / r := by rw [Nat.mul_comm, Nat.div_div_eq_div_mul]
  have hmr : r * (Y / unit f / r) < 2 * 2 ^ (f.p - 1) :=
    Nat.lt_of_le_of_lt (Nat.mul_div_le _ _) hI
  have hsub : fsub f y (fmod f y (ofNat f r)) = ofNat f (r * (Y / unit f / r)) := by
    obtain ⟨hv, hfin⟩ := ofNat_ival h hmr
    unfold fsub
    simp only [ival_eq]
    rw [hYd, hremv, unit_eq]
    apply roundNE_of_ival h.wf hfin (Nat.two_pow_pos _)
    rw [hv, ← unit_eq, ← hm]
    have := Nat.div_add_mod Y (r * unit f)
    have e : Y - Y % (r * unit f) = r * unit f * (Y / (r * unit f)) := by omega
    rw [e]; ring
  have hq : fdiv f (ofNat f (r * (Y / unit f / r))) (ofNat f r) = ofNat f (Y / unit f / r) := by
    rw [fdiv_ofNat h hmr hrp hr0 ⟨_, rfl⟩, Nat.mul_div_cancel_left _ hr0]
  have hml : Y / unit f / r < 2 * 2 ^ (f.p - 1) := Nat.lt_of_le_of_lt (Nat.div_le_self _ _) hI
  have hdlt : Y / unit f % r < r := Nat.mod_lt _ hr0
  unfold digitLoop
  simp only [hsub, hq, hdig, ofNat_eq_zero h hml, digitToCharConst_eq hdlt hr36]
  by_cases hm0 : Y / unit f / r = 0
  · rw [if_pos hm0]
    have hlt : Y / unit f < r := by
      apply Nat.lt_of_not_le; intro hge
      have := Nat.div_pos hge hr0; omega
    rw [toDigits_lt r _ hlt, Nat.mod_eq_of_lt hlt]; rfl
  · rw [if_neg hm0]
    have hge : r ≤ Y / unit f := by
      apply Nat.le_of_not_lt; intro hlt
      exact hm0 (Nat.div_eq_of_lt hlt)
    have h2p : 2 * 2 ^ (f.p - 1) = 2 ^ f.p := by
      rw [show f.p = (f.p - 1) + 1 by have := h.wf.hp; omega, Nat.pow_succ]; simp; ring
    have hfl : Y / unit f / r < 2 ^ fuel :=
      Nat.lt_of_lt_of_le hml (by rw [h2p]; exact Nat.pow_le_pow_right (by decide) hfuel)
    rw [digitLoop_ofNat h hr hr36 hrp fuel _ _ (Nat.pos_of_ne_zero hm0) hml hfl, toDigits_step r _ hr hge]
    simp

/-! ## the first digit step from an integer `≥ 2^p` -/

theorem exponent_pos_of_ge {f : Fmt} (h : FOK f) {x : Nat} (hx : (f.bias + f.p) * 2 ^ (f.p - 1) ≤ x)
    (hfin : x < f.infBits) : 0 < exponent f x := by
  have hT := Nat.two_pow_pos (f.p - 1)
  have h1 := expField_lt hfin
  have h4 : f.expField x = x / 2 ^ (f.p - 1) := by
    unfold Fmt.expField
    apply Nat.mod_eq_of_lt
    unfold Fmt.maxExpField at h1
    generalize x / 2 ^ (f.p - 1) = y at *
    generalize 2 ^ f.ebits = z at *
    omega
  have h5 : f.bias + f.p ≤ x / 2 ^ (f.p - 1) := (Nat.le_div_iff_mul_le hT).mpr hx
  unfold exponent
  rw [h4]
  have hp := h.wf.hp
  rw [if_neg (by omega)]
  omega

/-- the spacing exponent is monotone and at most `L` below `2^p` -/
theorem step_mono (f : Fmt) {a b : Nat} (hab : a ≤ b) :
    2 ^ (a / 2 ^ (f.p - 1) - 1) ≤ 2 ^ (b / 2 ^ (f.p - 1) - 1) :=
  Nat.pow_le_pow_right (by decide) (Nat.sub_le_sub_right (Nat.div_le_div_right hab) 1)

theorem step_le_unit {f : Fmt} (h : FOK f) {x : Nat} (hx : x < (f.bias + f.p) * 2 ^ (f.p - 1)) :
    2 ^ (x / 2 ^ (f.p - 1) - 1) ≤ unit f := by
  have hT := Nat.two_pow_pos (f.p - 1)
  have : x / 2 ^ (f.p - 1) < f.bias + f.p := (Nat.div_lt_iff_lt_mul hT).mpr hx
  rw [unit_eq]
  apply Nat.pow_le_pow_right (by decide)
  have hp := h.wf.hp
  unfold L; omega

/-- **first digit step**: digit `d0 = ⌊w⌋ mod r`, the next `integer = q1` is below `2^p`, and with `I1 = ⌊q1⌋`
the number `I1·r + d0` is within `(3·r·1.0 + ulp(w))/2` of `w` -/
theorem first_step {f : Fmt} (h : FOK f) {r : Nat} (hr : 2 ≤ r) (hr36 : r ≤ 36) (hrp : r < 2 * 2 ^ (f.p - 1)) {w : Nat}
    (hw : (f.bias + f.p) * 2 ^ (f.p - 1) ≤ w) (hwf : w < f.infBits)
    (hexp : exponent f (fdiv f w (ofNat f r)) ≤ 0) {d0 q1 : Nat} (hd0e : d0 = asU32 f (fmod f w (ofNat f r)))
    (hq1e : q1 = fdiv f (fsub f w (fmod f w (ofNat f r))) (ofNat f r)) :
    d0 < r ∧ q1 < (f.bias + f.p) * 2 ^ (f.p - 1) ∧
      2 * ((RoundNE.ival f q1 / unit f * r + d0) * unit f)
        ≤ 2 * RoundNE.ival f w + 2 ^ (w / 2 ^ (f.p - 1) - 1) + r * unit f ∧
      2 * RoundNE.ival f w
        ≤ 2 * ((RoundNE.ival f q1 / unit f * r + d0) * unit f) + 3 * (r * unit f) + 2 ^ (w / 2 ^ (f.p - 1) - 1) := by
  have hu := unit_pos f
  have hr0 : 0 < r := by omega
  have hT := Nat.two_pow_pos (f.p - 1)
  obtain ⟨hrv, hrf⟩ := ofNat_ival h hrp
  have hb0 : RoundNE.ival f (ofNat f r) ≠ 0 := by rw [hrv]; exact Nat.ne_of_gt (Nat.mul_pos hr0 hu)
  have hd0 : d0 < r := by rw [hd0e]; exact asU32_fmod_lt h hr0 hrp w
  obtain ⟨hremv, _⟩ := fmod_exact h.wf w hrf hb0
  rw [hrv] at hremv
  -- w is a multiple of 1.0, so the remainder is `d0 · 1.0`
  obtain ⟨t, ht⟩ := big_dvd h hw
  have hUdvd : unit f ∣ RoundNE.ival f w := ⟨2 * t, by rw [ht]; ring⟩
  have hrem : RoundNE.ival f (fmod f w (ofNat f r)) = d0 * unit f := by
    rw [hd0e]
    unfold asU32
    rw [ival_eq, hremv]
    have hdv : unit f ∣ RoundNE.ival f w % (r * unit f) :=
      (Nat.dvd_mod_iff ⟨r, Nat.mul_comm _ _⟩).mpr hUdvd
    have hlt : RoundNE.ival f w % (r * unit f) / unit f < r :=
      (Nat.div_lt_iff_lt_mul hu).mpr (Nat.mod_lt _ (Nat.mul_pos hr0 hu))
    have hmin : min (RoundNE.ival f w % (r * unit f) / unit f) (2 ^ 32 - 1)
        = RoundNE.ival f w % (r * unit f) / unit f := by
      generalize RoundNE.ival f w % (r * unit f) / unit f = dd at hlt ⊢
      omega
    rw [hmin, Nat.div_mul_cancel hdv]
  have hremle : d0 * unit f ≤ RoundNE.ival f w := by rw [← hrem, hremv]; exact Nat.mod_le _ _
  -- s1 and q1
  have hs1le : fsub f w (fmod f w (ofNat f r)) ≤ w := fsub_le_self h.wf (Nat.le_of_lt hwf)
  have hq1le : q1 ≤ fdiv f w (ofNat f r) := by
    rw [hq1e]
    unfold fdiv
    simp only [ival_eq]
    rw [hrv]
    exact roundNE_mono' h.wf (Nat.mul_pos hr0 hu) (Nat.mul_pos hr0 hu)
      (Nat.mul_le_mul_right _ (ival_mono f hs1le))
  have hdivfin : fdiv f w (ofNat f r) < f.infBits :=
    Nat.lt_of_le_of_lt (fdiv_le_self h.wf (Nat.le_of_lt hwf) (by rw [hrv]; exact Nat.le_mul_of_pos_left _ hr0)) hwf
  have hdivlt : fdiv f w (ofNat f r) < (f.bias + f.p) * 2 ^ (f.p - 1) := by
    apply Nat.lt_of_not_le; intro hge
    have := exponent_pos_of_ge h hge hdivfin
    omega
  have hq1 : q1 < (f.bias + f.p) * 2 ^ (f.p - 1) := Nat.lt_of_le_of_lt hq1le hdivlt
  refine ⟨hd0, hq1, ?_⟩
  -- rounding errors
  have hs1fin : fsub f w (fmod f w (ofNat f r)) < f.infBits := Nat.lt_of_le_of_lt hs1le hwf
  have es : fsub f w (fmod f w (ofNat f r))
      = roundNE f (RoundNE.ival f w - d0 * unit f) (unit f) := by
    unfold fsub; simp only [ival_eq]; rw [hrem]
  obtain ⟨a1, a2⟩ := round_err h.wf (RoundNE.ival f w - d0 * unit f) hu (by rw [← es]; exact hs1fin)
  rw [← es] at a1 a2
  have eq : q1 = roundNE f (RoundNE.ival f (fsub f w (fmod f w (ofNat f r)))) (r * unit f) := by
    rw [hq1e]
    unfold fdiv; simp only [ival_eq]; rw [hrv]
  obtain ⟨b1, b2⟩ := round_err h.wf (RoundNE.ival f (fsub f w (fmod f w (ofNat f r)))) (Nat.mul_pos hr0 hu)
    (by rw [← eq]; exact Nat.lt_of_le_of_lt hq1le hdivfin)
  rw [← eq] at b1 b2
  have hss := step_mono f hs1le
  have hsq := step_le_unit h hq1
  have hdm := Nat.div_add_mod (RoundNE.ival f q1) (unit f)
  have hml := Nat.mod_lt (RoundNE.ival f q1) hu
  rw [← unit_eq] at a1 a2 b1 b2
  generalize 2 ^ (fsub f w (fmod f w (ofNat f r)) / 2 ^ (f.p - 1) - 1) = ss at *
  generalize 2 ^ (q1 / 2 ^ (f.p - 1) - 1) = sq at *
  generalize 2 ^ (w / 2 ^ (f.p - 1) - 1) = Kw at *
  generalize RoundNE.ival f (fsub f w (fmod f w (ofNat f r))) = S1 at *
  generalize RoundNE.ival f q1 = Q1 at *
  generalize RoundNE.ival f w = W at *
  generalize unit f = U at *
  generalize hI : Q1 / U = I1 at *
  generalize Q1 % U = m1 at *
  -- cancel the common factor U
  have a1' : 2 * (W - d0 * U) ≤ 2 * S1 + ss := by
    apply Nat.le_of_mul_le_mul_left _ hu
    calc U * (2 * (W - d0 * U)) = 2 * ((W - d0 * U) * U) := by ring
      _ ≤ U * (2 * S1 + ss) := a1
  have a2' : 2 * S1 ≤ 2 * (W - d0 * U) + ss := by
    apply Nat.le_of_mul_le_mul_left _ hu
    calc U * (2 * S1) ≤ 2 * ((W - d0 * U) * U) + U * ss := a2
      _ = U * (2 * (W - d0 * U) + ss) := by ring
  have b1' : 2 * S1 ≤ r * (2 * Q1 + sq) := by
    apply Nat.le_of_mul_le_mul_left _ hu
    calc U * (2 * S1) = 2 * (S1 * U) := by ring
      _ ≤ r * U * (2 * Q1 + sq) := b1
      _ = U * (r * (2 * Q1 + sq)) := by ring
  have b2' : r * (2 * Q1) ≤ 2 * S1 + r * sq := by
    apply Nat.le_of_mul_le_mul_left _ hu
    calc U * (r * (2 * Q1)) = r * U * (2 * Q1) := by ring
      _ ≤ 2 * (S1 * U) + r * U * sq := b2
      _ = U * (2 * S1 + r * sq) := by ring
  have hrsq : r * sq ≤ r * U := Nat.mul_le_mul_left _ hsq
  have hQ : Q1 = U * I1 + m1 := hdm.symm
  subst hQ
  have hE : (I1 * r + d0) * U = r * (U * I1) + d0 * U := by ring
  have hrm : r * m1 < r * U := Nat.mul_lt_mul_of_pos_left hml hr0
  rw [hE]
  have e1 : r * (2 * (U * I1 + m1)) = 2 * (r * (U * I1)) + 2 * (r * m1) := by ring
  rw [e1] at b2'
  have e2 : r * (2 * (U * I1 + m1) + sq) = 2 * (r * (U * I1)) + 2 * (r * m1) + r * sq := by ring
  rw [e2] at b1'
  generalize r * (U * I1) = A at *
  generalize r * m1 = Bm at *
  generalize r * sq = Cs at *
  generalize r * U = RU at *
  generalize d0 * U = DU at *
  omega

/-! ## arithmetic core -/

/-- `X·T2 ≤ a`, `a < (T2 + c)·K`, `m·c ≤ T2`  ⇒  `m·X < (m+1)·K` -/
theorem scale_bound {X a K T2 c m : Nat} (h1 : T2 * X ≤ a) (h2 : a < (T2 + c) * K) (h3 : m * c ≤ T2) :
    m * X < (m + 1) * K := by
  have hK : 0 < K := by
    apply Nat.pos_of_ne_zero; intro h0; subst h0; simp at h2
  apply Nat.lt_of_not_le; intro hge
  rcases Nat.eq_zero_or_pos m with h0 | hp
  · subst h0; simp at hge; omega
  · have h4 : T2 * ((m + 1) * K) ≤ T2 * (m * X) := Nat.mul_le_mul_left _ hge
    have h5 : T2 * (m * X) = m * (T2 * X) := by ring
    have h6 : m * (T2 * X) ≤ m * a := Nat.mul_le_mul_left _ h1
    have h7 : m * a < m * ((T2 + c) * K) := Nat.mul_lt_mul_of_pos_left h2 hp
    have h8 : m * ((T2 + c) * K) = m * T2 * K + (m * c) * K := by ring
    have h9 : (m * c) * K ≤ T2 * K := Nat.mul_le_mul_right _ h3
    have h10 : m * T2 * K + T2 * K = T2 * ((m + 1) * K) := by ring
    omega

theorem core_big {iv a K z Z ER Y RX r : Nat} (ha1 : a ≤ iv + (z + 1) * K) (ha2 : iv ≤ a + z * K)
    (hE1 : 2 * ER ≤ 2 * a + Y + RX) (hE2 : 2 * a ≤ 2 * ER + 3 * RX + Y) (hX : RX < (r + 1) * K) (hY : Y < 3 * K)
    (hr : r ≤ 36) (hz : z ≤ Z) : ER ≤ iv + (Z + 21) * K ∧ iv ≤ ER + (Z + 57) * K := by
  have h1 : z * K ≤ Z * K := Nat.mul_le_mul_right _ hz
  have h2 : (r + 1) * K ≤ 37 * K := Nat.mul_le_mul_right _ (by omega)
  have e1 : (z + 1) * K = z * K + K := by ring
  have e2 : (Z + 21) * K = Z * K + 21 * K := by ring
  have e3 : (Z + 57) * K = Z * K + 57 * K := by ring
  rw [e1] at ha1
  rw [e2, e3]
  generalize z * K = zK at *
  generalize Z * K = ZK at *
  generalize (r + 1) * K = rK at *
  omega

/-! ## assembly -/

theorem ival_lt_step (f : Fmt) (c : Nat) :
    RoundNE.ival f c < 2 * 2 ^ (f.p - 1) * 2 ^ (c / 2 ^ (f.p - 1) - 1) := by
  have hT := Nat.two_pow_pos (f.p - 1)
  obtain ⟨k, q, rfl, hk1, hk2⟩ := decomp f c
  have hk : (k * 2 ^ (f.p - 1) + q) / 2 ^ (f.p - 1) - 1 = k := by
    by_cases hk0 : k = 0
    · subst hk0
      have : (0 * 2 ^ (f.p - 1) + q) / 2 ^ (f.p - 1) ≤ 1 := by
        apply Nat.le_of_lt_succ; rw [Nat.div_lt_iff_lt_mul hT]; omega
      omega
    · have hq := hk1 (by omega)
      have : (k * 2 ^ (f.p - 1) + q) / 2 ^ (f.p - 1) = k + 1 :=
        Nat.div_eq_of_lt_le (by rw [Nat.succ_mul]; omega) (by rw [Nat.succ_mul, Nat.succ_mul]; omega)
      omega
  rw [hk, ival_kq f k q hk1 (by omega)]
  exact Nat.mul_lt_mul_of_pos_right hk2 (Nat.two_pow_pos k)

/-- `pattern_dist` without the finiteness of `v + a` (the result saturates at `+∞`) -/
theorem pattern_dist2 {f : Fmt} (hf : WF f) {v N D a b : Nat} (hD : 0 < D) (hvfin : v < f.infBits)
    (hb : 2 * b ≤ v) (hbT : 2 * b ≤ 2 ^ (f.p - 1)) (hk : 2 ≤ v / 2 ^ (f.p - 1))
    (hup : N * 2 ^ L f ≤ (RoundNE.ival f v + a * 2 ^ (v / 2 ^ (f.p - 1) - 1)) * D)
    (hlo : RoundNE.ival f v * D ≤ N * 2 ^ L f + b * 2 ^ (v / 2 ^ (f.p - 1) - 1) * D) :
    ulpDist (roundNE f N D) v ≤ max a (2 * b) := by
  by_cases hfin : v + a < f.infBits
  · exact pattern_dist hf hD hfin hb hbT hk hup hlo
  · have up : roundNE f N D ≤ v + a := Nat.le_trans (roundNE_le_infBits hf N hD) (by omega)
    have lo := pattern_dist hf (a := 0) hD (by omega) hb hbT hk
      (show (min N (RoundNE.ival f v * D / 2 ^ L f)) * 2 ^ L f ≤ _ by
        simp only [Nat.zero_mul, Nat.add_zero]
        calc min N (RoundNE.ival f v * D / 2 ^ L f) * 2 ^ L f ≤ RoundNE.ival f v * D / 2 ^ L f * 2 ^ L f :=
              Nat.mul_le_mul_right _ (Nat.min_le_right _ _)
          _ ≤ _ := Nat.div_mul_le_self _ _)
    -- the lower side directly
    have hu := Nat.two_pow_pos (L f)
    have lo' : v - 2 * b ≤ roundNE f N D := by
      have e : roundNE f (RoundNE.ival f (v - 2 * b)) (2 ^ L f) = v - 2 * b :=
        roundNE_of_ival hf (by omega) hu rfl
      rw [← e]
      apply roundNE_mono' hf hu hD
      have hs := ival_sub_le f v (2 * b) hb hbT
      have e2 : 2 * 2 ^ (v / 2 ^ (f.p - 1) - 2) = 2 ^ (v / 2 ^ (f.p - 1) - 1) := by
        rw [show v / 2 ^ (f.p - 1) - 1 = (v / 2 ^ (f.p - 1) - 2) + 1 by omega, Nat.pow_succ]; ring
      have hs' : RoundNE.ival f (v - 2 * b) + b * 2 ^ (v / 2 ^ (f.p - 1) - 1) ≤ RoundNE.ival f v := by
        rw [← e2]
        calc RoundNE.ival f (v - 2 * b) + b * (2 * 2 ^ (v / 2 ^ (f.p - 1) - 2))
            = RoundNE.ival f (v - 2 * b) + 2 * b * 2 ^ (v / 2 ^ (f.p - 1) - 2) := by ring
          _ ≤ _ := hs
      have h3 : RoundNE.ival f (v - 2 * b) * D + b * 2 ^ (v / 2 ^ (f.p - 1) - 1) * D ≤ RoundNE.ival f v * D := by
        rw [← Nat.add_mul]; exact Nat.mul_le_mul_right _ hs'
      omega
    clear lo
    unfold ulpDist
    split <;> omega

theorem ofDigits_replicate_zero (r : Nat) : ∀ z, ofDigits r (List.replicate z 0) = 0
  | 0 => rfl
  | z + 1 => by
    rw [List.replicate_succ, WriteRadixError.ofDigits_cons, ofDigits_replicate_zero r z]; simp

/-- format constants for the range `x ≥ 2^p`: `Z` bounds the number of zero-padding steps -/
structure BigFmt (f : Fmt) (Z : Nat) : Prop where
  fok : FOK f
  fuel : Z + f.p + 2 ≤ halfSize
  hZ : 2 ^ (f.maxExpField - 1 - L f) ≤ 3 ^ (Z + 1)
  tbig : 2 * (halfSize * halfSize + halfSize) ≤ 2 ^ (f.p - 1)
  zb : 2 * (Z + 57) ≤ 2 ^ (f.p - 1)

theorem bigFmt_f64 : BigFmt f64 613 := ⟨fok_f64, by decide, by decide +kernel, by decide, by decide⟩
theorem bigFmt_f32 : BigFmt f32 66 := ⟨fok_f32, by decide, by decide +kernel, by decide, by decide⟩

/-- **the ulp clause for `x ≥ 2^p`**: at most `2·Z + 114` patterns (1340 for binary64, 246 for binary32) -/
theorem error_big {f : Fmt} {Z : Nat} (m : BigFmt f Z) {r : Nat} (hr3 : 3 ≤ r) (hr36 : r ≤ 36)
    {v : Nat} (hv1 : (f.bias + f.p) * 2 ^ (f.p - 1) ≤ v) (hv2 : v < f.infBits) {g : Gen}
    (hg : generate true f r v = .ok g) :
    ulpDist (roundNE f (ofDigits r ((g.ints ++ g.fracs).map byteDigit)) (r ^ g.fracs.length)) v ≤ 2 * Z + 114 := by
  have h := m.fok
  have hT := Nat.two_pow_pos (f.p - 1)
  have hu := unit_pos f
  have hp := h.wf.hp
  have hbias := bias_pos h.wf
  have hTbig := m.tbig
  have hhs : halfSize = 1100 := rfl
  have hrp : r < 2 * 2 ^ (f.p - 1) := by rw [hhs] at hTbig; omega
  have hr2 : 2 ≤ r := by omega
  have hr0 : 0 < r := by omega
  -- the float is an integer: no fraction digits
  obtain ⟨t, ht⟩ := big_dvd h hv1
  have hUdvd : unit f ∣ RoundNE.ival f v := ⟨2 * t, by rw [ht]; ring⟩
  have hfloor : ffloor f v = v := by
    apply ival_inj f
    rw [(ffloor_exact h.wf hv2).1, Nat.div_mul_cancel hUdvd]
  have hfrac : genFraction true f r v = .ok ([], [], false) := by
    unfold genFraction
    simp only [hfloor, fsub_self]
    rw [if_neg (Nat.not_lt_zero _)]
  unfold generate at hg
  rw [hfrac] at hg
  simp only [Res.bind, Bool.false_eq_true, if_false, hfloor] at hg
  -- zero padding
  unfold genInteger at hg
  dsimp only at hg
  cases hpad : padLoop f (ofNat f r) halfSize v [] with
  | ok out =>
    rw [hpad] at hg
    simp only [Res.bind] at hg
    have hinv0 : PadInv f r (RoundNE.ival f v) 0 v := by unfold PadInv; simp
    obtain ⟨z, _, hzf, hacc, hinv, hexp, hwfin, hzpos, hz0, hfuel⟩ :=
      padLoop_inv h hr2 hrp (RoundNE.ival f v) halfSize v [] 0 out hinv0 (by rw [hhs] at hTbig ⊢; omega) hv2 hpad
    have hw : (f.bias + f.p) * 2 ^ (f.p - 1) ≤ out.1 := by
      rcases Nat.eq_zero_or_pos z with h0 | hpos
      · rw [hz0 h0.symm]; exact hv1
      · exact hzpos hpos
    simp only [Nat.sub_zero, Nat.zero_add, List.append_nil] at hacc hzf hfuel
    generalize hwd : out.1 = w at *
    -- additive bounds
    have hKlt := ival_lt_step f v
    have hTK := T_step_le f (show 2 ^ (f.p - 1) ≤ v by
      have : 1 * 2 ^ (f.p - 1) ≤ (f.bias + f.p) * 2 ^ (f.p - 1) := Nat.mul_le_mul_right _ (by omega)
      omega)
    generalize hK : 2 ^ (v / 2 ^ (f.p - 1) - 1) = K at *
    obtain ⟨i1, i2⟩ := hinv
    obtain ⟨mm, hmm⟩ : ∃ mm, 2 * 2 ^ (f.p - 1) = mm + z := ⟨2 * 2 ^ (f.p - 1) - z, by rw [hhs] at hzf hTbig; omega⟩
    have hzz : z * z + z ≤ mm + z := by
      rw [← hmm]
      have : z * z ≤ halfSize * halfSize := Nat.mul_le_mul hzf hzf
      omega
    have hmpos : 0 < mm := by rw [hhs] at hzf hTbig; omega
    rw [hmm] at i1 i2
    rw [show mm + z - z = mm by omega] at i1
    rw [show mm + z + 1 - z = mm + 1 by omega] at i2
    obtain ⟨ha1, ha2⟩ := add_bounds (a := RoundNE.ival f w * r ^ z) (iv := RoundNE.ival f v) (K := K) (m := mm) (z := z)
      i1 i2 (by rw [← hmm]; exact hKlt) hzz hmpos
    -- z ≤ Z
    have hWge : 2 * 2 ^ (f.p - 1) * unit f ≤ RoundNE.ival f w := by
      rw [← ival_two_pow_p h]; exact ival_mono f hw
    have hz1T : (z + 1) * K ≤ 2 ^ (f.p - 1) * K := Nat.mul_le_mul_right _ (by rw [hhs] at hzf hTbig; omega)
    have hzZ : z ≤ Z := by
      apply Nat.le_of_not_lt; intro hlt
      have hinf := (ival_infBits h.wf).1
      have hvlt : RoundNE.ival f v < RoundNE.ival f f.infBits := ival_strictMono f hv2
      have h1 : 2 * 2 ^ (f.p - 1) * (unit f * r ^ z) ≤ RoundNE.ival f w * r ^ z := by
        calc 2 * 2 ^ (f.p - 1) * (unit f * r ^ z) = 2 * 2 ^ (f.p - 1) * unit f * r ^ z := by ring
          _ ≤ _ := Nat.mul_le_mul_right _ hWge
      have h2 : RoundNE.ival f w * r ^ z < 2 * (2 * 2 ^ (f.p - 1) * 2 ^ (f.maxExpField - 2)) := by omega
      have h3 : unit f * r ^ z < 2 * 2 ^ (f.maxExpField - 2) := by
        apply Nat.lt_of_mul_lt_mul_left (a := 2 * 2 ^ (f.p - 1))
        calc _ ≤ _ := h1
          _ < _ := h2
          _ = _ := by ring
      have hM := M_eq h.wf
      have e1 : 2 * 2 ^ (f.maxExpField - 2) = 2 ^ L f * 2 ^ (f.maxExpField - 1 - L f) := by
        rw [← Nat.pow_add, show 2 * 2 ^ (f.maxExpField - 2) = 2 ^ (f.maxExpField - 2 + 1) by rw [Nat.pow_succ]; ring]
        congr 1; have := h.hb; unfold L; omega
      rw [e1, unit_eq] at h3
      have h4 : r ^ z < 2 ^ (f.maxExpField - 1 - L f) := Nat.lt_of_mul_lt_mul_left h3
      have h5 : 3 ^ (Z + 1) ≤ r ^ z :=
        Nat.le_trans (Nat.pow_le_pow_left hr3 _) (Nat.pow_le_pow_right hr0 hlt)
      have := m.hZ
      omega
    -- the digit loop
    have hfl : ∃ fl, out.2.2 = fl + 2 ∧ f.p ≤ fl := ⟨out.2.2 - 2, by have := m.fuel; omega, by have := m.fuel; omega⟩
    obtain ⟨fl, hfl1, hfl2⟩ := hfl
    rw [hfl1] at hg
    obtain ⟨hd0, hq1, hE1, hE2⟩ := first_step h hr2 hr36 hrp hw hwfin hexp rfl rfl
    unfold digitLoop at hg
    dsimp only at hg
    generalize hd0e : asU32 f (fmod f w (ofNat f r)) = d0 at *
    generalize hq1e : fdiv f (fsub f w (fmod f w (ofNat f r))) (ofNat f r) = q1 at *
    have hval : ofDigits r ((g.ints ++ g.fracs).map byteDigit) = (RoundNE.ival f q1 / unit f * r + d0) * r ^ z
        ∧ g.fracs = [] := by
      by_cases hq0 : q1 = 0
      · rw [if_pos hq0] at hg
        simp only [Res.ok.injEq] at hg
        subst hg
        dsimp only
        refine ⟨?_, rfl⟩
        rw [hacc, hq0, ival_zero, Nat.zero_div, Nat.zero_mul, Nat.zero_add, List.append_nil, List.map_cons,
          digitToCharConst_eq hd0 hr36, byteDigit_digitChar (by omega), List.map_replicate,
          show byteDigit 48 = 0 from rfl, WriteRadixError.ofDigits_cons, ofDigits_replicate_zero,
          List.length_replicate, Nat.add_zero]
      · rw [if_neg hq0, digitLoop_small h hr2 hr36 hrp _ hq1 hfl2] at hg
        simp only [Res.ok.injEq] at hg
        subst hg
        dsimp only
        refine ⟨?_, rfl⟩
        rw [hacc, List.append_nil, List.map_append, List.map_cons, digitToCharConst_eq hd0 hr36,
          byteDigit_digitChar (by omega), List.map_replicate, show byteDigit 48 = 0 from rfl, ofDigits_append_pow,
          WriteRadixError.ofDigits_cons, ofDigits_replicate_zero]
        have hI36 : ∀ d ∈ toDigits r (RoundNE.ival f q1 / unit f), d < 36 :=
          fun d hd => Nat.lt_of_lt_of_le (toDigits_digit_lt r _ hr2 d hd) hr36
        have hmm' : ((toDigits r (RoundNE.ival f q1 / unit f)).map digitChar).map byteDigit
            = toDigits r (RoundNE.ival f q1 / unit f) := by
          rw [List.map_map]
          conv => rhs; rw [← List.map_id (toDigits r (RoundNE.ival f q1 / unit f))]
          exact List.map_congr_left (fun d hd => byteDigit_digitChar (hI36 d hd))
        rw [hmm', ofDigits_toDigits r _ hr2]
        simp only [List.length_cons, List.length_replicate, Nat.add_zero]
        rw [Nat.pow_succ]; ring
    obtain ⟨hD, hfr⟩ := hval
    rw [hD, hfr]
    simp only [List.length_nil, Nat.pow_zero]
    -- error core
    have hY : 2 ^ (w / 2 ^ (f.p - 1) - 1) * r ^ z < 3 * K := by
      have hTs := T_step_le f (show 2 ^ (f.p - 1) ≤ w by
        have : 1 * 2 ^ (f.p - 1) ≤ (f.bias + f.p) * 2 ^ (f.p - 1) := Nat.mul_le_mul_right _ (by omega)
        omega)
      apply Nat.lt_of_mul_lt_mul_left (a := 2 ^ (f.p - 1))
      calc 2 ^ (f.p - 1) * (2 ^ (w / 2 ^ (f.p - 1) - 1) * r ^ z)
          = 2 ^ (f.p - 1) * 2 ^ (w / 2 ^ (f.p - 1) - 1) * r ^ z := by ring
        _ ≤ RoundNE.ival f w * r ^ z := Nat.mul_le_mul_right _ hTs
        _ < 2 ^ (f.p - 1) * (3 * K) := by
            have : 2 ^ (f.p - 1) * (3 * K) = 2 * 2 ^ (f.p - 1) * K + 2 ^ (f.p - 1) * K := by ring
            omega
    have hX : r * (unit f * r ^ z) < (r + 1) * K := by
      apply scale_bound (T2 := 2 * 2 ^ (f.p - 1)) (a := RoundNE.ival f w * r ^ z) (c := z + 1)
      · calc 2 * 2 ^ (f.p - 1) * (unit f * r ^ z) = 2 * 2 ^ (f.p - 1) * unit f * r ^ z := by ring
          _ ≤ _ := Nat.mul_le_mul_right _ hWge
      · have : (2 * 2 ^ (f.p - 1) + (z + 1)) * K = 2 * 2 ^ (f.p - 1) * K + (z + 1) * K := by ring
        omega
      · have : r * (z + 1) ≤ 36 * (halfSize + 1) := Nat.mul_le_mul hr36 (by omega)
        rw [hhs] at this hTbig; omega
    have c := core_big (ER := (RoundNE.ival f q1 / unit f * r + d0) * unit f * r ^ z)
      (Y := 2 ^ (w / 2 ^ (f.p - 1) - 1) * r ^ z) (RX := r * (unit f * r ^ z)) ha1 ha2
      (by
        have := Nat.mul_le_mul_right (r ^ z) hE1
        calc 2 * ((RoundNE.ival f q1 / unit f * r + d0) * unit f * r ^ z)
            = 2 * ((RoundNE.ival f q1 / unit f * r + d0) * unit f) * r ^ z := by ring
          _ ≤ (2 * RoundNE.ival f w + 2 ^ (w / 2 ^ (f.p - 1) - 1) + r * unit f) * r ^ z := this
          _ = _ := by ring)
      (by
        have := Nat.mul_le_mul_right (r ^ z) hE2
        calc 2 * (RoundNE.ival f w * r ^ z) = 2 * RoundNE.ival f w * r ^ z := by ring
          _ ≤ (2 * ((RoundNE.ival f q1 / unit f * r + d0) * unit f) + 3 * (r * unit f)
                + 2 ^ (w / 2 ^ (f.p - 1) - 1)) * r ^ z := this
          _ = _ := by ring)
      hX hY hr36 hzZ
    obtain ⟨c1, c2⟩ := c
    have hk2 : 2 ≤ v / 2 ^ (f.p - 1) := by
      rw [Nat.le_div_iff_mul_le hT]
      have : 2 * 2 ^ (f.p - 1) ≤ (f.bias + f.p) * 2 ^ (f.p - 1) := Nat.mul_le_mul_right _ (by omega)
      omega
    have hvT : 2 ^ (f.p - 1) ≤ v := by
      have : 1 * 2 ^ (f.p - 1) ≤ (f.bias + f.p) * 2 ^ (f.p - 1) := Nat.mul_le_mul_right _ (by omega)
      omega
    have := pattern_dist2 h.wf (v := v) (N := (RoundNE.ival f q1 / unit f * r + d0) * r ^ z) (D := 1)
      (a := Z + 21) (b := Z + 57) Nat.one_pos hv2 (by have := m.zb; omega) m.zb hk2
      (by
        rw [hK, Nat.mul_one, ← unit_eq]
        calc (RoundNE.ival f q1 / unit f * r + d0) * r ^ z * unit f
            = (RoundNE.ival f q1 / unit f * r + d0) * unit f * r ^ z := by ring
          _ ≤ _ := c1)
      (by
        rw [hK, Nat.mul_one, Nat.mul_one, ← unit_eq]
        calc RoundNE.ival f v ≤ (RoundNE.ival f q1 / unit f * r + d0) * unit f * r ^ z + (Z + 57) * K := c2
          _ = _ := by ring)
    have hmax : max (Z + 21) (2 * (Z + 57)) = 2 * Z + 114 := by omega
    rw [hmax] at this
    exact this
  | fault => rw [hpad] at hg; simp [Res.bind] at hg
  | panic => rw [hpad] at hg; simp [Res.bind] at hg

end LexVerif.Proof.WriteRadixBig
