import LexVerif.Proof.RoundNEDecode
import Mathlib.Tactic.Ring
/-!
# Proof.SlowTruncation — no half-way point between two floats has more than `max_digits` significant digits

`parse_mantissa` keeps `d = max_digits` significant digits and replaces a non-zero cut tail by a single digit `1`. Both the
value of the whole digit string and the replaced one lie strictly between `P·u` and `(P + 1)·u`, `P` the first `d` digits
and `u = radix^y` the unit of the `d`-th digit. `roundNE` is monotone and changes only at the half-way points
`(2q + 1)·2^k / 2^(L+1)` between adjacent floats; written in the (even) radix such a point is `Z / radix^a` with
`Z = (2q + 1)·(radix/2)^a·2^c < radix^d` — so it has at most `d` significant digits and cannot lie strictly inside
`(P·u, (P + 1)·u)`: either `u` is coarser than its last digit (`Z > P·radix ≥ radix^d`) or finer (an integer strictly
between `P` and `P + 1`). Hence `roundNE` is constant on the open interval (`roundNE_const_between`).
-/
namespace LexVerif.Proof.Truncation
open LexVerif.Spec LexVerif.Proof.RoundNE

/-- the numerator of the half-way point above a finite pattern `b`, in units of `2^-(L+1)`: `(2q + 1)·2^k` -/
theorem halfway_form (f : Fmt) (b : Nat) (hb : b < f.infBits) :
    ∃ k q, q < 2 * 2 ^ (f.p - 1) ∧ k ≤ f.maxExpField - 2 ∧ ival f b + ival f (b + 1) = (2 * q + 1) * 2 ^ k := by
  have hT := Nat.two_pow_pos (f.p - 1)
  by_cases hlt : b < 2 ^ (f.p - 1)
  · refine ⟨0, b, by omega, Nat.zero_le _, ?_⟩
    have e1 := ival_kq f 0 b (by omega) (by omega)
    have e2 := ival_kq f 0 (b + 1) (by omega) (by omega)
    simp only [Nat.zero_mul, Nat.zero_add, Nat.pow_zero, Nat.mul_one] at e1 e2
    rw [e1, e2]; omega
  · have hdm := Nat.div_add_mod b (2 ^ (f.p - 1))
    have hml := Nat.mod_lt b hT
    have hdpos : 1 ≤ b / 2 ^ (f.p - 1) := by
      rw [Nat.le_div_iff_mul_le hT]; omega
    have hdlt : b / 2 ^ (f.p - 1) < f.maxExpField := by
      rw [Nat.div_lt_iff_lt_mul hT]; rw [infBits_eq] at hb; exact hb
    refine ⟨b / 2 ^ (f.p - 1) - 1, b % 2 ^ (f.p - 1) + 2 ^ (f.p - 1), by omega, by omega, ?_⟩
    have hb' : b = (b / 2 ^ (f.p - 1) - 1) * 2 ^ (f.p - 1) + (b % 2 ^ (f.p - 1) + 2 ^ (f.p - 1)) := by
      have : (b / 2 ^ (f.p - 1) - 1) * 2 ^ (f.p - 1) + 2 ^ (f.p - 1) = b / 2 ^ (f.p - 1) * 2 ^ (f.p - 1) := by
        rw [← Nat.succ_mul]; congr 1; omega
      have := Nat.mul_comm (2 ^ (f.p - 1)) (b / 2 ^ (f.p - 1))
      omega
    have e1 := ival_kq f (b / 2 ^ (f.p - 1) - 1) (b % 2 ^ (f.p - 1) + 2 ^ (f.p - 1)) (fun _ => by omega) (by omega)
    have e2 := ival_kq f (b / 2 ^ (f.p - 1) - 1) (b % 2 ^ (f.p - 1) + 2 ^ (f.p - 1) + 1) (fun _ => by omega) (by omega)
    rw [← hb'] at e1
    rw [← Nat.add_assoc, ← hb'] at e2
    rw [e1, e2]; ring

/-- **no half-way point strictly inside `(P·u, (P+1)·u)`**: for `A ≤ A'` both strictly inside, the larger does not round
higher. `r = 2·g` the radix, `d` the digit limit with the two facts that define it (`hi`: the largest half-way point is
below `r^d`; `hii`: so is the numerator of the finest one), `u = r^m·r^xp / r^xn`. -/
theorem roundNE_le_of_no_halfway {f : Fmt} (hf : WF f) {r g d : Nat} (hr : r = 2 * g) (hg : 1 ≤ g) (hd : 1 ≤ d)
    (hi : 2 ^ (f.p + 1) * 2 ^ (f.maxExpField - 2 - (L f + 1)) ≤ r ^ d)
    (hii : 2 ^ (f.p + 1) * g ^ (L f + 1) ≤ r ^ d)
    (P m A A' : Nat) (hP : r ^ (d - 1) ≤ P) (hm : 1 ≤ m)
    (hA : P * r ^ m < A) (hAA : A ≤ A') (hA' : A' < (P + 1) * r ^ m) (xp xn : Nat) :
    roundNE f (A' * r ^ xp) (r ^ xn) ≤ roundNE f (A * r ^ xp) (r ^ xn) := by
  have hrpos : 0 < r := by omega
  have hDpos : 0 < r ^ xn := Nat.pow_pos hrpos
  have hXpos : 0 < r ^ xp := Nat.pow_pos hrpos
  apply Classical.byContradiction; intro hcon
  have cA := inCell_roundNE hf (A * r ^ xp) (Nat.ne_of_gt hDpos)
  have cA' := inCell_roundNE hf (A' * r ^ xp) (Nat.ne_of_gt hDpos)
  generalize hb : roundNE f (A * r ^ xp) (r ^ xn) = b at *
  generalize hb' : roundNE f (A' * r ^ xp) (r ^ xn) = b' at *
  have hlt : b < b' := Nat.lt_of_not_le hcon
  have hbfin : b < f.infBits := Nat.lt_of_lt_of_le hlt cA'.le_inf
  have up := cA.upper hbfin
  have lo := cA'.lower (by omega)
  have m1 : ival f b ≤ ival f (b' - 1) := ival_mono f (by omega)
  have m2 : ival f (b + 1) ≤ ival f b' := ival_mono f (by omega)
  obtain ⟨k, q, hq, hk, hH⟩ := halfway_form f b hbfin
  rw [hH] at up
  have lo' : r ^ xn * ((2 * q + 1) * 2 ^ k) ≤ 2 * (A' * r ^ xp * 2 ^ L f) := by
    refine Nat.le_trans (Nat.mul_le_mul_left _ ?_) lo
    rw [← hH]; omega
  -- the half-way point in the radix: `H·r^a = Z·2^(L+1)`
  have hZ : (2 * q + 1) * 2 ^ k * r ^ (L f + 1 - k) =
      ((2 * q + 1) * g ^ (L f + 1 - k) * 2 ^ (k - (L f + 1))) * 2 ^ (L f + 1) := by
    rw [hr, Nat.mul_pow]
    have : 2 ^ k * 2 ^ (L f + 1 - k) = 2 ^ (k - (L f + 1)) * 2 ^ (L f + 1) := by
      rw [← Nat.pow_add, ← Nat.pow_add]; congr 1; omega
    calc (2 * q + 1) * 2 ^ k * (2 ^ (L f + 1 - k) * g ^ (L f + 1 - k))
        = (2 * q + 1) * g ^ (L f + 1 - k) * (2 ^ k * 2 ^ (L f + 1 - k)) := by ring
      _ = (2 * q + 1) * g ^ (L f + 1 - k) * (2 ^ (k - (L f + 1)) * 2 ^ (L f + 1)) := by rw [this]
      _ = _ := by ring
  -- `Z < r^d`
  have hZlt : (2 * q + 1) * g ^ (L f + 1 - k) * 2 ^ (k - (L f + 1)) < r ^ d := by
    have hq1 : 2 * q + 1 < 2 ^ (f.p + 1) := by
      have : 2 ^ (f.p + 1) = 4 * 2 ^ (f.p - 1) := by
        have := hf.hp
        rw [show f.p + 1 = (f.p - 1) + 2 by omega, Nat.pow_add]; ring
      omega
    by_cases hkL : k ≤ L f + 1
    · have e0 : k - (L f + 1) = 0 := by omega
      rw [e0, Nat.pow_zero, Nat.mul_one]
      have : g ^ (L f + 1 - k) ≤ g ^ (L f + 1) := Nat.pow_le_pow_right hg (by omega)
      calc (2 * q + 1) * g ^ (L f + 1 - k) ≤ (2 * q + 1) * g ^ (L f + 1) := Nat.mul_le_mul_left _ this
        _ < 2 ^ (f.p + 1) * g ^ (L f + 1) := Nat.mul_lt_mul_of_pos_right hq1 (Nat.pow_pos (by omega))
        _ ≤ r ^ d := hii
    · have e0 : L f + 1 - k = 0 := by omega
      rw [e0, Nat.pow_zero, Nat.mul_one]
      have : 2 ^ (k - (L f + 1)) ≤ 2 ^ (f.maxExpField - 2 - (L f + 1)) :=
        Nat.pow_le_pow_right (by decide) (by omega)
      calc (2 * q + 1) * 2 ^ (k - (L f + 1)) ≤ (2 * q + 1) * 2 ^ (f.maxExpField - 2 - (L f + 1)) :=
            Nat.mul_le_mul_left _ this
        _ < 2 ^ (f.p + 1) * 2 ^ (f.maxExpField - 2 - (L f + 1)) :=
            Nat.mul_lt_mul_of_pos_right hq1 (Nat.two_pow_pos _)
        _ ≤ r ^ d := hi
  generalize hZv : (2 * q + 1) * g ^ (L f + 1 - k) * 2 ^ (k - (L f + 1)) = Z at *
  generalize ha : L f + 1 - k = a at *
  generalize hHv : (2 * q + 1) * 2 ^ k = H at *
  have h2L : 2 ^ (L f + 1) = 2 * 2 ^ L f := by rw [Nat.pow_succ]; ring
  have hLpos : 0 < 2 ^ (L f + 1) := Nat.two_pow_pos _
  have hapos : 0 < r ^ a := Nat.pow_pos hrpos
  -- `P·r^(m+xp+a) < r^xn·Z < (P+1)·r^(m+xp+a)`
  have s1 : P * r ^ (m + xp + a) < r ^ xn * Z := by
    apply Nat.lt_of_mul_lt_mul_right (a := 2 ^ (L f + 1))
    calc P * r ^ (m + xp + a) * 2 ^ (L f + 1) = (P * r ^ m) * (r ^ xp * r ^ a * 2 ^ (L f + 1)) := by
          rw [Nat.pow_add, Nat.pow_add]; ring
      _ < A * (r ^ xp * r ^ a * 2 ^ (L f + 1)) :=
          Nat.mul_lt_mul_of_pos_right hA (Nat.mul_pos (Nat.mul_pos hXpos hapos) hLpos)
      _ = (2 * (A * r ^ xp * 2 ^ L f)) * r ^ a := by rw [h2L]; ring
      _ ≤ (r ^ xn * H) * r ^ a := Nat.mul_le_mul_right _ up
      _ = r ^ xn * (H * r ^ a) := by ring
      _ = r ^ xn * Z * 2 ^ (L f + 1) := by rw [hZ]; ring
  have s2 : r ^ xn * Z < (P + 1) * r ^ (m + xp + a) := by
    apply Nat.lt_of_mul_lt_mul_right (a := 2 ^ (L f + 1))
    calc r ^ xn * Z * 2 ^ (L f + 1) = r ^ xn * (H * r ^ a) := by rw [hZ]; ring
      _ = (r ^ xn * H) * r ^ a := by ring
      _ ≤ (2 * (A' * r ^ xp * 2 ^ L f)) * r ^ a := Nat.mul_le_mul_right _ lo'
      _ = A' * (r ^ xp * r ^ a * 2 ^ (L f + 1)) := by rw [h2L]; ring
      _ < ((P + 1) * r ^ m) * (r ^ xp * r ^ a * 2 ^ (L f + 1)) :=
          Nat.mul_lt_mul_of_pos_right hA' (Nat.mul_pos (Nat.mul_pos hXpos hapos) hLpos)
      _ = (P + 1) * r ^ (m + xp + a) * 2 ^ (L f + 1) := by rw [Nat.pow_add, Nat.pow_add]; ring
  by_cases hxy : m + xp + a ≤ xn
  · -- the unit is finer than the last digit of the half-way point: an integer strictly between `P` and `P + 1`
    obtain ⟨t, ht⟩ : ∃ t, xn = m + xp + a + t := ⟨xn - (m + xp + a), by omega⟩
    have hypos : 0 < r ^ (m + xp + a) := Nat.pow_pos hrpos
    have e : r ^ xn = r ^ (m + xp + a) * r ^ t := by rw [ht, Nat.pow_add]
    rw [e] at s1 s2
    have t1 : P < r ^ t * Z := by
      apply Nat.lt_of_mul_lt_mul_right (a := r ^ (m + xp + a))
      calc P * r ^ (m + xp + a) < r ^ (m + xp + a) * r ^ t * Z := s1
        _ = r ^ t * Z * r ^ (m + xp + a) := by ring
    have t2 : r ^ t * Z < P + 1 := by
      apply Nat.lt_of_mul_lt_mul_right (a := r ^ (m + xp + a))
      calc r ^ t * Z * r ^ (m + xp + a) = r ^ (m + xp + a) * r ^ t * Z := by ring
        _ < (P + 1) * r ^ (m + xp + a) := s2
    omega
  · -- the unit is coarser: the half-way point would need more than `d` digits
    obtain ⟨t, ht⟩ : ∃ t, m + xp + a = xn + (t + 1) := ⟨m + xp + a - xn - 1, by omega⟩
    have e : r ^ (m + xp + a) = r ^ xn * r ^ (t + 1) := by rw [ht, Nat.pow_add]
    rw [e] at s1
    have t1 : P * r ^ (t + 1) < Z := by
      apply Nat.lt_of_mul_lt_mul_right (a := r ^ xn)
      calc P * r ^ (t + 1) * r ^ xn = P * (r ^ xn * r ^ (t + 1)) := by ring
        _ < r ^ xn * Z := s1
        _ = Z * r ^ xn := by ring
    have t2 : r ^ d ≤ P * r ^ (t + 1) := by
      have : r ≤ r ^ (t + 1) := by
        calc r = r ^ 1 := (Nat.pow_one r).symm
          _ ≤ r ^ (t + 1) := Nat.pow_le_pow_right hrpos (by omega)
      calc r ^ d = r ^ (d - 1) * r := by
            rw [← Nat.pow_succ]; congr 1; omega
        _ ≤ P * r ^ (t + 1) := Nat.mul_le_mul hP this
    omega

/-- **`roundNE` is constant strictly between `P·u` and `(P + 1)·u`** when `P` has `d = max_digits` digits -/
theorem roundNE_const_between {f : Fmt} (hf : WF f) {r g d : Nat} (hr : r = 2 * g) (hg : 1 ≤ g) (hd : 1 ≤ d)
    (hi : 2 ^ (f.p + 1) * 2 ^ (f.maxExpField - 2 - (L f + 1)) ≤ r ^ d)
    (hii : 2 ^ (f.p + 1) * g ^ (L f + 1) ≤ r ^ d)
    (P m A A' : Nat) (hP : r ^ (d - 1) ≤ P) (hm : 1 ≤ m)
    (hA1 : P * r ^ m < A) (hA2 : A < (P + 1) * r ^ m) (hA1' : P * r ^ m < A') (hA2' : A' < (P + 1) * r ^ m)
    (xp xn : Nat) :
    roundNE f (A * r ^ xp) (r ^ xn) = roundNE f (A' * r ^ xp) (r ^ xn) := by
  have hrpos : 0 < r := by omega
  have hDpos : 0 < r ^ xn := Nat.pow_pos hrpos
  have mono : ∀ B B' : Nat, B ≤ B' → roundNE f (B * r ^ xp) (r ^ xn) ≤ roundNE f (B' * r ^ xp) (r ^ xn) := by
    intro B B' h
    exact roundNE_mono' hf hDpos hDpos (Nat.mul_le_mul_right _ (Nat.mul_le_mul_right _ h))
  rcases Nat.le_total A A' with h | h
  · exact Nat.le_antisymm (mono A A' h)
      (roundNE_le_of_no_halfway hf hr hg hd hi hii P m A A' hP hm hA1 h hA2' xp xn)
  · exact Nat.le_antisymm (roundNE_le_of_no_halfway hf hr hg hd hi hii P m A' A hP hm hA1' h hA2 xp xn)
      (mono A' A h)

end LexVerif.Proof.Truncation
