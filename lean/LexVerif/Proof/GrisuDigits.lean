import LexVerif.Proof.GrisuDigits3
/-!
# Proof.GrisuDigits — specification of `generate_digits` (digit generation + weeding) of the Grisu2 writer

`generateDigits_spec`: for `upper = Um·2^-sh`, `lower = Lm·2^-sh` (`32 ≤ sh ≤ 60`, `1 ≤ Lm < Um < 2^64`) the loops
never fault, return a non-empty digit string without leading `'0'` and an exponent `k + κ`, `-20 ≤ κ ≤ 9`, such that
`lower ≤ digits·10^κ ≤ upper`, and the number of digits is at most `n` whenever `10·upper ≤ 10^n·(upper − lower)`.
The value of `w` (only used to steer the weeding) is irrelevant for all of this.
-/
namespace LexVerif.Proof.GrisuDigits
open LexVerif.Model.Grisu LexVerif.Model.Dragonbox LexVerif.Spec
open LexVerif.Proof.DragonboxBits

/-- unfolding of `generateDigits` (as an equation between functions: checking it for applied arguments makes the kernel
evaluate `genLoop1 … 11 … 1000000000 …`) -/
theorem generateDigits_fun : generateDigits = fun (fp upper lower : Fp) (k : Int) =>
    (let wmant := sub64 upper.mant fp.mant
    let delta := sub64 upper.mant lower.mant
    let shift : Nat := ((-upper.exp) % 64).toNat
    let oneMant := shl64 1 (-upper.exp)
    let part1 := upper.mant >>> shift
    let part2 := upper.mant &&& (oneMant - 1)
    match genLoop1 delta wmant part2 shift 11 part1 1000000000 10 [] k with
    | .inl r => some r
    | .inr (ds, kappa) => genLoop2 wmant oneMant shift 64 part2 delta (kappa : Int) 10 ds k :
      Option (List Nat × Int)) := rfl

theorem generateDigits_spec (w upper lower : Fp) (k : Int) (sh : Nat)
    (h1 : 32 ≤ sh) (h2 : sh ≤ 60) (hexp : upper.exp = -(sh : Int))
    (hU : upper.mant < 2 ^ 64) (hL : 1 ≤ lower.mant) (hLU : lower.mant < upper.mant)
    (hW : w.mant ≤ upper.mant) (hk : -100000 ≤ k ∧ k ≤ 100000) :
    ∃ (ds : List Nat) (κ : Int),
      generateDigits w upper lower k = some (ds, k + κ)
      ∧ -20 ≤ κ ∧ κ ≤ 9
      ∧ (∀ c ∈ ds, 48 ≤ c ∧ c ≤ 57) ∧ ds ≠ [] ∧ ds.head? ≠ some 48
      ∧ lower.mant * 10 ^ (-κ).toNat ≤ ofDigits 10 (ds.map (· - 48)) * 10 ^ κ.toNat * 2 ^ sh
      ∧ ofDigits 10 (ds.map (· - 48)) * 10 ^ κ.toNat * 2 ^ sh ≤ upper.mant * 10 ^ (-κ).toNat
      ∧ ∀ n, 1 ≤ n → 10 * upper.mant ≤ 10 ^ n * (upper.mant - lower.mant) → ds.length ≤ n := by
  obtain ⟨Um, ue⟩ := upper
  obtain ⟨Lm, le⟩ := lower
  obtain ⟨wm, we⟩ := w
  simp only at hexp hU hL hLU hW ⊢
  subst hexp
  have hshift : ((-(-(sh : Int))) % 64).toNat = sh := by omega
  have hpowlt : 2 ^ sh < 2 ^ 64 := Nat.pow_lt_pow_right (by omega) (by omega)
  have hone : shl64 1 (-(-(sh : Int))) = 2 ^ sh := by
    rw [Int.neg_neg, shl64_nat (by omega), Nat.one_mul, Nat.mod_eq_of_lt hpowlt]
  have hdelta : sub64 Um Lm = Um - Lm := sub64_eq (by omega) hU
  have hwmant : sub64 Um wm = Um - wm := sub64_eq hW hU
  have hand : Um &&& (2 ^ sh - 1) = Um % 2 ^ sh := Nat.and_two_pow_sub_one_eq_mod _ _
  have hshr : Um >>> sh = Um / 2 ^ sh := Nat.shiftRight_eq_div_pow _ _
  rw [generateDigits_fun]
  simp only [hshift, hone, hdelta, hwmant, hand, hshr]
  have hone1 : 1 ≤ 2 ^ sh := Nat.pow_pos (by omega)
  have hp2 : Um % 2 ^ sh < 2 ^ sh := Nat.mod_lt _ hone1
  have hp1 : Um / 2 ^ sh < 10 ^ 10 := by
    have h32 : 2 ^ 64 ≤ 2 ^ sh * 2 ^ 32 := by
      rw [← Nat.pow_add]; exact Nat.pow_le_pow_right (by omega) (by omega)
    have : Um / 2 ^ sh < 2 ^ 32 := Nat.div_lt_of_lt_mul (by omega)
    omega
  have hdm : Um / 2 ^ sh * 2 ^ sh + Um % 2 ^ sh = Um := by
    rw [Nat.mul_comm]; exact Nat.div_add_mod _ _
  have hl1 := genLoop1_spec Um Lm (Um - Lm) (Um - wm) (Um % 2 ^ sh) sh (2 ^ sh) k h2 rfl hU hL (by omega) hp2 hk
    11 10 (Um / 2 ^ sh) 1000000000 0 [] (by omega) (by omega) (fun _ => by norm_num) digitsOK_nil hp1
    (by rw [Nat.zero_mul, Nat.zero_mul, Nat.zero_add]; exact hdm) (by omega)
  rcases hl1 with ⟨ds', c', V, N', hc', hres, hfin, hlo, hhi, hcnt⟩ | ⟨ds', N', hres, hok, hsum, hprev⟩
  · rw [hres]
    refine ⟨ds', (c' : Int), rfl, by omega, by omega, hfin.chars, hfin.ne, hfin.head, ?_, ?_, ?_⟩
    · rw [hfin.val]
      have : (-(c' : Int)).toNat = 0 := by omega
      rw [this, Int.toNat_natCast]; omega
    · rw [hfin.val]
      have : (-(c' : Int)).toNat = 0 := by omega
      rw [this, Int.toNat_natCast]; omega
    · intro n _ hn
      exact hfin.len n (hcnt n hn)
  · rw [hres]
    obtain ⟨ds2, j', V, N2, hj0, hj19, hres2, hfin, hlo, hhi, hcnt⟩ :=
      genLoop2_spec Um Lm (Um - Lm) (Um - wm) sh (2 ^ sh) k h2 rfl hL (by omega) (by omega) hk
        64 0 (Um % 2 ^ sh) 10 N' ds' (by omega) hok hp2 (by omega) (by omega)
    simp only [Nat.pow_zero, Nat.mul_one, Nat.cast_zero, Int.neg_zero] at hres2
    simp only [Nat.cast_zero]
    rw [hres2]
    refine ⟨ds2, -(j' : Int), rfl, by omega, by omega, hfin.chars, hfin.ne, hfin.head, ?_, ?_, ?_⟩
    · rw [hfin.val]
      have : (-(j' : Int)).toNat = 0 := by omega
      rw [this, Int.neg_neg, Int.toNat_natCast, Nat.pow_zero, Nat.mul_one]; omega
    · rw [hfin.val]
      have : (-(j' : Int)).toNat = 0 := by omega
      rw [this, Int.neg_neg, Int.toNat_natCast, Nat.pow_zero, Nat.mul_one]; omega
    · intro n _ hn
      exact hfin.len n (hcnt n hn)

end LexVerif.Proof.GrisuDigits
