import LexVerif.Proof.SepLocal4
/-!
# Proof.ParseNumberDebugSim — re-scan consistency without the assumption that the byte behind the stored region is no
separator

`Proof/SepLocal3.lean` (`rescan_sim`, `rescan_pred`) compares the first pass with the re-scan of the stored region
`s[a..e)` when `s[e]` is neither digit nor separator — what a *completely consumed* input gives. `parse_number` also
re-scans (before `parse_complete` rejects the input, and in `parse_partial`) when the first pass stopped on a separator
its predicate refused to skip. `rescan_sim2` only needs: `s[e]` is not a digit. It also covers I+T+C once the first
digit has been counted (`current_count() ≠ 0`: the predicate is constantly true from there on).
-/
set_option linter.unusedSimpArgs false
set_option linter.unusedVariables false
namespace LexVerif.Proof.Sep
open LexVerif LexVerif.Model LexVerif.Spec
open LexVerif.Props.C12

/-- non-consecutive predicates look at `prev` / `next` only -/
theorem holds_nc_irrel (c : Cfg) (p : Pred) (hnc : p.consecutive = false) (n n' : Nbr) (first : Bool)
    (h1 : n'.prev = n.prev) (h2 : n'.next = n.next) : p.holds c n first = p.holds c n' first := by
  obtain ⟨p1, x1, pc1, xc1⟩ := n
  obtain ⟨p2, x2, pc2, xc2⟩ := n'
  simp only at h1 h2
  subst h1 h2
  cases p <;> first | rfl | (simp [Pred.consecutive] at hnc)

/-- consecutive predicates look at `prevc` / `nextc` only -/
theorem holds_c_irrel (c : Cfg) (p : Pred) (hc : p.consecutive = true) (n n' : Nbr) (first : Bool)
    (h1 : n'.prevc = n.prevc) (h2 : n'.nextc = n.nextc) : p.holds c n first = p.holds c n' first := by
  obtain ⟨p1, x1, pc1, xc1⟩ := n
  obtain ⟨p2, x2, pc2, xc2⟩ := n'
  simp only at h1 h2
  subst h1 h2
  cases p <;> first | rfl | (simp [Pred.consecutive] at hc)

/-- a non-consecutive predicate that skips a separator whose next byte is a separator again (only `il` before the first
digit does) skips it as well when nothing follows and the byte before is the same or missing -/
theorem holds_sep_next (c : Cfg) (p : Pred) (hnc : p.consecutive = false) (n n' : Nbr) (first : Bool) (x : Nat)
    (hn : n.next = some x) (hsx : c.isSep x = true) (hdx : c.isDigit x = false) (h1 : Weaker c n'.prev n.prev)
    (hn' : n'.next = none) (h : p.holds c n first = true) : p.holds c n' first = true := by
  obtain ⟨p1, x1, pc1, xc1⟩ := n
  obtain ⟨p2, x2, pc2, xc2⟩ := n'
  simp only at hn hn' h1
  subst hn hn'
  rcases weaker_cases c h1 with rfl | ⟨rfl, rfl⟩ | ⟨rfl, y1, rfl, hd1, hs1⟩ <;>
  cases p <;> cases first <;> simp_all [Pred.holds, Pred.consecutive]

theorem firstNonSep_eq_get (c : Cfg) : ∀ l : List Nat, firstNonSep c l = l[countSeps c l]? := by
  intro l
  induction l with
  | nil => rfl
  | cons x xs ih =>
    simp only [firstNonSep, countSeps]
    split
    · simp [ih]
    · simp

/-- `prev` / `prevc` seen from inside the slice (the part of `nbr_slice` that does not look behind the slice) -/
theorem nbr_slice_prev (c : Cfg) (s : List Nat) (a e j : Nat) (hj : a + j < e) (he : e ≤ s.length)
    (hprev : (∀ x, getPrev s a = some x → c.isDigit x = false ∧ c.isSep x = false) ∨ 0 < j ∧
      (∀ x, s[a]? = some x → c.isSep x = false)) :
    Weaker c (nbr c (slice s a e) j).prev (nbr c s (a + j)).prev ∧
    Weaker c (nbr c (slice s a e) j).prevc (nbr c s (a + j)).prevc := by
  -- pad the buffer view: apply `nbr_slice` to the slice extended by nothing — its `hnext` is only used for next / nextc
  simp only [nbr]
  refine ⟨?_, ?_⟩
  · cases j with
    | zero =>
      right
      refine ⟨by simp [getPrev], ?_⟩
      rcases hprev with h | ⟨h, _⟩
      · simpa using h
      · omega
    | succ k =>
      left
      have : a + (k + 1) ≠ 0 := by omega
      simp only [getPrev, Nat.succ_ne_zero, if_false, Nat.add_sub_cancel, this]
      rw [slice_get s a e k (by omega)]
      congr 1
  · rcases prevc_slice c s a e j (by omega) with h | ⟨h1, h2⟩
    · exact Or.inl h
    · right
      refine ⟨h1, ?_⟩
      rw [h2]
      rcases hprev with h | ⟨h0, h⟩
      · cases a with
        | zero => intro y hy; simp [prevcByte] at hy
        | succ a0 =>
          intro y hy
          simp only [prevcByte] at hy
          cases hv : s[a0]? with
          | none => rw [hv] at hy; cases hy
          | some x =>
            have hx := h x (by simp [getPrev, hv])
            rw [hv] at hy
            simp only [hx.2, Bool.false_eq_true, if_false, Option.some.injEq] at hy
            subst hy; exact hx
      · exfalso
        obtain ⟨k, rfl⟩ : ∃ k, j = k + 1 := ⟨j - 1, by omega⟩
        have hne : ∀ m, m ≤ k → prevcByte c (slice s a e) (m + 1) ≠ none := by
          intro m
          induction m with
          | zero =>
            intro _
            simp only [prevcByte, slice_get s a e 0 (by omega), Nat.add_zero]
            cases hv : s[a]? with
            | none =>
              have := List.getElem?_eq_none_iff.mp hv
              omega
            | some x => simp [h x hv]
          | succ m ihm =>
            intro hm
            simp only [prevcByte, slice_get s a e (m + 1) (by omega)]
            cases hv : s[a + (m + 1)]? with
            | none =>
              have := List.getElem?_eq_none_iff.mp hv
              omega
            | some x =>
              simp only
              split
              · exact ihm (by omega)
              · simp
        exact hne k (Nat.le_refl _) h1

/-- `next` seen from inside the slice -/
theorem nbr_slice_next (c : Cfg) (s : List Nat) (a e j : Nat) (hj : a + j < e)
    (hn : a + j + 1 < e ∨ ∀ x, s[e]? = some x → c.isDigit x = false ∧ c.isSep x = false) :
    Weaker c (nbr c (slice s a e) j).next (nbr c s (a + j)).next := by
  simp only [nbr]
  by_cases h1 : a + (j + 1) < e
  · left; rw [slice_get s a e (j + 1) h1]; congr 1
  · right
    refine ⟨slice_get_none s a e (j + 1) (by omega), ?_⟩
    have : a + j + 1 = e := by omega
    rw [this]
    rcases hn with h | h
    · omega
    · exact h

/-- `nextc` seen from inside the slice, when the run of separators behind position `a + j` ends inside the slice or
exactly at its end -/
theorem nbr_slice_nextc (c : Cfg) (s : List Nat) (a e j : Nat) (hj : a + j < e) (he : e ≤ s.length)
    (hq : a + j + 1 + countSeps c (s.drop (a + j + 1)) ≤ e) (hstop : ∀ x, s[e]? = some x → c.isDigit x = false) :
    Weaker c (nbr c (slice s a e) j).nextc (nbr c s (a + j)).nextc := by
  simp only [nbr, nextcByte, slice_drop_eq]
  have hdrop : slice s (a + (j + 1)) e = (s.drop (a + j + 1)).take (e - (a + j + 1)) := by
    unfold slice; congr 2
  rw [hdrop, firstNonSep_eq_get, firstNonSep_eq_get, countSeps_take]
  have hmin : min (countSeps c (s.drop (a + j + 1))) (e - (a + j + 1)) = countSeps c (s.drop (a + j + 1)) := by omega
  rw [hmin, List.getElem?_take]
  by_cases hlt : countSeps c (s.drop (a + j + 1)) < e - (a + j + 1)
  · left; rw [if_pos hlt]
  · right
    refine ⟨by rw [if_neg hlt], ?_⟩
    intro y hy
    have hsep := countSeps_stop c _ y hy
    rw [List.getElem?_drop] at hy
    have : a + j + 1 + countSeps c (s.drop (a + j + 1)) = e := by omega
    rw [this] at hy
    exact ⟨hstop y hy, hsep⟩

theorem iterCount_inc_ne (c : Cfg) (k : Comp) (hc : c.iterContiguous k = false) (hf : c.feats.format = true)
    (hk : k ≠ .special) (b : Bytes) : Bytes.iterCount c k (Bytes.incCount c k b) ≠ 0 := by
  cases k <;> simp_all [Bytes.iterCount, Bytes.incCount]

/-- **simulation**: the first pass over `s` from inside the region `[a, e)` and the re-scan of the stored region
`R = s[a..e)` from the corresponding position take the same decisions -/
theorem rescan_sim2 (c : Cfg) (k : Comp) (p : Pred) (hk : c.skip k = .pred p) (hd : c.debug = false)
    (hc : c.iterContiguous k = false) (hf : c.feats.format = true) (hks : k ≠ .special)
    (hsep : ∀ x, c.isSep x = true → charToDigit x c.mantissaRadix = none)
    (s : List Nat) (a e : Nat) (he : e ≤ s.length)
    (hprev : (∀ x, getPrev s a = some x → c.isDigit x = false ∧ c.isSep x = false) ∨
      (∀ x, s[a]? = some x → c.isSep x = false))
    (hstop : ∀ x, s[e]? = some x → c.isDigit x = false) :
    ∀ (fuel : Nat) (bb ee rr : Bytes) (dd : List Nat),
      parseDigitsLoop c k c.mantissaRadix fuel bb = .ok (dd, ee) → bb.slc = s → a ≤ bb.index → ee.index = e →
      rr.slc = slice s a e → rr.index = bb.index - a → Bytes.iterCount c k rr = Bytes.iterCount c k bb →
      (p ≠ .itc ∨ Bytes.iterCount c k bb ≠ 0) →
      ∃ e', parseDigitsLoop c k c.mantissaRadix fuel rr = .ok (dd, e') ∧ e'.index = e - a := by
  intro fuel
  induction fuel with
  | zero => intro bb ee rr dd h; simp [parseDigitsLoop] at h
  | succ n ih =>
    intro bb ee rr dd h hbs hab hee hrs hri hcnt hpc
    have hRlen : (slice s a e).length = e - a := slice_length s a e he
    have hsp0 := parseDigitsLoop_spec c k c.mantissaRadix hd (n + 1) bb ee dd
    -- validity of `bb`: its cursor is at most the final cursor
    have hbe : bb.index ≤ e := by
      by_cases hv : bb.index ≤ bb.slc.length
      · have := (hsp0 hv h).2.2; omega
      · -- an invalid cursor: `peek` returns none and the loop stops where it is
        have hnone : bb.slc[bb.index]? = none := List.getElem?_eq_none (by omega)
        rw [parseDigitsLoop.eq_2, peek_pred c k p hk] at h
        simp only [peekPred, hnone, bind, Except.bind, pure, Except.pure, Except.ok.injEq, Prod.mk.injEq] at h
        rw [← h.2] at hee; omega
    have hvb : Bytes.Valid bb := by unfold Bytes.Valid; rw [hbs]; omega
    have hsp := hsp0 hvb h
    -- the common continuation after `peek`
    have cont : ∀ (i1 : Nat) (v v' : Option Nat) (bb1 rr1 : Bytes), bb1 = { bb with index := i1 } →
        rr1 = { rr with index := i1 - a } → bb.index ≤ i1 → i1 ≤ e → v = s[i1]? →
        v' = (if i1 < e then s[i1]? else none) →
        (match v with
          | none => (pure ([], bb1) : Except Err (List Nat × Bytes))
          | some ch =>
            match charToDigit ch c.mantissaRadix with
            | none => pure ([], bb1)
            | some d => do
              let b ← iterStep c k bb1
              let (ds, b) ← parseDigitsLoop c k c.mantissaRadix n (b.incCount c k)
              pure (d :: ds, b)) = .ok (dd, ee) →
        ∃ e' : Bytes, (match v' with
          | none => (pure ([], rr1) : Except Err (List Nat × Bytes))
          | some ch =>
            match charToDigit ch c.mantissaRadix with
            | none => pure ([], rr1)
            | some d => do
              let b ← iterStep c k rr1
              let (ds, b) ← parseDigitsLoop c k c.mantissaRadix n (b.incCount c k)
              pure (d :: ds, b)) = .ok (dd, e') ∧ e'.index = e - a := by
      intro i1 v v' bb1 rr1 hbb1 hrr1 h1 h2 hv hv' hm
      subst hbb1 hrr1
      by_cases hlt : i1 < e
      · -- inside the region: the byte is a digit (otherwise the first pass would stop before `e`)
        have hin : i1 < s.length := by omega
        rw [if_pos hlt] at hv'
        rw [hv'] ; rw [hv] at hm
        rw [List.getElem?_eq_getElem hin] at hm ⊢
        simp only at hm ⊢
        cases hdg : charToDigit s[i1] c.mantissaRadix with
        | none =>
          simp only [hdg, pure, Except.pure, Except.ok.injEq, Prod.mk.injEq] at hm
          rw [← hm.2] at hee; simp only at hee; omega
        | some d =>
          simp only [hdg, iterStep, stepUnchecked_release c _ _ hd, bind, Except.bind] at hm ⊢
          cases hrec : parseDigitsLoop c k c.mantissaRadix n
              (Bytes.incCount c k { ({ bb with index := i1 } : Bytes) with index := i1 + 1 }) with
          | error er => simp only [hrec] at hm; cases hm
          | ok r2 =>
            obtain ⟨ds2, b2⟩ := r2
            simp only [hrec, pure, Except.pure, Except.ok.injEq, Prod.mk.injEq] at hm
            obtain ⟨rfl, rfl⟩ := hm
            have hi1 := incCount_spec c k { ({ bb with index := i1 } : Bytes) with index := i1 + 1 }
            have hi2 := incCount_spec c k { ({ rr with index := i1 - a } : Bytes) with index := i1 - a + 1 }
            obtain ⟨e', g1, g2⟩ := ih _ _ (Bytes.incCount c k { ({ rr with index := i1 - a } : Bytes) with index := i1 - a + 1 })
              _ hrec (by rw [hi1.1]; exact hbs) (by rw [hi1.2]; simp only; omega) hee
              (by rw [hi2.1]; exact hrs) (by rw [hi2.2, hi1.2]; simp only; omega)
              (iterCount_inc c k hc hf hks _ _ _ _ (by simpa [Bytes.iterCount, hc] using hcnt))
              (Or.inr (iterCount_inc_ne c k hc hf hks _))
            exact ⟨e', by simp only [g1, pure, Except.pure], g2⟩
      · -- at the end of the region: the first pass stops here, the re-scan sees the end of its buffer
        have hie : i1 = e := by omega
        rw [if_neg hlt] at hv'
        rw [hv']
        simp only [pure, Except.pure]
        have hdd : dd = [] ∧ ee.index = i1 := by
          rw [hv] at hm
          cases hsv : s[i1]? with
          | none =>
            rw [hsv] at hm
            simp only [pure, Except.pure, Except.ok.injEq, Prod.mk.injEq] at hm
            exact ⟨hm.1.symm, by rw [← hm.2]⟩
          | some ch =>
            rw [hsv] at hm
            simp only at hm
            cases hdg : charToDigit ch c.mantissaRadix with
            | none =>
              simp only [hdg, pure, Except.pure, Except.ok.injEq, Prod.mk.injEq] at hm
              exact ⟨hm.1.symm, by rw [← hm.2]⟩
            | some d =>
              exfalso
              simp only [hdg, iterStep, stepUnchecked_release c _ _ hd, bind, Except.bind] at hm
              cases hrec : parseDigitsLoop c k c.mantissaRadix n
                  (Bytes.incCount c k { ({ bb with index := i1 } : Bytes) with index := i1 + 1 }) with
              | error er => simp only [hrec] at hm; cases hm
              | ok r2 =>
                obtain ⟨ds2, b2⟩ := r2
                simp only [hrec, pure, Except.pure, Except.ok.injEq, Prod.mk.injEq] at hm
                obtain ⟨_, rfl⟩ := hm
                have hi1 := incCount_spec c k { ({ bb with index := i1 } : Bytes) with index := i1 + 1 }
                have hin : i1 < s.length := (List.getElem?_eq_some_iff.mp hsv).1
                have := (parseDigitsLoop_spec c k c.mantissaRadix hd n _ _ _
                  (by unfold Bytes.Valid; rw [hi1.1, hi1.2]; simp only; rw [hbs]; omega) hrec).2.2
                rw [hi1.2] at this; simp only at this; omega
        exact ⟨_, by rw [hdd.1], by simp only; omega⟩
    -- unfold one step of both loops
    rw [parseDigitsLoop.eq_2, peek_pred c k p hk] at h ⊢
    rw [hcnt]
    simp only [bind, Except.bind] at h ⊢
    by_cases hlt : bb.index < e
    · have hin : bb.index < s.length := by omega
      have hgs : bb.slc[bb.index]? = some s[bb.index] := by rw [hbs]; exact List.getElem?_eq_getElem hin
      have hgr : rr.slc[rr.index]? = some s[bb.index] := by
        rw [hrs, hri, slice_get s a e (bb.index - a) (by omega)]
        have : a + (bb.index - a) = bb.index := by omega
        rw [this]; exact List.getElem?_eq_getElem hin
      cases hs : c.isSep s[bb.index] with
      | false =>
        simp only [peekPred, hgs, hgr, hs, Bool.false_eq_true, if_false] at h ⊢
        exact cont bb.index (some s[bb.index]) (some s[bb.index]) bb rr rfl (by rw [← hri]) (Nat.le_refl _) (by omega)
          (by rw [List.getElem?_eq_getElem hin]) (by rw [if_pos hlt, List.getElem?_eq_getElem hin]) h
      | true =>
        -- a separator inside the region: the first pass skipped it (else it would have stopped here) …
        by_cases hh : p.holds c (nbr c bb.slc bb.index) (bb.iterCount c k == 0) = true
        · -- … and so does the re-scan
          have hprev2 : (∀ x, getPrev s a = some x → c.isDigit x = false ∧ c.isSep x = false) ∨ 0 < bb.index - a ∧
              (∀ x, s[a]? = some x → c.isSep x = false) := by
            rcases hprev with h1 | h2
            · exact Or.inl h1
            · right
              refine ⟨?_, h2⟩
              -- `s[a]` is no separator, the current byte is: the position is behind `a`
              by_cases h0 : bb.index = a
              · exfalso
                have hg : s[a]? = s[bb.index]? := by rw [h0]
                rw [List.getElem?_eq_getElem hin] at hg
                have := h2 s[bb.index] hg
                rw [hs] at this; cases this
              · omega
          have hab' : a + (bb.index - a) = bb.index := by omega
          have hwp := nbr_slice_prev c s a e (bb.index - a) (by omega) he hprev2
          rw [hab'] at hwp
          -- where a consecutive predicate lands after the skip: at most at `e`
          have hle1 : p.consecutive = true → bb.index + 1 + countSeps c (bb.slc.drop (bb.index + 1)) ≤ e := by
            intro hcons
            have h' := h
            simp only [peekPred, hgs, hs, if_true, hh, hcons] at h'
            cases hsv : bb.slc[bb.index + 1 + countSeps c (List.drop (bb.index + 1) bb.slc)]? with
            | none =>
              simp only [hsv, pure, Except.pure, Except.ok.injEq, Prod.mk.injEq] at h'
              rw [← h'.2] at hee; simp only at hee; omega
            | some ch =>
              simp only [hsv] at h'
              cases hdg : charToDigit ch c.mantissaRadix with
              | none =>
                simp only [hdg, pure, Except.pure, Except.ok.injEq, Prod.mk.injEq] at h'
                rw [← h'.2] at hee; simp only at hee; omega
              | some d =>
                simp only [hdg, iterStep, stepUnchecked_release c _ _ hd] at h'
                cases hrec : parseDigitsLoop c k c.mantissaRadix n (Bytes.incCount c k
                    { ({ bb with index := bb.index + 1 + countSeps c (List.drop (bb.index + 1) bb.slc) } : Bytes) with
                      index := bb.index + 1 + countSeps c (List.drop (bb.index + 1) bb.slc) + 1 }) with
                | error er => simp only [hrec] at h'; cases h'
                | ok r2 =>
                  obtain ⟨ds2, b2⟩ := r2
                  simp only [hrec, pure, Except.pure, Except.ok.injEq, Prod.mk.injEq] at h'
                  obtain ⟨_, rfl⟩ := h'
                  have hi1 := incCount_spec c k { ({ bb with index := bb.index + 1 + countSeps c (List.drop (bb.index + 1) bb.slc) } : Bytes) with
                    index := bb.index + 1 + countSeps c (List.drop (bb.index + 1) bb.slc) + 1 }
                  have hin2 := (List.getElem?_eq_some_iff.mp hsv).1
                  have := (parseDigitsLoop_spec c k c.mantissaRadix hd n _ _ _
                    (by unfold Bytes.Valid; rw [hi1.1, hi1.2]; simp only; omega) hrec).2.2
                  rw [hi1.2] at this; simp only at this; omega
          have hh' : p.holds c (nbr c rr.slc rr.index) (bb.iterCount c k == 0) = true := by
            rw [hrs, hri]
            rw [hbs] at hh
            by_cases hitc : p = .itc
            · -- I+T+C behind the first digit skips unconditionally
              have hc0 : (bb.iterCount c k == 0) = false := by
                rcases hpc with h1 | h1
                · exact absurd hitc h1
                · simpa using h1
              rw [hitc, hc0]; rfl
            · by_cases hcons : p.consecutive = true
              · have hq := hle1 hcons
                rw [hbs] at hq
                have hwn := nbr_slice_nextc c s a e (bb.index - a) (by omega) he (by rw [hab']; exact hq) hstop
                rw [hab'] at hwn
                have h1 := holds_weaker c p (Or.inl hitc) _ (nbr c s bb.index)
                  ⟨(nbr c s bb.index).prev, (nbr c s bb.index).next, (nbr c (slice s a e) (bb.index - a)).prevc,
                    (nbr c (slice s a e) (bb.index - a)).nextc⟩ (Weaker.refl c _) (Weaker.refl c _) hwp.2 hwn hh
                rw [← h1]
                exact holds_c_irrel c p hcons _ _ _ rfl rfl
              · have hcons' : p.consecutive = false := by simpa using hcons
                by_cases hnx : bb.index + 1 < e ∨ ∀ x, s[e]? = some x → c.isSep x = false
                · have hwn := nbr_slice_next c s a e (bb.index - a) (by omega)
                    (by
                      rcases hnx with h1 | h1
                      · left; omega
                      · right; intro x hx; exact ⟨hstop x hx, h1 x hx⟩)
                  rw [hab'] at hwn
                  have h1 := holds_weaker c p (Or.inl hitc) _ (nbr c s bb.index)
                    ⟨(nbr c (slice s a e) (bb.index - a)).prev, (nbr c (slice s a e) (bb.index - a)).next,
                      (nbr c s bb.index).prevc, (nbr c s bb.index).nextc⟩ hwp.1 hwn (Weaker.refl c _) (Weaker.refl c _) hh
                  rw [← h1]
                  exact holds_nc_irrel c p hcons' _ _ _ rfl rfl
                · -- the skipped separator is the last byte of the region and the byte behind the region is a
                  -- separator too: only `il` before the first digit skips here, and it does not look ahead
                  have hie : bb.index + 1 = e := by
                    rcases Nat.lt_or_ge (bb.index + 1) e with h1 | h1
                    · exact absurd (Or.inl h1) hnx
                    · omega
                  have hse : ∃ x, s[e]? = some x ∧ c.isSep x = true := by
                    cases hge : s[e]? with
                    | none => exact absurd (Or.inr (by intro x hx; rw [hge] at hx; cases hx)) hnx
                    | some x =>
                      cases hsx : c.isSep x with
                      | true => exact ⟨x, rfl, hsx⟩
                      | false =>
                        exact absurd (Or.inr (by intro y hy; rw [hge] at hy; cases hy; exact hsx)) hnx
                  obtain ⟨x, hxe, hsx⟩ := hse
                  exact holds_sep_next c p hcons' (nbr c s bb.index) _ _ x (by simp only [nbr]; rw [hie]; exact hxe) hsx
                    (hstop x hxe) hwp.1 (by simp only [nbr]; exact slice_get_none s a e _ (by omega)) hh
          simp only [peekPred, hgs, hgr, hs, if_true, hh, hh'] at h ⊢
          -- the new cursors correspond
          by_cases hcons : p.consecutive = true
          · simp only [hcons, if_true] at h ⊢
            have hcs : countSeps c (rr.slc.drop (rr.index + 1)) = min (countSeps c (bb.slc.drop (bb.index + 1))) (e - (bb.index + 1)) := by
              rw [hrs, hri, slice_drop_eq, hbs]
              have : a + (bb.index - a + 1) = bb.index + 1 := by omega
              rw [this]
              unfold slice
              exact countSeps_take c _ _
            have hle1 := hle1 hcons
            have hmin : min (countSeps c (bb.slc.drop (bb.index + 1))) (e - (bb.index + 1))
                = countSeps c (bb.slc.drop (bb.index + 1)) := by omega
            rw [hcs, hmin]
            have hidx : rr.index + 1 + countSeps c (bb.slc.drop (bb.index + 1))
                = bb.index + 1 + countSeps c (bb.slc.drop (bb.index + 1)) - a := by rw [hri]; omega
            rw [hidx]
            refine cont (bb.index + 1 + countSeps c (bb.slc.drop (bb.index + 1))) _ _ _ _ rfl rfl (by omega) hle1 (by rw [hbs]) ?_ h
            rw [hrs]
            by_cases hl2 : bb.index + 1 + countSeps c (bb.slc.drop (bb.index + 1)) < e
            · rw [if_pos hl2, slice_get s a e _ (by omega)]; congr 1; omega
            · rw [if_neg hl2, slice_get_none s a e _ (by omega)]
          · simp only [hcons, Bool.false_eq_true, if_false] at h ⊢
            have hidx : rr.index + 1 = bb.index + 1 - a := by rw [hri]; omega
            rw [hidx]
            refine cont (bb.index + 1) _ _ _ _ rfl rfl (by omega) (by omega) (by rw [hbs]) ?_ h
            rw [hrs]
            by_cases hl2 : bb.index + 1 < e
            · rw [if_pos hl2, slice_get s a e _ (by omega)]; congr 1; omega
            · rw [if_neg hl2, slice_get_none s a e _ (by omega)]
        · -- not skipped: the first pass returns the separator, which is no digit, and stops before `e`
          exfalso
          simp only [peekPred, hgs, hs, if_true, hh, Bool.false_eq_true, if_false, hsep _ hs, pure, Except.pure,
            Except.ok.injEq, Prod.mk.injEq] at h
          rw [← h.2] at hee; omega
    · -- the first pass starts at the end of the region
      have hie : bb.index = e := by omega
      have hrn : rr.slc[rr.index]? = none := by
        rw [hrs, hri]; exact slice_get_none s a e _ (by omega)
      simp only [peekPred, hrn, pure, Except.pure]
      have hdd : dd = [] := by
        have := hsp.2.2
        cases dd with
        | nil => rfl
        | cons d ds' => simp only [List.length_cons] at this; omega
      exact ⟨rr, by rw [hdd], by rw [hri]; omega⟩

theorem rescan_empty (c : Cfg) (k : Comp) (r : Nat) (hreach : ∀ k, c.skip k ≠ .unreachable) :
    ∃ ds' e', parseDigits c k r (Bytes.new []) = .ok (ds', e') ∧ e'.index = ([] : List Nat).length := by
  refine ⟨[], Bytes.new [], ?_, rfl⟩
  unfold parseDigits
  rw [parseDigitsLoop.eq_2, peek_at_nonsep c k _ (hreach k) (by intro x hx; simp [Bytes.new] at hx)]
  simp [Bytes.new, bind, Except.bind, pure, Except.pure]

/-- **re-scan consistency for every separator predicate except I+T+C**; the byte behind the region only has to be no
digit (it may be a separator the first pass refused to skip) -/
theorem rescan_pred2 (c : Cfg) (k : Comp) (p : Pred) (hk : c.skip k = .pred p) (hp : p ≠ .itc) (hd : c.debug = false)
    (hreach : ∀ k, c.skip k ≠ .unreachable) (hf : c.feats.format = true) (hks : k ≠ .special)
    (hsep : ∀ x, c.isSep x = true → charToDigit x c.mantissaRadix = none)
    (b e : Bytes) (ds : List Nat) (hR : Run c k c.mantissaRadix b e ds) (h0 : Bytes.iterCount c k b = 0)
    (hv : Bytes.Valid b)
    (hprev : (∀ x, getPrev b.slc b.index = some x → c.isDigit x = false ∧ c.isSep x = false) ∨
      (∀ x, b.slc[b.index]? = some x → c.isSep x = false))
    (hstop : ∀ x, b.slc[e.index]? = some x → c.isDigit x = false) :
    ∃ ds' e', parseDigits c k c.mantissaRadix (Bytes.new (slice b.slc b.index e.index)) = .ok (ds', e') ∧
      e'.index = (slice b.slc b.index e.index).length := by
  have hc := contig_of_pred c k p hk
  have hrun := hR.run
  unfold parseDigits at hrun
  have hnew : Bytes.iterCount c k (Bytes.new (slice b.slc b.index e.index)) = Bytes.iterCount c k b := by
    rw [h0]; cases k <;> simp_all [Bytes.iterCount, Bytes.new]
  obtain ⟨e', g1, g2⟩ := rescan_sim2 c k p hk hd hc hf hks hsep b.slc b.index e.index hR.valid hprev hstop
    (b.slc.length + 1) b e (Bytes.new (slice b.slc b.index e.index)) ds hrun rfl (Nat.le_refl _) rfl rfl
    (by simp [Bytes.new]) hnew (Or.inl hp)
  obtain ⟨ds', e'', hrun', _⟩ := PNTotal.parseDigits_tot ⟨hd, hreach⟩ k c.mantissaRadix
    (Bytes.new (slice b.slc b.index e.index)) (by simp [Bytes.new])
  refine ⟨ds', e'', hrun', ?_⟩
  unfold parseDigits at hrun'
  have hlen : (slice b.slc b.index e.index).length = e.index - b.index := slice_length _ _ _ hR.valid
  have := parseDigitsLoop_fuel_le c k c.mantissaRadix hd _ (b.slc.length + 1)
    (by simp only [new_slc, hlen]; have := hR.valid; omega) _ _ _ hrun'
  rw [g1] at this
  simp only [Except.ok.injEq, Prod.mk.injEq] at this
  rw [← this.2, g2, hlen]

/-- **re-scan consistency for I+T+C when the first pass starts on a byte that is no separator** (what the entry points
give the integer component of a format without base prefix: `is_consumed`'s `peek` has skipped the leading separators):
after the first digit the predicate is constantly true in both passes -/
theorem rescan_itc_start (c : Cfg) (k : Comp) (hk : c.skip k = .pred .itc) (hd : c.debug = false)
    (hreach : ∀ k, c.skip k ≠ .unreachable) (hf : c.feats.format = true) (hks : k ≠ .special)
    (hsep : ∀ x, c.isSep x = true → charToDigit x c.mantissaRadix = none)
    (b e : Bytes) (ds : List Nat) (hR : Run c k c.mantissaRadix b e ds) (h0 : Bytes.iterCount c k b = 0)
    (hv : Bytes.Valid b) (hstart : ∀ x, b.slc[b.index]? = some x → c.isSep x = false)
    (hstop : ∀ x, b.slc[e.index]? = some x → c.isDigit x = false) :
    ∃ ds' e', parseDigits c k c.mantissaRadix (Bytes.new (slice b.slc b.index e.index)) = .ok (ds', e') ∧
      e'.index = (slice b.slc b.index e.index).length := by
  have hc := contig_of_pred c k .itc hk
  have hrun := hR.run
  unfold parseDigits at hrun
  rw [parseDigitsLoop.eq_2, peek_at_nonsep c k b (hreach k) hstart] at hrun
  simp only [bind, Except.bind] at hrun
  have hempty : e = b → ∃ ds' e', parseDigits c k c.mantissaRadix (Bytes.new (slice b.slc b.index e.index)) = .ok (ds', e') ∧
      e'.index = (slice b.slc b.index e.index).length := by
    intro he; subst he; rw [slice_self]; exact rescan_empty c k _ hreach
  cases hg : b.slc[b.index]? with
  | none =>
    rw [hg] at hrun
    simp only [pure, Except.pure, Except.ok.injEq, Prod.mk.injEq] at hrun
    exact hempty hrun.2.symm
  | some ch =>
    rw [hg] at hrun
    simp only at hrun
    cases hdg : charToDigit ch c.mantissaRadix with
    | none =>
      simp only [hdg, pure, Except.pure, Except.ok.injEq, Prod.mk.injEq] at hrun
      exact hempty hrun.2.symm
    | some d =>
      simp only [hdg, iterStep, stepUnchecked_release c _ _ hd] at hrun
      cases hrec : parseDigitsLoop c k c.mantissaRadix b.slc.length (Bytes.incCount c k { b with index := b.index + 1 }) with
      | error er => simp only [hrec] at hrun; cases hrun
      | ok r2 =>
        obtain ⟨ds2, e2⟩ := r2
        simp only [hrec, pure, Except.pure, Except.ok.injEq, Prod.mk.injEq] at hrun
        obtain ⟨hds, he2⟩ := hrun
        subst he2
        have hlt : b.index < b.slc.length := (List.getElem?_eq_some_iff.mp hg).1
        have hi1 := incCount_spec c k { b with index := b.index + 1 }
        have hge : b.index + 1 ≤ e2.index := by
          have := (parseDigitsLoop_spec c k c.mantissaRadix hd _ _ _ _
            (by unfold Bytes.Valid; rw [hi1.1, hi1.2]; simp only; omega) hrec).2.2
          rw [hi1.2] at this; simp only at this; omega
        have hlen : (slice b.slc b.index e2.index).length = e2.index - b.index := slice_length _ _ _ hR.valid
        have hR0 : (slice b.slc b.index e2.index)[0]? = some ch := by
          rw [slice_get _ _ _ 0 (by omega)]; exact hg
        have hnew : Bytes.iterCount c k (Bytes.new (slice b.slc b.index e2.index)) = Bytes.iterCount c k b := by
          rw [h0]; cases k <;> simp_all [Bytes.iterCount, Bytes.new]
        have hi2 := incCount_spec c k { (Bytes.new (slice b.slc b.index e2.index)) with index := 0 + 1 }
        obtain ⟨e', g1, g2⟩ := rescan_sim2 c k .itc hk hd hc hf hks hsep b.slc b.index e2.index hR.valid (Or.inr hstart) hstop
          b.slc.length (Bytes.incCount c k { b with index := b.index + 1 }) e2
          (Bytes.incCount c k { (Bytes.new (slice b.slc b.index e2.index)) with index := 0 + 1 }) ds2 hrec
          (by rw [hi1.1]) (by rw [hi1.2]; simp only; omega) rfl (by rw [hi2.1]; rfl)
          (by rw [hi2.2, hi1.2]; simp only; omega)
          (iterCount_inc c k hc hf hks _ _ _ _ hnew) (Or.inr (iterCount_inc_ne c k hc hf hks _))
        obtain ⟨ds', e'', hrun', _⟩ := PNTotal.parseDigits_tot ⟨hd, hreach⟩ k c.mantissaRadix
          (Bytes.new (slice b.slc b.index e2.index)) (by simp [Bytes.new])
        refine ⟨ds', e'', hrun', ?_⟩
        unfold parseDigits at hrun'
        have hfull : parseDigitsLoop c k c.mantissaRadix (b.slc.length + 1) (Bytes.new (slice b.slc b.index e2.index))
            = .ok (d :: ds2, e') := by
          rw [parseDigitsLoop.eq_2, peek_at_nonsep c k _ (hreach k) (by
            intro x hx
            simp only [Bytes.new] at hx
            rw [hR0] at hx; cases hx; exact hstart ch hg)]
          simp only [Bytes.new, hR0, bind, Except.bind, hdg, iterStep, stepUnchecked_release c _ _ hd]
          simp only [Bytes.new] at g1
          rw [g1]
          rfl
        have := parseDigitsLoop_fuel_le c k c.mantissaRadix hd _ (b.slc.length + 1)
          (by simp only [new_slc, hlen]; have := hR.valid; omega) _ _ _ hrun'
        rw [hfull] at this
        simp only [Except.ok.injEq, Prod.mk.injEq] at this
        rw [← this.2, g2, hlen]

end LexVerif.Proof.Sep
