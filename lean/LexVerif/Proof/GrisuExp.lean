import LexVerif.Proof.Tables.GrisuExp32
import LexVerif.Proof.Tables.GrisuExp64_0
import LexVerif.Proof.Tables.GrisuExp64_1
import LexVerif.Proof.Tables.GrisuExp64_2
import LexVerif.Proof.Tables.GrisuExp64_3
/-!
# Proof.GrisuExp — the Grisu certificate holds for every (exponent, shift) pair of a finite float
-/
namespace LexVerif.Proof.GrisuExp
open LexVerif.Model.Dragonbox

theorem gOk_f32_normal (e : Int) (h1 : -149 ≤ e) (h2 : e ≤ 104) : gOk .f32 e 39 = true :=
  List.all_eq_true.mp g32_normal (e, 39) (mem_normalPairs (t := .f32) (by omega) (by omega))

theorem gOk_f32_sub (su : Nat) (h1 : 40 ≤ su) (h2 : su ≤ 62) : gOk .f32 (-149) su = true :=
  List.all_eq_true.mp g32_sub (-149, su) (mem_subnormalPairs (t := .f32) h1 h2)

theorem gOk_f64_sub (su : Nat) (h1 : 11 ≤ su) (h2 : su ≤ 62) : gOk .f64 (-1074) su = true :=
  List.all_eq_true.mp g64_sub (-1074, su) (mem_subnormalPairs (t := .f64) h1 h2)

theorem gOk_f64_normal (e : Int) (h1 : -1074 ≤ e) (h2 : e ≤ 971) : gOk .f64 e 10 = true := by
  by_cases c0_0 : e < -818
  · exact List.all_eq_true.mp g64_0_0 (e, 10) (mem_normalPairs (t := .f64) (by omega) (by omega))
  by_cases c0_1 : e < -562
  · exact List.all_eq_true.mp g64_0_1 (e, 10) (mem_normalPairs (t := .f64) (by omega) (by omega))
  by_cases c1_0 : e < -306
  · exact List.all_eq_true.mp g64_1_0 (e, 10) (mem_normalPairs (t := .f64) (by omega) (by omega))
  by_cases c1_1 : e < -50
  · exact List.all_eq_true.mp g64_1_1 (e, 10) (mem_normalPairs (t := .f64) (by omega) (by omega))
  by_cases c2_0 : e < 206
  · exact List.all_eq_true.mp g64_2_0 (e, 10) (mem_normalPairs (t := .f64) (by omega) (by omega))
  by_cases c2_1 : e < 462
  · exact List.all_eq_true.mp g64_2_1 (e, 10) (mem_normalPairs (t := .f64) (by omega) (by omega))
  by_cases c3_0 : e < 718
  · exact List.all_eq_true.mp g64_3_0 (e, 10) (mem_normalPairs (t := .f64) (by omega) (by omega))
  exact List.all_eq_true.mp g64_3_1 (e, 10) (mem_normalPairs (t := .f64) (by omega) (by omega))

end LexVerif.Proof.GrisuExp
