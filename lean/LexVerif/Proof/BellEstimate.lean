import LexVerif.Proof.BellSound
import LexVerif.Proof.LemireWide
/-!
# Proof.BellEstimate — what an invalid-marked answer of `bellerophon` knows about the value

`bellerophon` marks its answer invalid when `error_is_accurate` fails: the answer is then the scaled, normalised extended
float `⟨mant, pw⟩` itself. `Proof.BellSound.prepare_cases` bounds the **true** value of the literal (truncated mantissas
included) by `mant − 4 < Y/U < mant + 8 (+ 2·2^ctlz + 1)` units: a two-sided estimate (`Est2`), in the coordinates
`K = (pw + 64 − p − 1)⁺`, `S = shiftOf p pw` that rounding the estimate to the float format uses.
-/
namespace LexVerif.Proof.Bell
open LexVerif.Spec LexVerif.Model LexVerif.Model.Bellerophon LexVerif.Gen.Bellerophon
open LexVerif.Proof.RoundNE LexVerif.Proof.ExtRound LexVerif.Proof.BinaryCorrect LexVerif.Proof.Lemire

/-- a two-sided estimate: `(mant − cl)·2^K < (num/den)·2^L·2^S < (mant + ch)·2^K` (`est` is the un-biased estimate) -/
def Est2 (F : FTy) (p : Nat) (est : ExtendedFloat80) (cl ch num den : Nat) : Prop :=
  2 ^ 63 ≤ est.mant ∧ est.mant < 2 ^ 64 ∧
  est.mant * 2 ^ (est.exp + 64 - p - 1).toNat * den <
    num * 2 ^ L F.fmt * 2 ^ shiftOf p est.exp + cl * 2 ^ (est.exp + 64 - p - 1).toNat * den ∧
  num * 2 ^ L F.fmt * 2 ^ shiftOf p est.exp < (est.mant + ch) * 2 ^ (est.exp + 64 - p - 1).toNat * den

theorem shift_lt3 (X Y Z a b a' b' : Nat) (h : X * 2 ^ a < Y * 2 ^ b + Z * 2 ^ a) (heq : a + b' = a' + b) :
    X * 2 ^ a' < Y * 2 ^ b' + Z * 2 ^ a' := by
  apply Nat.lt_of_mul_lt_mul_right (a := 2 ^ b)
  calc X * 2 ^ a' * 2 ^ b = X * 2 ^ (a' + b) := by rw [Nat.pow_add]; ring
    _ = (X * 2 ^ a) * 2 ^ b' := by rw [← heq, Nat.pow_add]; ring
    _ < (Y * 2 ^ b + Z * 2 ^ a) * 2 ^ b' := Nat.mul_lt_mul_of_pos_right h (Nat.two_pow_pos _)
    _ = Y * 2 ^ b' * 2 ^ b + Z * 2 ^ (a + b') := by rw [Nat.pow_add]; ring
    _ = (Y * 2 ^ b' + Z * 2 ^ a') * 2 ^ b := by rw [heq, Nat.pow_add]; ring

theorem shift_lt2 (X Y a b a' b' : Nat) (h : Y * 2 ^ b < X * 2 ^ a) (heq : a + b' = a' + b) :
    Y * 2 ^ b' < X * 2 ^ a' := by
  apply Nat.lt_of_mul_lt_mul_right (a := 2 ^ b)
  calc Y * 2 ^ b' * 2 ^ b = (Y * 2 ^ b) * 2 ^ b' := by ring
    _ < (X * 2 ^ a) * 2 ^ b' := Nat.mul_lt_mul_of_pos_right h (Nat.two_pow_pos _)
    _ = X * 2 ^ (a + b') := by rw [Nat.pow_add]; ring
    _ = X * 2 ^ a' * 2 ^ b := by rw [heq, Nat.pow_add]; ring

/-- **an invalid-marked answer of `bellerophon` is a two-sided estimate of the true value** -/
theorem bellerophon_invalid_est {F : FTy} {p eb : Nat} (lay : Layout F p eb)
    {r : Nat} {P : Powers} (hc : BellFacts r P) (n : Num)
    (hw : n.mantissa < 2 ^ 64) (hmw : n.manyDigits = true → 2 ^ 44 ≤ n.mantissa)
    (num den : Nat) (hd : 0 < den) (htv : TrueValue r n num den) {fp : ExtendedFloat80}
    (h : bellerophon F P n false = .ok fp) (hinv : fp.exp < 0) :
    -(fp.exp - invalidFp) + 1 ≤ 65 ∧ fp.exp - invalidFp < 32768 ∧
    Est2 F p { fp with exp := fp.exp - invalidFp } 4
      (8 + if n.manyDigits then 2 * 2 ^ clz64 n.mantissa + 1 else 0) num den := by
  have hp64 := lay.hp64
  unfold bellerophon at h
  rcases prepare_cases lay hc n hw hmw num den hd htv with ⟨hp, _⟩ | ⟨hp, _⟩ |
    ⟨mant, E, sh, pw, hp, hm1, hm2, hElo, hEhi, hpw1, hpw2, hlo, _, hhi⟩
  · rw [hp] at h; simp only [] at h
    injection h with h; subst h
    exact absurd hinv (by decide)
  · rw [hp] at h; simp only [] at h
    injection h with h; subst h
    have := lay.infp
    simp only at hinv
    omega
  · rw [hp] at h; simp only [] at h
    unfold bellFinish litZeroShift at h
    simp only [] at h
    by_cases h1 : -pw + 1 > 65
    · rw [if_pos h1] at h
      injection h with h; subst h
      exact absurd hinv (by decide)
    · rw [if_neg h1] at h
      by_cases hacc : errorIsAccurate F (E * 2 ^ sh) ⟨mant, pw⟩ = true
      · have hcnd : ¬ ((!false && !errorIsAccurate F (E * 2 ^ sh) ⟨mant, pw⟩) = true) := by simp [hacc]
        rw [if_neg hcnd] at h
        by_cases h2 : -pw + 1 = 65
        · rw [if_pos h2] at h
          injection h with h; subst h
          exact absurd hinv (by decide)
        · rw [if_neg h2] at h
          injection h with h; subst h
          have := (round_bits lay mant pw (fun isOdd isHalfway isAbove => isAbove || (isOdd && isHalfway))
            hm1 hm2 (by omega)).1
          omega
      · have hcnd : ((!false && !errorIsAccurate F (E * 2 ^ sh) ⟨mant, pw⟩) = true) := by simp [hacc]
        rw [if_pos hcnd] at h
        injection h with h; subst h
        have hrel := shift_rel p (by omega) pw
        have e0 : pw + invalidFp - invalidFp = pw := by omega
        refine ⟨by simp only [e0]; omega, by simp only [e0]; omega, hm1, hm2, ?_, ?_⟩
        all_goals
          simp only [e0]
          generalize hK : (pw + 64 - p - 1).toNat = K at *
          generalize hS : shiftOf p pw = S at *
          have heq : (pw - 1).toNat + S = K + (1 - pw).toNat := by omega
        · have := shift_lt3 (mant * den) (num * 2 ^ L F.fmt) (4 * den) (pw - 1).toNat (1 - pw).toNat K S (by
            calc mant * den * 2 ^ (pw - 1).toNat = mant * (den * 2 ^ (pw - 1).toNat) := by ring
              _ < num * 2 ^ L F.fmt * 2 ^ (1 - pw).toNat + 4 * (den * 2 ^ (pw - 1).toNat) := hlo
              _ = num * 2 ^ L F.fmt * 2 ^ (1 - pw).toNat + 4 * den * 2 ^ (pw - 1).toNat := by ring) heq
          calc mant * 2 ^ K * den = mant * den * 2 ^ K := by ring
            _ < num * 2 ^ L F.fmt * 2 ^ S + 4 * den * 2 ^ K := this
            _ = num * 2 ^ L F.fmt * 2 ^ S + 4 * 2 ^ K * den := by ring
        · generalize 8 + (if n.manyDigits then 2 * 2 ^ clz64 n.mantissa + 1 else 0) = ch at *
          have := shift_lt2 ((mant + ch) * den) (num * 2 ^ L F.fmt) (pw - 1).toNat (1 - pw).toNat K S (by
            calc num * 2 ^ L F.fmt * 2 ^ (1 - pw).toNat < (mant + ch) * (den * 2 ^ (pw - 1).toNat) := hhi
              _ = (mant + ch) * den * 2 ^ (pw - 1).toNat := by ring) heq
          calc num * 2 ^ L F.fmt * 2 ^ S < (mant + ch) * den * 2 ^ K := this
            _ = (mant + ch) * 2 ^ K * den := by ring

end LexVerif.Proof.Bell
