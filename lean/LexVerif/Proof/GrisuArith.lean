import LexVerif.Model.Grisu
import LexVerif.Proof.DragonboxBits
import Mathlib.Tactic.Ring
/-!
# Proof.GrisuArith — the arithmetic of `compact.rs` Grisu: `mul`, `normalize`, `normalized_boundaries`

* `mul_spec`: `mul` is the half-up rounded high 64 bits of the 64×64 product (no `u64` reduction in it wraps);
  `mul_bounds`: `|mul − x·y/2^64| ≤ 1/2`.
* `boundaries_spec`: closed forms of `normalize` and `normalizedBoundaries` on a significand `m ≥ 1`, `2m+1 < 2^63`.
-/
namespace LexVerif.Proof.GrisuArith
open LexVerif.Model.Grisu LexVerif.Model.Dragonbox
open LexVerif.Proof.DragonboxBits

/-! ## `mul` -/

theorem mul32_le {a b : Nat} (ha : a < 2 ^ 32) (hb : b < 2 ^ 32) : a * b ≤ (2 ^ 32 - 1) * (2 ^ 32 - 1) :=
  Nat.mul_le_mul (by omega) (by omega)

theorem mul_spec (x y : Fp) (hx : x.mant < 2 ^ 64) (hy : y.mant < 2 ^ 64) :
    (mul x y).mant = (x.mant * y.mant + 2 ^ 63) / 2 ^ 64 ∧ (mul x y).exp = i32 (i32 (x.exp + y.exp) + 64) := by
  refine ⟨?_, rfl⟩
  obtain ⟨X, ex⟩ := x
  obtain ⟨Y, ey⟩ := y
  simp only at hx hy
  simp only [mul, u64, Nat.shiftRight_eq_div_pow, Nat.and_two_pow_sub_one_eq_mod]
  have hx1 : X / 2 ^ 32 < 2 ^ 32 := by omega
  have hx0 : X % 2 ^ 32 < 2 ^ 32 := by omega
  have hy1 : Y / 2 ^ 32 < 2 ^ 32 := by omega
  have hy0 : Y % 2 ^ 32 < 2 ^ 32 := by omega
  have hA := mul32_le hx1 hy1
  have hB := mul32_le hx1 hy0
  have hC := mul32_le hx0 hy1
  have hD := mul32_le hx0 hy0
  have hP : X * Y ≤ (2 ^ 64 - 1) * (2 ^ 64 - 1) := Nat.mul_le_mul (by omega) (by omega)
  have hsplit : X * Y = (X / 2 ^ 32) * (Y / 2 ^ 32) * 2 ^ 64
      + ((X / 2 ^ 32) * (Y % 2 ^ 32) + (X % 2 ^ 32) * (Y / 2 ^ 32)) * 2 ^ 32 + (X % 2 ^ 32) * (Y % 2 ^ 32) := by
    have h1 : X = (X / 2 ^ 32) * 2 ^ 32 + X % 2 ^ 32 := by omega
    have h2 : Y = (Y / 2 ^ 32) * 2 ^ 32 + Y % 2 ^ 32 := by omega
    generalize X / 2 ^ 32 = x1 at *
    generalize X % 2 ^ 32 = x0 at *
    generalize Y / 2 ^ 32 = y1 at *
    generalize Y % 2 ^ 32 = y0 at *
    subst h1 h2
    ring
  generalize X * Y = P at *
  generalize (X / 2 ^ 32) * (Y / 2 ^ 32) = A at *
  generalize (X / 2 ^ 32) * (Y % 2 ^ 32) = B at *
  generalize (X % 2 ^ 32) * (Y / 2 ^ 32) = C at *
  generalize (X % 2 ^ 32) * (Y % 2 ^ 32) = D at *
  omega

/-- `|mul − x·y/2^64| ≤ 1/2` -/
theorem mul_bounds (x y : Fp) (hx : x.mant < 2 ^ 64) (hy : y.mant < 2 ^ 64) :
    2 * (mul x y).mant * 2 ^ 64 ≤ 2 * (x.mant * y.mant) + 2 ^ 64
    ∧ 2 * (x.mant * y.mant) < 2 * (mul x y).mant * 2 ^ 64 + 2 ^ 64 := by
  rw [(mul_spec x y hx hy).1]
  generalize x.mant * y.mant = P
  omega

/-- the result of `mul` is a `u64` -/
theorem mul_lt (x y : Fp) (hx : x.mant < 2 ^ 64) (hy : y.mant < 2 ^ 64) : (mul x y).mant < 2 ^ 64 := by
  rw [(mul_spec x y hx hy).1]
  have hP : x.mant * y.mant ≤ (2 ^ 64 - 1) * (2 ^ 64 - 1) := Nat.mul_le_mul (by omega) (by omega)
  generalize x.mant * y.mant = P at *
  omega

example : (mul ⟨0xFFFFFFFFFFFFFFFF, -5⟩ ⟨0xFFFFFFFFFFFFFFFF, 7⟩) = ⟨0xFFFFFFFFFFFFFFFE, 66⟩ := by decide
example : (mul ⟨0x8000000000000000, -63⟩ ⟨0x8000000000000001, -63⟩) = ⟨0x4000000000000001, -62⟩ := by decide
example : (0x8000000000000000 * 0x8000000000000001 + 2 ^ 63) / 2 ^ 64 = 0x4000000000000001 := by decide

/-! ## `normalize`, `normalized_boundaries` -/

theorem log2_two_mul_add_one {m : Nat} (hm : 1 ≤ m) : Nat.log2 (2 * m + 1) = Nat.log2 m + 1 := by
  rw [Nat.log2_def (2 * m + 1)]
  have h : (2 * m + 1) / 2 = m := by omega
  rw [if_pos (by omega), h]

theorem clz64_eq {n : Nat} (hn : n ≠ 0) : clz64 n = 63 - Nat.log2 n := by
  unfold clz64; rw [if_neg hn]

/-- `normalize` on a non-zero `u64`: shift left by the number of leading zeros -/
theorem normalize_eq (n : Nat) (e : Int) (hn1 : 1 ≤ n) (hn2 : n < 2 ^ 64) :
    63 - Nat.log2 n ≤ 63 ∧ 2 ^ 63 ≤ n * 2 ^ (63 - Nat.log2 n) ∧ n * 2 ^ (63 - Nat.log2 n) < 2 ^ 64
    ∧ normalize ⟨n, e⟩ = ⟨n * 2 ^ (63 - Nat.log2 n), i32 (e - ((63 - Nat.log2 n : Nat) : Int))⟩ := by
  have hn0 : n ≠ 0 := by omega
  have hk : Nat.log2 n < 64 := (Nat.log2_lt hn0).2 hn2
  have hlo : 2 ^ Nat.log2 n ≤ n := Nat.log2_self_le hn0
  have hhi : n < 2 ^ (Nat.log2 n + 1) := Nat.lt_log2_self
  have hc := clz64_eq hn0
  generalize Nat.log2 n = k at *
  have hs : 63 - k ≤ 63 := by omega
  have e1 : 2 ^ k * 2 ^ (63 - k) = 2 ^ 63 := by rw [← Nat.pow_add]; congr 1; omega
  have e2 : 2 ^ (k + 1) * 2 ^ (63 - k) = 2 ^ 64 := by rw [← Nat.pow_add]; congr 1; omega
  have hp : 0 < 2 ^ (63 - k) := Nat.two_pow_pos _
  have b1 : 2 ^ 63 ≤ n * 2 ^ (63 - k) := by rw [← e1]; exact Nat.mul_le_mul_right _ hlo
  have b2 : n * 2 ^ (63 - k) < 2 ^ 64 := by rw [← e2]; exact Nat.mul_lt_mul_of_pos_right hhi hp
  refine ⟨hs, b1, b2, ?_⟩
  unfold normalize
  simp only [ne_eq, hn0, not_false_eq_true, if_true]
  rw [hc, shl64_nat hs, Nat.mod_eq_of_lt b2]

theorem i32_small {x : Int} (h : -2 ^ 31 ≤ x ∧ x < 2 ^ 31) : i32 x = x := by
  unfold i32; omega

theorem boundaries_spec (t : FTy) (m : Nat) (e : Int) (hm1 : 1 ≤ m) (hm2 : 2 * m + 1 < 2 ^ 63)
    (he : -100000 ≤ e ∧ e ≤ 100000) :
    let su := 63 - Nat.log2 (2 * m + 1)
    1 ≤ su ∧ su ≤ 62
    ∧ 2 ^ 63 ≤ (2 * m + 1) * 2 ^ su ∧ (2 * m + 1) * 2 ^ su < 2 ^ 64
    ∧ normalize ⟨m, e⟩ = ⟨2 * m * 2 ^ su, e - 1 - su⟩
    ∧ normalizedBoundaries t ⟨m, e⟩ =
        (⟨if m = t.hiddenBit then (4 * m - 1) * 2 ^ (su - 1) else (2 * m - 1) * 2 ^ su, e - 1 - su⟩,
         ⟨(2 * m + 1) * 2 ^ su, e - 1 - su⟩) := by
  intro su
  have hlog := log2_two_mul_add_one hm1
  have hk2 : Nat.log2 (2 * m + 1) < 63 := (Nat.log2_lt (by omega)).2 hm2
  obtain ⟨hU0, hU1, hU2, hU3⟩ := normalize_eq (2 * m + 1) (e - 1) (by omega) (by omega)
  obtain ⟨hM0, hM1, hM2, hM3⟩ := normalize_eq m e hm1 (by omega)
  have hsu : su = 63 - Nat.log2 (2 * m + 1) := rfl
  have hsm : 63 - Nat.log2 m = su + 1 := by omega
  rw [← hsu] at hU0 hU1 hU2 hU3
  rw [hsm] at hM0 hM1 hM2 hM3
  have hsu1 : 1 ≤ su := by omega
  have hsu2 : su ≤ 62 := by omega
  clear_value su
  have hpow : 2 ^ (su + 1) = 2 * 2 ^ su := by rw [Nat.pow_succ]; omega
  have hmm : m * 2 ^ (su + 1) = 2 * m * 2 ^ su := by rw [hpow]; ring
  refine ⟨hsu1, hsu2, hU1, hU2, ?_, ?_⟩
  · rw [hM3, hmm, i32_small (by omega)]
    congr 1; omega
  · have hup : normalize ⟨2 * m + 1, e - 1⟩ = ⟨(2 * m + 1) * 2 ^ su, e - 1 - su⟩ := by
      rw [hU3, i32_small (by omega)]
    have hu : u64 (2 * m + 1) = 2 * m + 1 := by unfold u64; omega
    unfold normalizedBoundaries
    simp only []
    rw [shl64_one (by omega), hu, i32_small (x := e - 1) (by omega), hup]
    simp only []
    by_cases hh : m = t.hiddenBit
    · simp only [if_pos hh]
      have h2 : ((1 : Int) + 1) = ((2 : Nat) : Int) := rfl
      have hs : i32 (i32 (e - ((2 : Nat) : Int)) - (e - 1 - (su : Int))) = ((su - 1 : Nat) : Int) := by
        rw [i32_small (x := e - ((2 : Nat) : Int)) (by omega), i32_small (by omega)]; omega
      have hp1 : 2 ^ su = 2 * 2 ^ (su - 1) := by
        rw [← Nat.pow_succ']; congr 1; omega
      have hlt : (4 * m - 1) * 2 ^ (su - 1) < 2 ^ 64 := by
        have e3 : (2 * m + 1) * 2 ^ su = (4 * m + 2) * 2 ^ (su - 1) := by rw [hp1]; ring
        have : (4 * m - 1) * 2 ^ (su - 1) ≤ (4 * m + 2) * 2 ^ (su - 1) := Nat.mul_le_mul_right _ (by omega)
        omega
      have h4 : m * 2 ^ 2 % 2 ^ 64 = 4 * m := by omega
      rw [h2, hs, shl64_nat (x := m) (by omega : 2 ≤ 63), h4, sub64_one (by omega) (by omega),
        shl64_nat (by omega), Nat.mod_eq_of_lt hlt]
    · simp only [if_neg hh]
      have h1 : ((0 : Int) + 1) = ((1 : Nat) : Int) := rfl
      have hs : i32 (i32 (e - ((1 : Nat) : Int)) - (e - 1 - (su : Int))) = ((su : Nat) : Int) := by
        rw [i32_small (x := e - ((1 : Nat) : Int)) (by omega), i32_small (by omega)]; omega
      have hlt : (2 * m - 1) * 2 ^ su < 2 ^ 64 := by
        have : (2 * m - 1) * 2 ^ su ≤ (2 * m + 1) * 2 ^ su := Nat.mul_le_mul_right _ (by omega)
        omega
      have h4 : m * 2 ^ 1 % 2 ^ 64 = 2 * m := by omega
      rw [h1, hs, shl64_nat (x := m) (by omega : 1 ≤ 63), h4, sub64_one (by omega) (by omega),
        shl64_nat (by omega), Nat.mod_eq_of_lt hlt]

/-- non-vacuity: the hypotheses hold for the f64 value `1.0` (`m = 2^52 = hiddenBit`, `e = -52`) and for `m = 3` -/
example := boundaries_spec .f64 (2 ^ 52) (-52) (by decide) (by decide) (by decide)
example : normalizedBoundaries .f64 ⟨2 ^ 52, -52⟩
    = (⟨(4 * 2 ^ 52 - 1) * 2 ^ 9, -63⟩, ⟨(2 * 2 ^ 52 + 1) * 2 ^ 10, -63⟩) := by decide +kernel
example : normalizedBoundaries .f32 ⟨3, -149⟩ = (⟨5 * 2 ^ 61, -211⟩, ⟨7 * 2 ^ 61, -211⟩) := by decide +kernel
example : normalize ⟨3, -149⟩ = ⟨2 * 3 * 2 ^ 61, -211⟩ := by decide +kernel

end LexVerif.Proof.GrisuArith
