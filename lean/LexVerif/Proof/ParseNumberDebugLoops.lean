import LexVerif.Proof.ParseNumberDebugCtx
/-!
# Proof.ParseNumberDebugLoops — steps and loops of the float syntax model under `Ctx` (any `debug` value)
-/
namespace LexVerif.Proof.PNDebug
open LexVerif LexVerif.Model
open LexVerif.Props.C12 (Bytes.Valid incCount_spec)

variable {c : Cfg}

/-! ## steps -/

theorem stepUnchecked_ok (cx : Ctx c) (contig : Bool) (b : Bytes) (hlt : b.index < b.slc.length)
    (hns : contig = true ∨ b.slc[b.index]? ≠ some 0) :
    b.stepUnchecked c contig = .ok { b with index := b.index + 1 } := by
  unfold Bytes.stepUnchecked Bytes.stepBy
  rw [cx.sep0]
  have h1 : decide (b.index ≥ b.slc.length) = false := by simp; omega
  have h2 : decide (b.index > b.slc.length) = false := by simp; omega
  have h3 : decide (b.slc.length - b.index < 1) = false := by simp; omega
  simp only [h1, h2, h3, Bool.and_false, Bool.false_eq_true, if_false]
  rcases hns with h | h
  · simp [h]
  · simp [h]

theorem step_ok (cx : Ctx c) (b : Bytes) (hlt : b.index < b.slc.length) :
    b.step c = .ok { b with index := b.index + 1 } := by
  unfold Bytes.step
  exact stepUnchecked_ok cx _ b hlt (Or.inl cx.bc)

theorem iterStep_ok (cx : Ctx c) (k : Comp) (b : Bytes) (hlt : b.index < b.slc.length)
    (hns : b.slc[b.index]? ≠ some 0) : iterStep c k b = .ok { b with index := b.index + 1 } :=
  stepUnchecked_ok cx _ b hlt (Or.inr hns)

theorem stepBy8_ok (b : Bytes) (h8 : b.index + 8 ≤ b.slc.length) :
    b.stepBy c true 8 = .ok { b with index := b.index + 8 } := by
  unfold Bytes.stepBy
  have h2 : decide (b.index > b.slc.length) = false := by simp; omega
  have h3 : decide (b.slc.length - b.index < 8) = false := by simp; omega
  simp [h2, h3]

theorem get_lt {s : List Nat} {i x : Nat} (h : s[i]? = some x) : i < s.length := by
  rcases List.getElem?_eq_some_iff.mp h with ⟨hl, _⟩; exact hl

theorem currentCount_eq (cx : Ctx c) (b : Bytes) : b.currentCount c = b.index := by
  simp [Bytes.currentCount, cx.bc]

/-- `b'` is `b` moved forward inside the same buffer -/
def Adv (b b' : Bytes) : Prop := b'.slc = b.slc ∧ b.index ≤ b'.index ∧ Bytes.Valid b'

theorem Adv.refl {b : Bytes} (h : Bytes.Valid b) : Adv b b := ⟨rfl, Nat.le_refl _, h⟩
theorem Adv.trans {a b d : Bytes} (h1 : Adv a b) (h2 : Adv b d) : Adv a d :=
  ⟨h2.1.trans h1.1, Nat.le_trans h1.2.1 h2.2.1, h2.2.2⟩

theorem adv_step {b : Bytes} (hlt : b.index < b.slc.length) : Adv b { b with index := b.index + 1 } :=
  ⟨rfl, Nat.le_succ _, by unfold Bytes.Valid; simp only; omega⟩

theorem adv_inc (k : Comp) {b b' : Bytes} (h : Adv b b') : Adv b (b'.incCount c k) := by
  have hi := incCount_spec c k b'
  exact ⟨hi.1.trans h.1, by rw [hi.2]; exact h.2.1, by unfold Bytes.Valid; rw [hi.1, hi.2]; exact h.2.2⟩

/-! ## `read_if_value*` -/

theorem readIfValueCased_safe (cx : Ctx c) (k : Comp) (v : Nat) (hv : v ≠ 0) (b : Bytes) (hb : Bytes.Valid b) :
    Safe (readIfValueCased c k v b) (fun r => Adv b r.2 ∧
      ((r.1 = true ∧ b.slc[b.index]? = some v ∧ r.2 = { b with index := b.index + 1 }) ∨ (r.1 = false ∧ r.2 = b ∧ b.slc[b.index]? ≠ some v))) := by
  unfold readIfValueCased
  simp only [cx.peekEq, bind, Except.bind]
  split
  · next h =>
    have h : b.slc[b.index]? = some v := by simpa using h
    have hlt := get_lt h
    rw [iterStep_ok cx k b hlt (by rw [h]; simp; exact hv)]
    exact ⟨adv_step hlt, Or.inl ⟨rfl, h, rfl⟩⟩
  · next h =>
    exact ⟨Adv.refl hb, Or.inr ⟨rfl, rfl, by simpa using h⟩⟩

theorem eqIgnoreCase_zero {v : Nat} (h : eqIgnoreCase 0 v = true) : v = 0 := by
  unfold eqIgnoreCase lowerAscii at h
  simp at h
  split at h <;> omega

theorem readIfValue_safe (cx : Ctx c) (k : Comp) (v : Nat) (hv : v ≠ 0) (cased : Bool) (b : Bytes) (hb : Bytes.Valid b) :
    Safe (readIfValue c k v cased b) (fun r => Adv b r.2) := by
  unfold readIfValue
  split
  · exact (readIfValueCased_safe cx k v hv b hb).mono (fun _ h => h.1)
  · unfold readIfValueUncased
    simp only [cx.peekEq, bind, Except.bind]
    cases hx : b.slc[b.index]? with
    | none => exact Adv.refl hb
    | some y =>
      simp only
      split
      · next he =>
        have hlt := get_lt hx
        have hy : y ≠ 0 := by
          intro h0; subst h0; exact hv (eqIgnoreCase_zero he)
        rw [iterStep_ok cx k b hlt (by rw [hx]; simp; exact hy)]
        exact adv_step hlt
      · exact Adv.refl hb

/-! ## `skip_zeros` -/

/-- every byte at `[i, j)` is `'0'` -/
def ZeroRange (s : List Nat) (i j : Nat) : Prop := ∀ n, i ≤ n → n < j → s[n]? = some 48

theorem iterCount_step (cx : Ctx c) (k : Comp) (hk : k ≠ .special) (b : Bytes) :
    Bytes.iterCount c k (Bytes.incCount c k { b with index := b.index + 1 }) = Bytes.iterCount c k b + 1 := by
  cases hic : c.iterContiguous k
  · have hf : c.feats.format = true := by
      cases hff : c.feats.format
      · have := cx.nfContig hff k; simp [hic] at this
      · rfl
    cases k <;> simp_all [Bytes.iterCount, Bytes.incCount]
  · have hi := incCount_spec c k { b with index := b.index + 1 }
    simp only [Bytes.iterCount, hic, if_true, Bytes.currentCount, cx.bc, hi.2]

theorem skipZerosLoop_safe (cx : Ctx c) (k : Comp) (hk : k ≠ .special) :
    ∀ (fuel : Nat) (b : Bytes), Bytes.Valid b → b.slc.length - b.index < fuel →
      Safe (skipZerosLoop c k fuel b) (fun b' => Adv b b' ∧ ZeroRange b.slc b.index b'.index ∧
        b.slc[b'.index]? ≠ some 48 ∧ b'.iterCount c k = b.iterCount c k + (b'.index - b.index)) := by
  intro fuel
  induction fuel with
  | zero => intro b _ h; omega
  | succ n ih =>
    intro b hb hf
    unfold skipZerosLoop
    refine Safe.bind (readIfValueCased_safe cx k 48 (by decide) b hb) ?_
    rintro ⟨hit, b1⟩ ⟨hadv, hcase⟩
    simp only at hcase ⊢
    rcases hcase with ⟨rfl, hx, rfl⟩ | ⟨rfl, rfl, hx⟩
    · simp only [if_true]
      have hlt := get_lt hx
      have hi := incCount_spec c k { b with index := b.index + 1 }
      have hv2 : Bytes.Valid (Bytes.incCount c k { b with index := b.index + 1 }) := (adv_inc k hadv).2.2
      have hf2 : (Bytes.incCount c k { b with index := b.index + 1 }).slc.length
          - (Bytes.incCount c k { b with index := b.index + 1 }).index < n := by
        rw [hi.1, hi.2]; simp only; omega
      refine (ih _ hv2 hf2).mono ?_
      intro b' ⟨ha, hz, hne, hcnt⟩
      rw [hi.1, hi.2] at hz
      rw [hi.1] at hne
      rw [hi.2] at hcnt
      simp only at hz hne hcnt
      have hadv2 := (adv_inc (c := c) k hadv).trans ha
      have hle : b.index + 1 ≤ b'.index := by have := ha.2.1; rw [hi.2] at this; exact this
      refine ⟨hadv2, ?_, hne, ?_⟩
      · intro m h1 h2
        by_cases hm : m = b.index
        · subst hm; exact hx
        · exact hz m (by omega) h2
      · rw [hcnt, iterCount_step cx k hk b]; omega
    · simp only [Bool.false_eq_true, if_false]
      exact ⟨hadv, fun m h1 h2 => by omega, hx, by simp⟩

theorem skipZeros_safe (cx : Ctx c) (k : Comp) (hk : k ≠ .special) (b : Bytes) (hb : Bytes.Valid b) :
    Safe (skipZeros c k b) (fun r => Adv b r.2 ∧ ZeroRange b.slc b.index r.2.index ∧
      b.slc[r.2.index]? ≠ some 48 ∧ r.1 = r.2.index - b.index) := by
  unfold skipZeros
  refine Safe.bind (skipZerosLoop_safe cx k hk _ b hb (by omega)) ?_
  intro b' ⟨ha, hz, hne, hcnt⟩
  exact ⟨ha, hz, hne, by simp only; omega⟩

/-! ## `parse_digits` -/

theorem parseDigitsLoop_safe (cx : Ctx c) (k : Comp) (radix : Nat) (hr : radix ≤ 36) :
    ∀ (fuel : Nat) (b : Bytes), Bytes.Valid b → b.slc.length - b.index < fuel →
      Safe (parseDigitsLoop c k radix fuel b) (fun r => Adv b r.2 ∧ DigRange radix b.slc b.index r.2.index) := by
  intro fuel
  induction fuel with
  | zero => intro b _ h; omega
  | succ n ih =>
    intro b hb hf
    unfold parseDigitsLoop
    simp only [cx.peekEq, bind, Except.bind]
    cases hx : b.slc[b.index]? with
    | none => exact ⟨Adv.refl hb, DigRange.refl _ _ _⟩
    | some ch =>
      simp only
      cases hd : charToDigit ch radix with
      | none => exact ⟨Adv.refl hb, DigRange.refl _ _ _⟩
      | some d =>
        simp only
        have hlt := get_lt hx
        have hdig := charToDigit_some hd
        have hch : ch ≠ 0 := by
          intro h0; subst h0; exact not_isDig_zero hr hdig
        rw [iterStep_ok cx k b hlt (by rw [hx]; simp; exact hch)]
        simp only
        have hi := incCount_spec c k { b with index := b.index + 1 }
        have hadv : Adv b (Bytes.incCount c k { b with index := b.index + 1 }) := adv_inc k (adv_step hlt)
        have hf2 : (Bytes.incCount c k { b with index := b.index + 1 }).slc.length
            - (Bytes.incCount c k { b with index := b.index + 1 }).index < n := by
          rw [hi.1, hi.2]; simp only; omega
        have hrec := ih _ hadv.2.2 hf2
        cases hres : parseDigitsLoop c k radix n (Bytes.incCount c k { b with index := b.index + 1 }) with
        | error e =>
          rw [hres] at hrec
          cases e <;> simp_all [Safe]
        | ok r2 =>
          rw [hres] at hrec
          obtain ⟨ds2, b2⟩ := r2
          obtain ⟨ha, hdr⟩ := hrec
          rw [hi.1, hi.2] at hdr
          simp only [pure, Except.pure]
          exact ⟨hadv.trans ha, (DigRange.step hx hdig).trans hdr⟩

theorem parseDigits_safe (cx : Ctx c) (k : Comp) (radix : Nat) (hr : radix ≤ 36) (b : Bytes) (hb : Bytes.Valid b) :
    Safe (parseDigits c k radix b) (fun r => Adv b r.2 ∧ DigRange radix b.slc b.index r.2.index) :=
  parseDigitsLoop_safe cx k radix hr _ b hb (by omega)

end LexVerif.Proof.PNDebug
