import LexVerif.Proof.ParseNumberDebugCtx
import LexVerif.Proof.ParseNumberTotal
/-!
# Proof.ParseNumberDebugLoops — steps and loops of the float syntax model under `Ctx` (any `debug` value)

`Adv` (same buffer, cursor forward and in range, counts grow at most by the cursor distance) is the invariant of
`Proof/ParseNumberTotal.lean`; here every `step_unchecked` additionally has to be shown *not on the separator*.
-/
namespace LexVerif.Proof.PNDebug
open LexVerif LexVerif.Model
open LexVerif.Props.C12 (Bytes.Valid incCount_spec peek_spec peek_error_iff)
open LexVerif.Proof.PNTotal (Adv csum step_adv incCount_adv incCount_csum)

variable {c : Cfg}

/-! ## steps -/

theorem stepUnchecked_ok (contig : Bool) (b : Bytes) (hlt : b.index < b.slc.length)
    (hns : contig = true ∨ b.slc[b.index]? ≠ some c.fmt.digitSeparator) :
    b.stepUnchecked c contig = .ok { b with index := b.index + 1 } := by
  unfold Bytes.stepUnchecked Bytes.stepBy
  have h1 : decide (b.index ≥ b.slc.length) = false := by simp; omega
  have h2 : decide (b.index > b.slc.length) = false := by simp; omega
  have h3 : decide (b.slc.length - b.index < 1) = false := by simp; omega
  simp only [h1, h2, h3, Bool.and_false, Bool.false_eq_true, if_false]
  rcases hns with h | h
  · simp [h]
  · simp [h]

theorem step_ok (b : Bytes) (hlt : b.index < b.slc.length)
    (hns : c.bytesContiguous = true ∨ b.slc[b.index]? ≠ some c.fmt.digitSeparator) :
    b.step c = .ok { b with index := b.index + 1 } := by
  unfold Bytes.step
  exact stepUnchecked_ok _ b hlt hns

theorem iterStep_ok (k : Comp) (b : Bytes) (hlt : b.index < b.slc.length)
    (hns : c.iterContiguous k = true ∨ b.slc[b.index]? ≠ some c.fmt.digitSeparator) :
    iterStep c k b = .ok { b with index := b.index + 1 } :=
  stepUnchecked_ok _ b hlt hns

theorem stepBy8_ok (b : Bytes) (h8 : b.index + 8 ≤ b.slc.length) :
    b.stepBy c true 8 = .ok { b with index := b.index + 8 } := by
  unfold Bytes.stepBy
  have h2 : decide (b.index > b.slc.length) = false := by simp; omega
  have h3 : decide (b.slc.length - b.index < 8) = false := by simp; omega
  simp [h2, h3]

theorem get_lt {s : List Nat} {i x : Nat} (h : s[i]? = some x) : i < s.length := by
  rcases List.getElem?_eq_some_iff.mp h with ⟨hl, _⟩; exact hl

/-- a byte that is a digit is not the separator -/
theorem ne_sep_of_dig {r x : Nat} {s : List Nat} {i : Nat} (hs : ¬ IsDig r c.fmt.digitSeparator) (hx : s[i]? = some x)
    (hd : IsDig r x) : s[i]? ≠ some c.fmt.digitSeparator := by
  rw [hx]; intro h; cases h; exact hs hd

/-! ## counts -/

theorem currentCount_bc (hbc : c.bytesContiguous = true) (b : Bytes) : b.currentCount c = b.index := by
  simp [Bytes.currentCount, hbc]

theorem count_le {b b' : Bytes} (h : Adv b b') : b'.currentCount c - b.currentCount c ≤ b'.index - b.index := by
  unfold Bytes.currentCount
  split
  · exact Nat.le_refl _
  · have := h.cnt; simp only [csum] at this; omega

theorem adv_refl {b : Bytes} (h : Bytes.Valid b) : Adv b b := Adv.refl b h

theorem adv_step1 {b0 b : Bytes} (ha : Adv b0 b) (hlt : b.index < b.slc.length) :
    Adv b0 { b with index := b.index + 1 } := ha.trans (step_adv b 1 hlt)

/-- a counted step: cursor + 1, then `increment_count` -/
theorem adv_step_inc (k : Comp) {b0 b : Bytes} (ha : Adv b0 b) (hlt : b.index < b.slc.length) :
    Adv b0 (Bytes.incCount c k { b with index := b.index + 1 }) := by
  refine incCount_adv k (adv_step1 ha hlt) ?_
  have := ha.cnt
  simp only [csum] at *
  omega

/-! ## `peek` -/

theorem peek_gen (cx : Ctx c) (k : Comp) (b : Bytes) (hv : Bytes.Valid b) :
    ∃ v b', peek c k b = .ok (v, b') ∧ Adv b b' ∧ v = b'.slc[b'.index]? ∧ csum b' = csum b := by
  cases hp : peek c k b with
  | error e => exact absurd ((peek_error_iff c k b).mp ⟨e, hp⟩) (cx.skipOk k)
  | ok r =>
    obtain ⟨v, b'⟩ := r
    have h := peek_spec c k b b' v hv hp
    refine ⟨v, b', rfl, ⟨h.1, ?_, h.2.2.2.2.1, ?_⟩, h.2.2.2.2.2.2, ?_⟩
    · have := h.2.2.2.2.2.1; unfold Bytes.Valid at this; rw [h.1] at this; exact this
    · simp only [csum, h.2.1, h.2.2.1, h.2.2.2.1]; omega
    · simp only [csum, h.2.1, h.2.2.1, h.2.2.2.1]

theorem peek_ok (cx : Ctx c) (k : Comp) (b : Bytes) : ∃ r, peek c k b = .ok r := by
  cases hp : peek c k b with
  | error e => exact absurd ((peek_error_iff c k b).mp ⟨e, hp⟩) (cx.skipOk k)
  | ok r => exact ⟨r, rfl⟩

/-- the iterator never skips -/
def PeekTriv (c : Cfg) (k : Comp) : Prop := ∀ b, peek c k b = .ok (b.slc[b.index]?, b)

/-! ## `read_if_value*` -/

theorem readIfValueCased_safe (cx : Ctx c) (k : Comp) (v : Nat)
    (hv : c.iterContiguous k = true ∨ v ≠ c.fmt.digitSeparator) (b : Bytes) (hb : Bytes.Valid b) :
    Safe (readIfValueCased c k v b) (fun r => Adv b r.2 ∧
      (r.1 = true → b.index < r.2.index ∧ csum r.2 + b.index + 1 ≤ csum b + r.2.index)) := by
  obtain ⟨x, b1, hp, ha, hx, hcs⟩ := peek_gen cx k b hb
  unfold readIfValueCased
  simp only [hp, bind, Except.bind]
  split
  · next heq =>
    have hxv : b1.slc[b1.index]? = some v := by rw [← hx]; simpa using heq
    have hlt := get_lt hxv
    rw [iterStep_ok k b1 hlt (by
      rcases hv with h | h
      · exact Or.inl h
      · right; rw [hxv]; intro he; cases he; exact h rfl)]
    refine ⟨adv_step1 ha hlt, ?_⟩
    intro _; have := ha.mono; have := ha.cnt; simp only [csum] at *; omega
  · exact ⟨ha, by simp⟩

theorem matchesB_ne {x v s : Nat} {cased : Bool} (hm : matchesB x v cased = true) (hs : matchesB s v cased = false) :
    x ≠ s := by
  intro h; subst h; rw [hm] at hs; cases hs

theorem readIfValue_safe (cx : Ctx c) (k : Comp) (v : Nat) (cased : Bool)
    (hv : c.iterContiguous k = true ∨ matchesB c.fmt.digitSeparator v cased = false) (b : Bytes) (hb : Bytes.Valid b) :
    Safe (readIfValue c k v cased b) (fun r => Adv b r.2) := by
  unfold readIfValue
  split
  · next hc =>
    refine (readIfValueCased_safe cx k v ?_ b hb).mono (fun _ h => h.1)
    rcases hv with h | h
    · exact Or.inl h
    · right; intro he
      subst hc
      simp [matchesB, he] at h
  · next hc =>
    obtain ⟨x, b1, hp, ha, hx, _⟩ := peek_gen cx k b hb
    unfold readIfValueUncased
    simp only [hp, bind, Except.bind]
    cases x with
    | none => exact ha
    | some y =>
      simp only
      split
      · next he =>
        have hlt := get_lt hx.symm
        rw [iterStep_ok k b1 hlt (by
          rcases hv with h | h
          · exact Or.inl h
          · right; rw [← hx]; intro hh; cases hh
            have hcf : cased = false := by simpa using hc
            subst hcf
            simp [matchesB, he] at h)]
        exact adv_step1 ha hlt
      · exact ha

/-! ## `skip_zeros` -/

theorem zero_ne_sep (cx : Ctx c) : (48 : Nat) ≠ c.fmt.digitSeparator := by
  intro h
  apply cx.sepNotDigM
  rw [← h]
  unfold IsDig charToValidDigit
  have := cx.r2
  split <;> simp <;> omega

theorem skipZerosLoop_safe (cx : Ctx c) (k : Comp) :
    ∀ (fuel : Nat) (b : Bytes), Bytes.Valid b → b.slc.length - b.index < fuel →
      Safe (skipZerosLoop c k fuel b) (fun b' => Adv b b') := by
  intro fuel
  induction fuel with
  | zero => intro b _ h; omega
  | succ n ih =>
    intro b hb hf
    unfold skipZerosLoop
    refine Safe.bind (readIfValueCased_safe cx k 48 (Or.inr (zero_ne_sep cx)) b hb) ?_
    rintro ⟨hit, b1⟩ ⟨ha, hlt⟩
    have ha : Adv b b1 := ha
    simp only at hlt ⊢
    cases hit with
    | false => simp only [Bool.false_eq_true, if_false]; exact ha
    | true =>
      simp only [if_true]
      obtain ⟨hlt, hcs⟩ : b.index < b1.index ∧ csum b1 + b.index + 1 ≤ csum b + b1.index := hlt rfl
      have ha2 := incCount_adv (c := c) k ha hcs
      have hi := incCount_spec c k b1
      have hl : (Bytes.incCount c k b1).slc.length = b.slc.length := by rw [hi.1, ha.len]
      have hi2 := hi.2
      have hva := ha.valid
      have hlt2 : b.index < b1.index := hlt
      have hva2 : b1.index ≤ b.slc.length := hva
      refine (ih (Bytes.incCount c k b1) ha2.valid' (by omega)).mono ?_
      intro b2 ha3
      exact ha2.trans ha3

theorem skipZeros_safe (cx : Ctx c) (k : Comp) (b : Bytes) (hb : Bytes.Valid b) :
    Safe (skipZeros c k b) (fun r => Adv b r.2) := by
  unfold skipZeros
  refine Safe.bind (skipZerosLoop_safe cx k _ b hb (by omega)) ?_
  intro b' ha
  exact ha

/-- every byte at `[i, j)` is `'0'` -/
def ZeroRange (s : List Nat) (i j : Nat) : Prop := ∀ n, i ≤ n → n < j → s[n]? = some 48

theorem iterCount_step (cx : Ctx c) (k : Comp) (hk : k ≠ .special) (b : Bytes) :
    Bytes.iterCount c k (Bytes.incCount c k { b with index := b.index + 1 }) = Bytes.iterCount c k b + 1 := by
  cases hic : c.iterContiguous k
  · have hf : c.feats.format = true := by
      cases hff : c.feats.format
      · have := cx.nfContig hff k; simp [hic] at this
      · rfl
    cases k <;> simp_all [Bytes.iterCount, Bytes.incCount]
  · have hi := incCount_spec c k { b with index := b.index + 1 }
    simp only [Bytes.iterCount, hic, if_true, hi.2]

theorem readIfValueCased_hit (cx : Ctx c) (hbc : c.bytesContiguous = true) (k : Comp) (b : Bytes)
    (hx : b.slc[b.index]? = some 48) :
    readIfValueCased c k 48 b = .ok (true, { b with index := b.index + 1 }) := by
  unfold readIfValueCased
  simp only [peek_triv c cx k (Or.inl hbc), bind, Except.bind, hx, beq_self_eq_true, if_true]
  rw [iterStep_ok k b (get_lt hx) (Or.inr (by rw [hx]; intro he; exact zero_ne_sep cx (Option.some.inj he)))]
  rfl

theorem readIfValueCased_miss (cx : Ctx c) (hbc : c.bytesContiguous = true) (k : Comp) (v : Nat) (b : Bytes)
    (hx : b.slc[b.index]? ≠ some v) : readIfValueCased c k v b = .ok (false, b) := by
  unfold readIfValueCased
  simp only [peek_triv c cx k (Or.inl hbc), bind, Except.bind]
  rw [if_neg (by simpa using hx)]
  rfl

/-- exact description of `skip_zeros` when `Bytes::IS_CONTIGUOUS` (for the counting argument of obligation (f)) -/
theorem skipZerosLoop_exact (cx : Ctx c) (hbc : c.bytesContiguous = true) (k : Comp) (hk : k ≠ .special) :
    ∀ (fuel : Nat) (b b' : Bytes), skipZerosLoop c k fuel b = .ok b' →
      b'.slc = b.slc ∧ b.index ≤ b'.index ∧ ZeroRange b.slc b.index b'.index ∧
        b.slc[b'.index]? ≠ some 48 ∧ b'.iterCount c k = b.iterCount c k + (b'.index - b.index) := by
  intro fuel
  induction fuel with
  | zero => intro b b' h; simp [skipZerosLoop] at h
  | succ n ih =>
    intro b b' h
    unfold skipZerosLoop at h
    by_cases hx : b.slc[b.index]? = some 48
    · have hlt := get_lt hx
      rw [readIfValueCased_hit cx hbc k b hx] at h
      simp only [bind, Except.bind, if_true] at h
      have hi := incCount_spec c k { b with index := b.index + 1 }
      obtain ⟨h1, h2, h3, h4, h5⟩ := ih _ _ h
      rw [hi.1] at h1 h3 h4
      rw [hi.2] at h2 h3 h5
      simp only at h1 h2 h3 h4 h5
      refine ⟨h1, by omega, ?_, h4, ?_⟩
      · intro m hm1 hm2
        by_cases hm : m = b.index
        · subst hm; exact hx
        · exact h3 m (by omega) hm2
      · rw [h5, iterCount_step cx k hk b]; omega
    · rw [readIfValueCased_miss cx hbc k 48 b hx] at h
      simp only [bind, Except.bind, Bool.false_eq_true, if_false, pure, Except.pure, Except.ok.injEq] at h
      subst h
      exact ⟨rfl, Nat.le_refl _, fun m h1 h2 => by omega, hx, by simp⟩

theorem skipZeros_exact (cx : Ctx c) (hbc : c.bytesContiguous = true) (k : Comp) (hk : k ≠ .special)
    (b b' : Bytes) (n : Nat) (h : skipZeros c k b = .ok (n, b')) :
    b'.slc = b.slc ∧ b.index ≤ b'.index ∧ ZeroRange b.slc b.index b'.index ∧
      b.slc[b'.index]? ≠ some 48 ∧ n = b'.index - b.index := by
  unfold skipZeros at h
  cases hl : skipZerosLoop c k (b.slc.length + 1) b with
  | error e => simp [hl, bind, Except.bind] at h
  | ok b1 =>
    simp only [hl, bind, Except.bind, pure, Except.pure, Except.ok.injEq, Prod.mk.injEq] at h
    obtain ⟨hn, rfl⟩ := h
    obtain ⟨h1, h2, h3, h4, h5⟩ := skipZerosLoop_exact cx hbc k hk _ _ _ hl
    exact ⟨h1, h2, h3, h4, by omega⟩

/-! ## `parse_digits` -/

theorem parseDigitsLoop_safe (cx : Ctx c) (k : Comp) (radix : Nat) (hsd : ¬ IsDig radix c.fmt.digitSeparator) :
    ∀ (fuel : Nat) (b : Bytes), Bytes.Valid b → b.slc.length - b.index < fuel →
      Safe (parseDigitsLoop c k radix fuel b) (fun r => Adv b r.2 ∧
        (PeekTriv c k → DigRange radix b.slc b.index r.2.index)) := by
  intro fuel
  induction fuel with
  | zero => intro b _ h; omega
  | succ n ih =>
    intro b hb hf
    obtain ⟨x, b1, hp, ha, hx, _⟩ := peek_gen cx k b hb
    have htriv : PeekTriv c k → b1 = b := by
      intro ht
      have := ht b
      rw [hp] at this
      simp only [Except.ok.injEq, Prod.mk.injEq] at this
      exact this.2
    unfold parseDigitsLoop
    simp only [hp, bind, Except.bind]
    cases x with
    | none => exact ⟨ha, fun ht => by rw [htriv ht]; exact DigRange.refl _ _ _⟩
    | some ch =>
      simp only
      cases hd : charToDigit ch radix with
      | none => exact ⟨ha, fun ht => by rw [htriv ht]; exact DigRange.refl _ _ _⟩
      | some d =>
        simp only
        have hxs : b1.slc[b1.index]? = some ch := hx.symm
        have hlt := get_lt hxs
        have hdig := charToDigit_some hd
        rw [iterStep_ok k b1 hlt (Or.inr (ne_sep_of_dig hsd hxs hdig))]
        simp only
        have hi := incCount_spec c k { b1 with index := b1.index + 1 }
        have hadv : Adv b (Bytes.incCount c k { b1 with index := b1.index + 1 }) := adv_step_inc k ha hlt
        have hf2 : (Bytes.incCount c k { b1 with index := b1.index + 1 }).slc.length
            - (Bytes.incCount c k { b1 with index := b1.index + 1 }).index < n := by
          rw [hi.1, hi.2]; simp only
          have := ha.mono; have := ha.len; omega
        have hrec := ih _ hadv.valid' hf2
        cases hres : parseDigitsLoop c k radix n (Bytes.incCount c k { b1 with index := b1.index + 1 }) with
        | error e =>
          rw [hres] at hrec
          cases e <;> simp_all [Safe]
        | ok r2 =>
          rw [hres] at hrec
          obtain ⟨ds2, b2⟩ := r2
          obtain ⟨ha2, hdr⟩ := hrec
          simp only [pure, Except.pure]
          refine ⟨hadv.trans ha2, ?_⟩
          intro ht
          have hb1 := htriv ht
          subst hb1
          have hdr := hdr ht
          rw [hi.1, hi.2] at hdr
          exact (DigRange.step hxs hdig).trans hdr

theorem parseDigits_safe (cx : Ctx c) (k : Comp) (radix : Nat) (hsd : ¬ IsDig radix c.fmt.digitSeparator)
    (b : Bytes) (hb : Bytes.Valid b) :
    Safe (parseDigits c k radix b) (fun r => Adv b r.2 ∧ (PeekTriv c k → DigRange radix b.slc b.index r.2.index)) :=
  parseDigitsLoop_safe cx k radix hsd _ b hb (by omega)

end LexVerif.Proof.PNDebug
