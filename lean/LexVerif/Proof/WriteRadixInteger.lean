import LexVerif.Proof.WriteRadixF
import LexVerif.Proof.Numeral
/-!
# Proof.WriteRadixInteger — the full radix.rs model on integral floats below `2^p` (Mathlib-free)

`generate_integral`: for the float of an integer `0 < n < 2^p`, digit generation of `Model.WriteRadix` (exact IEEE
arithmetic, no assumption) yields the canonical numeral `toDigits r n` as integer digits, no fraction digits, nothing
left behind: `float - floor(float) = 0` skips the fraction loop, `(n / r).exponent() ≤ 0` skips the zero padding and the
digit loop is the radix conversion because `%`, `-`, `/` are exact there (`Proof.WriteRadixF`).
-/
namespace LexVerif.Proof.WriteRadixInteger
open LexVerif.Spec LexVerif.Proof.RoundNE LexVerif.Proof.WriteRadixF
open LexVerif.Model.WriteRadix
open LexVerif.Model.WriteInt (Res)

theorem digitToCharConst_eq {d r : Nat} (hd : d < r) (hr : r ≤ 36) : digitToCharConst d r = digitChar d := by
  unfold digitToCharConst digitChar
  split <;> split <;> omega

theorem digitLoop_ofNat {f : Fmt} (h : FOK f) {r : Nat} (hr : 2 ≤ r) (hr36 : r ≤ 36) (hrp : r < 2 * 2 ^ (f.p - 1)) :
    ∀ (fuel n : Nat) (acc : List Nat), 0 < n → n < 2 * 2 ^ (f.p - 1) → n < 2 ^ fuel →
      digitLoop f r (ofNat f r) fuel (ofNat f n) acc = .ok ((toDigits r n).map digitChar ++ acc)
  | 0, n, _, h0, _, hf => by simp at hf; omega
  | fuel + 1, n, acc, h0, hl, hf => by
    have hr0 : 0 < r := by omega
    have hmodlt : n % r < r := Nat.mod_lt _ hr0
    have hmodl : n % r < 2 * 2 ^ (f.p - 1) := by omega
    have hrem := fmod_ofNat h hl hrp hr0
    have hsub := fsub_ofNat h hl (Nat.mod_le n r)
    have hdvd : r ∣ n - n % r := by
      have := Nat.div_add_mod n r
      exact ⟨n / r, by omega⟩
    have hquo : fdiv f (ofNat f (n - n % r)) (ofNat f r) = ofNat f (n / r) := by
      rw [fdiv_ofNat h (by omega) hrp hr0 hdvd]
      have := Nat.div_add_mod n r
      have e : n - n % r = r * (n / r) := by omega
      rw [e, Nat.mul_div_cancel_left _ hr0]
    have hql : n / r < 2 * 2 ^ (f.p - 1) := Nat.lt_of_le_of_lt (Nat.div_le_self _ _) hl
    unfold digitLoop
    simp only [hrem, hsub, hquo, asU32_ofNat h hmodl (by omega), digitToCharConst_eq hmodlt hr36,
      ofNat_eq_zero h hql]
    by_cases hq : n / r = 0
    · rw [if_pos hq]
      have hlt : n < r := by
        rcases Nat.lt_or_ge n r with h | h
        · exact h
        · have := Nat.div_pos h hr0; omega
      rw [toDigits_lt r n hlt, Nat.mod_eq_of_lt hlt]; rfl
    · rw [if_neg hq]
      have hge : r ≤ n := by
        rcases Nat.lt_or_ge n r with h | h
        · exact absurd (Nat.div_eq_of_lt h) hq
        · exact h
      have hqlt : n / r < 2 ^ fuel := by
        have : n / r ≤ n / 2 := Nat.div_le_div_left hr (by decide)
        have : n / 2 < 2 ^ fuel := by rw [Nat.pow_succ] at hf; omega
        omega
      rw [digitLoop_ofNat h hr hr36 hrp fuel (n / r) _ (Nat.pos_of_ne_zero hq) hql hqlt, toDigits_step r n hr hge]
      simp

theorem ffloor_ofNat {f : Fmt} (h : FOK f) {n : Nat} (hn : n < 2 * 2 ^ (f.p - 1)) : ffloor f (ofNat f n) = ofNat f n := by
  obtain ⟨hv, hfin⟩ := ofNat_ival h hn
  apply ival_inj f
  rw [(ffloor_exact h.wf hfin).1, hv, Nat.mul_div_cancel _ (unit_pos f)]

theorem fsub_self (f : Fmt) (a : Nat) : fsub f a a = 0 := by
  unfold fsub; rw [Nat.sub_self]; exact roundNE_zero f _

/-- the fraction loop is skipped for an integral float -/
theorem genFraction_integral (cf : Bool) {f : Fmt} (h : FOK f) (r : Nat) {n : Nat} (hn : n < 2 * 2 ^ (f.p - 1)) :
    genFraction cf f r (ofNat f n) = .ok ([], [], false) := by
  unfold genFraction
  simp only [ffloor_ofNat h hn, fsub_self]
  rw [if_neg (Nat.not_lt_zero _)]

/-- **integer exactness on the full model**: digits of an integral float below `2^p` -/
theorem generate_integral (cf : Bool) {f : Fmt} (h : FOK f) (hp : f.p ≤ halfSize) {r : Nat} (hr : 2 ≤ r) (hr36 : r ≤ 36)
    (hrp : r < 2 * 2 ^ (f.p - 1)) {n : Nat} (h0 : 0 < n) (hn : n < 2 * 2 ^ (f.p - 1)) :
    generate cf f r (ofNat f n) = .ok ⟨(toDigits r n).map digitChar, [], []⟩ := by
  have hexp := exponent_fdiv_ofNat h hn hrp (by omega : 0 < r)
  have hfuel : n < 2 ^ halfSize := by
    have h2 : 2 * 2 ^ (f.p - 1) = 2 ^ f.p := by
      rw [show f.p = (f.p - 1) + 1 by have := h.wf.hp; omega, Nat.pow_succ]; simp; ac_rfl
    exact Nat.lt_of_lt_of_le hn (by rw [h2]; exact Nat.pow_le_pow_right (by decide) hp)
  have hpad : padLoop f (ofNat f r) halfSize (ofNat f n) [] = .ok (ofNat f n, [], halfSize) := by
    show padLoop f (ofNat f r) (1099 + 1) (ofNat f n) [] = _
    unfold padLoop
    rw [if_neg (by omega)]
    rfl
  unfold generate
  rw [genFraction_integral cf h r hn]
  simp only [Res.bind, ffloor_ofNat h hn, Bool.false_eq_true, ↓reduceIte, genInteger, hpad,
    digitLoop_ofNat h hr hr36 hrp halfSize n [] h0 hn hfuel, List.append_nil]

end LexVerif.Proof.WriteRadixInteger
