import LexVerif.Proof.ParseNumberDebugPhases
/-!
# Proof.ParseNumberDebugMain — the many-digits re-scan, `parse_number`, specials, `parse_complete/partial`
-/
namespace LexVerif.Proof.PNDebug
open LexVerif LexVerif.Model LexVerif.Spec
open LexVerif.Props.C12 (Bytes.Valid incCount_spec)
open LexVerif.Proof.PNTotal (Adv csum step_adv)

variable {c : Cfg}

theorem new_valid (s : List Nat) : Bytes.Valid (Bytes.new s) := by
  unfold Bytes.Valid Bytes.new; simp

theorem allDS_range {k : Comp} {s : List Nat} (h : ∀ x ∈ s, DSk c k x) (i : Nat) : DSRange c k s i s.length := by
  intro n _ hn
  exact ⟨s[n], by simp [hn], h _ (List.getElem_mem hn)⟩

theorem minv_init (c : Cfg) (_cx : Ctx c) : MInv c 0 (u64Step c.feats c.mantissaRadix) := by
  refine ⟨Nat.le_refl _, ?_⟩
  simp

/-- obligation (f) and the rest of the re-scan (integer and fraction iterators that never skip) -/
theorem manyDigitsPhase_safe (cx : Ctx c) (hi : Good c .integer) (hf : Good c .fraction) (o : POpts)
    (hdp : c.bytesContiguous = true ∨ o.dp ≠ c.fmt.digitSeparator) (neg : Bool) (b : Bytes) (ip : IntPart)
    (fp : FracPart) (ep : ExpPart) (e0 : Int) (endIdx : Nat) (hip : IntOk c b ip) (hfp : FracOk c ip.byte fp) :
    Safe (manyDigitsPhase c o neg ip fp ep (ip.nDigits + fp.nAfterDot) (u64Step c.feats c.mantissaRadix) e0 endIdx)
      (fun r => r.2 = endIdx) := by
  unfold manyDigitsPhase
  refine Safe.bind_eq (skipZeros_safe cx .integer ip.start hip.advStart.valid') ?_
  rintro ⟨zi, zeros⟩ hzeq hadvz
  have hadvz : Adv ip.start zeros := hadvz
  simp only
  have hrest : ∀ (F : Bytes → Except Err (Number × Nat)),
      (∀ z, Bytes.Valid z → Safe (F z) (fun r => r.2 = endIdx)) →
      Safe (if zeros.firstIsCased o.dp = true then Bytes.step c zeros >>= F else pure zeros >>= F)
        (fun r => r.2 = endIdx) := by
    intro F hF
    split
    · next hdpb =>
      have hx := firstIsCased_get hdpb
      have hlt := get_lt hx
      rw [step_ok zeros hlt (by
        rcases hdp with h | h
        · exact Or.inl h
        · right; rw [hx]; intro he; exact h (Option.some.inj he))]
      exact hF _ (step_adv zeros 1 hlt).valid'
    · exact hF _ hadvz.valid'
  refine hrest _ ?_
  intro zeros2 hz2
  refine Safe.bind (skipZeros_safe cx .fraction zeros2 hz2) ?_
  rintro ⟨zf, _⟩ _
  simp only
  split
  · next hnd =>
    have hds := hip.allDS
    refine Safe.bind_eq (skipZeros_safe cx .integer (Bytes.new ip.integerDigits) (new_valid _)) ?_
    rintro ⟨z1, int1⟩ hz1eq hadv1
    have hadv1 : Adv (Bytes.new ip.integerDigits) int1 := hadv1
    simp only
    have hdig1 : DSRange c .integer int1.slc int1.index int1.slc.length := by
      rw [hadv1.slc]; exact allDS_range hds _
    refine Safe.bind (parseU64Digits_safe cx .integer hi int1 0 _ hadv1.valid' (minv_init c cx) hdig1) ?_
    rintro ⟨int2, m2, step2⟩ ⟨hadv2, hinv2, hcnt2, hend2⟩
    have hadv2 : Adv int1 int2 := hadv2
    have hinv2 : MInv c m2 step2 := hinv2
    have hcnt2 : PeekTriv c .integer → step2 + (int2.index - int1.index) = u64Step c.feats c.mantissaRadix := hcnt2
    have hend2 : step2 = 0 ∨ int2.index = int1.slc.length := hend2
    simp only
    split
    · refine Safe.bind (P := fun _ => True) (Safe.pure trivial) ?_
      intro _ _
      refine Safe.bind (scaleExponent_safe cx _) ?_
      intro _ _
      rfl
    · next hcond =>
      simp only [Bool.or_eq_true, decide_eq_true_eq, not_or] at hcond
      have hstep : step2 ≠ 0 := hcond.1
      cases hfr : fp.fraction with
      | none =>
        exfalso
        cases hbc : c.bytesContiguous with
        | false =>
          -- `Bytes` not contiguous: the model's (and the Rust code's) explicit guard fires
          have hfmt : c.feats.format = true := by
            cases hff : c.feats.format
            · have := cx.nfbc hff; rw [hbc] at this; cases this
            · rfl
          apply hcond.2
          simp [hfmt, hbc, hfr]
        | true =>
          -- counting argument: without a fraction more than `step` significant integer digits remain
          have hn0 := hfp.noFrac hfr
          have hcnt2 := hcnt2 (peek_triv c cx .integer (Or.inl hbc))
          obtain ⟨L, _, hLn, hdg⟩ := hip.digits
          have hLn := hLn hbc
          have hnd2 := hip.nbc hbc
          obtain ⟨_, hzm, _, hzne, hzi⟩ := skipZeros_exact cx hbc .integer (by decide) _ _ _ hzeq
          obtain ⟨hs1, _, hzr1, _, _⟩ := skipZeros_exact cx hbc .integer (by decide) _ _ _ hz1eq
          have hzr1 : ZeroRange ip.integerDigits 0 int1.index := hzr1
          have hend : int2.index = int1.slc.length := by
            rcases hend2 with h | h
            · exact absurd h hstep
            · exact h
          have hlen1 : int1.slc.length = ip.nDigits := by
            rw [hadv1.slc]
            show ip.integerDigits.length = ip.nDigits
            rw [hdg, List.length_take, List.length_drop, hLn]
            have h2 : ip.byte.index ≤ ip.byte.slc.length := hip.advByte.valid'
            rw [hip.advByte.slc, hip.advStart.slc] at h2
            omega
          have hi1 : int1.index ≤ ip.nDigits := by
            have : int1.index ≤ int1.slc.length := hadv1.valid'
            omega
          -- zeros skipped in the slice ≤ zeros skipped in the buffer
          have hzle : int1.index ≤ zi := by
            rcases Nat.lt_or_ge zi int1.index with hlt | hge
            · exfalso
              have h48 := hzr1 zi (Nat.zero_le _) hlt
              rw [hdg, List.getElem?_take, if_pos (by omega), List.getElem?_drop] at h48
              have hidx : ip.start.index + zi = zeros.index := by omega
              rw [hidx, ← hip.advStart.slc] at h48
              exact hzne h48
            · exact hge
          rw [hn0] at hnd
          simp only [Nat.add_zero] at hnd
          have := hadv2.mono
          omega
      | some fd =>
        simp only
        have hfd := hfp.digits fd hfr
        have hfrac : ∀ (G : (Bytes × Nat × Nat) → Except Err (Number × Nat)),
            (∀ x, Safe (G x) (fun r => r.2 = endIdx)) → ∀ f : Bytes, Bytes.Valid f → f.slc = fd →
            Safe (parseU64Digits c .fraction f m2 step2 >>= G) (fun r => r.2 = endIdx) := by
          intro G hG f hfv hfs
          have hdigf : DSRange c .fraction f.slc f.index f.slc.length := by
            rw [hfs]; exact allDS_range hfd _
          refine Safe.bind (parseU64Digits_safe cx .fraction hf f m2 step2 hfv hinv2 hdigf) ?_
          intro x _
          exact hG x
        split
        · refine Safe.bind (P := fun f => Bytes.Valid f ∧ f.slc = fd) ?_ ?_
          · refine Safe.bind (skipZeros_safe cx .fraction (Bytes.new fd) (new_valid _)) ?_
            rintro ⟨_, f⟩ hadvf
            have hadvf : Adv (Bytes.new fd) f := hadvf
            exact ⟨hadvf.valid', hadvf.slc⟩
          · intro f ⟨hfv, hfs⟩
            refine hfrac _ ?_ f hfv hfs
            intro x
            refine Safe.bind (P := fun _ => True) (Safe.pure trivial) ?_
            intro _ _
            refine Safe.bind (scaleExponent_safe cx _) ?_
            intro _ _
            rfl
        · refine Safe.bind (P := fun f => Bytes.Valid f ∧ f.slc = fd) (Safe.pure ⟨new_valid _, rfl⟩) ?_
          intro f ⟨hfv, hfs⟩
          refine hfrac _ ?_ f hfv hfs
          intro x
          refine Safe.bind (P := fun _ => True) (Safe.pure trivial) ?_
          intro _ _
          refine Safe.bind (scaleExponent_safe cx _) ?_
          intro _ _
          rfl
  · rfl

theorem parseNumber_safe (cx : Ctx c) (hi : Good c .integer) (hf : Good c .fraction) (isPartial : Bool)
    (o : POpts) (ox : OCtx c o) (b : Bytes) (neg : Bool) (hb : b.index < b.slc.length) :
    Safe (parseNumber c isPartial o b neg) (fun r => r.2 ≤ b.slc.length) := by
  have hv : Bytes.Valid b := Nat.le_of_lt hb
  unfold parseNumber
  have h1 : b.isBufferEmpty = false := by simp [Bytes.isBufferEmpty]; omega
  simp only [h1, Bool.not_true, Bool.and_false, Bool.false_eq_true, if_false]
  refine Safe.bind (integerPhase_safe cx hi b hv) ?_
  intro ip hip
  refine Safe.bind (fractionPhase_safe cx hf o ox.dpOk ip.byte ip.mantissa hip.advByte.valid') ?_
  intro fp hfp
  split
  · obtain ⟨⟨v, b1⟩, hp⟩ := peek_ok cx .integer ip.start
    simp only [hp, bind, Except.bind]
    split <;> exact Safe.err
  · refine Safe.bind (exponentPhase_safe cx _ fp.byte fp.fraction fp.exponent hfp.adv.valid' ?_) ?_
    · intro h
      rcases ox.expOk with hbc | hm
      · obtain ⟨x, hx, _⟩ := firstIs_match h
        exact ⟨get_lt hx, Or.inl hbc⟩
      · have := firstIs_ne_sep (c := c) h hm
        exact ⟨this.1, Or.inr this.2⟩
    intro ep hep
    have hep : Adv fp.byte ep.byte := hep
    refine Safe.bind (suffixPhase_safe cx ep.byte hep.valid') ?_
    intro byte hsuf
    have hsuf : Adv ep.byte byte := hsuf
    have hle : byte.index ≤ b.slc.length := by
      have h : byte.index ≤ byte.slc.length := hsuf.valid'
      rw [hsuf.slc, hep.slc, hfp.adv.slc, hip.advByte.slc, hip.advStart.slc] at h
      exact h
    split
    · exact hle
    · refine (manyDigitsPhase_safe cx hi hf o ox.dpOk neg b ip fp ep _ byte.index hip hfp).mono ?_
      intro r hr
      rw [hr]; exact hle

end LexVerif.Proof.PNDebug
