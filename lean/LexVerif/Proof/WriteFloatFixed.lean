import LexVerif.Proof.WriteFloatSafe
/-!
# Proof.WriteFloatFixed — the repaired `buffer_size_const` (`fixes/C09-buffer-size-const.diff`) is sufficient for
ALL valid options, and never smaller than the current one

`need_le_general` is `need_le_bound` with the allowances `D`, `E` and the bound `B` abstracted.
-/
namespace LexVerif.Proof.WriteFloatBound
open LexVerif.Spec LexVerif.Model LexVerif.Model.WriteFloat LexVerif.Proof.WriteFloatBuf

/-! ## the repaired formula -/

theorem sizeDigitsFixed_facts (o : WOpts) : 28 ≤ sizeDigitsFixed 10 o ∧ o.minDigits.getD 0 ≤ sizeDigitsFixed 10 o ∧
    sizeDigits 10 o ≤ sizeDigitsFixed 10 o := by
  unfold sizeDigitsFixed sizeDigits
  cases o.minDigits <;> cases o.maxDigits <;> simp <;> omega

theorem sizeExpFixed_facts (feats : Features) (fmt : Format) (o : WOpts) (hno : NumOpts o) :
    sizeExp feats fmt o ≤ sizeExpFixed feats fmt o ∧
    (¬ (effFmt feats fmt).noExponentNotation = true → 12 ≤ sizeExpFixed feats fmt o) := by
  unfold sizeExp sizeExpFixed
  by_cases hne : (effFmt feats fmt).noExponentNotation = true
  · have hnn : ¬ ¬ (effFmt feats fmt).noExponentNotation = true := fun h => h hne
    simp only [if_neg hnn]
    exact ⟨Nat.le_refl _, fun h => absurd hne h⟩
  · simp only [if_pos hne]
    generalize asUsize (max (absI32 (o.negBreak.getD (-5))) (o.posBreak.getD 9)) = ex
    refine ⟨?_, fun _ => ?_⟩
    all_goals (repeat' split)
    all_goals omega

/-- **the repair never shrinks the bound** (any radix, any options) -/
theorem bufferSizeConst_le_fixed (feats : Features) (f : Fmt) (fmt : Format) (o : WOpts) (hno : NumOpts o) :
    bufferSizeConstOld feats f fmt o ≤ bufferSizeConst feats f fmt o := by
  have h1 := (sizeExpFixed_facts feats fmt o hno).1
  have h2 : sizeDigits fmt.mantissaRadix o ≤ sizeDigitsFixed fmt.mantissaRadix o := by
    unfold sizeDigitsFixed sizeDigits
    cases o.minDigits <;> cases o.maxDigits <;> simp <;> omega
  unfold bufferSizeConstOld bufferSizeConst
  dsimp only
  omega

/-- **with the repaired formula the decimal back-end always has room**: no `SafeOpts` hypothesis. -/
theorem need_le_fixed (feats : Features) (f : Fmt) (fmt : Format) (o : WOpts) (ds : List Nat) (sci : Int) (S : Nat)
    (h10 : fmt.mantissaRadix = 10) (her : (effFmt feats fmt).exponentRadix = 10) (hno : NumOpts o)
    (hds1 : 1 ≤ ds.length) (hdsn : ds.length ≤ mantNeed f) (hrange : -324 ≤ sci ∧ sci ≤ 308) (hS : S ≤ 1) :
    S + needDec fmt feats f ds sci o ≤ bufferSizeConst feats f fmt o := by
  obtain ⟨hE5, hEbr, hEno⟩ := sizeExp_facts feats fmt o hno
  obtain ⟨hle, h12⟩ := sizeExpFixed_facts feats fmt o hno
  obtain ⟨hD28, hDmn, _⟩ := sizeDigitsFixed_facts o
  obtain ⟨_, hc2, _, _⟩ := truncateAndRound_length ds o hds1 hno.mx
  have hnd := mantNeed_le f
  have hB : 2 + sizeExpFixed feats fmt o + sizeDigitsFixed 10 o ≤ bufferSizeConst feats f fmt o ∧
      64 ≤ bufferSizeConst feats f fmt o := by
    unfold bufferSizeConst
    simp only [h10, if_true, formattedSizeDecimal_float]
    omega
  refine need_le_general feats f fmt o ds sci S (sizeDigitsFixed 10 o) (sizeExpFixed feats fmt o) _ her hno.mx hds1 hdsn
    hrange hS hB.1 hB.2 (by omega) (fun h => ⟨by have := (hEbr h).1; omega, by have := (hEbr h).2; omega⟩)
    (fun h => by have := hEno h; omega) (by omega) hDmn ?_
  by_cases hc : feats.compact = true
  · rw [if_pos hc]; left; omega
  · rw [if_neg hc]
    refine ⟨Or.inl (by omega), ?_, Or.inl (by omega)⟩
    by_cases hne : (effFmt feats fmt).noExponentNotation = true
    · right; have := hEno hne; omega
    · right; exact h12 hne

end LexVerif.Proof.WriteFloatBound
