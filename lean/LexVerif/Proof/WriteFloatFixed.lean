import LexVerif.Proof.WriteFloatSafe
/-!
# Proof.WriteFloatFixed — the repaired `buffer_size_const` (`fixes/C09-buffer-size-const.diff`) is sufficient for
ALL valid options, and never smaller than the current one

`need_le_general` is `need_le_bound` with the allowances `D`, `E` and the bound `B` abstracted.
-/
namespace LexVerif.Proof.WriteFloatBound
open LexVerif.Spec LexVerif.Model LexVerif.Model.WriteFloat LexVerif.Proof.WriteFloatBuf

theorem need_le_general (feats : Features) (f : Fmt) (fmt : Format) (o : WOpts) (ds : List Nat) (sci : Int) (S D E B : Nat)
    (her : (effFmt feats fmt).exponentRadix = 10) (hmx : o.maxDigits ≠ some 0)
    (hds1 : 1 ≤ ds.length) (hdsn : ds.length ≤ mantNeed f) (hrange : -324 ≤ sci ∧ sci ≤ 308) (hS : S ≤ 1)
    (hB : 2 + E + D ≤ B) (hB64 : 64 ≤ B) (hE5 : 5 ≤ E)
    (hEbr : ¬ (effFmt feats fmt).noExponentNotation = true →
      (o.negBreak.getD (-5)).natAbs ≤ E ∧ (o.posBreak.getD 9).toNat ≤ E)
    (hEno : (effFmt feats fmt).noExponentNotation = true → 324 ≤ E)
    (hcD : (truncateAndRound ds o).1.length ≤ D) (hmnD : o.minDigits.getD 0 ≤ D)
    (hsafe : if feats.compact = true then
        2 ≤ D ∨ (if (effFmt feats fmt).noExponentNotation = true then 309 else (o.posBreak.getD 9).toNat) + 4 ≤ 64
      else (mantNeed f ≤ D ∨
          (if (effFmt feats fmt).noExponentNotation = true then 324 else (o.negBreak.getD (-5)).natAbs) + 2 + mantNeed f ≤ 64) ∧
        (o.minDigits.getD 0 ≤ 50 ∨ 12 ≤ E) ∧
        (3 ≤ D ∨ (if (effFmt feats fmt).noExponentNotation = true then 309 else (o.posBreak.getD 9).toNat) + 5 ≤ 64)) :
    S + needDec fmt feats f ds sci o ≤ B := by
  obtain ⟨hc1, hc2, hc3, hc4⟩ := truncateAndRound_length ds o hds1 hmx
  have hnd := mantNeed_le f
  have hexD : minExactDigits (truncateAndRound ds o).1.length o ≤ D := by
    have := (minExact_le (truncateAndRound ds o).1.length o).1; omega
  unfold needDec
  by_cases hcomp : feats.compact = true
  · rw [if_pos hcomp]
    rw [if_pos hcomp] at hsafe
    unfold needDecC
    dsimp only
    have hcar : (if (truncateAndRound ds o).2 = true then (1 : Int) else 0) ≤ 1 ∧
        0 ≤ (if (truncateAndRound ds o).2 = true then (1 : Int) else 0) := by split <;> omega
    generalize hsci' : sci + (if (truncateAndRound ds o).2 = true then 1 else 0) = sci' at hcar ⊢
    have hr' : -324 ≤ sci' ∧ sci' ≤ 309 := by omega
    by_cases c2 : ¬ (effFmt feats fmt).noExponentNotation = true ∧ ((effFmt feats fmt).requiredExponentNotation = true ∨
        sci' < o.negBreak.getD (-5) ∨ sci' > o.posBreak.getD 9)
    · rw [if_pos c2, her]
      exact sciC_arith _ feats S _ _ _ E D B o hcomp hS (expSign_length_le _ _ _)
        (numeral10_length_le _ (by omega)) hc1 hcD hexD hE5 hB hB64
    · rw [if_neg c2]
      by_cases c3 : sci' < 0
      · rw [if_pos c3]
        refine negC_arith S _ _ _ E D B hS ?_ hcD hexD hB
        by_cases hne : (effFmt feats fmt).noExponentNotation = true
        · have := hEno hne; omega
        · have := (hEbr hne).1
          have : o.negBreak.getD (-5) ≤ sci' := by
            by_cases hh : sci' < o.negBreak.getD (-5)
            · exact absurd ⟨hne, Or.inr (Or.inl hh)⟩ c2
            · omega
          omega
      · rw [if_neg c3]
        have hex1 := (minExact_le (sci'.toNat + 1 + 1) o).1
        by_cases hne : (effFmt feats fmt).noExponentNotation = true
        · rw [if_pos hne] at hsafe
          exact posC_arith S _ _ _ _ E D B 309 o.trim hS (by omega) (by have := hEno hne; omega) hcD hexD (by omega) hB hB64
            hsafe
        · rw [if_neg hne] at hsafe
          have : sci' ≤ o.posBreak.getD 9 := by
            by_cases hh : sci' > o.posBreak.getD 9
            · exact absurd ⟨hne, Or.inr (Or.inr hh)⟩ c2
            · omega
          exact posC_arith S _ _ _ _ E D B (o.posBreak.getD 9).toNat o.trim hS (by omega) (hEbr hne).2 hcD hexD (by omega)
            hB hB64 hsafe
  · rw [if_neg hcomp]
    rw [if_neg hcomp] at hsafe
    obtain ⟨hs1, hs2, hs3⟩ := hsafe
    unfold needDecN
    dsimp only
    by_cases c2 : ¬ (effFmt feats fmt).noExponentNotation = true ∧ ((effFmt feats fmt).requiredExponentNotation = true ∨
        sci < o.negBreak.getD (-5) ∨ sci > o.posBreak.getD 9)
    · rw [if_pos c2, her]
      have hcar : (if (truncateAndRound ds o).2 = true then (1 : Int) else 0) ≤ 1 ∧
          0 ≤ (if (truncateAndRound ds o).2 = true then (1 : Int) else 0) := by split <;> omega
      exact sciN_arith _ feats S _ _ _ _ _ E D B o hS (expSign_length_le _ _ _)
        (numeral10_length_le _ (by omega)) hdsn hnd hc1 hcD (by omega) hexD (minExact_le _ o).1 hE5 hB hB64 hs2
    · rw [if_neg c2]
      by_cases c3 : sci < 0
      · rw [if_pos c3]
        refine negN_arith S _ _ _ _ _ E D B _ o.trim hS (by omega) ?_ hdsn hc1 hcD hc2 hexD ?_ hB hB64 ?_
        · by_cases hne : (effFmt feats fmt).noExponentNotation = true
          · have := hEno hne; omega
          · have := (hEbr hne).1
            have : o.negBreak.getD (-5) ≤ sci := by
              by_cases hh : sci < o.negBreak.getD (-5)
              · exact absurd ⟨hne, Or.inr (Or.inl hh)⟩ c2
              · omega
            omega
        · intro hc; rw [hc4 hc]; rfl
        · by_cases hne : (effFmt feats fmt).noExponentNotation = true
          · rw [if_pos hne] at hs1; omega
          · rw [if_neg hne] at hs1
            have : o.negBreak.getD (-5) ≤ sci := by
              by_cases hh : sci < o.negBreak.getD (-5)
              · exact absurd ⟨hne, Or.inr (Or.inl hh)⟩ c2
              · omega
            omega
      · rw [if_neg c3]
        have hcarN : (if (truncateAndRound ds o).2 = true then 1 else 0) ≤ 1 := by split <;> omega
        generalize (if (truncateAndRound ds o).2 = true then 1 else 0) = cy at hcarN ⊢
        have hex1 := (minExact_le (sci.toNat + 1 + cy + 1) o).1
        by_cases hne : (effFmt feats fmt).noExponentNotation = true
        · rw [if_pos hne] at hs3
          exact posN_arith S _ _ _ _ _ _ E D B 309 o.trim hS (by omega) (by have := hEno hne; omega) hdsn hnd hcD hc2 hexD
            (by omega) hB hB64 hs3
        · rw [if_neg hne] at hs3
          have : sci ≤ o.posBreak.getD 9 := by
            by_cases hh : sci > o.posBreak.getD 9
            · exact absurd ⟨hne, Or.inr (Or.inr hh)⟩ c2
            · omega
          exact posN_arith S _ _ _ _ _ _ E D B (o.posBreak.getD 9).toNat o.trim hS (by omega) (hEbr hne).2 hdsn hnd hcD hc2
            hexD (by omega) hB hB64 hs3


/-! ## the repaired formula -/

theorem sizeDigitsFixed_facts (o : WOpts) : 28 ≤ sizeDigitsFixed 10 o ∧ o.minDigits.getD 0 ≤ sizeDigitsFixed 10 o ∧
    sizeDigits 10 o ≤ sizeDigitsFixed 10 o := by
  unfold sizeDigitsFixed sizeDigits
  cases o.minDigits <;> cases o.maxDigits <;> simp <;> omega

theorem sizeExpFixed_facts (feats : Features) (fmt : Format) (o : WOpts) (hno : NumOpts o) :
    sizeExp feats fmt o ≤ sizeExpFixed feats fmt o ∧
    (¬ (effFmt feats fmt).noExponentNotation = true → 12 ≤ sizeExpFixed feats fmt o) := by
  unfold sizeExp sizeExpFixed
  by_cases hne : (effFmt feats fmt).noExponentNotation = true
  · have hnn : ¬ ¬ (effFmt feats fmt).noExponentNotation = true := fun h => h hne
    simp only [if_neg hnn]
    exact ⟨Nat.le_refl _, fun h => absurd hne h⟩
  · simp only [if_pos hne]
    generalize asUsize (max (absI32 (o.negBreak.getD (-5))) (o.posBreak.getD 9)) = ex
    refine ⟨?_, fun _ => ?_⟩
    all_goals (repeat' split)
    all_goals omega

/-- **the repair never shrinks the bound** (any radix, any options) -/
theorem bufferSizeConst_le_fixed (feats : Features) (f : Fmt) (fmt : Format) (o : WOpts) (hno : NumOpts o) :
    bufferSizeConst feats f fmt o ≤ bufferSizeConstFixed feats f fmt o := by
  have h1 := (sizeExpFixed_facts feats fmt o hno).1
  have h2 : sizeDigits fmt.mantissaRadix o ≤ sizeDigitsFixed fmt.mantissaRadix o := by
    unfold sizeDigitsFixed sizeDigits
    cases o.minDigits <;> cases o.maxDigits <;> simp <;> omega
  unfold bufferSizeConst bufferSizeConstFixed
  dsimp only
  omega

/-- **with the repaired formula the decimal back-end always has room**: no `SafeOpts` hypothesis. -/
theorem need_le_fixed (feats : Features) (f : Fmt) (fmt : Format) (o : WOpts) (ds : List Nat) (sci : Int) (S : Nat)
    (h10 : fmt.mantissaRadix = 10) (her : (effFmt feats fmt).exponentRadix = 10) (hno : NumOpts o)
    (hds1 : 1 ≤ ds.length) (hdsn : ds.length ≤ mantNeed f) (hrange : -324 ≤ sci ∧ sci ≤ 308) (hS : S ≤ 1) :
    S + needDec fmt feats f ds sci o ≤ bufferSizeConstFixed feats f fmt o := by
  obtain ⟨hE5, hEbr, hEno⟩ := sizeExp_facts feats fmt o hno
  obtain ⟨hle, h12⟩ := sizeExpFixed_facts feats fmt o hno
  obtain ⟨hD28, hDmn, _⟩ := sizeDigitsFixed_facts o
  obtain ⟨_, hc2, _, _⟩ := truncateAndRound_length ds o hds1 hno.mx
  have hnd := mantNeed_le f
  have hB : 2 + sizeExpFixed feats fmt o + sizeDigitsFixed 10 o ≤ bufferSizeConstFixed feats f fmt o ∧
      64 ≤ bufferSizeConstFixed feats f fmt o := by
    unfold bufferSizeConstFixed
    simp only [h10, if_true, formattedSizeDecimal_float]
    omega
  refine need_le_general feats f fmt o ds sci S (sizeDigitsFixed 10 o) (sizeExpFixed feats fmt o) _ her hno.mx hds1 hdsn
    hrange hS hB.1 hB.2 (by omega) (fun h => ⟨by have := (hEbr h).1; omega, by have := (hEbr h).2; omega⟩)
    (fun h => by have := hEno h; omega) (by omega) hDmn ?_
  by_cases hc : feats.compact = true
  · rw [if_pos hc]; left; omega
  · rw [if_neg hc]
    refine ⟨Or.inl (by omega), ?_, Or.inl (by omega)⟩
    by_cases hne : (effFmt feats fmt).noExponentNotation = true
    · right; have := hEno hne; omega
    · right; exact h12 hne

end LexVerif.Proof.WriteFloatBound
