import LexVerif.Gen.Logs
import LexVerif.Model.Dragonbox
import LexVerif.Proof.Tables.Walk
/-!
# Proof.DragonboxLogs — the `floor_log*` formulas of the model (the literals of algorithm.rs) equal the tables
dumped from the compiled crate (`Gen.Logs`) on the whole dumped domain. Composed with `Props.TablesWrite`
(`Gen.Logs` tables = true floor logarithms) in `Props/C02.lean`.
-/
namespace LexVerif.Proof.DragonboxLogs
open LexVerif LexVerif.Proof.Tables LexVerif.Gen.Logs
open LexVerif.Model

theorem log5Pow2_walk :
    allIdx (vecOk (fun q v => Dragonbox.floorLog5Pow2 q = v) floorLog5Pow2Lo floorLog5Pow2TabBias) 0
      floorLog5Pow2TabBiased.toList = true := by decide +kernel
theorem log10Pow2_walk :
    allIdx (vecOk (fun q v => Dragonbox.floorLog10Pow2 q = v) floorLog10Pow2Lo floorLog10Pow2TabBias) 0
      floorLog10Pow2TabBiased.toList = true := by decide +kernel
theorem log2Pow10_walk :
    allIdx (vecOk (fun q v => Dragonbox.floorLog2Pow10 q = v) floorLog2Pow10Lo floorLog2Pow10TabBias) 0
      floorLog2Pow10TabBiased.toList = true := by decide +kernel
theorem log5Pow2M3_walk :
    allIdx (vecOk (fun q v => Dragonbox.floorLog5Pow2MinusLog5_3 q = v) floorLog5Pow2MinusLog5_3Lo
      floorLog5Pow2MinusLog5_3TabBias) 0 floorLog5Pow2MinusLog5_3TabBiased.toList = true := by decide +kernel
theorem log10Pow2M43_walk :
    allIdx (vecOk (fun q v => Dragonbox.floorLog10Pow2MinusLog10_4Over3 q = v) floorLog10Pow2MinusLog10_4Over3Lo
      floorLog10Pow2MinusLog10_4Over3TabBias) 0 floorLog10Pow2MinusLog10_4Over3TabBiased.toList = true := by decide +kernel

theorem sizes :
    floorLog5Pow2TabBiased.size = (floorLog5Pow2Hi - floorLog5Pow2Lo + 1).toNat
    ∧ floorLog10Pow2TabBiased.size = (floorLog10Pow2Hi - floorLog10Pow2Lo + 1).toNat
    ∧ floorLog2Pow10TabBiased.size = (floorLog2Pow10Hi - floorLog2Pow10Lo + 1).toNat
    ∧ floorLog5Pow2MinusLog5_3TabBiased.size = (floorLog5Pow2MinusLog5_3Hi - floorLog5Pow2MinusLog5_3Lo + 1).toNat
    ∧ floorLog10Pow2MinusLog10_4Over3TabBiased.size
        = (floorLog10Pow2MinusLog10_4Over3Hi - floorLog10Pow2MinusLog10_4Over3Lo + 1).toNat := by decide +kernel

theorem floorLog5Pow2_eq (q : Int) (h1 : floorLog5Pow2Lo ≤ q) (h2 : q ≤ floorLog5Pow2Hi) :
    Dragonbox.floorLog5Pow2 q = Gen.Logs.floorLog5Pow2 q := by
  have := vec_spec sizes.1 log5Pow2_walk q h1 h2
  simpa [Gen.Logs.floorLog5Pow2, floorLog5Pow2TabAt, h1, h2] using this

theorem floorLog10Pow2_eq (q : Int) (h1 : floorLog10Pow2Lo ≤ q) (h2 : q ≤ floorLog10Pow2Hi) :
    Dragonbox.floorLog10Pow2 q = Gen.Logs.floorLog10Pow2 q := by
  have := vec_spec sizes.2.1 log10Pow2_walk q h1 h2
  simpa [Gen.Logs.floorLog10Pow2, floorLog10Pow2TabAt, h1, h2] using this

theorem floorLog2Pow10_eq (q : Int) (h1 : floorLog2Pow10Lo ≤ q) (h2 : q ≤ floorLog2Pow10Hi) :
    Dragonbox.floorLog2Pow10 q = Gen.Logs.floorLog2Pow10 q := by
  have := vec_spec sizes.2.2.1 log2Pow10_walk q h1 h2
  simpa [Gen.Logs.floorLog2Pow10, floorLog2Pow10TabAt, h1, h2] using this

theorem floorLog5Pow2MinusLog5_3_eq (q : Int) (h1 : floorLog5Pow2MinusLog5_3Lo ≤ q)
    (h2 : q ≤ floorLog5Pow2MinusLog5_3Hi) :
    Dragonbox.floorLog5Pow2MinusLog5_3 q = Gen.Logs.floorLog5Pow2MinusLog5_3 q := by
  have := vec_spec sizes.2.2.2.1 log5Pow2M3_walk q h1 h2
  simpa [Gen.Logs.floorLog5Pow2MinusLog5_3, floorLog5Pow2MinusLog5_3TabAt, h1, h2] using this

theorem floorLog10Pow2MinusLog10_4Over3_eq (q : Int) (h1 : floorLog10Pow2MinusLog10_4Over3Lo ≤ q)
    (h2 : q ≤ floorLog10Pow2MinusLog10_4Over3Hi) :
    Dragonbox.floorLog10Pow2MinusLog10_4Over3 q = Gen.Logs.floorLog10Pow2MinusLog10_4Over3 q := by
  have := vec_spec sizes.2.2.2.2 log10Pow2M43_walk q h1 h2
  simpa [Gen.Logs.floorLog10Pow2MinusLog10_4Over3, floorLog10Pow2MinusLog10_4Over3TabAt, h1, h2] using this

end LexVerif.Proof.DragonboxLogs
