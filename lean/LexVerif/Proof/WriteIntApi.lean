import LexVerif.Proof.WriteIntBasic
/-!
# Proof.WriteIntApi — `api.rs` glue: from a correct mantissa writer to a correct `writeInt`
-/
namespace LexVerif.Model.WriteInt
open LexVerif.Spec

/-- the mantissa writer `f` puts exactly `digits` at the start of any buffer of at least `need` bytes
and leaves the rest untouched -/
def MantSpec (f : Buf → Res (Buf × Nat)) (digits : List Nat) (need : Nat) : Prop :=
  ∀ buffer : Buf, need ≤ buffer.length → f buffer = .ok (digits ++ buffer.drop digits.length, digits.length)

theorem withSign_spec (c : Nat) (f : Buf → Res (Buf × Nat)) (digits : List Nat) (need : Nat)
    (h : MantSpec f digits need) (buffer : Buf) (hb : need + 1 ≤ buffer.length) (hd : digits.length + 1 < 2 ^ 64) :
    withSign c buffer f = .ok (c :: digits ++ buffer.drop (digits.length + 1), digits.length + 1) := by
  cases buffer with
  | nil => simp at hb
  | cons x rest =>
    have hrest : need ≤ rest.length := by simpa using hb
    simp only [withSign, setC, List.length_cons, Nat.zero_lt_succ, if_true, List.set_cons_zero, bind_ok,
      List.drop_succ_cons, List.drop_zero, h rest hrest, pure_eq]
    rw [Nat.mod_eq_of_lt (by unfold usz; exact hd)]
    simp

/-- the sign bytes the property asks for -/
def signBytes (feats : Features) (reqSign : Bool) (v : Int) : List Nat :=
  if v < 0 then [45] else if feats.format ∧ reqSign then [43] else []

/-- what `writeInt` must produce -/
def expected (feats : Features) (radix : Nat) (reqSign : Bool) (v : Int) : List Nat :=
  signBytes feats reqSign v ++ numeral radix v.natAbs

def ValidBits (b : Nat) : Prop := b = 8 ∨ b = 16 ∨ b = 32 ∨ b = 64 ∨ b = 128

/-- buffer size under which the theorem holds: the documented `buffer_size_const`, plus one byte when an
unsigned type is written with a required `+` sign (the documented constant does not count it: finding). -/
def requiredSize (feats : Features) (t : IntTy) (radix : Nat) (reqSign : Bool) : Nat :=
  bufferSizeConst feats t radix + (if ¬ t.signed ∧ feats.format ∧ reqSign then 1 else 0)

theorem writeInt_of_mantissa (feats : Features) (t : IntTy) (radix : Nat) (reqSign checkValid : Bool) (v : Int)
    (buffer : Buf) (need : Nat) (hbits : ValidBits t.bits) (hvalid : validRadix feats radix = true)
    (hv : t.inRange v)
    (hM : MantSpec (writeMantissa feats t.bits radix v.natAbs t.signed) (numeral radix v.natAbs) need)
    (hneed : need + (signBytes feats reqSign v).length ≤ buffer.length)
    (hlen : (numeral radix v.natAbs).length ≤ need) (hsmall : need < 2 ^ 32) :
    writeInt feats t radix reqSign checkValid v buffer =
      .ok (expected feats radix reqSign v ++ buffer.drop (expected feats radix reqSign v).length,
           (expected feats radix reqSign v).length) := by
  obtain ⟨bits, sg⟩ := t
  simp only [IntTy.inRange, IntTy.minVal, IntTy.maxVal, IntTy.maxMag] at hv
  simp only at hbits hM
  unfold writeInt
  rw [if_neg (by simp [hvalid])]
  have hfin : ∀ (out : Buf) (len : Nat), len ≤ out.length →
      ((if len ≤ out.length then Res.ok (out, len) else Res.panic : Res (Buf × Nat))) = .ok (out, len) := by
    intro out len h; simp [h]
  cases sg with
  | false =>
    -- unsigned
    have hv0 : 0 ≤ v := by simpa using hv.1
    have hmag : (v % ((2 ^ bits : Nat) : Int)).toNat = v.natAbs := by
      have hvu : v ≤ ((2 ^ bits - 1 : Nat) : Int) := by simpa using hv.2
      have hpos : 0 < 2 ^ bits := Nat.pow_pos (by omega)
      have : v % ((2 ^ bits : Nat) : Int) = v := Int.emod_eq_of_lt hv0 (by omega)
      rw [this]; omega
    have hneg : ¬ v < 0 := by omega
    simp only [Bool.false_eq_true, not_false_eq_true, if_true, hmag]
    by_cases hs : feats.format = true ∧ reqSign = true
    · have hsb : signBytes feats reqSign v = [43] := by simp [signBytes, hneg, hs]
      rw [hsb] at hneed
      rw [if_pos hs, withSign_spec 43 _ _ need hM buffer (by simpa using hneed) (by omega)]
      simp [expected, hsb]
    · have hsb : signBytes feats reqSign v = [] := by simp [signBytes, hneg, hs]
      rw [hsb] at hneed
      rw [if_neg hs, hM buffer (by simpa using hneed)]
      simp [expected, hsb]
  | true =>
    simp only [if_true] at hv
    simp only [not_true_eq_false, if_false]
    have hpos : 0 < 2 ^ (bits - 1) := Nat.pow_pos (by omega)
    have h2 : 2 ^ bits = 2 * 2 ^ (bits - 1) := by
      have : bits = (bits - 1) + 1 := by rcases hbits with h | h | h | h | h <;> omega
      rw [this, Nat.pow_succ]; simp; omega
    by_cases hneg : v < 0
    · have hmag : (2 ^ bits - (v % ((2 ^ bits : Nat) : Int)).toNat) % 2 ^ bits = v.natAbs := by
        have hlo : -((2 ^ (bits - 1) : Nat) : Int) ≤ v := by simpa using hv.1
        have hmod : v % ((2 ^ bits : Nat) : Int) = v + ((2 ^ bits : Nat) : Int) := by
          rw [← Int.add_emod_right]
          exact Int.emod_eq_of_lt (by omega) (by omega)
        rw [hmod]
        have : (v + ((2 ^ bits : Nat) : Int)).toNat = 2 ^ bits - v.natAbs := by omega
        rw [this]
        have hna : v.natAbs ≤ 2 ^ (bits - 1) := by omega
        have hna0 : 0 < v.natAbs := by omega
        rw [Nat.mod_eq_of_lt (by omega)]; omega
      have hsb : signBytes feats reqSign v = [45] := by simp [signBytes, hneg]
      rw [hsb] at hneed
      rw [if_pos hneg, hmag, withSign_spec 45 _ _ need hM buffer (by simpa using hneed) (by omega)]
      simp [expected, hsb]
    · have hv0 : 0 ≤ v := by omega
      have hmag : (v % ((2 ^ bits : Nat) : Int)).toNat = v.natAbs := by
        have hvu : v ≤ ((2 ^ (bits - 1) - 1 : Nat) : Int) := by simpa using hv.2
        have : v % ((2 ^ bits : Nat) : Int) = v := Int.emod_eq_of_lt hv0 (by omega)
        rw [this]; omega
      rw [if_neg hneg, hmag]
      by_cases hs : feats.format = true ∧ reqSign = true
      · have hsb : signBytes feats reqSign v = [43] := by simp [signBytes, hneg, hs]
        rw [hsb] at hneed
        rw [if_pos hs, withSign_spec 43 _ _ need hM buffer (by simpa using hneed) (by omega)]
        simp [expected, hsb]
      · have hsb : signBytes feats reqSign v = [] := by simp [signBytes, hneg, hs]
        rw [hsb] at hneed
        rw [if_neg hs, hM buffer (by simpa using hneed)]
        simp [expected, hsb]

/-- cargo: `radix` implies `power-of-two` -/
def FeaturesWF (feats : Features) : Prop := feats.radix = true → feats.powerOfTwo = true

theorem numeral_length (r n : Nat) : (numeral r n).length = (toDigits r n).length := by simp [numeral]

theorem toDigits_length_le_bits (r n k : Nat) (hr : 2 ≤ r) (hk : 1 ≤ k) (h : n < 2 ^ k) :
    (toDigits r n).length ≤ k :=
  toDigits_length_le r n k hr hk (Nat.lt_of_lt_of_le h (Nat.pow_le_pow_left hr k))

theorem validRadix_range (feats : Features) (radix : Nat) (h : validRadix feats radix = true) :
    2 ≤ radix ∧ radix ≤ 36 := by
  unfold validRadix at h
  split at h
  · simp at h; omega
  · split at h
    · simp at h; omega
    · simp at h; omega

theorem validRadix_ne10 (feats : Features) (radix : Nat) (hwf : FeaturesWF feats)
    (h : validRadix feats radix = true) (h10 : radix ≠ 10) : feats.powerOfTwo = true := by
  unfold validRadix at h
  split at h
  · rename_i hr; exact hwf hr
  · split at h
    · rename_i hp; exact hp
    · simp at h; omega

/-- the numeral and its sign fit the documented buffer size (plus the `+` of an unsigned type) -/
theorem size_ok (feats : Features) (hwf : FeaturesWF feats) (t : IntTy) (hbits : ValidBits t.bits) (radix : Nat)
    (hvalid : validRadix feats radix = true) (reqSign : Bool) (v : Int) (hv : t.inRange v) :
    (numeral radix v.natAbs).length + (signBytes feats reqSign v).length ≤ requiredSize feats t radix reqSign := by
  obtain ⟨hr2, hr36⟩ := validRadix_range feats radix hvalid
  obtain ⟨bits, sg⟩ := t
  simp only [IntTy.inRange, IntTy.minVal, IntTy.maxVal, IntTy.maxMag] at hv
  simp only at hbits
  rw [numeral_length]
  have hsl : (signBytes feats reqSign v).length ≤ 1 := by
    unfold signBytes
    split
    · simp
    · split <;> simp
  have hsl0 : sg = false → ¬ (feats.format = true ∧ reqSign = true) → (signBytes feats reqSign v).length = 0 := by
    intro hsg hs
    subst hsg
    have : ¬ v < 0 := by have := hv.1; simp at this; omega
    simp [signBytes, this, hs]
  by_cases h10 : radix = 10
  · subst h10
    unfold requiredSize bufferSizeConst
    rw [if_pos rfl]
    rcases hbits with h | h | h | h | h <;> subst h <;> cases sg <;>
      simp only [formattedSizeDecimal, Bool.false_eq_true, if_false, if_true, Nat.reducePow, Nat.reduceSub,
        not_false_eq_true, true_and] at hv hsl0 ⊢
    all_goals first
      | (have hk := toDigits_length_le 10 v.natAbs 3 (by omega) (by omega) (by omega)
         split <;> first | omega | (rename_i hs; have := hsl0 trivial hs; omega))
      | (have hk := toDigits_length_le 10 v.natAbs 5 (by omega) (by omega) (by omega)
         split <;> first | omega | (rename_i hs; have := hsl0 trivial hs; omega))
      | (have hk := toDigits_length_le 10 v.natAbs 10 (by omega) (by omega) (by omega)
         split <;> first | omega | (rename_i hs; have := hsl0 trivial hs; omega))
      | (have hk := toDigits_length_le 10 v.natAbs 19 (by omega) (by omega) (by omega)
         split <;> first | omega | (rename_i hs; have := hsl0 trivial hs; omega))
      | (have hk := toDigits_length_le 10 v.natAbs 20 (by omega) (by omega) (by omega)
         split <;> first | omega | (rename_i hs; have := hsl0 trivial hs; omega))
      | (have hk := toDigits_length_le 10 v.natAbs 39 (by omega) (by omega) (by omega)
         split <;> first | omega | (rename_i hs; have := hsl0 trivial hs; omega))
  · have hp := validRadix_ne10 feats radix hwf hvalid h10
    unfold requiredSize bufferSizeConst formattedSize
    rw [if_neg h10, if_pos hp]
    have hlen : (toDigits radix v.natAbs).length ≤ bits := by
      apply toDigits_length_le_bits radix _ bits hr2 (by rcases hbits with h | h | h | h | h <;> omega)
      rcases hbits with h | h | h | h | h <;> subst h <;> cases sg <;> simp at hv <;> omega
    rcases hbits with h | h | h | h | h <;> subst h <;> simp only [formattedSizeRadix] <;> omega

end LexVerif.Model.WriteInt
