import LexVerif.Proof.ParseInt
/-!
# Proof.ParseIntMain — `Model.ParseInt.parseInt = Spec.parseInt`, assembled from the loop lemmas
-/
namespace LexVerif.Proof.ParseInt
open LexVerif.Spec LexVerif.Model LexVerif.Model.ParseInt

/-- the part of `algorithm!` after the sign and the empty check (verbatim copy of the model's body) -/
def body (feats : Features) (t : IntTy) (radix : Nat) (partial_ noMulti : Bool)
    (isNegative : Bool) (rest : List Nat) (cursor bufLen : Nat) : MRes :=
  let od := overflowDigits t radix
  let cannotOverflow := decide (rest.length ≤ od)
  let st1 : Flow (List Nat × Nat × Nat) :=
    if cannotOverflow && isNegative then
      match parseDigitsUnchecked t radix feats partial_ noMulti true rest cursor bufLen 0 with
      | .error e => .error e
      | .ok (value, cursor) => .ok ([], value, cursor)
    else .ok (rest, 0, cursor)
  match st1 with
  | .error e => e
  | .ok (rest, value, cursor) =>
    let st2 : Flow (Nat × Nat) :=
      if cannotOverflow then parseDigitsUnchecked t radix feats partial_ noMulti false rest cursor bufLen value
      else if isNegative then parseDigitsChecked t radix feats partial_ noMulti true rest cursor bufLen value od
      else parseDigitsChecked t radix feats partial_ noMulti false rest cursor bufLen value od
    match st2 with
    | .error e => e
    | .ok (value, _) => intoOk t value bufLen

theorem parseInt_unfold (feats : Features) (t : IntTy) (radix : Nat) (p nm : Bool) (s : List Nat) :
    parseInt feats t radix p nm s =
      match parseSign t.signed s 0 with
      | .error e => e
      | .ok (isNegative, rest, cursor) =>
        if cursor ≥ s.length then .done (.empty cursor) else body feats t radix p nm isNegative rest cursor s.length := rfl

theorem finish_eq (t : IntTy) (L : Nat) (x : Flow (Nat × Nat)) :
    (match x with | .error e => e | .ok (value, _) => intoOk t value L) = finish t L x := by
  cases x <;> rfl

theorem IsIntTy.bits_ge {t : IntTy} (ht : IsIntTy t) : 8 ≤ t.bits := by
  unfold IsIntTy at ht; omega

/-- the whole rest fits in `overflow_digits`: one wrapping loop -/
theorem uncheckedAll_spec (t : IntTy) (ht : IsIntTy t) {r : Nat} (h2 : 2 ≤ r) (hr : r ≤ 36) (p neg : Bool)
    (hneg : neg = true → t.signed = true) (rest : List Nat) (cursor : Nat)
    (hbytes : ∀ b ∈ rest, b < 256) (hc : rest.length ≤ overflowDigits t r) :
    (∀ e, parse1Unchecked t r p neg rest 0 cursor = .error e →
      e = .done (scanDigits r (t.maxMag neg) neg p rest 0 cursor)) ∧
    (∀ v c, parse1Unchecked t r p neg rest 0 cursor = .ok (v, c) →
      c = cursor + rest.length ∧ v < 2 ^ t.bits ∧
      intoOk t v (cursor + rest.length) = .done (scanDigits r (t.maxMag neg) neg p rest 0 cursor)) := by
  have hb := ht.bits_ge
  have hsafe := overflowDigits_safe t ht h2 hr
  have hpow : r ^ (0 + rest.length) ≤ t.maxMag false + 1 := by
    rw [Nat.zero_add]; exact Nat.le_trans (Nat.pow_le_pow_right (by omega) hc) hsafe
  have h := parse1Unchecked_spec t (by omega) h2 hr p neg hneg [] rest hbytes 0 cursor 0 (by simp) hpow
  rw [enc_zero, List.append_nil] at h
  refine ⟨h.1, fun v c hvc => ?_⟩
  obtain ⟨acc', hv, hcc, hacc, hscan⟩ := h.2 v c hvc
  refine ⟨hcc, by rw [hv]; exact enc_lt _ _ _, ?_⟩
  rw [hscan, hv, hcc]
  simp only [scanDigits]
  exact intoOk_enc t (by omega) neg hneg hacc _

theorem body_spec (feats : Features) (t : IntTy) (ht : IsIntTy t) {r : Nat} (h2 : 2 ≤ r) (hr : r ≤ 36) (p nm : Bool)
    (hmulti : (canMulti feats r && !nm) = true → r ≤ 10 ∧ SwarCorrect r)
    (neg : Bool) (hneg : neg = true → t.signed = true) (rest : List Nat) (cursor bufLen : Nat)
    (hlen : bufLen = cursor + rest.length) (hbytes : ∀ b ∈ rest, b < 256) :
    body feats t r p nm neg rest cursor bufLen = .done (scanDigits r (t.maxMag neg) neg p rest 0 cursor) := by
  have hb := ht.bits_ge
  have hM := Nat.two_pow_pos t.bits
  unfold body
  simp only
  by_cases hc : rest.length ≤ overflowDigits t r
  · -- cannot_overflow
    have hall := uncheckedAll_spec t ht h2 hr p neg hneg rest cursor hbytes hc
    simp only [hc, decide_true, Bool.true_and, if_true]
    cases neg with
    | true =>
      simp only [if_true]
      rw [parseDigitsUnchecked_eq t feats p nm true hmulti rest cursor bufLen 0 hbytes hM]
      cases hl : parse1Unchecked t r p true rest 0 cursor with
      | error e => simp only; exact hall.1 e hl
      | ok x =>
        obtain ⟨v, c⟩ := x
        obtain ⟨_, hv, hok⟩ := hall.2 v c hl
        simp only
        rw [parseDigitsUnchecked_eq t feats p nm false hmulti [] c bufLen v (by simp) hv]
        simp only [parse1Unchecked]
        rw [hlen]; exact hok
    | false =>
      simp only [Bool.false_eq_true, if_false]
      rw [parseDigitsUnchecked_eq t feats p nm false hmulti rest cursor bufLen 0 hbytes hM]
      cases hl : parse1Unchecked t r p false rest 0 cursor with
      | error e => simp only; exact hall.1 e hl
      | ok x =>
        obtain ⟨v, c⟩ := x
        obtain ⟨_, hv, hok⟩ := hall.2 v c hl
        simp only
        rw [hlen]; exact hok
  · -- checked path: `take_n(overflow_digits)` wrapping prefix, checked tail
    have hgt : overflowDigits t r < rest.length := by omega
    simp only [hc, decide_false, Bool.false_and, Bool.false_eq_true, if_false]
    have hsame : (if neg = true then parseDigitsChecked t r feats p nm true rest cursor bufLen 0 (overflowDigits t r)
        else parseDigitsChecked t r feats p nm false rest cursor bufLen 0 (overflowDigits t r))
        = parseDigitsChecked t r feats p nm neg rest cursor bufLen 0 (overflowDigits t r) := by
      cases neg <;> rfl
    rw [hsame, finish_eq]
    unfold parseDigitsChecked
    have hend : min bufLen (overflowDigits t r + cursor) = overflowDigits t r + cursor := by omega
    simp only [hend]
    rw [if_neg (by omega), if_neg (by omega)]
    have hsub : overflowDigits t r + cursor - cursor = overflowDigits t r := by omega
    rw [hsub]
    have hsmall : ∀ b ∈ rest.take (overflowDigits t r), b < 256 := fun b hb' => hbytes b (List.mem_of_mem_take hb')
    have hrest' : ∀ b ∈ rest.drop (overflowDigits t r), b < 256 := fun b hb' => hbytes b (List.mem_of_mem_drop hb')
    rw [parseDigitsUnchecked_eq t feats p nm neg hmulti _ cursor _ 0 hsmall hM]
    have htl : (rest.take (overflowDigits t r)).length = overflowDigits t r := by
      rw [List.length_take]; omega
    have hsafe := overflowDigits_safe t ht h2 hr
    have h := parse1Unchecked_spec t (by omega) h2 hr p neg hneg (rest.drop (overflowDigits t r))
      (rest.take (overflowDigits t r)) hsmall 0 cursor 0 (by simp) (by rw [Nat.zero_add, htl]; exact hsafe)
    rw [enc_zero, List.take_append_drop] at h
    cases hl : parse1Unchecked t r p neg (rest.take (overflowDigits t r)) 0 cursor with
    | error e => simp only [finish]; exact h.1 e hl
    | ok x =>
      obtain ⟨v, c⟩ := x
      obtain ⟨acc', hv, hcc, hacc, hscan⟩ := h.2 v c hl
      simp only
      rw [hscan, hv, hcc, htl]
      have := parse1Checked_spec t hb h2 hr p neg hneg (rest.drop (overflowDigits t r)) hrest' acc'
        (cursor + overflowDigits t r) hacc
      rw [List.length_drop] at this
      rw [show bufLen = cursor + overflowDigits t r + (rest.length - overflowDigits t r) by omega,
        Nat.add_comm (overflowDigits t r) cursor]
      exact this


section cases
variable (feats : Features) (t : IntTy) (ht : IsIntTy t) {r : Nat} (h2 : 2 ≤ r) (hr : r ≤ 36)
    (p nm : Bool) (hmulti : (canMulti feats r && !nm) = true → r ≤ 10 ∧ SwarCorrect r)
include ht h2 hr hmulti

/-- no sign consumed -/
theorem plain_case (s : List Nat) (hs : ∀ b ∈ s, b < 256)
    (hsign : parseSign t.signed s 0 = .ok (false, s, 0))
    (hspec0 : s = [] → Spec.parseInt t r p s = .empty 0)
    (hspec1 : s ≠ [] → Spec.parseInt t r p s = scanDigits r (t.maxMag false) false p s 0 0) :
    parseInt feats t r p nm s = .done (Spec.parseInt t r p s) := by
  rw [parseInt_unfold, hsign]
  simp only
  by_cases hs' : s = []
  · rw [hspec0 hs', hs']; simp
  · have : ¬ (0 ≥ s.length) := by
      cases s with
      | nil => exact absurd rfl hs'
      | cons _ _ => simp
    rw [if_neg this, hspec1 hs']
    exact body_spec feats t ht h2 hr p nm hmulti false (by simp) s 0 s.length (by simp) hs

/-- one sign byte consumed -/
theorem signed_case (c : Nat) (cs : List Nat) (neg : Bool) (hs : ∀ b ∈ c :: cs, b < 256)
    (hneg : neg = true → t.signed = true)
    (hsign : parseSign t.signed (c :: cs) 0 = .ok (neg, cs, 1))
    (hspec0 : cs = [] → Spec.parseInt t r p (c :: cs) = .empty 1)
    (hspec1 : cs ≠ [] → Spec.parseInt t r p (c :: cs) = scanDigits r (t.maxMag neg) neg p cs 0 1) :
    parseInt feats t r p nm (c :: cs) = .done (Spec.parseInt t r p (c :: cs)) := by
  rw [parseInt_unfold, hsign]
  simp only
  have hcs : ∀ b ∈ cs, b < 256 := fun b hb => hs b (by simp [hb])
  by_cases hs' : cs = []
  · rw [hspec0 hs', hs']; simp
  · have : ¬ (1 ≥ (c :: cs).length) := by
      cases cs with
      | nil => exact absurd rfl hs'
      | cons _ _ => simp
    rw [if_neg this, hspec1 hs']
    exact body_spec feats t ht h2 hr p nm hmulti neg hneg cs 1 (c :: cs).length (by simp; omega) hcs

theorem parseInt_eq_spec_of (s : List Nat) (hs : ∀ b ∈ s, b < 256) :
    parseInt feats t r p nm s = .done (Spec.parseInt t r p s) := by
  cases s with
  | nil => exact plain_case feats t ht h2 hr p nm hmulti [] hs rfl (fun _ => rfl) (fun h => absurd rfl h)
  | cons c cs =>
    by_cases h43 : c = 43
    · subst h43
      refine signed_case feats t ht h2 hr p nm hmulti 43 cs false hs (by simp) (by simp [parseSign]) ?_ ?_
      · intro h; subst h; rfl
      · intro h; cases cs with
        | nil => exact absurd rfl h
        | cons _ _ => rfl
    · by_cases h45 : c = 45
      · subst h45
        cases hsg : t.signed with
        | true =>
          refine signed_case feats t ht h2 hr p nm hmulti 45 cs true hs (fun _ => hsg) (by simp [parseSign, hsg]) ?_ ?_
          · intro h; subst h; simp [Spec.parseInt, hsg]
          · intro h; cases cs with
            | nil => exact absurd rfl h
            | cons _ _ => simp [Spec.parseInt, hsg]
        | false =>
          refine plain_case feats t ht h2 hr p nm hmulti (45 :: cs) hs (by simp [parseSign, hsg]) (by simp) ?_
          intro _; simp [Spec.parseInt, hsg]
      · refine plain_case feats t ht h2 hr p nm hmulti (c :: cs) hs ?_ (by simp) ?_
        · unfold parseSign; split <;> simp_all
        · intro _; unfold Spec.parseInt; split
          next neg rest i heq =>
            split at heq
            · simp_all
            · simp_all
            · cases heq; rfl

end cases

end LexVerif.Proof.ParseInt
