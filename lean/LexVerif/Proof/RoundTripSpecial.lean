import LexVerif.Proof.RoundTripFlags
import LexVerif.Model.ParseNumber
/-!
# Proof.RoundTripSpecial — a written special string is read back as the same special value (C08)

`grammar_special`: after the sign the writer emits, a configured NaN / infinity string whose first byte cannot start a
number of the format (`NotNumberStart`) is derived by the documented grammar as that special value.
`optionsError_nan` / `optionsError_inf`: valid parse options start the NaN string with `N`/`n` and the infinity string
with `I`/`i`, so an infinity string is never mistaken for the NaN string.
-/
namespace LexVerif.Proof.RoundTrip
open LexVerif.Spec LexVerif.Model

theorem optionsError_nan (o : POpts) (h : optionsError o = none) (t : List Nat) (ht : o.nan = some t) :
    t.head? = some 78 ∨ t.head? = some 110 := by
  by_cases h1 : t.head? = some 78
  · exact Or.inl h1
  · by_cases h2 : t.head? = some 110
    · exact Or.inr h2
    · exfalso
      unfold optionsError at h
      simp only [ht, h1, h2] at h
      simp at h
      split at h
      · cases h
      · split at h <;> cases h

theorem optionsError_inf (o : POpts) (h : optionsError o = none) (t : List Nat) (ht : o.inf = some t) :
    t.head? = some 73 ∨ t.head? = some 105 := by
  by_cases h1 : t.head? = some 73
  · exact Or.inl h1
  · by_cases h2 : t.head? = some 105
    · exact Or.inr h2
    · exfalso
      unfold optionsError at h
      simp only [ht, h1, h2] at h
      simp at h
      split at h
      · cases h
      · split at h
        · cases h
        · split at h
          · cases h
          · split at h <;> cases h

theorem eqSpecial_self (cased : Bool) : ∀ s : List Nat, eqSpecial cased s s = true
  | [] => rfl
  | a :: as => by simp [eqSpecial, matchByte_self, eqSpecial_self cased as]

theorem eqSpecial_head_ne (cased : Bool) (a b : Nat) (as bs : List Nat) (h : lower a ≠ lower b) :
    eqSpecial cased (a :: as) (b :: bs) = false := by
  have hab : a ≠ b := fun e => h (by rw [e])
  unfold eqSpecial matchByte eqUncased
  cases cased <;> simp [h, hab]

/-- the byte cannot begin a number of the format: not `0` (base prefix), not a mantissa digit, not the decimal point,
not the exponent character, not the base suffix -/
structure NotNumberStart (y : Syn) (o : POpts) (c : Nat) : Prop where
  notZero : c ≠ 48
  notDigit : digitVal y.radix c = none
  notPoint : c ≠ o.dp
  notExp : matchByte y.csExp o.exp c = false
  notSuffix : (y.suf ≠ 0 && matchByte y.csSuffix y.suf c) = false

theorem splitNumber_rest (y : Syn) (o : POpts) (sg : Option Bool) (c : Nat) (cs : List Nat)
    (h : NotNumberStart y o c) : (splitNumber y o sg (c :: cs)).rest = c :: cs := by
  have h1 : splitPrefix y (c :: cs) = (false, c :: cs) := by
    unfold splitPrefix
    split
    · rename_i e; cases e; exact absurd rfl h.notZero
    · rfl
  have h2 : takeDigits y.radix (c :: cs) = ([], c :: cs) := by simp [takeDigits, h.notDigit]
  have h3 : splitFraction y o (c :: cs) = (false, [], c :: cs) := by simp [splitFraction, h.notPoint]
  have h4 : splitExponent y o (c :: cs) = (false, none, [], c :: cs) := by simp [splitExponent, h.notExp]
  have h5 : splitSuffix y (c :: cs) = (false, c :: cs) := by
    simp only [splitSuffix, h.notSuffix]
    simp
  unfold splitNumber
  simp only [h1, h2, h3, h4, h5]

theorem numberOk_rest (y : Syn) (p : Parts) (h : p.rest ≠ []) : numberOk y p = false := by
  unfold numberOk
  have : p.rest.isEmpty = false := by cases hr : p.rest <;> simp_all
  simp [this]

/-- **a special string after the writer's sign is that special value** -/
theorem grammar_special (y : Syn) (o : POpts) (sg : Option Bool) (isNan : Bool) (c : Nat) (cs : List Nat)
    (hns : y.noSpecial = false) (hsign : signOk y.noPosMant y.reqMantSign sg = true)
    (hc43 : c ≠ 43) (hc45 : c ≠ 45) (hnn : NotNumberStart y o c)
    (hcfg : if isNan then o.nan = some (c :: cs)
            else (o.inf = some (c :: cs) ∧ ∀ t, o.nan = some t → eqSpecial y.csSpecial (c :: cs) t = false)) :
    grammarFloatSyn y o (signBytes sg ++ c :: cs) =
      if isNan then .nan (signBytes sg ++ c :: cs).length
      else .inf (sg == some true) (signBytes sg ++ c :: cs).length := by
  have hsplit := splitSign_signBytes sg (c :: cs) (by intro x hx; simp at hx; subst hx; exact ⟨hc43, hc45⟩)
  have hne : (signBytes sg ++ c :: cs).isEmpty = false := by cases sg <;> simp
  have hnum : numberOk y (splitNumber y o sg (c :: cs)) = false :=
    numberOk_rest y _ (by rw [splitNumber_rest y o sg c cs hnn]; simp)
  unfold grammarFloatSyn
  simp only [hne, hsplit, hnum, hsign, if_true, Bool.false_eq_true, if_false]
  cases isNan with
  | true =>
    simp only [if_true] at hcfg
    have : specialOf y o (c :: cs) = some true := by
      unfold specialOf isSpecial
      simp [hcfg, hns, eqSpecial_self]
    simp [this]
  | false =>
    simp only [Bool.false_eq_true, if_false] at hcfg
    have h1 : isSpecial y o.nan (c :: cs) = false := by
      unfold isSpecial
      cases hn : o.nan with
      | none => rfl
      | some t => simp [hcfg.2 t hn]
    have h2 : isSpecial y o.inf (c :: cs) = true := by
      unfold isSpecial
      simp [hcfg.1, hns, eqSpecial_self]
    have : specialOf y o (c :: cs) = some false := by
      unfold specialOf
      simp [h1, h2]
    simp [this]

/-- valid parse options: an infinity string is never equal (under either case rule) to the NaN string -/
theorem inf_ne_nan (cased : Bool) (o : POpts) (hv : optionsError o = none) (s t : List Nat) (hs : o.inf = some s)
    (ht : o.nan = some t) : eqSpecial cased s t = false := by
  have h1 := optionsError_inf o hv s hs
  have h2 := optionsError_nan o hv t ht
  cases s with
  | nil => simp at h1
  | cons a as =>
    cases t with
    | nil => simp at h2
    | cons b bs =>
      apply eqSpecial_head_ne
      simp only [List.head?_cons, Option.some.injEq] at h1 h2
      rcases h1 with rfl | rfl <;> rcases h2 with rfl | rfl <;> decide

end LexVerif.Proof.RoundTrip
