import LexVerif.Proof.LemireBasics
/-!
# Proof.LemireExact — `compute_float` on the range where the 128-bit product is exact

For `0 ≤ q ≤ 27` the table row of `5^q` is exact (`5^q < 2^64`: the low word is zero and the high word is
`5^q` shifted to 64 bits), so `hi:lo` is the exact product `w·2^lz · 5^q·2^s`; the rounding code then
computes the half-to-even quotient — the tie test is complete because an exact tie forces `5^q` to
divide an odd `(p+1)`-bit number, i.e. `q ≤ MAX_EXPONENT_ROUND_TO_EVEN`.  Result:
`computeFloat_exact` — valid and equal to `roundNE (w·10^q)`.  Mathlib-free.
-/
namespace LexVerif.Proof.Lemire
open LexVerif.Spec LexVerif.Model LexVerif.Model.Lemire
open LexVerif.Proof.RoundNE LexVerif.Proof.ExtRound LexVerif.Proof.BinaryCorrect

/-- what is needed of row `q` and of `power(q)`, checked for `q = 0..27` by evaluation -/
def rowExactOk (q : Nat) : Bool :=
  Gen.Lemire.powerOfFive128[q + 342]? == some (5 ^ q * 2 ^ (64 - bitlen (5 ^ q)), 0) &&
  decide (bitlen (5 ^ q) ≤ 63) && decide (1 ≤ bitlen (5 ^ q)) &&
  decide (power (wrapI32 q) = 62 + q + bitlen (5 ^ q))

theorem rows_exact_all : (List.range 28).all rowExactOk = true := by decide +kernel

theorem rows_exact (q : Nat) (hq : q ≤ 27) :
    Gen.Lemire.powerOfFive128[q + 342]? = some (5 ^ q * 2 ^ (64 - bitlen (5 ^ q)), 0) ∧
    bitlen (5 ^ q) ≤ 63 ∧ 1 ≤ bitlen (5 ^ q) ∧
    power (wrapI32 q) = 62 + q + bitlen (5 ^ q) := by
  have := LexVerif.Spec.PowerTables.all_range rows_exact_all q (by omega)
  unfold rowExactOk at this
  simp only [Bool.and_eq_true, beq_iff_eq, decide_eq_true_eq] at this
  obtain ⟨⟨⟨h1, h2⟩, h3⟩, h4⟩ := this
  exact ⟨h1, h2, h3, h4⟩

/-- the exact product: for a row `(hi5, 0)` both passes of `compute_product_approx` return the exact
128-bit product `w·hi5` split into words -/
theorem cpa_exact (q : Nat) (hq : q ≤ 27) (wn prec : Nat) (hwn : wn < 2 ^ 64) :
    computeProductApprox (q : Int) wn prec =
      some ((wn * (5 ^ q * 2 ^ (64 - bitlen (5 ^ q)))) % 2 ^ 64,
            (wn * (5 ^ q * 2 ^ (64 - bitlen (5 ^ q)))) / 2 ^ 64) := by
  obtain ⟨hrow, hb63, hb1, _⟩ := rows_exact q hq
  have hidx : asU64 (wrapI64 ((q : Int) - Gen.Lemire.smallestPowerOfFive)) = q + 342 := by
    have hsm : Gen.Lemire.smallestPowerOfFive = -342 := rfl
    rw [hsm]
    unfold asU64 wrapI64 wrapI
    have h64 : (2 : Int) ^ 64 = 18446744073709551616 := by decide
    have h63 : (2 : Int) ^ (64 - 1) = 9223372036854775808 := by decide
    simp only [h64, h63]
    omega
  -- hi5 < 2^64
  have hhi5 : 5 ^ q * 2 ^ (64 - bitlen (5 ^ q)) < 2 ^ 64 := by
    have := bitlen_upper (5 ^ q)
    calc 5 ^ q * 2 ^ (64 - bitlen (5 ^ q)) < 2 ^ bitlen (5 ^ q) * 2 ^ (64 - bitlen (5 ^ q)) :=
          Nat.mul_lt_mul_of_pos_right this (Nat.two_pow_pos _)
      _ = 2 ^ 64 := by
        rw [← Nat.pow_add, show bitlen (5 ^ q) + (64 - bitlen (5 ^ q)) = 64 by omega]
  generalize 5 ^ q * 2 ^ (64 - bitlen (5 ^ q)) = hi5 at *
  have hP : wn * hi5 < 2 ^ 64 * 2 ^ 64 := by
    have h1 : wn * hi5 ≤ wn * 2 ^ 64 := Nat.mul_le_mul_left _ (Nat.le_of_lt hhi5)
    have h2 : wn * 2 ^ 64 < 2 ^ 64 * 2 ^ 64 := Nat.mul_lt_mul_of_pos_right hwn (Nat.two_pow_pos 64)
    exact Nat.lt_of_le_of_lt h1 h2
  have hdiv : wn * hi5 / 2 ^ 64 < 2 ^ 64 := by
    rw [Nat.div_lt_iff_lt_mul (Nat.two_pow_pos _)]; exact hP
  unfold computeProductApprox
  simp only [hidx, hrow, fullMultiplication, Nat.mul_zero, Nat.zero_div, Nat.zero_mod, Nat.add_zero,
    wrap64, Nat.mod_mod, Nat.mod_eq_of_lt hdiv]
  have hng : ¬ (0 > wn * hi5 % 2 ^ 64) := by omega
  simp only [hng, if_false, ite_self]

theorem two_pow_pred {n : Nat} (h : 0 < n) : 2 ^ n = 2 * 2 ^ (n - 1) := by
  obtain ⟨m, rfl⟩ : ∃ m, n = m + 1 := ⟨n - 1, by omega⟩
  rw [Nat.pow_succ', Nat.add_sub_cancel]

theorem two_pow_congr {a b : Nat} (h : a = b) : 2 ^ a = 2 ^ b := by rw [h]

/-- an exact tie forces `5^q` to divide the `(p+1)`-bit quotient -/
theorem five_pow_le_of_tie (q wn s m0 e : Nat) (hm0 : 0 < m0) (h : wn * (5 ^ q * 2 ^ s) = m0 * 2 ^ e) :
    5 ^ q ≤ m0 := by
  have hcop : Nat.Coprime (5 ^ q) (2 ^ e) := Nat.Coprime.pow q e (by decide)
  have hdvd : 5 ^ q ∣ m0 * 2 ^ e := by
    rw [← h]; exact ⟨wn * 2 ^ s, by ac_rfl⟩
  exact Nat.le_of_dvd hm0 (hcop.dvd_of_dvd_mul_right hdvd)

/-- the rounding step of `compute_float` on an exact product, abstractly:
`m0 = P / D` (`p+1` bits), the tie test `tie` is equivalent to "`P` is an odd multiple of `D` above an even
quotient"; then clear-bit / round-half-up computes the half-to-even quotient of `P` by `2·D`. -/
theorem round_step (P D m0 : Nat) (tie : Bool) (hD : 0 < D) (hm0 : m0 = P / D)
    (htie : tie = true ↔ (P % D = 0 ∧ m0 % 4 = 1)) :
    (let m1 := if tie then m0 - m0 % 2 else m0
     (m1 + m1 % 2) / 2) = rhe P (D * 2) := by
  have hmod : P % (D * 2) = P % D + D * (P / D % 2) := Nat.mod_mul
  have hdiv : P / (D * 2) = P / D / 2 := (Nat.div_div_eq_div_mul P D 2).symm
  have hρ := Nat.mod_lt P hD
  rw [← hm0] at hmod hdiv
  simp only []
  unfold rhe
  rw [hdiv, hmod]
  generalize P % D = ρ at *
  cases tie with
  | true =>
    obtain ⟨h1, h2⟩ := htie.mp rfl
    subst h1
    have hb : m0 % 2 = 1 := by omega
    simp only [if_true, hb, Nat.mul_one, Nat.zero_add]
    have : ¬ (2 * D > D * 2 ∨ 2 * D = D * 2 ∧ m0 / 2 % 2 = 1) := by omega
    rw [if_neg this]; omega
  | false =>
    have hnt : ¬ (ρ = 0 ∧ m0 % 4 = 1) := fun h => by have := htie.mpr h; exact absurd this (by decide)
    simp only [Bool.false_eq_true, if_false]
    rcases Nat.mod_two_eq_zero_or_one m0 with hb | hb
    · simp only [hb, Nat.mul_zero, Nat.add_zero]
      have : ¬ (2 * ρ > D * 2 ∨ 2 * ρ = D * 2 ∧ m0 / 2 % 2 = 1) := by omega
      rw [if_neg this]
    · simp only [hb, Nat.mul_one]
      have : (2 * (ρ + D) > D * 2 ∨ 2 * (ρ + D) = D * 2 ∧ m0 / 2 % 2 = 1) := by omega
      rw [if_pos this]; omega

/-- the last steps of `compute_float` (carry, hidden bit, infinity) assemble `encode` -/
theorem assemble {F p eb} (lay : Layout F p eb) (q0 En : Nat) (h1 : 2 ^ (p - 1) ≤ q0) (h2 : q0 ≤ 2 * 2 ^ (p - 1)) :
    let carry : Bool := decide (q0 ≥ shl64 2 F.ms)
    let m := if carry then shl64 1 F.ms else q0
    let e : Int := if carry then ((En + 1 : Nat) : Int) + 1 else ((En + 1 : Nat) : Int)
    let m3 := m - (m / 2 ^ F.ms % 2) * 2 ^ F.ms
    let r : AlgoRes := if e ≥ F.C.infinitePower then .ok (fpInf F) else .ok { mant := m3, exp := e }
    ∃ fp, r = .ok fp ∧ 0 ≤ fp.exp ∧ extendedToFloat F fp = encode F.fmt En q0 := by
  have hp := lay.hp; have hp64 := lay.hp64; have heb := lay.heb
  have hms := lay.msNat
  have hbits : F.C.bits.toNat = p + eb := by rw [lay.bits]; rfl
  have hTT : 2 ^ p = 2 * 2 ^ (p - 1) := by
    rw [← Nat.pow_succ']; congr 1; omega
  have hinf : F.fmt.infBits = (2 ^ eb - 1) * 2 ^ (p - 1) := by rw [lay.fmt]; rfl
  have hM3 : 3 ≤ 2 ^ eb - 1 := by
    have : 2 ^ 2 ≤ 2 ^ eb := Nat.pow_le_pow_right (by decide) heb
    omega
  have hbitsPow : 2 ^ (p + eb) = 2 ^ eb * (2 * 2 ^ (p - 1)) := by
    rw [← hTT, ← Nat.pow_add, Nat.add_comm]
  have hfp : F.fmt.p = p := by rw [lay.fmt]
  have hs1 : shl64 1 F.ms = 2 ^ (p - 1) := by
    unfold shl64; rw [hms, Nat.one_mul]
    exact Nat.mod_eq_of_lt (Nat.pow_lt_pow_right (by decide) (by omega))
  have hs2 : shl64 2 F.ms = 2 * 2 ^ (p - 1) := by
    unfold shl64; rw [hms, ← hTT]
    exact Nat.mod_eq_of_lt (Nat.pow_lt_pow_right (by decide) (by omega))
  intro carry m e m3 r
  show ∃ fp, (if e ≥ F.C.infinitePower then AlgoRes.ok (fpInf F) else .ok { mant := m3, exp := e }) = .ok fp ∧ _
  have hm3 : m3 = m - (m / 2 ^ F.ms % 2) * 2 ^ F.ms := rfl
  have hm : m = if carry then shl64 1 F.ms else q0 := rfl
  have he : e = if carry then ((En + 1 : Nat) : Int) + 1 else ((En + 1 : Nat) : Int) := rfl
  have hc : carry = decide (q0 ≥ shl64 2 F.ms) := rfl
  clear_value carry m e m3
  rw [hs1] at hm
  rw [hs2] at hc
  rw [hms] at hm3
  unfold encode fpInf
  rw [hinf, hfp, lay.infp]
  generalize hT : 2 ^ (p - 1) = T at *
  have hTpos : 0 < T := by rw [← hT]; exact Nat.two_pow_pos _
  generalize hM : 2 ^ eb - 1 = M at *
  have hfit : ∀ m e : Nat, m < T → e ≤ M → e * T + m < 2 ^ eb * (2 * T) := by
    intro m e h1 h2
    have a1 : (e + 1) * T ≤ (M + 1) * T := Nat.mul_le_mul_right T (by omega)
    have a2 : M + 1 = 2 ^ eb := by have := Nat.two_pow_pos eb; omega
    rw [a2, Nat.add_mul, Nat.one_mul] at a1
    have a3 : 2 ^ eb * (2 * T) = 2 * (2 ^ eb * T) := by ac_rfl
    have a4 : 0 < 2 ^ eb * T := Nat.mul_pos (Nat.two_pow_pos eb) hTpos
    omega
  have extF : ∀ m e : Nat, m < T → e ≤ M → extendedToFloat F ⟨m, (e : Int)⟩ = e * T + m := by
    intro m e h1 h2
    have := ext_of_fields F (p - 1) (p + eb) hms hbits m e (by rw [hT]; exact h1)
      (by rw [hT, hbitsPow]; exact hfit m e h1 h2) hp64
    rw [hT] at this; exact this
  by_cases hcar : q0 = 2 * T
  · have hge : q0 ≥ 2 * T := by omega
    have hct : carry = true := by rw [hc]; exact decide_eq_true hge
    rw [hct] at hm he
    simp only [if_true] at hm he
    have hz : T - T / T % 2 * T = 0 := by rw [Nat.div_self hTpos]; omega
    rw [hm, hz] at hm3
    rw [hm3, he]
    by_cases hov : ((En + 1 : Nat) : Int) + 1 ≥ ((M : Nat) : Int)
    · refine ⟨_, if_pos hov, by simp only []; omega, ?_⟩
      have hle : M * T ≤ En * T + q0 := by
        rw [hcar]
        have : M * T ≤ (En + 2) * T := Nat.mul_le_mul_right T (by omega)
        rw [Nat.add_mul] at this; omega
      rw [if_pos hle]
      have := extF 0 M hTpos (Nat.le_refl _)
      rw [Nat.add_zero] at this
      exact this
    · refine ⟨_, if_neg hov, by simp only []; omega, ?_⟩
      have hlt : ¬ M * T ≤ En * T + q0 := by
        rw [hcar]
        have : (En + 3) * T ≤ M * T := Nat.mul_le_mul_right T (by omega)
        rw [Nat.add_mul] at this; omega
      rw [if_neg hlt]
      have hE : ((En + 1 : Nat) : Int) + 1 = ((En + 2 : Nat) : Int) := by omega
      simp only [hE]
      rw [extF 0 (En + 2) hTpos (by omega), hcar, Nat.add_mul]; omega
  · have hlt2 : ¬ q0 ≥ 2 * T := by omega
    have hct : carry = false := by rw [hc]; exact decide_eq_false hlt2
    rw [hct] at hm he
    simp only [Bool.false_eq_true, if_false] at hm he
    have hq : q0 / T = 1 := by
      apply Nat.div_eq_of_lt_le <;> omega
    have hz : q0 - q0 / T % 2 * T = q0 - T := by rw [hq]; omega
    rw [hm, hz] at hm3
    rw [hm3, he]
    have hsplit : En * T + q0 = (En + 1) * T + (q0 - T) := by
      rw [Nat.add_mul]; omega
    by_cases hov : ((En + 1 : Nat) : Int) ≥ ((M : Nat) : Int)
    · refine ⟨_, if_pos hov, by simp only []; omega, ?_⟩
      have hle : M * T ≤ En * T + q0 := by
        rw [hsplit, mul_le_iff_of_lt (by omega)]; omega
      rw [if_pos hle]
      have := extF 0 M hTpos (Nat.le_refl _)
      rw [Nat.add_zero] at this
      exact this
    · refine ⟨_, if_neg hov, by simp only []; omega, ?_⟩
      have hlt : ¬ M * T ≤ En * T + q0 := by
        rw [hsplit, mul_le_iff_of_lt (by omega)]; omega
      rw [if_neg hlt]
      rw [extF (q0 - T) (En + 1) (by omega) (by omega), hsplit]

/-- **`compute_float` on the exact range**: for `0 ≤ q ≤ 27` and every `1 ≤ w < 2^64` the answer is
valid and equals `roundNE (w·10^q)`. -/
theorem computeFloat_exact {F p eb sm lg rlo rhi} (LL : LemLayout F p eb sm lg rlo rhi) (q : Nat) (hq : q ≤ 27)
    (hq38 : (q : Int) ≤ lg) (w : Nat) (hw0 : w ≠ 0) (hw : w < 2 ^ 64) :
    ∃ fp, computeFloat F (q : Int) w false = .ok fp ∧ 0 ≤ fp.exp ∧
      extendedToFloat F fp = roundNE F.fmt (w * 10 ^ q) 1 := by
  have lay := LL.lay
  have hf := lay.wf
  have hp := lay.hp; have hp64 := lay.hp64; have heb := lay.heb
  have hms := lay.msNat
  have hfp : F.fmt.p = p := by rw [lay.fmt]
  obtain ⟨hrow, hb63, hb1, hpow⟩ := rows_exact q hq
  obtain ⟨hlz, hwn1, hwn2, hshl⟩ := clz_norm hw0 hw
  -- unfold the first half
  unfold computeFloat
  rw [if_neg (by intro h; rcases h with h | h; exact hw0 h; rw [LL.smallest] at h; omega),
    if_neg (by rw [LL.largest]; omega)]
  simp only [hshl, cpa_exact q hq _ _ hwn2]
  have hsafe : (!false && (w * 2 ^ clz64 w * (5 ^ q * 2 ^ (64 - bitlen (5 ^ q))) % 2 ^ 64 == litAllOnes) &&
      !(decide (litSafeLo ≤ (q : Int)) && decide ((q : Int) ≤ litSafeHi))) = false := by
    have h1 : decide (litSafeLo ≤ (q : Int)) = true := by
      unfold litSafeLo; simp only [decide_eq_true_eq]; omega
    have h2 : decide ((q : Int) ≤ litSafeHi) = true := by
      unfold litSafeHi; simp only [decide_eq_true_eq]; omega
    rw [h1, h2]; simp
  rw [hsafe]
  simp only [Bool.false_eq_true, if_false]
  -- names
  generalize hlzv : clz64 w = lz at *
  generalize hb5 : bitlen (5 ^ q) = b5 at *
  have h5lo := bitlen_lower (n := 5 ^ q) (Nat.ne_of_gt (Nat.pow_pos (by decide)))
  have h5up := bitlen_upper (5 ^ q)
  rw [hb5] at h5lo h5up
  -- hi5 ∈ [2^63, 2^64)
  have hhi5lo : 2 ^ 63 ≤ 5 ^ q * 2 ^ (64 - b5) := by
    calc 2 ^ 63 = 2 ^ (b5 - 1) * 2 ^ (64 - b5) := by
          rw [← Nat.pow_add, show b5 - 1 + (64 - b5) = 63 by omega]
      _ ≤ 5 ^ q * 2 ^ (64 - b5) := Nat.mul_le_mul_right _ h5lo
  have hhi5up : 5 ^ q * 2 ^ (64 - b5) < 2 ^ 64 := by
    calc 5 ^ q * 2 ^ (64 - b5) < 2 ^ b5 * 2 ^ (64 - b5) :=
          Nat.mul_lt_mul_of_pos_right h5up (Nat.two_pow_pos _)
      _ = 2 ^ 64 := by rw [← Nat.pow_add, show b5 + (64 - b5) = 64 by omega]
  -- P ∈ [2^126, 2^128), even
  have hPeq : w * 2 ^ lz * (5 ^ q * 2 ^ (64 - b5)) = w * 2 ^ lz * 5 ^ q * 2 ^ (64 - b5) := by ac_rfl
  have hPlo : 2 ^ 126 ≤ w * 2 ^ lz * (5 ^ q * 2 ^ (64 - b5)) := by
    calc 2 ^ 126 = 2 ^ 63 * 2 ^ 63 := by decide
      _ ≤ w * 2 ^ lz * (5 ^ q * 2 ^ (64 - b5)) := Nat.mul_le_mul hwn1 hhi5lo
  have hPup : w * 2 ^ lz * (5 ^ q * 2 ^ (64 - b5)) < 2 ^ 128 := by
    have h1 : w * 2 ^ lz * (5 ^ q * 2 ^ (64 - b5)) ≤ w * 2 ^ lz * 2 ^ 64 :=
      Nat.mul_le_mul_left _ (Nat.le_of_lt hhi5up)
    have h2 : w * 2 ^ lz * 2 ^ 64 < 2 ^ 64 * 2 ^ 64 := Nat.mul_lt_mul_of_pos_right hwn2 (Nat.two_pow_pos 64)
    have h3 : 2 ^ 64 * 2 ^ 64 = 2 ^ 128 := by decide
    omega
  have hPeven : (w * 2 ^ lz * (5 ^ q * 2 ^ (64 - b5))) % 2 = 0 := by
    have : 2 ^ (64 - b5) = 2 * 2 ^ (64 - b5 - 1) := two_pow_pred (by omega)
    rw [this]
    have : w * 2 ^ lz * (5 ^ q * (2 * 2 ^ (64 - b5 - 1))) = 2 * (w * 2 ^ lz * (5 ^ q * 2 ^ (64 - b5 - 1))) := by
      ac_rfl
    rw [this]; exact Nat.mul_mod_right _ _
  have hPfac : w * 2 ^ lz * (5 ^ q * 2 ^ (64 - b5)) = (w * 2 ^ lz) * (5 ^ q * 2 ^ (64 - b5)) := rfl
  generalize hP : w * 2 ^ lz * (5 ^ q * 2 ^ (64 - b5)) = P at *
  -- hi, lo, upperbit
  have hhi_lt : P / 2 ^ 64 < 2 ^ 64 := by
    rw [Nat.div_lt_iff_lt_mul (Nat.two_pow_pos _), ← Nat.pow_add]; exact hPup
  have hhi_ge : 2 ^ 62 ≤ P / 2 ^ 64 := by
    rw [Nat.le_div_iff_mul_le (Nat.two_pow_pos _), ← Nat.pow_add]; exact hPlo
  have hlo_even : P % 2 ^ 64 % 2 = 0 := by
    rw [Nat.mod_mod_of_dvd _ (by exact ⟨2 ^ 63, by rw [← Nat.pow_succ']⟩)]; exact hPeven
  unfold cfRound shr
  simp only []
  rw [hms]
  have hext : litPrecisionExtra = 3 := rfl
  rw [hext]
  generalize hu : P / 2 ^ 64 / 2 ^ 63 = u
  have hu01 : u ≤ 1 := by
    rw [← hu]
    have : P / 2 ^ 64 / 2 ^ 63 < 2 := by
      rw [Nat.div_lt_iff_lt_mul (Nat.two_pow_pos _)]; omega
    omega
  have hsh : u + 64 - (p - 1) - 3 = u + 62 - p := by omega
  rw [hsh]
  generalize hshv : u + 62 - p = sh
  have e126 : ¬ u = 1 → 65 + sh + (p - 1) = 126 := by intro h; omega
  have e127 : u = 1 → 65 + sh + (p - 1) = 63 + 64 := by intro h; omega
  -- m0 = P / 2^(64+sh), p+1 bits
  have hm0eq : P / 2 ^ 64 / 2 ^ sh = P / 2 ^ (64 + sh) := by
    rw [Nat.div_div_eq_div_mul, ← Nat.pow_add]
  have hu_iff : (u = 1 ↔ 2 ^ 63 ≤ P / 2 ^ 64) := by
    rw [← hu]
    constructor
    · intro h
      apply Classical.byContradiction; intro hc
      have : P / 2 ^ 64 / 2 ^ 63 = 0 := Nat.div_eq_of_lt (by omega)
      omega
    · intro h
      have : 1 ≤ P / 2 ^ 64 / 2 ^ 63 := by
        rw [Nat.le_div_iff_mul_le (Nat.two_pow_pos _)]; omega
      omega
  have hm0lo : 2 ^ p ≤ P / 2 ^ 64 / 2 ^ sh := by
    rw [Nat.le_div_iff_mul_le (Nat.two_pow_pos _), ← Nat.pow_add]
    by_cases h1 : u = 1
    · have := hu_iff.mp h1
      rw [show p + sh = 63 by omega]; exact this
    · rw [show p + sh = 62 by omega]; exact hhi_ge
  have hm0up : P / 2 ^ 64 / 2 ^ sh < 2 * 2 ^ p := by
    rw [Nat.div_lt_iff_lt_mul (Nat.two_pow_pos _), ← Nat.pow_succ', ← Nat.pow_add]
    by_cases h1 : u = 1
    · rw [show p + 1 + sh = 64 by omega]; exact hhi_lt
    · have : ¬ 2 ^ 63 ≤ P / 2 ^ 64 := fun h => h1 (hu_iff.mpr h)
      rw [show p + 1 + sh = 63 by omega]; omega
  -- power2 ≥ 1
  have hpw2 : power (wrapI32 (q : Int)) + (u : Int) - (lz : Int) - F.C.minimumExponent =
      (((62 + q + b5 + u + (2 ^ (eb - 1) - 1) - lz - 1 : Nat) + 1 : Nat) : Int) := by
    rw [hpow, LL.minimum]
    have := lay.hL127
    omega
  rw [hpw2]
  generalize hEn : 62 + q + b5 + u + (2 ^ (eb - 1) - 1) - lz - 1 = En
  rw [if_neg (by omega)]
  -- the tie test
  have hshl : shl64 (P / 2 ^ 64 / 2 ^ sh) sh = P / 2 ^ 64 / 2 ^ sh * 2 ^ sh := by
    unfold shl64
    apply Nat.mod_eq_of_lt
    have := Nat.div_mul_le_self (P / 2 ^ 64) (2 ^ sh)
    omega
  have htie_iff : ((decide (P % 2 ^ 64 ≤ litTieLo) && decide ((q : Int) ≥ F.C.minExponentRoundToEven) &&
        decide ((q : Int) ≤ F.C.maxExponentRoundToEven) &&
        (P / 2 ^ 64 / 2 ^ sh % (litTieMask + 1) == litTieVal) &&
        (shl64 (P / 2 ^ 64 / 2 ^ sh) sh == P / 2 ^ 64)) = true) ↔
      (P % 2 ^ (64 + sh) = 0 ∧ P / 2 ^ (64 + sh) % 4 = 1) := by
    have hmodP : P % 2 ^ (64 + sh) = P % 2 ^ 64 + 2 ^ 64 * (P / 2 ^ 64 % 2 ^ sh) := by
      rw [Nat.pow_add]; exact Nat.mod_mul
    have hdm := Nat.div_add_mod (P / 2 ^ 64) (2 ^ sh)
    rw [hshl, LL.minRTE, LL.maxRTE, ← hm0eq]
    unfold litTieLo litTieMask litTieVal
    simp only [Bool.and_eq_true, decide_eq_true_eq, beq_iff_eq]
    constructor
    · rintro ⟨⟨⟨⟨h1, _⟩, _⟩, h4⟩, h5⟩
      have hlo0 : P % 2 ^ 64 = 0 := by omega
      have hr0 : P / 2 ^ 64 % 2 ^ sh = 0 := by
        rw [Nat.mul_comm] at hdm; omega
      refine ⟨by rw [hmodP, hlo0, hr0], h4⟩
    · rintro ⟨h1, h2⟩
      rw [hmodP] at h1
      have hlo0 : P % 2 ^ 64 = 0 := by omega
      have hr0 : P / 2 ^ 64 % 2 ^ sh = 0 := by
        have := Nat.two_pow_pos 64
        rcases Nat.eq_zero_or_pos (P / 2 ^ 64 % 2 ^ sh) with h | h
        · exact h
        · have : 2 ^ 64 * 1 ≤ 2 ^ 64 * (P / 2 ^ 64 % 2 ^ sh) := Nat.mul_le_mul_left _ h
          omega
      -- exact tie ⇒ q ≤ rhi
      have hPm : P = P / 2 ^ (64 + sh) * 2 ^ (64 + sh) := by
        have := Nat.div_add_mod P (2 ^ (64 + sh))
        rw [hmodP, hlo0, hr0] at this
        rw [Nat.mul_comm]; omega
      have h5le : 5 ^ q ≤ P / 2 ^ (64 + sh) := by
        apply five_pow_le_of_tie q (w * 2 ^ lz) (64 - b5) _ (64 + sh) (by rw [← hm0eq]; have := Nat.two_pow_pos p; omega)
        rw [← hPm, ← hP]
      have hqr : q ≤ rhi := by
        apply Classical.byContradiction; intro hc
        have : 5 ^ (rhi + 1) ≤ 5 ^ q := Nat.pow_le_pow_right (by decide) (by omega)
        have := LL.rte_ok
        rw [← hm0eq] at h5le
        rw [Nat.pow_succ] at this
        omega
      refine ⟨⟨⟨⟨by omega, by omega⟩, by omega⟩, h2⟩, ?_⟩
      rw [Nat.mul_comm] at hdm; omega
  -- wrap64 is the identity here
  have hwrap : ∀ m, m < 2 ^ 63 → wrap64 (m + m % 2) = m + m % 2 := by
    intro m hm; unfold wrap64; apply Nat.mod_eq_of_lt; omega
  generalize htv : (decide (P % 2 ^ 64 ≤ litTieLo) && decide ((q : Int) ≥ F.C.minExponentRoundToEven) &&
        decide ((q : Int) ≤ F.C.maxExponentRoundToEven) &&
        (P / 2 ^ 64 / 2 ^ sh % (litTieMask + 1) == litTieVal) &&
        (shl64 (P / 2 ^ 64 / 2 ^ sh) sh == P / 2 ^ 64)) = tie at *
  have hstep := round_step P (2 ^ (64 + sh)) (P / 2 ^ 64 / 2 ^ sh) tie (Nat.two_pow_pos _) hm0eq
    (by rw [hm0eq]; exact htie_iff)
  simp only [] at hstep
  have hp63 : 2 * 2 ^ p ≤ 2 ^ 63 := by
    rw [← Nat.pow_succ']; exact Nat.pow_le_pow_right (by decide) (by omega)
  generalize hm0 : P / 2 ^ 64 / 2 ^ sh = m0 at *
  have hm1lt : (if tie = true then m0 - m0 % 2 else m0) < 2 ^ 63 := by split <;> omega
  rw [hwrap _ hm1lt, Nat.pow_one]
  simp only [decide_eq_true_eq] at *
  rw [hstep]
  -- bounds of the rounded quotient
  have hD2 : 2 ^ (64 + sh) * 2 = 2 ^ (65 + sh) := by
    rw [Nat.mul_comm, two_pow_pred (show 0 < 65 + sh by omega), show 65 + sh - 1 = 64 + sh by omega]
  rw [hD2]
  have hge := rhe_ge P (2 ^ (65 + sh))
  have hquot : P / 2 ^ (65 + sh) = m0 / 2 := by
    rw [hm0eq, ← hD2, Nat.div_div_eq_div_mul]
  have hTT : 2 ^ p = 2 * 2 ^ (p - 1) := two_pow_pred (by omega)
  have hq0lo : 2 ^ (p - 1) ≤ rhe P (2 ^ (65 + sh)) := by omega
  have hq0hi : rhe P (2 ^ (65 + sh)) ≤ 2 * 2 ^ (p - 1) := by omega
  obtain ⟨fp, hfp1, hfp2, hfp3⟩ := assemble lay (rhe P (2 ^ (65 + sh))) En hq0lo hq0hi
  rw [hms] at hfp1
  simp only [decide_eq_true_eq] at hfp1
  refine ⟨fp, hfp1, hfp2, ?_⟩
  rw [hfp3]
  -- the value
  symm
  have hL := L_eq lay
  have hL127 := lay.hL127
  have hγ : lz + (64 - b5) ≤ q + L F.fmt := by omega
  have hk : En = 65 + sh + (q + L F.fmt - lz - (64 - b5)) := by
    rw [← hEn, hL]; omega
  apply roundNE_of_scaled hf (by decide) En P (2 ^ (65 + sh)) (2 ^ (q + L F.fmt - lz - (64 - b5)))
    (Nat.two_pow_pos _) (Nat.two_pow_pos _)
  · -- w·10^q·2^L = P·2^γ
    rw [← hP, show (10 : Nat) ^ q = 5 ^ q * 2 ^ q by rw [← Nat.mul_pow]]
    have : w * (5 ^ q * 2 ^ q) * 2 ^ L F.fmt = w * 5 ^ q * 2 ^ (q + L F.fmt) := by
      rw [Nat.pow_add]; ac_rfl
    rw [this]
    have : w * 2 ^ lz * (5 ^ q * 2 ^ (64 - b5)) * 2 ^ (q + L F.fmt - lz - (64 - b5)) =
        w * 5 ^ q * (2 ^ lz * 2 ^ (64 - b5) * 2 ^ (q + L F.fmt - lz - (64 - b5))) := by ac_rfl
    rw [this, ← Nat.pow_add, ← Nat.pow_add,
      two_pow_congr (show lz + (64 - b5) + (q + L F.fmt - lz - (64 - b5)) = q + L F.fmt by omega)]
  · rw [Nat.one_mul, ← Nat.pow_add, hk]
  · intro _; rw [hfp]; exact hq0lo
  · rw [hfp]; exact hq0hi
  · intro _
    rw [hfp, ← Nat.pow_add]
    by_cases h1 : u = 1
    · have h63 := hu_iff.mp h1
      rw [two_pow_congr (e127 h1), Nat.pow_add]
      have h4 : 2 ^ 63 * 2 ^ 64 ≤ P / 2 ^ 64 * 2 ^ 64 := Nat.mul_le_mul_right _ h63
      exact Nat.le_trans h4 (Nat.div_mul_le_self P (2 ^ 64))
    · exact Nat.le_trans (Nat.le_of_eq (two_pow_congr (e126 h1))) hPlo

end LexVerif.Proof.Lemire
