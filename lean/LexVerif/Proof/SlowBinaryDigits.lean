import LexVerif.Proof.SlowBinary
/-!
# Proof.SlowBinaryDigits — the digit loop of `parse_u64_digits` / `slow_binary`

`loop_spec`: starting without overflow with `k` digits accumulated and room for `step` more
(`radix^(k+step) ≤ 2^64`), the single-digit loop accumulates exactly the next `step` digits, never
overflows, and `zero` records whether all later digits are `0`.
`slowDigits_spec`: integer and fraction parts together (leading zeros skipped the way `slow_binary` does)
give `mantissa = value of the first `step` significant digits`, `zero = all later digits are 0`.
Mathlib-free.
-/
namespace LexVerif.Proof.SlowBinary
open LexVerif.Spec LexVerif.Model LexVerif.Model.Binary

/-- Horner value of a digit list on top of `acc` -/
def valOf (radix acc : Nat) (ds : List Nat) : Nat := ds.foldl (fun a d => a * radix + d) acc

def allZero (ds : List Nat) : Bool := ds.all (· == 0)

theorem valOf_cons (radix acc d : Nat) (ds : List Nat) :
    valOf radix acc (d :: ds) = valOf radix (acc * radix + d) ds := rfl

theorem valOf_append (radix acc : Nat) (a b : List Nat) :
    valOf radix acc (a ++ b) = valOf radix (valOf radix acc a) b := by
  unfold valOf; rw [List.foldl_append]

/-- bound: `k` digits accumulated, `ds` more digits `< radix` -/
theorem valOf_lt (radix : Nat) (ds : List Nat) (hds : ∀ d ∈ ds, d < radix) :
    ∀ (acc k : Nat), acc < radix ^ k → valOf radix acc ds < radix ^ (k + ds.length) := by
  induction ds with
  | nil => intro acc k h; simpa [valOf] using h
  | cons d ds ih =>
    intro acc k h
    rw [valOf_cons]
    have hd : d < radix := hds d (List.mem_cons_self ..)
    have h1 : acc * radix + d < radix ^ (k + 1) := by
      rw [Nat.pow_succ]
      have : (acc + 1) * radix ≤ radix ^ k * radix := Nat.mul_le_mul_right radix h
      rw [Nat.add_mul, Nat.one_mul] at this; omega
    have := ih (fun x hx => hds x (List.mem_cons_of_mem _ hx)) _ (k + 1) h1
    rw [List.length_cons, show k + (ds.length + 1) = k + 1 + ds.length by omega]; exact this

/-- splitting the value: `valOf 0 (a ++ b) = valOf 0 a · radix^|b| + valOf 0 b` -/
theorem valOf_split (radix : Nat) (b : List Nat) : ∀ (acc : Nat),
    valOf radix acc b = acc * radix ^ b.length + valOf radix 0 b := by
  induction b with
  | nil => intro acc; simp [valOf]
  | cons d ds ih =>
    intro acc
    rw [valOf_cons, valOf_cons, ih (acc * radix + d), ih (0 * radix + d), List.length_cons, Nat.pow_succ]
    rw [Nat.zero_mul, Nat.zero_add, Nat.add_mul]
    have : acc * radix * radix ^ ds.length = acc * (radix ^ ds.length * radix) := by ac_rfl
    omega

theorem valOf_zero_iff (radix : Nat) (hr : 0 < radix) (ds : List Nat) :
    valOf radix 0 ds = 0 ↔ allZero ds = true := by
  induction ds with
  | nil => simp [valOf, allZero]
  | cons d ds ih =>
    rw [valOf_cons, valOf_split, Nat.zero_mul, Nat.zero_add]
    unfold allZero at *
    simp only [List.all_cons, Bool.and_eq_true, beq_iff_eq]
    have hpos : 0 < radix ^ ds.length := Nat.pow_pos hr
    constructor
    · intro h
      have h1 : valOf radix 0 ds = 0 := by omega
      rcases Nat.eq_zero_or_pos d with hd | hd
      · exact ⟨hd, ih.mp h1⟩
      · have : 0 < d * radix ^ ds.length := Nat.mul_pos hd hpos
        omega
    · rintro ⟨hd, hz⟩
      rw [hd, Nat.zero_mul, Nat.zero_add]; exact ih.mpr hz

/-- **the single-digit loop**: no overflow while `radix^(k + step) ≤ 2^64` -/
theorem loop_spec (radix : Nat) (bytes : List Nat) :
    ∀ (s : DigitState) (k : Nat), s.overflowed = false → s.mantissa < radix ^ k →
      radix ^ (k + s.step) ≤ 2 ^ 64 → (∀ c ∈ bytes, digitVal c radix < radix) →
      parseDigitsLoop radix bytes s =
        { mantissa := valOf radix s.mantissa ((bytes.take s.step).map fun c => digitVal c radix),
          step := s.step - bytes.length, overflowed := false,
          zero := s.zero && allZero ((bytes.drop s.step).map fun c => digitVal c radix) } := by
  induction bytes with
  | nil =>
    intro s k ho _ _ _
    cases s
    simp only [parseDigitsLoop, List.take_nil, List.drop_nil, List.map_nil, valOf, List.foldl_nil, allZero,
      List.all_nil, Bool.and_true, List.length_nil, Nat.sub_zero] at *
    rw [ho]
  | cons c cs ih =>
    intro s k ho hm hk hd
    have hdc : digitVal c radix < radix := hd c (List.mem_cons_self ..)
    have hdcs : ∀ x ∈ cs, digitVal x radix < radix := fun x hx => hd x (List.mem_cons_of_mem _ hx)
    obtain ⟨m, st, ov, z⟩ := s
    simp only [] at ho hm hk
    subst ho
    unfold parseDigitsLoop
    simp only [Bool.not_false, Bool.true_and]
    by_cases hst : st > 0
    · -- a digit is accumulated
      have hnew : m * radix + digitVal c radix < radix ^ (k + 1) := by
        rw [Nat.pow_succ]
        have : (m + 1) * radix ≤ radix ^ k * radix := Nat.mul_le_mul_right radix hm
        rw [Nat.add_mul, Nat.one_mul] at this; omega
      have hfit : m * radix + digitVal c radix < 2 ^ 64 := by
        have h1 : radix ^ (k + 1) ≤ radix ^ (k + st) := by
          rcases Nat.eq_zero_or_pos radix with h0 | hp
          · subst h0; omega
          · exact Nat.pow_le_pow_right hp (by omega)
        omega
      simp only [hst, decide_true, if_true, hfit]
      rw [ih ⟨m * radix + digitVal c radix, st - 1, false, z⟩ (k + 1) rfl hnew (by
        show radix ^ (k + 1 + (st - 1)) ≤ 2 ^ 64
        rw [show k + 1 + (st - 1) = k + st by omega]; exact hk) hdcs]
      obtain ⟨j, hj⟩ : ∃ j, st = j + 1 := ⟨st - 1, by omega⟩
      subst hj
      simp only [Nat.add_sub_cancel, List.take_succ_cons, List.map_cons, valOf_cons, List.drop_succ_cons,
        List.length_cons]
      congr 1
      omega
    · have hst0 : st = 0 := by omega
      subst hst0
      simp only [Nat.lt_irrefl, decide_false, if_false, Bool.false_eq_true, Nat.zero_sub]
      rw [ih ⟨m, 0, false, z && digitVal c radix == 0⟩ k rfl hm hk hdcs]
      simp only [List.take_zero, List.map_nil, valOf, List.foldl_nil, List.drop_zero, List.map_cons,
        allZero, List.all_cons, Nat.zero_sub, Bool.and_assoc]

theorem digitVal_zero_iff (c radix : Nat) (hc : c < 256) : digitVal c radix = 0 ↔ c = 48 := by
  unfold digitVal
  split
  · omega
  · split
    · omega
    · split
      · omega
      · split <;> omega

/-- skipping `'0'` bytes is skipping zero digits -/
theorem map_skipZeros (radix : Nat) (bytes : List Nat) (hb : ∀ c ∈ bytes, c < 256) :
    (skipZeros bytes).map (fun c => digitVal c radix) =
      (bytes.map fun c => digitVal c radix).dropWhile (· == 0) := by
  induction bytes with
  | nil => rfl
  | cons c cs ih =>
    have hc := hb c (List.mem_cons_self ..)
    have hcs : ∀ x ∈ cs, x < 256 := fun x hx => hb x (List.mem_cons_of_mem _ hx)
    unfold skipZeros at *
    rw [List.map_cons, List.dropWhile_cons, List.dropWhile_cons]
    have hiff := digitVal_zero_iff c radix hc
    by_cases h48 : c = 48
    · have h0 : digitVal c radix = 0 := hiff.mpr h48
      subst h48
      simp only [decide_true, if_true, h0, beq_self_eq_true]
      exact ih hcs
    · have h0 : ¬ digitVal c radix = 0 := fun h => h48 (hiff.mp h)
      simp only [h48, decide_false, Bool.false_eq_true, if_false, List.map_cons]
      have : (digitVal c radix == 0) = false := by simp [h0]
      rw [this]; simp

theorem allZero_append (a b : List Nat) : allZero (a ++ b) = (allZero a && allZero b) := by
  unfold allZero; exact List.all_append

theorem dropWhile_head_ne (L : List Nat) (d : Nat) (ds : List Nat)
    (h : L.dropWhile (· == 0) = d :: ds) : d ≠ 0 := by
  induction L with
  | nil => simp at h
  | cons x xs ih =>
    rw [List.dropWhile_cons] at h
    by_cases hx : (x == 0) = true
    · rw [if_pos hx] at h; exact ih h
    · rw [if_neg hx] at h
      injection h with h1 _
      subst h1
      intro h0; subst h0; exact hx rfl

/-- a digit list whose first digit is non-zero has a non-zero value on its first `n ≥ 1` digits -/
theorem valOf_take_pos (radix : Nat) (hr : 0 < radix) (d : Nat) (ds : List Nat) (hd : d ≠ 0) (n : Nat)
    (hn : 1 ≤ n) : valOf radix 0 ((d :: ds).take n) ≠ 0 := by
  obtain ⟨j, rfl⟩ : ∃ j, n = j + 1 := ⟨n - 1, by omega⟩
  rw [List.take_succ_cons, valOf_cons, valOf_split, Nat.zero_mul, Nat.zero_add]
  have : 0 < d * radix ^ (ds.take j).length := Nat.mul_pos (Nat.pos_of_ne_zero hd) (Nat.pow_pos hr)
  omega

/-- **the two digit runs of `slow_binary`** (single-digit loop): integer part with leading zeros skipped,
then the fraction (its leading zeros skipped only while nothing was accumulated): the mantissa is the value
of the first `step` significant digits of the whole literal and `zero` says all later digits are `0`. -/
theorem slowDigits_spec (radix step : Nat) (hstep : 1 ≤ step) (hfit : radix ^ step ≤ 2 ^ 64) (hr : 2 ≤ radix)
    (integer : List Nat) (fraction : Option (List Nat))
    (hvalid : ∀ c ∈ integer ++ fraction.getD [], c < 256 ∧ digitVal c radix < radix) :
    let sig := ((integer ++ fraction.getD []).map fun c => digitVal c radix).dropWhile (· == 0)
    let s0 : DigitState := { mantissa := 0, step := step, overflowed := false, zero := true }
    let s1 := parseDigitsLoop radix (skipZeros integer) s0
    let s2 := match fraction with
      | some fr => parseDigitsLoop radix (if s1.mantissa = 0 then skipZeros fr else fr) s1
      | none => s1
    s2.mantissa = valOf radix 0 (sig.take step) ∧ s2.zero = allZero (sig.drop step) := by
  intro sig s0 s1 s2
  have hi256 : ∀ c ∈ integer, c < 256 := fun c hc => (hvalid c (List.mem_append_left _ hc)).1
  have hidv : ∀ c ∈ integer, digitVal c radix < radix := fun c hc => (hvalid c (List.mem_append_left _ hc)).2
  have hskip_sub : ∀ (l : List Nat) c, c ∈ skipZeros l → c ∈ l := by
    intro l c hc; unfold skipZeros at hc; exact (List.dropWhile_sublist _).subset hc
  -- the integer run
  have h1 : s1 = ⟨valOf radix 0 (((skipZeros integer).take step).map (fun c => digitVal c radix)),
      step - (skipZeros integer).length, false,
      allZero (((skipZeros integer).drop step).map (fun c => digitVal c radix))⟩ := by
    have := loop_spec radix (skipZeros integer) s0 0 rfl (by show 0 < radix ^ 0; simp)
      (by show radix ^ (0 + step) ≤ 2 ^ 64; rw [Nat.zero_add]; exact hfit)
      (fun c hc => hidv c (hskip_sub _ c hc))
    show parseDigitsLoop radix (skipZeros integer) s0 = _
    rw [this]; simp [s0]
  have hId := map_skipZeros radix integer hi256
  generalize hIdv : (integer.map fun c => digitVal c radix).dropWhile (· == 0) = Id at *
  rw [List.map_take, List.map_drop, hId] at h1
  have hIlen : (skipZeros integer).length = Id.length := by rw [← hId, List.length_map]
  rw [hIlen] at h1
  cases fraction with
  | none =>
    have hsig : sig = Id := by
      show ((integer ++ []).map fun c => digitVal c radix).dropWhile (· == 0) = Id
      rw [List.append_nil]; exact hIdv
    show s1.mantissa = _ ∧ s1.zero = _
    rw [hsig, h1]
    exact ⟨rfl, rfl⟩
  | some fr =>
    have hf256 : ∀ c ∈ fr, c < 256 := fun c hc => (hvalid c (List.mem_append_right _ hc)).1
    have hfdv : ∀ c ∈ fr, digitVal c radix < radix := fun c hc => (hvalid c (List.mem_append_right _ hc)).2
    show (parseDigitsLoop radix (if s1.mantissa = 0 then skipZeros fr else fr) s1).mantissa = _ ∧
      (parseDigitsLoop radix (if s1.mantissa = 0 then skipZeros fr else fr) s1).zero = _
    have hsigdef : sig = ((integer.map fun c => digitVal c radix) ++ (fr.map fun c => digitVal c radix)).dropWhile (· == 0) := by
      show ((integer ++ fr).map fun c => digitVal c radix).dropWhile (· == 0) = _
      rw [List.map_append]
    rw [hsigdef, List.dropWhile_append, hIdv]
    have hIdlt : ∀ d ∈ Id, d < radix := by
      intro d hd
      have : d ∈ integer.map fun c => digitVal c radix := by
        rw [← hIdv] at hd; exact (List.dropWhile_sublist _).subset hd
      obtain ⟨c, hc, rfl⟩ := List.mem_map.mp this
      exact hidv c hc
    have hs1m : s1.mantissa = valOf radix 0 (Id.take step) := by rw [h1]
    have hs1lt : s1.mantissa < radix ^ (Id.take step).length := by
      rw [hs1m]
      have := valOf_lt radix (Id.take step) (fun d hd => hIdlt d ((List.take_sublist _ _).subset hd)) 0 0
        (by simp)
      rwa [Nat.zero_add] at this
    cases hIdc : Id with
    | nil =>
      -- only zeros in the integer part: the fraction's leading zeros are skipped
      rw [hIdc] at h1
      simp only [List.take_nil, valOf, List.foldl_nil, List.drop_nil, List.length_nil, Nat.sub_zero, allZero,
        List.all_nil] at h1
      have hm0 : s1.mantissa = 0 := by rw [h1]
      rw [if_pos hm0]
      simp only [List.isEmpty_nil, if_true]
      have := loop_spec radix (skipZeros fr) s1 0 (by rw [h1]) (by rw [hm0]; simp)
        (by rw [h1]; show radix ^ (0 + step) ≤ 2 ^ 64; rw [Nat.zero_add]; exact hfit)
        (fun c hc => hfdv c (hskip_sub _ c hc))
      rw [this, h1]
      simp only [Bool.true_and]
      rw [List.map_take, List.map_drop, map_skipZeros radix fr hf256]
      exact ⟨rfl, rfl⟩
    | cons d ds =>
      rw [hIdc] at h1 hIdlt hs1m hs1lt
      have hd0 : d ≠ 0 := dropWhile_head_ne _ d ds (by rw [hIdv, hIdc])
      have hm0 : ¬ s1.mantissa = 0 := by
        rw [hs1m]; exact valOf_take_pos radix (by omega) d ds hd0 step hstep
      rw [if_neg hm0]
      simp only [List.isEmpty_cons, Bool.false_eq_true, if_false]
      have hk : radix ^ (((d :: ds).take step).length + s1.step) ≤ 2 ^ 64 := by
        rw [h1]
        show radix ^ (((d :: ds).take step).length + (step - (d :: ds).length)) ≤ 2 ^ 64
        have : ((d :: ds).take step).length + (step - (d :: ds).length) = step := by
          rw [List.length_take]; omega
        rw [this]; exact hfit
      have := loop_spec radix fr s1 ((d :: ds).take step).length (by rw [h1]) hs1lt hk hfdv
      have hs1s : s1.step = step - (d :: ds).length := by rw [h1]
      have hs1z : s1.zero = allZero ((d :: ds).drop step) := by rw [h1]
      rw [this]
      simp only []
      rw [hs1s, hs1z, hs1m, List.take_append, List.drop_append, valOf_append, allZero_append, List.map_take,
        List.map_drop]
      exact ⟨rfl, rfl⟩

end LexVerif.Proof.SlowBinary
