import LexVerif.Proof.SlowBinary
/-!
# Proof.SlowBinaryDigits — the digit loop of `parse_u64_digits` / `slow_binary`

`loop_spec`: starting without overflow with `k` digits accumulated and room for `step` more
(`radix^(k+step) ≤ 2^64`), the single-digit loop accumulates exactly the next `step` digits, never
overflows, and `zero` records whether all later digits are `0`.
`slowDigits_spec`: integer and fraction parts together (leading zeros skipped the way `slow_binary` does)
give `mantissa = value of the first `step` significant digits`, `zero = all later digits are 0`.
Mathlib-free.
-/
namespace LexVerif.Proof.SlowBinary
open LexVerif.Spec LexVerif.Model LexVerif.Model.Binary

/-- Horner value of a digit list on top of `acc` -/
def valOf (radix acc : Nat) (ds : List Nat) : Nat := ds.foldl (fun a d => a * radix + d) acc

def allZero (ds : List Nat) : Bool := ds.all (· == 0)

theorem valOf_cons (radix acc d : Nat) (ds : List Nat) :
    valOf radix acc (d :: ds) = valOf radix (acc * radix + d) ds := rfl

theorem valOf_append (radix acc : Nat) (a b : List Nat) :
    valOf radix acc (a ++ b) = valOf radix (valOf radix acc a) b := by
  unfold valOf; rw [List.foldl_append]

/-- bound: `k` digits accumulated, `ds` more digits `< radix` -/
theorem valOf_lt (radix : Nat) (ds : List Nat) (hds : ∀ d ∈ ds, d < radix) :
    ∀ (acc k : Nat), acc < radix ^ k → valOf radix acc ds < radix ^ (k + ds.length) := by
  induction ds with
  | nil => intro acc k h; simpa [valOf] using h
  | cons d ds ih =>
    intro acc k h
    rw [valOf_cons]
    have hd : d < radix := hds d (List.mem_cons_self ..)
    have h1 : acc * radix + d < radix ^ (k + 1) := by
      rw [Nat.pow_succ]
      have : (acc + 1) * radix ≤ radix ^ k * radix := Nat.mul_le_mul_right radix h
      rw [Nat.add_mul, Nat.one_mul] at this; omega
    have := ih (fun x hx => hds x (List.mem_cons_of_mem _ hx)) _ (k + 1) h1
    rw [List.length_cons, show k + (ds.length + 1) = k + 1 + ds.length by omega]; exact this

/-- splitting the value: `valOf 0 (a ++ b) = valOf 0 a · radix^|b| + valOf 0 b` -/
theorem valOf_split (radix : Nat) (b : List Nat) : ∀ (acc : Nat),
    valOf radix acc b = acc * radix ^ b.length + valOf radix 0 b := by
  induction b with
  | nil => intro acc; simp [valOf]
  | cons d ds ih =>
    intro acc
    rw [valOf_cons, valOf_cons, ih (acc * radix + d), ih (0 * radix + d), List.length_cons, Nat.pow_succ]
    rw [Nat.zero_mul, Nat.zero_add, Nat.add_mul]
    have : acc * radix * radix ^ ds.length = acc * (radix ^ ds.length * radix) := by ac_rfl
    omega

theorem valOf_zero_iff (radix : Nat) (hr : 0 < radix) (ds : List Nat) :
    valOf radix 0 ds = 0 ↔ allZero ds = true := by
  induction ds with
  | nil => simp [valOf, allZero]
  | cons d ds ih =>
    rw [valOf_cons, valOf_split, Nat.zero_mul, Nat.zero_add]
    unfold allZero at *
    simp only [List.all_cons, Bool.and_eq_true, beq_iff_eq]
    have hpos : 0 < radix ^ ds.length := Nat.pow_pos hr
    constructor
    · intro h
      have h1 : valOf radix 0 ds = 0 := by omega
      rcases Nat.eq_zero_or_pos d with hd | hd
      · exact ⟨hd, ih.mp h1⟩
      · have : 0 < d * radix ^ ds.length := Nat.mul_pos hd hpos
        omega
    · rintro ⟨hd, hz⟩
      rw [hd, Nat.zero_mul, Nat.zero_add]; exact ih.mpr hz

/-- **the single-digit loop**: no overflow while `radix^(k + step) ≤ 2^64` -/
theorem loop_spec (radix : Nat) (bytes : List Nat) :
    ∀ (s : DigitState) (k : Nat), s.overflowed = false → s.mantissa < radix ^ k →
      radix ^ (k + s.step) ≤ 2 ^ 64 → (∀ c ∈ bytes, digitVal c radix < radix) →
      parseDigitsLoop radix bytes s =
        { mantissa := valOf radix s.mantissa ((bytes.take s.step).map fun c => digitVal c radix),
          step := s.step - bytes.length, overflowed := false,
          zero := s.zero && allZero ((bytes.drop s.step).map fun c => digitVal c radix) } := by
  induction bytes with
  | nil =>
    intro s k ho _ _ _
    cases s
    simp only [parseDigitsLoop, List.take_nil, List.drop_nil, List.map_nil, valOf, List.foldl_nil, allZero,
      List.all_nil, Bool.and_true, List.length_nil, Nat.sub_zero] at *
    rw [ho]
  | cons c cs ih =>
    intro s k ho hm hk hd
    have hdc : digitVal c radix < radix := hd c (List.mem_cons_self ..)
    have hdcs : ∀ x ∈ cs, digitVal x radix < radix := fun x hx => hd x (List.mem_cons_of_mem _ hx)
    obtain ⟨m, st, ov, z⟩ := s
    simp only [] at ho hm hk
    subst ho
    unfold parseDigitsLoop
    simp only [Bool.not_false, Bool.true_and]
    by_cases hst : st > 0
    · -- a digit is accumulated
      have hnew : m * radix + digitVal c radix < radix ^ (k + 1) := by
        rw [Nat.pow_succ]
        have : (m + 1) * radix ≤ radix ^ k * radix := Nat.mul_le_mul_right radix hm
        rw [Nat.add_mul, Nat.one_mul] at this; omega
      have hfit : m * radix + digitVal c radix < 2 ^ 64 := by
        have h1 : radix ^ (k + 1) ≤ radix ^ (k + st) := by
          rcases Nat.eq_zero_or_pos radix with h0 | hp
          · subst h0; omega
          · exact Nat.pow_le_pow_right hp (by omega)
        omega
      simp only [hst, decide_true, if_true, hfit]
      rw [ih ⟨m * radix + digitVal c radix, st - 1, false, z⟩ (k + 1) rfl hnew (by
        show radix ^ (k + 1 + (st - 1)) ≤ 2 ^ 64
        rw [show k + 1 + (st - 1) = k + st by omega]; exact hk) hdcs]
      obtain ⟨j, hj⟩ : ∃ j, st = j + 1 := ⟨st - 1, by omega⟩
      subst hj
      simp only [Nat.add_sub_cancel, List.take_succ_cons, List.map_cons, valOf_cons, List.drop_succ_cons,
        List.length_cons]
      congr 1
      omega
    · have hst0 : st = 0 := by omega
      subst hst0
      simp only [Nat.lt_irrefl, decide_false, if_false, Bool.false_eq_true, Nat.zero_sub]
      rw [ih ⟨m, 0, false, z && digitVal c radix == 0⟩ k rfl hm hk hdcs]
      simp only [List.take_zero, List.map_nil, valOf, List.foldl_nil, List.drop_zero, List.map_cons,
        allZero, List.all_cons, Nat.zero_sub, Bool.and_assoc]

theorem digitVal_zero_iff (c radix : Nat) (hc : c < 256) : digitVal c radix = 0 ↔ c = 48 := by
  unfold digitVal
  split
  · omega
  · split
    · omega
    · split
      · omega
      · split <;> omega

/-- skipping `'0'` bytes is skipping zero digits -/
theorem map_skipZeros (radix : Nat) (bytes : List Nat) (hb : ∀ c ∈ bytes, c < 256) :
    (skipZeros bytes).map (fun c => digitVal c radix) =
      (bytes.map fun c => digitVal c radix).dropWhile (· == 0) := by
  induction bytes with
  | nil => rfl
  | cons c cs ih =>
    have hc := hb c (List.mem_cons_self ..)
    have hcs : ∀ x ∈ cs, x < 256 := fun x hx => hb x (List.mem_cons_of_mem _ hx)
    unfold skipZeros at *
    rw [List.map_cons, List.dropWhile_cons, List.dropWhile_cons]
    have hiff := digitVal_zero_iff c radix hc
    by_cases h48 : c = 48
    · have h0 : digitVal c radix = 0 := hiff.mpr h48
      subst h48
      simp only [decide_true, if_true, h0, beq_self_eq_true]
      exact ih hcs
    · have h0 : ¬ digitVal c radix = 0 := fun h => h48 (hiff.mp h)
      simp only [h48, decide_false, Bool.false_eq_true, if_false, List.map_cons]
      have : (digitVal c radix == 0) = false := by simp [h0]
      rw [this]; simp

theorem allZero_append (a b : List Nat) : allZero (a ++ b) = (allZero a && allZero b) := by
  unfold allZero; exact List.all_append

theorem dropWhile_head_ne (L : List Nat) (d : Nat) (ds : List Nat)
    (h : L.dropWhile (· == 0) = d :: ds) : d ≠ 0 := by
  induction L with
  | nil => simp at h
  | cons x xs ih =>
    rw [List.dropWhile_cons] at h
    by_cases hx : (x == 0) = true
    · rw [if_pos hx] at h; exact ih h
    · rw [if_neg hx] at h
      injection h with h1 _
      subst h1
      intro h0; subst h0; exact hx rfl

/-- a digit list whose first digit is non-zero has a non-zero value on its first `n ≥ 1` digits -/
theorem valOf_take_pos (radix : Nat) (hr : 0 < radix) (d : Nat) (ds : List Nat) (hd : d ≠ 0) (n : Nat)
    (hn : 1 ≤ n) : valOf radix 0 ((d :: ds).take n) ≠ 0 := by
  obtain ⟨j, rfl⟩ : ∃ j, n = j + 1 := ⟨n - 1, by omega⟩
  rw [List.take_succ_cons, valOf_cons, valOf_split, Nat.zero_mul, Nat.zero_add]
  have : 0 < d * radix ^ (ds.take j).length := Nat.mul_pos (Nat.pos_of_ne_zero hd) (Nat.pow_pos hr)
  omega

/-- **the two digit runs of `slow_binary`** (single-digit loop): integer part with leading zeros skipped,
then the fraction (its leading zeros skipped only while nothing was accumulated): the mantissa is the value
of the first `step` significant digits of the whole literal and `zero` says all later digits are `0`. -/
theorem slowDigits_spec (radix step : Nat) (hstep : 1 ≤ step) (hfit : radix ^ step ≤ 2 ^ 64) (hr : 2 ≤ radix)
    (integer : List Nat) (fraction : Option (List Nat))
    (hvalid : ∀ c ∈ integer ++ fraction.getD [], c < 256 ∧ digitVal c radix < radix) :
    let sig := ((integer ++ fraction.getD []).map fun c => digitVal c radix).dropWhile (· == 0)
    let s0 : DigitState := { mantissa := 0, step := step, overflowed := false, zero := true }
    let s1 := parseDigitsLoop radix (skipZeros integer) s0
    let s2 := match fraction with
      | some fr => parseDigitsLoop radix (if s1.mantissa = 0 then skipZeros fr else fr) s1
      | none => s1
    s2.mantissa = valOf radix 0 (sig.take step) ∧ s2.zero = allZero (sig.drop step) := by
  intro sig s0 s1 s2
  have hi256 : ∀ c ∈ integer, c < 256 := fun c hc => (hvalid c (List.mem_append_left _ hc)).1
  have hidv : ∀ c ∈ integer, digitVal c radix < radix := fun c hc => (hvalid c (List.mem_append_left _ hc)).2
  have hskip_sub : ∀ (l : List Nat) c, c ∈ skipZeros l → c ∈ l := by
    intro l c hc; unfold skipZeros at hc; exact (List.dropWhile_sublist _).subset hc
  -- the integer run
  have h1 : s1 = ⟨valOf radix 0 (((skipZeros integer).take step).map (fun c => digitVal c radix)),
      step - (skipZeros integer).length, false,
      allZero (((skipZeros integer).drop step).map (fun c => digitVal c radix))⟩ := by
    have := loop_spec radix (skipZeros integer) s0 0 rfl (by show 0 < radix ^ 0; simp)
      (by show radix ^ (0 + step) ≤ 2 ^ 64; rw [Nat.zero_add]; exact hfit)
      (fun c hc => hidv c (hskip_sub _ c hc))
    show parseDigitsLoop radix (skipZeros integer) s0 = _
    rw [this]; simp [s0]
  have hId := map_skipZeros radix integer hi256
  generalize hIdv : (integer.map fun c => digitVal c radix).dropWhile (· == 0) = Id at *
  rw [List.map_take, List.map_drop, hId] at h1
  have hIlen : (skipZeros integer).length = Id.length := by rw [← hId, List.length_map]
  rw [hIlen] at h1
  cases fraction with
  | none =>
    have hsig : sig = Id := by
      show ((integer ++ []).map fun c => digitVal c radix).dropWhile (· == 0) = Id
      rw [List.append_nil]; exact hIdv
    show s1.mantissa = _ ∧ s1.zero = _
    rw [hsig, h1]
    exact ⟨rfl, rfl⟩
  | some fr =>
    have hf256 : ∀ c ∈ fr, c < 256 := fun c hc => (hvalid c (List.mem_append_right _ hc)).1
    have hfdv : ∀ c ∈ fr, digitVal c radix < radix := fun c hc => (hvalid c (List.mem_append_right _ hc)).2
    show (parseDigitsLoop radix (if s1.mantissa = 0 then skipZeros fr else fr) s1).mantissa = _ ∧
      (parseDigitsLoop radix (if s1.mantissa = 0 then skipZeros fr else fr) s1).zero = _
    have hsigdef : sig = ((integer.map fun c => digitVal c radix) ++ (fr.map fun c => digitVal c radix)).dropWhile (· == 0) := by
      show ((integer ++ fr).map fun c => digitVal c radix).dropWhile (· == 0) = _
      rw [List.map_append]
    rw [hsigdef, List.dropWhile_append, hIdv]
    have hIdlt : ∀ d ∈ Id, d < radix := by
      intro d hd
      have : d ∈ integer.map fun c => digitVal c radix := by
        rw [← hIdv] at hd; exact (List.dropWhile_sublist _).subset hd
      obtain ⟨c, hc, rfl⟩ := List.mem_map.mp this
      exact hidv c hc
    have hs1m : s1.mantissa = valOf radix 0 (Id.take step) := by rw [h1]
    have hs1lt : s1.mantissa < radix ^ (Id.take step).length := by
      rw [hs1m]
      have := valOf_lt radix (Id.take step) (fun d hd => hIdlt d ((List.take_sublist _ _).subset hd)) 0 0
        (by simp)
      rwa [Nat.zero_add] at this
    cases hIdc : Id with
    | nil =>
      -- only zeros in the integer part: the fraction's leading zeros are skipped
      rw [hIdc] at h1
      simp only [List.take_nil, valOf, List.foldl_nil, List.drop_nil, List.length_nil, Nat.sub_zero, allZero,
        List.all_nil] at h1
      have hm0 : s1.mantissa = 0 := by rw [h1]
      rw [if_pos hm0]
      simp only [List.isEmpty_nil, if_true]
      have := loop_spec radix (skipZeros fr) s1 0 (by rw [h1]) (by rw [hm0]; simp)
        (by rw [h1]; show radix ^ (0 + step) ≤ 2 ^ 64; rw [Nat.zero_add]; exact hfit)
        (fun c hc => hfdv c (hskip_sub _ c hc))
      rw [this, h1]
      simp only [Bool.true_and]
      rw [List.map_take, List.map_drop, map_skipZeros radix fr hf256]
      exact ⟨rfl, rfl⟩
    | cons d ds =>
      rw [hIdc] at h1 hIdlt hs1m hs1lt
      have hd0 : d ≠ 0 := dropWhile_head_ne _ d ds (by rw [hIdv, hIdc])
      have hm0 : ¬ s1.mantissa = 0 := by
        rw [hs1m]; exact valOf_take_pos radix (by omega) d ds hd0 step hstep
      rw [if_neg hm0]
      simp only [List.isEmpty_cons, Bool.false_eq_true, if_false]
      have hk : radix ^ (((d :: ds).take step).length + s1.step) ≤ 2 ^ 64 := by
        rw [h1]
        show radix ^ (((d :: ds).take step).length + (step - (d :: ds).length)) ≤ 2 ^ 64
        have : ((d :: ds).take step).length + (step - (d :: ds).length) = step := by
          rw [List.length_take]; omega
        rw [this]; exact hfit
      have := loop_spec radix fr s1 ((d :: ds).take step).length (by rw [h1]) hs1lt hk hfdv
      have hs1s : s1.step = step - (d :: ds).length := by rw [h1]
      have hs1z : s1.zero = allZero ((d :: ds).drop step) := by rw [h1]
      rw [this]
      simp only []
      rw [hs1s, hs1z, hs1m, List.take_append, List.drop_append, valOf_append, allZero_append, List.map_take,
        List.map_drop]
      exact ⟨rfl, rfl⟩

/-- the two digit runs as one function -/
def runs (radix step : Nat) (integer : List Nat) (fraction : Option (List Nat)) : DigitState :=
  let s0 : DigitState := { mantissa := 0, step := step, overflowed := false, zero := true }
  let s1 := parseDigitsLoop radix (skipZeros integer) s0
  match fraction with
  | some fr => parseDigitsLoop radix (if s1.mantissa = 0 then skipZeros fr else fr) s1
  | none => s1

theorem runs_spec (radix step : Nat) (hstep : 1 ≤ step) (hfit : radix ^ step ≤ 2 ^ 64) (hr : 2 ≤ radix)
    (integer : List Nat) (fraction : Option (List Nat))
    (hvalid : ∀ c ∈ integer ++ fraction.getD [], c < 256 ∧ digitVal c radix < radix) :
    (runs radix step integer fraction).mantissa =
      valOf radix 0 ((((integer ++ fraction.getD []).map fun c => digitVal c radix).dropWhile (· == 0)).take step) ∧
    (runs radix step integer fraction).zero =
      allZero ((((integer ++ fraction.getD []).map fun c => digitVal c radix).dropWhile (· == 0)).drop step) := by
  cases fraction with
  | none => exact slowDigits_spec radix step hstep hfit hr integer none hvalid
  | some fr => exact slowDigits_spec radix step hstep hfit hr integer (some fr) hvalid

/-! ## the 8-digit fast loop is eight single steps -/

theorem loop_append (radix : Nat) (a : List Nat) : ∀ (b : List Nat) (s : DigitState),
    parseDigitsLoop radix (a ++ b) s = parseDigitsLoop radix b (parseDigitsLoop radix a s) := by
  induction a with
  | nil => intro b s; rfl
  | cons c cs ih =>
    intro b s
    rw [List.cons_append]
    simp only [parseDigitsLoop]
    exact ih b _

/-- invariant of the digit loops: no overflow so far, `k` digits accumulated, room for `step` more -/
structure LoopInv (radix : Nat) (s : DigitState) (k : Nat) : Prop where
  ov : s.overflowed = false
  lt : s.mantissa < radix ^ k
  fit : radix ^ (k + s.step) ≤ 2 ^ 64

theorem parse8_some (radix : Nat) (hr10 : radix ≤ 10) (bytes : List Nat) (hlen : 8 ≤ bytes.length)
    (hv : ∀ c ∈ bytes, digitVal c radix < radix) :
    parse8 radix bytes = some (valOf radix 0 ((bytes.take 8).map fun c => digitVal c radix)) := by
  unfold parse8
  rw [if_neg (by omega)]
  have hdv : ∀ c, (c + 256 - 48) % 256 = digitVal c radix := by
    intro c; unfold digitVal; rw [if_pos hr10]
  have hmap : (bytes.take 8).map (fun c => (c + 256 - 48) % 256) = (bytes.take 8).map fun c => digitVal c radix := by
    apply List.map_congr_left; intro c _; exact hdv c
  simp only [hmap]
  have hall : ((bytes.take 8).map fun c => digitVal c radix).all (· < radix) = true := by
    rw [List.all_eq_true]
    intro d hd
    obtain ⟨c, hc, rfl⟩ := List.mem_map.mp hd
    exact decide_eq_true (hv c ((List.take_sublist _ _).subset hc))
  rw [if_pos hall]; rfl

theorem parse8Loop_eq (radix : Nat) (hr0 : 0 < radix) (hr10 : radix ≤ 10) : ∀ (fuel : Nat) (bytes : List Nat) (s : DigitState) (k : Nat),
    LoopInv radix s k → (∀ c ∈ bytes, digitVal c radix < radix) →
    parseDigitsLoop radix (parse8Loop radix fuel bytes s).1 (parse8Loop radix fuel bytes s).2 =
      parseDigitsLoop radix bytes s := by
  intro fuel
  induction fuel with
  | zero => intro bytes s k _ _; rfl
  | succ fuel ih =>
    intro bytes s k inv hv
    unfold parse8Loop
    by_cases hst : s.step > 8
    · rw [if_pos hst]
      by_cases hlen : 8 ≤ bytes.length
      · rw [parse8_some radix hr10 bytes hlen hv]
        simp only []
        have hv8 : ∀ c ∈ bytes.take 8, digitVal c radix < radix :=
          fun c hc => hv c ((List.take_sublist _ _).subset hc)
        have hvd : ∀ c ∈ bytes.drop 8, digitVal c radix < radix :=
          fun c hc => hv c ((List.drop_sublist _ _).subset hc)
        -- eight single steps
        have h8 := loop_spec radix (bytes.take 8) s k inv.ov inv.lt inv.fit hv8
        have hl8 : (bytes.take 8).length = 8 := by rw [List.length_take]; omega
        have ht : (bytes.take 8).take s.step = bytes.take 8 := by
          rw [List.take_take]; congr 1; omega
        have hd : (bytes.take 8).drop s.step = [] := List.drop_eq_nil_of_le (by omega)
        rw [ht, hd, hl8] at h8
        simp only [List.map_nil, allZero, List.all_nil, Bool.and_true] at h8
        -- no wrap in the bulk step
        have hvlt := valOf_lt radix ((bytes.take 8).map fun c => digitVal c radix)
          (by intro d hd; obtain ⟨c, hc, rfl⟩ := List.mem_map.mp hd; exact hv8 c hc) s.mantissa k inv.lt
        rw [List.length_map, hl8] at hvlt
        have hpow : radix ^ (k + 8) ≤ radix ^ (k + s.step) := Nat.pow_le_pow_right hr0 (by omega)
        have hfit := inv.fit
        have hsplit := valOf_split radix ((bytes.take 8).map fun c => digitVal c radix) s.mantissa
        rw [List.length_map, hl8] at hsplit
        have hbulk : wrap64 (wrap64 (s.mantissa * radix ^ 8) +
            valOf radix 0 ((bytes.take 8).map fun c => digitVal c radix)) =
            valOf radix s.mantissa ((bytes.take 8).map fun c => digitVal c radix) := by
          unfold wrap64
          have e1 : s.mantissa * radix ^ 8 % 2 ^ 64 = s.mantissa * radix ^ 8 := Nat.mod_eq_of_lt (by omega)
          rw [e1, ← hsplit]
          exact Nat.mod_eq_of_lt (by omega)
        rw [hbulk]
        have hfit' : radix ^ (k + 8 + (s.step - 8)) ≤ 2 ^ 64 := by
          rw [show k + 8 + (s.step - 8) = k + s.step by omega]; exact hfit
        have inv' : LoopInv radix
            { s with mantissa := valOf radix s.mantissa ((bytes.take 8).map fun c => digitVal c radix),
                     step := s.step - 8 } (k + 8) := ⟨inv.ov, hvlt, hfit'⟩
        rw [ih (bytes.drop 8) _ (k + 8) inv' hvd]
        conv => rhs; rw [← List.take_append_drop 8 bytes, loop_append, h8]
        congr 1
        have hov := inv.ov
        cases s; simp only [] at hov; subst hov; rfl
      · have : parse8 radix bytes = none := by
          unfold parse8; rw [if_pos (by omega)]
        rw [this]
    · rw [if_neg hst]

theorem parseU64Digits_eq (compact : Bool) (radix : Nat) (hr0 : 0 < radix) (bytes : List Nat) (s : DigitState) (k : Nat)
    (inv : LoopInv radix s k) (hv : ∀ c ∈ bytes, digitVal c radix < radix) :
    parseU64Digits compact radix bytes s = parseDigitsLoop radix bytes s := by
  unfold parseU64Digits
  by_cases hc : (!compact && decide (radix ≤ 10)) = true
  · rw [if_pos hc]
    simp only [Bool.and_eq_true, decide_eq_true_eq] at hc
    exact parse8Loop_eq radix hr0 hc.2 _ bytes s k inv hv
  · rw [if_neg hc]

/-- `slow_binary` in terms of `runs`, for valid digit bytes (both digit loops of `parse_u64_digits` covered) -/
theorem slowBinary_runs (F : FTy) (compact : Bool) (radix base step : Nat) (e : Int) (integer : List Nat)
    (fraction : Option (List Nat)) (hr : 2 ≤ radix) (hfit : radix ^ step ≤ 2 ^ 64)
    (hvalid : ∀ c ∈ integer ++ fraction.getD [], digitVal c radix < radix) :
    slowBinary F compact radix base step e integer fraction =
      slowTail F base e (runs radix step integer fraction).mantissa (runs radix step integer fraction).zero := by
  have hskip_sub : ∀ (l : List Nat) c, c ∈ skipZeros l → c ∈ l := by
    intro l c hc; unfold skipZeros at hc; exact (List.dropWhile_sublist _).subset hc
  have hidv : ∀ c ∈ skipZeros integer, digitVal c radix < radix :=
    fun c hc => hvalid c (List.mem_append_left _ (hskip_sub _ c hc))
  have inv0 : LoopInv radix (⟨0, step, false, true⟩ : DigitState) 0 :=
    ⟨rfl, by show 0 < radix ^ 0; simp, by show radix ^ (0 + step) ≤ 2 ^ 64; rw [Nat.zero_add]; exact hfit⟩
  have h1 : parseU64Digits compact radix (skipZeros integer) (⟨0, step, false, true⟩ : DigitState) = parseDigitsLoop radix (skipZeros integer) (⟨0, step, false, true⟩ : DigitState) :=
    parseU64Digits_eq compact radix (by omega) _ (⟨0, step, false, true⟩ : DigitState) 0 inv0 hidv
  -- invariant after the integer run
  have hs1 := loop_spec radix (skipZeros integer) (⟨0, step, false, true⟩ : DigitState) 0 inv0.ov inv0.lt inv0.fit hidv
  have inv1 : LoopInv radix (parseDigitsLoop radix (skipZeros integer) (⟨0, step, false, true⟩ : DigitState))
      ((skipZeros integer).take step).length := by
    rw [hs1]
    refine ⟨rfl, ?_, ?_⟩
    · have := valOf_lt radix (((skipZeros integer).take step).map fun c => digitVal c radix)
        (by intro d hd; obtain ⟨c, hc, rfl⟩ := List.mem_map.mp hd
            exact hidv c ((List.take_sublist _ _).subset hc)) 0 0 (by simp)
      rw [Nat.zero_add, List.length_map] at this; exact this
    · show radix ^ (((skipZeros integer).take step).length + (step - (skipZeros integer).length)) ≤ 2 ^ 64
      have : ((skipZeros integer).take step).length + (step - (skipZeros integer).length) ≤ step := by
        rw [List.length_take]; omega
      exact Nat.le_trans (Nat.pow_le_pow_right (by omega) this) hfit
  cases fraction with
  | none => simp only [slowBinary, runs, h1]; rfl
  | some fr =>
    have hfdv : ∀ c ∈ fr, digitVal c radix < radix := fun c hc => hvalid c (List.mem_append_right _ hc)
    have h2 : ∀ (bytes : List Nat), (∀ c ∈ bytes, digitVal c radix < radix) →
        parseU64Digits compact radix bytes (parseDigitsLoop radix (skipZeros integer) (⟨0, step, false, true⟩ : DigitState)) =
          parseDigitsLoop radix bytes (parseDigitsLoop radix (skipZeros integer) (⟨0, step, false, true⟩ : DigitState)) :=
      fun bytes hb => parseU64Digits_eq compact radix (by omega) bytes _ _ inv1 hb
    simp only [slowBinary, runs, h1]
    rw [h2 _ (by intro c hc; split at hc
                 · exact hfdv c (hskip_sub _ c hc)
                 · exact hfdv c hc)]
    rfl

theorem valOf_ge_head (radix d : Nat) (ds : List Nat) : d * radix ^ ds.length ≤ valOf radix 0 (d :: ds) := by
  rw [valOf_cons, valOf_split, Nat.zero_mul, Nat.zero_add]; exact Nat.le_add_right _ _

/-- what an undecided `binary` says about its mantissa -/
theorem undecided_facts {F p eb} (lay : LexVerif.Proof.ExtRound.Layout F p eb) {base : Nat}
    (hb : base = 2 ∨ base = 4 ∨ base = 8 ∨ base = 16 ∨ base = 32) (M : Nat) (e : Int)
    (hM : M < 2 ^ 64) (he1 : -(2 ^ 27 : Int) ≤ e) (he2 : e ≤ (2 ^ 27 : Int))
    {fp : ExtendedFloat80} (h : binary F base ⟨M, e, false, true⟩ false = .ok fp) (hv : fp.exp < 0) :
    M ≠ 0 ∧ -(calculatePower2 F base e (clz64 M)) + 1 ≤ 64 ∧
    HalfwayEven (M * 2 ^ clz64 M) (LexVerif.Proof.ExtRound.shiftOf p (calculatePower2 F base e (clz64 M))) := by
  open LexVerif.Proof.BinaryCorrect LexVerif.Proof.ExtRound in
  rw [binary_eq] at h
  by_cases h0 : M = 0
  · rw [if_pos h0] at h; injection h with h; subst h; simp at hv
  · rw [if_neg h0] at h
    obtain ⟨hc, hm1, hm2, hshl⟩ := clz_norm h0 hM
    simp only [hshl] at h
    generalize hP : calculatePower2 F base e (clz64 M) = power2 at *
    by_cases hz : -power2 + 1 > 64
    · rw [if_pos hz] at h; injection h with h; subst h; simp at hv
    · rw [if_neg hz] at h
      have hp2 : -power2 + 1 ≤ 64 := by omega
      by_cases hinf : power2 ≥ F.C.infinitePower
      · rw [if_pos hinf] at h; injection h with h; subst h
        simp only [] at hv; rw [lay.infp] at hv; omega
      rw [if_neg hinf] at h
      rw [calculateShift_eq lay power2] at h
      obtain ⟨_, _, hs0, hs64, _⟩ := quot_bounds lay.hp (by have := lay.hp64; have := lay.heb; omega)
        hm1 hm2 power2 hp2
      by_cases hu : binUndecided (M * 2 ^ clz64 M) (shiftOf p power2) false true = true
      · refine ⟨h0, hp2, ?_⟩
        generalize hs : shiftOf p power2 = s at *
        have hh := lowerNHalfway_eq hs0 hs64
        have htb : (if s = 64 then M * 2 ^ clz64 M else M * 2 ^ clz64 M % 2 ^ (s % 64)) =
            M * 2 ^ clz64 M % 2 ^ s := by
          split
          · subst_vars; rw [Nat.mod_eq_of_lt hm2]
          · rw [Nat.mod_eq_of_lt (show s < 64 by omega)]
        have hev : (if s = 64 then true else decide (M * 2 ^ clz64 M / 2 ^ (s % 64) % 2 = 0)) =
            decide (M * 2 ^ clz64 M / 2 ^ s % 2 = 0) := by
          split
          · subst_vars; rw [Nat.div_eq_of_lt hm2]; rfl
          · rw [Nat.mod_eq_of_lt (show s < 64 by omega)]
        unfold binUndecided at hu
        simp only [htb, hev, hh, Bool.not_false, Bool.true_and, Bool.and_eq_true, decide_eq_true_eq,
          Bool.and_true] at hu
        exact ⟨hu.2, hu.1⟩
      · rw [if_neg hu] at h
        injection h with h; subst h
        have := (round_bits lay (M * 2 ^ clz64 M) power2
          (fun _ _ _ => binRoundUp (M * 2 ^ clz64 M) (shiftOf p power2)) hm1 hm2 hp2).1
        omega

/-- **`slowBinary_correct`**: digit loops (single-digit and 8-digit), leading-zero skipping, sticky bit,
rounding; see `Props/C05.lean`. -/
theorem slowBinary_digits_correct {F p eb} (lay : LexVerif.Proof.ExtRound.Layout F p eb) (hp54 : p ≤ 54)
    (compact : Bool) (radix : Nat)
    (hradix : radix = 2 ∨ radix = 4 ∨ radix = 8 ∨ radix = 16 ∨ radix = 32) {base : Nat}
    (hb : base = 2 ∨ base = 4 ∨ base = 8 ∨ base = 16 ∨ base = 32) (step : Nat)
    (hfit : radix ^ step ≤ 2 ^ 64) (hmax : 2 ^ 64 < radix ^ (step + 1)) (e : Int)
    (he1 : -(2 ^ 27 : Int) ≤ e) (he2 : e ≤ (2 ^ 27 : Int)) (integer : List Nat) (fraction : Option (List Nat))
    (hvalid : ∀ c ∈ integer ++ fraction.getD [], c < 256 ∧ digitVal c radix < radix) :
    let sig := ((integer ++ fraction.getD []).map fun c => digitVal c radix).dropWhile (· == 0)
    let first := valOf radix 0 (sig.take step)
    (∃ fp, binary F base ⟨first, e, false, true⟩ false = .ok fp ∧ fp.exp < 0) →
    extendedToFloat F (slowBinary F compact radix base step e integer fraction) =
      roundNE F.fmt (LexVerif.Proof.RoundNE.powFrac base e (valOf radix 0 sig)).1
        ((LexVerif.Proof.RoundNE.powFrac base e (valOf radix 0 sig)).2 * radix ^ (sig.length - step)) := by
  open LexVerif.Proof.BinaryCorrect LexVerif.Proof.ExtRound LexVerif.Proof.RoundNE in
  intro sig first hund
  have hr2 : 2 ≤ radix := by rcases hradix with h | h | h | h | h <;> omega
  have hr32 : radix ≤ 32 := by rcases hradix with h | h | h | h | h <;> omega
  have hstep1 : 1 ≤ step := by
    apply Classical.byContradiction; intro hc
    have : step = 0 := by omega
    subst this
    rw [Nat.zero_add, Nat.pow_one] at hmax
    have : (32 : Nat) < 2 ^ 64 := by decide
    omega
  rw [slowBinary_runs F compact radix base step e integer fraction hr2 hfit (fun c hc => (hvalid c hc).2)]
  obtain ⟨hmant, hzero⟩ := runs_spec radix step hstep1 hfit hr2 integer fraction hvalid
  rw [hmant, hzero]
  -- digits of sig
  have hsiglt : ∀ d ∈ sig, d < radix := by
    intro d hd
    have : d ∈ (integer ++ fraction.getD []).map fun c => digitVal c radix :=
      (List.dropWhile_sublist _).subset hd
    obtain ⟨c, hc, rfl⟩ := List.mem_map.mp this
    exact (hvalid c hc).2
  -- value split
  have hsplit : valOf radix 0 sig = first * radix ^ (sig.length - step) + valOf radix 0 (sig.drop step) := by
    conv => lhs; rw [← List.take_append_drop step sig]
    rw [valOf_append, valOf_split, List.length_drop]
  have hrlt : valOf radix 0 (sig.drop step) < radix ^ (sig.length - step) := by
    have := valOf_lt radix (sig.drop step) (fun d hd => hsiglt d ((List.drop_sublist _ _).subset hd)) 0 0
      (by simp)
    rwa [Nat.zero_add, List.length_drop] at this
  obtain ⟨fp, hfp, hneg⟩ := hund
  have hfirst_lt : first < 2 ^ 64 := by
    have := valOf_lt radix (sig.take step) (fun d hd => hsiglt d ((List.take_sublist _ _).subset hd)) 0 0
      (by simp)
    rw [Nat.zero_add] at this
    have h2 : radix ^ (sig.take step).length ≤ radix ^ step :=
      Nat.pow_le_pow_right (by omega) (by rw [List.length_take]; omega)
    omega
  obtain ⟨hM0, hp2, hhe⟩ := undecided_facts lay hb first e hfirst_lt he1 he2 hfp hneg
  rw [hsplit]
  apply slowBinary_core lay hb e he1 he2 first _ _ _ hM0 hfirst_lt hrlt
    ((valOf_zero_iff radix (by omega) _).symm.trans (by rfl)) hp2 _ hhe
  -- the truncated digits are worth less than the bits shifted out
  intro hr0
  have hlen : step < sig.length := by
    apply Classical.byContradiction; intro hc
    have : sig.drop step = [] := List.drop_eq_nil_of_le (by omega)
    rw [this] at hr0; exact hr0 rfl
  -- first ≥ radix^(step-1) > 2^54
  have hfirst_ge : radix ^ (step - 1) ≤ first := by
    cases hsig : sig with
    | nil => rw [hsig] at hlen; simp at hlen
    | cons d ds =>
      have hd0 : d ≠ 0 := dropWhile_head_ne _ d ds hsig
      obtain ⟨j, hj⟩ : ∃ j, step = j + 1 := ⟨step - 1, by omega⟩
      show radix ^ (step - 1) ≤ valOf radix 0 (sig.take step)
      rw [hsig, hj, List.take_succ_cons]
      have h1 := valOf_ge_head radix d (ds.take j)
      have h2 : (ds.take j).length = j := by
        rw [List.length_take]; rw [hsig, List.length_cons] at hlen; omega
      rw [h2] at h1
      have : 1 * radix ^ j ≤ d * radix ^ j := Nat.mul_le_mul_right _ (by omega)
      rw [Nat.add_sub_cancel]; omega
  have h54 : 2 ^ 54 < first := by
    have h1 : radix ^ (step + 1) = radix ^ (step - 1) * (radix * radix) := by
      rw [show step + 1 = (step - 1) + 1 + 1 by omega, Nat.pow_succ, Nat.pow_succ]; ac_rfl
    have h2 : radix * radix ≤ 32 * 32 := Nat.mul_le_mul hr32 hr32
    have h3 : radix ^ (step - 1) * (radix * radix) ≤ radix ^ (step - 1) * (32 * 32) :=
      Nat.mul_le_mul_left _ h2
    have h4 : (2 : Nat) ^ 64 = 2 ^ 54 * (32 * 32) := by decide
    rw [h1] at hmax
    have : 2 ^ 54 * (32 * 32) < radix ^ (step - 1) * (32 * 32) := by omega
    have := Nat.lt_of_mul_lt_mul_right this
    omega
  have hbl : 55 ≤ bitlen first := by
    apply Classical.byContradiction; intro hc
    have h1 := LexVerif.Proof.RoundNE.bitlen_upper first
    have h2 : 2 ^ bitlen first ≤ 2 ^ 54 := Nat.pow_le_pow_right (by decide) (by omega)
    omega
  have hclz : clz64 first ≤ 9 := by
    unfold clz64; rw [Nat.mod_eq_of_lt hfirst_lt]; omega
  have hsh : 64 - p ≤ shiftOf p (calculatePower2 F base e (clz64 first)) := by
    unfold shiftOf; split <;> omega
  omega

end LexVerif.Proof.SlowBinary
