import LexVerif.Proof.SepDigits
import LexVerif.Proof.SepFreeTop
/-!
# Proof.SepStrip1 — iterators that skip every separator (flags I+L+T+C): canonical forms on arbitrary input,
and their relation to the same functions on the stripped input
-/
set_option linter.unusedSimpArgs false
namespace LexVerif.Proof.Sep
open LexVerif LexVerif.Model LexVerif.Spec
open LexVerif.Props.C12

/-- `peek` of an iterator whose predicate is `iltc`: skip the whole run of separators under the cursor -/
theorem peek_iltc (c : Cfg) (k : Comp) (b : Bytes) (hk : c.skip k = .pred .iltc) :
    peek c k b = .ok (b.slc[b.index + countSeps c (b.slc.drop b.index)]?,
      { b with index := b.index + countSeps c (b.slc.drop b.index) }) := by
  unfold peek
  rw [hk]
  simp only [peekPred]
  cases hv : b.slc[b.index]? with
  | none => simp [drop_of_none hv, countSeps, hv]
  | some v =>
    simp only [drop_of_get hv, countSeps]
    by_cases hs : c.isSep v = true
    · simp only [hs, if_true, Pred.holds, Pred.consecutive]
      have : b.index + 1 + countSeps c (List.drop (b.index + 1) b.slc)
          = b.index + (countSeps c (List.drop (b.index + 1) b.slc) + 1) := by omega
      rw [this]
    · simp [hs, hv]

/-- advance the cursor by `di` bytes of which `dc` were digits of component `k` -/
def advS (c : Cfg) (k : Comp) (di dc : Nat) (b : Bytes) : Bytes :=
  let f := if c.feats.format then dc else 0
  match k with
  | .integer => { b with index := b.index + di, ic := b.ic + f }
  | .fraction => { b with index := b.index + di, fc := b.fc + f }
  | .exponent => { b with index := b.index + di, ec := b.ec + f }
  | .special => { b with index := b.index + di }

@[simp] theorem advS_slc (c : Cfg) (k : Comp) (di dc : Nat) (b : Bytes) : (advS c k di dc b).slc = b.slc := by
  cases k <;> rfl

@[simp] theorem advS_index (c : Cfg) (k : Comp) (di dc : Nat) (b : Bytes) :
    (advS c k di dc b).index = b.index + di := by
  cases k <;> rfl

theorem advS_zero (c : Cfg) (k : Comp) (n : Nat) (b : Bytes) :
    advS c k n 0 b = { b with index := b.index + n } := by
  cases k <;> simp [advS]

theorem advS_succ (c : Cfg) (k : Comp) (n di dc : Nat) (b : Bytes) :
    advS c k di dc (Bytes.incCount c k { b with index := b.index + n + 1 }) = advS c k (n + 1 + di) (dc + 1) b := by
  cases k <;> cases hf : c.feats.format <;> simp [advS, Bytes.incCount, hf] <;> omega

/-- digits seen by a skip-everything iterator: (digit values, bytes the cursor moves) -/
def digitsSkip (c : Cfg) (radix : Nat) : List Nat → List Nat × Nat
  | [] => ([], 0)
  | x :: xs =>
    if c.isSep x then ((digitsSkip c radix xs).1, (digitsSkip c radix xs).2 + 1)
    else
      match charToDigit x radix with
      | some d => (d :: (digitsSkip c radix xs).1, (digitsSkip c radix xs).2 + 1)
      | none => ([], 0)

theorem countSeps_le_length (c : Cfg) (l : List Nat) : countSeps c l ≤ l.length := countSeps_le c l

/-- the run of separators at the front is skipped as a whole -/
theorem digitsSkip_seps (c : Cfg) (radix : Nat) (l : List Nat) :
    digitsSkip c radix l =
      ((digitsSkip c radix (l.drop (countSeps c l))).1, (digitsSkip c radix (l.drop (countSeps c l))).2 + countSeps c l) := by
  induction l with
  | nil => simp [digitsSkip, countSeps]
  | cons x xs ih =>
    simp only [countSeps]
    by_cases hs : c.isSep x = true
    · simp only [hs, if_true, List.drop_succ_cons, digitsSkip]
      rw [ih]
      simp only [Nat.add_assoc]
    · simp [hs]

theorem digitsSkip_le (c : Cfg) (radix : Nat) (l : List Nat) :
    (digitsSkip c radix l).2 ≤ l.length ∧ (digitsSkip c radix l).1.length ≤ (digitsSkip c radix l).2 := by
  induction l with
  | nil => simp [digitsSkip]
  | cons x xs ih =>
    simp only [digitsSkip]
    split
    · simp only [List.length_cons]; omega
    · split <;> simp only [List.length_cons, List.length_nil] <;> omega

/-- `parse_digits` with an I+L+T+C iterator (release build; the separator is not a digit) -/
theorem parseDigitsLoop_skip (c : Cfg) (k : Comp) (radix : Nat) (hd : c.debug = false)
    (hk : c.skip k = .pred .iltc) :
    ∀ (fuel : Nat) (b : Bytes), b.slc.length - b.index < fuel →
      parseDigitsLoop c k radix fuel b =
        .ok ((digitsSkip c radix (b.slc.drop b.index)).1,
             advS c k (digitsSkip c radix (b.slc.drop b.index)).2 (digitsSkip c radix (b.slc.drop b.index)).1.length b) := by
  intro fuel
  induction fuel with
  | zero => intro b h; omega
  | succ n ih =>
    intro b hf
    unfold parseDigitsLoop
    rw [peek_iltc c k b hk]
    simp only [bind, Except.bind]
    rw [digitsSkip_seps c radix (b.slc.drop b.index)]
    simp only [List.drop_drop]
    generalize hm : countSeps c (b.slc.drop b.index) = m
    have hmle : m ≤ (b.slc.drop b.index).length := by rw [← hm]; exact countSeps_le c _
    simp only [List.length_drop] at hmle
    cases hv : b.slc[b.index + m]? with
    | none =>
      simp [drop_of_none hv, digitsSkip, advS_zero, pure, Except.pure]
    | some ch =>
      have hlt : b.index + m < b.slc.length := (List.getElem?_eq_some_iff.mp hv).1
      have hns : c.isSep ch = false := by
        have := countSeps_stop c (b.slc.drop b.index) ch (by rw [hm, List.getElem?_drop]; exact hv)
        exact this
      simp only [drop_of_get hv, digitsSkip, hns, Bool.false_eq_true, if_false]
      cases hdg : charToDigit ch radix with
      | none => simp [advS_zero, pure, Except.pure]
      | some d =>
        simp only [iterStep, stepUnchecked_release c _ _ hd]
        have hi := incCount_spec c k { b with index := b.index + m + 1 }
        have hf2 : (Bytes.incCount c k { b with index := b.index + m + 1 }).slc.length
            - (Bytes.incCount c k { b with index := b.index + m + 1 }).index < n := by
          rw [hi.1, hi.2]; simp only; omega
        rw [ih _ hf2, hi.1, hi.2]
        simp only [pure, Except.pure, List.length_cons, advS_succ]
        have e : m + 1 + (digitsSkip c radix (List.drop (b.index + m + 1) b.slc)).snd
            = (digitsSkip c radix (List.drop (b.index + m + 1) b.slc)).snd + 1 + m := by omega
        rw [e]

theorem parseDigits_skip (c : Cfg) (k : Comp) (radix : Nat) (hd : c.debug = false)
    (hk : c.skip k = .pred .iltc) (b : Bytes) :
    parseDigits c k radix b =
      .ok ((digitsSkip c radix (b.slc.drop b.index)).1,
           advS c k (digitsSkip c radix (b.slc.drop b.index)).2 (digitsSkip c radix (b.slc.drop b.index)).1.length b) :=
  parseDigitsLoop_skip c k radix hd hk _ b (by omega)

/-! ### relation to the stripped input -/

theorem nonSep_cons_sep (c : Cfg) (x : Nat) (xs : List Nat) (h : c.isSep x = true) :
    nonSep c (x :: xs) = nonSep c xs := by simp [nonSep, h]

theorem nonSep_cons_non (c : Cfg) (x : Nat) (xs : List Nat) (h : c.isSep x = false) :
    nonSep c (x :: xs) = x :: nonSep c xs := by simp [nonSep, h]

theorem nonSep_noSep (c : Cfg) (l : List Nat) : NoSep c (nonSep c l) := by
  intro x hx
  simp only [nonSep, List.mem_filter, Bool.not_eq_true'] at hx
  exact hx.2

/-- the digits a skip-everything iterator yields are the digit prefix of the stripped input; the bytes it moves over
strip to exactly those digit bytes; the byte it stops at is not a separator -/
theorem digitsSkip_strip (c : Cfg) (radix : Nat) (l : List Nat) :
    (digitsSkip c radix l).1 = digitsPrefix radix (nonSep c l) ∧
    nonSep c (l.take (digitsSkip c radix l).2) = (nonSep c l).take (digitsSkip c radix l).1.length ∧
    (∀ x, l[(digitsSkip c radix l).2]? = some x → c.isSep x = false) := by
  induction l with
  | nil => simp [digitsSkip, nonSep, digitsPrefix]
  | cons x xs ih =>
    cases hs : c.isSep x with
    | true =>
      simp only [digitsSkip, hs, if_true, nonSep_cons_sep c x xs hs, List.take_succ_cons, List.getElem?_cons_succ]
      rw [nonSep_cons_sep c x _ hs]
      exact ih
    | false =>
      cases hdg : charToDigit x radix with
      | none =>
        simp only [digitsSkip, hs, Bool.false_eq_true, if_false, hdg, nonSep_cons_non c x xs hs, digitsPrefix,
          List.take_zero, List.length_nil, List.getElem?_cons_zero, Option.some.injEq]
        refine ⟨trivial, by simp [nonSep], ?_⟩
        intro y hy; rw [← hy]; exact hs
      | some d =>
        simp only [digitsSkip, hs, Bool.false_eq_true, if_false, hdg, nonSep_cons_non c x _ hs, digitsPrefix,
          List.take_succ_cons, List.length_cons, List.getElem?_cons_succ]
        refine ⟨by rw [ih.1], by rw [ih.2.1], ih.2.2⟩

/-- the cursor `b` over `s` and the cursor `b'` over the stripped `s` stand at corresponding positions, same counts -/
def StripRel (c : Cfg) (s : List Nat) (b b' : Bytes) : Prop :=
  b.slc = s ∧ b'.slc = nonSep c s ∧ b'.index = (nonSep c (s.take b.index)).length ∧
  b'.ic = b.ic ∧ b'.fc = b.fc ∧ b'.ec = b.ec

theorem nonSep_take_drop (c : Cfg) (s : List Nat) (i : Nat) :
    (nonSep c s).drop (nonSep c (s.take i)).length = nonSep c (s.drop i) := by
  have h : nonSep c s = nonSep c (s.take i) ++ nonSep c (s.drop i) := by
    rw [← nonSep_append, List.take_append_drop]
  rw [h, List.drop_left]

theorem StripRel.drop {c : Cfg} {s : List Nat} {b b' : Bytes} (h : StripRel c s b b') :
    b'.slc.drop b'.index = nonSep c (b.slc.drop b.index) := by
  rw [h.2.1, h.2.2.1, h.1, nonSep_take_drop]

/-- advancing both cursors: `n` bytes on the left whose stripped length is `m` -/
theorem nonSep_take_add (c : Cfg) (s : List Nat) (i n : Nat) :
    (nonSep c (s.take (i + n))).length = (nonSep c (s.take i)).length + (nonSep c ((s.drop i).take n)).length := by
  rw [List.take_add, nonSep_append, List.length_append]

/-- at a position whose byte is not a separator both cursors see the same byte -/
theorem StripRel.get {c : Cfg} {s : List Nat} {b b' : Bytes} (h : StripRel c s b b')
    (hx : ∀ x, b.slc[b.index]? = some x → c.isSep x = false) : b'.slc[b'.index]? = b.slc[b.index]? := by
  have hd := h.drop
  cases hv : b.slc[b.index]? with
  | none =>
    rw [drop_of_none hv] at hd
    simp only [nonSep, List.filter_nil] at hd
    have : b'.slc.length ≤ b'.index := by
      have := congrArg List.length hd
      simp only [List.length_drop, List.length_nil] at this
      omega
    exact List.getElem?_eq_none this
  | some x =>
    rw [drop_of_get hv, nonSep_cons_non c x _ (hx x hv)] at hd
    have := congrArg List.head? hd
    simp only [List.head?_drop, List.head?_cons] at this
    exact this

end LexVerif.Proof.Sep
