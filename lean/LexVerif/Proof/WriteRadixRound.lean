import LexVerif.Proof.WriteRadixFrac
/-!
# Proof.WriteRadixRound — `truncate_and_round` / `round_up` of radix.rs on valid digits (code as of /repo 2de23fc)

`truncateAndRound_spec`: on a window `start..end` of the scratch buffer that holds digits of the radix, for EVERY option
set `truncate_and_round` returns (never PANICs, never reads outside the window): the kept count is at most the window, the
kept bytes are again digits of the radix (`round_up` only turns a digit `d < radix - 1` into `d + 1`, or writes `'1'`
on a full carry, in which case the count is 1), and the count is at least 1 when the window is non-empty and
`max_significant_digits` is a `NonZero`.
-/
namespace LexVerif.Proof.WriteRadixRound
open LexVerif.Spec LexVerif.Model LexVerif.Proof.WriteRadixWF LexVerif.Proof.WriteRadixInteger
open LexVerif.Model.WriteRadix
open LexVerif.Model.WriteInt (Res)

/-- the `k` bytes from position `s` are digits of the radix -/
def Win (r : Nat) (buf : List Nat) (s k : Nat) : Prop := ∀ j, j < k → DigitByte r (buf.getD (s + j) 0)

theorem Win.mono {r : Nat} {buf : List Nat} {s k k' : Nat} (h : Win r buf s k) (hk : k' ≤ k) : Win r buf s k' :=
  fun j hj => h j (by omega)

theorem getD_set_eq (l : List Nat) {i : Nat} (a d : Nat) (hi : i < l.length) : (l.set i a).getD i d = a := by
  simp [List.getD_eq_getElem?_getD, hi]

theorem getD_set_ne (l : List Nat) {i j : Nat} (a d : Nat) (h : i ≠ j) : (l.set i a).getD j d = l.getD j d := by
  simp [List.getD_eq_getElem?_getD, h]

theorem mem_drop_take {l : List Nat} {s n c : Nat} (hc : c ∈ (l.drop s).take n) : ∃ j, j < n ∧ c = l.getD (s + j) 0 := by
  obtain ⟨j, hj, rfl⟩ := List.mem_iff_getElem.mp hc
  simp only [List.length_take, List.length_drop] at hj
  refine ⟨j, by omega, ?_⟩
  simp [List.getD_eq_getElem?_getD, List.getElem_take, List.getElem_drop, List.getElem?_eq_getElem (show s + j < l.length by omega)]

theorem getD_mem_drop_take {l : List Nat} {s k j : Nat} (hj : j < k) (hl : s + k ≤ l.length) :
    l.getD (s + j) 0 ∈ (l.drop s).take k := by
  apply List.mem_iff_getElem.mpr
  refine ⟨j, by simp only [List.length_take, List.length_drop]; omega, ?_⟩
  simp [List.getD_eq_getElem?_getD, List.getElem_take, List.getElem_drop, List.getElem?_eq_getElem (show s + j < l.length by omega)]

theorem digitChar_lt {a b : Nat} (hb : b < 36) (h : digitChar a < digitChar b) : a < b := by
  unfold digitChar at h
  split at h <;> split at h <;> omega

theorem charToValidDigitConst_digitChar {d r : Nat} (hd : d < r) (hr : r ≤ 36) :
    charToValidDigitConst (digitChar d) r = d := by
  unfold charToValidDigitConst digitChar
  split
  · rw [if_pos (by omega)]; omega
  · by_cases h10 : d < 10
    · rw [if_pos h10, if_pos (by omega)]; omega
    · rw [if_neg h10, if_neg (by omega), if_pos (by omega)]; omega

/-- `shared::round_up` on a window of valid digits -/
theorem roundUpGo_spec {r : Nat} (hr2 : 2 ≤ r) (hr36 : r ≤ 36) (s : Nat) (buf : List Nat) {k : Nat}
    (hlen : s + k ≤ buf.length) (hk : 1 ≤ k) (hwin : Win r buf s k) : ∀ idx, idx ≤ k →
      (roundUpGo r s buf idx).2.1 ≤ k ∧ 1 ≤ (roundUpGo r s buf idx).2.1 ∧
      Win r (roundUpGo r s buf idx).1 s (roundUpGo r s buf idx).2.1 ∧
      ((roundUpGo r s buf idx).2.2 = true → (roundUpGo r s buf idx).2.1 = 1) ∧
      (roundUpGo r s buf idx).1.length = buf.length
  | 0, _ => by
    unfold roundUpGo
    refine ⟨hk, Nat.le_refl _, ?_, fun _ => rfl, by simp⟩
    intro j hj
    have : j = 0 := by dsimp only at hj; omega
    subst this
    rw [Nat.add_zero, getD_set_eq _ _ _ (by omega)]
    exact ⟨1, by omega, rfl⟩
  | idx + 1, hidx => by
    unfold roundUpGo
    dsimp only
    split
    · rename_i hlt
      dsimp only
      refine ⟨hidx, by omega, ?_, fun h => by simp at h, by simp⟩
      obtain ⟨d, hd, hc⟩ := hwin idx (by omega)
      rw [hc, digitToCharConst_eq (show r - 1 < r by omega) hr36] at hlt
      have hd1 : d < r - 1 := digitChar_lt (by omega) hlt
      intro j hj
      by_cases hji : j = idx
      · subst hji
        rw [getD_set_eq _ _ _ (by omega), hc, charToValidDigitConst_digitChar hd hr36]
        exact ⟨d + 1, by omega, digitToCharConst_eq (by omega) hr36⟩
      · rw [getD_set_ne _ _ _ (by omega)]
        exact hwin j (by omega)
    · exact roundUpGo_spec hr2 hr36 s buf hlen hk hwin idx (by omega)

/-- **`truncate_and_round` on valid digits, every option set** -/
theorem truncateAndRound_spec {r : Nat} (hr2 : 2 ≤ r) (hr36 : r ≤ 36) (o : WOpts) (buf : List Nat) {s e : Nat}
    (hle : s ≤ e) (hlen : e ≤ buf.length) (hwin : Win r buf s (e - s)) :
    ∃ x, WriteRadix.truncateAndRound r o buf s e = .ok x ∧ x.2.1 ≤ e - s ∧ Win r x.1 s x.2.1 ∧
      (x.2.2 = true → x.2.1 = 1) ∧ (s < e → o.maxDigits ≠ some 0 → 1 ≤ x.2.1) ∧ x.1.length = buf.length := by
  unfold WriteRadix.truncateAndRound WriteRadix.truncateAndRoundP
  cases hm : o.maxDigits with
  | none => exact ⟨_, rfl, Nat.le_refl _, hwin, fun h => by simp at h, fun h _ => by show 1 ≤ e - s; omega, rfl⟩
  | some mx =>
    dsimp only
    rw [if_neg (by omega)]
    generalize hmx : mx + ltrimCount 48 ((buf.drop s).take (e - s)) = mx'
    have keep : ∀ n, n ≤ e - s → (s < e → some mx ≠ some 0 → 1 ≤ n) →
        ∃ x, (Res.ok (buf, n, false) : Res (List Nat × Nat × Bool)) = .ok x ∧ x.2.1 ≤ e - s ∧ Win r x.1 s x.2.1 ∧
          (x.2.2 = true → x.2.1 = 1) ∧ (s < e → some mx ≠ some 0 → 1 ≤ x.2.1) ∧ x.1.length = buf.length :=
      fun n hn h1 => ⟨_, rfl, hn, hwin.mono hn, fun h => by simp at h, h1, rfl⟩
    by_cases h1 : mx' ≥ e - s
    · rw [if_pos h1]
      exact keep _ (Nat.le_refl _) (fun h _ => by omega)
    · rw [if_neg h1]
      have hmx1 : s < e → some mx ≠ some 0 → 1 ≤ mx' := by
        intro _ h0
        have : mx ≠ 0 := fun h => h0 (by rw [h])
        omega
      have up : ∃ x, (Res.ok (roundUpGo r s buf mx') : Res (List Nat × Nat × Bool)) = .ok x ∧ x.2.1 ≤ e - s ∧
          Win r x.1 s x.2.1 ∧ (x.2.2 = true → x.2.1 = 1) ∧ (s < e → some mx ≠ some 0 → 1 ≤ x.2.1) ∧
          x.1.length = buf.length := by
        obtain ⟨a, b, c, d, l⟩ := roundUpGo_spec hr2 hr36 s buf (k := e - s) (by omega) (by omega) hwin mx' (by omega)
        exact ⟨_, rfl, a, c, d, fun _ _ => b, l⟩
      have kp := keep mx' (by omega) hmx1
      split
      · exact kp
      · split
        · exact kp
        · split
          · exact up
          · split
            · split
              · exact kp
              · exact up
            · split
              · exact kp
              · split
                · exact kp
                · exact up

/-! ## the layouts, every option set -/

theorem buf_length (g : Gen) : g.ints.length + g.fracs.length ≤ g.buf.length := by
  unfold Gen.buf; simp

theorem win_of_gen {r : Nat} (g : Gen) (hg : ∀ c ∈ g.ints ++ g.fracs, DigitByte r c) {s k : Nat}
    (hk : s + k ≤ g.ints.length + g.fracs.length) : Win r g.buf s k := by
  intro j hj
  have := buf_length g
  exact hg _ (mem_window g (Or.inr hk) (getD_mem_drop_take hj (by omega)))

theorem win_mem {r : Nat} {buf : List Nat} {s n : Nat} (hw : Win r buf s n) :
    ∀ c ∈ (buf.drop s).take n, DigitByte r c := by
  intro c hc
  obtain ⟨j, hj, rfl⟩ := mem_drop_take hc
  exact hw j hj

theorem sciText_wf_all (fmt : Format) (feats : Features) (o : WOpts) {r : Nat} (hr2 : 2 ≤ r) (hr36 : r ≤ 36)
    (her : 2 ≤ fmt.exponentRadix) (g : Gen) (hg : ∀ c ∈ g.ints ++ g.fracs, DigitByte r c) (sciExp : Int) {t : Text}
    (h : sciText fmt feats o r g sciExp = .ok t) : WellFormed r fmt.exponentRadix o.dp o.exp t.text := by
  unfold sciText at h
  dsimp only at h
  generalize (if sciExp ≤ 0 then ((g.ints.length : Int) - sciExp - 1).toNat else 0) = start at h
  generalize hend : min (g.ints.length + g.fracs.length) (start + maxDigitLength + 1) = end_ at h
  have hbl := buf_length g
  by_cases hle : start ≤ end_
  · obtain ⟨x, hx, _, hw, _, _, _⟩ := truncateAndRound_spec hr2 hr36 o g.buf hle (by omega)
      (win_of_gen g hg (by omega))
    rw [hx] at h
    simp only [Res.bind] at h
    exact sciFinish_wf fmt feats o (by omega) her _ (win_mem hw) _ h
  · exfalso
    unfold WriteRadix.truncateAndRound WriteRadix.truncateAndRoundP at h
    cases hm : o.maxDigits with
    | none =>
      rw [hm] at h
      simp only [Res.bind] at h
      rw [show end_ - start = 0 by omega] at h
      simp [sciFinish] at h
    | some mx =>
      rw [hm] at h
      dsimp only at h
      rw [if_pos (by omega)] at h
      simp [Res.bind] at h

theorem nonsciText_wf_all (o : WOpts) {r er : Nat} (hr2 : 2 ≤ r) (hr36 : r ≤ 36)
    (g : Gen) (hg : ∀ c ∈ g.ints ++ g.fracs, DigitByte r c) (hne : g.ints ≠ []) {t : Text}
    (h : nonsciText o r g = .ok t) : WellFormed r er o.dp o.exp t.text := by
  unfold nonsciText at h
  dsimp only at h
  generalize hend : min (g.ints.length + g.fracs.length) (maxDigitLength + 1) = end_ at h
  have hbl := buf_length g
  obtain ⟨x, hx, _, hw, hc, _, _⟩ := truncateAndRound_spec hr2 hr36 o g.buf (Nat.zero_le end_) (by omega)
    (win_of_gen g hg (by omega))
  rw [hx] at h
  simp only [Res.bind] at h
  split at h
  · simp at h
  · simp only [Res.ok.injEq] at h
    subst h
    have hpos := List.length_pos_iff.mpr hne
    refine nonsciFinish_wf o (by omega) _ ?_ (by omega)
    by_cases hcar : x.2.2 = true
    · rw [if_pos hcar, hc hcar]
      intro c hc'
      simp at hc'
      rw [hc']
      exact ⟨1, by omega, rfl⟩
    · rw [if_neg hcar]
      have := win_mem hw
      rwa [List.drop_zero] at this

/-- **layout level, every option set**: valid scratch digits give a well-formed text -/
theorem layoutText_wellFormed_all (fmt : Format) (feats : Features) (o : WOpts) {r : Nat} (hr2 : 2 ≤ r) (hr36 : r ≤ 36)
    (her : 2 ≤ fmt.exponentRadix) (g : Gen) (hg : ∀ c ∈ g.ints ++ g.fracs, DigitByte r c)
    (hne : g.ints ≠ []) {t : Text} (h : layoutText fmt feats o r g = .ok t) :
    WellFormed r fmt.exponentRadix o.dp o.exp t.text := by
  unfold layoutText at h
  dsimp only at h
  split at h
  · exact sciText_wf_all fmt feats o hr2 hr36 her g hg _ h
  · exact nonsciText_wf_all o hr2 hr36 g hg hne h

/-- **the layouts never PANIC** (apart from the caller's `bytes` being too short, which `writeFloat` tests afterwards):
for valid scratch digits, fewer than 1100 integer digits and a `NonZero` `max_significant_digits` -/
theorem layoutText_total (fmt : Format) (feats : Features) (o : WOpts) (ho : o.maxDigits ≠ some 0) {r : Nat}
    (hr2 : 2 ≤ r) (hr36 : r ≤ 36) (g : Gen) (hg : ∀ c ∈ g.ints ++ g.fracs, DigitByte r c) (hne : g.ints ≠ [])
    (hil : g.ints.length < halfSize) : ∃ t, layoutText fmt feats o r g = .ok t := by
  have hpos := List.length_pos_iff.mpr hne
  have hbl := buf_length g
  unfold layoutText
  dsimp only
  split
  · unfold sciText
    dsimp only
    have hstart : (if sciExpOf g ≤ 0 then ((g.ints.length : Int) - sciExpOf g - 1).toNat else 0)
        < g.ints.length + g.fracs.length := by
      unfold sciExpOf
      simp only [List.length_append]
      split <;> omega
    generalize (if sciExpOf g ≤ 0 then ((g.ints.length : Int) - sciExpOf g - 1).toNat else 0) = start at hstart
    generalize hend : min (g.ints.length + g.fracs.length) (start + maxDigitLength + 1) = end_
    obtain ⟨x, hx, _, _, _, h1, hl⟩ := truncateAndRound_spec hr2 hr36 o g.buf (show start ≤ end_ by omega) (by omega)
      (win_of_gen g hg (by omega))
    rw [hx]
    simp only [Res.bind]
    have hn := h1 (by omega) ho
    cases hd : (x.1.drop start).take x.2.1 with
    | nil =>
      have := congrArg List.length hd
      simp only [List.length_take, List.length_drop, List.length_nil] at this
      omega
    | cons d0 rest => exact ⟨_, rfl⟩
  · unfold nonsciText
    dsimp only
    generalize hend : min (g.ints.length + g.fracs.length) (maxDigitLength + 1) = end_
    obtain ⟨x, hx, _, _, _, _, _⟩ := truncateAndRound_spec hr2 hr36 o g.buf (Nat.zero_le end_) (by omega)
      (win_of_gen g hg (by omega))
    rw [hx]
    simp only [Res.bind]
    rw [if_neg (by omega)]
    exact ⟨_, rfl⟩

end LexVerif.Proof.WriteRadixRound
