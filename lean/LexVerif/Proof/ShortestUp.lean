import LexVerif.Proof.Shortest
import Mathlib.Tactic.Ring
import Mathlib.Tactic.Linarith
import Mathlib.Tactic.Positivity
import Mathlib.Tactic.FieldSimp
import Mathlib.Algebra.Order.Field.Rat
import Mathlib.Algebra.Order.Field.Power
import Mathlib.Tactic.GCongr
/-!
# Proof.ShortestUp — the start exponent of `shortest`'s search is an upper bound
(`0.30103 > log10 2 > 0.30102`, checked by kernel evaluation of two 100000-bit comparisons)
-/
namespace LexVerif.Proof.RoundNE
open LexVerif.Spec

theorem two_pow_le_ten_pow : (2 : ℕ) ^ 100000 ≤ 10 ^ 30103 := by decide +kernel
theorem ten_pow_le_two_pow : (10 : ℕ) ^ 30102 ≤ 2 ^ 100000 := by decide +kernel

theorem log_bound_aux (s : ℤ) (hs : -200000 ≤ s) :
    (2 : ℚ) ^ (100000 * s) ≤ (10 : ℚ) ^ (30103 * s + 200001) := by
  have q1 : (2 : ℚ) ^ 100000 ≤ 10 ^ 30103 := by exact_mod_cast two_pow_le_ten_pow
  have q2 : (10 : ℚ) ^ 30102 ≤ 2 ^ 100000 := by exact_mod_cast ten_pow_le_two_pow
  rcases le_or_gt 0 s with h | h
  · obtain ⟨n, rfl⟩ := Int.eq_ofNat_of_zero_le h
    calc (2 : ℚ) ^ (100000 * (n : ℤ)) = ((2 : ℚ) ^ 100000) ^ n := by
          rw [← pow_mul]; exact_mod_cast zpow_natCast (2 : ℚ) (100000 * n)
      _ ≤ ((10 : ℚ) ^ 30103) ^ n := pow_le_pow_left₀ (by positivity) q1 n
      _ = (10 : ℚ) ^ ((30103 * n : ℕ) : ℤ) := by rw [← pow_mul, zpow_natCast]
      _ ≤ (10 : ℚ) ^ (30103 * (n : ℤ) + 200001) :=
          zpow_le_zpow_right₀ (by norm_num) (by push_cast; omega)
  · obtain ⟨a, ha⟩ : ∃ a : ℕ, s = -(a : ℤ) := ⟨(-s).toNat, by omega⟩
    subst ha
    calc (2 : ℚ) ^ (100000 * -(a : ℤ)) = (((2 : ℚ) ^ 100000) ^ a)⁻¹ := by
          rw [← pow_mul, mul_neg, zpow_neg]; exact_mod_cast rfl
      _ ≤ (((10 : ℚ) ^ 30102) ^ a)⁻¹ :=
          inv_anti₀ (by positivity) (pow_le_pow_left₀ (by positivity) q2 a)
      _ = (10 : ℚ) ^ (-((30102 * a : ℕ) : ℤ)) := by rw [← pow_mul, zpow_neg, zpow_natCast]
      _ ≤ (10 : ℚ) ^ (30103 * -(a : ℤ) + 200001) :=
          zpow_le_zpow_right₀ (by norm_num) (by push_cast; omega)

/-- `10^E < 2^s` forces `E ≤ ⌊0.30103·s⌋ + 2` (for `s ≥ -200000`) -/
theorem log_bound (s E : ℤ) (hs : -200000 ≤ s) (h : (10 : ℚ) ^ E < (2 : ℚ) ^ s) :
    E ≤ s * 30103 / 100000 + 2 := by
  by_contra hcon
  have h1 : 30103 * s + 200001 ≤ 100000 * E := by omega
  have key : (2 : ℚ) ^ (100000 * s) ≤ (10 : ℚ) ^ (100000 * E) :=
    le_trans (log_bound_aux s hs) (zpow_le_zpow_right₀ (by norm_num) h1)
  have h2 : ((10 : ℚ) ^ E) ^ (100000 : ℕ) < ((2 : ℚ) ^ s) ^ (100000 : ℕ) :=
    pow_lt_pow_left₀ h (by positivity) (by norm_num)
  rw [← zpow_natCast, ← zpow_natCast, ← zpow_mul, ← zpow_mul] at h2
  rw [mul_comm (100000 : ℤ) s, mul_comm (100000 : ℤ) E] at key
  exact absurd key (not_le.mpr (by exact_mod_cast h2))

theorem tenFrac_Q (E : ℤ) : ((tenFrac E).1 : ℚ) / ((tenFrac E).2 : ℚ) = (10 : ℚ) ^ E := by
  unfold tenFrac
  split
  · rename_i h
    obtain ⟨n, rfl⟩ := Int.eq_ofNat_of_zero_le h
    simp
  · rename_i h
    obtain ⟨n, hn⟩ : ∃ n : ℕ, E = -(n : ℤ) := ⟨(-E).toNat, by omega⟩
    subst hn
    simp

theorem binFrac_Q (e : ℤ) : ((binFrac e).1 : ℚ) / ((binFrac e).2 : ℚ) = (2 : ℚ) ^ e := by
  unfold binFrac
  split
  · rename_i h
    obtain ⟨n, rfl⟩ := Int.eq_ofNat_of_zero_le h
    simp
  · rename_i h
    obtain ⟨n, hn⟩ : ∃ n : ℕ, e = -(n : ℤ) := ⟨(-e).toNat, by omega⟩
    subst hn
    simp

/-- every round-tripping decimal `D'·10^E'` with `D' ≥ 1` has `E' ≤` the search start of `shortest` -/
theorem up_bound {f : Fmt} (hf : WF f) (hsz : L f + 2 ≤ 200000) {b : Nat} (hb0 : 0 < b)
    (hb : b < f.infBits) {D : Nat} {E : Int} (hD1 : 1 ≤ D)
    (hrt : roundNE f (decFrac D E).1 (decFrac D E).2 = b) : E ≤ upOf f b := by
  obtain ⟨c1, c2⟩ := cand_complete hf hb0 hb hD1 hrt
  have hPQ := scalePQ_eq (interval f b).e2 E
  obtain ⟨an_pos, ad_pos⟩ := binFrac_pos (interval f b).e2
  obtain ⟨tn_pos, td_pos⟩ := tenFrac_pos E
  obtain ⟨_, _, chi, _⟩ := candRange_spec _ E _ _ hPQ (Nat.mul_pos tn_pos ad_pos) D c1 c2
  have hbin := binFrac_Q (interval f b).e2
  have hten := tenFrac_Q E
  obtain ⟨k, q, hbk, h1, h2, hiv⟩ := interval_eq hf hb
  have he2 : (interval f b).e2 = (k : ℤ) - (L f : ℤ) - 2 := by rw [hiv]
  unfold upOf
  apply log_bound _ _ (by rw [he2]; omega)
  have hhi : ((interval f b).hi : ℚ) < (2 : ℚ) ^ (bitlen (interval f b).hi : ℤ) := by
    rw [zpow_natCast]; exact_mod_cast bitlen_upper (interval f b).hi
  generalize (interval f b).hi = hi at *
  generalize (interval f b).e2 = e2 at *
  generalize (binFrac e2).1 = an at *
  generalize (binFrac e2).2 = ad at *
  generalize (tenFrac E).1 = tn at *
  generalize (tenFrac E).2 = td at *
  rw [zpow_add₀ (by norm_num : (2 : ℚ) ≠ 0), ← hten, ← hbin]
  have adQ : (0 : ℚ) < ad := by exact_mod_cast ad_pos
  have tdQ : (0 : ℚ) < td := by exact_mod_cast td_pos
  have anQ : (0 : ℚ) < an := by exact_mod_cast an_pos
  have k1 : tn * ad ≤ hi * (an * td) :=
    le_trans (Nat.le_mul_of_pos_left _ hD1) chi
  have k1Q : (tn : ℚ) * ad ≤ hi * (an * td) := by exact_mod_cast k1
  calc (tn : ℚ) / td = (tn * ad) / (td * ad) := by field_simp
    _ ≤ (hi * (an * td)) / (td * ad) := by gcongr
    _ = hi * (an / ad) := by field_simp
    _ < 2 ^ (bitlen hi : ℤ) * (an / ad) := by gcongr

theorem decFrac_Q (D : ℕ) (E : ℤ) :
    ((decFrac D E).1 : ℚ) / ((decFrac D E).2 : ℚ) = (D : ℚ) * (10 : ℚ) ^ E := by
  rw [decFrac_eq]
  dsimp only
  rw [← tenFrac_Q, Nat.cast_mul, mul_div_assoc]

theorem decFrac_den_pos (D : ℕ) (E : ℤ) : 0 < (decFrac D E).2 := by
  rw [decFrac_eq]; exact (tenFrac_pos E).2

/-! ## totality: the fuel of `shortest` suffices -/

theorem pick_ne_nil (c : List Nat) (dlo dhi d1 : Nat) :
    (if (c.filter (fun d => dlo ≤ d ∧ d ≤ dhi)).isEmpty then (if d1 < dlo then [dlo] else [dhi])
      else c.filter (fun d => dlo ≤ d ∧ d ≤ dhi)) ≠ [] := by
  by_cases he : (c.filter (fun d => dlo ≤ d ∧ d ≤ dhi)).isEmpty = true
  · rw [if_pos he]; split <;> simp
  · rw [if_neg he]; intro h; rw [h] at he; simp at he

theorem closestIn_ne_nil (iv : Interval) (E : Int) (dlo dhi : Nat) : closestIn iv E dlo dhi ≠ [] := by
  unfold closestIn
  exact pick_ne_nil _ dlo dhi _

theorem shortestGo_ne_nil (iv : Interval) (fuel : Nat) (Es E0 : Int) (h1 : Es - fuel < E0)
    (h2 : E0 ≤ Es) (hne : (candRange iv E0).1 ≤ (candRange iv E0).2) : shortestGo iv fuel Es ≠ [] := by
  induction fuel generalizing Es with
  | zero => simp at h1; omega
  | succ n ih =>
    unfold shortestGo
    simp only []
    split
    · intro h
      exact closestIn_ne_nil _ _ _ _ (List.map_eq_nil_iff.mp h)
    · rename_i hc
      have : E0 ≠ Es := fun he => hc (he ▸ hne)
      exact ih (Es - 1) (by push_cast at h1; omega) (by omega)

/-- if the decimal unit is at most the binary unit and the interval is ≥ 3 units wide, there is a
candidate -/
theorem range_nonempty (iv : Interval) (E : Int) (P Q : Nat) (hPQ : scalePQ iv.e2 E = (P, Q))
    (hP : 0 < P) (hle : P ≤ Q) (hw : iv.lo + 3 ≤ iv.hi) :
    (candRange iv E).1 ≤ (candRange iv E).2 := by
  have hq : iv.lo * Q + 3 * Q ≤ iv.hi * Q := by
    calc iv.lo * Q + 3 * Q = (iv.lo + 3) * Q := by ring
      _ ≤ iv.hi * Q := Nat.mul_le_mul_right Q hw
  have key : iv.lo * Q < (iv.lo * Q / P + 1) * P ∧ (iv.lo * Q / P + 1) * P ≤ iv.lo * Q + P := by
    have d1 := Nat.div_add_mod (iv.lo * Q) P
    have d2 := Nat.mod_lt (iv.lo * Q) hP
    have e : (iv.lo * Q / P + 1) * P = P * (iv.lo * Q / P) + P := by ring
    rw [e]
    generalize iv.lo * Q / P = c at *
    generalize iv.lo * Q % P = m at *
    omega
  obtain ⟨c1, c2⟩ := candRange_complete iv E P Q hPQ hP (iv.lo * Q / P + 1) (Nat.le_add_left 1 _)
    (by omega) (by omega) (fun _ => ⟨by omega, by omega⟩)
  exact le_trans c1 c2

theorem log_bound2_aux (s : ℤ) (hs : s ≤ 200000) :
    (10 : ℚ) ^ (30103 * s - 200000) ≤ (2 : ℚ) ^ (100000 * s) := by
  have q1 : (2 : ℚ) ^ 100000 ≤ 10 ^ 30103 := by exact_mod_cast two_pow_le_ten_pow
  have q2 : (10 : ℚ) ^ 30102 ≤ 2 ^ 100000 := by exact_mod_cast ten_pow_le_two_pow
  rcases le_or_gt 0 s with h | h
  · obtain ⟨n, rfl⟩ := Int.eq_ofNat_of_zero_le h
    calc (10 : ℚ) ^ (30103 * (n : ℤ) - 200000) ≤ (10 : ℚ) ^ ((30102 * n : ℕ) : ℤ) :=
          zpow_le_zpow_right₀ (by norm_num) (by push_cast; omega)
      _ = ((10 : ℚ) ^ 30102) ^ n := by rw [← pow_mul, zpow_natCast]
      _ ≤ ((2 : ℚ) ^ 100000) ^ n := pow_le_pow_left₀ (by positivity) q2 n
      _ = (2 : ℚ) ^ (100000 * (n : ℤ)) := by
          rw [← pow_mul]; exact_mod_cast (zpow_natCast (2 : ℚ) (100000 * n)).symm
  · obtain ⟨a, ha⟩ : ∃ a : ℕ, s = -(a : ℤ) := ⟨(-s).toNat, by omega⟩
    subst ha
    calc (10 : ℚ) ^ (30103 * -(a : ℤ) - 200000) ≤ (10 : ℚ) ^ (-((30103 * a : ℕ) : ℤ)) :=
          zpow_le_zpow_right₀ (by norm_num) (by push_cast; omega)
      _ = (((10 : ℚ) ^ 30103) ^ a)⁻¹ := by rw [← pow_mul, zpow_neg, zpow_natCast]
      _ ≤ (((2 : ℚ) ^ 100000) ^ a)⁻¹ :=
          inv_anti₀ (by positivity) (pow_le_pow_left₀ (by positivity) q1 a)
      _ = (2 : ℚ) ^ (100000 * -(a : ℤ)) := by
          rw [← pow_mul, mul_neg, zpow_neg]; exact_mod_cast rfl

/-- `E ≤ 0.30103·s − 2` forces `10^E ≤ 2^s` (for `s ≤ 200000`) -/
theorem log_bound2 (s E : ℤ) (hs : s ≤ 200000) (h : 100000 * E + 200000 ≤ 30103 * s) :
    (10 : ℚ) ^ E ≤ (2 : ℚ) ^ s := by
  by_contra hcon
  have hlt : (2 : ℚ) ^ s < (10 : ℚ) ^ E := not_le.mp hcon
  have key : (10 : ℚ) ^ (100000 * E) ≤ (2 : ℚ) ^ (100000 * s) :=
    le_trans (zpow_le_zpow_right₀ (by norm_num) (by omega)) (log_bound2_aux s hs)
  have h2 : ((2 : ℚ) ^ s) ^ (100000 : ℕ) < ((10 : ℚ) ^ E) ^ (100000 : ℕ) :=
    pow_lt_pow_left₀ hlt (by positivity) (by norm_num)
  rw [← zpow_natCast, ← zpow_natCast, ← zpow_mul, ← zpow_mul] at h2
  rw [mul_comm (100000 : ℤ) s, mul_comm (100000 : ℤ) E] at key
  exact absurd key (not_le.mpr (by exact_mod_cast h2))

theorem bitlen_le {n m : Nat} (h : n < 2 ^ m) : bitlen n ≤ m := by
  unfold bitlen
  split
  · omega
  · rename_i hn
    have := (Nat.log2_lt hn).mpr h
    omega

/-- `shortest` returns at least one pair for every finite positive pattern (formats with
`p ≤ 1000` and at most 100000 exponent values, in particular `f32`, `f64`) -/
theorem shortest_ne_nil {f : Fmt} (hf : WF f) (hp : f.p ≤ 1000) (hM : f.maxExpField ≤ 100000)
    {b : Nat} (hb0 : 0 < b) (hb : b < f.infBits) : shortest f b ≠ [] := by
  rw [shortest_eq]
  apply shortestGo_ne_nil _ 420 _ (upOf f b - 419) (by push_cast; omega) (by omega)
  obtain ⟨k, q, hbk, h1, h2, hiv⟩ := interval_eq hf hb
  have hPQ := scalePQ_eq (interval f b).e2 (upOf f b - 419)
  obtain ⟨an_pos, ad_pos⟩ := binFrac_pos (interval f b).e2
  obtain ⟨tn_pos, td_pos⟩ := tenFrac_pos (upOf f b - 419)
  have hbin := binFrac_Q (interval f b).e2
  have hten := tenFrac_Q (upOf f b - 419)
  have he2 : (interval f b).e2 = (k : ℤ) - (L f : ℤ) - 2 := by rw [hiv]
  have hhi : (interval f b).hi = 4 * q + 2 := by rw [hiv]
  have hq1 : 1 ≤ q := by
    by_contra hq
    have hq0 : q = 0 := by omega
    have hk0 : k = 0 := by
      by_contra hk; have := h1 (by omega); have := Nat.two_pow_pos (f.p - 1); omega
    rw [hq0, hk0] at hbk; omega
  have hlo : (interval f b).lo + 3 ≤ (interval f b).hi := by
    rw [hiv]; dsimp only; split <;> omega
  have hk : k < f.maxExpField := by
    have hT := Nat.two_pow_pos (f.p - 1)
    rw [infBits_eq, hbk] at hb
    by_contra hge
    have := Nat.mul_le_mul_right (2 ^ (f.p - 1)) (Nat.le_of_not_lt hge)
    omega
  have hh : bitlen (interval f b).hi ≤ f.p + 3 := by
    apply bitlen_le
    rw [hhi, show f.p + 3 = (f.p - 1) + 4 by have := hf.hp; omega, Nat.pow_add]
    have := Nat.two_pow_pos (f.p - 1)
    omega
  apply range_nonempty _ _ _ _ hPQ (Nat.mul_pos tn_pos ad_pos) _ hlo
  -- 10^E0 ≤ 2^e2
  have hlog : (10 : ℚ) ^ (upOf f b - 419) ≤ (2 : ℚ) ^ (interval f b).e2 := by
    apply log_bound2 _ _ (by rw [he2]; omega)
    unfold upOf
    generalize (interval f b).e2 = e2 at *
    generalize bitlen (interval f b).hi = h at *
    omega
  rw [← hten, ← hbin] at hlog
  generalize (binFrac (interval f b).e2).1 = an at *
  generalize (binFrac (interval f b).e2).2 = ad at *
  generalize (tenFrac (upOf f b - 419)).1 = tn at *
  generalize (tenFrac (upOf f b - 419)).2 = td at *
  rw [div_le_div_iff₀ (by exact_mod_cast td_pos) (by exact_mod_cast ad_pos)] at hlog
  exact_mod_cast hlog

/-! ## closeness: the returned `D` is a candidate nearest to the exact value -/

theorem pick_closest (P vN dlo dhi D D' : Nat) (hP : 0 < P) (h : dlo ≤ dhi)
    (hD : D ∈ (if ((if 2 * (vN % P) < P then [vN / P] else if 2 * (vN % P) > P then [vN / P + 1]
          else [vN / P, vN / P + 1]).filter (fun d => dlo ≤ d ∧ d ≤ dhi)).isEmpty
        then (if vN / P < dlo then [dlo] else [dhi])
        else (if 2 * (vN % P) < P then [vN / P] else if 2 * (vN % P) > P then [vN / P + 1]
          else [vN / P, vN / P + 1]).filter (fun d => dlo ≤ d ∧ d ≤ dhi)))
    (h1 : dlo ≤ D') (h2 : D' ≤ dhi) :
    (D * P - vN) + (vN - D * P) ≤ (D' * P - vN) + (vN - D' * P) := by
  have e1 := Nat.div_add_mod vN P
  have e2 := Nat.mod_lt vN hP
  generalize vN / P = d1 at *
  generalize vN % P = r at *
  -- linear facts about the products
  have mono : ∀ a b : Nat, a ≤ b → a * P ≤ b * P := fun a b hab => Nat.mul_le_mul_right P hab
  have hd1 : P * d1 = d1 * P := Nat.mul_comm _ _
  have hs : (d1 + 1) * P = d1 * P + P := Nat.succ_mul _ _
  have cmpD' : D' ≤ d1 ∨ d1 + 1 ≤ D' := by omega
  have mD'1 := mono D' d1
  have mD'2 := mono (d1 + 1) D'
  by_cases he : ((if 2 * r < P then [d1] else if 2 * r > P then [d1 + 1]
          else [d1, d1 + 1]).filter (fun d => dlo ≤ d ∧ d ≤ dhi)).isEmpty = true
  · rw [if_pos he] at hD
    have hnot : ∀ d ∈ (if 2 * r < P then [d1] else if 2 * r > P then [d1 + 1] else [d1, d1 + 1]),
        ¬ (dlo ≤ d ∧ d ≤ dhi) := by
      intro d hd hr
      have : d ∈ (if 2 * r < P then [d1] else if 2 * r > P then [d1 + 1]
          else [d1, d1 + 1]).filter (fun d => dlo ≤ d ∧ d ≤ dhi) :=
        List.mem_filter.mpr ⟨hd, by simpa using hr⟩
      rw [List.isEmpty_iff] at he
      rw [he] at this; exact absurd this List.not_mem_nil
    split at hD
    · rename_i hlt
      simp only [List.mem_singleton] at hD; subst hD
      have := mono (d1 + 1) D (by omega)
      have := mono D D' h1
      omega
    · rename_i hge
      simp only [List.mem_singleton] at hD; subst hD
      have hle : D ≤ d1 := by
        by_contra hc
        split at hnot
        · exact hnot d1 (by simp) ⟨by omega, by omega⟩
        · split at hnot
          · have := hnot (d1 + 1) (by simp); omega
          · exact hnot d1 (by simp) ⟨by omega, by omega⟩
      have := mono D d1 hle
      have := mono D' D h2
      omega
  · rw [if_neg he] at hD
    have hD' := (List.mem_filter.mp hD).1
    have mD1 := mono D d1
    have mD2 := mono (d1 + 1) D
    split at hD'
    · simp only [List.mem_singleton] at hD'; subst hD'
      rcases cmpD' with c | c
      · have := mD'1 c; omega
      · have := mD'2 c; omega
    · split at hD'
      · simp only [List.mem_singleton] at hD'; subst hD'
        rcases cmpD' with c | c
        · have := mD'1 c; omega
        · have := mD'2 c; omega
      · simp only [List.mem_cons, List.not_mem_nil, or_false] at hD'
        rcases hD' with rfl | rfl <;> rcases cmpD' with c | c
        · have := mD'1 c; omega
        · have := mD'2 c; omega
        · have := mD'1 c; omega
        · have := mD'2 c; omega

theorem closestIn_closest (iv : Interval) (E : Int) (dlo dhi P Q : Nat)
    (hPQ : scalePQ iv.e2 E = (P, Q)) (hP : 0 < P) (h : dlo ≤ dhi) (D D' : Nat)
    (hD : D ∈ closestIn iv E dlo dhi) (h1 : dlo ≤ D') (h2 : D' ≤ dhi) :
    (D * P - iv.v * Q) + (iv.v * Q - D * P) ≤ (D' * P - iv.v * Q) + (iv.v * Q - D' * P) := by
  unfold closestIn at hD
  simp only [hPQ] at hD
  exact pick_closest P (iv.v * Q) dlo dhi D D' hP h hD h1 h2

theorem shortestGo_mem2 (iv : Interval) (fuel : Nat) (E0 : Int) (D : Nat) (E : Int)
    (h : (D, E) ∈ shortestGo iv fuel E0) :
    (candRange iv E).1 ≤ (candRange iv E).2 ∧
      D ∈ closestIn iv E (candRange iv E).1 (candRange iv E).2 := by
  induction fuel generalizing E0 with
  | zero => simp [shortestGo] at h
  | succ n ih =>
    unfold shortestGo at h
    simp only [] at h
    split at h
    · rename_i hle
      obtain ⟨d, hd, he⟩ := List.mem_map.mp h
      simp only [Prod.mk.injEq] at he
      obtain ⟨rfl, rfl⟩ := he
      exact ⟨hle, hd⟩
    · exact ih _ h

theorem abs_natCast_sub (a b : ℕ) : |(a : ℚ) - (b : ℚ)| = (((a - b) + (b - a) : ℕ) : ℚ) := by
  rcases le_total a b with h | h
  · have hq : (a : ℚ) ≤ b := by exact_mod_cast h
    rw [abs_of_nonpos (by linarith), Nat.sub_eq_zero_of_le h, Nat.zero_add, Nat.cast_sub h]; ring
  · have hq : (b : ℚ) ≤ a := by exact_mod_cast h
    rw [abs_of_nonneg (by linarith), Nat.sub_eq_zero_of_le h, Nat.add_zero, Nat.cast_sub h]

/-- among the round-tripping decimals with the same (maximal) exponent, the returned `D` is nearest
to the exact value of `b` -/
theorem shortest_closest' {f : Fmt} (hf : WF f) {b : Nat} (hb0 : 0 < b) (hb : b < f.infBits)
    {D : Nat} {E : Int} (h : (D, E) ∈ shortest f b) {D' : Nat}
    (hrt : roundNE f (decFrac D' E).1 (decFrac D' E).2 = b) :
    |(D : ℚ) * (10 : ℚ) ^ E - ((f.decode b).m : ℚ) * (2 : ℚ) ^ (f.decode b).e| ≤
      |(D' : ℚ) * (10 : ℚ) ^ E - ((f.decode b).m : ℚ) * (2 : ℚ) ^ (f.decode b).e| := by
  have hD1 : 1 ≤ D' := by
    by_contra h0
    have : D' = 0 := by omega
    subst this
    rw [decFrac_eq] at hrt
    simp only [Nat.zero_mul] at hrt
    rw [roundNE_zero] at hrt
    omega
  rw [shortest_eq] at h
  obtain ⟨hle, hmem⟩ := shortestGo_mem2 _ _ _ _ _ h
  obtain ⟨c1, c2⟩ := cand_complete hf hb0 hb hD1 hrt
  have hPQ := scalePQ_eq (interval f b).e2 E
  obtain ⟨an_pos, ad_pos⟩ := binFrac_pos (interval f b).e2
  obtain ⟨tn_pos, td_pos⟩ := tenFrac_pos E
  have key := closestIn_closest _ E _ _ _ _ hPQ (Nat.mul_pos tn_pos ad_pos) hle D D' hmem c1 c2
  have hbin := binFrac_Q (interval f b).e2
  have hten := tenFrac_Q E
  obtain ⟨k, q, hbk, h1, h2, hdec, _⟩ := decode_kq hf hb
  have hv : (interval f b).v = 4 * (f.decode b).m := rfl
  have he2 : (interval f b).e2 = (f.decode b).e - 2 := rfl
  rw [hv] at key
  have hexp : (2 : ℚ) ^ (f.decode b).e = 4 * (2 : ℚ) ^ (interval f b).e2 := by
    rw [he2, zpow_sub₀ (by norm_num : (2 : ℚ) ≠ 0)]; norm_num; ring
  rw [hexp, ← hten, ← hbin]
  generalize (f.decode b).m = m at *
  generalize (binFrac (interval f b).e2).1 = an at *
  generalize (binFrac (interval f b).e2).2 = ad at *
  generalize (tenFrac E).1 = tn at *
  generalize (tenFrac E).2 = td at *
  have adQ : (0 : ℚ) < ad := by exact_mod_cast ad_pos
  have tdQ : (0 : ℚ) < td := by exact_mod_cast td_pos
  have r : ∀ X : ℕ, (X : ℚ) * ((tn : ℚ) / td) - (m : ℚ) * (4 * ((an : ℚ) / ad))
      = (((X * (tn * ad) : ℕ) : ℚ) - ((4 * m * (an * td) : ℕ) : ℚ)) / (td * ad) := by
    intro X; push_cast; field_simp
  rw [r D, r D', abs_div, abs_div, abs_natCast_sub, abs_natCast_sub]
  apply div_le_div_of_nonneg_right _ (abs_nonneg _)
  exact_mod_cast key

end LexVerif.Proof.RoundNE
