import LexVerif.Proof.Shortest
import Mathlib.Tactic.Ring
import Mathlib.Tactic.Linarith
import Mathlib.Tactic.Positivity
import Mathlib.Tactic.FieldSimp
import Mathlib.Algebra.Order.Field.Rat
import Mathlib.Algebra.Order.Field.Power
/-!
# Proof.ShortestUp — the start exponent of `shortest`'s search is an upper bound
(`0.30103 > log10 2 > 0.30102`, checked by kernel evaluation of two 100000-bit comparisons)
-/
namespace LexVerif.Proof.RoundNE
open LexVerif.Spec

theorem two_pow_le_ten_pow : (2 : ℕ) ^ 100000 ≤ 10 ^ 30103 := by decide +kernel
theorem ten_pow_le_two_pow : (10 : ℕ) ^ 30102 ≤ 2 ^ 100000 := by decide +kernel

theorem log_bound_aux (s : ℤ) (hs : -200000 ≤ s) :
    (2 : ℚ) ^ (100000 * s) ≤ (10 : ℚ) ^ (30103 * s + 200001) := by
  have q1 : (2 : ℚ) ^ 100000 ≤ 10 ^ 30103 := by exact_mod_cast two_pow_le_ten_pow
  have q2 : (10 : ℚ) ^ 30102 ≤ 2 ^ 100000 := by exact_mod_cast ten_pow_le_two_pow
  rcases le_or_gt 0 s with h | h
  · obtain ⟨n, rfl⟩ := Int.eq_ofNat_of_zero_le h
    calc (2 : ℚ) ^ (100000 * (n : ℤ)) = ((2 : ℚ) ^ 100000) ^ n := by
          rw [← pow_mul]; exact_mod_cast zpow_natCast (2 : ℚ) (100000 * n)
      _ ≤ ((10 : ℚ) ^ 30103) ^ n := pow_le_pow_left₀ (by positivity) q1 n
      _ = (10 : ℚ) ^ ((30103 * n : ℕ) : ℤ) := by rw [← pow_mul, zpow_natCast]
      _ ≤ (10 : ℚ) ^ (30103 * (n : ℤ) + 200001) :=
          zpow_le_zpow_right₀ (by norm_num) (by push_cast; omega)
  · obtain ⟨a, ha⟩ : ∃ a : ℕ, s = -(a : ℤ) := ⟨(-s).toNat, by omega⟩
    subst ha
    calc (2 : ℚ) ^ (100000 * -(a : ℤ)) = (((2 : ℚ) ^ 100000) ^ a)⁻¹ := by
          rw [← pow_mul, mul_neg, zpow_neg]; exact_mod_cast rfl
      _ ≤ (((10 : ℚ) ^ 30102) ^ a)⁻¹ :=
          inv_anti₀ (by positivity) (pow_le_pow_left₀ (by positivity) q2 a)
      _ = (10 : ℚ) ^ (-((30102 * a : ℕ) : ℤ)) := by rw [← pow_mul, zpow_neg, zpow_natCast]
      _ ≤ (10 : ℚ) ^ (30103 * -(a : ℤ) + 200001) :=
          zpow_le_zpow_right₀ (by norm_num) (by push_cast; omega)

/-- `10^E < 2^s` forces `E ≤ ⌊0.30103·s⌋ + 2` (for `s ≥ -200000`) -/
theorem log_bound (s E : ℤ) (hs : -200000 ≤ s) (h : (10 : ℚ) ^ E < (2 : ℚ) ^ s) :
    E ≤ s * 30103 / 100000 + 2 := by
  by_contra hcon
  have h1 : 30103 * s + 200001 ≤ 100000 * E := by omega
  have key : (2 : ℚ) ^ (100000 * s) ≤ (10 : ℚ) ^ (100000 * E) :=
    le_trans (log_bound_aux s hs) (zpow_le_zpow_right₀ (by norm_num) h1)
  have h2 : ((10 : ℚ) ^ E) ^ (100000 : ℕ) < ((2 : ℚ) ^ s) ^ (100000 : ℕ) :=
    pow_lt_pow_left₀ h (by positivity) (by norm_num)
  rw [← zpow_natCast, ← zpow_natCast, ← zpow_mul, ← zpow_mul] at h2
  rw [mul_comm (100000 : ℤ) s, mul_comm (100000 : ℤ) E] at key
  exact absurd key (not_le.mpr (by exact_mod_cast h2))

end LexVerif.Proof.RoundNE
