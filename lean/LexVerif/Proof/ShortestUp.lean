import LexVerif.Proof.Shortest
import Mathlib.Tactic.Ring
import Mathlib.Tactic.Linarith
import Mathlib.Tactic.Positivity
import Mathlib.Tactic.FieldSimp
import Mathlib.Algebra.Order.Field.Rat
import Mathlib.Algebra.Order.Field.Power
import Mathlib.Tactic.GCongr
/-!
# Proof.ShortestUp — the start exponent of `shortest`'s search is an upper bound
(`0.30103 > log10 2 > 0.30102`, checked by kernel evaluation of two 100000-bit comparisons)
-/
namespace LexVerif.Proof.RoundNE
open LexVerif.Spec

theorem two_pow_le_ten_pow : (2 : ℕ) ^ 100000 ≤ 10 ^ 30103 := by decide +kernel
theorem ten_pow_le_two_pow : (10 : ℕ) ^ 30102 ≤ 2 ^ 100000 := by decide +kernel

theorem log_bound_aux (s : ℤ) (hs : -200000 ≤ s) :
    (2 : ℚ) ^ (100000 * s) ≤ (10 : ℚ) ^ (30103 * s + 200001) := by
  have q1 : (2 : ℚ) ^ 100000 ≤ 10 ^ 30103 := by exact_mod_cast two_pow_le_ten_pow
  have q2 : (10 : ℚ) ^ 30102 ≤ 2 ^ 100000 := by exact_mod_cast ten_pow_le_two_pow
  rcases le_or_gt 0 s with h | h
  · obtain ⟨n, rfl⟩ := Int.eq_ofNat_of_zero_le h
    calc (2 : ℚ) ^ (100000 * (n : ℤ)) = ((2 : ℚ) ^ 100000) ^ n := by
          rw [← pow_mul]; exact_mod_cast zpow_natCast (2 : ℚ) (100000 * n)
      _ ≤ ((10 : ℚ) ^ 30103) ^ n := pow_le_pow_left₀ (by positivity) q1 n
      _ = (10 : ℚ) ^ ((30103 * n : ℕ) : ℤ) := by rw [← pow_mul, zpow_natCast]
      _ ≤ (10 : ℚ) ^ (30103 * (n : ℤ) + 200001) :=
          zpow_le_zpow_right₀ (by norm_num) (by push_cast; omega)
  · obtain ⟨a, ha⟩ : ∃ a : ℕ, s = -(a : ℤ) := ⟨(-s).toNat, by omega⟩
    subst ha
    calc (2 : ℚ) ^ (100000 * -(a : ℤ)) = (((2 : ℚ) ^ 100000) ^ a)⁻¹ := by
          rw [← pow_mul, mul_neg, zpow_neg]; exact_mod_cast rfl
      _ ≤ (((10 : ℚ) ^ 30102) ^ a)⁻¹ :=
          inv_anti₀ (by positivity) (pow_le_pow_left₀ (by positivity) q2 a)
      _ = (10 : ℚ) ^ (-((30102 * a : ℕ) : ℤ)) := by rw [← pow_mul, zpow_neg, zpow_natCast]
      _ ≤ (10 : ℚ) ^ (30103 * -(a : ℤ) + 200001) :=
          zpow_le_zpow_right₀ (by norm_num) (by push_cast; omega)

/-- `10^E < 2^s` forces `E ≤ ⌊0.30103·s⌋ + 2` (for `s ≥ -200000`) -/
theorem log_bound (s E : ℤ) (hs : -200000 ≤ s) (h : (10 : ℚ) ^ E < (2 : ℚ) ^ s) :
    E ≤ s * 30103 / 100000 + 2 := by
  by_contra hcon
  have h1 : 30103 * s + 200001 ≤ 100000 * E := by omega
  have key : (2 : ℚ) ^ (100000 * s) ≤ (10 : ℚ) ^ (100000 * E) :=
    le_trans (log_bound_aux s hs) (zpow_le_zpow_right₀ (by norm_num) h1)
  have h2 : ((10 : ℚ) ^ E) ^ (100000 : ℕ) < ((2 : ℚ) ^ s) ^ (100000 : ℕ) :=
    pow_lt_pow_left₀ h (by positivity) (by norm_num)
  rw [← zpow_natCast, ← zpow_natCast, ← zpow_mul, ← zpow_mul] at h2
  rw [mul_comm (100000 : ℤ) s, mul_comm (100000 : ℤ) E] at key
  exact absurd key (not_le.mpr (by exact_mod_cast h2))

theorem tenFrac_Q (E : ℤ) : ((tenFrac E).1 : ℚ) / ((tenFrac E).2 : ℚ) = (10 : ℚ) ^ E := by
  unfold tenFrac
  split
  · rename_i h
    obtain ⟨n, rfl⟩ := Int.eq_ofNat_of_zero_le h
    simp
  · rename_i h
    obtain ⟨n, hn⟩ : ∃ n : ℕ, E = -(n : ℤ) := ⟨(-E).toNat, by omega⟩
    subst hn
    simp

theorem binFrac_Q (e : ℤ) : ((binFrac e).1 : ℚ) / ((binFrac e).2 : ℚ) = (2 : ℚ) ^ e := by
  unfold binFrac
  split
  · rename_i h
    obtain ⟨n, rfl⟩ := Int.eq_ofNat_of_zero_le h
    simp
  · rename_i h
    obtain ⟨n, hn⟩ : ∃ n : ℕ, e = -(n : ℤ) := ⟨(-e).toNat, by omega⟩
    subst hn
    simp

/-- every round-tripping decimal `D'·10^E'` with `D' ≥ 1` has `E' ≤` the search start of `shortest` -/
theorem up_bound {f : Fmt} (hf : WF f) (hsz : L f + 2 ≤ 200000) {b : Nat} (hb0 : 0 < b)
    (hb : b < f.infBits) {D : Nat} {E : Int} (hD1 : 1 ≤ D)
    (hrt : roundNE f (decFrac D E).1 (decFrac D E).2 = b) : E ≤ upOf f b := by
  obtain ⟨c1, c2⟩ := cand_complete hf hb0 hb hD1 hrt
  have hPQ := scalePQ_eq (interval f b).e2 E
  obtain ⟨an_pos, ad_pos⟩ := binFrac_pos (interval f b).e2
  obtain ⟨tn_pos, td_pos⟩ := tenFrac_pos E
  obtain ⟨_, _, chi, _⟩ := candRange_spec _ E _ _ hPQ (Nat.mul_pos tn_pos ad_pos) D c1 c2
  have hbin := binFrac_Q (interval f b).e2
  have hten := tenFrac_Q E
  obtain ⟨k, q, hbk, h1, h2, hiv⟩ := interval_eq hf hb
  have he2 : (interval f b).e2 = (k : ℤ) - (L f : ℤ) - 2 := by rw [hiv]
  unfold upOf
  apply log_bound _ _ (by rw [he2]; omega)
  have hhi : ((interval f b).hi : ℚ) < (2 : ℚ) ^ (bitlen (interval f b).hi : ℤ) := by
    rw [zpow_natCast]; exact_mod_cast bitlen_upper (interval f b).hi
  generalize (interval f b).hi = hi at *
  generalize (interval f b).e2 = e2 at *
  generalize (binFrac e2).1 = an at *
  generalize (binFrac e2).2 = ad at *
  generalize (tenFrac E).1 = tn at *
  generalize (tenFrac E).2 = td at *
  rw [zpow_add₀ (by norm_num : (2 : ℚ) ≠ 0), ← hten, ← hbin]
  have adQ : (0 : ℚ) < ad := by exact_mod_cast ad_pos
  have tdQ : (0 : ℚ) < td := by exact_mod_cast td_pos
  have anQ : (0 : ℚ) < an := by exact_mod_cast an_pos
  have k1 : tn * ad ≤ hi * (an * td) :=
    le_trans (Nat.le_mul_of_pos_left _ hD1) chi
  have k1Q : (tn : ℚ) * ad ≤ hi * (an * td) := by exact_mod_cast k1
  calc (tn : ℚ) / td = (tn * ad) / (td * ad) := by field_simp
    _ ≤ (hi * (an * td)) / (td * ad) := by gcongr
    _ = hi * (an / ad) := by field_simp
    _ < 2 ^ (bitlen hi : ℤ) * (an / ad) := by gcongr

theorem decFrac_Q (D : ℕ) (E : ℤ) :
    ((decFrac D E).1 : ℚ) / ((decFrac D E).2 : ℚ) = (D : ℚ) * (10 : ℚ) ^ E := by
  rw [decFrac_eq]
  dsimp only
  rw [← tenFrac_Q, Nat.cast_mul, mul_div_assoc]

theorem decFrac_den_pos (D : ℕ) (E : ℤ) : 0 < (decFrac D E).2 := by
  rw [decFrac_eq]; exact (tenFrac_pos E).2

end LexVerif.Proof.RoundNE
