import LexVerif.Proof.GrammarIter
/-!
# Proof.GrammarPhases — the phases of `parse_number` against the components of `Spec.Grammar`

Separator-free formats (`NoSep`) without base prefix, release build. Each phase of `Model.ParseNumber` is
characterised by the corresponding splitter of `Spec.Grammar` applied to the unread input `tl b`.
-/
namespace LexVerif.Proof.Grammar
open LexVerif LexVerif.Spec LexVerif.Model

/-- standing assumptions of the phase lemmas -/
structure Std (c : Cfg) : Prop where
  nosep : NoSep c
  release : c.debug = false
  noprefix : c.basePrefix = 0
  /-- the 8-digit fast loop is only compiled in for decimal-digit radices (`is_valid()`: radix 10 without `power-of-two`) -/
  radix8 : c.feats.powerOfTwo = false → c.mantissaRadix ≤ 10
  radix : c.mantissaRadix ≤ 255
  expRadix : c.exponentRadix ≤ 255

theorem takeDigits_le (r : Nat) (l : List Nat) : (takeDigits r l).1.length ≤ l.length := by
  have := takeDigits_length r l; omega

theorem run_take_digits (r : Nat) : ∀ (n : Nat) (l : List Nat), n ≤ (takeDigits r l).1.length →
    ∀ x ∈ l.take n, (digitVal r x).isSome := by
  intro n
  induction n with
  | zero => intro l _ x hx; simp at hx
  | succ n ih =>
    intro l h x hx
    cases l with
    | nil => simp at hx
    | cons y ys =>
      cases hd : digitVal r y with
      | none => simp [takeDigits, hd] at h
      | some d =>
        simp only [takeDigits, hd, List.length_cons] at h
        simp only [List.take_succ_cons, List.mem_cons] at hx
        rcases hx with rfl | hx
        · simp [hd]
        · exact ih ys (by omega) x hx

theorem digitVal_zero (r x : Nat) : digitVal r x = some 0 ↔ (x = 48 ∧ 0 < r) := by
  unfold digitVal digitVal36
  by_cases h1 : 48 ≤ x ∧ x ≤ 57
  · simp only [h1, and_self, if_true]
    constructor
    · intro h; split at h
      · simp only [Option.some.injEq] at h; exact ⟨by omega, by omega⟩
      · cases h
    · rintro ⟨rfl, hr⟩; simp [hr]
  · by_cases h2 : 65 ≤ x ∧ x ≤ 90
    · simp only [h1, h2, and_self, if_true, if_false]
      constructor
      · intro h; split at h
        · simp only [Option.some.injEq] at h; omega
        · cases h
      · rintro ⟨rfl, _⟩; omega
    · by_cases h3 : 97 ≤ x ∧ x ≤ 122
      · simp only [h1, h2, h3, and_self, if_true, if_false]
        constructor
        · intro h; split at h
          · simp only [Option.some.injEq] at h; omega
          · cases h
        · rintro ⟨rfl, _⟩; omega
      · simp only [h1, h2, h3, if_false]
        constructor
        · intro h; cases h
        · rintro ⟨rfl, _⟩; omega

/-- head of the digit values vs head of the bytes -/
theorem takeDigits_head_zero (r : Nat) (l : List Nat) (h : 0 < (takeDigits r l).1.length) :
    ((takeDigits r l).1.head? = some 0) ↔ (l.head? = some 48) := by
  cases l with
  | nil => simp [takeDigits] at h
  | cons x xs =>
    cases hd : digitVal r x with
    | none => simp [takeDigits, hd] at h
    | some d =>
      simp only [takeDigits, hd, List.head?_cons, Option.some.injEq]
      constructor
      · rintro rfl; exact ((digitVal_zero r x).mp hd).1
      · rintro rfl
        have : 0 < r := by
          unfold digitVal digitVal36 at hd
          simp at hd
          omega
        have := (digitVal_zero r 48).mpr ⟨rfl, this⟩
        rw [this] at hd; simpa using hd.symm

theorem prefixPhase_none {c : Cfg} (h : c.basePrefix = 0) (b : Bytes) : prefixPhase c b = .ok (false, b) := by
  simp [prefixPhase, prefixPhaseCurrent, prefixPhaseRepaired, h, pure, Except.pure]

/-- the integer component -/
theorem integerPhase_spec {c : Cfg} (hs : Std c) (b : Bytes) (hb : ∀ x ∈ b.slc, x < 256) :
    ((c.requiredIntegerDigits && (takeDigits c.mantissaRadix (tl b)).1.isEmpty) = true →
      ∃ k i, integerPhase c b = .error (.err k i)) ∧
    ((c.requiredIntegerDigits && (takeDigits c.mantissaRadix (tl b)).1.isEmpty) = false →
      ((c.noFloatLeadingZeros && leadingZeros (takeDigits c.mantissaRadix (tl b)).1) = true →
        ∃ k i, integerPhase c b = .error (.err k i)) ∧
      ((c.noFloatLeadingZeros && leadingZeros (takeDigits c.mantissaRadix (tl b)).1) = false →
        ∃ ip, integerPhase c b = .ok ip ∧ ip.isPrefix = false ∧ ip.start = b ∧
          Adv b ip.byte (takeDigits c.mantissaRadix (tl b)).1.length ∧
          ip.nDigits = (takeDigits c.mantissaRadix (tl b)).1.length ∧
          ip.integerDigits = (tl b).take (takeDigits c.mantissaRadix (tl b)).1.length)) := by
  obtain ⟨m1, b1, n1, h8, ha1, hn1⟩ := parse8Digits_spec hs.nosep hs.release .integer hs.radix8 b 0
  obtain ⟨b2, hpd, ha2⟩ := parseDigits_run hs.nosep hs.release .integer c.mantissaRadix hs.radix b1
    (by rw [ha1.1]; exact hb)
  have hle := takeDigits_le c.mantissaRadix (tl b)
  have hsk := takeDigits_skip c.mantissaRadix n1 (tl b) (by omega) (run_take_digits _ n1 (tl b) hn1)
  rw [ha1.tl] at hpd ha2
  have hhead := takeDigits_head_zero c.mantissaRadix (tl b)
  have htll : (tl b).length = b.slc.length - b.index := by simp [tl]
  generalize hds2 : (takeDigits c.mantissaRadix (List.drop n1 (tl b))).1 = ds2 at hpd ha2 hsk
  generalize hids : (takeDigits c.mantissaRadix (tl b)).1 = ids at hle hsk hhead hn1 ⊢
  have hadv : Adv b b2 ids.length := by
    have := ha1.trans ha2
    rw [← hsk.1] at this; exact this
  have hcnt : b2.currentCount c - b.currentCount c = ids.length := by
    rw [hs.nosep.count, hs.nosep.count, hadv.2]; omega
  have hslice : sliceTo c b ids.length "integer get_unchecked(..b_digits)" = .ok ((tl b).take ids.length) := by
    have : ids.length ≤ b.asSlice.length := by simp only [Bytes.asSlice, List.length_drop]; omega
    unfold sliceTo
    rw [if_pos this]; rfl
  have hfmt_ri : (c.feats.format && c.requiredIntegerDigits) = c.requiredIntegerDigits := by
    cases hf : c.feats.format <;> simp [Cfg.requiredIntegerDigits, Cfg.flag, hf]
  have hfmt_lz : (c.feats.format && c.noFloatLeadingZeros) = c.noFloatLeadingZeros := by
    cases hf : c.feats.format <;> simp [Cfg.noFloatLeadingZeros, Cfg.flag, hf]
  have hlz : (decide (((tl b).take ids.length).length > 1) && decide (((tl b).take ids.length).head? = some 48))
      = leadingZeros ids := by
    unfold leadingZeros
    have hl : ((tl b).take ids.length).length = ids.length := by simp only [List.length_take]; omega
    rw [hl]
    by_cases h1 : ids.length > 1
    · have hh : ((tl b).take ids.length).head? = (tl b).head? := by
        cases htl : tl b with
        | nil => simp
        | cons x xs => cases hi : ids.length with
          | zero => omega
          | succ n => simp
      have := hhead (by omega)
      rw [hh]
      by_cases h2 : (tl b).head? = some 48
      · have h3 := this.mpr h2
        simp [h1, h2, h3]
      · have h3 : ¬ (ids.head? = some 0) := fun h => h2 (this.mp h)
        have e1 : decide ((tl b).head? = some 48) = false := by simpa using h2
        have e2 : (ids.head? == some 0) = false := by simpa using h3
        simp [h1, e1, e2]
    · simp [h1]
  have hmain : integerPhase c b =
      (if (c.requiredIntegerDigits && decide (ids.length = 0)) = true then .error (.err "EmptyInteger" b2.index)
       else if (c.noFloatLeadingZeros && leadingZeros ids) = true then .error (.err "InvalidLeadingZeros" b.index)
       else .ok ⟨false, b, b2, foldMantissa c.mantissaRadix m1 ds2, ids.length, (tl b).take ids.length⟩) := by
    unfold integerPhase
    simp only [prefixPhase_none hs.noprefix, h8, hpd, bind, Except.bind, hcnt, hs.nosep.contig, Bool.not_true,
      Bool.and_false, Bool.false_eq_true, if_false, hslice, Bool.not_false, Bool.and_true]
    rw [hfmt_ri]
    by_cases hri : (c.requiredIntegerDigits && decide (ids.length = 0)) = true
    · simp only [hri, if_true]
    · simp only [hri, Bool.false_eq_true, if_false]
      have : (c.feats.format && c.noFloatLeadingZeros && decide (((tl b).take ids.length).length > 1)
          && decide (((tl b).take ids.length).head? = some 48)) = (c.noFloatLeadingZeros && leadingZeros ids) := by
        rw [hfmt_lz, Bool.and_assoc, hlz]
      by_cases hz : (c.noFloatLeadingZeros && leadingZeros ids) = true
      · rw [hz] at this
        simp only [this, hz, if_true]
      · simp only [Bool.not_eq_true] at hz
        rw [hz] at this
        simp only [this, hz, Bool.false_eq_true, if_false, pure, Except.pure]
  have hempty : decide (ids.length = 0) = ids.isEmpty := by cases ids <;> simp
  rw [hempty] at hmain
  rw [hmain]
  refine ⟨fun h => ⟨"EmptyInteger", b2.index, by simp only [h, if_true]⟩,
    fun h => ⟨fun h2 => ⟨"InvalidLeadingZeros", b.index, by simp only [h, Bool.false_eq_true, if_false, h2, if_true]⟩,
      fun h2 => ⟨⟨false, b, b2, foldMantissa c.mantissaRadix m1 ds2, ids.length, (tl b).take ids.length⟩,
        by simp only [h, Bool.false_eq_true, if_false, h2], rfl, rfl, hadv, rfl, rfl⟩⟩⟩

theorem first_eq_head (b : Bytes) : b.first = (tl b).head? := by
  simp [Bytes.first, tl_head]

theorem step_rel {c : Cfg} (hd : c.debug = false) (b : Bytes) :
    b.step c = .ok { b with index := b.index + 1 } := by
  simp [Bytes.step, stepUnchecked_rel c _ b hd]

theorem scaleExponent_ok {c : Cfg} (hd : c.debug = false) (x : Int) : ∃ e, scaleExponent c x = .ok e := by
  unfold scaleExponent
  split
  · exact ⟨_, rfl⟩
  · simp only [hd, Bool.false_and, Bool.false_eq_true, if_false]; exact ⟨_, rfl⟩

/-- the fraction component, no decimal point -/
theorem fractionPhase_nopoint {c : Cfg} (o : POpts) (b : Bytes) (m : Nat) (h : (tl b).head? ≠ some o.dp) :
    fractionPhase c o b m = .ok ⟨b, m, 0, 0, none, false⟩ := by
  unfold fractionPhase
  have : b.firstIsCased o.dp = false := by
    simp only [Bytes.firstIsCased, first_eq_head]
    cases hh : (tl b).head? with
    | none => rfl
    | some x =>
      have : x ≠ o.dp := fun e => h (by rw [hh, e])
      simp [this]
  simp only [this, Bool.false_eq_true, if_false, pure, Except.pure]

/-- the fraction component after a decimal point -/
theorem fractionPhase_point {c : Cfg} (hs : Std c) (o : POpts) (b : Bytes) (m : Nat) (xs : List Nat)
    (hb : ∀ x ∈ b.slc, x < 256) (h : tl b = o.dp :: xs) :
    ((c.requiredFractionDigits && (takeDigits c.mantissaRadix xs).1.isEmpty) = true →
      ∃ k i, fractionPhase c o b m = .error (.err k i)) ∧
    ((c.requiredFractionDigits && (takeDigits c.mantissaRadix xs).1.isEmpty) = false →
      ∃ fp, fractionPhase c o b m = .ok fp ∧ Adv b fp.byte (1 + (takeDigits c.mantissaRadix xs).1.length) ∧
        fp.nAfterDot = (takeDigits c.mantissaRadix xs).1.length ∧
        fp.fraction = some (xs.take (takeDigits c.mantissaRadix xs).1.length) ∧ fp.hasDecimal = true) := by
  obtain ⟨_, hlt, htl1⟩ := tl_cons h
  have hfirst : b.firstIsCased o.dp = true := by
    simp [Bytes.firstIsCased, first_eq_head, h]
  have hadv0 : Adv b { b with index := b.index + 1 } 1 := ⟨rfl, rfl⟩
  obtain ⟨m1, b1, n1, h8, ha1, hn1⟩ :=
    parse8Digits_spec hs.nosep hs.release .fraction hs.radix8 { b with index := b.index + 1 } m
  obtain ⟨b2, hpd, ha2⟩ := parseDigits_run hs.nosep hs.release .fraction c.mantissaRadix hs.radix b1
    (by rw [ha1.1]; exact hb)
  rw [htl1] at hn1
  have hle := takeDigits_le c.mantissaRadix xs
  have hsk := takeDigits_skip c.mantissaRadix n1 xs (by omega) (run_take_digits _ n1 xs hn1)
  rw [ha1.tl, htl1] at hpd ha2
  generalize hds2 : (takeDigits c.mantissaRadix (List.drop n1 xs)).1 = ds2 at hpd ha2 hsk
  generalize hfds : (takeDigits c.mantissaRadix xs).1 = fds at hle hsk hn1 ⊢
  have hadv1 : Adv { b with index := b.index + 1 } b2 fds.length := by
    have := ha1.trans ha2
    rw [← hsk.1] at this; exact this
  have hcnt : b2.currentCount c - Bytes.currentCount c { b with index := b.index + 1 } = fds.length := by
    rw [hs.nosep.count, hs.nosep.count, hadv1.2]; omega
  have hslice : sliceTo c { b with index := b.index + 1 } fds.length "fraction get_unchecked(..b_after_dot)"
      = .ok (xs.take fds.length) := by
    have : fds.length ≤ (Bytes.asSlice { b with index := b.index + 1 }).length := by
      have : Bytes.asSlice { b with index := b.index + 1 } = xs := htl1
      rw [this]; exact hle
    unfold sliceTo
    rw [if_pos this]
    have : Bytes.asSlice { b with index := b.index + 1 } = xs := htl1
    rw [this]; rfl
  obtain ⟨e, hse⟩ := scaleExponent_ok (c := c) hs.release (-((fds.length : Nat) : Int))
  have hfmt : (c.feats.format && c.requiredFractionDigits) = c.requiredFractionDigits := by
    cases hf : c.feats.format <;> simp [Cfg.requiredFractionDigits, Cfg.flag, hf]
  have hempty : decide (fds.length = 0) = fds.isEmpty := by cases fds <;> simp
  have hmain : fractionPhase c o b m =
      (if (c.requiredFractionDigits && fds.isEmpty) = true then .error (.err "EmptyFraction" b2.index)
       else .ok ⟨b2, foldMantissa c.mantissaRadix m1 ds2, fds.length, e, some (xs.take fds.length), true⟩) := by
    unfold fractionPhase
    simp only [hfirst, if_true, step_rel hs.release, h8, hpd, bind, Except.bind, hcnt, hs.nosep.contig,
      Bool.not_true, Bool.and_false, Bool.false_eq_true, if_false, hslice, hse, hfmt, hempty, pure, Except.pure]
  rw [hmain]
  refine ⟨fun hc => ⟨"EmptyFraction", b2.index, by simp only [hc, if_true]⟩,
    fun hc => ⟨⟨b2, foldMantissa c.mantissaRadix m1 ds2, fds.length, e, some (xs.take fds.length), true⟩,
      by simp only [hc, Bool.false_eq_true, if_false], ?_, rfl, rfl, rfl⟩⟩
  have := hadv0.trans hadv1
  simpa using this

theorem takeDigits_rest (r : Nat) : ∀ l : List Nat, (takeDigits r l).2 = l.drop (takeDigits r l).1.length := by
  intro l
  induction l with
  | nil => simp [takeDigits]
  | cons x xs ih =>
    unfold takeDigits
    split
    · simp only [List.length_cons, List.drop_succ_cons]; exact ih
    · simp

theorem splitSign_rest (l : List Nat) : (splitSign l).2 = l.drop (l.length - (splitSign l).2.length) ∧
    (splitSign l).2.length ≤ l.length := by
  unfold splitSign
  split
  · simp
  · simp
  · simp

theorem parseSign_other {c : Cfg} (np rq : Bool) (ip ms : String) (b : Bytes)
    (h43 : b.first ≠ some 43) (h45 : b.first ≠ some 45) :
    parseSign c np rq ip ms b = if rq = true then .error (.err ms b.index) else .ok (false, b) := by
  unfold parseSign
  split
  · next h => exact absurd h h43
  · next h => exact absurd h h45
  · rfl

/-- `parse_sign!` against `splitSign` + `signOk` -/
theorem parseSign_spec {c : Cfg} (hd : c.debug = false) (np rq : Bool) (ip ms : String) (b : Bytes) :
    (signOk np rq (splitSign (tl b)).1 = false → ∃ k i, parseSign c np rq ip ms b = .error (.err k i)) ∧
    (signOk np rq (splitSign (tl b)).1 = true →
      ∃ b', parseSign c np rq ip ms b = .ok ((splitSign (tl b)).1 == some true, b') ∧
        Adv b b' ((tl b).length - (splitSign (tl b)).2.length)) := by
  cases htl : tl b with
  | nil =>
    have hf : b.first = none := by rw [first_eq_head, htl]; rfl
    rw [parseSign_other np rq ip ms b (by rw [hf]; simp) (by rw [hf]; simp)]
    simp only [splitSign, signOk]
    cases rq <;> simp [Adv.refl]
  | cons x xs =>
    have hf : b.first = some x := by rw [first_eq_head, htl]; rfl
    by_cases h43 : x = 43
    · subst h43
      unfold parseSign
      rw [hf]
      simp only [splitSign, signOk, step_rel hd, bind, Except.bind]
      cases np <;> simp [pure, Except.pure, Adv]
    · by_cases h45 : x = 45
      · subst h45
        unfold parseSign
        rw [hf]
        simp only [splitSign, signOk, step_rel hd, bind, Except.bind]
        simp [pure, Except.pure, Adv]
      · have hsp : splitSign (x :: xs) = (none, x :: xs) := by
          unfold splitSign; split <;> simp_all
        rw [parseSign_other np rq ip ms b (by rw [hf]; simpa using h43) (by rw [hf]; simpa using h45)]
        simp only [hsp, signOk]
        cases rq <;> simp [Adv.refl]

/-- no exponent character -/
theorem exponentPhase_absent {c : Cfg} (b : Bytes) (fr : Option (List Nat)) (e : Int) :
    (c.requiredExponentNotation = true → ∃ k i, exponentPhase c false b fr e = .error (.err k i)) ∧
    (c.requiredExponentNotation = false → exponentPhase c false b fr e = .ok ⟨b, 0, e⟩) := by
  have hfmt : (c.feats.format && c.requiredExponentNotation) = c.requiredExponentNotation := by
    cases hf : c.feats.format <;> simp [Cfg.requiredExponentNotation, Cfg.flag, hf]
  unfold exponentPhase
  simp only [Bool.false_eq_true, if_false, hfmt]
  constructor
  · intro h; exact ⟨_, _, by rw [if_pos h]⟩
  · intro h; simp only [h, Bool.false_eq_true, if_false, pure, Except.pure]

/-- the value the exponent digits denote to the implementation (saturating accumulation) -/
def expValue (er : Nat) (sg : Option Bool) (eds : List Nat) : Int :=
  if (sg == some true) = true then -((foldExponent er 0 eds : Nat) : Int) else ((foldExponent er 0 eds : Nat) : Int)

/-- exponent character present (`tl b = x :: xs`, `x` the exponent character) -/
theorem exponentPhase_present {c : Cfg} (hs : Std c) (b : Bytes) (fr : Option (List Nat)) (e : Int)
    (x : Nat) (xs : List Nat) (hb : ∀ x ∈ b.slc, x < 256) (h : tl b = x :: xs) :
    let sg := (splitSign xs).1
    let eds := (takeDigits c.exponentRadix (splitSign xs).2).1
    let bad := c.noExponentNotation || (c.noExponentWithoutFraction && fr.isNone) ||
      !signOk c.noPositiveExponentSign c.requiredExponentSign sg || (c.requiredExponentDigits && eds.isEmpty)
    (bad = true → ∃ k i, exponentPhase c true b fr e = .error (.err k i)) ∧
    (bad = false → ∃ ep, exponentPhase c true b fr e = .ok ep ∧
      Adv b ep.byte (1 + (xs.length - (splitSign xs).2.length) + eds.length) ∧
      ep.explicit = expValue c.exponentRadix sg eds) := by
  intro sg eds bad
  obtain ⟨_, hlt, htl1⟩ := tl_cons h
  have hfmt1 : (c.feats.format && c.noExponentNotation) = c.noExponentNotation := by
    cases hf : c.feats.format <;> simp [Cfg.noExponentNotation, Cfg.flag, hf]
  have hfmt2 : (c.feats.format && c.noExponentWithoutFraction) = c.noExponentWithoutFraction := by
    cases hf : c.feats.format <;> simp [Cfg.noExponentWithoutFraction, Cfg.flag, hf]
  have hadv0 : Adv b { b with index := b.index + 1 } 1 := ⟨rfl, rfl⟩
  obtain ⟨hsg1, hsg2⟩ := parseSign_spec (c := c) hs.release c.noPositiveExponentSign c.requiredExponentSign
    "InvalidPositiveExponentSign" "MissingExponentSign" { b with index := b.index + 1 }
  rw [htl1] at hsg1 hsg2
  unfold exponentPhase
  simp only [if_true, step_rel hs.release, bind, Except.bind, hfmt1, hfmt2]
  by_cases h1 : c.noExponentNotation = true
  · exact ⟨fun _ => ⟨_, _, by rw [if_pos h1]⟩, fun hbad => by simp [bad, h1] at hbad⟩
  · simp only [h1, Bool.false_eq_true, if_false]
    by_cases h2 : (c.noExponentWithoutFraction && fr.isNone) = true
    · exact ⟨fun _ => ⟨_, _, by rw [if_pos h2]⟩, fun hbad => by simp [bad, h2] at hbad⟩
    · simp only [h2, Bool.false_eq_true, if_false]
      cases h3 : signOk c.noPositiveExponentSign c.requiredExponentSign sg with
      | false =>
        obtain ⟨k, i, he⟩ := hsg1 h3
        refine ⟨fun _ => ⟨k, i, ?_⟩, fun hbad => by simp [bad, h3] at hbad⟩
        simp only [parseExponentSign, he]
      | true =>
        obtain ⟨b1, he, ha1⟩ := hsg2 h3
        obtain ⟨b2, hpd, ha2⟩ := parseDigits_run hs.nosep hs.release .exponent c.exponentRadix hs.expRadix b1
          (by rw [ha1.1]; exact hb)
        have htl2 : tl b1 = (splitSign xs).2 := by
          rw [ha1.tl, htl1]; exact (splitSign_rest xs).1.symm
        rw [htl2] at hpd ha2
        have hcnt : b2.currentCount c - b1.currentCount c = eds.length := by
          show _ = (takeDigits c.exponentRadix (splitSign xs).2).1.length
          rw [hs.nosep.count, hs.nosep.count, ha2.2]; omega
        have hempty : decide (eds.length = 0) = eds.isEmpty := by cases eds <;> simp
        simp only [parseExponentSign, he, hpd, hcnt, hempty]
        by_cases h4 : (c.requiredExponentDigits && eds.isEmpty) = true
        · exact ⟨fun _ => ⟨_, _, by rw [if_pos h4]⟩, fun hbad => by simp [bad, h4] at hbad⟩
        · refine ⟨fun hbad => ?_, fun _ => ⟨⟨b2, expValue c.exponentRadix sg eds, e + expValue c.exponentRadix sg eds⟩,
            by simp only [h4, Bool.false_eq_true, if_false, pure, Except.pure, expValue]; rfl, ?_, rfl⟩⟩
          · simp [bad, h1, h2, h3, h4] at hbad
          · have := (hadv0.trans ha1).trans ha2
            simpa [Nat.add_assoc] using this
end LexVerif.Proof.Grammar
