import LexVerif.Proof.RoundNECell
import LexVerif.Proof.RoundNEDecode
/-!
# Proof.AlgoRound — how an algorithm shows that its result is `roundNE`

The moderate-path algorithms all end the same way: a significand `q0` (hidden bit included) obtained by
rounding a scaled quotient half-to-even, placed at exponent field `k + 1` (`k = 0`: subnormal or the
first binade).  `roundNE_of_q0` / `roundNE_of_scaled` turn exactly that into `roundNE`.
Mathlib-free.
-/
namespace LexVerif.Proof.RoundNE
open LexVerif.Spec

/-- `m · base^e` (`e : Int`) as a fraction `(num, den)` -/
def powFrac (base : Nat) (e : Int) (m : Nat) : Nat × Nat :=
  if e ≥ 0 then (m * base ^ e.toNat, 1) else (m, base ^ (-e).toNat)

/-- the encoding `k·2^(p−1) + q0`, clamped at infinity -/
def encode (f : Fmt) (k q0 : Nat) : Nat :=
  if f.infBits ≤ k * 2 ^ (f.p - 1) + q0 then f.infBits else k * 2 ^ (f.p - 1) + q0

/-- **Lemma A.** If `q0` is a half-to-even rounding of `num·2^L / (den·2^k)` (the four `s` facts) with
`q0 ≤ 2^p`, and `k > 0` only for values of at least `2^(p−1)` units, then `roundNE` is the encoding. -/
theorem roundNE_of_q0 {f : Fmt} (hf : WF f) {num den : Nat} (hd : den ≠ 0) (k q0 : Nat)
    (h1 : 0 < k → 2 ^ (f.p - 1) ≤ q0) (h2 : q0 ≤ 2 * 2 ^ (f.p - 1))
    (s1 : 2 * (den * 2 ^ k * q0) ≤ 2 * (num * 2 ^ L f) + den * 2 ^ k)
    (s2 : 2 * (num * 2 ^ L f) ≤ 2 * (den * 2 ^ k * q0) + den * 2 ^ k)
    (s3 : 2 * (den * 2 ^ k * q0) = 2 * (num * 2 ^ L f) + den * 2 ^ k → q0 % 2 = 0)
    (s4 : 2 * (num * 2 ^ L f) = 2 * (den * 2 ^ k * q0) + den * 2 ^ k → q0 % 2 = 0)
    (hA : 0 < k → den * 2 ^ k * 2 ^ (f.p - 1) ≤ num * 2 ^ L f) :
    roundNE f num den = encode f k q0 := by
  apply roundNE_unique hf hd
  obtain ⟨c1, c2, c3, c4⟩ := cell_r0 hf (num * 2 ^ L f) den k q0 h1 h2 s1 s2 s3 s4 hA
  unfold encode
  generalize num * 2 ^ L f = N at *
  generalize k * 2 ^ (f.p - 1) + q0 = r0 at *
  split
  · rename_i hinf
    refine ⟨Nat.le_refl _, ?_, fun _ _ => infBits_even hf, fun h => absurd h (Nat.lt_irrefl _),
      fun h => absurd h (Nat.lt_irrefl _)⟩
    intro h0
    have hM := M_ge hf
    have hr0 : r0 ≠ 0 := by omega
    refine Nat.le_trans (Nat.mul_le_mul_left den (Nat.add_le_add ?_ ?_)) (c3 hr0)
    · exact ival_mono f (by omega)
    · exact ival_mono f hinf
  · rename_i hinf
    exact ⟨by omega, c3, c4, fun _ => c1, fun _ => c2⟩

/-- **Lemma B.** The same with the quotient given up to a common factor `C`:
`num·2^L = n0·C`, `den·2^k = d0·C`, `q0 = rhe n0 d0`. -/
theorem roundNE_of_scaled {f : Fmt} (hf : WF f) {num den : Nat} (hd : den ≠ 0) (k n0 d0 C : Nat)
    (hC : 0 < C) (hd0 : 0 < d0)
    (hN : num * 2 ^ L f = n0 * C) (hD : den * 2 ^ k = d0 * C)
    (h1 : 0 < k → 2 ^ (f.p - 1) ≤ rhe n0 d0) (h2 : rhe n0 d0 ≤ 2 * 2 ^ (f.p - 1))
    (hA : 0 < k → d0 * 2 ^ (f.p - 1) ≤ n0) :
    roundNE f num den = encode f k (rhe n0 d0) := by
  obtain ⟨s1, s2, s3, s4⟩ := rhe_spec n0 hd0
  generalize rhe n0 d0 = q0 at *
  have e1 : den * 2 ^ k * q0 = C * (d0 * q0) := by rw [hD]; ac_rfl
  have e2 : d0 * C = C * d0 := Nat.mul_comm _ _
  have e3 : n0 * C = C * n0 := Nat.mul_comm _ _
  apply roundNE_of_q0 hf hd k q0 h1 h2
  · rw [hN, e1, hD, e2, e3, ← Nat.mul_assoc 2, Nat.mul_comm 2 C, Nat.mul_assoc C, ← Nat.mul_assoc 2 C,
      Nat.mul_comm 2 C, Nat.mul_assoc C 2, ← Nat.mul_add]
    exact Nat.mul_le_mul_left C s1
  · rw [hN, e1, hD, e2, e3, ← Nat.mul_assoc 2, Nat.mul_comm 2 C, Nat.mul_assoc C, ← Nat.mul_assoc 2 C,
      Nat.mul_comm 2 C, Nat.mul_assoc C 2, ← Nat.mul_add]
    exact Nat.mul_le_mul_left C s2
  · intro h; apply s3
    rw [hN, e1, hD, e2, e3, ← Nat.mul_assoc 2, Nat.mul_comm 2 C, Nat.mul_assoc C, ← Nat.mul_assoc 2 C,
      Nat.mul_comm 2 C, Nat.mul_assoc C 2, ← Nat.mul_add] at h
    exact Nat.eq_of_mul_eq_mul_left hC h
  · intro h; apply s4
    rw [hN, e1, hD, e2, e3, ← Nat.mul_assoc 2, Nat.mul_comm 2 C, Nat.mul_assoc C, ← Nat.mul_assoc 2 C,
      Nat.mul_comm 2 C, Nat.mul_assoc C 2, ← Nat.mul_add] at h
    exact Nat.eq_of_mul_eq_mul_left hC h
  · intro hk
    rw [hN, hD, Nat.mul_right_comm, e3, Nat.mul_comm _ C]
    exact Nat.mul_le_mul_left C (hA hk)

/-- `rhe` of a dyadic quotient, in the words of the algorithms: truncate `s` bits, look at the
truncated bits relative to `2^(s−1)` and at the parity -/
theorem rhe_pow2 (m s : Nat) (hs : 0 < s) :
    rhe m (2 ^ s) =
      m / 2 ^ s + (if m % 2 ^ s > 2 ^ (s - 1) ∨ (m % 2 ^ s = 2 ^ (s - 1) ∧ m / 2 ^ s % 2 = 1) then 1 else 0) := by
  have e : 2 ^ s = 2 * 2 ^ (s - 1) := by
    rw [← Nat.pow_succ']; congr 1; omega
  unfold rhe
  generalize m % 2 ^ s = r
  generalize m / 2 ^ s = a
  rw [e]
  generalize 2 ^ (s - 1) = h
  by_cases c : 2 * r > 2 * h ∨ 2 * r = 2 * h ∧ a % 2 = 1
  · rw [if_pos c, if_pos (by omega)]
  · rw [if_neg c, if_neg (by omega)]; rfl

/-- `rhe` read off a division with remainder -/
theorem rhe_of_split (a ρ D : Nat) (hρ : ρ < D) :
    rhe (D * a + ρ) D = if 2 * ρ > D ∨ (2 * ρ = D ∧ a % 2 = 1) then a + 1 else a := by
  have hD : 0 < D := by omega
  unfold rhe
  rw [Nat.mul_add_div hD, Nat.div_eq_of_lt hρ, Nat.add_zero, Nat.mul_add_mod, Nat.mod_eq_of_lt hρ]

/-- splitting `m·c + r` by `2^s·c` -/
theorem sticky_split (m s c r : Nat) :
    m * c + r = (2 ^ s * c) * (m / 2 ^ s) + (m % 2 ^ s * c + r) := by
  have hdm := Nat.div_add_mod m (2 ^ s)
  conv => lhs; rw [← hdm]
  rw [Nat.add_mul, Nat.mul_right_comm, Nat.add_assoc]

/-- a quotient with a non-zero sticky part on top of a dyadic half-way point rounds up:
`n0 = m·c + r`, `0 < r < c`, `m % 2^s = 2^(s−1)` ⇒ `rhe n0 (2^s·c) = m / 2^s + 1` -/
theorem rhe_sticky_half (m s c r : Nat) (hs : 0 < s) (hr0 : 0 < r) (hr : r < c)
    (hhalf : m % 2 ^ s = 2 ^ (s - 1)) : rhe (m * c + r) (2 ^ s * c) = m / 2 ^ s + 1 := by
  have e : 2 ^ s = 2 * 2 ^ (s - 1) := by
    rw [← Nat.pow_succ']; congr 1; omega
  rw [sticky_split m s c r, hhalf]
  have eD : 2 ^ s * c = 2 * (2 ^ (s - 1) * c) := by rw [e, Nat.mul_assoc]
  rw [eD]
  have hcH : c ≤ 2 ^ (s - 1) * c := Nat.le_mul_of_pos_left c (Nat.two_pow_pos _)
  generalize 2 ^ (s - 1) * c = H at *
  rw [rhe_of_split _ _ _ (by omega), if_pos (by omega)]

/-- the same with a sticky part of up to `g ≤ 2^(s−1)` units (a significand that was shifted left by
`log2 g` bits before the truncated digits are accounted for) -/
theorem rhe_sticky_half_wide (m s c r g : Nat) (hs : 0 < s) (hr0 : 0 < r) (hr : r < g * c)
    (hg : g ≤ 2 ^ (s - 1)) (hhalf : m % 2 ^ s = 2 ^ (s - 1)) :
    rhe (m * c + r) (2 ^ s * c) = m / 2 ^ s + 1 := by
  have e : 2 ^ s = 2 * 2 ^ (s - 1) := by
    rw [← Nat.pow_succ']; congr 1; omega
  rw [sticky_split m s c r, hhalf]
  have eD : 2 ^ s * c = 2 * (2 ^ (s - 1) * c) := by rw [e, Nat.mul_assoc]
  rw [eD]
  have hgc : g * c ≤ 2 ^ (s - 1) * c := Nat.mul_le_mul_right c hg
  generalize 2 ^ (s - 1) * c = H at *
  rw [rhe_of_split _ _ _ (by omega), if_pos (by omega)]

/-- sticky part below the half-way point rounds down -/
theorem rhe_sticky_below (m s c r : Nat) (hs : 0 < s) (hr : r < c)
    (hlow : m % 2 ^ s < 2 ^ (s - 1)) : rhe (m * c + r) (2 ^ s * c) = m / 2 ^ s := by
  have e : 2 ^ s = 2 * 2 ^ (s - 1) := by
    rw [← Nat.pow_succ']; congr 1; omega
  have h1 : (m % 2 ^ s + 1) * c ≤ 2 ^ (s - 1) * c := Nat.mul_le_mul_right c hlow
  rw [Nat.add_mul, Nat.one_mul] at h1
  rw [sticky_split m s c r]
  have eD : 2 ^ s * c = 2 * (2 ^ (s - 1) * c) := by rw [e, Nat.mul_assoc]
  rw [eD]
  generalize 2 ^ (s - 1) * c = H at *
  generalize m % 2 ^ s * c = X at *
  rw [rhe_of_split _ _ _ (by omega), if_neg (by omega)]

/-- sticky part above the half-way point rounds up -/
theorem rhe_sticky_above (m s c r : Nat) (hs : 0 < s) (hr : r < c)
    (hhigh : m % 2 ^ s > 2 ^ (s - 1)) : rhe (m * c + r) (2 ^ s * c) = m / 2 ^ s + 1 := by
  have e : 2 ^ s = 2 * 2 ^ (s - 1) := by
    rw [← Nat.pow_succ']; congr 1; omega
  have hml := Nat.mod_lt m (Nat.two_pow_pos s)
  have h1 : (2 ^ (s - 1) + 1) * c ≤ m % 2 ^ s * c := Nat.mul_le_mul_right c hhigh
  have h2 : (m % 2 ^ s + 1) * c ≤ 2 ^ s * c := Nat.mul_le_mul_right c hml
  rw [Nat.add_mul, Nat.one_mul] at h1 h2
  rw [sticky_split m s c r]
  have eD : 2 ^ s * c = 2 * (2 ^ (s - 1) * c) := by rw [e, Nat.mul_assoc]
  rw [eD] at h2 ⊢
  generalize 2 ^ (s - 1) * c = H at *
  generalize m % 2 ^ s * c = X at *
  rw [rhe_of_split _ _ _ (by omega), if_pos (by omega)]

end LexVerif.Proof.RoundNE
