import LexVerif.Proof.SepGen8
/-!
# Proof.SepLocal1 — the separator predicates look only at a small neighbourhood: replacing a neighbour that is neither
digit nor separator by "no neighbour" (what the re-scan of a stored slice sees at the slice boundary) never turns a skip
decision into a non-skip — except for I+T+C (`Pred.itc`, the recorded defect; with the repair `Fix.itc` also there)
-/
set_option linter.unusedSimpArgs false
namespace LexVerif.Proof.Sep
open LexVerif LexVerif.Model LexVerif.Spec
open LexVerif.Props.C12

/-- `o'` is what the re-scan sees where the first pass saw `o`: the same, or nothing instead of a byte that is neither
digit nor separator -/
def Weaker (c : Cfg) (o' o : Option Nat) : Prop :=
  o' = o ∨ (o' = none ∧ ∀ y, o = some y → c.isDigit y = false ∧ c.isSep y = false)

theorem Weaker.refl (c : Cfg) (o : Option Nat) : Weaker c o o := Or.inl rfl

theorem weaker_cases (c : Cfg) {o' o : Option Nat} (h : Weaker c o' o) :
    o' = o ∨ (o' = none ∧ o = none) ∨ (o' = none ∧ ∃ y, o = some y ∧ c.isDigit y = false ∧ c.isSep y = false) := by
  rcases h with h | ⟨h1, h2⟩
  · exact Or.inl h
  · cases o with
    | none => exact Or.inr (Or.inl ⟨h1, rfl⟩)
    | some y => exact Or.inr (Or.inr ⟨h1, y, rfl, h2 y rfl⟩)

/-- **monotonicity of the skip decision** under `Weaker` neighbours, for every predicate but I+T+C -/
theorem holds_weaker (c : Cfg) (p : Pred) (hp : p ≠ .itc ∨ Fix.itc = true) (first : Bool) (n n' : Nbr)
    (h1 : Weaker c n'.prev n.prev) (h2 : Weaker c n'.next n.next) (h3 : Weaker c n'.prevc n.prevc)
    (h4 : Weaker c n'.nextc n.nextc) (h : p.holds c n first = true) : p.holds c n' first = true := by
  obtain ⟨p1, x1, pc1, xc1⟩ := n
  obtain ⟨p2, x2, pc2, xc2⟩ := n'
  simp only at h1 h2 h3 h4
  rcases weaker_cases c h1 with rfl | ⟨rfl, rfl⟩ | ⟨rfl, y1, rfl, hd1, hs1⟩ <;>
  rcases weaker_cases c h2 with rfl | ⟨rfl, rfl⟩ | ⟨rfl, y2, rfl, hd2, hs2⟩ <;>
  rcases weaker_cases c h3 with rfl | ⟨rfl, rfl⟩ | ⟨rfl, y3, rfl, hd3, hs3⟩ <;>
  rcases weaker_cases c h4 with rfl | ⟨rfl, rfl⟩ | ⟨rfl, y4, rfl, hd4, hs4⟩ <;>
  cases p <;> cases first <;>
  first
    | exact h
    | (rcases hp with hp | hp
       · exact absurd rfl hp
       · simp only [Pred.holds, hp, if_true] at h ⊢
         simp_all)
    | (simp only [Pred.holds, Option.any_some, Option.any_none, Option.all_some, Option.all_none, Bool.and_true,
        Bool.true_and, Bool.and_false, Bool.false_and, Bool.not_false, Bool.not_true, Bool.or_false, Bool.false_or,
        Bool.or_true, Bool.true_or, Bool.false_eq_true, if_false, if_true, *] at h ⊢
       <;> first | exact h | simp_all)

end LexVerif.Proof.Sep
