import LexVerif.Model.Dragonbox
import LexVerif.Proof.DragonboxArith
/-!
# Proof.DragonboxBits — the three cache-multiplication kernels as floors / parity / "fraction is tiny"

With `φ` the cache entry (`hi·2^64 + lo` for f64, the single `u64` for f32), `c = φ·2^β` and `d = 2^128`
(f64) resp. `d = 2^64` (f32):

* `computeMul t (n·2^β) pow5 = (⌊n·c/d⌋, n·c mod d < √d)`;
* `computeMulParity t n pow5 β = (⌊n·c/d⌋ odd, n·c mod d < √d)`;
* `computeDelta t pow5 β = ⌊2·c/d⌋`.

Everything is proved for a general `β` (no case split), from the slice lemmas of `Proof.DragonboxArith`.
-/
namespace LexVerif.Proof.DragonboxBits
open LexVerif.Model.Dragonbox
open LexVerif.Proof.DragonboxArith

/-- cache width -/
def _root_.LexVerif.Model.Dragonbox.FTy.qb : FTy → Nat | .f32 => 64 | .f64 => 128
/-- the cache entry as one number -/
def phiOf : FTy → Nat × Nat → Nat | .f32, p => p.1 | .f64, p => p.1 * 2 ^ 64 + p.2

/-! ## the `Int` shift amounts -/

theorem shamt_id {β : Nat} (h : β ≤ 63) : (((β : Int)) % 64).toNat = β := by omega
theorem shamt_64_sub {β : Nat} (h1 : 1 ≤ β) (h2 : β ≤ 63) : ((64 - (β : Int)) % 64).toNat = 64 - β := by omega
theorem shamt_32_sub {β : Nat} (h2 : β ≤ 32) : ((32 - (β : Int)) % 64).toNat = 32 - β := by omega
theorem shamt_63_sub {β : Nat} (h2 : β ≤ 63) : ((64 - 1 - (β : Int)) % 64).toNat = 63 - β := by omega

theorem shr64_64_sub {x β : Nat} (h1 : 1 ≤ β) (h2 : β ≤ 63) : shr64 x (64 - (β : Int)) = x / 2 ^ (64 - β) := by
  unfold shr64; rw [shamt_64_sub h1 h2, Nat.shiftRight_eq_div_pow]
theorem shr64_32_sub {x β : Nat} (h2 : β ≤ 32) : shr64 x (32 - (β : Int)) = x / 2 ^ (32 - β) := by
  unfold shr64; rw [shamt_32_sub h2, Nat.shiftRight_eq_div_pow]
theorem shr64_63_sub {x β : Nat} (h2 : β ≤ 63) : shr64 x (64 - 1 - (β : Int)) = x / 2 ^ (63 - β) := by
  unfold shr64; rw [shamt_63_sub h2, Nat.shiftRight_eq_div_pow]
theorem shl64_nat {x β : Nat} (h : β ≤ 63) : shl64 x (β : Int) = x * 2 ^ β % 2 ^ 64 := by
  unfold shl64 u64; rw [shamt_id h, Nat.shiftLeft_eq]

/-! ## powers of two -/

theorem pow_split {N β : Nat} (h : β ≤ N) : 2 ^ N = 2 ^ (N - β) * 2 ^ β := by
  rw [← Nat.pow_add]; congr 1; omega

/-- `⌊P·2^β / 2^N⌋ = ⌊P / 2^(N-β)⌋` -/
theorem mul_pow_div {P β N : Nat} (h : β ≤ N) : P * 2 ^ β / 2 ^ N = P / 2 ^ (N - β) := by
  rw [pow_split h, Nat.mul_div_mul_right _ _ (Nat.two_pow_pos β)]

/-- `P·2^β mod 2^N < 2^M ↔ P mod 2^(N-β) < 2^(M-β)` -/
theorem mul_pow_mod_lt {P β N M : Nat} (hM : β ≤ M) (hN : β ≤ N) :
    P * 2 ^ β % 2 ^ N < 2 ^ M ↔ P % 2 ^ (N - β) < 2 ^ (M - β) := by
  rw [pow_split hN, pow_split hM, Nat.mul_mod_mul_right]
  exact Nat.mul_lt_mul_right (Nat.two_pow_pos β)

/-- bit `j` of `x mod 2^N` is bit `j` of `x` for `j < N` -/
theorem mod_pow_div_mod2 {x j N : Nat} (h : j < N) : x % 2 ^ N / 2 ^ j % 2 = x / 2 ^ j % 2 := by
  have hd : 2 ^ j * 2 ∣ 2 ^ N := by
    rw [← Nat.pow_succ]; exact Nat.pow_dvd_pow 2 h
  rw [← Nat.mod_mul_right_div_self, ← Nat.mod_mul_right_div_self, Nat.mod_mod_of_dvd _ hd]

/-- a lower slice of `x mod 2^N` is the slice of `x` -/
theorem mod_pow_mod {x j N : Nat} (h : j ≤ N) : x % 2 ^ N % 2 ^ j = x % 2 ^ j :=
  Nat.mod_mod_of_dvd _ (Nat.pow_dvd_pow 2 h)

theorem mul_reassoc (n φ β : Nat) : n * 2 ^ β * φ = n * (φ * 2 ^ β) := by
  rw [Nat.mul_assoc, Nat.mul_comm (2 ^ β) φ]

/-! ## how the model forms the multiplier arguments -/

theorem shl64_one {m : Nat} (h : 2 * m < 2 ^ 64) : shl64 m 1 = 2 * m := by
  have h1 : ((1 : Int) % 64).toNat = 1 := by decide
  unfold shl64 u64
  rw [h1, Nat.shiftLeft_eq]
  omega

theorem twoFc_or_one {m β : Nat} (hβ : β ≤ 63) (h : (2 * m + 1) * 2 ^ β < 2 ^ 64) :
    shl64 (shl64 m 1 ||| 1) (β : Int) = (2 * m + 1) * 2 ^ β := by
  have hp : 1 ≤ 2 ^ β := Nat.two_pow_pos β
  have hm : 2 * m < 2 ^ 64 := by
    have : (2 * m + 1) * 1 ≤ (2 * m + 1) * 2 ^ β := Nat.mul_le_mul_left _ hp
    omega
  have hor : 2 * m ||| 1 = 2 * m + 1 := by
    have := Nat.two_pow_add_eq_or_of_lt (i := 1) (b := 1) (by decide) m
    simpa using this.symm
  rw [shl64_one hm, hor, shl64_nat hβ, Nat.mod_eq_of_lt h]

theorem sub64_one {x : Nat} (h1 : 1 ≤ x) (h : x < 2 ^ 64) : sub64 x 1 = x - 1 := by
  unfold sub64 u64; omega
theorem sub64_eq {a b : Nat} (hba : b ≤ a) (ha : a < 2 ^ 64) : sub64 a b = a - b := by
  unfold sub64 u64; omega
theorem sub32_eq {a b : Nat} (hba : b ≤ a) (ha : a < 2 ^ 32) : sub32 a b = a - b := by
  unfold sub32 u32; omega

/-! ## f64 -/

theorem computeMul_f64 {n hi lo β : Nat} (hh : hi < 2 ^ 64) (hl : lo < 2 ^ 64) (hu : n * 2 ^ β < 2 ^ 64) :
    computeMul .f64 (n * 2 ^ β) (hi, lo)
      = (n * ((hi * 2 ^ 64 + lo) * 2 ^ β) / 2 ^ 128,
         decide (n * ((hi * 2 ^ 64 + lo) * 2 ^ β) % 2 ^ 128 < 2 ^ 64)) := by
  unfold computeMul
  simp only [umul192Upper128_eq hu hh hl, mul_reassoc]
  generalize n * ((hi * 2 ^ 64 + lo) * 2 ^ β) = X
  congr 1
  apply decide_eq_decide.mpr
  omega

theorem computeMulParity_f64 {n hi lo β : Nat} (hβ1 : 1 ≤ β) (hβ2 : β ≤ 63) (hn : n < 2 ^ 64)
    (hh : hi < 2 ^ 64) (hl : lo < 2 ^ 64) :
    computeMulParity .f64 n (hi, lo) (β : Int)
      = (decide (n * ((hi * 2 ^ 64 + lo) * 2 ^ β) / 2 ^ 128 % 2 = 1),
         decide (n * ((hi * 2 ^ 64 + lo) * 2 ^ β) % 2 ^ 128 < 2 ^ 64)) := by
  have _ := hh
  have hsum := umul192Lower128_eq (yhi := hi) hn hl
  have hlo : (umul192Lower128 n hi lo).2 < 2 ^ 64 := by
    rw [umul192Lower128_lo hn hl]; exact Nat.mod_lt _ (by decide)
  rw [← Nat.mul_assoc n]
  generalize n * (hi * 2 ^ 64 + lo) = P at *
  -- the two halves of `P mod 2^128`
  have hrhi : (umul192Lower128 n hi lo).1 = P % 2 ^ 128 / 2 ^ 64 := by omega
  have hrlo : (umul192Lower128 n hi lo).2 = P % 2 ^ 128 % 2 ^ 64 := by omega
  unfold computeMulParity
  simp only [shr64_64_sub hβ1 hβ2, shl64_nat hβ2, Nat.and_one_is_mod, hrhi, hrlo]
  have hk : 2 ^ (64 - β) < 2 ^ 64 := Nat.pow_lt_pow_right (by decide) (by omega)
  have hkp : 0 < 2 ^ (64 - β) := Nat.two_pow_pos _
  congr 1
  · -- parity
    apply decide_eq_decide.mpr
    rw [mul_pow_div (show β ≤ 128 by omega), Nat.div_div_eq_div_mul, ← Nat.pow_add,
      show 64 + (64 - β) = 128 - β by omega, mod_pow_div_mod2 (show 128 - β < 128 by omega)]
    omega
  · -- integrality
    apply decide_eq_decide.mpr
    rw [mul_pow_mod_lt (show β ≤ 64 by omega) (show β ≤ 128 by omega), Nat.or_eq_zero_iff]
    rw [← mod_pow_mod (x := P) (show 128 - β ≤ 128 by omega)]
    generalize P % 2 ^ 128 = R
    have h2 : (2 : Nat) ^ (128 - β) = 2 ^ 64 * 2 ^ (64 - β) := by
      rw [← Nat.pow_add]; congr 1; omega
    rw [h2, Nat.mod_mul]
    have h3 : R / 2 ^ 64 * 2 ^ β % 2 ^ 64 = R / 2 ^ 64 % 2 ^ (64 - β) * 2 ^ β := by
      rw [pow_split (show β ≤ 64 by omega), Nat.mul_mod_mul_right]
    rw [h3, Nat.mul_eq_zero, Nat.div_eq_zero_iff]
    have hβp : 0 < 2 ^ β := Nat.two_pow_pos β
    have hlt : R % 2 ^ 64 < 2 ^ 64 := Nat.mod_lt _ (by decide)
    generalize R / 2 ^ 64 % 2 ^ (64 - β) = t
    generalize R % 2 ^ 64 = l at *
    generalize 2 ^ (64 - β) = c at *
    generalize 2 ^ β = b at *
    omega

theorem computeDelta_f64 {hi lo β : Nat} (hβ : β ≤ 63) (hl : lo < 2 ^ 64)
    (hs : 2 * ((hi * 2 ^ 64 + lo) * 2 ^ β) / 2 ^ 128 < 2 ^ 32) :
    computeDelta .f64 (hi, lo) (β : Int) = 2 * ((hi * 2 ^ 64 + lo) * 2 ^ β) / 2 ^ 128 := by
  have he : 2 * ((hi * 2 ^ 64 + lo) * 2 ^ β) / 2 ^ 128 = hi / 2 ^ (63 - β) := by
    rw [Nat.mul_comm 2, Nat.mul_assoc, ← Nat.pow_succ, mul_pow_div (show β + 1 ≤ 128 by omega),
      show 128 - (β + 1) = 64 + (63 - β) by omega, Nat.pow_add, ← Nat.div_div_eq_div_mul]
    congr 1; omega
  rw [he] at hs ⊢
  unfold computeDelta u32
  simp only [shr64_63_sub hβ]
  exact Nat.mod_eq_of_lt hs

/-! ## f32 (the second component of the pair is ignored by the model) -/

theorem computeMul_f32 {n φ l β : Nat} (hφ : φ < 2 ^ 64) (hu : n * 2 ^ β < 2 ^ 32) :
    computeMul .f32 (n * 2 ^ β) (φ, l)
      = (n * (φ * 2 ^ β) / 2 ^ 64, decide (n * (φ * 2 ^ β) % 2 ^ 64 < 2 ^ 32)) := by
  unfold computeMul u32
  simp only [umul96Upper64_eq hu hφ, mul_reassoc, Nat.shiftRight_eq_div_pow]
  generalize n * (φ * 2 ^ β) = X
  congr 1
  · omega
  · apply decide_eq_decide.mpr
    omega

theorem computeMulParity_f32 {n φ l β : Nat} (hβ1 : 1 ≤ β) (hβ2 : β ≤ 31) :
    computeMulParity .f32 n (φ, l) (β : Int)
      = (decide (n * (φ * 2 ^ β) / 2 ^ 64 % 2 = 1), decide (n * (φ * 2 ^ β) % 2 ^ 64 < 2 ^ 32)) := by
  rw [← Nat.mul_assoc n]
  unfold computeMulParity
  simp only [umul96Lower64_eq, shr64_64_sub hβ1 (show β ≤ 63 by omega), shr64_32_sub (show β ≤ 32 by omega),
    Nat.and_one_is_mod]
  generalize n * φ = P
  congr 1
  · -- parity
    apply decide_eq_decide.mpr
    rw [mul_pow_div (show β ≤ 64 by omega), mod_pow_div_mod2 (show 64 - β < 64 by omega)]
    omega
  · -- integrality
    apply decide_eq_decide.mpr
    rw [mul_pow_mod_lt (show β ≤ 32 by omega) (show β ≤ 64 by omega),
      ← mod_pow_mod (x := P) (show 64 - β ≤ 64 by omega)]
    generalize P % 2 ^ 64 = r
    rw [Nat.and_comm, show (0xFFFFFFFF : Nat) = 2 ^ 32 - 1 by decide, Nat.and_two_pow_sub_one_eq_mod,
      ← Nat.mod_mul_right_div_self, Nat.div_eq_zero_iff, ← Nat.pow_add,
      show 32 - β + 32 = 64 - β by omega]
    have : 0 < 2 ^ (32 - β) := Nat.two_pow_pos _
    omega

theorem computeDelta_f32 {φ l β : Nat} (hβ : β ≤ 63) (hs : 2 * (φ * 2 ^ β) / 2 ^ 64 < 2 ^ 32) :
    computeDelta .f32 (φ, l) (β : Int) = 2 * (φ * 2 ^ β) / 2 ^ 64 := by
  have he : 2 * (φ * 2 ^ β) / 2 ^ 64 = φ / 2 ^ (63 - β) := by
    rw [Nat.mul_comm 2, Nat.mul_assoc, ← Nat.pow_succ, mul_pow_div (show β + 1 ≤ 64 by omega),
      show 64 - (β + 1) = 63 - β by omega]
  rw [he] at hs ⊢
  unfold computeDelta u32
  simp only [shr64_63_sub hβ]
  exact Nat.mod_eq_of_lt hs

/-! ## both types at once -/

theorem computeMul_eq (t : FTy) (pow5 : Nat × Nat) (h1 : pow5.1 < 2 ^ 64) (h2 : pow5.2 < 2 ^ 64) {n β : Nat}
    (hu : n * 2 ^ β < 2 ^ (t.qb / 2)) :
    computeMul t (n * 2 ^ β) pow5
      = (n * (phiOf t pow5 * 2 ^ β) / 2 ^ t.qb,
         decide (n * (phiOf t pow5 * 2 ^ β) % 2 ^ t.qb < 2 ^ (t.qb / 2))) := by
  obtain ⟨a, b⟩ := pow5
  cases t
  · exact computeMul_f32 h1 hu
  · exact computeMul_f64 h1 h2 hu

theorem computeMulParity_eq (t : FTy) (pow5 : Nat × Nat) (h1 : pow5.1 < 2 ^ 64) (h2 : pow5.2 < 2 ^ 64)
    {n β : Nat} (hβ1 : 1 ≤ β) (hβ2 : β ≤ 31) (hn : n < 2 ^ 64) :
    computeMulParity t n pow5 (β : Int)
      = (decide (n * (phiOf t pow5 * 2 ^ β) / 2 ^ t.qb % 2 = 1),
         decide (n * (phiOf t pow5 * 2 ^ β) % 2 ^ t.qb < 2 ^ (t.qb / 2))) := by
  obtain ⟨a, b⟩ := pow5
  cases t
  · exact computeMulParity_f32 hβ1 hβ2
  · exact computeMulParity_f64 hβ1 (by omega) hn h1 h2

theorem computeDelta_eq (t : FTy) (pow5 : Nat × Nat) (h2 : pow5.2 < 2 ^ 64) {β : Nat} (hβ : β ≤ 63)
    (hs : 2 * (phiOf t pow5 * 2 ^ β) / 2 ^ t.qb < 2 ^ 32) :
    computeDelta t pow5 (β : Int) = 2 * (phiOf t pow5 * 2 ^ β) / 2 ^ t.qb := by
  obtain ⟨a, b⟩ := pow5
  cases t
  · exact computeDelta_f32 hβ hs
  · exact computeDelta_f64 hβ h2 hs

/-! ## non-vacuity: one instance (the cache entry of `10^0` is `2^127`, `β = 3`, `n = 2·2^52 + 1`) -/

example :
    computeMul .f64 ((2 * 2 ^ 52 + 1) * 2 ^ 3) (2 ^ 63, 0)
      = ((2 * 2 ^ 52 + 1) * ((2 ^ 63 * 2 ^ 64 + 0) * 2 ^ 3) / 2 ^ 128,
         decide ((2 * 2 ^ 52 + 1) * ((2 ^ 63 * 2 ^ 64 + 0) * 2 ^ 3) % 2 ^ 128 < 2 ^ 64)) :=
  computeMul_f64 (by decide) (by decide) (by decide)

example : computeMul .f64 ((2 * 2 ^ 52 + 1) * 2 ^ 3) (2 ^ 63, 0) = (36028797018963972, true) := by
  rw [computeMul_f64 (by decide) (by decide) (by decide)]; decide

example : computeMulParity .f64 (2 * 2 ^ 52 + 1) (2 ^ 63, 0) ((3 : Nat) : Int) = (false, true) := by
  rw [computeMulParity_f64 (by decide) (by decide) (by decide) (by decide) (by decide)]; decide

end LexVerif.Proof.DragonboxBits
