import Mathlib.Tactic.Ring
import Mathlib.Tactic.Linarith
/-!
# Proof.GrisuCore — error analysis of the three rounded products of `grisu` (pure `Nat`)

`c̃` is the cached 64-bit significand, `cn/cd` the exact value it approximates (`|c̃ − cn/cd| ≤ 1/2`), `x` a normalised
64-bit boundary; `rnd x = ⌊(x·c̃ + 2^63)/2^64⌋` is what `mul` returns.  Then `rnd x − 1 < x·c/2^64 < rnd x + 1`
(`prod_lower`, `prod_upper`), so the shrunk interval `[rnd lo + 1, rnd hi − 1]` lies strictly inside the true scaled one.
-/
namespace LexVerif.Proof.GrisuCore

def rnd (x c : Nat) : Nat := (x * c + 2 ^ 63) / 2 ^ 64

theorem rnd_lo (x c : Nat) : rnd x c * 2 ^ 64 ≤ x * c + 2 ^ 63 := Nat.div_mul_le_self _ _

theorem rnd_hi (x c : Nat) : x * c + 2 ^ 63 < (rnd x c + 1) * 2 ^ 64 := by
  unfold rnd
  have := Nat.lt_mul_div_succ (x * c + 2 ^ 63) (by decide : 0 < 2 ^ 64)
  rw [Nat.mul_comm (2 ^ 64)] at this
  exact this

/-- `x·c < (rnd x c̃ + 1)·2^64` in the cross-multiplied form `x·cn < (rnd + 1)·2^64·cd` -/
theorem prod_lower {x c cn cd : Nat} (hx : x < 2 ^ 64) (hcd : 0 < cd) (h2 : 2 * cn ≤ 2 * (c * cd) + cd) :
    x * cn < (rnd x c + 1) * 2 ^ 64 * cd := by
  have h := rnd_hi x c
  have a1 : 2 * (x * cn) ≤ 2 * (x * (c * cd)) + x * cd := by
    calc 2 * (x * cn) = x * (2 * cn) := by ring
      _ ≤ x * (2 * (c * cd) + cd) := Nat.mul_le_mul_left _ h2
      _ = 2 * (x * (c * cd)) + x * cd := by ring
  have a2 : x * cd < 2 ^ 64 * cd := Nat.mul_lt_mul_of_pos_right hx hcd
  have a3 : (x * c + 2 ^ 63) * cd < (rnd x c + 1) * 2 ^ 64 * cd := Nat.mul_lt_mul_of_pos_right h hcd
  have a4 : (x * c + 2 ^ 63) * cd = x * (c * cd) + 2 ^ 63 * cd := by ring
  have a5 : 2 ^ 64 * cd = 2 * (2 ^ 63 * cd) := by ring
  omega

/-- `(rnd x c̃ − 1)·2^64 < x·c`, cross-multiplied; stated with `r + 1 = rnd` to avoid truncated subtraction -/
theorem prod_upper {x c cn cd r : Nat} (hx : x < 2 ^ 64) (hcd : 0 < cd) (h1 : 2 * (c * cd) ≤ 2 * cn + cd)
    (hr : r + 1 = rnd x c) : r * 2 ^ 64 * cd < x * cn := by
  have h := rnd_lo x c
  rw [← hr] at h
  have a1 : 2 * (x * (c * cd)) ≤ 2 * (x * cn) + x * cd := by
    calc 2 * (x * (c * cd)) = x * (2 * (c * cd)) := by ring
      _ ≤ x * (2 * cn + cd) := Nat.mul_le_mul_left _ h1
      _ = 2 * (x * cn) + x * cd := by ring
  have a2 : x * cd < 2 ^ 64 * cd := Nat.mul_lt_mul_of_pos_right hx hcd
  have a3 : (r + 1) * 2 ^ 64 * cd ≤ (x * c + 2 ^ 63) * cd := Nat.mul_le_mul_right _ h
  have a4 : (x * c + 2 ^ 63) * cd = x * (c * cd) + 2 ^ 63 * cd := by ring
  have a5 : (r + 1) * 2 ^ 64 * cd = r * 2 ^ 64 * cd + 2 * (2 ^ 63 * cd) := by ring
  omega

/-- monotone -/
theorem rnd_mono {x y c : Nat} (h : x ≤ y) : rnd x c ≤ rnd y c := by
  unfold rnd
  exact Nat.div_le_div_right (Nat.add_le_add_right (Nat.mul_le_mul_right _ h) _)

/-- a gap of `g·2^64` between the products gives a gap `≥ g` between the roundings -/
theorem rnd_gap {x y c g : Nat} (h : x * c + g * 2 ^ 64 ≤ y * c) : rnd x c + g ≤ rnd y c := by
  unfold rnd
  have : (x * c + 2 ^ 63) / 2 ^ 64 + g = (x * c + 2 ^ 63 + g * 2 ^ 64) / 2 ^ 64 := by
    rw [Nat.add_mul_div_right _ _ (by decide : 0 < 2 ^ 64)]
  rw [this]
  exact Nat.div_le_div_right (by omega)

/-! ## the shrunk interval: non-empty, contains `w`, and relatively wide (digit-count bound)

`K = 2^su·c̃` (resp. `K' = 2^(su-1)·c̃`), `M = 2m+1`; products `U0·c̃ = M·K`, `W0·c̃ = (M-1)·K`, `L0·c̃ = (M-2)·K`
(or `(2M-3)·K'` on a binade boundary).  `u, w, l` are the rounded products. -/

theorem round_facts (P : Nat) : (P + 2 ^ 63) / 2 ^ 64 * 2 ^ 64 ≤ P + 2 ^ 63
    ∧ P + 2 ^ 63 < ((P + 2 ^ 63) / 2 ^ 64 + 1) * 2 ^ 64 := by
  constructor
  · exact Nat.div_mul_le_self _ _
  · have := Nat.lt_mul_div_succ (P + 2 ^ 63) (by decide : 0 < 2 ^ 64)
    rw [Nat.mul_comm (2 ^ 64)] at this
    exact this

/-- generic form: products `PL + G ≤ PU` (gap `G`), `PW + 2^64 ≤ PU`; if the gap is not tiny relative to `PU`
(`10·PU + 3·n10·2^64 + 10·2^64 ≤ n10·G`) the shrunk interval `[l+1, u-1]` is non-empty, contains `w` and is at least
`10·(u-1)/n10` wide -/
theorem shrunk_gen {PU PW PL G n10 : Nat} (hG : PL + G ≤ PU) (hW : PW + 2 ^ 64 ≤ PU) (hG3 : 4 * 2 ^ 64 ≤ G)
    (hn : 10 * PU + 3 * n10 * 2 ^ 64 + 10 * 2 ^ 64 ≤ n10 * G) :
    (PL + 2 ^ 63) / 2 ^ 64 + 3 ≤ (PU + 2 ^ 63) / 2 ^ 64
    ∧ (PW + 2 ^ 63) / 2 ^ 64 + 1 ≤ (PU + 2 ^ 63) / 2 ^ 64
    ∧ 10 * ((PU + 2 ^ 63) / 2 ^ 64 - 1)
        ≤ n10 * ((PU + 2 ^ 63) / 2 ^ 64 - 1 - ((PL + 2 ^ 63) / 2 ^ 64 + 1)) := by
  obtain ⟨u1, u2⟩ := round_facts PU
  obtain ⟨w1, w2⟩ := round_facts PW
  obtain ⟨l1, l2⟩ := round_facts PL
  generalize (PU + 2 ^ 63) / 2 ^ 64 = u at *
  generalize (PW + 2 ^ 63) / 2 ^ 64 = w at *
  generalize (PL + 2 ^ 63) / 2 ^ 64 = l at *
  have hl3 : l + 3 ≤ u := by omega
  refine ⟨hl3, by omega, ?_⟩
  have g1 : G ≤ (u - l - 2) * 2 ^ 64 + 3 * 2 ^ 64 := by
    have : (u - l - 2) * 2 ^ 64 = u * 2 ^ 64 - l * 2 ^ 64 - 2 * 2 ^ 64 := by
      rw [Nat.sub_mul, Nat.sub_mul]
    omega
  have g2 : n10 * G ≤ n10 * ((u - l - 2) * 2 ^ 64 + 3 * 2 ^ 64) := Nat.mul_le_mul_left _ g1
  have g3 : n10 * ((u - l - 2) * 2 ^ 64 + 3 * 2 ^ 64) = n10 * (u - l - 2) * 2 ^ 64 + 3 * n10 * 2 ^ 64 := by ring
  have e5 : u - 1 - (l + 1) = u - l - 2 := by omega
  rw [e5]
  refine Nat.le_of_mul_le_mul_right (c := 2 ^ 64) ?_ (by decide)
  have g6 : 10 * (u - 1) * 2 ^ 64 = 10 * (u * 2 ^ 64) - 10 * 2 ^ 64 := by
    rw [Nat.mul_assoc, Nat.sub_mul, Nat.mul_sub, Nat.one_mul]
  obtain ⟨R, hR⟩ : ∃ R, n10 * (u - l - 2) * 2 ^ 64 = R := ⟨_, rfl⟩
  obtain ⟨NG, hNG⟩ : ∃ NG, n10 * G = NG := ⟨_, rfl⟩
  rw [hR] at g3 ⊢
  rw [hNG] at g2 hn
  rw [g3] at g2
  rw [g6]
  clear g3 g6 hR hNG
  omega

/-! the three rounded products: the shrunk interval `[l+1, u-1]` is non-empty, contains `w`, and is wide enough for the
digit-count bound (`10^17` for binary64, `10^9` for binary32) -/
theorem interval_facts_f32 {m su c : Nat} (hm1 : 1 ≤ m) (hm2 : m < 2 ^ 24) (hsu : 39 ≤ su)
    (hc : 2 ^ 63 ≤ c) :
    rnd (if m = 2 ^ 23 then (4 * m - 1) * 2 ^ (su - 1) else (2 * m - 1) * 2 ^ su) c + 3
        ≤ rnd ((2 * m + 1) * 2 ^ su) c
    ∧ rnd (2 * m * 2 ^ su) c + 1 ≤ rnd ((2 * m + 1) * 2 ^ su) c
    ∧ 10 * (rnd ((2 * m + 1) * 2 ^ su) c - 1) ≤ 10 ^ 9 *
        (rnd ((2 * m + 1) * 2 ^ su) c - 1
          - (rnd (if m = 2 ^ 23 then (4 * m - 1) * 2 ^ (su - 1) else (2 * m - 1) * 2 ^ su) c + 1)) := by
  unfold rnd
  obtain ⟨s1, rfl⟩ : ∃ s1, su = s1 + 1 := ⟨su - 1, by omega⟩
  rw [Nat.add_sub_cancel]
  have hK' : 2 ^ 101 ≤ 2 ^ s1 * c := by
    have h := Nat.mul_le_mul (Nat.pow_le_pow_right (by decide : 0 < 2) (by omega : 38 ≤ s1)) hc
    have e : (2 : Nat) ^ 38 * 2 ^ 63 = 2 ^ 101 := by decide
    rw [e] at h
    exact h
  have eU : (2 * m + 1) * 2 ^ (s1 + 1) * c = (4 * m + 2) * (2 ^ s1 * c) := by rw [Nat.pow_succ]; ring
  have eW : 2 * m * 2 ^ (s1 + 1) * c = 4 * m * (2 ^ s1 * c) := by rw [Nat.pow_succ]; ring
  have eL1 : (2 * m - 1) * 2 ^ (s1 + 1) * c = (4 * m - 2) * (2 ^ s1 * c) := by
    rw [Nat.pow_succ]
    have : (2 * m - 1) * (2 ^ s1 * 2) = (4 * m - 2) * 2 ^ s1 := by
      rw [Nat.sub_mul, Nat.sub_mul]; ring_nf
    rw [this]; ring
  have eL2 : (4 * m - 1) * 2 ^ s1 * c = (4 * m - 1) * (2 ^ s1 * c) := by ring
  generalize 2 ^ s1 * c = K at *
  have hMK : 4 * m * K ≤ 4 * 2 ^ 24 * K := Nat.mul_le_mul_right K (by omega)
  have e1 : (4 * m + 2) * K = 4 * m * K + 2 * K := by ring
  have e2 : (4 * m - 2) * K = 4 * m * K - 2 * K := by rw [Nat.sub_mul]
  have e3 : (4 * m - 1) * K = 4 * m * K - K := by rw [Nat.sub_mul, Nat.one_mul]
  have e4 : 4 * K ≤ 4 * m * K := by
    calc 4 * K = 4 * 1 * K := by ring
      _ ≤ 4 * m * K := Nat.mul_le_mul_right K (by omega)
  by_cases hh : m = 2 ^ 23
  · rw [if_pos hh, eU, eW, eL2]
    have hm : 4 * m * K = 2 * 2 ^ 24 * K := by rw [hh]; ring
    clear eU eW eL1 eL2 hsu hc
    refine shrunk_gen (G := 3 * K) ?_ ?_ ?_ ?_
    · omega
    · omega
    · omega
    · show 10 * ((4 * m + 2) * K) + 3 * 10 ^ 9 * 2 ^ 64 + 10 * 2 ^ 64 ≤ 10 ^ 9 * (3 * K)
      omega
  · rw [if_neg hh, eU, eW, eL1]
    clear eU eW eL1 eL2 hsu hc
    refine shrunk_gen (G := 4 * K) ?_ ?_ ?_ ?_
    · omega
    · omega
    · omega
    · show 10 * ((4 * m + 2) * K) + 3 * 10 ^ 9 * 2 ^ 64 + 10 * 2 ^ 64 ≤ 10 ^ 9 * (4 * K)
      omega

theorem interval_facts_f64 {m su c : Nat} (hm1 : 1 ≤ m) (hm2 : m < 2 ^ 53) (hsu : 10 ≤ su)
    (hc : 2 ^ 63 ≤ c) :
    rnd (if m = 2 ^ 52 then (4 * m - 1) * 2 ^ (su - 1) else (2 * m - 1) * 2 ^ su) c + 3
        ≤ rnd ((2 * m + 1) * 2 ^ su) c
    ∧ rnd (2 * m * 2 ^ su) c + 1 ≤ rnd ((2 * m + 1) * 2 ^ su) c
    ∧ 10 * (rnd ((2 * m + 1) * 2 ^ su) c - 1) ≤ 10 ^ 17 *
        (rnd ((2 * m + 1) * 2 ^ su) c - 1
          - (rnd (if m = 2 ^ 52 then (4 * m - 1) * 2 ^ (su - 1) else (2 * m - 1) * 2 ^ su) c + 1)) := by
  unfold rnd
  obtain ⟨s1, rfl⟩ : ∃ s1, su = s1 + 1 := ⟨su - 1, by omega⟩
  rw [Nat.add_sub_cancel]
  have hK' : 2 ^ 72 ≤ 2 ^ s1 * c := by
    have h := Nat.mul_le_mul (Nat.pow_le_pow_right (by decide : 0 < 2) (by omega : 9 ≤ s1)) hc
    have e : (2 : Nat) ^ 9 * 2 ^ 63 = 2 ^ 72 := by decide
    rw [e] at h
    exact h
  have eU : (2 * m + 1) * 2 ^ (s1 + 1) * c = (4 * m + 2) * (2 ^ s1 * c) := by rw [Nat.pow_succ]; ring
  have eW : 2 * m * 2 ^ (s1 + 1) * c = 4 * m * (2 ^ s1 * c) := by rw [Nat.pow_succ]; ring
  have eL1 : (2 * m - 1) * 2 ^ (s1 + 1) * c = (4 * m - 2) * (2 ^ s1 * c) := by
    rw [Nat.pow_succ]
    have : (2 * m - 1) * (2 ^ s1 * 2) = (4 * m - 2) * 2 ^ s1 := by
      rw [Nat.sub_mul, Nat.sub_mul]; ring_nf
    rw [this]; ring
  have eL2 : (4 * m - 1) * 2 ^ s1 * c = (4 * m - 1) * (2 ^ s1 * c) := by ring
  generalize 2 ^ s1 * c = K at *
  have hMK : 4 * m * K ≤ 4 * 2 ^ 53 * K := Nat.mul_le_mul_right K (by omega)
  have e1 : (4 * m + 2) * K = 4 * m * K + 2 * K := by ring
  have e2 : (4 * m - 2) * K = 4 * m * K - 2 * K := by rw [Nat.sub_mul]
  have e3 : (4 * m - 1) * K = 4 * m * K - K := by rw [Nat.sub_mul, Nat.one_mul]
  have e4 : 4 * K ≤ 4 * m * K := by
    calc 4 * K = 4 * 1 * K := by ring
      _ ≤ 4 * m * K := Nat.mul_le_mul_right K (by omega)
  by_cases hh : m = 2 ^ 52
  · rw [if_pos hh, eU, eW, eL2]
    have hm : 4 * m * K = 2 * 2 ^ 53 * K := by rw [hh]; ring
    clear eU eW eL1 eL2 hsu hc
    refine shrunk_gen (G := 3 * K) ?_ ?_ ?_ ?_
    · omega
    · omega
    · omega
    · show 10 * ((4 * m + 2) * K) + 3 * 10 ^ 17 * 2 ^ 64 + 10 * 2 ^ 64 ≤ 10 ^ 17 * (3 * K)
      omega
  · rw [if_neg hh, eU, eW, eL1]
    clear eU eW eL1 eL2 hsu hc
    refine shrunk_gen (G := 4 * K) ?_ ?_ ?_ ?_
    · omega
    · omega
    · omega
    · show 10 * ((4 * m + 2) * K) + 3 * 10 ^ 17 * 2 ^ 64 + 10 * 2 ^ 64 ≤ 10 ^ 17 * (4 * K)
      omega

end LexVerif.Proof.GrisuCore
