import LexVerif.Props.C12
/-!
# Proof.ParseNumberTotal — the iterator invariant carried through the float syntax model (C10, release mode)

`Adv b b'`: `b'` is a later state of the same buffer: same slice, cursor moved forward and still inside the
buffer, and the three digit counts grew by at most the distance the cursor moved (so `counts ≤ index` is
preserved, and every `get_unchecked(..n_digits)` slice stays inside what is left of the buffer).

`TotP proj b r`: the result `r` of a model function started at `b` is either `ok a` with `Adv b (proj a)` or an
`Error::Kind(i)` with `i ≤ length` — never `fault`, never `panic`.
-/
namespace LexVerif.Proof.PNTotal
open LexVerif LexVerif.Model LexVerif.Props.C12

/-- sum of the three digit counts -/
def csum (b : Bytes) : Nat := b.ic + b.fc + b.ec

structure Adv (b b' : Bytes) : Prop where
  slc : b'.slc = b.slc
  valid : b'.index ≤ b.slc.length
  mono : b.index ≤ b'.index
  cnt : csum b' + b.index ≤ csum b + b'.index

theorem Adv.refl (b : Bytes) (h : b.index ≤ b.slc.length) : Adv b b :=
  ⟨rfl, h, Nat.le_refl _, Nat.le_refl _⟩

theorem Adv.trans {a b c : Bytes} (h1 : Adv a b) (h2 : Adv b c) : Adv a c := by
  refine ⟨h2.slc.trans h1.slc, ?_, Nat.le_trans h1.mono h2.mono, ?_⟩
  · have := h2.valid; rw [h1.slc] at this; exact this
  · have := h1.cnt; have := h2.cnt; omega

theorem Adv.valid' {a b : Bytes} (h : Adv a b) : b.index ≤ b.slc.length := by
  rw [h.slc]; exact h.valid

theorem Adv.len {a b : Bytes} (h : Adv a b) : b.slc.length = a.slc.length := by rw [h.slc]

/-- acceptable failures: `Error::Kind(i)` with the index inside the buffer -/
def ErrOK (n : Nat) : Err → Prop
  | .err _ i => i ≤ n
  | _ => False

/-- totality predicate of one model step -/
def TotP {α : Type} (proj : α → Bytes) (b : Bytes) (r : Except Err α) : Prop :=
  match r with
  | .ok a => Adv b (proj a)
  | .error e => ErrOK b.slc.length e

theorem TotP.lift {α : Type} {p : α → Bytes} {b b1 : Bytes} {r : Except Err α} (h : Adv b b1) (hr : TotP p b1 r) :
    TotP p b r := by
  unfold TotP at *
  cases r with
  | ok a => exact h.trans hr
  | error e => simpa [h.len] using hr

theorem TotP.bind {α β : Type} {pa : α → Bytes} {pb : β → Bytes} {b : Bytes} {x : Except Err α}
    {f : α → Except Err β} (hx : TotP pa b x) (hf : ∀ a, x = .ok a → Adv b (pa a) → TotP pb (pa a) (f a)) :
    TotP pb b (x >>= f) := by
  cases x with
  | error e => exact hx
  | ok a => exact TotP.lift hx (hf a rfl hx)

theorem TotP.ok {α : Type} {p : α → Bytes} {b : Bytes} {a : α} (h : Adv b (p a)) : TotP p b (.ok a) := h
theorem TotP.pure {α : Type} {p : α → Bytes} {b : Bytes} {a : α} (h : Adv b (p a)) :
    TotP p b (pure a : Except Err α) := h
theorem TotP.err {α : Type} {p : α → Bytes} {b : Bytes} {k : String} {i : Nat} (h : i ≤ b.slc.length) :
    TotP p b (.error (.err k i) : Except Err α) := h

/-- release build of a format whose separator flags are not "consecutive alone" (what `format.is_valid()` gives) -/
structure Rel (c : Cfg) : Prop where
  hd : c.debug = false
  hs : ∀ k, c.skip k ≠ .unreachable

variable {c : Cfg}

theorem peek_tot (hc : Rel c) (k : Comp) (b : Bytes) (hv : b.index ≤ b.slc.length) :
    ∃ v b', peek c k b = .ok (v, b') ∧ Adv b b' ∧ v = b'.slc[b'.index]? ∧ csum b' = csum b := by
  cases hp : peek c k b with
  | error e => exact absurd ((peek_error_iff c k b).mp ⟨e, hp⟩) (hc.hs k)
  | ok r =>
    obtain ⟨v, b'⟩ := r
    have h := peek_spec c k b b' v hv hp
    refine ⟨v, b', rfl, ⟨h.1, ?_, h.2.2.2.2.1, ?_⟩, h.2.2.2.2.2.2, ?_⟩
    · have := h.2.2.2.2.2.1; unfold Bytes.Valid at this; rw [h.1] at this; exact this
    · simp only [csum, h.2.1, h.2.2.1, h.2.2.2.1]; omega
    · simp only [csum, h.2.1, h.2.2.1, h.2.2.2.1]

theorem peek_TotP (hc : Rel c) (k : Comp) (b : Bytes) (hv : b.index ≤ b.slc.length) :
    TotP Prod.snd b (peek c k b) := by
  obtain ⟨v, b', h, ha, _⟩ := peek_tot hc k b hv
  rw [h]; exact ha

theorem some_lt {b : Bytes} {x : Nat} (h : some x = b.slc[b.index]?) : b.index < b.slc.length := by
  rcases List.getElem?_eq_some_iff.mp h.symm with ⟨hl, _⟩; exact hl

theorem step_adv (b : Bytes) (n : Nat) (h : b.index + n ≤ b.slc.length) : Adv b { b with index := b.index + n } :=
  ⟨rfl, h, Nat.le_add_right _ _, by simp only [csum]; omega⟩

theorem iterStep_rel (hc : Rel c) (k : Comp) (b : Bytes) : iterStep c k b = .ok { b with index := b.index + 1 } := by
  simp [iterStep, stepUnchecked_release c _ b hc.hd]

theorem bstep_rel (hc : Rel c) (b : Bytes) : b.step c = .ok { b with index := b.index + 1 } := by
  simp [Bytes.step, stepUnchecked_release c _ b hc.hd]

theorem stepBy_rel (hc : Rel c) (contig : Bool) (n : Nat) (b : Bytes) :
    b.stepBy c contig n = .ok { b with index := b.index + n } := by
  simp [Bytes.stepBy, hc.hd]

theorem incCount_csum (k : Comp) (b : Bytes) : csum (Bytes.incCount c k b) ≤ csum b + 1 := by
  unfold Bytes.incCount
  split
  · simp only [csum]; omega
  · cases k <;> simp only [csum] <;> omega

/-- counting one digit after the cursor moved at least one byte further than the counts -/
theorem incCount_adv (k : Comp) {b b1 : Bytes} (ha : Adv b b1) (hs : csum b1 + b.index + 1 ≤ csum b + b1.index) :
    Adv b (Bytes.incCount c k b1) := by
  have hi := incCount_spec c k b1
  have := incCount_csum (c := c) k b1
  exact ⟨by rw [hi.1]; exact ha.slc, by rw [hi.2]; exact ha.valid, by rw [hi.2]; exact ha.mono, by rw [hi.2]; omega⟩

/-- counting `l.length` digits after the cursor moved at least that many bytes further than the counts
(`for _ in 0..8 { iter.increment_count() }` after `step_by_unchecked(8)`) -/
theorem incCountFold_adv (k : Comp) : ∀ (l : List Nat) {b b1 : Bytes}, Adv b b1 →
    csum b1 + b.index + l.length ≤ csum b + b1.index →
    Adv b (l.foldl (fun b _ => Bytes.incCount c k b) b1) ∧
      (l.foldl (fun b _ => Bytes.incCount c k b) b1).index = b1.index := by
  intro l
  induction l with
  | nil => intro b b1 ha _; exact ⟨ha, rfl⟩
  | cons x xs ih =>
    intro b b1 ha hs
    simp only [List.length_cons] at hs
    have hi := incCount_spec c k b1
    have hcs := incCount_csum (c := c) k b1
    have ha2 := incCount_adv (c := c) k ha (by omega)
    obtain ⟨h1, h2⟩ := ih ha2 (by rw [hi.2]; omega)
    exact ⟨h1, by rw [List.foldl_cons, h2, hi.2]⟩

/-! ## `read_if_value`, `skip_zeros`, `is_consumed` -/

theorem readIfValueCased_tot (hc : Rel c) (k : Comp) (v : Nat) (b : Bytes) (hv : b.index ≤ b.slc.length) :
    ∃ hit b', readIfValueCased c k v b = .ok (hit, b') ∧ Adv b b' ∧
      (hit = true → b.index < b'.index ∧ csum b' + b.index + 1 ≤ csum b + b'.index) := by
  obtain ⟨x, b1, hp, ha, hx, hcs⟩ := peek_tot hc k b hv
  unfold readIfValueCased
  simp only [hp, bind, Except.bind]
  split
  · next heq =>
    have hlt : b1.index < b1.slc.length := by
      have : x = some v := by simpa using heq
      exact some_lt (x := v) (by rw [← this]; exact hx)
    rw [iterStep_rel hc]
    refine ⟨true, _, rfl, ha.trans (step_adv b1 1 hlt), ?_⟩
    intro _; have := ha.mono; simp only [csum] at *; omega
  · exact ⟨false, b1, rfl, ha, by simp⟩

theorem readIfValueUncased_tot (hc : Rel c) (k : Comp) (v : Nat) (b : Bytes) (hv : b.index ≤ b.slc.length) :
    ∃ hit b', readIfValueUncased c k v b = .ok (hit, b') ∧ Adv b b' := by
  obtain ⟨x, b1, hp, ha, hx, _⟩ := peek_tot hc k b hv
  unfold readIfValueUncased
  simp only [hp, bind, Except.bind]
  cases x with
  | none => exact ⟨false, b1, rfl, ha⟩
  | some y =>
    simp only
    split
    · rw [iterStep_rel hc]
      exact ⟨true, _, rfl, ha.trans (step_adv b1 1 (some_lt hx))⟩
    · exact ⟨false, b1, rfl, ha⟩

theorem readIfValue_tot (hc : Rel c) (k : Comp) (v : Nat) (cased : Bool) (b : Bytes) (hv : b.index ≤ b.slc.length) :
    ∃ hit b', readIfValue c k v cased b = .ok (hit, b') ∧ Adv b b' := by
  unfold readIfValue
  split
  · obtain ⟨hit, b', h, ha, _⟩ := readIfValueCased_tot hc k v b hv
    exact ⟨hit, b', h, ha⟩
  · exact readIfValueUncased_tot hc k v b hv

theorem skipZerosLoop_tot (hc : Rel c) (k : Comp) :
    ∀ (fuel : Nat) (b : Bytes), b.index ≤ b.slc.length → b.slc.length - b.index < fuel →
      ∃ b', skipZerosLoop c k fuel b = .ok b' ∧ Adv b b' := by
  intro fuel
  induction fuel with
  | zero => intro b _ h; omega
  | succ n ih =>
    intro b hv hf
    obtain ⟨hit, b1, hr, ha, hlt⟩ := readIfValueCased_tot hc k 48 b hv
    unfold skipZerosLoop
    simp only [hr, bind, Except.bind]
    cases hit with
    | false => exact ⟨b1, rfl, ha⟩
    | true =>
      simp only [if_true]
      obtain ⟨hlt, hcs⟩ := hlt rfl
      have ha2 := incCount_adv (c := c) k ha hcs
      have hi := incCount_spec c k b1
      have hl : (Bytes.incCount c k b1).slc.length = b.slc.length := by rw [hi.1, ha.len]
      have hi2 := hi.2
      have hva := ha.valid
      obtain ⟨b2, hr2, ha3⟩ := ih (Bytes.incCount c k b1) ha2.valid' (by rw [hl, hi2]; omega)
      exact ⟨b2, hr2, ha2.trans ha3⟩

theorem skipZeros_tot (hc : Rel c) (k : Comp) (b : Bytes) (hv : b.index ≤ b.slc.length) :
    ∃ n b', skipZeros c k b = .ok (n, b') ∧ Adv b b' := by
  obtain ⟨b', h, ha⟩ := skipZerosLoop_tot hc k (b.slc.length + 1) b hv (by omega)
  unfold skipZeros
  simp only [h, bind, Except.bind, pure, Except.pure]
  exact ⟨_, b', rfl, ha⟩

theorem isConsumed_tot (hc : Rel c) (k : Comp) (b : Bytes) (hv : b.index ≤ b.slc.length) :
    ∃ r b', isConsumed c k b = .ok (r, b') ∧ Adv b b' := by
  unfold isConsumed
  split
  · exact ⟨_, b, rfl, Adv.refl b hv⟩
  · obtain ⟨v, b', h, ha, _⟩ := peek_tot hc k b hv
    simp only [h, bind, Except.bind, pure, Except.pure]
    exact ⟨_, b', rfl, ha⟩

/-! ## digit loops -/

theorem parseDigitsLoop_tot (hc : Rel c) (k : Comp) (radix : Nat) :
    ∀ (fuel : Nat) (b : Bytes), b.index ≤ b.slc.length → b.slc.length - b.index < fuel →
      ∃ ds b', parseDigitsLoop c k radix fuel b = .ok (ds, b') ∧ Adv b b' := by
  intro fuel
  induction fuel with
  | zero => intro b _ h; omega
  | succ n ih =>
    intro b hv hf
    obtain ⟨v, b1, hp, ha, hx, hcs⟩ := peek_tot hc k b hv
    unfold parseDigitsLoop
    simp only [hp, bind, Except.bind, pure, Except.pure]
    cases v with
    | none => exact ⟨[], b1, rfl, ha⟩
    | some ch =>
      simp only
      cases hdg : charToDigit ch radix with
      | none => exact ⟨[], b1, rfl, ha⟩
      | some d =>
        simp only [iterStep_rel hc]
        have hlt := some_lt hx
        have ha1 : Adv b { b1 with index := b1.index + 1 } := ha.trans (step_adv b1 1 hlt)
        have hm := ha.mono
        have ha2 := incCount_adv (c := c) k ha1 (by simp only [csum] at *; omega)
        have hi := incCount_spec c k { b1 with index := b1.index + 1 }
        have hl : (Bytes.incCount c k { b1 with index := b1.index + 1 }).slc.length = b.slc.length := by
          rw [hi.1]; exact ha.len
        have hi2 := hi.2
        simp only at hi2
        have hlen := ha.len
        obtain ⟨ds2, b2, hr2, ha3⟩ := ih _ ha2.valid' (by rw [hl, hi2]; omega)
        simp only [hr2]
        exact ⟨d :: ds2, b2, rfl, ha2.trans ha3⟩

theorem parseDigits_tot (hc : Rel c) (k : Comp) (radix : Nat) (b : Bytes) (hv : b.index ≤ b.slc.length) :
    ∃ ds b', parseDigits c k radix b = .ok (ds, b') ∧ Adv b b' :=
  parseDigitsLoop_tot hc k radix _ b hv (by omega)

theorem peekBytes_some {k : Comp} {n : Nat} {b : Bytes} {bs : List Nat} (h : peekBytes c k n b = some bs) :
    b.index + n ≤ b.slc.length := by
  unfold peekBytes at h
  split at h
  · next hcond => simp only [Bool.and_eq_true, decide_eq_true_eq] at hcond; omega
  · cases h

theorem tryParse8_tot (hc : Rel c) (k : Comp) (b : Bytes) (hv : b.index ≤ b.slc.length) :
    ∃ v b', tryParse8 c k b = .ok (v, b') ∧ Adv b b' ∧ (v.isSome = true → b.index + 8 ≤ b'.index) := by
  unfold tryParse8
  simp only [hc.hd, Bool.false_and, Bool.false_eq_true, ↓reduceIte, pure, Except.pure]
  cases hpb : peekBytes c k 8 b with
  | none => exact ⟨none, b, rfl, Adv.refl b hv, by simp⟩
  | some bs =>
    simp only
    have h8 := peekBytes_some hpb
    split
    · simp only [stepBy_rel hc, bind, Except.bind]
      obtain ⟨h1, h2⟩ := incCountFold_adv (c := c) k (List.range 8) (step_adv b 8 h8)
        (by simp only [csum, List.length_range]; omega)
      exact ⟨_, _, rfl, h1, fun _ => by rw [h2]; exact Nat.le_refl _⟩
    · exact ⟨none, b, rfl, Adv.refl b hv, by simp⟩

theorem parse8Loop_tot (hc : Rel c) (k : Comp) :
    ∀ (fuel : Nat) (b : Bytes) (m : Nat), b.index ≤ b.slc.length → b.slc.length - b.index < fuel →
      ∃ m' b', parse8Loop c k fuel b m = .ok (m', b') ∧ Adv b b' := by
  intro fuel
  induction fuel with
  | zero => intro b _ _ h; omega
  | succ n ih =>
    intro b m hv hf
    obtain ⟨v, b1, hp, ha, h8⟩ := tryParse8_tot hc k b hv
    unfold parse8Loop
    simp only [hp, bind, Except.bind, pure, Except.pure]
    cases v with
    | none => exact ⟨m, b1, rfl, ha⟩
    | some x =>
      simp only
      have h8 := h8 rfl
      have hva := ha.valid
      obtain ⟨m2, b2, hr2, ha3⟩ := ih b1 ((m * radix8 c.mantissaRadix + x) % pow2_64) ha.valid' (by rw [ha.len]; omega)
      exact ⟨m2, b2, hr2, ha.trans ha3⟩

theorem parse8Digits_tot (hc : Rel c) (k : Comp) (b : Bytes) (m : Nat) (hv : b.index ≤ b.slc.length) :
    ∃ m' b', parse8Digits c k b m = .ok (m', b') ∧ Adv b b' := by
  unfold parse8Digits
  simp only [hc.hd, Bool.false_and, Bool.false_eq_true, ↓reduceIte, pure, Except.pure]
  split
  · exact ⟨m, b, rfl, Adv.refl b hv⟩
  · split
    · exact parse8Loop_tot hc k _ b m hv (by omega)
    · exact ⟨m, b, rfl, Adv.refl b hv⟩

theorem u64Loop8_tot (hc : Rel c) (k : Comp) :
    ∀ (fuel : Nat) (b : Bytes) (m step : Nat), b.index ≤ b.slc.length → b.slc.length - b.index < fuel →
      ∃ b' m' step', u64Loop8 c k fuel b m step = .ok (b', m', step') ∧ Adv b b' := by
  intro fuel
  induction fuel with
  | zero => intro b _ _ _ h; omega
  | succ n ih =>
    intro b m step hv hf
    unfold u64Loop8
    split
    · obtain ⟨v, b1, hp, ha, h8⟩ := tryParse8_tot hc k b hv
      simp only [hp, bind, Except.bind, pure, Except.pure]
      cases v with
      | none => exact ⟨b1, m, step, rfl, ha⟩
      | some x =>
        simp only
        have h8 := h8 rfl
        have hva := ha.valid
        obtain ⟨b2, m2, s2, hr2, ha3⟩ := ih b1 ((m * radix8 c.mantissaRadix + x) % pow2_64) (step - 8) ha.valid'
          (by rw [ha.len]; omega)
        exact ⟨b2, m2, s2, hr2, ha.trans ha3⟩
    · exact ⟨b, m, step, rfl, Adv.refl b hv⟩

theorem u64Loop1_tot (hc : Rel c) (k : Comp) :
    ∀ (fuel : Nat) (b : Bytes) (m step : Nat), b.index ≤ b.slc.length → b.slc.length - b.index < fuel →
      ∃ b' m' step', u64Loop1 c k fuel b m step = .ok (b', m', step') ∧ Adv b b' := by
  intro fuel
  induction fuel with
  | zero => intro b _ _ _ h; omega
  | succ n ih =>
    intro b m step hv hf
    obtain ⟨v, b1, hp, ha, hx, hcs⟩ := peek_tot hc k b hv
    unfold u64Loop1
    simp only [hp, bind, Except.bind, pure, Except.pure]
    cases v with
    | none => exact ⟨b1, m, step, rfl, ha⟩
    | some ch =>
      simp only
      split
      · simp only [hc.hd, Bool.false_and, Bool.false_eq_true, ↓reduceIte, iterStep_rel hc]
        have hlt := some_lt hx
        have ha1 : Adv b { b1 with index := b1.index + 1 } := ha.trans (step_adv b1 1 hlt)
        have hm := ha.mono
        have ha2 := incCount_adv (c := c) k ha1 (by simp only [csum] at *; omega)
        have hi := incCount_spec c k { b1 with index := b1.index + 1 }
        have hl : (Bytes.incCount c k { b1 with index := b1.index + 1 }).slc.length = b.slc.length := by
          rw [hi.1]; exact ha.len
        have hi2 := hi.2
        simp only at hi2
        have hlen := ha.len
        obtain ⟨b2, m2, s2, hr2, ha3⟩ := ih _ ((m * c.mantissaRadix + charToValidDigit ch c.mantissaRadix) % pow2_64)
          (step - 1) ha2.valid' (by rw [hl, hi2]; omega)
        exact ⟨b2, m2, s2, hr2, ha2.trans ha3⟩
      · exact ⟨b1, m, step, rfl, ha⟩

theorem parseU64Digits_tot (hc : Rel c) (k : Comp) (b : Bytes) (m step : Nat) (hv : b.index ≤ b.slc.length) :
    ∃ b' m' step', parseU64Digits c k b m step = .ok (b', m', step') ∧ Adv b b' := by
  unfold parseU64Digits
  simp only [bind, Except.bind, pure, Except.pure]
  split
  · simp only [hc.hd, Bool.false_and, Bool.false_eq_true, ↓reduceIte]
    obtain ⟨b1, m1, s1, hr1, ha1⟩ := u64Loop8_tot hc k _ b m step hv (Nat.lt_succ_of_le (Nat.sub_le _ _))
    simp only [hr1]
    obtain ⟨b2, m2, s2, hr2, ha2⟩ := u64Loop1_tot hc k (b1.slc.length + 1) b1 m1 s1 ha1.valid'
      (Nat.lt_succ_of_le (Nat.sub_le _ _))
    exact ⟨b2, m2, s2, hr2, ha1.trans ha2⟩
  · exact u64Loop1_tot hc k (b.slc.length + 1) b m step hv (Nat.lt_succ_of_le (Nat.sub_le _ _))

end LexVerif.Proof.PNTotal
