import LexVerif.Proof.Div128
/-!
# Proof.Div128Slow — `slow_u128_divrem` (bit-serial restoring division) computes quotient and remainder
-/
namespace LexVerif.Model.WriteInt
open LexVerif.Spec

theorem lor_even (a b : Nat) (hb : b < 2) : Nat.lor (2 * a) b = 2 * a + b := by
  have := Nat.two_pow_add_eq_or_of_lt (i := 1) (b := b) (by simpa using hb) a
  simp only [Nat.pow_one] at this
  exact this.symm

theorem slowLoop_succ (d k q r c : Nat) : slowLoop d (k + 1) q r c =
    slowLoop d k (slowQ1 q c) (slowR2 d (slowR1 q r)) (slowS d (slowR1 q r)) := rfl

/-- the arithmetic content of one iteration: shift in the top bit of `q`, compare-and-subtract -/
theorem slow_step (d q r c : Nat) (hd : 0 < d) (hd64 : d < 2 ^ 64) (hr : r < d) (hq : q < 2 ^ 128) (hc : c < 2) :
    slowQ1 q c = q % 2 ^ 127 * 2 + c ∧
    slowS d (slowR1 q r) = (2 * r + q / 2 ^ 127) / d ∧
    slowR2 d (slowR1 q r) = (2 * r + q / 2 ^ 127) % d := by
  obtain ⟨b, hb'⟩ : ∃ b, b = q / 2 ^ 127 := ⟨_, rfl⟩
  obtain ⟨r1, hr1'⟩ : ∃ r1, r1 = 2 * r + b := ⟨_, rfl⟩
  rw [← hb', ← hr1']
  have hb : b < 2 := by omega
  have e1 : w128 (r * 2) = 2 * r := by unfold w128; omega
  have e2 : slowR1 q r = r1 := by unfold slowR1; rw [e1, ← hb', hr1']; exact lor_even r b hb
  have e3 : w128 (q * 2) = 2 * (q % 2 ^ 127) := by unfold w128; omega
  have hr1 : r1 < 2 * d := by omega
  have hdiv : r1 / d = if d ≤ r1 then 1 else 0 := by
    by_cases h : d ≤ r1
    · rw [if_pos h]
      exact Nat.div_eq_of_lt_le (by omega) (by omega)
    · rw [if_neg h]; exact Nat.div_eq_of_lt (by omega)
  have hmod : r1 % d = if d ≤ r1 then r1 - d else r1 := by
    by_cases h : d ≤ r1
    · rw [if_pos h, Nat.mod_eq_sub_mod h, Nat.mod_eq_of_lt (by omega)]
    · rw [if_neg h]; exact Nat.mod_eq_of_lt (by omega)
  have hs : slowS d r1 = if d ≤ r1 then 1 else 0 := by
    unfold slowS w128
    by_cases h : d ≤ r1
    · rw [if_pos h]; omega
    · rw [if_neg h]; omega
  refine ⟨by unfold slowQ1; rw [e3, lor_even _ c hc]; omega, ?_, ?_⟩
  · rw [e2, hs, hdiv]
  · rw [e2, hmod]
    unfold slowR2
    rw [hs]
    by_cases h : d ≤ r1
    · rw [if_pos h, if_pos rfl, if_pos h]; unfold w128; omega
    · rw [if_neg h, if_neg (by omega), if_neg h]

/-- loop invariant: with `k` bits `low` still to shift in (held at the top of `q`), accumulated quotient bits
`2·Qh + c` and partial remainder `r < d`, the loop ends with the remainder of `r·2^k + low` and the quotient bits
extended by `(r·2^k + low) / d` -/
theorem slowLoop_spec (d : Nat) (hd : 0 < d) (hd64 : d < 2 ^ 64) : ∀ (k q r c low Qh : Nat),
    q = low * 2 ^ (128 - k) + Qh → low < 2 ^ k → r < d → c < 2 → k ≤ 127 → (2 * Qh + c + 1) * 2 ^ k ≤ 2 ^ 127 →
    (slowLoop d k q r c).2.1 = (r * 2 ^ k + low) % d ∧
    2 * (slowLoop d k q r c).1 + (slowLoop d k q r c).2.2 = (2 * Qh + c) * 2 ^ k + (r * 2 ^ k + low) / d ∧
    (slowLoop d k q r c).2.2 < 2 ∧ 2 * (slowLoop d k q r c).1 + (slowLoop d k q r c).2.2 < 2 ^ 127 := by
  intro k
  induction k with
  | zero =>
    intro q r c low Qh hq hlow hr hc _ hinv
    have hl0 : low = 0 := by simpa using hlow
    subst hl0
    simp only [slowLoop, Nat.pow_zero, Nat.mul_one, Nat.add_zero, Nat.zero_mul, Nat.zero_add] at hq hinv ⊢
    subst hq
    rw [Nat.mod_eq_of_lt hr, Nat.div_eq_of_lt hr]
    omega
  | succ k ih =>
    intro q r c low Qh hq hlow hr hc hk hinv
    -- split the bits still to come
    obtain ⟨b, hb⟩ : ∃ b, b = low / 2 ^ k := ⟨_, rfl⟩
    obtain ⟨low', hl'⟩ : ∃ l, l = low % 2 ^ k := ⟨_, rfl⟩
    have hpk : 0 < 2 ^ k := Nat.pow_pos (by omega)
    have hp1 : 2 ^ (k + 1) = 2 ^ k * 2 := by rw [Nat.pow_succ]
    have hlow' : low' < 2 ^ k := by rw [hl']; exact Nat.mod_lt _ hpk
    have hb2 : b < 2 := by rw [hb]; exact Nat.div_lt_of_lt_mul (by omega)
    have hlowe : low = b * 2 ^ k + low' := by rw [hb, hl', Nat.mul_comm]; exact (Nat.div_add_mod low (2 ^ k)).symm
    -- powers of two around position 127 - k
    obtain ⟨P, hP⟩ : ∃ P, P = 2 ^ (127 - k) := ⟨_, rfl⟩
    have hP0 : 0 < P := by rw [hP]; exact Nat.pow_pos (by omega)
    have hPk : 2 ^ k * P = 2 ^ 127 := by rw [hP, ← Nat.pow_add]; congr 1; omega
    have e128 : 2 ^ (128 - (k + 1)) = P := by rw [hP]; congr 1; omega
    have e128' : 2 ^ (128 - k) = P * 2 := by rw [hP, ← Nat.pow_succ]; congr 1; omega
    rw [e128] at hq
    have hQh : Qh < P := by
      -- (2 Qh + c + 1) * 2^(k+1) ≤ 2^127 = 2^k * P
      have h1 : (2 * Qh + c + 1) * (2 ^ k * 2) ≤ 2 ^ k * P := by rw [← hp1, hPk]; exact hinv
      have h2 : (2 * Qh + c + 1) * 2 * 2 ^ k ≤ P * 2 ^ k := by
        calc (2 * Qh + c + 1) * 2 * 2 ^ k = (2 * Qh + c + 1) * (2 ^ k * 2) := by ring
          _ ≤ 2 ^ k * P := h1
          _ = P * 2 ^ k := by ring
      have := Nat.le_of_mul_le_mul_right h2 hpk
      omega
    have hqlt : q < 2 ^ 128 := by
      have : low' * P + P ≤ 2 ^ k * P := by
        calc low' * P + P = (low' + 1) * P := by ring
          _ ≤ 2 ^ k * P := Nat.mul_le_mul_right P (by omega)
      have : low * P = b * 2 ^ 127 + low' * P := by rw [hlowe, Nat.add_mul, Nat.mul_assoc, hPk]
      omega
    have hqtop : q / 2 ^ 127 = b ∧ q % 2 ^ 127 = low' * P + Qh := by
      have hlp : low' * P + Qh < 2 ^ 127 := by
        have : low' * P + P ≤ 2 ^ k * P := by
          calc low' * P + P = (low' + 1) * P := by ring
            _ ≤ 2 ^ k * P := Nat.mul_le_mul_right P (by omega)
        omega
      have hqe : q = b * 2 ^ 127 + (low' * P + Qh) := by
        rw [hq, hlowe, Nat.add_mul, Nat.mul_assoc, hPk]; omega
      rw [hqe]
      constructor
      · rw [Nat.mul_comm, Nat.mul_add_div (by omega), Nat.div_eq_of_lt hlp]; simp
      · rw [Nat.mul_comm, Nat.mul_add_mod, Nat.mod_eq_of_lt hlp]
    obtain ⟨s1, s2, s3⟩ := slow_step d q r c hd hd64 hr hqlt hc
    rw [hqtop.1] at s2 s3
    rw [hqtop.2] at s1
    rw [slowLoop_succ, s1, s2, s3]
    have hr1 : 2 * r + b < 2 * d := by omega
    have hc1 : (2 * r + b) / d < 2 := Nat.div_lt_of_lt_mul (by omega)
    have hinv' : (2 * (2 * Qh + c) + (2 * r + b) / d + 1) * 2 ^ k ≤ 2 ^ 127 := by
      calc (2 * (2 * Qh + c) + (2 * r + b) / d + 1) * 2 ^ k ≤ (2 * (2 * Qh + c) + 2) * 2 ^ k :=
            Nat.mul_le_mul_right _ (by omega)
        _ = (2 * Qh + c + 1) * 2 ^ (k + 1) := by rw [hp1]; ring
        _ ≤ 2 ^ 127 := hinv
    have hq1 : (low' * P + Qh) * 2 + c = low' * 2 ^ (128 - k) + (2 * Qh + c) := by rw [e128']; ring
    obtain ⟨i1, i2, i3, i4⟩ := ih ((low' * P + Qh) * 2 + c) ((2 * r + b) % d) ((2 * r + b) / d) low' (2 * Qh + c) hq1
      hlow' (Nat.mod_lt _ hd) hc1 (by omega) hinv'
    refine ⟨?_, ?_, i3, i4⟩
    · rw [i1]
      -- r·2^(k+1) + low ≡ ((2r+b) % d)·2^k + low'  (mod d)
      have hdm := Nat.div_add_mod (2 * r + b) d
      have : r * 2 ^ (k + 1) + low = d * ((2 * r + b) / d * 2 ^ k) + ((2 * r + b) % d * 2 ^ k + low') := by
        rw [hp1, hlowe]
        calc r * (2 ^ k * 2) + (b * 2 ^ k + low') = (2 * r + b) * 2 ^ k + low' := by ring
          _ = (d * ((2 * r + b) / d) + (2 * r + b) % d) * 2 ^ k + low' := by rw [hdm]
          _ = _ := by ring
      rw [this, Nat.mul_add_mod]
    · rw [i2]
      have hdm := Nat.div_add_mod (2 * r + b) d
      have : r * 2 ^ (k + 1) + low = d * ((2 * r + b) / d * 2 ^ k) + ((2 * r + b) % d * 2 ^ k + low') := by
        rw [hp1, hlowe]
        calc r * (2 ^ k * 2) + (b * 2 ^ k + low') = (2 * r + b) * 2 ^ k + low' := by ring
          _ = (d * ((2 * r + b) / d) + (2 * r + b) % d) * 2 ^ k + low' := by rw [hdm]
          _ = _ := by ring
      rw [this, Nat.mul_add_div hd, hp1]
      ring

end LexVerif.Model.WriteInt

namespace LexVerif.Model.WriteInt
open LexVerif.Spec

theorem log2_bounds (x : Nat) (hx : x ≠ 0) : 2 ^ Nat.log2 x ≤ x ∧ x < 2 ^ (Nat.log2 x + 1) :=
  ⟨Nat.log2_self_le hx, Nat.lt_log2_self⟩

/-- `slow_u128_divrem(n, d, d.leading_zeros())` for a 64-bit divisor of at least 32 bits -/
theorem slow_spec (n d c : Nat) (hn : n < 2 ^ 128) (hd32 : 2 ^ 32 ≤ d) (hd64 : d < 2 ^ 64) (hc : c = clz 64 d) :
    slowU128Divrem n d c = .ok (n / d, n % d) := by
  have hd : 0 < d := by omega
  unfold slowU128Divrem
  have hhigh : n / 2 ^ 64 % 2 ^ 64 = n / 2 ^ 64 := by omega
  simp only [hhigh]
  by_cases h0 : n / 2 ^ 64 = 0
  · rw [if_pos h0]
    have : n % 2 ^ 64 = n := by omega
    simp only [this]
    rw [if_neg (by omega)]
  · rw [if_neg h0]
    obtain ⟨high, hh⟩ : ∃ h, h = n / 2 ^ 64 := ⟨_, rfl⟩
    rw [← hh] at h0 ⊢
    obtain ⟨hbh1, hbh2⟩ := log2_bounds high h0
    obtain ⟨hbd1, hbd2⟩ := log2_bounds d (by omega)
    obtain ⟨bh, hbh⟩ : ∃ b, b = Nat.log2 high := ⟨_, rfl⟩
    obtain ⟨bd, hbd⟩ : ∃ b, b = Nat.log2 d := ⟨_, rfl⟩
    rw [← hbh] at hbh1 hbh2
    rw [← hbd] at hbd1 hbd2
    have hbh64 : bh < 64 := by
      rcases Nat.lt_or_ge bh 64 with h | h
      · exact h
      · have : (2:Nat) ^ 64 ≤ 2 ^ bh := Nat.pow_le_pow_right (by omega) h
        omega
    have hbd64 : bd < 64 := by
      rcases Nat.lt_or_ge bd 64 with h | h
      · exact h
      · have : (2:Nat) ^ 64 ≤ 2 ^ bd := Nat.pow_le_pow_right (by omega) h
        omega
    have hbd32 : 31 ≤ bd := by
      rcases Nat.lt_or_ge bd 31 with h | h
      · have : (2:Nat) ^ (bd + 1) ≤ 2 ^ 31 := Nat.pow_le_pow_right (by omega) (by omega)
        omega
      · exact h
    have hclzh : clz 64 high = 63 - bh := by unfold clz; rw [if_neg h0, ← hbh]; omega
    have hclzd : c = 63 - bd := by rw [hc]; unfold clz; rw [if_neg (by omega), ← hbd]; omega
    have hsr : (65 + c + (2 ^ 32 - clz 64 high)) % 2 ^ 32 = 65 + bh - bd := by rw [hclzh, hclzd]; omega
    simp only [hsr]
    obtain ⟨sr, hsr'⟩ : ∃ s, s = 65 + bh - bd := ⟨_, rfl⟩
    rw [← hsr']
    have hsr1 : 2 ≤ sr := by omega
    have hsr2 : sr ≤ 97 := by omega
    rw [if_neg (by omega), if_neg (by omega)]
    -- the initial state
    have hpow : 2 ^ 128 = 2 ^ sr * 2 ^ (128 - sr) := by rw [← Nat.pow_add]; congr 1; omega
    have hq0 : w128 (n * 2 ^ (128 - sr)) = n % 2 ^ sr * 2 ^ (128 - sr) + 0 := by
      unfold w128; rw [hpow, Nat.mul_mod_mul_right]; simp
    have hnlt : n < 2 ^ (65 + bh) := by
      have h1 : n < (high + 1) * 2 ^ 64 := by rw [hh]; have := Nat.div_add_mod n (2 ^ 64); omega
      have h2 : (high + 1) * 2 ^ 64 ≤ 2 ^ (bh + 1) * 2 ^ 64 := Nat.mul_le_mul_right _ (by omega)
      have h3 : 2 ^ (bh + 1) * 2 ^ 64 = 2 ^ (65 + bh) := by rw [← Nat.pow_add]; congr 1; omega
      omega
    have hr0 : n / 2 ^ sr < d := by
      have h1 : 2 ^ (65 + bh) = 2 ^ sr * 2 ^ bd := by rw [← Nat.pow_add]; congr 1; omega
      have : n / 2 ^ sr < 2 ^ bd := Nat.div_lt_of_lt_mul (by rw [← h1]; exact hnlt)
      omega
    have hinv : (2 * 0 + 0 + 1) * 2 ^ sr ≤ 2 ^ 127 := by
      have : (2:Nat) ^ sr ≤ 2 ^ 127 := Nat.pow_le_pow_right (by omega) (by omega)
      omega
    obtain ⟨i1, i2, i3, i4⟩ := slowLoop_spec d hd hd64 sr _ (n / 2 ^ sr) 0 (n % 2 ^ sr) 0 hq0
      (Nat.mod_lt _ (Nat.pow_pos (by omega))) hr0 (by omega) (by omega) hinv
    have hn' : n / 2 ^ sr * 2 ^ sr + n % 2 ^ sr = n := by rw [Nat.mul_comm]; exact Nat.div_add_mod n (2 ^ sr)
    rw [hn'] at i1 i2
    simp only [Nat.mul_zero, Nat.add_zero, Nat.zero_mul, Nat.zero_add] at i2
    generalize slowLoop d sr (w128 (n * 2 ^ (128 - sr))) (n / 2 ^ sr) 0 = res at *
    obtain ⟨q', r', c'⟩ := res
    simp only at i1 i2 i3 i4 ⊢
    have e1 : w128 (q' * 2) = 2 * q' := by unfold w128; omega
    have hrd : n % d < d := Nat.mod_lt n hd
    rw [e1, lor_even q' c' i3, i2, i1, Nat.mod_eq_of_lt (by omega)]

/-- the per-radix constants of `u128_divrem_<r>` are fit for purpose (cf. `Props.TablesWrite.div128_all`, which states
the same about the regenerated constants; `Props.C03Tie.divremKind_table` equates the two) -/
def DivOK (r : Nat) : Prop :=
  match divremKind r with
  | some (.pow2 mask shr) => shr ≤ 64 ∧ mask = 2 ^ shr - 1 ∧ 2 ^ shr = r ^ u64StepTable r
  | some (.slow d c) => d = r ^ u64StepTable r ∧ 2 ^ 32 ≤ d ∧ d < 2 ^ 64 ∧ c = clz 64 d
  | some (.moderate d f s) => d = r ^ u64StepTable r ∧ d < 2 ^ 64 ∧ s < 128 ∧ MulHiPre128 d f s
  | some (.fast d fa fs f s) => d = r ^ u64StepTable r ∧ d < 2 ^ 64 ∧ s < 128 ∧ fs < 128 ∧ fa = 2 ^ (64 + fs) ∧
      d % 2 ^ fs = 0 ∧ 0 < d / 2 ^ fs ∧ MulHiPre128 d f s
  | none => False

instance (r : Nat) : Decidable (DivOK r) := by
  unfold DivOK
  split <;> infer_instance

theorem divOK_all : ∀ r, 2 ≤ r → r ≤ 36 → DivOK r := by decide +kernel

/-- `u128_divrem_<r>(n) = (n / r^u64_step(r), n % r^u64_step(r))` for every radix -/
theorem runDivRem_spec (n r : Nat) (hn : n < 2 ^ 128) (hr : 2 ≤ r) (hr36 : r ≤ 36) :
    ∃ k, divremKind r = some k ∧
      runDivRem n k = .ok (n / r ^ u64StepTable r, n % r ^ u64StepTable r) := by
  have h := divOK_all r hr hr36
  unfold DivOK at h
  split at h
  · rename_i mask shr heq
    obtain ⟨h1, h2, h3⟩ := h
    exact ⟨_, heq, by rw [← h3]; exact pow2_spec n mask shr hn h1 h2⟩
  · rename_i d c heq
    obtain ⟨h1, h2, h3, h4⟩ := h
    exact ⟨_, heq, by rw [← h1]; exact slow_spec n d c hn h2 h3 h4⟩
  · rename_i d f s heq
    obtain ⟨h1, h2, h3, h4⟩ := h
    exact ⟨_, heq, by rw [← h1]; exact moderate_spec n d f s hn h2 h3 h4⟩
  · rename_i d fa fs f s heq
    obtain ⟨h1, h2, h3, h4, h5, h6, h7, h8⟩ := h
    exact ⟨_, heq, by rw [← h1]; exact fast_spec n d fa fs f s hn h2 h3 h4 h5 h6 h7 h8⟩
  · exact absurd h (by simp)

end LexVerif.Model.WriteInt
