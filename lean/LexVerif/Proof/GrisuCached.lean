import LexVerif.Model.Grisu
import LexVerif.Proof.Tables.Grisu
/-!
# Proof.GrisuCached — the model's `cached_grisu_power` (exact-rational version of the `f64` index estimate, then the
adjusting loop over `Gen.Grisu.powersOfTen`) returns, for EVERY argument of the admissible range `[-1140, 1089]`,
exactly what the compiled crate returned (`Gen.Grisu.cached*`, R dump): mantissa, binary exponent, decimal exponent.
-/
namespace LexVerif.Proof.GrisuCached
open LexVerif LexVerif.Gen.Grisu LexVerif.Proof.Tables LexVerif.Model.Grisu

def rowOk (i : Nat) (r : Nat × Nat × Nat) : Bool :=
  cachedGrisuPower (cachedLo + i) ==
    some (⟨r.1, (r.2.1 : Int) - cachedBinExpBias⟩, (r.2.2 : Int) - cachedKBias)

theorem cached_model_walk : allIdx rowOk 0 Grisu.cachedRows = true := by decide +kernel

/-- per argument -/
theorem cachedGrisuPower_eq_dump (i : Nat) (h : i < Grisu.cachedRows.length) :
    cachedGrisuPower (cachedLo + i) =
      some (⟨Grisu.cachedRows[i].1, (Grisu.cachedRows[i].2.1 : Int) - cachedBinExpBias⟩,
            (Grisu.cachedRows[i].2.2 : Int) - cachedKBias) := by
  have := allIdx_get rowOk Grisu.cachedRows 0 cached_model_walk i h
  simpa [rowOk] using this

/-- `fast_binary_power` literal formula = the dumped table on `[-400, 400]` -/
theorem fastBinaryPower_walk :
    allIdx (vecOk (fun q v => fastBinaryPower q = v) fastBinaryPowerLo fastBinaryPowerTabBias) 0
      fastBinaryPowerTabBiased.toList = true := by decide +kernel

end LexVerif.Proof.GrisuCached
